/-
  PyEcc.Props.TieFieldsFq — TIE theorems ("generated = hand-written model") for the FIELD layer, part 1:
  `py_ecc.utils.prime_field_inv` and the class `FQ` of BOTH `py_ecc/fields/field_elements.py` (namespace
  `Gen.ExtraFieldsFq.Ref`) and `py_ecc/fields/optimized_field_elements.py` (namespace `Gen.ExtraFieldsFq.Opt`).

  `Gen/ExtraFieldsFq.lean` is re-generated from the Python source on every run (tools/translate/gen_fields.py).  In the
  generated code an `FQ` object is the value of its attribute `n` (an `Int`) and the class attribute `field_modulus` is
  an explicit parameter; one function is generated per operand kind (`_fq` / `_int`).  Each theorem below states that,
  for a model element `a : Fq p` (whose attribute is `a.n`) and modulus `p`, the generated method computes the
  attribute of the model's result — for ALL inputs.  A change to one of these Python methods changes the generated
  definition and breaks a theorem here statically.
-/
import PyEcc.Gen.ExtraFieldsFq

namespace PyEcc.Tie
open PyEcc

/-! ### py_ecc/utils.py -/

/-- the tuple-state loop generated from `prime_field_inv` is the model's `invLoop`.  The components of the generated loop
    state are in the order in which the function first binds them (`lm, hm = 1, 0` / `low, high = a % n, n`); how the
    body computes the next state (temporaries, one or several simultaneous assignments) does not matter: both sides are
    normalised by `simp only` (which evaluates the `match` on a tuple display and the `let`s). -/
theorem prime_field_inv_loop_fst : ∀ (f : Nat) (lm low hm high : Int),
    (Gen.ExtraFieldsFq.Utils.prime_field_inv_loop f (lm, hm, low, high)).1 = invLoop f lm low hm high := by
  intro f
  induction f with
  | zero => intro lm low hm high; rfl
  | succ f ih =>
    intro lm low hm high
    unfold Gen.ExtraFieldsFq.Utils.prime_field_inv_loop invLoop
    by_cases hgt : low > 1
    · simp only [hgt, if_true]; exact ih _ _ _ _
    · simp only [hgt, if_false]

/-- `prime_field_inv(a, n)` as translated from the source is the model's `primeFieldInv`, for all ints `a`, `n`
    (`a % n % n = a % n`: whether the source reduces the already reduced `a` a second time does not matter). -/
theorem prime_field_inv_eq (a n : Int) :
    Gen.ExtraFieldsFq.Utils.prime_field_inv a n = primeFieldInv a n := by
  unfold Gen.ExtraFieldsFq.Utils.prime_field_inv primeFieldInv
  by_cases h : a % n = 0
  · simp only [h, if_true]
  · simp only [h, if_false, Int.emod_emod]
    rw [← prime_field_inv_loop_fst]

section
variable {p : Nat} [NeZero p]

/-- the attribute `n` of `FQ(z)` in the model, as an int -/
theorem Fq.ofInt_n (z : Int) : ((Fq.ofInt z : Fq p).n : Int) = z % (p : Int) := by
  unfold Fq.ofInt pmod
  exact Int.toNat_of_nonneg (Int.emod_nonneg z (by exact_mod_cast NeZero.ne p))

theorem Fq.one_n : (((1 : Fq p)).n : Int) = 1 % (p : Int) := Fq.ofInt_n 1
theorem Fq.zero_n : (((0 : Fq p)).n : Int) = 0 % (p : Int) := Fq.ofInt_n 0
end

/-! ### class `FQ` of py_ecc/fields/field_elements.py -/

namespace FqRef
open Gen.ExtraFieldsFq.Ref
variable {p : Nat} [NeZero p]

/-- `FQ.__init__(val)` for an `int`: the attribute of the model's `Fq.ofInt val`. -/
theorem init_int_eq (z : Int) : FQ.init_int p z = ((Fq.ofInt z : Fq p).n : Int) := by
  simp only [FQ.init_int, Fq.ofInt_n]

omit [NeZero p] in
/-- `FQ.__init__(val)` for an `FQ` object copies its attribute. -/
theorem init_fq_eq (a : Fq p) : FQ.init_fq p a.n = (a.n : Int) := rfl

/-- `FQ.__add__` with an `FQ` operand is `Fq.add`. -/
theorem add_fq_eq (a b : Fq p) : FQ.add_fq p a.n b.n = ((Fq.add a b).n : Int) := by
  simp only [FQ.add_fq, FQ.init_int, Fq.add, Fq.ofInt_n, Int.emod_emod]

/-- `FQ.__add__` with an `int` operand is `Fq.addInt`. -/
theorem add_int_eq (a : Fq p) (k : Int) : FQ.add_int p a.n k = ((Fq.addInt a k).n : Int) := by
  simp only [FQ.add_int, FQ.init_int, Fq.addInt, Fq.ofInt_n, Int.emod_emod]

/-- `FQ.__mul__` with an `FQ` operand is `Fq.mul`. -/
theorem mul_fq_eq (a b : Fq p) : FQ.mul_fq p a.n b.n = ((Fq.mul a b).n : Int) := by
  simp only [FQ.mul_fq, FQ.init_int, Fq.mul, Fq.ofInt_n, Int.emod_emod]

/-- `FQ.__mul__` with an `int` operand is `Fq.mulInt`. -/
theorem mul_int_eq (a : Fq p) (k : Int) : FQ.mul_int p a.n k = ((Fq.mulInt a k).n : Int) := by
  simp only [FQ.mul_int, FQ.init_int, Fq.mulInt, Fq.ofInt_n, Int.emod_emod]

/-- `FQ.__sub__` with an `FQ` operand is `Fq.sub`. -/
theorem sub_fq_eq (a b : Fq p) : FQ.sub_fq p a.n b.n = ((Fq.sub a b).n : Int) := by
  simp only [FQ.sub_fq, FQ.init_int, Fq.sub, Fq.ofInt_n, Int.emod_emod]

/-- `FQ.__sub__` with an `int` operand is `Fq.subInt`. -/
theorem sub_int_eq (a : Fq p) (k : Int) : FQ.sub_int p a.n k = ((Fq.subInt a k).n : Int) := by
  simp only [FQ.sub_int, FQ.init_int, Fq.subInt, Fq.ofInt_n, Int.emod_emod]

/-- `FQ.__rsub__` with an `FQ` operand (`other - self`) is `Fq.sub other self`. -/
theorem rsub_fq_eq (a b : Fq p) : FQ.rsub_fq p a.n b.n = ((Fq.sub b a).n : Int) := by
  simp only [FQ.rsub_fq, FQ.init_int, Fq.sub, Fq.ofInt_n, Int.emod_emod]

/-- `FQ.__rsub__` with an `int` operand (`k - self`) is `Fq.rsubInt`. -/
theorem rsub_int_eq (a : Fq p) (k : Int) : FQ.rsub_int p a.n k = ((Fq.rsubInt a k).n : Int) := by
  simp only [FQ.rsub_int, FQ.init_int, Fq.rsubInt, Fq.ofInt_n, Int.emod_emod]

/-- `FQ.__div__` with an `FQ` operand is `Fq.div`. -/
theorem div_fq_eq (a b : Fq p) : FQ.div_fq p a.n b.n = ((Fq.div a b).n : Int) := by
  simp only [FQ.div_fq, FQ.init_int, Fq.div, Fq.ofInt_n, Int.emod_emod]

/-- `FQ.__div__` with an `int` operand is `Fq.divInt`. -/
theorem div_int_eq (a : Fq p) (k : Int) : FQ.div_int p a.n k = ((Fq.divInt a k).n : Int) := by
  simp only [FQ.div_int, FQ.init_int, Fq.divInt, Fq.ofInt_n, Int.emod_emod]

/-- `FQ.__rdiv__` with an `FQ` operand (`other / self`) is `Fq.div other self`. -/
theorem rdiv_fq_eq (a b : Fq p) : FQ.rdiv_fq p a.n b.n = ((Fq.div b a).n : Int) := by
  simp only [FQ.rdiv_fq, FQ.init_int, Fq.div, Fq.ofInt_n, Int.emod_emod, Int.mul_comm]

/-- `FQ.__rdiv__` with an `int` operand (`k / self`) is `Fq.rdivInt`. -/
theorem rdiv_int_eq (a : Fq p) (k : Int) : FQ.rdiv_int p a.n k = ((Fq.rdivInt a k).n : Int) := by
  simp only [FQ.rdiv_int, FQ.init_int, Fq.rdivInt, Fq.ofInt_n, Int.emod_emod]

/-- `FQ.__truediv__` delegates to `__div__`: with an `FQ` operand it is `Fq.div`. -/
theorem truediv_fq_eq (a b : Fq p) : FQ.truediv_fq p a.n b.n = ((Fq.div a b).n : Int) := by
  unfold FQ.truediv_fq; exact div_fq_eq a b

/-- `FQ.__truediv__` with an `int` operand is `Fq.divInt`. -/
theorem truediv_int_eq (a : Fq p) (k : Int) : FQ.truediv_int p a.n k = ((Fq.divInt a k).n : Int) := by
  unfold FQ.truediv_int; exact div_int_eq a k

/-- `FQ.__rtruediv__` delegates to `__rdiv__`: with an `FQ` operand it is `Fq.div other self`. -/
theorem rtruediv_fq_eq (a b : Fq p) : FQ.rtruediv_fq p a.n b.n = ((Fq.div b a).n : Int) := by
  unfold FQ.rtruediv_fq; exact rdiv_fq_eq a b

/-- `FQ.__rtruediv__` with an `int` operand is `Fq.rdivInt`. -/
theorem rtruediv_int_eq (a : Fq p) (k : Int) : FQ.rtruediv_int p a.n k = ((Fq.rdivInt a k).n : Int) := by
  unfold FQ.rtruediv_int; exact rdiv_int_eq a k

/-- `FQ.__rmul__` delegates to `self * other`: with an `FQ` operand it is `Fq.mul`. -/
theorem rmul_fq_eq (a b : Fq p) : FQ.rmul_fq p a.n b.n = ((Fq.mul a b).n : Int) := by
  unfold FQ.rmul_fq; exact mul_fq_eq a b

/-- `FQ.__rmul__` with an `int` operand is `Fq.mulInt`. -/
theorem rmul_int_eq (a : Fq p) (k : Int) : FQ.rmul_int p a.n k = ((Fq.mulInt a k).n : Int) := by
  unfold FQ.rmul_int; exact mul_int_eq a k

/-- `FQ.__radd__` delegates to `self + other`: with an `FQ` operand it is `Fq.add`. -/
theorem radd_fq_eq (a b : Fq p) : FQ.radd_fq p a.n b.n = ((Fq.add a b).n : Int) := by
  unfold FQ.radd_fq; exact add_fq_eq a b

/-- `FQ.__radd__` with an `int` operand is `Fq.addInt`. -/
theorem radd_int_eq (a : Fq p) (k : Int) : FQ.radd_int p a.n k = ((Fq.addInt a k).n : Int) := by
  unfold FQ.radd_int; exact add_int_eq a k

/-- the `while other > 0` loop of `FQ.__pow__` is the model's `Fq.powAux` (same fuel), for a natural exponent.  (The
    loop state lists the variables in the order in which the method first binds them: the parameter `other`, then
    `o`, then `t`; the result `o` is its second component.) -/
theorem pow_loop_fst : ∀ (f : Nat) (o t : Fq p) (e : Nat),
    (FQ.pow_loop0 p f ((e : Int), (o.n : Int), (t.n : Int))).2.1 = ((Fq.powAux f o t e).n : Int) := by
  intro f
  induction f with
  | zero => intro o t e; rfl
  | succ f ih =>
    intro o t e
    unfold FQ.pow_loop0 Fq.powAux
    by_cases h0 : e = 0
    · subst h0; simp
    · have hpos : ((e : Int) > 0) := by omega
      have hdiv : ((e : Int) / 2) = ((e / 2 : Nat) : Int) := by omega
      simp only [hpos, h0, if_true, if_false, hdiv, mul_fq_eq]
      by_cases hodd : e % 2 = 1
      · have h1 : ((e : Int) % 2 ≠ 0) := by omega
        simp only [hodd, h1, ne_eq, not_false_eq_true, if_true]
        exact ih _ _ _
      · have h1 : ¬ ((e : Int) % 2 ≠ 0) := by omega
        simp only [hodd, h1, if_false]
        exact ih _ _ _

/-- `FQ.__pow__(other)` is `Fq.pow` for every int exponent (a negative exponent gives `1`, as `other.toNat = 0`). -/
theorem pow_eq (a : Fq p) (e : Int) : FQ.pow p a.n e = ((Fq.pow a e.toNat).n : Int) := by
  unfold FQ.pow Fq.pow
  rw [init_int_eq]
  by_cases h : 0 ≤ e
  · obtain ⟨k, rfl⟩ := Int.eq_ofNat_of_zero_le h
    exact pow_loop_fst k (Fq.ofInt 1) a k
  · have : e.toNat = 0 := by omega
    rw [this]; rfl

omit [NeZero p] in
/-- `FQ.__eq__` with an `FQ` operand compares the attributes: equality of the model elements. -/
theorem eq_fq_eq (a b : Fq p) : FQ.eq_fq p a.n b.n = decide (a = b) := by
  simp only [FQ.eq_fq, Fq.ext_iff, Int.natCast_inj]

omit [NeZero p] in
/-- `FQ.__eq__` with an `int` operand is `Fq.eqInt`. -/
theorem eq_int_eq (a : Fq p) (k : Int) : FQ.eq_int p a.n k = Fq.eqInt a k := rfl

omit [NeZero p] in
/-- `FQ.__ne__` (`not self == other`) with an `FQ` operand. -/
theorem ne_fq_eq (a b : Fq p) : FQ.ne_fq p a.n b.n = !decide (a = b) := by
  simp only [FQ.ne_fq, eq_fq_eq, decide_not, Bool.decide_eq_true]

omit [NeZero p] in
/-- `FQ.__ne__` with an `int` operand. -/
theorem ne_int_eq (a : Fq p) (k : Int) : FQ.ne_int p a.n k = !Fq.eqInt a k := by
  by_cases h : Fq.eqInt a k = true <;> simp [FQ.ne_int, eq_int_eq, h]

/-- `FQ.__neg__` is `Fq.neg`. -/
theorem neg_eq (a : Fq p) : FQ.neg p a.n = ((Fq.neg a).n : Int) := by
  simp only [FQ.neg, FQ.init_int, Fq.neg, Fq.ofInt_n]

omit [NeZero p] in
/-- `FQ.__int__` returns the attribute. -/
theorem int_eq (a : Fq p) : FQ.int p a.n = (a.n : Int) := rfl

omit [NeZero p] in
/-- `FQ.__lt__` with an `FQ` operand compares the attributes. -/
theorem lt_fq_eq (a b : Fq p) : FQ.lt_fq p a.n b.n = decide (a.n < b.n) := by
  simp only [FQ.lt_fq, Int.ofNat_lt]

omit [NeZero p] in
/-- `FQ.__lt__` with an `int` operand is `Fq.ltInt`. -/
theorem lt_int_eq (a : Fq p) (k : Int) : FQ.lt_int p a.n k = Fq.ltInt a k := rfl

/-- `FQ.one()` is the model's `1`. -/
theorem one_eq : FQ.one (p : Int) = (((1 : Fq p)).n : Int) := by
  simp only [FQ.one, FQ.init_int, Fq.one_n]

/-- `FQ.zero()` is the model's `0`. -/
theorem zero_eq : FQ.zero (p : Int) = (((0 : Fq p)).n : Int) := by
  simp only [FQ.zero, FQ.init_int, Fq.zero_n]

end FqRef

/-! ### class `FQ` of py_ecc/fields/optimized_field_elements.py -/

namespace FqOpt
open Gen.ExtraFieldsFq.Opt
variable {p : Nat} [NeZero p]

/-- `FQ.__init__(val)` for an `int`: the attribute of the model's `Fq.ofInt val`. -/
theorem init_int_eq (z : Int) : FQ.init_int p z = ((Fq.ofInt z : Fq p).n : Int) := by
  simp only [FQ.init_int, Fq.ofInt_n]

omit [NeZero p] in
/-- `FQ.__init__(val)` for an `FQ` object copies its attribute. -/
theorem init_fq_eq (a : Fq p) : FQ.init_fq p a.n = (a.n : Int) := rfl

/-- `FQ.__add__` with an `FQ` operand is `Fq.add`. -/
theorem add_fq_eq (a b : Fq p) : FQ.add_fq p a.n b.n = ((Fq.add a b).n : Int) := by
  simp only [FQ.add_fq, FQ.init_int, Fq.add, Fq.ofInt_n, Int.emod_emod]

/-- `FQ.__add__` with an `int` operand is `Fq.addInt`. -/
theorem add_int_eq (a : Fq p) (k : Int) : FQ.add_int p a.n k = ((Fq.addInt a k).n : Int) := by
  simp only [FQ.add_int, FQ.init_int, Fq.addInt, Fq.ofInt_n, Int.emod_emod]

/-- `FQ.__mul__` with an `FQ` operand is `Fq.mul`. -/
theorem mul_fq_eq (a b : Fq p) : FQ.mul_fq p a.n b.n = ((Fq.mul a b).n : Int) := by
  simp only [FQ.mul_fq, FQ.init_int, Fq.mul, Fq.ofInt_n, Int.emod_emod]

/-- `FQ.__mul__` with an `int` operand is `Fq.mulInt`. -/
theorem mul_int_eq (a : Fq p) (k : Int) : FQ.mul_int p a.n k = ((Fq.mulInt a k).n : Int) := by
  simp only [FQ.mul_int, FQ.init_int, Fq.mulInt, Fq.ofInt_n, Int.emod_emod]

/-- `FQ.__sub__` with an `FQ` operand is `Fq.sub`. -/
theorem sub_fq_eq (a b : Fq p) : FQ.sub_fq p a.n b.n = ((Fq.sub a b).n : Int) := by
  simp only [FQ.sub_fq, FQ.init_int, Fq.sub, Fq.ofInt_n, Int.emod_emod]

/-- `FQ.__sub__` with an `int` operand is `Fq.subInt`. -/
theorem sub_int_eq (a : Fq p) (k : Int) : FQ.sub_int p a.n k = ((Fq.subInt a k).n : Int) := by
  simp only [FQ.sub_int, FQ.init_int, Fq.subInt, Fq.ofInt_n, Int.emod_emod]

/-- `FQ.__rsub__` with an `FQ` operand (`other - self`) is `Fq.sub other self`. -/
theorem rsub_fq_eq (a b : Fq p) : FQ.rsub_fq p a.n b.n = ((Fq.sub b a).n : Int) := by
  simp only [FQ.rsub_fq, FQ.init_int, Fq.sub, Fq.ofInt_n, Int.emod_emod]

/-- `FQ.__rsub__` with an `int` operand (`k - self`) is `Fq.rsubInt`. -/
theorem rsub_int_eq (a : Fq p) (k : Int) : FQ.rsub_int p a.n k = ((Fq.rsubInt a k).n : Int) := by
  simp only [FQ.rsub_int, FQ.init_int, Fq.rsubInt, Fq.ofInt_n, Int.emod_emod]

/-- `FQ.__div__` with an `FQ` operand is `Fq.div`. -/
theorem div_fq_eq (a b : Fq p) : FQ.div_fq p a.n b.n = ((Fq.div a b).n : Int) := by
  simp only [FQ.div_fq, FQ.init_int, Fq.div, Fq.ofInt_n, Int.emod_emod]

/-- `FQ.__div__` with an `int` operand is `Fq.divInt`. -/
theorem div_int_eq (a : Fq p) (k : Int) : FQ.div_int p a.n k = ((Fq.divInt a k).n : Int) := by
  simp only [FQ.div_int, FQ.init_int, Fq.divInt, Fq.ofInt_n, Int.emod_emod]

/-- `FQ.__rdiv__` with an `FQ` operand (`other / self`) is `Fq.div other self`. -/
theorem rdiv_fq_eq (a b : Fq p) : FQ.rdiv_fq p a.n b.n = ((Fq.div b a).n : Int) := by
  simp only [FQ.rdiv_fq, FQ.init_int, Fq.div, Fq.ofInt_n, Int.emod_emod, Int.mul_comm]

/-- `FQ.__rdiv__` with an `int` operand (`k / self`) is `Fq.rdivInt`. -/
theorem rdiv_int_eq (a : Fq p) (k : Int) : FQ.rdiv_int p a.n k = ((Fq.rdivInt a k).n : Int) := by
  simp only [FQ.rdiv_int, FQ.init_int, Fq.rdivInt, Fq.ofInt_n, Int.emod_emod]

/-- `FQ.__truediv__` delegates to `__div__`: with an `FQ` operand it is `Fq.div`. -/
theorem truediv_fq_eq (a b : Fq p) : FQ.truediv_fq p a.n b.n = ((Fq.div a b).n : Int) := by
  unfold FQ.truediv_fq; exact div_fq_eq a b

/-- `FQ.__truediv__` with an `int` operand is `Fq.divInt`. -/
theorem truediv_int_eq (a : Fq p) (k : Int) : FQ.truediv_int p a.n k = ((Fq.divInt a k).n : Int) := by
  unfold FQ.truediv_int; exact div_int_eq a k

/-- `FQ.__rtruediv__` delegates to `__rdiv__`: with an `FQ` operand it is `Fq.div other self`. -/
theorem rtruediv_fq_eq (a b : Fq p) : FQ.rtruediv_fq p a.n b.n = ((Fq.div b a).n : Int) := by
  unfold FQ.rtruediv_fq; exact rdiv_fq_eq a b

/-- `FQ.__rtruediv__` with an `int` operand is `Fq.rdivInt`. -/
theorem rtruediv_int_eq (a : Fq p) (k : Int) : FQ.rtruediv_int p a.n k = ((Fq.rdivInt a k).n : Int) := by
  unfold FQ.rtruediv_int; exact rdiv_int_eq a k

/-- `FQ.__rmul__` delegates to `self * other`: with an `FQ` operand it is `Fq.mul`. -/
theorem rmul_fq_eq (a b : Fq p) : FQ.rmul_fq p a.n b.n = ((Fq.mul a b).n : Int) := by
  unfold FQ.rmul_fq; exact mul_fq_eq a b

/-- `FQ.__rmul__` with an `int` operand is `Fq.mulInt`. -/
theorem rmul_int_eq (a : Fq p) (k : Int) : FQ.rmul_int p a.n k = ((Fq.mulInt a k).n : Int) := by
  unfold FQ.rmul_int; exact mul_int_eq a k

/-- `FQ.__radd__` delegates to `self + other`: with an `FQ` operand it is `Fq.add`. -/
theorem radd_fq_eq (a b : Fq p) : FQ.radd_fq p a.n b.n = ((Fq.add a b).n : Int) := by
  unfold FQ.radd_fq; exact add_fq_eq a b

/-- `FQ.__radd__` with an `int` operand is `Fq.addInt`. -/
theorem radd_int_eq (a : Fq p) (k : Int) : FQ.radd_int p a.n k = ((Fq.addInt a k).n : Int) := by
  unfold FQ.radd_int; exact add_int_eq a k

/-- the `while other > 0` loop of `FQ.__pow__` is the model's `Fq.powAux` (same fuel), for a natural exponent.  (The
    loop state lists the variables in the order in which the method first binds them: the parameter `other`, then
    `o`, then `t`; the result `o` is its second component.) -/
theorem pow_loop_fst : ∀ (f : Nat) (o t : Fq p) (e : Nat),
    (FQ.pow_loop0 p f ((e : Int), (o.n : Int), (t.n : Int))).2.1 = ((Fq.powAux f o t e).n : Int) := by
  intro f
  induction f with
  | zero => intro o t e; rfl
  | succ f ih =>
    intro o t e
    unfold FQ.pow_loop0 Fq.powAux
    by_cases h0 : e = 0
    · subst h0; simp
    · have hpos : ((e : Int) > 0) := by omega
      have hdiv : ((e : Int) / 2) = ((e / 2 : Nat) : Int) := by omega
      simp only [hpos, h0, if_true, if_false, hdiv, mul_fq_eq]
      by_cases hodd : e % 2 = 1
      · have h1 : ((e : Int) % 2 ≠ 0) := by omega
        simp only [hodd, h1, ne_eq, not_false_eq_true, if_true]
        exact ih _ _ _
      · have h1 : ¬ ((e : Int) % 2 ≠ 0) := by omega
        simp only [hodd, h1, if_false]
        exact ih _ _ _

/-- `FQ.__pow__(other)` is `Fq.pow` for every int exponent (a negative exponent gives `1`, as `other.toNat = 0`). -/
theorem pow_eq (a : Fq p) (e : Int) : FQ.pow p a.n e = ((Fq.pow a e.toNat).n : Int) := by
  unfold FQ.pow Fq.pow
  rw [init_int_eq]
  by_cases h : 0 ≤ e
  · obtain ⟨k, rfl⟩ := Int.eq_ofNat_of_zero_le h
    exact pow_loop_fst k (Fq.ofInt 1) a k
  · have : e.toNat = 0 := by omega
    rw [this]; rfl

omit [NeZero p] in
/-- `FQ.__eq__` with an `FQ` operand compares the attributes: equality of the model elements. -/
theorem eq_fq_eq (a b : Fq p) : FQ.eq_fq p a.n b.n = decide (a = b) := by
  simp only [FQ.eq_fq, Fq.ext_iff, Int.natCast_inj]

omit [NeZero p] in
/-- `FQ.__eq__` with an `int` operand is `Fq.eqInt`. -/
theorem eq_int_eq (a : Fq p) (k : Int) : FQ.eq_int p a.n k = Fq.eqInt a k := rfl

omit [NeZero p] in
/-- `FQ.__ne__` (`not self == other`) with an `FQ` operand. -/
theorem ne_fq_eq (a b : Fq p) : FQ.ne_fq p a.n b.n = !decide (a = b) := by
  simp only [FQ.ne_fq, eq_fq_eq, decide_not, Bool.decide_eq_true]

omit [NeZero p] in
/-- `FQ.__ne__` with an `int` operand. -/
theorem ne_int_eq (a : Fq p) (k : Int) : FQ.ne_int p a.n k = !Fq.eqInt a k := by
  by_cases h : Fq.eqInt a k = true <;> simp [FQ.ne_int, eq_int_eq, h]

/-- `FQ.__neg__` is `Fq.neg`. -/
theorem neg_eq (a : Fq p) : FQ.neg p a.n = ((Fq.neg a).n : Int) := by
  simp only [FQ.neg, FQ.init_int, Fq.neg, Fq.ofInt_n]

omit [NeZero p] in
/-- `FQ.__int__` returns the attribute. -/
theorem int_eq (a : Fq p) : FQ.int p a.n = (a.n : Int) := rfl

omit [NeZero p] in
/-- `FQ.__lt__` with an `FQ` operand compares the attributes. -/
theorem lt_fq_eq (a b : Fq p) : FQ.lt_fq p a.n b.n = decide (a.n < b.n) := by
  simp only [FQ.lt_fq, Int.ofNat_lt]

omit [NeZero p] in
/-- `FQ.__lt__` with an `int` operand is `Fq.ltInt`. -/
theorem lt_int_eq (a : Fq p) (k : Int) : FQ.lt_int p a.n k = Fq.ltInt a k := rfl

/-- `FQ.one()` is the model's `1`. -/
theorem one_eq : FQ.one (p : Int) = (((1 : Fq p)).n : Int) := by
  simp only [FQ.one, FQ.init_int, Fq.one_n]

/-- `FQ.zero()` is the model's `0`. -/
theorem zero_eq : FQ.zero (p : Int) = (((0 : Fq p)).n : Int) := by
  simp only [FQ.zero, FQ.init_int, Fq.zero_n]

omit [NeZero p] in
/-- optimized `FQ.sgn0` (`self.n % 2`) is `Fq.sgn0`. -/
theorem sgn0_eq (a : Fq p) : FQ.sgn0 p a.n = ((Fq.sgn0 a : Nat) : Int) := by
  simp only [FQ.sgn0, Fq.sgn0, Int.natCast_emod]; rfl

end FqOpt

end PyEcc.Tie
