/-
  PyEcc.Props.C17_Model — property C17 for the CONCRETE executable model: `subgroup_check` and
  `clear_cofactor` as run by the model on its own coordinate types
      G1 : `G1Pt = F1 × F1 × F1`, `F1 = Fq blsP`                 (Python `FQ` objects)
      G2 : `G2Pt = F2 × F2 × F2`, `F2 = Fqp .opt blsP blsMc2`    (Python optimized `FQ2` objects:
                                                                  lists of ints)
  The field-generic theorems of `Props/C17_Sub.lean` are transferred by `Sem/TransferFq.lean`
  (G1: `Fq blsP` is a Mathlib field with the model's operations, direct instantiation) and
  `Sem/TransferFqp.lean` (G2: `toQ : F2 → K2 = F_p[X]/(X²+1)` preserves all operations on canonical
  elements and the generated curve code commutes with it).

  Reading of the statements.  `P`, `Q`, `G` are points of Mathlib's elliptic-curve group
  (`WeierstrassCurve.Affine.Point`, an `AddCommGroup`): of `y² = x³ + 4` over the field `Fq blsP` for
  G1, of `y² = x³ + 4(1+i)` over `K2` for G2.  `Represents T P` (G1) resp.
  `Represents (mapT toQ T) P` (G2) says that the projective triple `T` (its value, for G2) is a
  representative of `P` (any scaling; any `z = 0` triple for ∞).  For G2 the triples are required to
  be canonical (`CanonT T`: each coordinate has exactly two coefficients in `[0, p)`) — every
  constructor, decoder and operation of the library produces canonical elements
  (`Transfer.canonT_ops`), and `CanonT` is decidable.  Every on-curve (canonical) triple represents a
  point (`on_curve_iff_F1`, `on_curve_iff_F2`), so the hypotheses are not vacuous.
-/
import PyEcc.Sem.TransferFq
import PyEcc.Sem.TransferFqp
import PyEcc.Props.C07_FactsG2

set_option linter.unusedSectionVars false
set_option maxRecDepth 100000

namespace PyEcc.C17M
open PyEcc PyEcc.Gen PyEcc.Gen.Consts PyEcc.FqpSem PyEcc.Transfer WeierstrassCurve

/-! ## G1 -/

section G1
variable {T T₁ T₂ Tg Tq : G1Pt} {P Q G : CurvePt (blsB : F1)}

/-- **G1 `subgroup_check` is exact.**  Run on the model's `FQ` triples, `subgroup_check(T)` returns
    `True` iff `curve_order • P = 0` for the Mathlib point `P` represented by `T`. -/
theorem subgroupCheck_G1_iff (r : Represents T P) : subgroupCheck T = true ↔ blsR • P = 0 :=
  subgroup_check_iff_F1 r

/-- G1, using that `curve_order` is prime: `True` iff `P` is the identity or has order exactly
    `curve_order`. -/
theorem subgroupCheck_G1_iff_prime (r : Represents T P) :
    subgroupCheck T = true ↔ P = 0 ∨ addOrderOf P = blsR :=
  C17Sub.subgroup_check_iff_prime f1_two_ne_zero r

/-- G1, closed form: every triple accepted by `is_on_curve(T, b)` represents a Mathlib point, and
    `subgroup_check(T)` decides whether that point is killed by `curve_order`. -/
theorem subgroupCheck_G1_of_on_curve (hT : OptBls.is_on_curve T blsB = true) :
    ∃ P : CurvePt (blsB : F1), Represents T P ∧ (subgroupCheck T = true ↔ blsR • P = 0) := by
  obtain ⟨P, r⟩ := (on_curve_iff_F1 T).mp hT
  exact ⟨P, r, subgroupCheck_G1_iff r⟩

/-- G1: the answer does not depend on the representative (`eq(T, T') = True`), for ALL triples. -/
theorem subgroupCheck_G1_congr {T' : G1Pt} (e : OptBls.eq T T' = true) :
    subgroupCheck T = subgroupCheck T' := C17Sub.subgroup_check_congr f1_two_ne_zero e

/-- G1: every triple with `z = 0` (∞) passes. -/
theorem subgroupCheck_G1_accepts_inf (hz : T.2.2 = 0) : subgroupCheck T = true :=
  C17Sub.subgroup_check_accepts_inf f1_two_ne_zero hz

/-- G1: if `Tg` passes then so does `multiply(Tg, k)`, every `k`. -/
theorem subgroupCheck_G1_multiply (r : Represents Tg G) (hG : subgroupCheck Tg = true) (k : ℕ) :
    subgroupCheck (OptBls.multiply Tg k) = true :=
  C17Sub.subgroup_check_multiply f1_two_ne_zero r hG k

/-- G1: the accepted triples are closed under `add` and `neg`. -/
theorem subgroupCheck_G1_add (r₁ : Represents T₁ P) (r₂ : Represents T₂ Q)
    (c₁ : subgroupCheck T₁ = true) (c₂ : subgroupCheck T₂ = true) :
    subgroupCheck (OptBls.add T₁ T₂) = true ∧ subgroupCheck (OptBls.neg T₁) = true :=
  C17Sub.subgroup_check_add f1_two_ne_zero r₁ r₂ c₁ c₂

/-- G1 rejects mixed points: a triple representing `k • G + Q` with `G` in the `curve_order`-torsion
    and `Q ≠ 0` in the torsion of the G1 cofactor `h₁` FAILS the check. -/
theorem subgroupCheck_G1_rejects_mixed (k : ℕ) (hG : blsR • G = 0)
    (hQ : Spec.BLS12381.h1 • Q = 0) (hne : Q ≠ 0) (r : Represents T (k • G + Q)) :
    subgroupCheck T = false := C17Sub.subgroup_check_rejects_mixed_G1 f1_two_ne_zero k hG hQ hne r

/-- G1, code form: `add(multiply(Tg, k), Tq)` fails whenever `Tg` passes and `Tq ≠ ∞` is killed by a
    scalar `h` coprime to `curve_order`. -/
theorem subgroupCheck_G1_rejects_mixed_code {h : ℕ} (hc : Nat.Coprime h blsR) (k : ℕ)
    (rg : Represents Tg G) (rq : Represents Tq Q) (hG : subgroupCheck Tg = true)
    (hQ : OptBls.is_inf (OptBls.multiply Tq h) = true) (hne : OptBls.is_inf Tq = false) :
    subgroupCheck (OptBls.add (OptBls.multiply Tg k) Tq) = false :=
  C17Sub.subgroup_check_rejects_mixed_code f1_two_ne_zero hc k rg rq hG hQ hne

/-- **`clear_cofactor_G1` refines `h_eff • P`**: the model's `clearCofactorG1 T` represents
    `H_EFF_G1 • P`. -/
theorem clearCofactorG1_refines (r : Represents T P) :
    Represents (clearCofactorG1 T) (h2c_H_EFF_G1 • P) := Transfer.clearCofactorG1_refines r

/-- G1: a cleared point passes `subgroup_check` provided the represented point is killed by
    `H_EFF_G1 · curve_order` (true for all of `E(F_p)`; the point count is not proved here, hence a
    hypothesis). -/
theorem subgroupCheck_G1_cleared (r : Represents T P) (hP : (h2c_H_EFF_G1 * blsR) • P = 0) :
    subgroupCheck (clearCofactorG1 T) = true :=
  C17Sub.subgroup_check_cleared f1_two_ne_zero r h2c_H_EFF_G1 hP

/-- G1: clearing is injective (up to `eq`) on triples that pass `subgroup_check`. -/
theorem clearCofactorG1_injective (r₁ : Represents T₁ P) (r₂ : Represents T₂ Q)
    (c₁ : subgroupCheck T₁ = true) (c₂ : subgroupCheck T₂ = true)
    (he : OptBls.eq (clearCofactorG1 T₁) (clearCofactorG1 T₂) = true) : OptBls.eq T₁ T₂ = true :=
  C17Sub.clear_cofactor_injective f1_two_ne_zero r₁ r₂ c₁ c₂ he

end G1

/-- the generator `G1` of the model passes `subgroup_check` (kernel evaluation) and is on the curve -/
theorem blsG1_passes : OptBls.is_on_curve blsG1 blsB = true ∧ subgroupCheck blsG1 = true :=
  ⟨C07.Facts.bls_G1_model.1, C07.Facts.bls_G1_model.2.2⟩

/-- every multiple `multiply(G1, k)` of the model's generator passes `subgroup_check` -/
theorem blsG1_multiples_pass (k : ℕ) : subgroupCheck (OptBls.multiply blsG1 k) = true := by
  obtain ⟨P, r⟩ := (on_curve_iff_F1 blsG1).mp blsG1_passes.1
  exact subgroupCheck_G1_multiply r blsG1_passes.2 k

/-- non-vacuity of the `Represents` hypotheses (G1): the generator represents a non-zero point -/
example : ∃ P : CurvePt (blsB : F1), Represents blsG1 P ∧ P ≠ 0 := by
  obtain ⟨P, r⟩ := (on_curve_iff_F1 blsG1).mp blsG1_passes.1
  refine ⟨P, r, fun h0 => ?_⟩
  have := (opt_is_inf_refines_F1 r).mpr h0
  rw [C07.Facts.bls_G1_model.2.1] at this
  exact Bool.noConfusion this

/-! ## G2 -/

section G2
variable [DecidableEq K2] {T T₁ T₂ Tg Tq : G2Pt} {P Q G : CurvePt (toQ blsB2 : K2)}

/-- **G2 `subgroup_check` is exact.**  Run on a canonical model `FQ2` triple `T` whose value represents
    the Mathlib point `P` over `K2`, `subgroup_check(T)` returns `True` iff `curve_order • P = 0`. -/
theorem subgroupCheck_G2_iff (c : CanonT T) (r : Represents (mapT toQ T) P) :
    subgroupCheck T = true ↔ blsR • P = 0 := subgroup_check_iff_F2 c r

/-- G2, using that `curve_order` is prime: `True` iff `P` is the identity or has order exactly
    `curve_order`. -/
theorem subgroupCheck_G2_iff_prime (c : CanonT T) (r : Represents (mapT toQ T) P) :
    subgroupCheck T = true ↔ P = 0 ∨ addOrderOf P = blsR := by
  rw [subgroupCheck_G2_iff c r, C17.subgroup_iff_blsR]

/-- G2, closed form: every canonical triple accepted by `is_on_curve(T, b2)` represents a Mathlib
    point over `K2`, and `subgroup_check(T)` decides whether that point is killed by `curve_order`. -/
theorem subgroupCheck_G2_of_on_curve (c : CanonT T) (hT : OptBls.is_on_curve T blsB2 = true) :
    ∃ P : CurvePt (toQ blsB2 : K2),
      Represents (mapT toQ T) P ∧ (subgroupCheck T = true ↔ blsR • P = 0) := by
  obtain ⟨P, r⟩ := (on_curve_iff_F2 c).mp hT
  exact ⟨P, r, subgroupCheck_G2_iff c r⟩

/-- G2: the answer does not depend on the representative (`eq(T, T') = True`), for all canonical
    triples (on the curve or not). -/
theorem subgroupCheck_G2_congr {T' : G2Pt} (c : CanonT T) (c' : CanonT T')
    (e : OptBls.eq T T' = true) : subgroupCheck T = subgroupCheck T' := by
  rw [← subgroupCheck_toQ c, ← subgroupCheck_toQ c']
  refine C17Sub.subgroup_check_congr k2_field_ok.1 ?_
  rw [Bls.good_eq (B := K2) goodHom_F2 c c']; exact e

/-- G2: every canonical triple with `z = 0` (∞) passes. -/
theorem subgroupCheck_G2_accepts_inf (c : CanonT T) (hz : T.2.2 = 0) : subgroupCheck T = true := by
  rw [subgroupCheck_G2_iff c (represents_zero_F2 hz), smul_zero]

/-- G2: if `Tg` passes then so does `multiply(Tg, k)`, every `k`. -/
theorem subgroupCheck_G2_multiply (c : CanonT Tg) (r : Represents (mapT toQ Tg) G)
    (hG : subgroupCheck Tg = true) (k : ℕ) : subgroupCheck (OptBls.multiply Tg k) = true := by
  rw [subgroupCheck_G2_iff (canonT_ops c c k).2.2.2.1 (opt_multiply_refines_F2 c r k)]
  exact C17.accepts_multiples G k ((subgroupCheck_G2_iff c r).mp hG)

/-- G2: the accepted triples are closed under `add` and `neg`. -/
theorem subgroupCheck_G2_add (c₁ : CanonT T₁) (c₂ : CanonT T₂) (r₁ : Represents (mapT toQ T₁) P)
    (r₂ : Represents (mapT toQ T₂) Q) (p₁ : subgroupCheck T₁ = true) (p₂ : subgroupCheck T₂ = true) :
    subgroupCheck (OptBls.add T₁ T₂) = true ∧ subgroupCheck (OptBls.neg T₁) = true := by
  have p := (subgroupCheck_G2_iff c₁ r₁).mp p₁
  have q := (subgroupCheck_G2_iff c₂ r₂).mp p₂
  constructor
  · rw [subgroupCheck_G2_iff (canonT_ops c₁ c₂ 0).1 (opt_add_refines_F2 c₁ c₂ r₁ r₂), smul_add, p, q,
      add_zero]
  · rw [subgroupCheck_G2_iff (canonT_ops c₁ c₂ 0).2.2.1 (opt_neg_refines_F2 c₁ r₁), smul_neg, p,
      neg_zero]

/-- G2 rejects mixed points: a canonical triple representing `k • G + Q` with `G` in the
    `curve_order`-torsion and `Q ≠ 0` in the `G2_COFACTOR`-torsion FAILS the check. -/
theorem subgroupCheck_G2_rejects_mixed (c : CanonT T) (k : ℕ) (hG : blsR • G = 0)
    (hQ : blsconst_G2_COFACTOR • Q = 0) (hne : Q ≠ 0) (r : Represents (mapT toQ T) (k • G + Q)) :
    subgroupCheck T = false := by
  rw [← Bool.not_eq_true, subgroupCheck_G2_iff c r]
  exact C17.reject_mixed_G2 G Q k hG hQ hne

/-- G2, code form: `add(multiply(Tg, k), Tq)` fails whenever `Tg` passes and `Tq ≠ ∞` is killed by a
    scalar `h` coprime to `curve_order`. -/
theorem subgroupCheck_G2_rejects_mixed_code {h : ℕ} (hc : Nat.Coprime h blsR) (k : ℕ)
    (cg : CanonT Tg) (cq : CanonT Tq) (rg : Represents (mapT toQ Tg) G)
    (rq : Represents (mapT toQ Tq) Q) (hG : subgroupCheck Tg = true)
    (hQ : OptBls.is_inf (OptBls.multiply Tq h) = true) (hne : OptBls.is_inf Tq = false) :
    subgroupCheck (OptBls.add (OptBls.multiply Tg k) Tq) = false := by
  have cm := (canonT_ops cg cg k).2.2.2.1
  have rm := opt_multiply_refines_F2 cg rg k
  rw [← Bool.not_eq_true, subgroupCheck_G2_iff (canonT_ops cm cq 0).1 (opt_add_refines_F2 cm cq rm rq)]
  refine C17.reject_mixed hc G Q k ((subgroupCheck_G2_iff cg rg).mp hG) ?_ ?_
  · exact (opt_is_inf_refines_F2 (canonT_ops cq cq h).2.2.2.1 (opt_multiply_refines_F2 cq rq h)).mp hQ
  · intro h0
    rw [(opt_is_inf_refines_F2 cq rq).mpr h0] at hne
    exact Bool.noConfusion hne

/-- **`clear_cofactor_G2` refines `h_eff • P`**: on a canonical triple the model's
    `clearCofactorG2 T` is canonical and its value represents `H_EFF_G2 • P`. -/
theorem clearCofactorG2_refines (c : CanonT T) (r : Represents (mapT toQ T) P) :
    CanonT (clearCofactorG2 T) ∧ Represents (mapT toQ (clearCofactorG2 T)) (h2c_H_EFF_G2 • P) :=
  Transfer.clearCofactorG2_refines c r

/-- G2: a cleared point passes `subgroup_check` provided the represented point is killed by
    `G2_COFACTOR · curve_order` (the order of `E'(F_p²)`; not proved here, hence a hypothesis). -/
theorem subgroupCheck_G2_cleared (c : CanonT T) (r : Represents (mapT toQ T) P)
    (hP : (blsconst_G2_COFACTOR * blsR) • P = 0) : subgroupCheck (clearCofactorG2 T) = true := by
  obtain ⟨cc, rc⟩ := clearCofactorG2_refines c r
  rw [subgroupCheck_G2_iff cc rc]
  exact C17.clear_G2_lands P hP

end G2

/-- the generator `G2` of the model is canonical, on the curve, and passes `subgroup_check`
    (kernel evaluation of the modelled `FQ2` arithmetic) -/
theorem blsG2_passes :
    CanonT blsG2 ∧ OptBls.is_on_curve blsG2 blsB2 = true ∧ subgroupCheck blsG2 = true :=
  ⟨by decide +kernel, C07.Facts.bls_G2_opt.1, C07.Facts.bls_G2_opt.2.2⟩

/-- every multiple `multiply(G2, k)` of the model's generator passes `subgroup_check` -/
theorem blsG2_multiples_pass (k : ℕ) : subgroupCheck (OptBls.multiply blsG2 k) = true := by
  classical
  obtain ⟨P, r⟩ := (on_curve_iff_F2 blsG2_passes.1).mp blsG2_passes.2.1
  exact subgroupCheck_G2_multiply blsG2_passes.1 r blsG2_passes.2.2 k

/-- non-vacuity of the hypotheses (G2): the generator is canonical and its value represents a
    non-zero point over `K2` -/
example [DecidableEq K2] : CanonT blsG2 ∧
    ∃ P : CurvePt (toQ blsB2 : K2), Represents (mapT toQ blsG2) P ∧ P ≠ 0 := by
  obtain ⟨P, r⟩ := (on_curve_iff_F2 blsG2_passes.1).mp blsG2_passes.2.1
  refine ⟨blsG2_passes.1, P, r, fun h0 => ?_⟩
  have := (opt_is_inf_refines_F2 blsG2_passes.1 r).mpr h0
  rw [show OptBls.is_inf blsG2 = false from C07.Facts.bls_G2_opt.2.1] at this
  exact Bool.noConfusion this

end PyEcc.C17M
