/-
  PyEcc.Props.C12_Miller — property C12, stage 3, BLS12-381: the OPTIMIZED pairing
  (`py_ecc/optimized_bls12_381/optimized_pairing.py`) equals the REFERENCE pairing
  (`py_ecc/bls12_381/bls12_381_pairing.py`) as an FQ12 value (coefficient list).

  Model: `pairingOptBls`, `pairingRefBls`, `optBlsMillerLoop`, `refMillerLoop` of `Model/Pairing.lean`
  around the GENERATED `linefunc` / `double` / `add` / `is_on_curve` of both modules.

  How the five differences are bridged (helper lemmas in `Lemmas/Miller*.lean`):
   (i)   field class variants `.opt` / `.ref`: both are read in the same field
         `K12 = Fp[w]/(w¹² − 2w⁶ + 2)` through `toQ` (`MillerField.goodHom_F12`);
   (ii)  `R` projective over FQ2 and twisted after every update, vs `R` affine over FQ12:
         `twist ∘ double = double ∘ twist`, `twist ∘ add = add ∘ twist` (`MillerTwist`, proved:
         `double (tw T) = w⁶ • tw (double T)`, `add (tw T) (tw S) = w¹⁵ • tw (add T S)`);
   (iii) `(f_num, f_den)` vs `f`: `num / den` = affine line value (`C13.Bls.opt_linefunc_toAff`);
   (iv)  digit table vs bits of `ate_loop_count`: `MillerPairing.bls_digits_eq` (kernel evaluation);
   (v)   the same final power `(p¹² − 1)/r`.

  Regularity.  `num / den` is the line value only for finite running points with `y ≠ 0`;
  `MillerRegular Q` says exactly that about the points `R` the optimized loop meets.  It is PROVED
  (`millerRegular_of_subgroup`) for every on-curve finite `Q` that passes `subgroup_check` — the domain
  on which the pairing is used — so `pairingOptBls_eq_pairingRefBls_subgroup` has no hypothesis left
  besides "same inputs".
-/
import PyEcc.Lemmas.MillerRegular
import PyEcc.Props.C12
import PyEcc.Props.C17_Model

set_option linter.unusedSectionVars false
set_option maxRecDepth 100000

namespace PyEcc.C12M
open Polynomial PyEcc PyEcc.Gen PyEcc.Gen.Consts PyEcc.Fqp PyEcc.FqpSem PyEcc.Transfer
  PyEcc.PairingSem PyEcc.MillerSem

variable [DecidableEq K2]

/-- **One loop iteration** (stage 1).  If the optimized state `((f_num, f_den), R, twist_R)` and the
    reference state `(f, R_ref)` are related by the invariant (`f_den ≠ 0`, `f_num / f_den = f`,
    `twist_R = twist(R)` represents `R_ref`, everything stored reduced), `R` is finite with `y ≠ 0`
    and — when the digit is 1 — so is `double(R)`, then the reference iteration returns normally and
    the two new states are related again. -/
theorem miller_step [DecidableEq K12] {Q : T2} {Qr : A12} {castP : T12} {Pr : A12}
    (ctx : Ctx Q Qr castP Pr) (ate i : Nat) {so : (OBls12 × OBls12) × T2 × T12} {sr : RBls12 × A12}
    (inv : Inv so sr) (h1 : Fin2 so.2.1)
    (h2 : bitSet ate i = true → Fin2 (Gen.OptBls.double so.2.1)) :
    ∃ sr', refMillerStep refBlsOps ate Qr Pr sr i = .ok sr' ∧
      Inv (optBlsStep castP (twistOptBls Q) Q so (digitAt ate i)) sr' :=
  step_inv ctx ate i inv h1 h2

/-- **The twist commutes with `double` and `add`** (used by `miller_step`; no hypothesis): for all
    reduced FQ2 triples, `twist(double(R))` represents the reference `double` of the point represented
    by `twist(R)`, and the reference `add` of the points represented by `twist(R)`, `twist(S)` returns
    normally, the point represented by `twist(add(R, S))`. -/
theorem twist_commutes [DecidableEq K12] (R S : T2) (cR : CanonT R) (cS : CanonT S) :
    toAff (mapT toQ (twistOptBls (Gen.OptBls.double R) : T12))
        = Gen.RefBls.double (toAff (mapT toQ (twistOptBls R : T12)))
      ∧ Gen.RefBls.add (toAff (mapT toQ (twistOptBls R : T12))) (toAff (mapT toQ (twistOptBls S : T12)))
        = .ok (toAff (mapT toQ (twistOptBls (Gen.OptBls.add R S) : T12))) := by
  obtain ⟨cD, eD⟩ := Transfer.Bls.good_double (B := K2) (goodHom_F2 (v := .opt)) cR
  obtain ⟨cA, eA⟩ := Transfer.Bls.good_add (B := K2) (goodHom_F2 (v := .opt)) cR cS
  rw [toQ_twistOptBls cD, toQ_twistOptBls cA, toQ_twistOptBls cR, toQ_twistOptBls cS, eD, eA]
  exact ⟨toAff_twK_double _, ref_add_toAff_twK _ _⟩

/-- **Miller values agree** (stage 2).  Let `Q` (reduced FQ2 triple) and `P` (FQ triple) be finite
    representatives of the reference points `q`, `p`, with `Q` regular.  Then the reference loop
    `for i in range(log_ate_loop_count, -1, -1)` run on `twist(q)`, `cast_point_to_fq12(p)` returns
    normally, and its accumulator `f` — the reference Miller value BEFORE the final exponentiation —
    is, coefficient for coefficient, the value `f_num / f_den` returned by the optimized
    `miller_loop(Q, P, final_exponentiate=False)`. -/
theorem millerLoop_opt_eq_ref {Q : T2} {q : Option (RBls2 × RBls2)} {P : Fq blsP × Fq blsP × Fq blsP}
    {p : Option (Fq blsP × Fq blsP)} (cQ : CanonT Q) (cq : GoodO Canon q)
    (hQ : toAff (mapT toQ Q) = mapO toQ q) (hP : toAff P = p) (hQz : Q.2.2 ≠ 0) (hPz : P.2.2 ≠ 0)
    (hreg : MillerRegular Q) :
    ∃ f R, (downTo bls12_381_log_ate_loop_count).foldlM
        (refMillerStep refBlsOps bls12_381_ate_loop_count (twistRefBls q)
          (p.map fun (x, y) => (castFq12 x, castFq12 y))) ((1 : RBls12), twistRefBls q) = .ok (f, R)
      ∧ (optBlsMillerLoop (digitsFrom optimized_bls12_381_pseudo_binary_encoding 62) none Q P
          : OBls12).coeffs = f.coeffs := by
  classical
  obtain ⟨⟨f, R⟩, e, cf, co, v⟩ := miller_core cQ cq hQ hP hQz hPz hreg
  exact ⟨f, R, e, evQ_inj co cf v⟩

/-- **`pairing`: optimized = reference** (stage 3), under the regularity hypothesis.
    Let `Q` be a reduced FQ2 triple and `P` an FQ triple — ANY projective representatives — of the
    reference inputs `q : Optional[(FQ2, FQ2)]`, `p : Optional[(FQ, FQ)]` (`None` = ∞).  Then
    `optimized_bls12_381.pairing(Q, P)` and `bls12_381.pairing(q, p)` have the same outcome: both raise
    `ValueError` (a point off its curve), or both return the same FQ12 coefficient list — `FQ12.one()`
    when a point is ∞, otherwise the Miller value raised to `(p¹² − 1)/r`.
    `hreg` (needed only for on-curve finite `Q`) is discharged for subgroup points below. -/
theorem pairingOptBls_eq_pairingRefBls (Q : T2) (P : Fq blsP × Fq blsP × Fq blsP)
    (q : Option (RBls2 × RBls2)) (p : Option (Fq blsP × Fq blsP))
    (cQ : CanonT Q) (cq : GoodO Canon q)
    (hQ : toAff (mapT toQ Q) = mapO toQ q) (hP : toAff P = p)
    (hreg : Gen.OptBls.is_on_curve Q blsB2 = true → Q.2.2 ≠ 0 → MillerRegular Q) :
    (pairingOptBls Q P true).map Fqp.coeffs = (pairingRefBls q p).map Fqp.coeffs := by
  classical
  rw [pairingOptBls_eq, pairingRefBls_eq, on_curve_Q_agree cQ cq hQ, on_curve_P_agree hP]
  cases hcq : Gen.RefBls.is_on_curve q (⟨bls12_381_b2⟩ : RBls2)
  · rfl
  cases hcp : Gen.RefBls.is_on_curve p (Fq.ofInt bls12_381_b : Fq blsP)
  · rfl
  simp only [Bool.true_eq_false, if_false]
  by_cases hPz : P.2.2 = 0
  · have hp : p = none := by rw [← hP]; exact C13.toAff_of_z_eq_zero hPz
    subst hp
    rw [if_pos (Or.inl hPz), castRef_none, refMillerLoop_none_right, map_ok, map_ok, one_coeffs]
  by_cases hQz : Q.2.2 = 0
  · have hq : q = none := q_none_of_z hQ hQz
    subst hq
    have ht : (twistRefBls (none : Option (RBls2 × RBls2)) : A12) = none := rfl
    rw [if_pos (Or.inr hQz), ht, refMillerLoop_none_left, map_ok, map_ok, one_coeffs]
  rw [if_neg (by tauto), if_pos trivial]
  have hon : Gen.OptBls.is_on_curve Q blsB2 = true := by
    have := on_curve_Q_agree cQ cq hQ
    rw [hcq] at this; exact this
  obtain ⟨sr, e, cf, co, v⟩ := miller_core cQ cq hQ hP hQz hPz (hreg hon hQz)
  obtain ⟨⟨xq, yq⟩, rfl⟩ := q_some_of_z cQ hQ hQz
  obtain ⟨⟨xp, yp⟩, rfl⟩ : ∃ xy, p = some xy := by
    rw [← hP, C13.toAff_of_z_ne_zero hPz]; exact ⟨_, rfl⟩
  obtain ⟨q12, hq12⟩ := twistRefBls_some (p := blsP) (mc2 := blsMc2) (mc12 := blsMc12) xq yq
  rw [hq12, castRef_some] at e ⊢
  rw [refMillerLoop_some, e, ok_bind, optBlsMillerLoop_some, bls_final_exp_eq, pure_eq_ok, map_ok,
    map_ok, pow_coeffs co cf v]

/-- **Regularity holds on the subgroup** (stage 4).  For every reduced FQ2 triple `Q` that is on the
    twist curve, finite, and passes `subgroup_check(Q)` (`multiply(Q, curve_order)` is ∞): every
    running point `R` of the optimized Miller loop started at `Q` is finite with `y ≠ 0`.
    (`R = k·Q` with `0 < k ≤ ate_loop_count < r`, `r` prime, and the twist curve has no point with
    `y = 0`.) -/
theorem millerRegular_of_subgroup {Q : T2} (cQ : CanonT Q)
    (hon : Gen.OptBls.is_on_curve Q blsB2 = true) (hz : Q.2.2 ≠ 0) (hsub : subgroupCheck Q = true) :
    MillerRegular Q :=
  MillerSem.millerRegular_of_subgroup cQ hon hz hsub

/-- **`pairing`: optimized = reference on G2** — no regularity hypothesis.
    For every reduced FQ2 triple `Q` passing `subgroup_check` and every FQ triple `P`, any projective
    representatives of the reference inputs `q`, `p`: `optimized_bls12_381.pairing(Q, P)` and
    `bls12_381.pairing(q, p)` both raise `ValueError` (off-curve input) or return the same FQ12
    coefficient list.  (`P` is arbitrary: on the curve or not, in the subgroup or not, ∞ or not.) -/
theorem pairingOptBls_eq_pairingRefBls_subgroup (Q : T2) (P : Fq blsP × Fq blsP × Fq blsP)
    (q : Option (RBls2 × RBls2)) (p : Option (Fq blsP × Fq blsP))
    (cQ : CanonT Q) (cq : GoodO Canon q)
    (hQ : toAff (mapT toQ Q) = mapO toQ q) (hP : toAff P = p)
    (hsub : subgroupCheck Q = true) :
    (pairingOptBls Q P true).map Fqp.coeffs = (pairingRefBls q p).map Fqp.coeffs :=
  pairingOptBls_eq_pairingRefBls Q P q p cQ cq hQ hP
    (fun hon hz => MillerSem.millerRegular_of_subgroup cQ hon hz hsub)

/-- The same for `pairing(Q, P, final_exponentiate=False)`: raised to `(p¹² − 1)/r` (in the executable
    FQ12 model) it is the reference pairing. -/
theorem pairingOptBls_false_pow_eq_pairingRefBls_subgroup (Q : T2) (P : Fq blsP × Fq blsP × Fq blsP)
    (q : Option (RBls2 × RBls2)) (p : Option (Fq blsP × Fq blsP))
    (cQ : CanonT Q) (cq : GoodO Canon q)
    (hQ : toAff (mapT toQ Q) = mapO toQ q) (hP : toAff P = p)
    (hsub : subgroupCheck Q = true) :
    ((pairingOptBls Q P false).map
        (· ^ ((blsP ^ 12 - 1) / optimized_bls12_381_curve_order))).map Fqp.coeffs
      = (pairingRefBls q p).map Fqp.coeffs := by
  rw [← C12.pairingOptBls_finalExp]
  exact pairingOptBls_eq_pairingRefBls_subgroup Q P q p cQ cq hQ hP hsub

/-! ### hypothesis-free form: the reference inputs computed from the optimized ones -/

end PyEcc.C12M

namespace PyEcc.C12M
open Polynomial PyEcc PyEcc.Gen PyEcc.Gen.Consts PyEcc.Fqp PyEcc.FqpSem PyEcc.Transfer
  PyEcc.PairingSem PyEcc.MillerSem

/-- the reference-module reading of an optimized G2 triple: `None` when `z = 0`, otherwise
    `normalize(Q) = (x/z, y/z)` with the two coefficient lists re-wrapped in the reference `FQ2` class -/
def refOfOptG2 (Q : T2) : Option (RBls2 × RBls2) :=
  if Q.2.2 = 0 then none
  else some (⟨(Gen.OptBls.normalize Q).1.coeffs⟩, ⟨(Gen.OptBls.normalize Q).2.coeffs⟩)

/-- the reference-module reading of an optimized G1 triple: `None` when `z = 0`, else `normalize(P)` -/
def refOfOptG1 (P : Fq blsP × Fq blsP × Fq blsP) : Option (Fq blsP × Fq blsP) :=
  if P.2.2 = 0 then none else some (Gen.OptBls.normalize P)

theorem refOfOptG1_repr (P : Fq blsP × Fq blsP × Fq blsP) : toAff P = refOfOptG1 P := by
  unfold refOfOptG1
  by_cases hz : P.2.2 = 0
  · rw [if_pos hz, C13.toAff_of_z_eq_zero hz]
  · rw [if_neg hz, C13.Bls.opt_normalize P hz]

theorem refOfOptG2_repr [DecidableEq K2] {Q : T2} (cQ : CanonT Q) :
    GoodO Canon (refOfOptG2 Q) ∧ toAff (mapT toQ Q) = mapO toQ (refOfOptG2 Q) := by
  unfold refOfOptG2
  by_cases hz : Q.2.2 = 0
  · rw [if_pos hz]
    refine ⟨goodO_none _, ?_⟩
    have : (mapT (toQ : OBls2 → K2) Q).2.2 = 0 := by
      rw [mapT_snd_snd, hz]; exact (goodHom_F2 (v := .opt)).map_zero
    rw [C13.toAff_of_z_eq_zero this]; rfl
  · rw [if_neg hz]
    obtain ⟨⟨c1, c2⟩, e⟩ := Transfer.Bls.good_normalize (B := K2) (goodHom_F2 (v := .opt)) cQ
    refine ⟨goodO_some c1 c2, ?_⟩
    have hz' : (mapT (toQ : OBls2 → K2) Q).2.2 ≠ 0 := by
      rw [mapT_snd_snd]; exact toQ2_ne_zero cQ.2.2 hz
    rw [C13.Bls.opt_normalize _ hz', ← e]
    rfl

/-- **`pairing`: optimized = reference on G2, inputs converted by `normalize`.**
    For every reduced FQ2 triple `Q` that passes `subgroup_check` and EVERY FQ triple `P`:
    `optimized_bls12_381.pairing(Q, P)` has the same outcome as `bls12_381.pairing(q, p)` where
    `q`, `p` are `None` for `z = 0` and `normalize(·)` otherwise — the same `ValueError`, or the same
    twelve FQ12 coefficients. -/
theorem pairingOptBls_eq_pairingRefBls_normalize (Q : T2) (P : Fq blsP × Fq blsP × Fq blsP)
    (cQ : CanonT Q) (hsub : subgroupCheck Q = true) :
    (pairingOptBls Q P true).map Fqp.coeffs
      = (pairingRefBls (refOfOptG2 Q) (refOfOptG1 P)).map Fqp.coeffs := by
  classical
  obtain ⟨g, h⟩ := refOfOptG2_repr cQ
  exact pairingOptBls_eq_pairingRefBls_subgroup Q P _ _ cQ g h (refOfOptG1_repr P) hsub

/-! ### non-vacuity -/

/-- the generator `G2` satisfies the hypotheses of `pairingOptBls_eq_pairingRefBls_normalize` -/
example : CanonT blsG2 ∧ subgroupCheck blsG2 = true :=
  ⟨C17M.blsG2_passes.1, C17M.blsG2_passes.2.2⟩

/-- … and those of `millerRegular_of_subgroup`, `pairingOptBls_eq_pairingRefBls_subgroup` (with
    `q := refOfOptG2 G2`, `p := refOfOptG1 G1`) -/
example [DecidableEq K2] : CanonT blsG2 ∧ Gen.OptBls.is_on_curve blsG2 blsB2 = true ∧ blsG2.2.2 ≠ 0
    ∧ subgroupCheck blsG2 = true ∧ GoodO Canon (refOfOptG2 blsG2)
    ∧ toAff (mapT toQ blsG2) = mapO toQ (refOfOptG2 blsG2) ∧ toAff blsG1 = refOfOptG1 blsG1 :=
  ⟨C17M.blsG2_passes.1, C17M.blsG2_passes.2.1, by decide, C17M.blsG2_passes.2.2,
    (refOfOptG2_repr C17M.blsG2_passes.1).1, (refOfOptG2_repr C17M.blsG2_passes.1).2,
    refOfOptG1_repr blsG1⟩

/-- at the generators both sides of the theorems are returned values, not exceptions: the guards pass
    and no point is ∞ (the optimized side; the reference side then follows from the theorem) -/
example : ∃ f, pairingOptBls blsG2 blsG1 true = .ok f := by
  have h2 : Gen.OptBls.is_on_curve blsG2 (⟨optimized_bls12_381_b2⟩ : OBls2) = true :=
    C17M.blsG2_passes.2.1
  have h1 : Gen.OptBls.is_on_curve blsG1 (Fq.ofInt optimized_bls12_381_b : Fq blsP) = true :=
    C07.Facts.bls_G1_model.1
  have hz : ¬ (blsG1.2.2 = 0 ∨ blsG2.2.2 = 0) := by decide
  rw [pairingOptBls_eq, h2, h1, if_neg (by decide), if_neg (by decide), if_neg hz]
  exact ⟨_, rfl⟩

/-- `MillerRegular` is a decidable statement about the model; it holds for the generator (kernel
    evaluation of the 63 doublings and 5 additions of the loop) — hypotheses of
    `millerLoop_opt_eq_ref`, `pairingOptBls_eq_pairingRefBls` -/
example : MillerRegular blsG2 := by decide +kernel

end PyEcc.C12M
