/-
  PyEcc.Props.C19_Sound — property C19, soundness part: whenever `ecdsa_raw_recover` of
  `py_ecc/secp256k1/secp256k1.py` (model `PyEcc.Ecdsa.ecdsaRawRecover` around the GENERATED Jacobian arithmetic)
  returns a value, that value is the representation of the unique point `Q` of Mathlib's group `E(F_P)` with
  `r • Q = s • R − z • G`, `R` the point above `x = r` with the parity encoded in `v`; and the signature `(r, s)`
  verifies for `Q` (SEC 1 §4.1.4). Built on C18 (`Gen.Secp` arithmetic = Mathlib's group law, `#E = N` prime).
-/
import PyEcc.Sem.EcdsaGroup
import PyEcc.Props.C19

namespace PyEcc.C19
open WeierstrassCurve PyEcc PyEcc.Gen.Secp PyEcc.SecpSem PyEcc.Gen.Consts PyEcc.Ecdsa PyEcc.EcdsaSem

/-- **Recovery is sound.** For ALL inputs (any byte string `h`, any ints `v, r, s`): if `ecdsa_raw_recover(h, (v, r, s))`
returns `Q` then there are a curve point `R = (X, Y)` of `E : y² = x³ + 7` over `ZMod P` and a point `Qp` with:
`X ≡ r (mod P)`; `Y` (as an int in `[0, P)`) is even for `v = 27` and odd for `v = 28`; `Q` is the representation
of `Qp` (`(0, 0)` for the identity, else reduced affine coordinates); `r • Qp = s • R − z • G` in the group, `z` the
big-endian int of `h`; `Qp` is the ONLY point with this property (`N` is prime and `r ≢ 0`); and, when `0 ≤ r < P`,
the signature `(r, s)` verifies for message int `z` and public key `Qp` by the textbook algorithm (`Verifies`).
NOTE `Qp` may be the identity (returned as `(0, 0)`): this happens exactly when `s • R = z • G`. -/
theorem recover_sound (h : Bytes) (v r s : ℤ) (Q : ℤ × ℤ) (hok : ecdsaRawRecover h v r s = .ok Q) :
    ∃ (X Y : Fp) (hns : E.Nonsingular X Y) (Qp : E.Point),
      X = (r : Fp) ∧ (v = 27 → ((Y.val : ℕ) : ℤ) % 2 = 0) ∧ (v = 28 → ((Y.val : ℕ) : ℤ) % 2 = 1) ∧
      Q = reprSecp Qp ∧
      r • Qp = s • (Affine.Point.some X Y hns) - (bytesToInt h) • Gpt ∧
      (∀ Q' : E.Point, r • Q' = s • (Affine.Point.some X Y hns) - (bytesToInt h) • Gpt → Q' = Qp) ∧
      (0 ≤ r → r < P → Verifies (bytesToInt h) r s Qp) := by
  -- the two tests passed
  have hne : ecdsaRawRecover h v r s ≠ .error .value := by rw [hok]; exact fun e => by cases e
  have hcond := mt (recover_error_iff h v r s).mpr hne
  push Not at hcond
  obtain ⟨hv, hr, hs, hsq⟩ := hcond
  have hcheck : ¬ (xcub r - liftY v r * liftY v r) % P ≠ 0 := fun hc => (residue_test v r).1.mp hc hsq
  have hfield : ((liftY v r : ℤ) : Fp) ^ 2 = (r : Fp) ^ 3 + ((B : ℤ) : Fp) := by
    by_contra hne'
    exact hcheck ((check_iff_field v r).mpr hne')
  have hns : E.Nonsingular (r : Fp) ((liftY v r : ℤ) : Fp) := nonsingular_of_eq hfield
  have hval : ((((liftY v r : ℤ) : Fp).val : ℕ) : ℤ) = liftY v r := by
    rw [val_cast, Int.emod_eq_of_lt (liftY_range v r).1.le (liftY_range v r).2]
  have hpar : ((((liftY v r : ℤ) : Fp).val : ℕ) : ℤ) % 2 = (v - 27) % 2 := by
    rw [hval]; exact liftY_parity v r hv
  have hrec := recover_of_point h v r s hv hr hs hns rfl hpar
  rw [hok] at hrec
  have hQ := Except.ok.inj hrec
  have hr' : (r : Fn) ≠ 0 := fun e => hr ((castN_eq_zero_iff r).mp e)
  set R : E.Point := Affine.Point.some (r : Fp) ((liftY v r : ℤ) : Fp) hns with hRdef
  set Qp : E.Point := (r : Fn)⁻¹ • ((s : Fn) • R - ((bytesToInt h : ℤ) : Fn) • Gpt) with hQp
  have hmain : (r : Fn) • Qp = (s : Fn) • R - ((bytesToInt h : ℤ) : Fn) • Gpt := by
    rw [hQp, smul_smul, mul_inv_cancel₀ hr', one_smul]
  refine ⟨(r : Fp), ((liftY v r : ℤ) : Fp), hns, Qp, rfl, ?_, ?_, hQ, ?_, ?_, ?_⟩
  · rintro rfl; rw [hpar]; decide
  · rintro rfl; rw [hpar]; decide
  · rw [← cast_smul, ← cast_smul, ← cast_smul]; exact hmain
  · intro Q' hQ'
    rw [← cast_smul, ← cast_smul, ← cast_smul, ← hmain] at hQ'
    have := congrArg (fun T => (r : Fn)⁻¹ • T) hQ'
    simpa only [smul_smul, inv_mul_cancel₀ hr', one_smul] using this
  · intro h0 hP
    refine verifies_of_eq hr hs hns ?_ ?_
    · rw [val_cast, Int.emod_eq_of_lt h0 hP]
    · rw [hmain]; abel

/-- non-vacuity of `recover_sound`: the model accepts this input (see `Props/C19.lean`); and the recovered value CAN
be the identity marker `(0, 0)`: `ecdsa_raw_recover(b"\x01", (27, Gx, 1)) = (0, 0)`. -/
example : ∃ Q, ecdsaRawRecover [1] 27 Gx 1 = .ok Q := by
  have hne : ecdsaRawRecover [1] 27 Gx 1 ≠ .error .value := by
    rw [Ne, recover_error_iff]
    push Not
    refine ⟨Or.inl rfl, by decide, by decide, ⟨((Gy : ℤ) : Fp), ?_⟩⟩
    have := SecpSem.G_on_curve
    rw [B_cast] at this
    linear_combination -this
  rcases hres : ecdsaRawRecover [1] 27 Gx 1 with e | Q
  · exact absurd (by rw [hres, recover_error_kind _ _ _ _ e hres]) hne
  · exact ⟨Q, rfl⟩

end PyEcc.C19

section AxiomAudit
open PyEcc.C19
#print axioms recover_sound
end AxiomAudit
