/-
  PyEcc.Props.C17_Gen — property C17 restated about the GENERATED code.

  `Gen/ExtraCodec.lean` (`subgroup_check`, from `py_ecc/bls/g2_primitives.py`) and `Gen/ExtraSwu.lean`
  (`multiply_clear_cofactor_G1/G2`, from `py_ecc/optimized_bls12_381/optimized_clear_cofactor.py`, and the
  wrappers `clear_cofactor_G1/G2` of `py_ecc/bls/hash_to_curve.py`) are re-generated from the Python source on
  every run.  Every theorem below is a headline theorem of `Props/C17*.lean` in which each py_ecc function is
  the GENERATED definition (`PyEcc.Gen.ExtraCodec.*`, `PyEcc.Gen.ExtraSwu.*`, `PyEcc.Gen.OptBls.*`), obtained
  by rewriting with the tie theorems of `Props/TieCofactor.lean` and applying the model theorem.  No
  hypothesis is added or weakened.

  Reading of the statements (as in `Props/C17_Model.lean`): `P`, `Q`, `G` are points of Mathlib's
  elliptic-curve group — of `y² = x³ + 4` over `Fq blsP` for G1, of `y² = x³ + 4(1+i)` over
  `K2 = F_p[X]/(X²+1)` for G2; `Represents T P` (G1) resp. `Represents (mapT toQ T) P` (G2) says the
  projective triple `T` represents `P`; `CanonT T` says each `FQ2` coordinate has exactly two coefficients in
  `[0, p)` (what the Python class always holds).
-/
import PyEcc.Props.C17_Order
import PyEcc.Props.TieCofactor

set_option linter.unusedSectionVars false
set_option maxRecDepth 100000

namespace PyEcc.C17.Gen
open PyEcc PyEcc.Gen.Consts PyEcc.FqpSem PyEcc.Transfer WeierstrassCurve

/-! ## `subgroup_check` is exact -/

section generic
variable {F : Type} [Zero F] [One F] [Add F] [Sub F] [Mul F] [Neg F] [Div F] [NatCast F] [Pow F Nat]
  [DecidableEq F]

/-- **The generated `subgroup_check` multiplies by the standard group order.**  `subgroup_check(P)` as
    translated from the source is `is_inf(multiply(P, r))` with the BLS12-381 order
    `r = 0x73eda753…00000001` (`Spec.BLS12381.r`), over any coordinate type. -/
theorem subgroup_check_eq_spec (T : F × F × F) :
    Gen.ExtraCodec.subgroup_check T = Gen.OptBls.is_inf (Gen.OptBls.multiply T Spec.BLS12381.r) := by
  rw [Tie.subgroup_check_eq]; exact C17.subgroupCheck_eq T

/-- the generated `subgroup_check(P)` is true exactly when the `z` coordinate of `multiply(P, r)` is zero -/
theorem subgroup_check_iff_z (T : F × F × F) :
    Gen.ExtraCodec.subgroup_check T = true ↔ (Gen.OptBls.multiply T Spec.BLS12381.r).2.2 = 0 := by
  rw [Tie.subgroup_check_eq]; exact C17.subgroupCheck_iff T

end generic

section G1
variable {T T₁ T₂ Tg Tq : G1Pt} {P Q G : CurvePt (blsB : F1)}

/-- **G1: generated `subgroup_check P = true ↔ r • P = 0`.**  Run on `FQ` triples, the generated
    `subgroup_check(T)` returns `True` iff `curve_order • P = 0` for the Mathlib point `P` represented by `T`
    (any projective representative). -/
theorem subgroup_check_G1_iff (r : Represents T P) :
    Gen.ExtraCodec.subgroup_check T = true ↔ blsR • P = 0 := by
  rw [Tie.subgroup_check_eq]; exact C17M.subgroupCheck_G1_iff r

/-- G1, using that `curve_order` is prime: the generated `subgroup_check(T)` is `True` iff the represented
    point is the identity or has order exactly `curve_order`. -/
theorem subgroup_check_G1_iff_prime (r : Represents T P) :
    Gen.ExtraCodec.subgroup_check T = true ↔ P = 0 ∨ addOrderOf P = blsR := by
  rw [Tie.subgroup_check_eq]; exact C17M.subgroupCheck_G1_iff_prime r

/-- **G1, closed form.**  Every triple accepted by the generated `is_on_curve(T, b)` represents a point of
    `E(Fp)`, and the generated `subgroup_check(T)` decides whether that point is killed by `curve_order`. -/
theorem subgroup_check_G1_of_on_curve (hT : Gen.OptBls.is_on_curve T blsB = true) :
    ∃ P : CurvePt (blsB : F1), Represents T P ∧
      (Gen.ExtraCodec.subgroup_check T = true ↔ blsR • P = 0) := by
  obtain ⟨P, r, h⟩ := C17M.subgroupCheck_G1_of_on_curve hT
  exact ⟨P, r, by rw [Tie.subgroup_check_eq]; exact h⟩

/-- **G1 accepts exactly the multiples of the generator.**  A triple on the curve passes the generated
    `subgroup_check` iff it is `eq` to `multiply(G1, k)` for some `k < curve_order`. -/
theorem subgroup_check_G1_iff_multiple (hT : Gen.OptBls.is_on_curve T blsB = true) :
    Gen.ExtraCodec.subgroup_check T = true ↔
      ∃ k : ℕ, k < blsR ∧ Gen.OptBls.eq T (Gen.OptBls.multiply blsG1 k) = true := by
  rw [Tie.subgroup_check_eq]; exact C17O.subgroupCheck_G1_iff_multiple T hT

/-- G1: the answer of the generated `subgroup_check` does not depend on the representative
    (`eq(T, T') = True`), for ALL triples. -/
theorem subgroup_check_G1_congr {T' : G1Pt} (e : Gen.OptBls.eq T T' = true) :
    Gen.ExtraCodec.subgroup_check T = Gen.ExtraCodec.subgroup_check T' := by
  rw [Tie.subgroup_check_eq, Tie.subgroup_check_eq]; exact C17M.subgroupCheck_G1_congr e

/-- G1: every triple with `z = 0` (the identity, any representation) passes the generated `subgroup_check`. -/
theorem subgroup_check_G1_accepts_inf (hz : T.2.2 = 0) : Gen.ExtraCodec.subgroup_check T = true := by
  rw [Tie.subgroup_check_eq]; exact C17M.subgroupCheck_G1_accepts_inf hz

/-- G1: every multiple `multiply(G1, k)` of the generator constant passes the generated `subgroup_check`. -/
theorem subgroup_check_G1_multiples (k : ℕ) :
    Gen.ExtraCodec.subgroup_check (Gen.OptBls.multiply blsG1 k) = true := by
  rw [Tie.subgroup_check_eq]; exact C17M.blsG1_multiples_pass k

/-- **G1 rejects mixed points.**  A triple representing `k • G + Q` with `G` in the `curve_order`-torsion and
    `Q ≠ 0` in the torsion of the G1 cofactor `h₁` FAILS the generated `subgroup_check`. -/
theorem subgroup_check_G1_rejects_mixed (k : ℕ) (hG : blsR • G = 0)
    (hQ : Spec.BLS12381.h1 • Q = 0) (hne : Q ≠ 0) (r : Represents T (k • G + Q)) :
    Gen.ExtraCodec.subgroup_check T = false := by
  rw [Tie.subgroup_check_eq]; exact C17M.subgroupCheck_G1_rejects_mixed k hG hQ hne r

/-- G1, code form: `add(multiply(Tg, k), Tq)` fails the generated `subgroup_check` whenever `Tg` passes it and
    `Tq ≠ ∞` is killed by a scalar `h` coprime to `curve_order`. -/
theorem subgroup_check_G1_rejects_mixed_code {h : ℕ} (hc : Nat.Coprime h blsR) (k : ℕ)
    (rg : Represents Tg G) (rq : Represents Tq Q) (hG : Gen.ExtraCodec.subgroup_check Tg = true)
    (hQ : Gen.OptBls.is_inf (Gen.OptBls.multiply Tq h) = true) (hne : Gen.OptBls.is_inf Tq = false) :
    Gen.ExtraCodec.subgroup_check (Gen.OptBls.add (Gen.OptBls.multiply Tg k) Tq) = false := by
  rw [Tie.subgroup_check_eq] at hG ⊢
  exact C17M.subgroupCheck_G1_rejects_mixed_code hc k rg rq hG hQ hne

end G1

/-- non-vacuity of the hypotheses of `subgroup_check_G1_rejects_mixed_code` (and, through `Represents`, of
    `subgroup_check_G1_rejects_mixed`): `Tg = G1`, `k = 5`, `Tq = (0, 2, 1)` — the curve point of order `h = 3`
    (finding K1 of C11) — so `5·G1 + (0, 2)` is a curve point that the generated `subgroup_check` rejects -/
example : Gen.ExtraCodec.subgroup_check
    (Gen.OptBls.add (Gen.OptBls.multiply blsG1 5) ((0 : F1), (Fq.ofInt 2 : F1), (1 : F1))) = false := by
  obtain ⟨G, rg⟩ := (on_curve_iff_F1 blsG1).mp C17M.blsG1_passes.1
  obtain ⟨Q, rq⟩ := (on_curve_iff_F1 ((0 : F1), (Fq.ofInt 2 : F1), (1 : F1))).mp (by decide +kernel)
  exact subgroup_check_G1_rejects_mixed_code (h := 3) (by decide +kernel) 5 rg rq
    (by rw [Tie.subgroup_check_eq]; exact C17M.blsG1_passes.2) (by decide +kernel) (by decide +kernel)

/-- non-vacuity (G1): the generator constant is on the curve, represents a point, and passes -/
example : Gen.OptBls.is_on_curve blsG1 blsB = true ∧ Gen.ExtraCodec.subgroup_check blsG1 = true :=
  ⟨C17M.blsG1_passes.1, by rw [Tie.subgroup_check_eq]; exact C17M.blsG1_passes.2⟩

section G2
variable [DecidableEq K2] {T T₁ T₂ Tg Tq : G2Pt} {P Q G : CurvePt (toQ blsB2 : K2)}

/-- **G2: generated `subgroup_check P = true ↔ r • P = 0`.**  Run on a canonical `FQ2` triple `T` whose value
    represents the point `P` of `E'(Fp²)`, the generated `subgroup_check(T)` returns `True` iff
    `curve_order • P = 0`. -/
theorem subgroup_check_G2_iff (c : CanonT T) (r : Represents (mapT toQ T) P) :
    Gen.ExtraCodec.subgroup_check T = true ↔ blsR • P = 0 := by
  rw [Tie.subgroup_check_eq]; exact C17M.subgroupCheck_G2_iff c r

/-- G2, using that `curve_order` is prime: `True` iff `P` is the identity or has order exactly `curve_order`. -/
theorem subgroup_check_G2_iff_prime (c : CanonT T) (r : Represents (mapT toQ T) P) :
    Gen.ExtraCodec.subgroup_check T = true ↔ P = 0 ∨ addOrderOf P = blsR := by
  rw [Tie.subgroup_check_eq]; exact C17M.subgroupCheck_G2_iff_prime c r

/-- **G2, closed form.**  Every canonical triple accepted by the generated `is_on_curve(T, b2)` represents a
    point of `E'(Fp²)`, and the generated `subgroup_check(T)` decides whether it is killed by `curve_order`. -/
theorem subgroup_check_G2_of_on_curve (c : CanonT T) (hT : Gen.OptBls.is_on_curve T blsB2 = true) :
    ∃ P : CurvePt (toQ blsB2 : K2), Represents (mapT toQ T) P ∧
      (Gen.ExtraCodec.subgroup_check T = true ↔ blsR • P = 0) := by
  obtain ⟨P, r, h⟩ := C17M.subgroupCheck_G2_of_on_curve c hT
  exact ⟨P, r, by rw [Tie.subgroup_check_eq]; exact h⟩

/-- G2: the answer does not depend on the representative, for all canonical triples. -/
theorem subgroup_check_G2_congr {T' : G2Pt} (c : CanonT T) (c' : CanonT T')
    (e : Gen.OptBls.eq T T' = true) :
    Gen.ExtraCodec.subgroup_check T = Gen.ExtraCodec.subgroup_check T' := by
  rw [Tie.subgroup_check_eq, Tie.subgroup_check_eq]; exact C17M.subgroupCheck_G2_congr c c' e

/-- G2: every canonical triple with `z = 0` passes the generated `subgroup_check`. -/
theorem subgroup_check_G2_accepts_inf (c : CanonT T) (hz : T.2.2 = 0) :
    Gen.ExtraCodec.subgroup_check T = true := by
  rw [Tie.subgroup_check_eq]; exact C17M.subgroupCheck_G2_accepts_inf c hz

/-- **G2 rejects mixed points.**  A canonical triple representing `k • G + Q` with `G` in the
    `curve_order`-torsion and `Q ≠ 0` in the `G2_COFACTOR`-torsion FAILS the generated `subgroup_check`. -/
theorem subgroup_check_G2_rejects_mixed (c : CanonT T) (k : ℕ) (hG : blsR • G = 0)
    (hQ : blsconst_G2_COFACTOR • Q = 0) (hne : Q ≠ 0) (r : Represents (mapT toQ T) (k • G + Q)) :
    Gen.ExtraCodec.subgroup_check T = false := by
  rw [Tie.subgroup_check_eq]; exact C17M.subgroupCheck_G2_rejects_mixed c k hG hQ hne r

/-- G2, code form: `add(multiply(Tg, k), Tq)` fails whenever `Tg` passes and `Tq ≠ ∞` is killed by a scalar
    `h` coprime to `curve_order`. -/
theorem subgroup_check_G2_rejects_mixed_code {h : ℕ} (hc : Nat.Coprime h blsR) (k : ℕ)
    (cg : CanonT Tg) (cq : CanonT Tq) (rg : Represents (mapT toQ Tg) G)
    (rq : Represents (mapT toQ Tq) Q) (hG : Gen.ExtraCodec.subgroup_check Tg = true)
    (hQ : Gen.OptBls.is_inf (Gen.OptBls.multiply Tq h) = true) (hne : Gen.OptBls.is_inf Tq = false) :
    Gen.ExtraCodec.subgroup_check (Gen.OptBls.add (Gen.OptBls.multiply Tg k) Tq) = false := by
  rw [Tie.subgroup_check_eq] at hG ⊢
  exact C17M.subgroupCheck_G2_rejects_mixed_code hc k cg cq rg rq hG hQ hne

end G2

/-- **G2 accepts exactly the multiples of the generator.**  A canonical triple on the twist curve passes the
    generated `subgroup_check` iff it is `eq` to `multiply(G2, k)` for some `k < curve_order`. -/
theorem subgroup_check_G2_iff_multiple (T : G2Pt) (c : CanonT T)
    (hT : Gen.OptBls.is_on_curve T blsB2 = true) :
    Gen.ExtraCodec.subgroup_check T = true ↔
      ∃ k : ℕ, k < blsR ∧ Gen.OptBls.eq T (Gen.OptBls.multiply blsG2 k) = true := by
  rw [Tie.subgroup_check_eq]; exact C17O.subgroupCheck_G2_iff_multiple T c hT

/-- G2: every multiple `multiply(G2, k)` of the generator constant passes the generated `subgroup_check`. -/
theorem subgroup_check_G2_multiples (k : ℕ) :
    Gen.ExtraCodec.subgroup_check (Gen.OptBls.multiply blsG2 k) = true := by
  rw [Tie.subgroup_check_eq]; exact C17M.blsG2_multiples_pass k

/-- non-vacuity (G2): the generator constant is canonical, on the twist curve, and passes -/
example : CanonT blsG2 ∧ Gen.OptBls.is_on_curve blsG2 blsB2 = true ∧
    Gen.ExtraCodec.subgroup_check blsG2 = true :=
  ⟨C17M.blsG2_passes.1, C17M.blsG2_passes.2.1, by rw [Tie.subgroup_check_eq]; exact C17M.blsG2_passes.2.2⟩

/-! ## cofactor clearing -/

/-- **The generated cofactor clearing is multiplication by RFC 9380's effective cofactors.**
    `multiply_clear_cofactor_G1(P) = multiply(P, 0xd201000000010001)` and
    `multiply_clear_cofactor_G2(P) = multiply(P, h_eff)` with the `h_eff` of RFC 9380 §8.8.2
    (`Spec.H2C.hEffG1`, `Spec.H2C.hEffG2`), and `clear_cofactor_G1/G2` of `hash_to_curve.py` are these
    functions. -/
theorem clear_cofactor_eq_spec (T₁ : G1Pt) (T₂ : G2Pt) :
    Gen.ExtraSwu.multiply_clear_cofactor_G1 T₁ = Gen.OptBls.multiply T₁ Spec.H2C.hEffG1 ∧
    Gen.ExtraSwu.multiply_clear_cofactor_G2 T₂ = Gen.OptBls.multiply T₂ Spec.H2C.hEffG2 ∧
    Gen.ExtraSwu.clear_cofactor_G1 T₁ = Gen.ExtraSwu.multiply_clear_cofactor_G1 T₁ ∧
    Gen.ExtraSwu.clear_cofactor_G2 T₂ = Gen.ExtraSwu.multiply_clear_cofactor_G2 T₂ := by
  refine ⟨?_, ?_, ?_, ?_⟩
  · rw [Tie.multiply_clear_cofactor_G1_eq]; exact C17.clearCofactorG1_eq T₁
  · rw [Tie.multiply_clear_cofactor_G2_eq]; exact C17.clearCofactorG2_eq T₂
  · rw [Tie.clear_cofactor_G1_eq, Tie.multiply_clear_cofactor_G1_eq]
  · rw [Tie.clear_cofactor_G2_eq, Tie.multiply_clear_cofactor_G2_eq]

/-- **G1: the generated `multiply_clear_cofactor_G1` computes `h_eff • P`.**  If `T` represents `P` then the
    result represents `H_EFF_G1 • P`. -/
theorem multiply_clear_cofactor_G1_refines {T : G1Pt} {P : CurvePt (blsB : F1)} (r : Represents T P) :
    Represents (Gen.ExtraSwu.multiply_clear_cofactor_G1 T) (h2c_H_EFF_G1 • P) := by
  rw [Tie.multiply_clear_cofactor_G1_eq]; exact C17M.clearCofactorG1_refines r

/-- **G2: the generated `multiply_clear_cofactor_G2` computes `h_eff • P`.**  On a canonical triple whose value
    represents `P`, the result is canonical and its value represents `H_EFF_G2 • P`. -/
theorem multiply_clear_cofactor_G2_refines [DecidableEq K2] {T : G2Pt} {P : CurvePt (toQ blsB2 : K2)}
    (c : CanonT T) (r : Represents (mapT toQ T) P) :
    CanonT (Gen.ExtraSwu.multiply_clear_cofactor_G2 T) ∧
      Represents (mapT toQ (Gen.ExtraSwu.multiply_clear_cofactor_G2 T)) (h2c_H_EFF_G2 • P) := by
  rw [Tie.multiply_clear_cofactor_G2_eq]; exact C17M.clearCofactorG2_refines c r

/-- **G1: generated cofactor clearing lands in the subgroup, for every curve point.**  For EVERY triple `T`
    accepted by the generated `is_on_curve(T, b)`, `multiply_clear_cofactor_G1(T)` is on the curve and passes
    the generated `subgroup_check`.  (Unconditional: `#E(Fp) = h₁·r` is proved in `Props/C17_Order.lean`.) -/
theorem multiply_clear_cofactor_G1_lands (T : G1Pt) (hT : Gen.OptBls.is_on_curve T blsB = true) :
    Gen.OptBls.is_on_curve (Gen.ExtraSwu.multiply_clear_cofactor_G1 T) blsB = true ∧
    Gen.ExtraCodec.subgroup_check (Gen.ExtraSwu.multiply_clear_cofactor_G1 T) = true := by
  rw [Tie.multiply_clear_cofactor_G1_eq, Tie.subgroup_check_eq]
  exact C17O.clearCofactorG1_lands T hT

/-- the same for the wrapper `clear_cofactor_G1` of `py_ecc/bls/hash_to_curve.py` -/
theorem clear_cofactor_G1_lands (T : G1Pt) (hT : Gen.OptBls.is_on_curve T blsB = true) :
    Gen.OptBls.is_on_curve (Gen.ExtraSwu.clear_cofactor_G1 T) blsB = true ∧
    Gen.ExtraCodec.subgroup_check (Gen.ExtraSwu.clear_cofactor_G1 T) = true := by
  rw [Tie.clear_cofactor_G1_eq, Tie.subgroup_check_eq]
  exact C17O.clearCofactorG1_lands T hT

/-- **G2: generated cofactor clearing lands in the subgroup, for every curve point.**  For EVERY canonical
    `FQ2` triple `T` accepted by the generated `is_on_curve(T, b2)`, `multiply_clear_cofactor_G2(T)` is
    canonical, on the twist curve, and passes the generated `subgroup_check`.  (Unconditional:
    `#E'(Fp²) = h₂·r` is proved in `Props/C17_Order.lean`.) -/
theorem multiply_clear_cofactor_G2_lands (T : G2Pt) (c : CanonT T)
    (hT : Gen.OptBls.is_on_curve T blsB2 = true) :
    CanonT (Gen.ExtraSwu.multiply_clear_cofactor_G2 T) ∧
    Gen.OptBls.is_on_curve (Gen.ExtraSwu.multiply_clear_cofactor_G2 T) blsB2 = true ∧
    Gen.ExtraCodec.subgroup_check (Gen.ExtraSwu.multiply_clear_cofactor_G2 T) = true := by
  rw [Tie.multiply_clear_cofactor_G2_eq, Tie.subgroup_check_eq]
  exact C17O.clearCofactorG2_lands T c hT

/-- the same for the wrapper `clear_cofactor_G2` of `py_ecc/bls/hash_to_curve.py` -/
theorem clear_cofactor_G2_lands (T : G2Pt) (c : CanonT T) (hT : Gen.OptBls.is_on_curve T blsB2 = true) :
    CanonT (Gen.ExtraSwu.clear_cofactor_G2 T) ∧
    Gen.OptBls.is_on_curve (Gen.ExtraSwu.clear_cofactor_G2 T) blsB2 = true ∧
    Gen.ExtraCodec.subgroup_check (Gen.ExtraSwu.clear_cofactor_G2 T) = true := by
  rw [Tie.clear_cofactor_G2_eq, Tie.subgroup_check_eq]
  exact C17O.clearCofactorG2_lands T c hT

/-- non-vacuity: the generators satisfy the hypotheses of the four `…_lands` theorems -/
example : Gen.OptBls.is_on_curve blsG1 blsB = true ∧
    CanonT blsG2 ∧ Gen.OptBls.is_on_curve blsG2 blsB2 = true :=
  ⟨C17M.blsG1_passes.1, C17M.blsG2_passes.1, C17M.blsG2_passes.2.1⟩

/-- **G1: clearing does not collapse the subgroup.**  The generated `multiply_clear_cofactor_G1` is injective
    (up to `eq`) on triples that pass the generated `subgroup_check`. -/
theorem multiply_clear_cofactor_G1_injective {T₁ T₂ : G1Pt} {P Q : CurvePt (blsB : F1)}
    (r₁ : Represents T₁ P) (r₂ : Represents T₂ Q)
    (c₁ : Gen.ExtraCodec.subgroup_check T₁ = true) (c₂ : Gen.ExtraCodec.subgroup_check T₂ = true)
    (he : Gen.OptBls.eq (Gen.ExtraSwu.multiply_clear_cofactor_G1 T₁)
      (Gen.ExtraSwu.multiply_clear_cofactor_G1 T₂) = true) : Gen.OptBls.eq T₁ T₂ = true := by
  rw [Tie.subgroup_check_eq] at c₁ c₂
  rw [Tie.multiply_clear_cofactor_G1_eq, Tie.multiply_clear_cofactor_G1_eq] at he
  exact C17M.clearCofactorG1_injective r₁ r₂ c₁ c₂ he

end PyEcc.C17.Gen
