/-
  PyEcc.Props.TieHash — TIE theorems ("generated = hand-written model") for the byte/hash layer:
  `py_ecc/bls/hash.py` and the field half of `py_ecc/bls/hash_to_curve.py`.
  `Gen/ExtraHash.lean` is re-generated from the Python source on every run (tools/translate/gen_hash.py). Each theorem states that
  the function the translator produced from the CURRENT source is, for all inputs, the hand-written model function that the property
  theorems are about. A change to one of these Python functions changes the generated definition and breaks a theorem here statically.
-/
import PyEcc.Gen.ExtraHash

namespace PyEcc.Tie
open PyEcc PyEcc.Gen.Consts

/-! ### generic loop lemmas: "fold over a range" = "explicit counter loop" -/

/-- `for x in l: acc.append(f x)` builds `acc ++ l.map f`. -/
theorem foldl_append_singleton {α β : Type} (f : α → β) (l : List α) (acc : List β) :
    List.foldl (fun acc x => acc ++ [f x]) acc l = acc ++ l.map f := by
  induction l generalizing acc with
  | nil => simp
  | cons a l ih => simp [ih]

/-- a monadic fold whose body never raises is the pure fold. -/
theorem foldlM_ok {α σ : Type} (f : σ → α → σ) (l : List α) (s : σ) :
    List.foldlM (fun s x => (pure (f s x) : Except PyErr σ)) s l = pure (List.foldl f s l) := by
  induction l generalizing s with
  | nil => rfl
  | cons a l ih => simp [List.foldlM_cons, ih]

/-! ### `py_ecc/bls/hash.py` -/

/-- `hkdf_extract(salt, ikm)` = `hmac.new(salt, ikm, hashlib.sha256).digest()` as translated from the source (with `hashlib.sha256`
    as the parameter `H`) is the model's `hkdfExtract`. -/
theorem hkdf_extract_eq (H : HashFn) (salt ikm : Bytes) :
    Gen.ExtraHash.hkdf_extract salt ikm H = hkdfExtract H salt ikm := by
  unfold Gen.ExtraHash.hkdf_extract hkdfExtract
  with_reducible rfl

/-- `i2osp(x, xlen)` = `x.to_bytes(xlen, byteorder="big", signed=False)` is the model's `i2osp` (big-endian digits, OverflowError
    when `x ≥ 256 ^ xlen`). -/
theorem i2osp_eq (x xlen : Nat) : Gen.ExtraHash.i2osp x xlen = PyEcc.i2osp x xlen := by
  unfold Gen.ExtraHash.i2osp
  with_reducible rfl

/-- `os2ip(x)` = `int.from_bytes(x, byteorder="big", signed=False)` is the model's `os2ip`. -/
theorem os2ip_eq (x : Bytes) : Gen.ExtraHash.os2ip x = PyEcc.os2ip x := by
  unfold Gen.ExtraHash.os2ip
  with_reducible rfl

/-- `sha256(x)` = `hashlib.sha256(x).digest()` is one run of the hash function on `x`. -/
theorem sha256_eq (H : HashFn) (x : Bytes) : Gen.ExtraHash.sha256 x H = H.run x := by
  unfold Gen.ExtraHash.sha256
  with_reducible rfl

/-- `xor(a, b)` = `bytes(_a ^ _b for _a, _b in zip(a, b))` is the model's `xorBytes` (bytewise xor, truncated to the shorter
    argument). -/
theorem xor_eq (a b : Bytes) : Gen.ExtraHash.xor a b = xorBytes a b := by
  unfold Gen.ExtraHash.xor xorBytes
  with_reducible rfl

/-- the `for i in range(0, n)` loop of `hkdf_expand`, started at counter `i` with `n` iterations to go: the first
    component of the fold's state is what the model's counter loop returns. -/
theorem hkdf_expand_loop (H : HashFn) (prk info : Bytes) (n i : Nat) (okm previous : Bytes) :
    Prod.fst <$> List.foldlM (Gen.ExtraHash.hkdf_expand_loop0 info prk H) (okm, previous) (List.range' i n)
      = hkdfExpandLoop H prk info n i previous okm := by
  induction n generalizing i okm previous with
  | zero => rfl
  | succ n ih =>
    rw [List.range'_succ, List.foldlM_cons, hkdfExpandLoop]
    unfold Gen.ExtraHash.hkdf_expand_loop0
    by_cases h : i + 1 < 256
    · have h' : ¬ (i + 1 > 255) := by omega
      simp only [h, h', if_true, if_false]
      exact ih (i + 1) _ _
    · have h' : i + 1 > 255 := by omega
      simp only [h, h', if_true, if_false]
      rfl

/-- `hkdf_expand(prk, info, length)` as translated from the source (`n = math.ceil(length / 32)` as `ceilDiv`, the `range(0, n)`
    loop as a fold carrying `(okm, previous)`, `bytes([i + 1])` raising ValueError from 256 on, the final `okm[:length]`) is the
    model's `hkdfExpand`. -/
theorem hkdf_expand_eq (H : HashFn) (prk info : Bytes) (length : Nat) :
    Gen.ExtraHash.hkdf_expand prk info length H = hkdfExpand H prk info length := by
  unfold Gen.ExtraHash.hkdf_expand hkdfExpand
  simp only [← hkdf_expand_loop, List.range_eq_range']
  generalize List.foldlM (m := Except PyErr) _ _ _ = r
  cases r <;> rfl

/-- the `for i in range(2, ell + 1)` loop of `expand_message_xmd`, started at counter `i ≥ 2` with `k` iterations to go, on a
    list `bs` of `i - 1` blocks: `b[i - 2]` is always in range (so the IndexError branch of the translation is dead and the
    model's totalised `getD` is never used), and the fold is the model's counter loop. -/
theorem xmd_loop (H : HashFn) (b0 dstPrime : Bytes) (k i : Nat) (bs : List Bytes) (hlen : bs.length + 1 = i)
    (hi2 : 2 ≤ i) :
    List.foldlM (Gen.ExtraHash.expand_message_xmd_loop0 H dstPrime b0) bs (List.range' i k)
      = xmdLoop H b0 dstPrime k i bs := by
  induction k generalizing i bs with
  | zero => rfl
  | succ k ih =>
    rw [List.range'_succ, List.foldlM_cons, xmdLoop]
    unfold Gen.ExtraHash.expand_message_xmd_loop0
    have hi : i - 2 < bs.length := by omega
    rw [List.getElem?_eq_getElem hi]
    simp only [Option.getD_some]
    cases hib : PyEcc.i2osp i 1 with
    | error e => rfl
    | ok ib =>
      exact ih (i + 1) _ (by simp [hlen]) (by omega)

/-- `expand_message_xmd(msg, DST, len_in_bytes, hash_function)` as translated from the source (the two ValueError guards, `ell` as
    `ceilDiv`, `DST_prime`, `Z_pad`, `b_0`, `b = [b_1]`, the `range(2, ell + 1)` loop appending
    `H(xor(b_0, b[i - 2]) + i2osp(i, 1) + DST_prime)`, `b"".join(b)[:len_in_bytes]`) is the model's `expandMessageXmd`. -/
theorem expand_message_xmd_eq (H : HashFn) (msg dst : Bytes) (len : Nat) :
    Gen.ExtraHash.expand_message_xmd msg dst len H = expandMessageXmd H msg dst len := by
  unfold Gen.ExtraHash.expand_message_xmd expandMessageXmd
  simp only [xmd_loop _ _ _ _ 2 [_] rfl (Nat.le_refl 2)]

/-! ### `py_ecc/bls/hash_to_curve.py` (field half) -/

theorem hash_to_field_L : blsconst_HASH_TO_FIELD_L = 64 := by decide

/-- `hash_to_field_FQ(message, count, DST, hash_function)` as translated from the source (`len_in_bytes = count * 1 * L`, the call of
    `expand_message_xmd`, the `range(0, count)` loop appending `FQ(os2ip(prb[off : off + L]) % field_modulus)` with
    `off = L * (i * 1)`) is the model's `hashToFieldFq` at the module's `field_modulus`, each reduced integer wrapped in `FQ`. -/
theorem hash_to_field_FQ_eq (H : HashFn) (msg : Bytes) (count : Nat) (dst : Bytes) :
    Gen.ExtraHash.hash_to_field_FQ msg count dst H
      = (List.map (fun (u : Nat) => f1c u)) <$> hashToFieldFq H blsP msg count dst := by
  unfold Gen.ExtraHash.hash_to_field_FQ hashToFieldFq
  simp only [hash_to_field_L]
  cases expandMessageXmd H msg dst (count * 1 * 64) with
  | error e => rfl
  | ok prb =>
    show Except.ok _ = Except.ok _
    congr 1
    have : Gen.ExtraHash.hash_to_field_FQ_loop0 1 prb
        = fun (u : List F1) i => u ++ [(fun i => f1c ((PyEcc.os2ip ((prb.drop (64 * (i * 1))).take 64) % blsP : Nat) : Int)) i] := by
      funext u i
      unfold Gen.ExtraHash.hash_to_field_FQ_loop0
      simp only [hash_to_field_L]
      rfl
    rw [this, foldl_append_singleton]
    simp [List.map_map, Function.comp_def]

theorem ofInts_pair_reduced (a b : Nat) :
    (Fqp.ofInts (List.map Int.ofNat [a % blsP, b % blsP]) : F2) = f2c [((a % blsP : Nat) : Int), ((b % blsP : Nat) : Int)] := by
  unfold Fqp.ofInts f2c
  congr 1
  simp only [List.map_cons, List.map_nil, Int.ofNat_eq_natCast]
  rw [Int.natCast_emod, Int.natCast_emod, Int.emod_emod, Int.emod_emod]

/-- `hash_to_field_FQ2(message, count, DST, hash_function)` as translated from the source (`len_in_bytes = count * 2 * L`, the call
    of `expand_message_xmd`, the nested `range(0, count)` / `range(0, 2)` loops collecting `os2ip(prb[off : off + L]) % field_modulus`
    with `off = L * (j + i * 2)`, `FQ2(e)` on the two collected integers — whose length check never fails) is the model's
    `hashToFieldFq2` at the module's `field_modulus`, each pair of reduced integers wrapped in `FQ2`. -/
theorem hash_to_field_FQ2_eq (H : HashFn) (msg : Bytes) (count : Nat) (dst : Bytes) :
    Gen.ExtraHash.hash_to_field_FQ2 msg count dst H
      = (List.map (fun (u : Nat × Nat) => f2c [u.1, u.2])) <$> hashToFieldFq2 H blsP msg count dst := by
  unfold Gen.ExtraHash.hash_to_field_FQ2 hashToFieldFq2
  simp only [hash_to_field_L]
  cases expandMessageXmd H msg dst (count * 2 * 64) with
  | error e => rfl
  | ok prb =>
    have : Gen.ExtraHash.hash_to_field_FQ2_loop1 2 prb
        = fun (u : List F2) i => (pure (u ++ [(fun i =>
            f2c [((PyEcc.os2ip ((prb.drop (64 * (0 + i * 2))).take 64) % blsP : Nat) : Int),
                 ((PyEcc.os2ip ((prb.drop (64 * (1 + i * 2))).take 64) % blsP : Nat) : Int)]) i]) : Except PyErr (List F2)) := by
      funext u i
      unfold Gen.ExtraHash.hash_to_field_FQ2_loop1
      have h2 : List.range 2 = [0, 1] := by decide
      simp only [h2, List.foldl_cons, List.foldl_nil]
      unfold Gen.ExtraHash.hash_to_field_FQ2_loop0
      simp only [hash_to_field_L, List.nil_append, List.cons_append, List.length_cons, List.length_nil, if_true,
        ofInts_pair_reduced]
      rfl
    show (do let u ← List.foldlM (Gen.ExtraHash.hash_to_field_FQ2_loop1 2 prb) [] (List.range count); pure u) = _
    rw [this, foldlM_ok (fun (u : List F2) i => u ++ [_]), foldl_append_singleton]
    show Except.ok _ = Except.ok _
    congr 1
    simp [List.map_map, Function.comp_def]

end PyEcc.Tie
