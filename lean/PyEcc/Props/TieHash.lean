/-
  PyEcc.Props.TieHash — TIE theorems ("generated = hand-written model") for the byte/hash layer:
  `py_ecc/bls/hash.py` and the field half of `py_ecc/bls/hash_to_curve.py`.
  `Gen/ExtraHash.lean` is re-generated from the Python source on every run (tools/translate/gen_hash.py). Each theorem states that
  the function the translator produced from the CURRENT source is, for all inputs, the hand-written model function that the property
  theorems are about. A change to one of these Python functions changes the generated definition and breaks a theorem here statically.

  The proofs only mention the TOP-LEVEL generated functions (loops are translated in place, as `List.foldl` / `List.foldlM` over a
  `fun`), and they relate a loop to the model through a simulation lemma (`foldlM_range'_sim0`) whose step function is taken from the
  goal by unification.  So they do not depend on the names of local variables, on the order of independent statements, on how a
  loop body is outlined, on whether a `range` starts at 0 or 1 (`range(0, n)` with `i + 1` / `range(1, n + 1)` with `i`), on whether
  a list is built by a loop of `append`s or by a comprehension, or on the spelling `x[o : o + L]` / `x[L * k : L * (k + 1)]` of a
  slice.  Where a refactoring really changes the loop state (the previous block of `expand_message_xmd` re-read from the list or
  carried in a local) both invariants are given (`first | … | …`).  Every step is a `simp only` / `omega` / `rfl` on small terms:
  when the Python really changes the proofs fail within seconds.
-/
import PyEcc.Gen.ExtraHash

namespace PyEcc.Tie
open PyEcc PyEcc.Gen.Consts
set_option linter.unusedSimpArgs false

/-! ### generic loop lemmas -/

/-- `for x in l: acc.append(g x)` (any step function that appends `g x`) builds `acc ++ l.map g`. -/
theorem foldl_append_of_step {α β : Type} (f : List β → α → List β) (g : α → β) (hf : ∀ u x, f u x = u ++ [g x])
    (l : List α) (u : List β) : List.foldl f u l = u ++ l.map g := by
  induction l generalizing u with
  | nil => simp
  | cons a l ih => simp [hf, ih]

/-- `for x in l: acc.append(f x)` builds `acc ++ l.map f`. -/
theorem foldl_append_singleton {α β : Type} (f : α → β) (l : List α) (acc : List β) :
    List.foldl (fun acc x => acc ++ [f x]) acc l = acc ++ l.map f :=
  foldl_append_of_step _ f (fun _ _ => rfl) l acc

/-- the same for a loop body in the exception monad that never raises. -/
theorem foldlM_append_of_step {α β : Type} (f : List β → α → Except PyErr (List β)) (g : α → β)
    (hf : ∀ u x, f u x = pure (u ++ [g x])) (l : List α) (u : List β) :
    List.foldlM f u l = pure (u ++ l.map g) := by
  induction l generalizing u with
  | nil => simp
  | cons a l ih => simp [List.foldlM_cons, hf, ih]

/-- a comprehension `[f x for x in l]` whose element expression never raises is `l.map g`. -/
theorem mapM_of_step {α β : Type} (f : α → Except PyErr β) (g : α → β) (hf : ∀ x, f x = pure (g x)) (l : List α) :
    List.mapM f l = pure (l.map g) := by
  induction l with
  | nil => rfl
  | cons a l ih => simp [List.mapM_cons, hf, ih]

/-- a monadic fold whose body never raises is the pure fold. -/
theorem foldlM_ok {α σ : Type} (f : σ → α → σ) (l : List α) (s : σ) :
    List.foldlM (fun s x => (pure (f s x) : Except PyErr σ)) s l = pure (List.foldl f s l) := by
  induction l generalizing s with
  | nil => rfl
  | cons a l ih => simp [List.foldlM_cons, ih]

/-- SIMULATION of a `for` loop over consecutive counters `a, a+1, …` (a fold with step `f` on a state `σ`) by a counter loop `g`
    ("`k` iterations to go, counter `i`, state `τ`", the shape of the model's loops): if the states are related by `R` (which may
    depend on the iteration number `j`), each step either fails on both sides with the same exception or leads to related states,
    and at the end `g` returns `out` of the fold's state, then the fold (projected by `out`) is the counter loop.  The two counters
    may start at different values (`a` for the fold, `i` for `g`). -/
theorem foldlM_range'_sim {σ τ ρ : Type} (f : σ → Nat → Except PyErr σ) (g : Nat → Nat → τ → Except PyErr ρ)
    (out : σ → ρ) (R : Nat → σ → τ → Prop) (a i : Nat)
    (h0 : ∀ j s t, R j s t → g 0 (i + j) t = .ok (out s))
    (hs : ∀ k j s t, R j s t →
        (∃ e, f s (a + j) = .error e ∧ g (k + 1) (i + j) t = .error e) ∨
        (∃ s' t', f s (a + j) = .ok s' ∧ g (k + 1) (i + j) t = g k (i + (j + 1)) t' ∧ R (j + 1) s' t')) :
    ∀ k j s t, R j s t → out <$> List.foldlM f s (List.range' (a + j) k) = g k (i + j) t := by
  intro k
  induction k with
  | zero => intro j s t h; rw [h0 j s t h]; rfl
  | succ k ih =>
    intro j s t h
    rw [List.range'_succ, List.foldlM_cons]
    rcases hs k j s t h with ⟨e, h1, h2⟩ | ⟨s', t', h1, h2, h3⟩
    · rw [h1, h2]; rfl
    · rw [h1, h2, ← ih (j + 1) s' t' h3]; rfl

/-- `foldlM_range'_sim` from the first iteration on (the form that unifies with a goal). -/
theorem foldlM_range'_sim0 {σ τ ρ : Type} (f : σ → Nat → Except PyErr σ) (g : Nat → Nat → τ → Except PyErr ρ)
    (out : σ → ρ) (R : Nat → σ → τ → Prop) (a i : Nat)
    (h0 : ∀ j s t, R j s t → g 0 (i + j) t = .ok (out s))
    (hs : ∀ k j s t, R j s t →
        (∃ e, f s (a + j) = .error e ∧ g (k + 1) (i + j) t = .error e) ∨
        (∃ s' t', f s (a + j) = .ok s' ∧ g (k + 1) (i + j) t = g k (i + (j + 1)) t' ∧ R (j + 1) s' t'))
    (k : Nat) (s : σ) (t : τ) (h : R 0 s t) : out <$> List.foldlM f s (List.range' a k) = g k i t :=
  foldlM_range'_sim f g out R a i h0 hs k 0 s t h

/-- two computations that agree up to a projection `out`, followed by continuations that agree up to `out`. -/
theorem bind_sim {σ ρ β : Type} (x : Except PyErr σ) (y : Except PyErr ρ) (out : σ → ρ)
    (K : σ → Except PyErr β) (K' : ρ → Except PyErr β)
    (hxy : out <$> x = y) (hK : ∀ s, K s = K' (out s)) : x >>= K = y >>= K' := by
  subst hxy
  cases x with
  | error e => rfl
  | ok s => exact hK s

theorem throw_bind_eq {α β : Type} (e : PyErr) (K K' : α → Except PyErr β) :
    ((throw e : Except PyErr α) >>= K) = ((throw e : Except PyErr α) >>= K') := rfl

/-- strip the common prefix of two `do` blocks: an `if` with the same condition on both sides, a bind of the same action on both
    sides (fails at once, leaving the goal, where the two sides start differently) -/
macro "tie_peel" : tactic => `(tactic| repeat' (first
  | (exact throw_bind_eq _ _ _)
  | (refine ite_congr rfl (fun _ => ?_) (fun _ => ?_))
  | (refine bind_congr (fun _ => ?_))))

/-! ### `py_ecc/bls/hash.py` -/

/-- `hkdf_extract(salt, ikm)` = `hmac.new(salt, ikm, hashlib.sha256).digest()` as translated from the source (with `hashlib.sha256`
    as the parameter `H`) is the model's `hkdfExtract`. -/
theorem hkdf_extract_eq (H : HashFn) (salt ikm : Bytes) :
    Gen.ExtraHash.hkdf_extract salt ikm H = hkdfExtract H salt ikm := by
  unfold Gen.ExtraHash.hkdf_extract hkdfExtract
  with_reducible rfl

/-- `i2osp(x, xlen)` = `x.to_bytes(xlen, byteorder="big", signed=False)` is the model's `i2osp` (big-endian digits, OverflowError
    when `x ≥ 256 ^ xlen`). -/
theorem i2osp_eq (x xlen : Nat) : Gen.ExtraHash.i2osp x xlen = PyEcc.i2osp x xlen := by
  unfold Gen.ExtraHash.i2osp
  with_reducible rfl

/-- `os2ip(x)` = `int.from_bytes(x, byteorder="big", signed=False)` is the model's `os2ip`. -/
theorem os2ip_eq (x : Bytes) : Gen.ExtraHash.os2ip x = PyEcc.os2ip x := by
  unfold Gen.ExtraHash.os2ip
  with_reducible rfl

/-- `sha256(x)` = `hashlib.sha256(x).digest()` is one run of the hash function on `x`. -/
theorem sha256_eq (H : HashFn) (x : Bytes) : Gen.ExtraHash.sha256 x H = H.run x := by
  unfold Gen.ExtraHash.sha256
  with_reducible rfl

/-- `xor(a, b)` = `bytes(_a ^ _b for _a, _b in zip(a, b))` is the model's `xorBytes` (bytewise xor, truncated to the shorter
    argument). -/
theorem xor_eq (a b : Bytes) : Gen.ExtraHash.xor a b = xorBytes a b := by
  unfold Gen.ExtraHash.xor xorBytes
  with_reducible rfl

/-- `hkdf_expand(prk, info, length)` as translated from the source (`n = math.ceil(length / 32)` as `ceilDiv`, the loop over the
    block counter as a fold carrying the previous block and `okm`, `bytes([counter])` raising ValueError from 256 on, the final
    `okm[:length]`) is the model's `hkdfExpand`.
    The loop may count `i = 0, …, n-1` and use `i + 1`, or count `1, …, n` (the simulation lemma takes both start values from the
    goal); the state is (previous block, okm), the order of first assignment in the loop body. -/
theorem hkdf_expand_eq (H : HashFn) (prk info : Bytes) (length : Nat) :
    Gen.ExtraHash.hkdf_expand prk info length H = hkdfExpand H prk info length := by
  unfold Gen.ExtraHash.hkdf_expand hkdfExpand
  simp only [List.range_eq_range', Nat.add_sub_cancel]
  refine bind_sim _ _ Prod.snd _ _ ?_ (fun _ => rfl)
  refine foldlM_range'_sim0 _ (fun k i (t : Bytes × Bytes) => hkdfExpandLoop H prk info k i t.1 t.2) Prod.snd
    (fun _ s t => s = t) _ _ ?_ ?_ _ _ _ rfl
  · intro j s t h; subst h; rfl
  · intro k j s t h; subst h
    simp only [hkdfExpandLoop, Nat.zero_add, Nat.add_comm 1 j]
    by_cases hlt : j + 1 < 256
    · have h' : ¬ (j + 1 > 255) := by omega
      simp only [hlt, h', if_true, if_false]
      exact Or.inr ⟨_, _, rfl, rfl, rfl⟩
    · have h' : j + 1 > 255 := by omega
      simp only [hlt, h', if_true, if_false]
      exact Or.inl ⟨_, rfl, rfl⟩

/-- `expand_message_xmd(msg, DST, len_in_bytes, hash_function)` as translated from the source (the two ValueError guards, `ell` as
    `ceilDiv`, `DST_prime`, `Z_pad`, `b_0`, `b_1`, the `range(2, ell + 1)` loop appending
    `H(xor(b_0, <previous block>) + i2osp(i, 1) + DST_prime)`, `b"".join(..)[:len_in_bytes]`) is the model's `expandMessageXmd`.
    The previous block may be re-read from the list (`b[i - 2]`: always in range, so the IndexError branch of the translation is
    dead and the model's totalised `getD` is never used) or carried in a local of its own (which then always holds the last entry
    of the list). -/
theorem expand_message_xmd_eq (H : HashFn) (msg dst : Bytes) (len : Nat) :
    Gen.ExtraHash.expand_message_xmd msg dst len H = expandMessageXmd H msg dst len := by
  unfold Gen.ExtraHash.expand_message_xmd expandMessageXmd
  simp only []
  tie_peel
  first
  | -- the list of blocks is the loop state and the previous block is re-read as `b[i - 2]`
    refine bind_sim _ _ id _ _ ?_ (fun _ => rfl)
    refine foldlM_range'_sim0 _ (xmdLoop H _ _) id (fun j s t => s = t ∧ t.length = j + 1) _ _ ?_ ?_ _ _ _ ⟨rfl, rfl⟩
    · intro j s t h; obtain ⟨rfl, _⟩ := h; rfl
    · intro k j s t h; obtain ⟨rfl, hl⟩ := h
      have hj : 2 + j - 2 < s.length := by omega
      simp only [xmdLoop, List.getElem?_eq_getElem hj, Option.getD_some]
      cases i2osp (2 + j) 1 with
      | error e => exact Or.inl ⟨_, rfl, rfl⟩
      | ok ib => exact Or.inr ⟨_, _, rfl, rfl, rfl, by simp [hl]⟩
  | -- the loop state is (previous block, list of blocks)
    refine bind_sim _ _ Prod.snd _ _ ?_ (fun _ => rfl)
    refine foldlM_range'_sim0 _ (xmdLoop H _ _) Prod.snd
      (fun j s t => s.2 = t ∧ t.length = j + 1 ∧ t[j]? = some s.1) _ _ ?_ ?_ _ _ _ ⟨rfl, rfl, rfl⟩
    · intro j s t h; obtain ⟨rfl, _⟩ := h; rfl
    · intro k j s t h; obtain ⟨rfl, hl, hp⟩ := h
      simp only [xmdLoop, Nat.add_sub_cancel_left, hp, Option.getD_some]
      cases i2osp (2 + j) 1 with
      | error e => exact Or.inl ⟨_, rfl, rfl⟩
      | ok ib => exact Or.inr ⟨_, _, rfl, rfl, rfl, by simp [hl], by simp [← hl]⟩

/-! ### `py_ecc/bls/hash_to_curve.py` (field half) -/

theorem hash_to_field_L : blsconst_HASH_TO_FIELD_L = 64 := by decide

/-- `x[L * k : L * (k + 1)]` has length `L`: the spellings `x[o : o + L]` and `x[L * k : L * (k + 1)]` of a slice agree. -/
theorem slice_len (L k : Nat) : L * (k + 1) - L * k = L := by
  rw [Nat.mul_succ, Nat.add_sub_cancel_left]

theorem range_two : List.range 2 = [0, 1] := by decide

/-- `hash_to_field_FQ(message, count, DST, hash_function)` as translated from the source (`len_in_bytes = count * 1 * L`, the call of
    `expand_message_xmd`, the `range(count)` loop — or comprehension — collecting `FQ(os2ip(prb[off : off + L]) % field_modulus)` with
    `off = L * (i * 1)`) is the model's `hashToFieldFq` at the module's `field_modulus`, each reduced integer wrapped in `FQ`. -/
theorem hash_to_field_FQ_eq (H : HashFn) (msg : Bytes) (count : Nat) (dst : Bytes) :
    Gen.ExtraHash.hash_to_field_FQ msg count dst H
      = (List.map (fun (u : Nat) => f1c u)) <$> hashToFieldFq H blsP msg count dst := by
  unfold Gen.ExtraHash.hash_to_field_FQ hashToFieldFq
  simp only [hash_to_field_L]
  cases expandMessageXmd H msg dst (count * 1 * 64) with
  | error e => rfl
  | ok prb =>
    show Except.ok _ = Except.ok _
    congr 1
    simp only [foldl_append_singleton, List.nil_append, slice_len, List.map_map, Function.comp_def]
    rfl

theorem ofInts_pair_reduced (a b : Nat) :
    (Fqp.ofInts (List.map Int.ofNat [a % blsP, b % blsP]) : F2) = f2c [((a % blsP : Nat) : Int), ((b % blsP : Nat) : Int)] := by
  unfold Fqp.ofInts f2c
  congr 1
  simp only [List.map_cons, List.map_nil, Int.ofNat_eq_natCast]
  rw [Int.natCast_emod, Int.natCast_emod, Int.emod_emod, Int.emod_emod]

theorem ofInts_pair_reduced' (a b : Nat) :
    (Fqp.ofInts [Int.ofNat (a % blsP), Int.ofNat (b % blsP)] : F2) = f2c [((a % blsP : Nat) : Int), ((b % blsP : Nat) : Int)] :=
  ofInts_pair_reduced a b

/-- `hash_to_field_FQ2(message, count, DST, hash_function)` as translated from the source (`len_in_bytes = count * 2 * L`, the call
    of `expand_message_xmd`, the `range(count)` loop whose body collects — by an inner `range(2)` loop of `append`s or by a
    comprehension — the two integers `os2ip(prb[off : off + L]) % field_modulus` with `off = L * (j + i * 2)`, `FQ2(e)` on the two
    collected integers — whose length check never fails) is the model's `hashToFieldFq2` at the module's `field_modulus`, each pair
    of reduced integers wrapped in `FQ2`. -/
theorem hash_to_field_FQ2_eq (H : HashFn) (msg : Bytes) (count : Nat) (dst : Bytes) :
    Gen.ExtraHash.hash_to_field_FQ2 msg count dst H
      = (List.map (fun (u : Nat × Nat) => f2c [u.1, u.2])) <$> hashToFieldFq2 H blsP msg count dst := by
  unfold Gen.ExtraHash.hash_to_field_FQ2 hashToFieldFq2
  simp only [hash_to_field_L]
  cases expandMessageXmd H msg dst (count * 2 * 64) with
  | error e => rfl
  | ok prb =>
    first
    | -- the outer loop is a `for` loop of `append`s
      show List.foldlM (m := Except PyErr) _ _ _ = _
      rw [foldlM_append_of_step _ (fun i =>
              f2c [((PyEcc.os2ip ((prb.drop (64 * (0 + i * 2))).take 64) % blsP : Nat) : Int),
                   ((PyEcc.os2ip ((prb.drop (64 * (1 + i * 2))).take 64) % blsP : Nat) : Int)])]
      · show Except.ok _ = Except.ok _
        congr 1
        simp [List.map_map, Function.comp_def]
      · intro u i
        simp only [range_two, List.foldl_cons, List.foldl_nil, List.map_cons, List.map_nil, slice_len,
          List.nil_append, List.cons_append, List.length_cons, List.length_nil, if_true, ofInts_pair_reduced,
          ofInts_pair_reduced', pure_bind]
    | -- the outer loop is a comprehension
      show List.mapM (m := Except PyErr) _ _ = _
      rw [mapM_of_step _ (fun i =>
              f2c [((PyEcc.os2ip ((prb.drop (64 * (0 + i * 2))).take 64) % blsP : Nat) : Int),
                   ((PyEcc.os2ip ((prb.drop (64 * (1 + i * 2))).take 64) % blsP : Nat) : Int)])]
      · show Except.ok _ = Except.ok _
        congr 1
        simp [List.map_map, Function.comp_def]
      · intro i
        simp only [range_two, List.foldl_cons, List.foldl_nil, List.map_cons, List.map_nil, slice_len,
          List.nil_append, List.cons_append, List.length_cons, List.length_nil, if_true, ofInts_pair_reduced,
          ofInts_pair_reduced', pure_bind]

end PyEcc.Tie
