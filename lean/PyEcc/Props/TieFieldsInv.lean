/-
  PyEcc.Props.TieFieldsInv — TIE theorems ("generated = hand-written model") for the FIELD layer, part 5: the functions
  of the REFERENCE classes that work on Python lists MIXING ints and `FQ` objects (the kind of an entry changes from
  round to round): `py_ecc.utils.deg` / `poly_rounded_div` on such lists, `FQP.inv` (extended Euclid on coefficient
  lists) and the `FQP` branches of `FQP.__div__` / `__truediv__` of `py_ecc/fields/field_elements.py`.

  `Gen/ExtraFieldsInv.lean` is re-generated from the Python source on every run (tools/translate/gen_fieldsinv.py).  An
  entry of a mixed list is a `PyNum` (`int v` or `fq n`); `x - y`, `x * y`, `x / y`, `x == y`, `int(x)` on such values are
  the generated tables of Python's operator dispatch over the two kinds (entries: the generated methods of class `FQ`);
  `<int> / <int>` — FLOAT division in Python — is the explicit outcome `DynErr.floatDivision`.

  The hand-written model (`Fqp.polyRoundedDiv .ref`, `Fqp.invLoopP .ref`, `Fqp.inv`) keeps ONE integer per entry.  The
  theorems below say that this is exact:
    * `val x` (the int itself / the attribute `n`) is the integer the model keeps for `low`, `high`, `new` — literally;
    * inside `poly_rounded_div` the model leaves `temp` unreduced where Python's `FQ - int` reduces: there the model entry
      is only CONGRUENT to the attribute `n` modulo `p` (`Cong`), which is all the quotient `int(temp[..] / b[..])` (reduced
      modulo `p` in both) depends on; the returned list `o` (ints on both sides) is literally equal;
    * so `FQP.inv` returns `.ok` of the object of the model's `Fqp.inv` — in particular the float-division outcome and the
      `Exception("Length of .. is not ..")` checks are never reached on well-formed elements.
  No hypothesis on the modulus `p` is needed; the only hypothesis is well-formedness `len(coeffs) = len(modulus_coeffs)`
  (without it the generated code raises at the length checks inside the loop, which the model does not have).
-/
import PyEcc.Gen.ExtraFieldsInv
import PyEcc.Props.TieFieldsPoly

namespace PyEcc.Tie
open PyEcc

namespace InvRef
open Gen.ExtraFieldsFq.Ref Gen.ExtraFieldsFqp.Ref Gen.ExtraFieldsMul.Ref Gen.ExtraFieldsInv.Ref FqpRef
variable {p : Nat} {mc : List Int}

/-! ### values, kinds, lists -/

/-- the integer the model keeps for a Python int-or-FQ value: the int itself, the attribute `n` of an `FQ` object -/
def val : PyNum → Int
  | .int v => v
  | .fq n => n

/-- the value is an `FQ` object -/
def isFq : PyNum → Prop
  | .int _ => False
  | .fq _ => True

/-- the model's list for a Python list of int-or-FQ values -/
def vals (l : List PyNum) : List Int := l.map val

/-- the model integer `m` stands for the Python value `x` up to reduction: equal for an int, congruent modulo `p` to the
    attribute `n` for an `FQ` object -/
def Cong (p : Nat) (x : PyNum) (m : Int) : Prop :=
  match x with
  | .int v => m = v
  | .fq n => m % (p : Int) = n % (p : Int)

/-- entrywise `Cong` (same length; beyond the end both `l[i]` are the int 0) -/
def CongL (p : Nat) (l : List PyNum) (m : List Int) : Prop :=
  l.length = m.length ∧ ∀ i, Cong p (getN l i) (getI m i)

theorem cong_val (x : PyNum) : Cong p x (val x) := by cases x <;> simp [Cong, val]

@[simp] theorem length_vals (l : List PyNum) : (vals l).length = l.length := by simp [vals]

theorem getI_vals (l : List PyNum) (i : Nat) : getI (vals l) i = val (getN l i) := by
  induction l generalizing i with
  | nil => rfl
  | cons x xs ih =>
    cases i with
    | zero => rfl
    | succ i => exact ih i

theorem congL_vals (l : List PyNum) : CongL p l (vals l) :=
  ⟨(length_vals l).symm, fun i => by rw [getI_vals]; exact cong_val _⟩

@[simp] theorem length_updN (l : List PyNum) (i : Nat) (f : PyNum → PyNum) : (updN l i f).length = l.length := by
  induction l generalizing i with
  | nil => rfl
  | cons x xs ih => cases i <;> simp [updN, ih]

theorem getN_updN (l : List PyNum) (i : Nat) (f : PyNum → PyNum) (j : Nat) :
    getN (updN l i f) j = if j = i ∧ i < l.length then f (getN l i) else getN l j := by
  induction l generalizing i j with
  | nil => simp [updN]
  | cons x xs ih =>
    cases i with
    | zero => cases j <;> simp [updN, getN]
    | succ i =>
      cases j with
      | zero => simp [updN, getN]
      | succ j =>
        have := ih i j
        simp only [getN, List.getD_cons_succ, updN, List.length_cons, Nat.add_lt_add_iff_right, Nat.add_right_cancel_iff] at this ⊢
        exact this

theorem getI_updAt' (l : List Int) (i : Nat) (f : Int → Int) (j : Nat) :
    getI (updAt l i f) j = if j = i ∧ i < l.length then f (getI l i) else getI l j := by
  induction l generalizing i j with
  | nil => simp [updAt]
  | cons x xs ih =>
    cases i with
    | zero => cases j <;> simp [updAt, getI]
    | succ i =>
      cases j with
      | zero => simp [updAt, getI]
      | succ j =>
        have := ih i j
        simp only [getI, List.getD_cons_succ, updAt, List.length_cons, Nat.add_lt_add_iff_right, Nat.add_right_cancel_iff] at this ⊢
        exact this

/-- an update that acts on the model integer as `g` -/
theorem vals_updN (l : List PyNum) (k : Nat) (f : PyNum → PyNum) (g : Int → Int)
    (h : k < l.length → val (f (getN l k)) = g (val (getN l k))) : vals (updN l k f) = updAt (vals l) k g := by
  induction l generalizing k with
  | nil => rfl
  | cons x xs ih =>
    cases k with
    | zero => simp only [updN, vals, List.map_cons, updAt, List.cons.injEq, and_true]; exact h (by simp)
    | succ k =>
      simp only [updN, vals, List.map_cons, updAt, List.cons.injEq, true_and]
      exact ih k (fun hk => h (by simpa using hk))

/-- an update that respects `Cong` entrywise -/
theorem CongL.upd {l : List PyNum} {m : List Int} (h : CongL p l m) (k : Nat) (f : PyNum → PyNum) (g : Int → Int)
    (hfg : ∀ x m, Cong p x m → Cong p (f x) (g m)) : CongL p (updN l k f) (updAt m k g) := by
  refine ⟨by simp [h.1], fun i => ?_⟩
  rw [getN_updN, getI_updAt', h.1]
  by_cases hc : i = k ∧ k < m.length
  · rw [if_pos hc, if_pos hc]; exact hfg _ _ (h.2 k)
  · rw [if_neg hc, if_neg hc]; exact h.2 i

/-! ### `deg` on a list of int-or-FQ values -/

theorem eq_zero_iff (x : PyNum) : PyNum.eq p x (PyNum.int 0) = true ↔ val x = 0 := by
  cases x <;> simp [PyNum.eq, FQ.eq_int, val]

/-- the `while p[d] == 0 and d` loop generated from `deg` for int-or-FQ entries is the model's `degAux` on the list of
    their integers (any fuel `≥ d`) -/
theorem deg_dyn_loop_eq (l : List PyNum) : ∀ (f d : Nat), d ≤ f →
    deg_dyn_loop0 p l f d = degAux (vals l) d := by
  intro f
  induction f with
  | zero => intro d hd; have : d = 0 := by omega
            subst this; rfl
  | succ f ih =>
    intro d hd
    unfold deg_dyn_loop0
    cases d with
    | zero => simp [degAux]
    | succ d =>
      unfold degAux
      rw [getI_vals]
      by_cases h : val (getN l (d + 1)) = 0
      · have h' := (eq_zero_iff (p := p) _).2 h
        simp only [h, h', _root_.ne_eq, Nat.add_eq_zero_iff, Nat.succ_ne_self, and_false, not_false_eq_true, and_self,
          if_true, Nat.add_sub_cancel]
        exact ih d (by omega)
      · have h' : ¬ PyNum.eq p (getN l (d + 1)) (PyNum.int 0) = true := fun hh => h ((eq_zero_iff _).1 hh)
        simp [h', h]

/-- `deg(p)` of `py_ecc/utils.py` on a sequence of ints and `FQ` objects (`p[d] == 0` dispatches on the kind of the
    entry) is the model's `deg` of the integers of the entries, for every list. -/
theorem deg_dyn_eq (l : List PyNum) : deg_dyn p l = PyEcc.deg (vals l) := by
  unfold deg_dyn PyEcc.deg
  rw [length_vals]
  exact deg_dyn_loop_eq l _ _ (Nat.le_refl _)

/-! ### `poly_rounded_div` -/

/-- a monadic fold all of whose steps succeed, related step by step to a pure fold, followed by a continuation -/
theorem foldlM_bind_ok_rel {α₁ α₂ β γ ε : Type} (r : α₂ → α₁ → Prop) {g₁ : α₁ → β → α₁} {g₂ : α₂ → β → Except ε α₂}
    {l : List β} {i₁ : α₁} {i₂ : α₂} {k : α₂ → Except ε γ} (k' : α₁ → γ) (hi : r i₂ i₁)
    (H : ∀ x₂ x₁ y, r x₂ x₁ → ∃ z, g₂ x₂ y = .ok z ∧ r z (g₁ x₁ y))
    (hk : ∀ z m, r z m → k z = .ok (k' m)) :
    (List.foldlM g₂ i₂ l >>= k) = .ok (k' (List.foldl g₁ i₁ l)) := by
  induction l generalizing i₁ i₂ with
  | nil => exact hk _ _ hi
  | cons a l ih =>
    obtain ⟨z, hz, hr⟩ := H i₂ i₁ a hi
    rw [List.foldlM_cons, hz]
    exact ih hr

/-- `x / y` for an `FQ` object `y`: never float division; the attribute `n` of the result is the model's quotient -/
theorem truediv_fq (x : PyNum) (m q : Int) (h : Cong p x m) :
    ∃ n, PyNum.truediv p x (PyNum.fq q) = .ok (PyNum.fq n) ∧ n = (m * primeFieldInv q p) % (p : Int) := by
  cases x with
  | int v =>
    simp only [Cong] at h
    subst h
    refine ⟨_, rfl, ?_⟩
    simp only [FQ.rtruediv_int, FQ.rdiv_int, FQ.init_int, Int.emod_emod, Int.mul_comm]
  | fq n =>
    simp only [Cong] at h
    refine ⟨_, rfl, ?_⟩
    simp only [FQ.truediv_fq, FQ.div_fq, FQ.init_int, Int.emod_emod]
    rw [Int.mul_emod, ← h, ← Int.mul_emod]

/-- `x - c` for an int `c` respects `Cong` -/
theorem cong_sub_int (c : Int) (x : PyNum) (m : Int) (h : Cong p x m) :
    Cong p (PyNum.sub p x (PyNum.int c)) (m - c) := by
  cases x with
  | int v => simp only [Cong] at h; subst h; simp [PyNum.sub, Cong]
  | fq n =>
    simp only [Cong] at h
    simp only [PyNum.sub, Cong, FQ.sub_int, FQ.init_int, Int.emod_emod]
    rw [Int.sub_emod, h, ← Int.sub_emod]

/-- `poly_rounded_div(a, b)` of `py_ecc/utils.py` on sequences of ints and `FQ` objects: when the leading entry
    `b[deg(b)]` of the divisor is an `FQ` object (or the loop does not run: `deg(a) < deg(b)`), no `/` is a float division
    and the returned tuple of ints is LITERALLY the model's `polyRoundedDiv .ref` of the integers of the entries.  (The
    working list `temp` is only congruent modulo `p` to the model's, which does not reduce `FQ - int`.) -/
theorem poly_rounded_div_eq (a b : List PyNum)
    (hb : PyEcc.deg (vals b) ≤ PyEcc.deg (vals a) → isFq (getN b (PyEcc.deg (vals b)))) :
    poly_rounded_div p a b = .ok (Fqp.polyRoundedDiv .ref p (vals a) (vals b)) := by
  unfold poly_rounded_div Fqp.polyRoundedDiv
  simp only [deg_dyn_eq, deg_eq, List.map_const', length_vals]
  by_cases hlt : PyEcc.deg (vals a) < PyEcc.deg (vals b)
  · simp only [hlt, if_true, List.foldlM_nil, List.foldl_nil]
    rfl
  · simp only [hlt, if_false]
    have hfq := hb (by omega)
    generalize hq : getN b (PyEcc.deg (vals b)) = bq at hfq
    cases bq with
    | int v => exact absurd hfq (by simp [isFq])
    | fq q =>
      have hbq : getI (vals b) (PyEcc.deg (vals b)) = q := by rw [getI_vals, hq]; rfl
      refine foldlM_bind_ok_rel
        (r := fun (g : List PyNum × List Int) (m : List Int × List Int) => g.2 = m.2 ∧ CongL p g.1 m.1)
        (k' := fun m => List.take (PyEcc.deg m.2 + 1) m.2) ⟨rfl, congL_vals a⟩ ?_ ?_
      · rintro ⟨temp, o⟩ ⟨tempM, oM⟩ i ⟨ho, ht⟩
        simp only at ho ht
        subst ho
        obtain ⟨n, hn, hnq⟩ := truediv_fq (p := p) (getN temp (PyEcc.deg (vals b) + i)) _ q (ht.2 _)
        simp only [hn, bind, Except.bind, pure, Except.pure]
        refine ⟨_, rfl, ?_⟩
        simp only [PyNum.toInt, FQ.int, hbq, hnq, true_and]
        refine fields_foldl_rel (r := fun (g : List PyNum) (m : List Int) => CongL p g m) ht ?_
        intro x₂ x₁ c hx
        exact hx.upd _ _ _ (cong_sub_int _)
      · rintro ⟨temp, o⟩ ⟨tempM, oM⟩ ⟨ho, _⟩
        simp only at ho
        subst ho
        rfl

/-- the hypothesis of `poly_rounded_div_eq` cannot be dropped: when the loop runs and the leading entries `a[deg(a)]`,
    `b[deg(b)]` are BOTH ints, the first `temp[degb + i] / b[degb]` is Python's float division — the generated function
    reports `floatDivision` (Python itself would continue with `int(<float>)`, outside the integer model). -/
theorem poly_rounded_div_float (a b : List PyNum) (hab : PyEcc.deg (vals b) ≤ PyEcc.deg (vals a))
    (ha : ¬ isFq (getN a (PyEcc.deg (vals a)))) (hb : ¬ isFq (getN b (PyEcc.deg (vals b)))) :
    poly_rounded_div p a b = .error DynErr.floatDivision := by
  unfold poly_rounded_div
  simp only [deg_dyn_eq]
  have hr : ∀ n, (List.range (n + 1)).reverse = n :: (List.range n).reverse := fun n => by
    rw [List.range_succ, List.reverse_append, List.reverse_singleton, List.singleton_append]
  rw [if_neg (by omega), hr, List.foldlM_cons]
  have e : PyEcc.deg (vals b) + (PyEcc.deg (vals a) - PyEcc.deg (vals b)) = PyEcc.deg (vals a) := by omega
  simp only [e]
  generalize getN a (PyEcc.deg (vals a)) = x at ha
  generalize getN b (PyEcc.deg (vals b)) = y at hb
  cases x with
  | fq n => exact absurd trivial ha
  | int v =>
    cases y with
    | fq n => exact absurd trivial hb
    | int w => rfl

/-! ### the `while deg(low)` loop of `FQP.inv` -/

/-- every entry is an `FQ` object -/
def AllFq (l : List PyNum) : Prop := ∀ k, k < l.length → isFq (getN l k)

/-- the shape of `low`: `FQ` objects, except that the last of the `d + 1` entries may be the int 0 -/
def LowShape (d : Nat) (low : List PyNum) : Prop :=
  (∀ i, i < d → isFq (getN low i)) ∧ (isFq (getN low d) ∨ getN low d = PyNum.int 0)

theorem deg_le' (l : List Int) : PyEcc.deg l ≤ l.length - 1 := by
  unfold PyEcc.deg
  generalize l.length - 1 = n
  induction n with
  | zero => simp [degAux]
  | succ n ih => unfold degAux; split <;> omega

theorem getI_deg_ne_zero' (l : List Int) (h : PyEcc.deg l ≠ 0) : getI l (PyEcc.deg l) ≠ 0 := by
  unfold PyEcc.deg at h ⊢
  generalize l.length - 1 = n at h ⊢
  induction n with
  | zero => simp [degAux] at h
  | succ n ih =>
    unfold degAux at h ⊢
    split
    · rename_i h0; rw [if_pos h0] at h; exact ih h
    · rename_i h0; exact h0

/-- when the loop continues (`deg(low) != 0`), the leading entry of `low` is an `FQ` object -/
theorem low_lead_fq {d : Nat} {low : List PyNum} (h3 : low.length = d + 1) (hs : LowShape d low)
    (hdeg : PyEcc.deg (vals low) ≠ 0) : isFq (getN low (PyEcc.deg (vals low))) := by
  have hle := deg_le' (vals low)
  rw [length_vals, h3] at hle
  have hne := getI_deg_ne_zero' (vals low) hdeg
  rw [getI_vals] at hne
  by_cases hk : PyEcc.deg (vals low) < d
  · exact hs.1 _ hk
  · have hk' : PyEcc.deg (vals low) = d := by omega
    rw [hk'] at hne ⊢
    rcases hs.2 with h | h
    · exact h
    · rw [h] at hne; exact absurd rfl hne

/-- `new[k] -= low[i] * int(r[j])`: unless BOTH `new[k]` and `low[i]` are ints, the result is an `FQ` object whose
    attribute `n` is literally the model's `(x - (low_i * r_j) % p) % p` -/
theorem upd_exact (x lowi : PyNum) (r : Int) (h : isFq lowi ∨ isFq x) :
    val (PyNum.sub p x (PyNum.mul p lowi (PyNum.int r))) = (val x - (val lowi * r) % (p : Int)) % (p : Int) ∧
    isFq (PyNum.sub p x (PyNum.mul p lowi (PyNum.int r))) := by
  cases lowi with
  | fq l =>
    cases x <;>
      simp [PyNum.sub, PyNum.mul, val, isFq, FQ.mul_int, FQ.sub_fq, FQ.rsub_int, FQ.init_int]
  | int l =>
    cases x with
    | int v => simp [isFq] at h
    | fq n =>
      simp only [PyNum.sub, PyNum.mul, val, isFq, FQ.sub_int, FQ.init_int, Int.emod_emod, and_true]
      exact (Int.sub_emod_emod _ _ _).symm

/-- an `FQ` entry stays an `FQ` object under `x -= ..` -/
theorem isFq_sub (x y : PyNum) (h : isFq x) : isFq (PyNum.sub p x y) := by
  cases x with
  | int v => exact absurd h (by simp [isFq])
  | fq n => cases y <;> simp [PyNum.sub, isFq]

/-- one round `j` of the inner loop, generated code: state `(nm, new)` -/
def stepG (p : Nat) (lowi : PyNum) (lmi : Int) (r : List Int) (i : Nat) (st : List Int × List PyNum) (j : Nat) :
    List Int × List PyNum :=
  (updAt st.1 (i + j) (fun x' => x' - lmi * getI r j),
   updN st.2 (i + j) (fun x' => PyNum.sub p x' (PyNum.mul p lowi (PyNum.int (getI r j)))))

/-- one round `j` of the inner loop, model: state `(nm, new)` -/
def stepM (p : Nat) (lowi lmi : Int) (r : List Int) (i : Nat) (st : List Int × List Int) (j : Nat) :
    List Int × List Int :=
  (updAt st.1 (i + j) (fun x => x - lmi * getI r j),
   updAt st.2 (i + j) (fun x => (x - (lowi * getI r j) % (p : Int)) % (p : Int)))

/-- what `n` rounds of the inner loop `for j ..: nm[i + j] -= lm[i] * int(r[j]); new[i + j] -= low[i] * int(r[j])` keep
    and establish -/
structure PassInv (i n : Nat) (lowi : PyNum) (G0 G : List Int × List PyNum) (M : List Int × List Int) : Prop where
  nm : G.1 = M.1
  ex : vals G.2 = M.2
  len : G.2.length = G0.2.length
  len2 : G.1.length = G0.1.length
  mono : ∀ k, isFq (getN G0.2 k) → isFq (getN G.2 k)
  hit : isFq lowi → ∀ k, i ≤ k → k < i + n → k < G0.2.length → isFq (getN G.2 k)

theorem pass_rel (lowi : PyNum) (lmi : Int) (r : List Int) (i : Nat) (G0 : List Int × List PyNum)
    (M0 : List Int × List Int) (hnm : G0.1 = M0.1) (hex : vals G0.2 = M0.2) (hfq : isFq lowi ∨ AllFq G0.2) :
    ∀ n, PassInv i n lowi G0 (List.foldl (stepG p lowi lmi r i) G0 (List.range n))
      (List.foldl (stepM p (val lowi) lmi r i) M0 (List.range n)) := by
  intro n
  induction n with
  | zero => exact ⟨hnm, hex, rfl, rfl, fun _ h => h, fun _ k h1 h2 _ => by omega⟩
  | succ n ih =>
    rw [List.range_succ, List.foldl_append, List.foldl_append]
    generalize List.foldl (stepG p lowi lmi r i) G0 (List.range n) = G at ih
    generalize List.foldl (stepM p (val lowi) lmi r i) M0 (List.range n) = M at ih
    simp only [List.foldl_cons, List.foldl_nil, stepG, stepM]
    have hstep : ∀ k, isFq (getN G.2 k) → isFq (getN (updN G.2 (i + n)
        (fun x' => PyNum.sub p x' (PyNum.mul p lowi (PyNum.int (getI r n))))) k) := by
      intro k hk
      rw [getN_updN]
      split
      · rename_i hc; rw [← hc.1]; exact isFq_sub _ _ hk
      · exact hk
    refine ⟨by rw [ih.nm], ?_, by simp [ih.len], by simp [ih.len2], fun k hk => hstep k (ih.mono k hk), ?_⟩
    · rw [← ih.ex]
      apply vals_updN
      intro hk
      refine (upd_exact _ _ _ ?_).1
      rcases hfq with h | h
      · exact Or.inl h
      · exact Or.inr (ih.mono _ (h _ (by rw [← ih.len]; exact hk)))
    · intro hl k h1 h2 h3
      by_cases hk : k = i + n
      · rw [getN_updN, if_pos ⟨hk, by rw [ih.len]; omega⟩]
        exact (upd_exact _ _ _ (Or.inl hl)).2
      · exact hstep k (ih.hit hl k h1 (by omega) h3)

/-- the double loop `for i in range(d + 1): for j in range(d + 1 - i): nm[i + j] -= lm[i] * int(r[j]);
    new[i + j] -= low[i] * int(r[j])` of the generated code (state `(nm, new)`, `new` a list of int-or-FQ values) against
    the model's (state `(nm, new)`): `nm` is the same list, the integers of `new` are LITERALLY the model's list, and all
    `d + 1` entries of `new` are `FQ` objects afterwards (the pass `i = 0` subtracts an `FQ` object from each of them). -/
theorem double_loop {d : Nat} (lm r hm : List Int) (low high : List PyNum)
    {gG : List Int × List PyNum → Nat → List Int × List PyNum} {gM : List Int × List Int → Nat → List Int × List Int}
    (hG : ∀ st i, gG st i = List.foldl (stepG p (getN low i) (getI lm i) r i) st (List.range (d + 1 - i)))
    (hM : ∀ st i, gM st i = List.foldl (stepM p (getI (vals low) i) (getI lm i) r i) st (List.range (d + 1 - i)))
    (h0 : isFq (getN low 0)) (hlen : high.length = d + 1) :
    (List.foldl gG (hm, high) (List.range (d + 1))).1 = (List.foldl gM (hm, vals high) (List.range (d + 1))).1 ∧
    vals (List.foldl gG (hm, high) (List.range (d + 1))).2 = (List.foldl gM (hm, vals high) (List.range (d + 1))).2 ∧
    (List.foldl gG (hm, high) (List.range (d + 1))).2.length = d + 1 ∧
    (List.foldl gG (hm, high) (List.range (d + 1))).1.length = hm.length ∧
    AllFq (List.foldl gG (hm, high) (List.range (d + 1))).2 := by
  rw [List.range_succ_eq_map, List.foldl_cons, List.foldl_cons, hG, hM, getI_vals]
  have h1 := pass_rel (p := p) (getN low 0) (getI lm 0) r 0 (hm, high) (hm, vals high) rfl rfl (Or.inl h0) (d + 1 - 0)
  generalize List.foldl (stepG p (getN low 0) (getI lm 0) r 0) (hm, high) (List.range (d + 1 - 0)) = G1 at h1
  generalize List.foldl (stepM p (val (getN low 0)) (getI lm 0) r 0) (hm, vals high) (List.range (d + 1 - 0)) = M1 at h1
  have hl1 : G1.2.length = d + 1 := by rw [h1.len]; exact hlen
  have hall : AllFq G1.2 := fun k hk => h1.hit h0 k (by omega) (by omega) (by show k < high.length; omega)
  have hl2 : G1.1.length = hm.length := h1.len2
  have := fields_foldl_rel (l := List.map Nat.succ (List.range d)) (g₁ := gM) (g₂ := gG)
    (r := fun (G : List Int × List PyNum) (M : List Int × List Int) =>
      G.1 = M.1 ∧ vals G.2 = M.2 ∧ G.2.length = d + 1 ∧ G.1.length = hm.length ∧ AllFq G.2)
    (i₁ := M1) (i₂ := G1) ⟨h1.nm, h1.ex, hl1, hl2, hall⟩ ?_
  · exact this
  · rintro G M i ⟨a1, a2, a3, a4, a5⟩
    rw [hG, hM, getI_vals]
    have h2 := pass_rel (p := p) (getN low i) (getI lm i) r i G M a1 a2 (Or.inr a5) (d + 1 - i)
    refine ⟨h2.nm, h2.ex, by rw [h2.len]; exact a3, by rw [h2.len2]; exact a4, ?_⟩
    intro k hk
    rw [h2.len] at hk
    exact h2.mono k (a5 k hk)

/-- the `while deg(low)` loop generated from the reference `FQP.inv` (state `(lm, hm, low, high)`, `low` and `high` lists
    of int-or-FQ values) never fails — no float division, no length exception — and computes the model's `invLoopP .ref`
    on the integers of the entries (the model returns `(lm, low)`), for every fuel.  Invariant: the four lists have
    `d + 1` entries, the entries of `low` are `FQ` objects except possibly a trailing int 0. -/
theorem inv_loop_eq (a : Fqp .ref p mc) : ∀ (f : Nat) (lm hm : List Int) (low high : List PyNum),
    lm.length = mc.length + 1 → hm.length = mc.length + 1 → low.length = mc.length + 1 → high.length = mc.length + 1 →
    LowShape mc.length low →
    ∃ lm' hm' low' high', FQP.inv_loop0 p mc (obj a) f (lm, hm, low, high) = .ok (lm', hm', low', high') ∧
      (lm', vals low') = Fqp.invLoopP .ref p mc.length f lm (vals low) hm (vals high) ∧ lm'.length = mc.length + 1 := by
  intro f
  induction f with
  | zero => intro lm hm low high h1 _ _ _ _; exact ⟨_, _, _, _, rfl, rfl, h1⟩
  | succ f ih =>
    intro lm hm low high h1 h2 h3 h4 hs
    unfold FQP.inv_loop0 Fqp.invLoopP
    have hd : (obj a).degree = mc.length := rfl
    simp only [deg_dyn_eq, hd]
    by_cases hdeg : PyEcc.deg (vals low) ≠ 0
    · rw [if_pos hdeg, if_pos hdeg]
      have hfq : isFq (getN low (PyEcc.deg (vals low))) := low_lead_fq h3 hs hdeg
      have hdpos : 0 < mc.length := by
        have := deg_le' (vals low); rw [length_vals, h3] at this; omega
      rw [poly_rounded_div_eq high low (fun _ => hfq)]
      simp only [bind, Except.bind, h1, h2, h3, h4, _root_.ne_eq, not_true_eq_false, if_false]
      have key : ∀ (G : List Int × List PyNum) (M : List Int × List Int),
          (G.1 = M.1 ∧ vals G.2 = M.2 ∧ G.2.length = mc.length + 1 ∧ G.1.length = hm.length ∧ AllFq G.2) →
          ∃ lm' hm' low' high', FQP.inv_loop0 p mc (obj a) f (G.1, lm, G.2, low) = .ok (lm', hm', low', high') ∧
            (lm', vals low') = Fqp.invLoopP .ref p mc.length f M.1 M.2 lm (vals low) ∧ lm'.length = mc.length + 1 := by
        rintro ⟨g1, g2⟩ ⟨m1, m2⟩ ⟨e1, e2, l1, l2, hall⟩
        simp only at e1 e2 l1 l2 hall
        subst e1 e2
        exact ih g1 lm g2 low (by rw [l2, h2]) h1 l1 h3
          ⟨fun i hi => hall i (by omega), Or.inl (hall _ (by omega))⟩
      apply key
      exact double_loop lm _ hm low high (fun _ _ => rfl) (fun _ _ => rfl) (hs.1 0 hdpos) h4
    · rw [if_neg hdeg, if_neg hdeg]; exact ⟨_, _, _, _, rfl, rfl, h1⟩

/-! ### `FQP.inv`, `FQP.__div__`, `FQP.__truediv__` -/

@[simp] theorem vals_map_fq (l : List Int) : vals (l.map PyNum.fq) = l := by
  simp [vals, List.map_map, Function.comp_def, val]

@[simp] theorem vals_map_int (l : List Int) : vals (l.map PyNum.int) = l := by
  simp [vals, List.map_map, Function.comp_def, val]

@[simp] theorem vals_append (l l' : List PyNum) : vals (l ++ l') = vals l ++ vals l' := by simp [vals]

theorem isFq_getN_map_fq (l : List Int) (i : Nat) (h : i < l.length) : isFq (getN (l.map PyNum.fq) i) := by
  induction l generalizing i with
  | nil => simp at h
  | cons x xs ih =>
    cases i with
    | zero => simp [getN, isFq]
    | succ i => simp only [List.map_cons, getN, List.getD_cons_succ]; exact ih i (by simpa using h)

/-- the initial `low = list(self.coeffs + (0,))` of a well-formed element: `d` FQ objects and the int 0 -/
theorem lowShape_init (cs : List Int) (d : Nat) (h : cs.length = d) :
    LowShape d (cs.map PyNum.fq ++ [PyNum.int 0]) := by
  refine ⟨fun i hi => ?_, Or.inr ?_⟩
  · have : getN (cs.map PyNum.fq ++ [PyNum.int 0]) i = getN (cs.map PyNum.fq) i := by
      unfold getN; rw [List.getD_eq_getElem?_getD, List.getD_eq_getElem?_getD,
        List.getElem?_append_left (by simp; omega)]
    rw [this]; exact isFq_getN_map_fq cs i (by omega)
  · unfold getN
    rw [List.getD_eq_getElem?_getD, List.getElem?_append_right (by simp; omega)]
    simp [h]

theorem toInt_eq_val (x : PyNum) : PyNum.toInt p x = val x := by cases x <;> rfl

/-- lengths of the first component of the model's Euclid loop (reference variant) -/
theorem invLoopP_length (d : Nat) : ∀ (f : Nat) (lm low hm high : List Int),
    lm.length = d + 1 → hm.length = d + 1 → (Fqp.invLoopP .ref p d f lm low hm high).1.length = d + 1 := by
  intro f
  induction f with
  | zero => intro lm low hm high h1 _; exact h1
  | succ f ih =>
    intro lm low hm high h1 h2
    unfold Fqp.invLoopP
    by_cases hdeg : PyEcc.deg low ≠ 0
    · rw [if_pos hdeg]
      apply ih _ _ _ _ _ h1
      refine fields_foldl_inv (P := fun (st : List Int × List Int) => st.1.length = d + 1) h2 ?_
      intro st i hst
      refine fields_foldl_inv (P := fun (st : List Int × List Int) => st.1.length = d + 1) hst ?_
      rintro ⟨nm, new⟩ j hst
      simp only [length_updAt]
      exact hst
    · rw [if_neg hdeg]; exact h1

/-- a model inverse has `d` coefficients -/
theorem wf_inv (a : Fqp .ref p mc) : (Fqp.inv a).coeffs.length = mc.length := by
  unfold Fqp.inv
  have := invLoopP_length (p := p) mc.length (4 * mc.length + 4) (1 :: List.replicate mc.length 0) (a.coeffs ++ [0])
    (List.replicate (mc.length + 1) 0) (mc ++ [1]) (by simp) (by simp)
  simp only [Fqp.divInt, Fqp.ofInts, List.length_map, List.length_take]
  omega

/-- REFERENCE `FQP.inv()` of `py_ecc/fields/field_elements.py` (extended Euclid on lists mixing ints and `FQ` objects,
    calling `poly_rounded_div` and `deg`), translated with Python's dynamic operator dispatch: for every well-formed
    element (`len(coeffs) = len(modulus_coeffs)`; any modulus, any coefficients, any `p`) the generated function returns
    `.ok` of the object of the model's `Fqp.inv a` — LITERALLY the model's coefficient list.  In particular the outcome is
    never `DynErr.floatDivision` (no `/` of the run divides two ints) and never the `Exception("Length of ..")` of the
    loop's length checks. -/
theorem inv_eq (a : Fqp .ref p mc) (ha : a.coeffs.length = mc.length) :
    FQP.inv p mc (obj a) = .ok (obj (Fqp.inv a)) := by
  have hd : (obj a).degree = mc.length := rfl
  have hc : (obj a).coeffs = a.coeffs := rfl
  have hm : (obj a).modulus_coeffs = mc := rfl
  unfold FQP.inv Fqp.inv
  simp only [hd, hc, hm, List.map_cons, List.map_nil]
  obtain ⟨lm', hm', low', high', hrun, hmod, hlen⟩ := inv_loop_eq a (4 * mc.length + 4)
    ([1] ++ List.replicate mc.length 0) (List.replicate (mc.length + 1) 0)
    (a.coeffs.map PyNum.fq ++ [PyNum.int 0]) ((mc ++ [1]).map PyNum.int)
    (by simp) (by simp) (by simp [ha]) (by simp) (lowShape_init _ _ ha)
  rw [hrun]
  have hv : vals [PyNum.int 0] = [0] := rfl
  simp only [vals_append, vals_map_fq, vals_map_int, hv, List.singleton_append] at hmod
  rw [← hmod]
  have e1 : (liftM (FQPsub.init_ints p mc (List.take mc.length lm')) : Except DynErr FQP) =
      .ok (obj (Fqp.ofInts (List.take mc.length lm') : Fqp .ref p mc)) := by
    rw [init_ints_eq, if_neg (by simp [hlen])]; rfl
  have e2 := truediv_int_eq (Fqp.ofInts (List.take mc.length lm') : Fqp .ref p mc) (val (getN low' 0))
    (by simp [Fqp.ofInts, hlen])
  simp only [bind, Except.bind, e1, toInt_eq_val, getI_vals]
  rw [e2]
  rfl

/-- the float-division outcome is never reached by the reference `FQP.inv()` on a well-formed element. -/
theorem inv_no_float (a : Fqp .ref p mc) (ha : a.coeffs.length = mc.length) :
    FQP.inv p mc (obj a) ≠ .error DynErr.floatDivision := by
  rw [inv_eq a ha]; exact fun h => nomatch h

/-- every object built by the class constructor (`FQ2(..)` / `FQ12(..)` on a sequence of ints, with the generated
    `FQPsub.init_ints`) is well-formed: its `inv()` is `.ok` of the model's inverse (no float division, no exception). -/
theorem inv_of_init_ints (cs : List Int) (x : FQP) (hx : FQPsub.init_ints p mc cs = .ok x) :
    FQP.inv p mc x = .ok (obj (Fqp.inv (Fqp.ofInts cs : Fqp .ref p mc))) := by
  rw [init_ints_eq] at hx
  by_cases h : cs.length = mc.length
  · rw [if_neg (by simp [h])] at hx
    injection hx with hx
    subst hx
    exact inv_eq _ (by simp [Fqp.ofInts, h])
  · rw [if_pos h] at hx; exact nomatch hx

/-- the same for the constructor applied to a sequence of `FQ` objects (`type(self)([..])` inside the methods). -/
theorem inv_of_init_fqs (cs : List Int) (x : FQP) (hx : FQPsub.init_fqs p mc cs = .ok x) :
    FQP.inv p mc x = .ok (obj (Fqp.inv (⟨cs⟩ : Fqp .ref p mc))) := by
  rw [init_fqs_eq] at hx
  by_cases h : cs.length = mc.length
  · rw [if_neg (by simp [h])] at hx
    injection hx with hx
    subst hx
    exact inv_eq _ h
  · rw [if_pos h] at hx; exact nomatch hx

/-- REFERENCE `FQP.__div__` with an `FQP` operand (`self * other.inv()`) is the model's `Fqp.div` (well-formed divisor;
    the product needs no well-formedness). -/
theorem div_fqp_eq (a b : Fqp .ref p mc) (hb : b.coeffs.length = mc.length) :
    FQP.div_fqp p mc (obj a) (obj b) = .ok (obj (Fqp.div a b)) := by
  unfold FQP.div_fqp Fqp.div
  rw [inv_eq b hb]
  simp only [bind, Except.bind]
  rw [MulRef.mul_fqp_eq a (Fqp.inv b)]
  rfl

/-- REFERENCE `FQP.__truediv__` with an `FQP` operand delegates to `__div__`. -/
theorem truediv_fqp_eq (a b : Fqp .ref p mc) (hb : b.coeffs.length = mc.length) :
    FQP.truediv_fqp p mc (obj a) (obj b) = .ok (obj (Fqp.div a b)) := by
  unfold FQP.truediv_fqp; exact div_fqp_eq a b hb

/- non-vacuity of the hypotheses, and the division by two ints made visible -/
example : FQP.inv 7 [1, 0] (obj (⟨[3, 6]⟩ : Fqp .ref 7 [1, 0])) = .ok (obj (Fqp.inv (⟨[3, 6]⟩ : Fqp .ref 7 [1, 0]))) :=
  inv_eq _ rfl
example : FQP.div_fqp 7 [1, 0] (obj (⟨[1, 2]⟩ : Fqp .ref 7 [1, 0])) (obj (⟨[3, 6]⟩ : Fqp .ref 7 [1, 0])) =
    .ok (obj (Fqp.div (⟨[1, 2]⟩ : Fqp .ref 7 [1, 0]) ⟨[3, 6]⟩)) := div_fqp_eq _ _ rfl
example : poly_rounded_div 7 [.int 1, .int 0, .int 1] [.fq 3, .fq 6, .int 0] =
    .ok (Fqp.polyRoundedDiv .ref 7 [1, 0, 1] [3, 6, 0]) :=
  poly_rounded_div_eq (p := 7) [.int 1, .int 0, .int 1] [.fq 3, .fq 6, .int 0] (fun _ => by show isFq (PyNum.fq 6); trivial)
/-- without the hypothesis of `poly_rounded_div_eq` Python's `/` IS a float division: two int lists -/
example : poly_rounded_div 7 [.int 1, .int 1] [.int 1, .int 1] = .error DynErr.floatDivision :=
  poly_rounded_div_float (p := 7) [.int 1, .int 1] [.int 1, .int 1] (by decide)
    (by show ¬ isFq (PyNum.int 1); exact id) (by show ¬ isFq (PyNum.int 1); exact id)
example : FQP.inv 7 [1, 0] { coeffs := [3, 6], modulus_coeffs := [1, 0], degree := 2 } =
    .ok (obj (Fqp.inv (Fqp.ofInts [10, -1] : Fqp .ref 7 [1, 0]))) := inv_of_init_ints [10, -1] _ rfl
/-- without well-formedness the generated `inv` raises at the length checks of the loop (the model has none) -/
example : FQP.inv 13 [2, 0, 5] (obj (⟨[3, 6]⟩ : Fqp .ref 13 [2, 0, 5])) = .error (DynErr.py PyErr.other) := rfl

end InvRef
end PyEcc.Tie
