/-
  PyEcc.Props.TieBlsAgg — TIE theorems ("generated = hand-written model") for `py_ecc/bls/ciphersuites.py`, part 2:
  `Aggregate`, `_CoreAggregateVerify`, `AggregateVerify` (three classes), `_AggregatePKs`, `FastAggregateVerify`, `KeyGen`.
  See `TieBls.lean` for the conventions.

  Loops.  The translator emits a validation loop `for x in l: if not ok(x): raise E` as `List.forM l <body>`, and a loop with an
  accumulator as `List.foldlM <body> acc l`, each body a separate generated definition.  The model writes `l.all ok` and, for
  `_CoreAggregateVerify`, a recursive function `aggLoop` that also accumulates the list of pairing arguments.  The lemmas
  `forM_guard`, `forM_skip`, `aggLoop_eq` (inductions over the list) relate the two.
  `len(messages) != len(set(messages))` is translated as `messages.length ≠ messages.eraseDups.length`; `hasDup_eq` proves that
  this is the model's `hasDup`.
  `KeyGen`'s `while SK == 0` loop is translated as a recursion on a `fuel` argument; `KeyGen_fuel_eq` states, for EVERY fuel
  `f`, that the generated function with fuel `f` is the model's loop with fuel `f` (the model's `keyGen` fixes `f = 64`).

  Robustness against behaviour-preserving rewrites of the Python.  The tie statements are about the top-level generated
  functions only.  A generated loop body / loop function takes the locals that are free in the loop as parameters, so its
  signature changes when the Python hoists an invariant out of the loop or renames a local; therefore no statement here
  mentions a loop body applied to arguments: `forM_guard`, `forM_skip`, `aggLoop_eq`, `KeyGen_loop_eq` are about an ARBITRARY
  function satisfying the loop body's defining equation(s), the function is found by unification with the goal, and the
  equation is checked on the spot by unfolding the generated definition by name.  Proofs about branching tails case-split on
  the tests first and then normalise both sides (`simp`), so that an `if c: return False` chain and the equivalent boolean
  expression / `return c and f(..)` are both accepted.  (The translator itself maps `all(..)` / `any(..)` guards to the loop
  they abbreviate, `not a == b` to `a != b`, `return a and f(..)` to the early-exit form: see py2lean_bls.py.)
-/
import PyEcc.Props.TieBls

namespace PyEcc.Tie
open PyEcc PyEcc.Gen.Consts

/-! ### loops -/

/-- a validation loop `for x in l: if not f(x): raise e` behaves like the test `all(f(x) for x in l)` -/
theorem Bls.forM_guard {α : Type} (g : α → Except PyErr PUnit) (f : α → Bool) (e : PyErr)
    (hg : ∀ x, g x = if f x = true then pure PUnit.unit else throw e) (l : List α) :
    List.forM l g = if l.all f = true then pure PUnit.unit else throw e := by
  induction l with
  | nil => rfl
  | cons a t ih =>
    rw [List.forM, ih, hg a, List.all_cons]
    cases f a <;> cases t.all f <;> rfl

/-- a loop whose body does nothing does nothing -/
theorem Bls.forM_skip {α : Type} (g : α → Except PyErr PUnit) (hg : ∀ x, g x = pure PUnit.unit) (l : List α) :
    List.forM l g = pure PUnit.unit := by
  induction l with
  | nil => rfl
  | cons a t ih => rw [List.forM, ih, hg a]; rfl

/-! ### Aggregate -/

/-- `Aggregate(signatures)` as translated from the source (the `n < 1` precondition, the validation loop, the
    accumulation loop `aggregate = add(aggregate, signature_to_G2(signature))` from `Z2`, `G2_to_signature`) is the
    model's `aggregate`. -/
theorem Bls.Aggregate_eq (sigs : List Bytes) : Gen.ExtraBls.Aggregate sigs = aggregate sigs := by
  unfold Gen.ExtraBls.Aggregate aggregate
  rw [Bls.forM_guard _ (fun x => decide (x.length = 96)) PyErr.validation ?hsig]
  case hsig =>
    intro x
    simp only [Gen.ExtraBls.Aggregate_loop0, Bls.is_valid_signature_eq]
    cases decide (x.length = 96) <;> rfl
  by_cases h1 : sigs.length < 1 <;> simp only [h1, ↓reduceIte]
  · rfl
  cases h2 : (sigs.all fun x => decide (List.length x = 96)) <;> rfl

/-! ### _CoreAggregateVerify -/

/-- A loop `List.foldlM g acc l` whose step `g` behaves like one iteration of the `for pk, message in zip(PKs, messages)` loop
    of `_CoreAggregateVerify` (`KeyValidate`, `pubkey_to_G1`, `hash_to_G2`, `pairing`, accumulate) computes the first
    component of the model's `aggLoop`, from every accumulator.  Stated about an arbitrary step function `g`, not about the
    generated loop body applied to a fixed list of arguments: the generated body takes the locals that are free in the loop
    as parameters (`H`, `DST`, and whatever a refactoring hoists out of the loop); `CoreAggregateVerify_try_eq` checks the
    hypothesis `hg` for the generated body by unfolding it. -/
theorem Bls.aggLoop_eq (H : HashFn) (dst : Bytes) (g : OBls12 → Bytes × Bytes → Except PyErr OBls12)
    (hg : ∀ (acc : OBls12) (pk msg : Bytes), g acc (pk, msg) =
      (do if !(keyValidate pk) then throw PyErr.validation
          let pkPt ← pubkeyToG1 pk
          let mp ← hashToG2 H msg dst
          let e ← pairingOptBls mp pkPt false
          pure (acc * e)))
    (l : List (Bytes × Bytes)) (acc : OBls12) (tr : List (G2Pt × G1Pt)) :
    List.foldlM g acc l = (aggLoop H dst l acc tr).map (·.1) := by
  induction l generalizing acc tr with
  | nil => rfl
  | cons p t ih =>
    obtain ⟨pk, msg⟩ := p
    rw [List.foldlM_cons, hg]
    unfold aggLoop
    cases keyValidate pk
    · rfl
    simp only [Bool.not_true, Bool.false_eq_true, ↓reduceIte]
    cases pubkeyToG1 pk with
    | error e => rfl
    | ok a =>
      cases hashToG2 H msg dst with
      | error e => rfl
      | ok b =>
        simp only [bind, Except.bind]
        cases pairingOptBls b a false with
        | error e => rfl
        | ok c => exact ih _ _

set_option linter.unusedSimpArgs false in  -- `eq_comm` below is only needed when the source compares the lengths the other way round
set_option maxRecDepth 2048 in
/-- The body of the `try` statement of `_CoreAggregateVerify` as translated from the source (the two validation loops, the
    length comparison, the signature check, the `n < 1` precondition — in source order —, `signature_to_G2`, the subgroup
    check returning `False`, the accumulation loop, the final pairing with `neg(G1)`, `final_exponentiate`, the comparison
    with `FQ12.one()`) is the model's `coreAggregateVerifyBody` without its trace component. -/
theorem Bls.CoreAggregateVerify_try_eq (H : HashFn) (s : Suite) (pks msgs : List Bytes) (sig dst : Bytes) :
    Gen.ExtraBls._CoreAggregateVerify_try H s pks msgs sig dst =
      (coreAggregateVerifyBody H s pks msgs sig dst).map (·.1) := by
  unfold Gen.ExtraBls._CoreAggregateVerify_try coreAggregateVerifyBody
  -- the two validation loops (whatever arguments the generated loop bodies take)
  rw [Bls.forM_guard _ (isValidPubkey s) PyErr.validation ?hpk, Bls.forM_skip _ ?hmsg, Bls.is_valid_signature_eq]
  case hpk =>
    intro pk
    simp only [Gen.ExtraBls._CoreAggregateVerify_try_loop0, Bls.is_valid_pubkey_eq]
    cases isValidPubkey s pk <;> rfl
  case hmsg =>
    intro m
    simp only [Gen.ExtraBls._CoreAggregateVerify_try_loop1, Bls.is_valid_message_eq]
    rfl
  -- the accumulation loop: `aggLoop_eq`, its hypothesis checked by unfolding the generated loop body
  dsimp only
  rw [Bls.aggLoop_eq H dst _ ?hg _ _ []]
  case hg =>
    intro acc pk msg
    simp only [Gen.ExtraBls._CoreAggregateVerify_try_loop2, Bls.KeyValidate_eq, pure_bind]
  simp only [bind, Except.bind, pure, Except.pure, throw, throwThe, MonadExceptOf.throw, Except.map]
  cases h1 : pks.all (isValidPubkey s) <;> simp
  by_cases h2 : pks.length = msgs.length <;> simp [h2, eq_comm (a := msgs.length)]
  by_cases h3 : sig.length = 96 <;> simp [h3]
  by_cases h4 : pks = [] <;> simp [h4]
  cases signatureToG2 sig <;> simp
  split
  · rfl
  cases aggLoop H dst (pks.zip msgs) 1 [] <;> simp
  cases pairingOptBls _ _ false <;> simp

/-- `_CoreAggregateVerify(PKs, messages, signature, DST)` as translated from the source (`try: <body> except
    (ValidationError, ValueError, AssertionError): return False`) is the model's `coreAggregateVerify`, for each class. -/
theorem Bls.CoreAggregateVerify_eq (H : HashFn) (s : Suite) (pks msgs : List Bytes) (sig dst : Bytes) :
    Gen.ExtraBls._CoreAggregateVerify H s pks msgs sig dst = coreAggregateVerify H s pks msgs sig dst := by
  unfold Gen.ExtraBls._CoreAggregateVerify coreAggregateVerify catching
  rw [Bls.CoreAggregateVerify_try_eq]
  cases (coreAggregateVerifyBody H s pks msgs sig dst).map (·.1) with
  | ok b => rfl
  | error e => simp only [Bls.caught3_eq]

/-! ### AggregateVerify -/

theorem Bls.eraseDups_length_le {α : Type} [BEq α] :
    ∀ (n : Nat) (l : List α), l.length = n → l.eraseDups.length ≤ l.length := by
  intro n
  induction n using Nat.strongRecOn with
  | _ n ih =>
    intro l hl
    cases l with
    | nil => simp
    | cons a t =>
      rw [List.eraseDups_cons, List.length_cons, List.length_cons]
      have h1 := List.length_filter_le (fun b => !b == a) t
      have h2 := ih (List.filter (fun b => !b == a) t).length (by simp at hl; omega) _ rfl
      omega

/-- `len(l) != len(set(l))` (the number of distinct elements differs from the length) is the model's duplicate test -/
theorem Bls.hasDup_eq (l : List Bytes) : hasDup l = decide (l.length ≠ l.eraseDups.length) := by
  induction l with
  | nil => simp [hasDup]
  | cons a t ih =>
    rw [hasDup, List.eraseDups_cons, List.length_cons, List.length_cons, ih]
    by_cases hc : t.contains a = true
    · have hlt : (List.filter (fun b => !b == a) t).length < t.length := by
        apply List.length_filter_lt_length_iff_exists.mpr
        refine ⟨a, List.contains_iff_mem.mp hc, by simp⟩
      have hle := Bls.eraseDups_length_le _ (List.filter (fun b => !b == a) t) rfl
      simp only [hc, Bool.true_or]
      symm
      apply decide_eq_true
      omega
    · have hf : List.filter (fun b => !b == a) t = t := by
        apply List.filter_eq_self.mpr
        intro b hb
        simp only [Bool.not_eq_true']
        apply Classical.byContradiction
        intro hne
        simp only [Bool.not_eq_false] at hne
        have : b = a := eq_of_beq hne
        subst this
        exact hc (List.contains_iff_mem.mpr hb)
      rw [hf]
      simp only [Bool.not_eq_true] at hc
      simp only [hc, Bool.false_or]
      congr 1
      apply propext
      omega

/-- `[pk + msg for pk, msg in zip(PKs, messages)]` is the model's `zipWith (· ++ ·)` -/
theorem Bls.aug_messages_eq (pks msgs : List Bytes) :
    (List.map (fun (it : Bytes × Bytes) => let pk := it.1; let msg := it.2; (pk ++ msg)) (List.zip pks msgs)) =
      List.zipWith (· ++ ·) pks msgs :=
  List.map_zip_eq_zipWith

/-- `cls.AggregateVerify(PKs, messages, signature)` for each of the three classes — `G2Basic` (distinct-messages test
    first), `G2MessageAugmentation` (length test, then every message prefixed with its public key), `G2ProofOfPossession`
    — each as translated from its own method body in the current source, is the model's `aggregateVerify`. -/
theorem Bls.AggregateVerify_eq (H : HashFn) (s : Suite) (pks msgs : List Bytes) (sig : Bytes) :
    Gen.ExtraBls.AggregateVerify H s pks msgs sig = aggregateVerify H s pks msgs sig := by
  cases s
  · -- case split on the distinctness test, then normalise: the proof does not depend on how the source spells the early exit
    -- (`if len(..) != len(set(..)): return False` or `return <unique> and cls._CoreAggregateVerify(..)`)
    by_cases h : msgs.length = msgs.eraseDups.length <;>
      simp [Gen.ExtraBls.AggregateVerify, Gen.ExtraBls.G2Basic.AggregateVerify, aggregateVerify,
        Bls.CoreAggregateVerify_eq, Bls.DST_eq, Bls.hasDup_eq, h]
  · simp only [Gen.ExtraBls.AggregateVerify, Gen.ExtraBls.G2MessageAugmentation.AggregateVerify, aggregateVerify,
      Bls.CoreAggregateVerify_eq, Bls.DST_eq, Bls.aug_messages_eq]
  · simp only [Gen.ExtraBls.AggregateVerify, Gen.ExtraBls.G2ProofOfPossession.AggregateVerify, aggregateVerify,
      Bls.CoreAggregateVerify_eq, Bls.DST_eq]

/-! ### _AggregatePKs, FastAggregateVerify -/

/-- `G2ProofOfPossession._AggregatePKs(PKs)` as translated from the source is the model's `aggregatePKs`. -/
theorem Bls.AggregatePKs_eq (pks : List Bytes) : Gen.ExtraBls._AggregatePKs pks = aggregatePKs pks := by
  unfold Gen.ExtraBls._AggregatePKs aggregatePKs
  rfl

/-- the exception tuple `(ValidationError, AssertionError)` of `FastAggregateVerify` is the model's `caught2` -/
theorem Bls.caught2_eq (e : PyErr) : (e = PyErr.validation ∨ e = PyErr.assertion) ↔ caught2 e = true := by
  cases e <;> simp [caught2]

/-- `G2ProofOfPossession.FastAggregateVerify(PKs, message, signature)` as translated from the source (`try:` the validation
    loop, the message and signature checks, the `n < 1` precondition, `_AggregatePKs`; `except (ValidationError,
    AssertionError): return False` — a `ValueError` from `pubkey_to_G1` propagates —; `else: cls.Verify(..)`) is the model's
    `fastAggregateVerify`. -/
theorem Bls.FastAggregateVerify_eq (H : HashFn) (pks : List Bytes) (msg sig : Bytes) :
    Gen.ExtraBls.FastAggregateVerify H pks msg sig = fastAggregateVerify H pks msg sig := by
  unfold Gen.ExtraBls.FastAggregateVerify fastAggregateVerify
  have hpre : Gen.ExtraBls.FastAggregateVerify_try pks msg sig =
      (do if !(pks.all (isValidPubkey .pop)) then throw PyErr.validation
          if sig.length ≠ 96 then throw PyErr.validation
          if pks.length < 1 then throw PyErr.validation
          aggregatePKs pks) := by
    unfold Gen.ExtraBls.FastAggregateVerify_try
    rw [Bls.forM_guard _ (isValidPubkey .pop) PyErr.validation ?hpk, Bls.is_valid_message_eq,
      Bls.is_valid_signature_eq, Bls.AggregatePKs_eq]
    case hpk =>
      intro pk
      simp only [Gen.ExtraBls.FastAggregateVerify_try_loop0, Bls.is_valid_pubkey_eq]
      cases isValidPubkey .pop pk <;> rfl
    cases h1 : pks.all (isValidPubkey .pop)
    · rfl
    by_cases h3 : sig.length = 96 <;> simp [h3] <;> rfl
  rw [hpre]
  simp only [Bls.Verify_eq]
  split <;> rename_i h <;> simp only [h]
  simp only [Bls.caught2_eq]

/-! ### KeyGen -/

/-- the translator evaluates the closed float expression `ceil((1.5 * ceil(log2(curve_order))) / 8)` of the source and emits
    its value as a literal; it is the dumped module constant the model uses -/
theorem Bls.keygen_L_eq : (48 : Nat) = suites_keygen_L := by rfl

/-- Any function `L` that satisfies the two defining equations of the translated `while SK == 0` loop of `KeyGen` (a
    recursion on `fuel` over the state `(SK, salt)`), started with `SK = 0`, computes the model's `keyGenLoop` with the
    same fuel, from every salt.  Stated about an arbitrary `L` — not about `Gen.ExtraBls.KeyGen_loop` applied to a fixed
    list of arguments — because the generated loop function takes the local variables that are free in the loop as
    parameters: hoisting `l = ceil(..)` out of the loop in the Python adds one.  `KeyGen_fuel_eq` instantiates `L`. -/
theorem Bls.KeyGen_loop_eq (H : HashFn) (ikm keyInfo : Bytes)
    (L : Nat → Nat × Bytes → Except PyErr (Nat × Bytes))
    (h0 : ∀ SK salt, L 0 (SK, salt) = if SK = 0 then throw PyErr.other else pure (SK, salt))
    (hs : ∀ f SK salt, L (f + 1) (SK, salt) =
      if SK = 0 then do
        let salt := H.run salt
        let prk := hkdfExtract H salt (ikm ++ [0])
        let r1 ← i2osp 48 2
        let okm ← hkdfExpand H prk (keyInfo ++ r1) 48
        let SK := os2ip okm % suites_curve_order
        L f (SK, salt)
      else pure (SK, salt)) :
    ∀ (f : Nat) (salt : Bytes), (L f (0, salt)).map (·.1) = keyGenLoop H ikm keyInfo f salt := by
  intro f
  induction f with
  | zero => intro salt; rw [h0]; rfl
  | succ f ih =>
    intro salt
    rw [hs]
    unfold keyGenLoop
    simp only [↓reduceIte, ← Bls.keygen_L_eq, curveOrder]
    cases i2osp 48 2 with
    | error e => rfl
    | ok lb =>
      simp only [bind, Except.bind]
      cases hkdfExpand H (hkdfExtract H (H.run salt) (ikm ++ [0])) (keyInfo ++ lb) 48 with
      | error e => rfl
      | ok okm =>
        by_cases hz : os2ip okm % suites_curve_order = 0
        · simp only [hz, ↓reduceIte]
          exact ih _
        · simp only [hz, ↓reduceIte]
          cases f
          · rw [h0]; simp only [hz, ↓reduceIte]; rfl
          · rw [hs]; simp only [hz, ↓reduceIte]; rfl

/-- the byte string literal `b"BLS-SIG-KEYGEN-SALT-"` of the source, as the model writes it -/
theorem Bls.keygen_salt_eq :
    ([66, 76, 83, 45, 83, 73, 71, 45, 75, 69, 89, 71, 69, 78, 45, 83, 65, 76, 84, 45] : Bytes) =
      "BLS-SIG-KEYGEN-SALT-".toUTF8.toList := by
  decide +kernel

/-- returning the first component of the final loop state -/
theorem Bls.bind_fst (r : Except PyErr (Nat × Bytes)) :
    (do let (SK, _) ← r; return SK) = r.map (·.1) := by
  cases r with
  | error e => rfl
  | ok st => cases st; rfl

/-- `KeyGen(IKM, key_info)` as translated from the source, with its unbounded `while SK == 0` loop cut off after `f`
    iterations (out of fuel = `PyErr.other`): for EVERY fuel `f` it is the model's loop with fuel `f` started from the salt
    `b"BLS-SIG-KEYGEN-SALT-"`.  (The generated loop function is whatever `KeyGen` calls, with whatever extra arguments: the
    two hypotheses of `KeyGen_loop_eq` are its defining equations, checked by unfolding.) -/
theorem Bls.KeyGen_fuel_eq (H : HashFn) (f : Nat) (ikm keyInfo : Bytes) :
    Gen.ExtraBls.KeyGen H f ikm keyInfo = keyGenLoop H ikm keyInfo f "BLS-SIG-KEYGEN-SALT-".toUTF8.toList := by
  rw [← Bls.keygen_salt_eq]
  unfold Gen.ExtraBls.KeyGen
  dsimp only
  rw [Bls.bind_fst]
  exact Bls.KeyGen_loop_eq H ikm keyInfo _ (fun _ _ => rfl) (fun _ _ _ => rfl) f _

/-- `KeyGen(IKM, key_info)` with fuel 64 is the model's `keyGen`. -/
theorem Bls.KeyGen_eq (H : HashFn) (ikm keyInfo : Bytes) : Gen.ExtraBls.KeyGen H 64 ikm keyInfo = keyGen H ikm keyInfo := by
  rw [Bls.KeyGen_fuel_eq]
  rfl

end PyEcc.Tie
