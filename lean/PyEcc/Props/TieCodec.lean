/-
  PyEcc.Props.TieCodec — TIE theorems ("generated = hand-written model").
  `Gen/Extra*.lean` is re-generated from the Python source on every run (tools/translate/gen_extra.py). Each theorem states that
  the function the translator produced from the CURRENT source is, for all inputs, the hand-written model function that the property
  theorems are about. A change to one of these Python functions changes the generated definition and breaks a theorem here
  statically, without needing a test input. (Split per source area so that a change in one area does not alarm unrelated properties.)
  The proofs close with `tie_close` (Props/TieRobC.lean): reflexivity first, then normalisation of both sides and a case analysis, so
  that a behaviour-preserving reshaping of the Python (renamed / inlined locals, early `return` vs conditional expression, negated
  test with swapped branches, `for _ in range(k)` vs the unrolled calls, …) keeps the theorem, while a real change fails in seconds.
-/
import PyEcc.Gen.ExtraCodec
import PyEcc.Props.TieRobC

set_option linter.unusedSimpArgs false

namespace PyEcc.Tie
open PyEcc

/-- `bool(a & 1)` is the model's `a % 2 == 1`. -/
theorem flag_bit (a : Nat) : decide (a &&& 1 ≠ 0) = (a % 2 == 1) := by
  rw [Nat.and_one_is_mod]
  rcases Nat.mod_two_eq_zero_or_one a with h | h <;> simp [h]

theorem nat_decide_eq_beq (a b : Nat) : decide (a = b) = (a == b) := by
  by_cases h : a = b <;> simp [h]

/-- `get_flags(z)` as translated from the source (`bool((z >> k) & 1)` with Lean's `>>>` and `&&&` on `Nat`)
    is the model's `getFlags` (which writes `(z / 2 ^ k) % 2 == 1`), for every natural `z`. -/
theorem get_flags_eq (z : Nat) : Gen.ExtraCodec.get_flags z = getFlags z := by
  unfold Gen.ExtraCodec.get_flags getFlags
  simp only [Nat.shiftRight_eq_div_pow, flag_bit]

/-- `is_point_at_infinity(z1, z2)` as translated from the source (`z2 is None or z2 == 0` as a case split on
    the optional) is the model's `isPointAtInfinity`. -/
theorem is_point_at_infinity_eq (z1 : Nat) (z2 : Option Nat) :
    Gen.ExtraCodec.is_point_at_infinity z1 z2 = isPointAtInfinity z1 z2 := by
  unfold Gen.ExtraCodec.is_point_at_infinity isPointAtInfinity
  cases z2 <;> simp [nat_decide_eq_beq]

/-- `compress_G1(pt)` as translated from the source is the model's `compressG1`. -/
theorem compress_G1_eq (pt : G1Pt) : Gen.ExtraCodec.compress_G1 pt = compressG1 pt := by
  unfold Gen.ExtraCodec.compress_G1 compressG1
  tie_close [ne_eq, ite_not]

/-- `decompress_G1(z)` as translated from the source (flag checks in the same order, the infinity branch,
    the range check, `pow(·, (q+1)//4, q)`, the residue check, the sign choice) is the model's `decompressG1`. -/
theorem decompress_G1_eq (z : Nat) : Gen.ExtraCodec.decompress_G1 z = decompressG1 z := by
  unfold Gen.ExtraCodec.decompress_G1 decompressG1
  -- robust against: hoisted common subexpressions, `not a == b` for `a != b`, the sign choice written with the
  -- opposite test and swapped branches or inlined into the result tuple
  tie_close [ne_eq, ite_not]

/-- `compress_G2(pt)` as translated from the source is the model's `compressG2`.  (`int(z1)`, `int(z2)` are
    emitted as `.toNat`: the translator spec asserts that these two locals are non-negative.) -/
theorem compress_G2_eq (pt : G2Pt) : Gen.ExtraCodec.compress_G2 pt = compressG2 pt := by
  unfold Gen.ExtraCodec.compress_G2 compressG2
  tie_close [ne_eq, ite_not]

/-- `decompress_G2((z1, z2))` as translated from the source (flag checks, infinity branch, both range checks,
    the call of the hand-modelled `modular_squareroot_in_FQ2` with its `is None` test, the sign choice, the final
    on-curve check) is the model's `decompressG2`. -/
theorem decompress_G2_eq (z1 z2 : Nat) : Gen.ExtraCodec.decompress_G2 (z1, z2) = decompressG2 z1 z2 := by
  unfold Gen.ExtraCodec.decompress_G2 decompressG2
  -- rewrite the `Except` operations away: both sides become nested `if`s around one `match` on the optional square root
  simp only [throw_bind_except, pure_bind]
  -- the two `match`es on the optional square root are different auxiliary matchers: split on the value
  generalize ho : modularSquarerootInFq2 _ = o
  cases o with
  | none => (try simp only) <;> tie_close [ne_eq, ite_not]
  | some y =>
    -- robust against reshapings of the sign test that are equivalent only because the coefficients of the square root are
    -- reduced residues (e.g. `sign_coeff = y_im if y_im > 0 else y_re`): the case analysis has `0 ≤ y_re`, `0 ≤ y_im`
    have h0 := modularSquarerootInFq2_coeff_nonneg ho 0
    have h1 := modularSquarerootInFq2_coeff_nonneg ho 1
    clear ho
    (try simp only) <;> tie_close [ne_eq, ite_not]

/-- `G2_to_signature(pt)` = `i2osp(z1, 48) + i2osp(z2, 48)` for `(z1, z2) = compress_G2(pt)`, as in the model. -/
theorem G2_to_signature_eq (pt : G2Pt) : Gen.ExtraCodec.G2_to_signature pt = g2ToSignature pt := by
  unfold Gen.ExtraCodec.G2_to_signature g2ToSignature
  tie_close [ne_eq, ite_not]

/-- `signature_to_G2(signature)` = `decompress_G2((os2ip(signature[:48]), os2ip(signature[48:])))`, as in the model. -/
theorem signature_to_G2_eq (sig : Bytes) : Gen.ExtraCodec.signature_to_G2 sig = signatureToG2 sig := by
  unfold Gen.ExtraCodec.signature_to_G2 signatureToG2
  tie_close [ne_eq, ite_not]

/-- `G1_to_pubkey(pt)` = `i2osp(compress_G1(pt), 48)`, as in the model. -/
theorem G1_to_pubkey_eq (pt : G1Pt) : Gen.ExtraCodec.G1_to_pubkey pt = g1ToPubkey pt := by
  unfold Gen.ExtraCodec.G1_to_pubkey g1ToPubkey
  tie_close [ne_eq, ite_not]

/-- `pubkey_to_G1(pubkey)` = `decompress_G1(os2ip(pubkey))`, as in the model. -/
theorem pubkey_to_G1_eq (pk : Bytes) : Gen.ExtraCodec.pubkey_to_G1 pk = pubkeyToG1 pk := by
  unfold Gen.ExtraCodec.pubkey_to_G1 pubkeyToG1
  tie_close [ne_eq, ite_not]

end PyEcc.Tie
