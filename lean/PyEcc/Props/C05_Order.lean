/-
  PyEcc.Props.C05_Order — property C05, the clause "pairing values are `r`-th roots of unity; a
  value different from `1` has order exactly `r`".

  All four `pairing` functions of py_ecc end with `f ** ((field_modulus**12 − 1) // curve_order)`.
  `FQ12` is the field with `p¹²` elements (`C08F12.irreducible_bls12`, `irreducible_bn12`), `r` divides
  `p¹² − 1` (`C12.Exp.bls_r_dvd`, `bn_r_dvd`), so by Fermat's little theorem in that field the value
  `v` returned by `pairing` satisfies `v ** r == 1` — unless the Miller value `f` is `0` (possible only
  for degenerate inputs; then `v == 0`).  Since `r` is prime (`prime_blsR`, `prime_bnR`), a value that
  is neither `0` nor `1` has multiplicative order exactly `r`.

  No hypothesis on the points: the statements hold for every input on which `pairing` returns.
-/
import PyEcc.Lemmas.NondegField
import PyEcc.Lemmas.MillerPairing
import PyEcc.Props.C12
import PyEcc.Props.C08_Fq12
import PyEcc.Sem.Primes

set_option maxRecDepth 100000

namespace PyEcc.C05N
open Polynomial PyEcc PyEcc.Gen.Consts PyEcc.Fqp PyEcc.FqpSem PyEcc.PairingSem PyEcc.NondegSem

/-! ### the general statement, in the model of any `FQP` class whose modulus is irreducible -/

section general
variable {v : Variant} {p : ℕ} [Fact p.Prime] {mc : List Int} [Fact (Irreducible (modulus p mc))]

/-- **Final exponentiation lands in the `r`-th roots of unity** (model level, any `FQP` field class).
    If the modulus polynomial is irreducible (so the class is the field with `p^d` elements) and
    `r ∣ p^d − 1`, then for every element `m` with `d` coefficients, `v = m ** ((p^d − 1) // r)`
    satisfies `v ** r == 1` (as coefficient lists) or `v == 0` (exactly when `m` is zero in the
    field). -/
theorem finalExp_root_of_unity (hd : 1 ≤ mc.length) (r : ℕ) (hr : (p ^ mc.length - 1) % r = 0)
    (hE : (p ^ mc.length - 1) / r ≠ 0) (m : Fqp v p mc) (hm : WF m) :
    (m ^ ((p ^ mc.length - 1) / r)) ^ r = 1 ∨ m ^ ((p ^ mc.length - 1) / r) = 0 := by
  have hp : 0 < p := (Fact.out : p.Prime).pos
  have cv : Canon (m ^ ((p ^ mc.length - 1) / r)) := canon_pow hp hd hm _
  have qv : toQ (m ^ ((p ^ mc.length - 1) / r)) = toQ m ^ ((p ^ mc.length - 1) / r) :=
    toQ_pow hd hm _
  by_cases h0 : toQ m = 0
  · right
    apply toQ_inj cv (canon_zero hp)
    rw [qv, h0, zero_pow hE]
    exact (toQ_zero).symm
  · left
    apply toQ_inj (canon_pow hp hd cv.wf r) (canon_one hp hd)
    show toQ (Fqp.pow _ r) = toQ Fqp.one
    rw [toQ_pow hd cv.wf r, toQ_one, qv]
    exact finalExp_pow_r r hr _ h0

/-- **Order exactly `r`.**  With `r` prime: a final-exponentiation value `v = m ** ((p^d − 1) // r)`
    that is neither `0` nor `1` (as a coefficient list) has multiplicative order exactly `r` in the
    field `Fp[X]/(modulus)`. -/
theorem finalExp_orderOf (hd : 1 ≤ mc.length) (r : ℕ) (hrp : r.Prime)
    (hr : (p ^ mc.length - 1) % r = 0) (hE : (p ^ mc.length - 1) / r ≠ 0) (m : Fqp v p mc) (hm : WF m)
    (h1 : m ^ ((p ^ mc.length - 1) / r) ≠ 1) (h0 : m ^ ((p ^ mc.length - 1) / r) ≠ 0) :
    orderOf (toQ (m ^ ((p ^ mc.length - 1) / r))) = r := by
  have hp : 0 < p := (Fact.out : p.Prime).pos
  have cv : Canon (m ^ ((p ^ mc.length - 1) / r)) := canon_pow hp hd hm _
  have := Fact.mk hrp
  apply orderOf_eq_prime
  · rcases finalExp_root_of_unity hd r hr hE m hm with h | h
    · have := congrArg toQ h
      rwa [show toQ ((m ^ ((p ^ mc.length - 1) / r)) ^ r) = _ from toQ_pow hd cv.wf r,
        show toQ (1 : Fqp v p mc) = 1 from toQ_one] at this
    · exact absurd h h0
  · intro h
    apply h1
    apply toQ_inj cv (canon_one hp hd)
    rw [h]; exact toQ_one.symm

end general

/-! ### the exponents at the library's constants -/

theorem bls_exp_facts :
    blsMc12.length = 12 ∧ (blsP ^ 12 - 1) % optimized_bls12_381_curve_order = 0 ∧
    (blsP ^ 12 - 1) / optimized_bls12_381_curve_order ≠ 0 ∧
    (blsP ^ 12 - 1) % bls12_381_curve_order = 0 ∧ blsFinalExp ≠ 0 ∧
    optimized_bls12_381_curve_order = bls12_381_curve_order := by decide +kernel

theorem bn_exp_facts :
    bnMc12.length = 12 ∧ (bnP ^ 12 - 1) % optimized_bn128_curve_order = 0 ∧
    (bnP ^ 12 - 1) / optimized_bn128_curve_order ≠ 0 ∧
    (bnP ^ 12 - 1) % bn128_curve_order = 0 ∧ bnFinalExp ≠ 0 ∧
    optimized_bn128_curve_order = bn128_curve_order := by decide +kernel

/-! ### the optimized pairings -/

/-- the value of `pairing(Q, P)` (optimized bls12_381) is a Miller value raised to `(p¹²−1)/r` -/
theorem pairingOptBls_is_pow {Q : OBls2 × OBls2 × OBls2} {P : Fq blsP × Fq blsP × Fq blsP} {v : OBls12}
    (h : pairingOptBls Q P true = .ok v) :
    ∃ m : OBls12, WF m ∧ pairingOptBls Q P false = .ok m ∧
      v = m ^ ((blsP ^ 12 - 1) / optimized_bls12_381_curve_order) := by
  rw [C12.pairingOptBls_finalExp] at h
  cases hm : pairingOptBls Q P false with
  | error e => rw [hm] at h; cases h
  | ok m =>
    rw [hm] at h
    refine ⟨m, C12.pairingOptBls_wf Q P false m hm, rfl, ?_⟩
    rw [MillerSem.map_ok] at h
    exact (Except.ok.inj h).symm

/-- the value of `pairing(Q, P)` (optimized bn128) is a Miller value raised to `(p¹²−1)/r` -/
theorem pairingOptBn_is_pow {Q : OBn2 × OBn2 × OBn2} {P : Fq bnP × Fq bnP × Fq bnP} {v : OBn12}
    (h : pairingOptBn Q P true = .ok v) :
    ∃ m : OBn12, WF m ∧ pairingOptBn Q P false = .ok m ∧
      v = m ^ ((bnP ^ 12 - 1) / optimized_bn128_curve_order) := by
  rw [C12.pairingOptBn_finalExp] at h
  cases hm : pairingOptBn Q P false with
  | error e => rw [hm] at h; cases h
  | ok m =>
    rw [hm] at h
    refine ⟨m, C12.pairingOptBn_wf Q P false m hm, rfl, ?_⟩
    rw [MillerSem.map_ok] at h
    exact (Except.ok.inj h).symm

/-- **`pairing(Q, P) ** curve_order == FQ12.one()`, optimized bls12_381.**  For every `Q`, `P` on
    which `optimized_bls12_381.pairing(Q, P)` returns a value `v` (i.e. both pass `is_on_curve`):
    `v ** curve_order == 1` as FQ12 coefficient lists, or `v == 0` (which happens exactly when the
    Miller value `f_num / f_den` is `0`). -/
theorem pairingOptBls_pow_r (Q : OBls2 × OBls2 × OBls2) (P : Fq blsP × Fq blsP × Fq blsP) (v : OBls12)
    (h : pairingOptBls Q P true = .ok v) : v ^ optimized_bls12_381_curve_order = 1 ∨ v = 0 := by
  obtain ⟨m, wm, _, rfl⟩ := pairingOptBls_is_pow h
  exact finalExp_root_of_unity (p := blsP) (mc := blsMc12) (by decide) _ bls_exp_facts.2.1
    bls_exp_facts.2.2.1 m wm

/-- **Order exactly `r`, optimized bls12_381**: a value `v` returned by `pairing(Q, P)` that is
    neither `FQ12.one()` nor `FQ12.zero()` has multiplicative order exactly `curve_order` in the
    field `FQ12 = Fp[w]/(w¹² − 2w⁶ + 2)`. -/
theorem pairingOptBls_orderOf (Q : OBls2 × OBls2 × OBls2) (P : Fq blsP × Fq blsP × Fq blsP) (v : OBls12)
    (h : pairingOptBls Q P true = .ok v) (h1 : v ≠ 1) (h0 : v ≠ 0) :
    orderOf (toQ v) = optimized_bls12_381_curve_order := by
  obtain ⟨m, wm, _, rfl⟩ := pairingOptBls_is_pow h
  exact finalExp_orderOf (p := blsP) (mc := blsMc12) (by decide) _
    (bls_exp_facts.2.2.2.2.2 ▸ prime_blsR) bls_exp_facts.2.1 bls_exp_facts.2.2.1 m wm h1 h0

/-- **`pairing(Q, P) ** curve_order == FQ12.one()`, optimized bn128**: for every `Q`, `P` on which
    `optimized_bn128.pairing(Q, P)` returns `v`: `v ** curve_order == 1`, or `v == 0`. -/
theorem pairingOptBn_pow_r (Q : OBn2 × OBn2 × OBn2) (P : Fq bnP × Fq bnP × Fq bnP) (v : OBn12)
    (h : pairingOptBn Q P true = .ok v) : v ^ optimized_bn128_curve_order = 1 ∨ v = 0 := by
  obtain ⟨m, wm, _, rfl⟩ := pairingOptBn_is_pow h
  exact finalExp_root_of_unity (p := bnP) (mc := bnMc12) (by decide) _ bn_exp_facts.2.1
    bn_exp_facts.2.2.1 m wm

/-- **Order exactly `r`, optimized bn128**: a value returned by `pairing(Q, P)` that is neither
    `1` nor `0` has multiplicative order exactly `curve_order` in `FQ12 = Fp[w]/(w¹² − 18w⁶ + 82)`. -/
theorem pairingOptBn_orderOf (Q : OBn2 × OBn2 × OBn2) (P : Fq bnP × Fq bnP × Fq bnP) (v : OBn12)
    (h : pairingOptBn Q P true = .ok v) (h1 : v ≠ 1) (h0 : v ≠ 0) :
    orderOf (toQ v) = optimized_bn128_curve_order := by
  obtain ⟨m, wm, _, rfl⟩ := pairingOptBn_is_pow h
  exact finalExp_orderOf (p := bnP) (mc := bnMc12) (by decide) _
    (bn_exp_facts.2.2.2.2.2 ▸ prime_bnR) bn_exp_facts.2.1 bn_exp_facts.2.2.1 m wm h1 h0

/-! ### the reference pairings -/

section ref
variable {p : ℕ} {mc12 : List Int}

/-- the accumulator `f` of the reference Miller loop always has `d` coefficients -/
theorem refMillerStep_wf (hd : 1 ≤ mc12.length) (ops : RefOps p mc12) (ate : ℕ)
    (Q P : Option (Fqp .ref p mc12 × Fqp .ref p mc12))
    (st st' : Fqp .ref p mc12 × Option (Fqp .ref p mc12 × Fqp .ref p mc12)) (i : ℕ)
    (h : refMillerStep ops ate Q P st i = .ok st') : WF st'.1 := by
  obtain ⟨f, R⟩ := st
  rw [MillerSem.refMillerStep_eq] at h
  cases h1 : ops.linefunc R R P with
  | error e => rw [h1] at h; cases h
  | ok l =>
    rw [h1, MillerSem.ok_bind] at h
    split at h
    · cases h2 : ops.linefunc (ops.double R) Q P with
      | error e => rw [h2] at h; cases h
      | ok l2 =>
        rw [h2, MillerSem.ok_bind] at h
        cases h3 : ops.add (ops.double R) Q with
        | error e => rw [h3] at h; cases h
        | ok R2 =>
          rw [h3, MillerSem.ok_bind] at h
          cases h
          exact wf_mul' hd _ _
    · cases h
      exact wf_mul' hd _ _

theorem refMiller_foldlM_wf (hd : 1 ≤ mc12.length) (ops : RefOps p mc12) (ate : ℕ)
    (Q P : Option (Fqp .ref p mc12 × Fqp .ref p mc12)) :
    ∀ (l : List ℕ) (st st' : Fqp .ref p mc12 × Option (Fqp .ref p mc12 × Fqp .ref p mc12)),
      WF st.1 → l.foldlM (refMillerStep ops ate Q P) st = .ok st' → WF st'.1 := by
  intro l
  induction l with
  | nil => intro st st' hs h; cases h; exact hs
  | cons i l ih =>
    intro st st' hs h
    rw [List.foldlM_cons] at h
    cases h1 : refMillerStep ops ate Q P st i with
    | error e => rw [h1] at h; cases h
    | ok s1 =>
      rw [h1] at h
      exact ih s1 st' (refMillerStep_wf hd ops ate Q P st s1 i h1) h

/-- every value returned by the reference `miller_loop` is `m ** E` for an `m` with `d`
    coefficients (`m = 1` on the early return for a point at infinity) -/
theorem refMillerLoop_is_pow (hp : 0 < p) (hd : 1 ≤ mc12.length) (ops : RefOps p mc12)
    (ate logAte : ℕ) (frob : Bool) (E : ℕ) (Q P : Option (Fqp .ref p mc12 × Fqp .ref p mc12))
    (v : Fqp .ref p mc12) (h : refMillerLoop ops ate logAte frob E Q P = .ok v) :
    ∃ m : Fqp .ref p mc12, WF m ∧ v = m ^ E := by
  unfold refMillerLoop at h
  by_cases hn : (Q.isNone || P.isNone) = true
  · simp only [hn, if_true] at h
    cases h
    exact ⟨1, wf_one hd, (one_pow_model hp hd E).symm⟩
  · simp only [hn, Bool.false_eq_true, if_false] at h
    cases h1 : (downTo logAte).foldlM (refMillerStep ops ate Q P) ((1 : Fqp .ref p mc12), Q) with
    | error e => rw [h1] at h; cases h
    | ok s =>
      have ws : WF s.1 := refMiller_foldlM_wf hd ops ate Q P _ _ s (wf_one hd) h1
      rw [h1] at h
      obtain ⟨f, R⟩ := s
      cases frob
      · cases h; exact ⟨f, ws, rfl⟩
      · cases Q with
        | none => cases h
        | some q =>
          obtain ⟨qx, qy⟩ := q
          rw [MillerSem.ok_bind, if_pos rfl] at h
          dsimp only at h
          cases h2 : ops.linefunc R (some (qx ^ p, qy ^ p)) P with
          | error e => rw [h2] at h; cases h
          | ok l1 =>
            rw [h2, MillerSem.ok_bind] at h
            cases h3 : ops.add R (some (qx ^ p, qy ^ p)) with
            | error e => rw [h3] at h; cases h
            | ok R1 =>
              rw [h3, MillerSem.ok_bind] at h
              cases h4 : ops.linefunc R1 (some ((qx ^ p) ^ p, -((qy ^ p) ^ p))) P with
              | error e => rw [h4] at h; cases h
              | ok l2 =>
                rw [h4, MillerSem.ok_bind] at h
                cases h
                exact ⟨_, wf_mul' hd _ _, rfl⟩

end ref

/-- **`pairing(Q, P) ** curve_order == FQ12.one()`, reference bls12_381**: for every `Q`, `P` on which
    `bls12_381.pairing(Q, P)` returns `v`: `v ** curve_order == 1`, or `v == 0`. -/
theorem pairingRefBls_pow_r (Q : Option (RBls2 × RBls2)) (P : Option (Fq blsP × Fq blsP)) (v : RBls12)
    (h : pairingRefBls Q P = .ok v) : v ^ bls12_381_curve_order = 1 ∨ v = 0 := by
  rw [MillerSem.pairingRefBls_eq] at h
  split at h
  · cases h
  split at h
  · cases h
  obtain ⟨m, wm, rfl⟩ := refMillerLoop_is_pow (by decide) (by decide) _ _ _ _ _ _ _ v h
  exact finalExp_root_of_unity (p := blsP) (mc := blsMc12) (by decide) _ bls_exp_facts.2.2.2.1
    bls_exp_facts.2.2.2.2.1 m wm

/-- **Order exactly `r`, reference bls12_381**: a value returned by `pairing(Q, P)` that is neither
    `1` nor `0` has multiplicative order exactly `curve_order`. -/
theorem pairingRefBls_orderOf (Q : Option (RBls2 × RBls2)) (P : Option (Fq blsP × Fq blsP)) (v : RBls12)
    (h : pairingRefBls Q P = .ok v) (h1 : v ≠ 1) (h0 : v ≠ 0) :
    orderOf (toQ v) = bls12_381_curve_order := by
  rw [MillerSem.pairingRefBls_eq] at h
  split at h
  · cases h
  split at h
  · cases h
  obtain ⟨m, wm, rfl⟩ := refMillerLoop_is_pow (by decide) (by decide) _ _ _ _ _ _ _ v h
  exact finalExp_orderOf (p := blsP) (mc := blsMc12) (by decide) _ prime_blsR bls_exp_facts.2.2.2.1
    bls_exp_facts.2.2.2.2.1 m wm h1 h0

/-- **`pairing(Q, P) ** curve_order == FQ12.one()`, reference bn128**: for every `Q`, `P` on which
    `bn128.pairing(Q, P)` returns `v`: `v ** curve_order == 1`, or `v == 0`. -/
theorem pairingRefBn_pow_r (Q : Option (RBn2 × RBn2)) (P : Option (Fq bnP × Fq bnP)) (v : RBn12)
    (h : pairingRefBn Q P = .ok v) : v ^ bn128_curve_order = 1 ∨ v = 0 := by
  unfold pairingRefBn at h
  cases hQ : Gen.RefBn.is_on_curve Q (⟨bn128_b2⟩ : RBn2)
  · rw [hQ] at h; cases h
  cases hP : Gen.RefBn.is_on_curve P (Fq.ofInt bn128_b : Fq bnP)
  · rw [hQ, hP] at h; cases h
  rw [hQ, hP] at h
  obtain ⟨m, wm, rfl⟩ := refMillerLoop_is_pow (by decide) (by decide) _ _ _ _ _ _ _ v h
  exact finalExp_root_of_unity (p := bnP) (mc := bnMc12) (by decide) _ bn_exp_facts.2.2.2.1
    bn_exp_facts.2.2.2.2.1 m wm

/-- **Order exactly `r`, reference bn128**: a value returned by `pairing(Q, P)` that is neither
    `1` nor `0` has multiplicative order exactly `curve_order`. -/
theorem pairingRefBn_orderOf (Q : Option (RBn2 × RBn2)) (P : Option (Fq bnP × Fq bnP)) (v : RBn12)
    (h : pairingRefBn Q P = .ok v) (h1 : v ≠ 1) (h0 : v ≠ 0) :
    orderOf (toQ v) = bn128_curve_order := by
  unfold pairingRefBn at h
  cases hQ : Gen.RefBn.is_on_curve Q (⟨bn128_b2⟩ : RBn2)
  · rw [hQ] at h; cases h
  cases hP : Gen.RefBn.is_on_curve P (Fq.ofInt bn128_b : Fq bnP)
  · rw [hQ, hP] at h; cases h
  rw [hQ, hP] at h
  obtain ⟨m, wm, rfl⟩ := refMillerLoop_is_pow (by decide) (by decide) _ _ _ _ _ _ _ v h
  exact finalExp_orderOf (p := bnP) (mc := bnMc12) (by decide) _ prime_bnR bn_exp_facts.2.2.2.1
    bn_exp_facts.2.2.2.2.1 m wm h1 h0

/-! ### non-vacuity: the pairings do return on concrete inputs -/

example : pairingOptBls (1, 1, 0) (1, 1, 0) true = .ok 1 := by
  rw [pairingOptBls_eq]; decide +kernel
example : pairingOptBn (1, 1, 0) (1, 1, 0) true = .ok 1 := by
  rw [pairingOptBn_eq]; decide +kernel
example : pairingRefBls none none = .ok 1 := by
  rw [MillerSem.pairingRefBls_eq]; decide +kernel

end PyEcc.C05N
