/-
  PyEcc.Props.C14_Gen — property C14 (the optimized field classes compute the same values as the reference field
  classes; `sgn0` agrees with RFC 9380) restated about the GENERATED code.  Every py_ecc function in a statement below is
  a definition of `PyEcc/Gen/ExtraFields{Fq,Fqp,Mul}.lean`, i.e. the Lean code the translator produced from the Python
  source of this run: `Gen.ExtraFields*.Opt.*` is `py_ecc/fields/optimized_field_elements.py`, `Gen.ExtraFields*.Ref.*` is
  `py_ecc/fields/field_elements.py`.

  PART 1 — the prime-field class `FQ`: every method of the optimized class is, for ALL Python ints as operands (reduced
  or not) and ALL moduli, the same function as the method of the reference class (`fq_*_opt_eq_ref`); the optimized
  `FQ.sgn0` is RFC 9380 `sgn0` (`m = 1`).
  PART 2 — the extension classes `FQP / FQ2 / FQ12`: on objects with the same coefficients (`C08.Gen.FqpOpt.IsObj`,
  `C08.Gen.FqpRef.IsObj`: the attributes every object of the class has) each of `+ - neg * (·*int) (·/int) ** == !=` and
  the constructors returns in both classes, the results are canonical objects of the two classes and have the same
  coefficients — so, by induction on the expression, any expression tree evaluates to the same canonical coefficients
  in both classes.  `FQP.sgn0` / `FQ2.sgn0` are RFC 9380 `sgn0` / `sgn0_m_eq_2`.
  Proofs: tie theorems `Props/TieFields*.lean` composed with the model theorems of `Props/C14_Fq.lean`, `C14_Fqp.lean`.
  NOT restated: optimized `inv` / `/` (FQP operand) = reference `inv` / `/` (`C14_FqpInv`), because the reference
  `FQP.inv` is not translated (lists mixing ints and `FQ` objects, see COVERAGE.md); the optimized inverse is
  characterised on its own in `C08_Gen` (`FqpOpt.inv_laws`).
-/
import PyEcc.Props.C14_Fq
import PyEcc.Props.C14_Fqp
import PyEcc.Props.C08_Gen

namespace PyEcc.C14.Gen
open PyEcc PyEcc.Gen.ExtraFieldsFq

/-! # PART 1 — `FQ` -/

/-- **optimized `FQ` = reference `FQ`: constructors and arithmetic with an `FQ` operand.**  For every modulus and ALL
    ints as attributes (no reducedness assumed), the generated optimized methods are the generated reference methods. -/
theorem fq_arith_opt_eq_ref (p a b : ℤ) :
    Opt.FQ.init_int p a = Ref.FQ.init_int p a ∧ Opt.FQ.init_fq p a = Ref.FQ.init_fq p a ∧
    Opt.FQ.add_fq p a b = Ref.FQ.add_fq p a b ∧ Opt.FQ.sub_fq p a b = Ref.FQ.sub_fq p a b ∧
    Opt.FQ.mul_fq p a b = Ref.FQ.mul_fq p a b ∧ Opt.FQ.div_fq p a b = Ref.FQ.div_fq p a b ∧
    Opt.FQ.truediv_fq p a b = Ref.FQ.truediv_fq p a b ∧ Opt.FQ.neg p a = Ref.FQ.neg p a ∧
    Opt.FQ.rsub_fq p a b = Ref.FQ.rsub_fq p a b ∧ Opt.FQ.rdiv_fq p a b = Ref.FQ.rdiv_fq p a b ∧
    Opt.FQ.rtruediv_fq p a b = Ref.FQ.rtruediv_fq p a b ∧ Opt.FQ.radd_fq p a b = Ref.FQ.radd_fq p a b ∧
    Opt.FQ.rmul_fq p a b = Ref.FQ.rmul_fq p a b ∧ Opt.FQ.one p = Ref.FQ.one p ∧ Opt.FQ.zero p = Ref.FQ.zero p ∧
    Opt.FQ.int p a = Ref.FQ.int p a :=
  ⟨rfl, rfl, rfl, rfl, rfl, rfl, rfl, rfl, rfl, rfl, rfl, rfl, rfl, rfl, rfl, rfl⟩

/-- **optimized `FQ` = reference `FQ`: operations with an `int` operand** (the raw int `k`, negative or `> p`, enters
    both classes in the same way), including the reflected operators. -/
theorem fq_int_opt_eq_ref (p a k : ℤ) :
    Opt.FQ.add_int p a k = Ref.FQ.add_int p a k ∧ Opt.FQ.sub_int p a k = Ref.FQ.sub_int p a k ∧
    Opt.FQ.mul_int p a k = Ref.FQ.mul_int p a k ∧ Opt.FQ.div_int p a k = Ref.FQ.div_int p a k ∧
    Opt.FQ.truediv_int p a k = Ref.FQ.truediv_int p a k ∧ Opt.FQ.rsub_int p a k = Ref.FQ.rsub_int p a k ∧
    Opt.FQ.rdiv_int p a k = Ref.FQ.rdiv_int p a k ∧ Opt.FQ.rtruediv_int p a k = Ref.FQ.rtruediv_int p a k ∧
    Opt.FQ.radd_int p a k = Ref.FQ.radd_int p a k ∧ Opt.FQ.rmul_int p a k = Ref.FQ.rmul_int p a k :=
  ⟨rfl, rfl, rfl, rfl, rfl, rfl, rfl, rfl, rfl, rfl⟩

/-- **optimized `FQ` = reference `FQ`: comparisons** `== != <` with an `FQ` and with an `int` operand (an unreduced int
    is compared raw in both classes). -/
theorem fq_cmp_opt_eq_ref (p a b : ℤ) :
    Opt.FQ.eq_fq p a b = Ref.FQ.eq_fq p a b ∧ Opt.FQ.eq_int p a b = Ref.FQ.eq_int p a b ∧
    Opt.FQ.ne_fq p a b = Ref.FQ.ne_fq p a b ∧ Opt.FQ.ne_int p a b = Ref.FQ.ne_int p a b ∧
    Opt.FQ.lt_fq p a b = Ref.FQ.lt_fq p a b ∧ Opt.FQ.lt_int p a b = Ref.FQ.lt_int p a b :=
  ⟨rfl, rfl, rfl, rfl, rfl, rfl⟩

/-- the `while other > 0` loops of the two `FQ.__pow__` are the same function -/
theorem fq_pow_loop_opt_eq_ref (p : ℤ) : ∀ (f : ℕ) (st : ℤ × ℤ × ℤ),
    Opt.FQ.pow_loop0 p f st = Ref.FQ.pow_loop0 p f st := by
  intro f
  induction f with
  | zero => intro st; rfl
  | succ f ih =>
    rintro ⟨e, o, t⟩
    unfold Opt.FQ.pow_loop0 Ref.FQ.pow_loop0
    by_cases h : e > 0
    · simp only [h, if_true]; exact ih _
    · simp only [h, if_false]

/-- **optimized `FQ.__pow__` = reference `FQ.__pow__`** for every base, every int exponent (zero, negative, thousands of
    bits) and every modulus. -/
theorem fq_pow_opt_eq_ref (p a e : ℤ) : Opt.FQ.pow p a e = Ref.FQ.pow p a e := by
  unfold Opt.FQ.pow Ref.FQ.pow
  simp only [fq_pow_loop_opt_eq_ref]; rfl

/-- **optimized `FQ.sgn0` is RFC 9380 `sgn0`** (generic definition at `m = 1`, and the special form `sgn0_m_eq_1`) of the
    canonical representative, for every `FQ` object (`C08.Gen.Red p a`: `0 ≤ a < p`); it is `0` or `1`. -/
theorem fq_sgn0_eq_spec {p : ℕ} {a : ℤ} (ha : C08.Gen.Red p a) :
    Opt.FQ.sgn0 p a = (Spec.Sgn0.sgn0 [a.toNat] : ℕ) ∧ Opt.FQ.sgn0 p a = (Spec.Sgn0.sgn0_m_eq_1 a.toNat : ℕ) ∧
    0 ≤ Opt.FQ.sgn0 p a ∧ Opt.FQ.sgn0 p a ≤ 1 := by
  obtain ⟨x, rfl⟩ := ha.lift
  rw [Tie.FqOpt.sgn0_eq, Int.toNat_natCast, ← C14Fq.fq_sgn0_eq_spec, ← C14Fq.fq_sgn0_eq_m1]
  have := C14Fq.fq_sgn0_le_one x
  exact ⟨rfl, rfl, by omega, by omega⟩

/-- for an odd modulus, negation flips `sgn0` of every non-zero element: `sgn0(-a) = 1 - sgn0(a)`; `sgn0(FQ.zero()) = 0` -/
theorem fq_sgn0_neg {p : ℕ} [NeZero p] (hp : p % 2 = 1) {a : ℤ} (ha : C08.Gen.Red p a) (h0 : a ≠ 0) :
    Opt.FQ.sgn0 p (Opt.FQ.neg p a) = 1 - Opt.FQ.sgn0 p a ∧ Opt.FQ.sgn0 p (Opt.FQ.zero p) = 0 := by
  obtain ⟨x, rfl⟩ := ha.lift
  have hz : ((Fq.ofInt 0 : Fq p).n : ℤ) = 0 := by rw [Tie.Fq.ofInt_n]; simp
  have hx : x ≠ Fq.ofInt 0 := fun h => h0 (by rw [h]; exact hz)
  rw [Tie.FqOpt.neg_eq, Tie.FqOpt.sgn0_eq, Tie.FqOpt.sgn0_eq, C14Fq.fq_sgn0_neg hp x hx, Tie.FqOpt.zero_eq,
    Tie.FqOpt.sgn0_eq]
  have := C14Fq.fq_sgn0_le_one x
  refine ⟨by omega, ?_⟩
  exact_mod_cast C14Fq.fq_sgn0_zero (p := p)

example : C08.Gen.Red 7 3 ∧ (3 : ℤ) ≠ 0 ∧ 7 % 2 = 1 := by decide
example : Opt.FQ.sgn0 7 3 = 1 ∧ Opt.FQ.sgn0 7 (Opt.FQ.neg 7 3) = 0 := by decide

/-! # PART 2 — `FQP / FQ2 / FQ12` -/
section extension
open PyEcc.Fqp PyEcc.FqpSem
open Gen.ExtraFieldsFqp Gen.ExtraFieldsMul
variable {p : ℕ} {mc : List ℤ}

local notation "IsObjO" => C08.Gen.FqpOpt.IsObj
local notation "IsObjR" => C08.Gen.FqpRef.IsObj
local notation "IsCanonO" => C08.Gen.FqpOpt.IsCanon
local notation "IsCanonR" => C08.Gen.FqpRef.IsCanon
local notation "objO" => Tie.FqpOpt.obj
local notation "objR" => Tie.FqpRef.obj

/-- two objects, one of each class, with the same coefficients come from the same coefficient list -/
theorem lift2 {x : Opt.FQP} {x' : Ref.FQP} (hx : IsObjO mc x) (hx' : IsObjR mc x') (h : x.coeffs = x'.coeffs) :
    ∃ a : List ℤ, a.length = mc.length ∧ x = objO (⟨a⟩ : Fqp .opt p mc) ∧ x' = objR (⟨a⟩ : Fqp .ref p mc) := by
  obtain ⟨a, ha, rfl⟩ := hx.lift (p := p); obtain ⟨a', ha', rfl⟩ := hx'.lift (p := p)
  cases a with | mk a => cases a' with | mk a' =>
  simp only [Tie.FqpOpt.obj, Tie.FqpRef.obj] at h
  subst h
  exact ⟨a, ha, rfl, rfl⟩

/-- **the constructors agree**: `FQ2(cs)` / `FQ12(cs)` on a sequence of ints raise in both classes or return objects with
    the same (reduced) coefficients; likewise `zero()` and `one()`. -/
theorem init_opt_eq_ref (cs : List ℤ) :
    (cs.length ≠ mc.length → Opt.FQPsub.init_ints p mc cs = .error PyErr.other ∧
      Ref.FQPsub.init_ints p mc cs = .error PyErr.other) ∧
    (cs.length = mc.length → ∃ w w', Opt.FQPsub.init_ints p mc cs = .ok w ∧ Ref.FQPsub.init_ints p mc cs = .ok w' ∧
      IsObjO mc w ∧ IsObjR mc w' ∧ w.coeffs = w'.coeffs) := by
  constructor
  · intro h
    rw [Tie.FqpOpt.init_ints_eq, Tie.FqpRef.init_ints_eq, if_pos h, if_pos h]; exact ⟨rfl, rfl⟩
  · intro h
    exact ⟨_, _, C08.Gen.FqpOpt.t_init cs h, C08.Gen.FqpRef.t_init cs h, C08.Gen.FqpOpt.isObj_obj (wf_ofInts h),
      C08.Gen.FqpRef.isObj_obj (wf_ofInts h), rfl⟩

/-- **optimized `*` = reference `*`.**  On operands with the same coefficients, the optimized product (no intermediate
    reduction, sparse modulus table `mc_tuples`, `range(d-2,-1,-1)` pops) and the reference product (`FQ` entries reduced
    after every step, `while len(b) > d`) both return, the results are canonical objects of the two classes, and they
    have the same coefficients.  Any `p > 0`, any modulus coefficients. -/
theorem mul_opt_eq_ref (hp : 0 < p) {x y : Opt.FQP} {x' y' : Ref.FQP} (hx : IsObjO mc x) (hy : IsObjO mc y)
    (hx' : IsObjR mc x') (hy' : IsObjR mc y') (ex : x.coeffs = x'.coeffs) (ey : y.coeffs = y'.coeffs) :
    ∃ w w', Opt.FQP.mul_fqp p mc x y = .ok w ∧ Ref.FQP.mul_fqp p mc x' y' = .ok w' ∧
      IsCanonO p mc w ∧ IsCanonR p mc w' ∧ w.coeffs = w'.coeffs := by
  obtain ⟨a, ha, rfl, rfl⟩ := lift2 (p := p) hx hx' ex
  obtain ⟨b, hb, rfl, rfl⟩ := lift2 (p := p) hy hy' ey
  exact ⟨_, _, C08.Gen.FqpOpt.t_mul ha hb, C08.Gen.FqpRef.t_mul ha hb,
    C08.Gen.FqpOpt.isCanon_obj (canon_mul hp ha hb), C08.Gen.FqpRef.isCanon_obj (canon_mul hp ha hb),
    C14P.mul_opt_eq_ref hp ha hb⟩

/-- **optimized `**` = reference `**`** for every int exponent (zero, negative, thousands of bits). -/
theorem pow_opt_eq_ref (hp : 0 < p) (hd : 1 ≤ mc.length) {x : Opt.FQP} {x' : Ref.FQP} (hx : IsObjO mc x)
    (hx' : IsObjR mc x') (ex : x.coeffs = x'.coeffs) (e : ℤ) :
    ∃ w w', Opt.FQP.pow p mc x e = .ok w ∧ Ref.FQP.pow p mc x' e = .ok w' ∧
      IsCanonO p mc w ∧ IsCanonR p mc w' ∧ w.coeffs = w'.coeffs := by
  obtain ⟨a, ha, rfl, rfl⟩ := lift2 (p := p) hx hx' ex
  exact ⟨_, _, C08.Gen.FqpOpt.t_pow hd ha e, C08.Gen.FqpRef.t_pow hd ha e,
    C08.Gen.FqpOpt.isCanon_obj (canon_pow hp hd ha _), C08.Gen.FqpRef.isCanon_obj (canon_pow hp hd ha _),
    C14P.pow_opt_eq_ref hp hd ha _⟩

/-- **optimized `+ - neg`, `* int`, `/ int` = reference ones**: on operands with the same coefficients both classes
    return canonical objects with the same coefficients (the int `k` may be negative or `> p`; `/ k` with `p ∣ k` gives
    zero in both). -/
theorem linear_opt_eq_ref (hp : 0 < p) {x y : Opt.FQP} {x' y' : Ref.FQP} (hx : IsObjO mc x) (hy : IsObjO mc y)
    (hx' : IsObjR mc x') (hy' : IsObjR mc y') (ex : x.coeffs = x'.coeffs) (ey : y.coeffs = y'.coeffs) (k : ℤ) :
    (∃ w w', Opt.FQP.add p mc x y = .ok w ∧ Ref.FQP.add p mc x' y' = .ok w' ∧
      IsCanonO p mc w ∧ IsCanonR p mc w' ∧ w.coeffs = w'.coeffs) ∧
    (∃ w w', Opt.FQP.sub p mc x y = .ok w ∧ Ref.FQP.sub p mc x' y' = .ok w' ∧
      IsCanonO p mc w ∧ IsCanonR p mc w' ∧ w.coeffs = w'.coeffs) ∧
    (∃ w w', Opt.FQP.neg p mc x = .ok w ∧ Ref.FQP.neg p mc x' = .ok w' ∧
      IsCanonO p mc w ∧ IsCanonR p mc w' ∧ w.coeffs = w'.coeffs) ∧
    (∃ w w', Opt.FQP.mul_int p mc x k = .ok w ∧ Ref.FQP.mul_int p mc x' k = .ok w' ∧
      IsCanonO p mc w ∧ IsCanonR p mc w' ∧ w.coeffs = w'.coeffs) ∧
    (∃ w w', Opt.FQP.div_int p mc x k = .ok w ∧ Ref.FQP.div_int p mc x' k = .ok w' ∧
      IsCanonO p mc w ∧ IsCanonR p mc w' ∧ w.coeffs = w'.coeffs) := by
  obtain ⟨a, ha, rfl, rfl⟩ := lift2 (p := p) hx hx' ex
  obtain ⟨b, hb, rfl, rfl⟩ := lift2 (p := p) hy hy' ey
  obtain ⟨l1, l2, l3, l4, l5, _⟩ := C14P.linear_opt_eq_ref (p := p) (mc := mc) a b k
  exact ⟨⟨_, _, C08.Gen.FqpOpt.t_add ha hb, C08.Gen.FqpRef.t_add ha hb, C08.Gen.FqpOpt.isCanon_obj (canon_add hp ha hb),
      C08.Gen.FqpRef.isCanon_obj (canon_add hp ha hb), l1⟩,
    ⟨_, _, C08.Gen.FqpOpt.t_sub ha hb, C08.Gen.FqpRef.t_sub ha hb, C08.Gen.FqpOpt.isCanon_obj (canon_sub hp ha hb),
      C08.Gen.FqpRef.isCanon_obj (canon_sub hp ha hb), l2⟩,
    ⟨_, _, C08.Gen.FqpOpt.t_neg ha, C08.Gen.FqpRef.t_neg ha, C08.Gen.FqpOpt.isCanon_obj (canon_neg hp ha),
      C08.Gen.FqpRef.isCanon_obj (canon_neg hp ha), l3⟩,
    ⟨_, _, C08.Gen.FqpOpt.t_mulInt ha k, C08.Gen.FqpRef.t_mulInt ha k, C08.Gen.FqpOpt.isCanon_obj (canon_mulInt hp ha k),
      C08.Gen.FqpRef.isCanon_obj (canon_mulInt hp ha k), l4⟩,
    ⟨_, _, C08.Gen.FqpOpt.t_divInt ha k, C08.Gen.FqpRef.t_divInt ha k, C08.Gen.FqpOpt.isCanon_obj (canon_mulInt hp ha _),
      C08.Gen.FqpRef.isCanon_obj (canon_mulInt hp ha _), l5⟩⟩

/-- **optimized `== / !=` = reference `== / !=`** on operands with the same coefficients (for ALL objects, of any
    length: both are the `zip` comparison). -/
theorem cmp_opt_eq_ref {x y : Opt.FQP} {x' y' : Ref.FQP} (ex : x.coeffs = x'.coeffs) (ey : y.coeffs = y'.coeffs) :
    Opt.FQP.eq p mc x y = Ref.FQP.eq p mc x' y' ∧ Opt.FQP.ne p mc x y = Ref.FQP.ne p mc x' y' := by
  have h : Opt.FQP.eq p mc x y = Ref.FQP.eq p mc x' y' := by
    unfold Opt.FQP.eq Ref.FQP.eq
    rw [ex, ey]
    rw [Tie.any_ne_eq_all _ _ (fun x => by simp), Tie.any_ne_eq_all _ _ (fun x => by simp [Ref.FQ.ne_fq, Ref.FQ.eq_fq])]
  exact ⟨h, by unfold Opt.FQP.ne Ref.FQP.ne; rw [h]⟩

/-- **optimized generic `FQP.sgn0` is RFC 9380 `sgn0`** (generic extension degree `m`) on the coefficient list, for every
    object with non-negative coefficients (every canonical object). -/
theorem fqp_sgn0_eq_spec {x : Opt.FQP} (hx : IsCanonO p mc x) :
    Opt.FQP.sgn0 p mc x = (Spec.Sgn0.sgn0 (x.coeffs.map Int.toNat) : ℕ) := by
  obtain ⟨a, ha, rfl⟩ := hx.lift
  rw [Tie.FqpOpt.sgn0_eq, C14Fq.fqp_sgn0_eq_spec a (fun c hc => (ha.2 c hc).1)]; rfl

/-- **optimized `FQ2.sgn0` is RFC 9380 `sgn0_m_eq_2`** and agrees with the generic loop `FQP.sgn0`, on every object with
    two non-negative coefficients; on an object with another number of coefficients it raises `ValueError`. -/
theorem fq2_sgn0_eq_spec {x : Opt.FQP} (hx : IsObjO mc x) (x0 x1 : ℤ) (hc : x.coeffs = [x0, x1]) (h0 : 0 ≤ x0)
    (h1 : 0 ≤ x1) :
    Opt.FQ2.sgn0 p mc x = .ok (Spec.Sgn0.sgn0_m_eq_2 x0.toNat x1.toNat : ℕ) ∧
    Opt.FQ2.sgn0 p mc x = .ok (Opt.FQP.sgn0 p mc x) := by
  obtain ⟨a, ha, rfl⟩ := hx.lift (p := p)
  obtain ⟨e1, e2⟩ := C14Fq.fq2_sgn0_eq_spec a x0 x1 hc h0 h1
  rw [Tie.FqpOpt.FQ2_sgn0_eq a (by rw [show a.coeffs = [x0, x1] from hc]; rfl), Tie.FqpOpt.sgn0_eq, ← e2, e1]
  exact ⟨rfl, rfl⟩

/-! ### non-vacuity -/
example : IsObjO [1, 0] ⟨[(0, 1)], [3, 5], [1, 0], 2⟩ ∧ IsObjR [1, 0] ⟨[3, 5], [1, 0], 2⟩ ∧
    (⟨[(0, 1)], [3, 5], [1, 0], 2⟩ : Opt.FQP).coeffs = (⟨[3, 5], [1, 0], 2⟩ : Ref.FQP).coeffs :=
  ⟨⟨rfl, rfl, rfl, rfl⟩, ⟨rfl, rfl, rfl⟩, rfl⟩
example : Opt.FQP.mul_fqp 7 [1, 0] ⟨[(0, 1)], [3, 5], [1, 0], 2⟩ ⟨[(0, 1)], [2, 6], [1, 0], 2⟩ =
      .ok ⟨[(0, 1)], [4, 0], [1, 0], 2⟩ ∧
    Ref.FQP.mul_fqp 7 [1, 0] ⟨[3, 5], [1, 0], 2⟩ ⟨[2, 6], [1, 0], 2⟩ = .ok ⟨[4, 0], [1, 0], 2⟩ := by decide
example : Opt.FQ2.sgn0 7 [1, 0] ⟨[(0, 1)], [0, 3], [1, 0], 2⟩ = .ok 1 := by decide
example : (0 : ℕ) < blsP ∧ 1 ≤ blsMc12.length := by decide

end extension

end PyEcc.C14.Gen
