/-
  PyEcc.Props.TieFieldsFqp — TIE theorems ("generated = hand-written model") for the FIELD layer, part 2: the classes
  `FQP` / `FQ2` / `FQ12` of `py_ecc/fields/field_elements.py` (namespace `Gen.ExtraFieldsFqp.Ref`, model variant `.ref`)
  and of `py_ecc/fields/optimized_field_elements.py` (namespace `Gen.ExtraFieldsFqp.Opt`, model variant `.opt`):
  constructors, `__add__ __sub__ __neg__`, the `int` branches of `__mul__` / `__div__` / `__truediv__`, `__eq__ __ne__`,
  `one() zero()`, and the optimized `sgn0` (generic loop and the `FQ2` override) with `mod_int`.

  `Gen/ExtraFieldsFqp.lean` is re-generated from the Python source on every run (tools/translate/gen_fields.py).  In the
  generated code an `FQP` object is the structure `FQP` of its instance attributes; `obj a` below is the object that
  represents the model element `a : Fqp v p mc` (coefficients `a.coeffs`, `modulus_coeffs = mc`, `degree = len(mc)`,
  and for the optimized class `mc_tuples`).  The constructor raises when `len(coeffs) != len(modulus_coeffs)`, so the
  theorems about methods that construct an object carry the well-formedness hypothesis `a.coeffs.length = mc.length`
  where the result's length depends on it; under it the generated method returns `.ok (obj <model result>)`.
-/
import PyEcc.Gen.ExtraFieldsFqp
import PyEcc.Props.TieFieldsFq

namespace PyEcc.Tie
open PyEcc

/-- relational induction over two folds of the same list -/
theorem fields_foldl_rel {α₁ α₂ β : Type} (r : α₂ → α₁ → Prop) {g₁ : α₁ → β → α₁} {g₂ : α₂ → β → α₂} {l : List β}
    {i₁ : α₁} {i₂ : α₂} (hi : r i₂ i₁) (H : ∀ x₂ x₁ y, r x₂ x₁ → r (g₂ x₂ y) (g₁ x₁ y)) :
    r (List.foldl g₂ i₂ l) (List.foldl g₁ i₁ l) := by
  induction l generalizing i₁ i₂ with
  | nil => exact hi
  | cons a l ih => exact ih (H _ _ _ hi)

/-- `for x, y in l: if x != y: return False` / `return True` is `all (x == y)` -/
theorem any_ne_eq_all (l : List (Int × Int)) (f : Int × Int → Bool) (hf : ∀ x, f x = !decide (x.1 = x.2)) :
    (if (l.any f) = true then false else true) = l.all (fun xy => xy.1 == xy.2) := by
  have : f = fun x => !(x.1 == x.2) := funext hf
  subst this
  rw [List.all_eq_not_any_not]
  cases (l.any fun x => !(x.1 == x.2)) <;> rfl

/-! ### reference classes (`py_ecc/fields/field_elements.py`) -/

namespace FqpRef
open Gen.ExtraFieldsFq.Ref Gen.ExtraFieldsFqp.Ref
variable {p : Nat} {mc : List Int}

/-- the generated object representing the model element `a` (the coefficients are the `n` of the `FQ` objects) -/
def obj (a : Fqp .ref p mc) : FQP := ⟨a.coeffs, mc, mc.length⟩

/-- `FQ2.__init__` / `FQ12.__init__` (with `FQP.__init__` inlined) on a sequence of ints: `Exception` unless the length
    is that of the modulus coefficients, otherwise the object of the model's `Fqp.ofInts`. -/
theorem init_ints_eq (cs : List Int) :
    FQPsub.init_ints p mc cs =
      if cs.length ≠ mc.length then .error PyErr.other else .ok (obj (Fqp.ofInts cs : Fqp .ref p mc)) := by
  unfold FQPsub.init_ints
  by_cases h : cs.length = mc.length
  · simp [h, obj, Fqp.ofInts, FQ.init_int]
    rfl
  · simp [h]
    rfl

/-- the same constructor on a sequence of `FQ` objects: the coefficients are copied. -/
theorem init_fqs_eq (cs : List Int) :
    FQPsub.init_fqs p mc cs =
      if cs.length ≠ mc.length then .error PyErr.other else .ok (obj (⟨cs⟩ : Fqp .ref p mc)) := by
  unfold FQPsub.init_fqs
  by_cases h : cs.length = mc.length
  · simp [h, obj, FQ.init_fq]
    rfl
  · simp [h]
    rfl

/-- reference `FQP.__add__` is `Fqp.add` (on well-formed operands). -/
theorem add_eq (a b : Fqp .ref p mc) (ha : a.coeffs.length = mc.length) (hb : b.coeffs.length = mc.length) :
    FQP.add p mc (obj a) (obj b) = .ok (obj (Fqp.add a b)) := by
  unfold FQP.add
  rw [init_fqs_eq, if_neg (by simp [obj, ha, hb])]
  simp only [obj, Fqp.add, Fqp.ofInts, List.map_zipWith, FQ.add_fq, FQ.init_int, Int.emod_emod]

/-- reference `FQP.__sub__` is `Fqp.sub`. -/
theorem sub_eq (a b : Fqp .ref p mc) (ha : a.coeffs.length = mc.length) (hb : b.coeffs.length = mc.length) :
    FQP.sub p mc (obj a) (obj b) = .ok (obj (Fqp.sub a b)) := by
  unfold FQP.sub
  rw [init_fqs_eq, if_neg (by simp [obj, ha, hb])]
  simp only [obj, Fqp.sub, Fqp.ofInts, List.map_zipWith, FQ.sub_fq, FQ.init_int, Int.emod_emod]

/-- reference `FQP.__neg__` is `Fqp.neg`. -/
theorem neg_eq (a : Fqp .ref p mc) (ha : a.coeffs.length = mc.length) :
    FQP.neg p mc (obj a) = .ok (obj (Fqp.neg a)) := by
  unfold FQP.neg
  rw [init_fqs_eq, if_neg (by simp [obj, ha])]
  simp only [obj, Fqp.neg, Fqp.ofInts, List.map_map, Function.comp_def, FQ.neg, FQ.init_int]

/-- reference `FQP.__mul__` with an `int` operand is `Fqp.mulInt`. -/
theorem mul_int_eq (a : Fqp .ref p mc) (k : Int) (ha : a.coeffs.length = mc.length) :
    FQP.mul_int p mc (obj a) k = .ok (obj (Fqp.mulInt a k)) := by
  unfold FQP.mul_int
  rw [init_fqs_eq, if_neg (by simp [obj, ha])]
  simp only [obj, Fqp.mulInt, Fqp.ofInts, List.map_map, Function.comp_def, FQ.mul_int, FQ.init_int, Int.emod_emod]

/-- reference `FQP.__div__` with an `int` operand (`c / other` on the `FQ` coefficients) is `Fqp.divInt`. -/
theorem div_int_eq (a : Fqp .ref p mc) (k : Int) (ha : a.coeffs.length = mc.length) :
    FQP.div_int p mc (obj a) k = .ok (obj (Fqp.divInt a k)) := by
  unfold FQP.div_int
  rw [init_fqs_eq, if_neg (by simp [obj, ha])]
  simp only [obj, Fqp.divInt, Fqp.ofInts, List.map_map, Function.comp_def, FQ.truediv_int, FQ.div_int, FQ.init_int, Int.emod_emod]

/-- reference `FQP.__truediv__` delegates to `__div__`. -/
theorem truediv_int_eq (a : Fqp .ref p mc) (k : Int) (ha : a.coeffs.length = mc.length) :
    FQP.truediv_int p mc (obj a) k = .ok (obj (Fqp.divInt a k)) := by
  unfold FQP.truediv_int; exact div_int_eq a k ha

/-- reference `FQP.__eq__` (early-return loop over `zip`) is `Fqp.beq`, for all operands. -/
theorem eq_eq (a b : Fqp .ref p mc) : FQP.eq p mc (obj a) (obj b) = Fqp.beq a b := by
  unfold FQP.eq Fqp.beq obj
  exact any_ne_eq_all _ _ (fun x => by simp [FQ.ne_fq, FQ.eq_fq])

/-- reference `FQP.__ne__` is the negation of `__eq__`. -/
theorem ne_eq (a b : Fqp .ref p mc) : FQP.ne p mc (obj a) (obj b) = !Fqp.beq a b := by
  unfold FQP.ne; rw [eq_eq]; cases Fqp.beq a b <;> rfl

/-- reference `FQ2.one()` is the model's `1` (for a modulus with `FQ2.degree = 2` coefficients). -/
theorem FQ2_one_eq (h : mc.length = 2) : FQ2.one p mc = .ok (obj (Fqp.one : Fqp .ref p mc)) := by
  unfold FQ2.one
  rw [init_ints_eq, if_neg (by simp [h])]
  simp [Fqp.one, h]

/-- reference `FQ2.zero()` is the model's `0`. -/
theorem FQ2_zero_eq (h : mc.length = 2) : FQ2.zero p mc = .ok (obj (Fqp.zero : Fqp .ref p mc)) := by
  unfold FQ2.zero
  rw [init_ints_eq, if_neg (by simp [h])]
  simp [Fqp.zero, h]

/-- reference `FQ12.one()` is the model's `1` (for a modulus with `FQ12.degree = 12` coefficients). -/
theorem FQ12_one_eq (h : mc.length = 12) : FQ12.one p mc = .ok (obj (Fqp.one : Fqp .ref p mc)) := by
  unfold FQ12.one
  rw [init_ints_eq, if_neg (by simp [h])]
  simp [Fqp.one, h]

/-- reference `FQ12.zero()` is the model's `0`. -/
theorem FQ12_zero_eq (h : mc.length = 12) : FQ12.zero p mc = .ok (obj (Fqp.zero : Fqp .ref p mc)) := by
  unfold FQ12.zero
  rw [init_ints_eq, if_neg (by simp [h])]
  simp [Fqp.zero, h]

/- non-vacuity of the hypotheses: the moduli of bn128 (`FQ2`: `[1, 0]`) -/
example : FQ2.one 7 [1, 0] = .ok (obj (Fqp.one : Fqp .ref 7 [1, 0])) := FQ2_one_eq rfl
example : FQP.add 7 [1, 0] (obj (⟨[1, 2]⟩ : Fqp .ref 7 [1, 0])) (obj (⟨[3, 6]⟩ : Fqp .ref 7 [1, 0])) =
    .ok (obj (Fqp.add (⟨[1, 2]⟩ : Fqp .ref 7 [1, 0]) ⟨[3, 6]⟩)) :=
  add_eq _ _ rfl rfl

end FqpRef

/-! ### optimized classes (`py_ecc/fields/optimized_field_elements.py`) -/

namespace FqpOpt
open Gen.ExtraFieldsFq.Opt Gen.ExtraFieldsFqp.Opt
variable {p : Nat} {mc : List Int}

/-- `mc_tuples` as the model's `optReduce` computes it -/
def mcTuples (mc : List Int) : List (Nat × Int) := (List.zip (List.range mc.length) mc).filter (fun ic => ic.2 ≠ 0)

/-- the generated object representing the model element `a` -/
def obj (a : Fqp .opt p mc) : FQP := ⟨mcTuples mc, a.coeffs, mc, mc.length⟩

/-- optimized `FQ2.__init__` / `FQ12.__init__` (with `FQP.__init__` inlined) on a sequence of ints: `Exception` unless
    the length is that of the modulus coefficients, otherwise the object of the model's `Fqp.ofInts` (with `mc_tuples`
    the non-zero modulus coefficients and their positions). -/
theorem init_ints_eq (cs : List Int) :
    FQPsub.init_ints p mc cs =
      if cs.length ≠ mc.length then .error PyErr.other else .ok (obj (Fqp.ofInts cs : Fqp .opt p mc)) := by
  unfold FQPsub.init_ints
  by_cases h : cs.length = mc.length
  · simp [h, obj, Fqp.ofInts, mcTuples]
    rfl
  · simp [h]
    rfl

/-- optimized `FQP.__add__` is `Fqp.add` (on well-formed operands). -/
theorem add_eq (a b : Fqp .opt p mc) (ha : a.coeffs.length = mc.length) (hb : b.coeffs.length = mc.length) :
    FQP.add p mc (obj a) (obj b) = .ok (obj (Fqp.add a b)) := by
  unfold FQP.add
  rw [init_ints_eq, if_neg (by simp [obj, ha, hb])]
  simp only [obj, Fqp.add, Fqp.ofInts, List.map_zipWith, Int.emod_emod]

/-- optimized `FQP.__sub__` is `Fqp.sub`. -/
theorem sub_eq (a b : Fqp .opt p mc) (ha : a.coeffs.length = mc.length) (hb : b.coeffs.length = mc.length) :
    FQP.sub p mc (obj a) (obj b) = .ok (obj (Fqp.sub a b)) := by
  unfold FQP.sub
  rw [init_ints_eq, if_neg (by simp [obj, ha, hb])]
  simp only [obj, Fqp.sub, Fqp.ofInts, List.map_zipWith, Int.emod_emod]

/-- optimized `FQP.__neg__` is `Fqp.neg`. -/
theorem neg_eq (a : Fqp .opt p mc) (ha : a.coeffs.length = mc.length) :
    FQP.neg p mc (obj a) = .ok (obj (Fqp.neg a)) := by
  unfold FQP.neg
  rw [init_ints_eq, if_neg (by simp [obj, ha])]
  simp only [obj, Fqp.neg]

/-- optimized `FQP.__mul__` with an `int` operand is `Fqp.mulInt`. -/
theorem mul_int_eq (a : Fqp .opt p mc) (k : Int) (ha : a.coeffs.length = mc.length) :
    FQP.mul_int p mc (obj a) k = .ok (obj (Fqp.mulInt a k)) := by
  unfold FQP.mul_int
  rw [init_ints_eq, if_neg (by simp [obj, ha])]
  simp only [obj, Fqp.mulInt, Fqp.ofInts, List.map_map, Function.comp_def, Int.emod_emod]

/-- optimized `FQP.__div__` with an `int` operand is `Fqp.divInt`. -/
theorem div_int_eq (a : Fqp .opt p mc) (k : Int) (ha : a.coeffs.length = mc.length) :
    FQP.div_int p mc (obj a) k = .ok (obj (Fqp.divInt a k)) := by
  unfold FQP.div_int
  rw [init_ints_eq, if_neg (by simp [obj, ha])]
  simp only [obj, Fqp.divInt, Fqp.ofInts, List.map_map, Function.comp_def, Int.emod_emod]

/-- optimized `FQP.__truediv__` delegates to `__div__`. -/
theorem truediv_int_eq (a : Fqp .opt p mc) (k : Int) (ha : a.coeffs.length = mc.length) :
    FQP.truediv_int p mc (obj a) k = .ok (obj (Fqp.divInt a k)) := by
  unfold FQP.truediv_int; exact div_int_eq a k ha

/-- optimized `FQP.__eq__` (early-return loop over `zip`) is `Fqp.beq`, for all operands. -/
theorem eq_eq (a b : Fqp .opt p mc) : FQP.eq p mc (obj a) (obj b) = Fqp.beq a b := by
  unfold FQP.eq Fqp.beq obj
  exact any_ne_eq_all _ _ (fun x => by simp)

/-- optimized `FQP.__ne__` is the negation of `__eq__`. -/
theorem ne_eq (a b : Fqp .opt p mc) : FQP.ne p mc (obj a) (obj b) = !Fqp.beq a b := by
  unfold FQP.ne; rw [eq_eq]; cases Fqp.beq a b <;> rfl

/-- `mod_int(x, n)` for an `int` is `x % n`. -/
theorem mod_int_int_eq (x n : Int) : mod_int_int x n = x % n := rfl

/-- `mod_int(x, n)` for an `FQ` object is `x.n % n`. -/
theorem mod_int_fq_eq {q : Nat} (a : Fq q) (n : Int) : mod_int_fq a.n n = (a.n : Int) % n := rfl

/-- optimized generic `FQP.sgn0` (the loop over the coefficients with Python's value-level `and` / `or`) is
    `Fqp.sgn0`, for every element.  (The step function of the generated fold is not restated here: it is read off the
    goal, and the step lemma is proved by cases on the state, so `sign = sign or (zero and sign_i)` and
    `if not sign: sign = zero and sign_i` are both fine.) -/
theorem sgn0_eq (a : Fqp .opt p mc) : FQP.sgn0 p mc (obj a) = ((Fqp.sgn0 a : Nat) : Int) := by
  unfold FQP.sgn0 Fqp.sgn0 obj
  refine (fields_foldl_rel
    (r := fun (g : Int × Int) (m : Nat × Bool) => g.1 = (m.1 : Int) ∧ g.2 = if m.2 then 1 else 0)
    (l := a.coeffs) (i₁ := (0, true)) (i₂ := ((0 : Int), (1 : Int))) (by simp) ?_).1
  rintro ⟨s2, z2⟩ ⟨s1, z1⟩ x ⟨h1, h2⟩
  simp only at h1 h2
  subst h1 h2
  have hx : ((x % 2).toNat : Int) = x % 2 := Int.toNat_of_nonneg (Int.emod_nonneg x (by decide))
  cases z1 <;> by_cases hs : s1 = 0 <;> by_cases hx0 : x = 0 <;> simp [hs, hx0, hx, mod_int_int]

/-- optimized `FQ2.sgn0` (the `m = 2` special case; unpacking `self.coeffs` into two names raises `ValueError` unless
    there are exactly two coefficients) is `Fqp.sgn0_fq2`. -/
theorem FQ2_sgn0_eq (a : Fqp .opt p mc) (ha : a.coeffs.length = 2) :
    FQ2.sgn0 p mc (obj a) = .ok ((Fqp.sgn0_fq2 a : Nat) : Int) := by
  obtain ⟨cs⟩ := a
  match cs, ha with
  | [x0, x1], _ =>
    have h0 : ((x0 % 2).toNat : Int) = x0 % 2 := Int.toNat_of_nonneg (Int.emod_nonneg x0 (by decide))
    have h1 : ((x1 % 2).toNat : Int) = x1 % 2 := Int.toNat_of_nonneg (Int.emod_nonneg x1 (by decide))
    have e0 : ((x0 % 2).toNat ≠ 0) ↔ (x0 % 2 ≠ 0) := by omega
    unfold FQ2.sgn0 Fqp.sgn0_fq2 obj
    simp only [mod_int_int, getI, List.getD_cons_zero, List.getD_cons_succ, e0, pure, Except.pure, beq_iff_eq]
    by_cases hs : x0 % 2 = 0 <;> by_cases hx0 : x0 = 0 <;> simp [hs, hx0, h0, h1]

/-- `FQ2.sgn0` raises `ValueError` when the object does not have exactly two coefficients. -/
theorem FQ2_sgn0_err (a : Fqp .opt p mc) (ha : a.coeffs.length ≠ 2) :
    FQ2.sgn0 p mc (obj a) = .error PyErr.value := by
  obtain ⟨cs⟩ := a
  unfold FQ2.sgn0 obj
  match cs, ha with
  | [], _ => rfl
  | [_], _ => rfl
  | [_, _], h => exact absurd rfl h
  | _ :: _ :: _ :: _, _ => rfl

/-- optimized `FQ2.one()` is the model's `1` (for a modulus with `FQ2.degree = 2` coefficients). -/
theorem FQ2_one_eq (h : mc.length = 2) : FQ2.one p mc = .ok (obj (Fqp.one : Fqp .opt p mc)) := by
  unfold FQ2.one
  rw [init_ints_eq, if_neg (by simp [h])]
  simp [Fqp.one, h]

/-- optimized `FQ2.zero()` is the model's `0`. -/
theorem FQ2_zero_eq (h : mc.length = 2) : FQ2.zero p mc = .ok (obj (Fqp.zero : Fqp .opt p mc)) := by
  unfold FQ2.zero
  rw [init_ints_eq, if_neg (by simp [h])]
  simp [Fqp.zero, h]

/-- optimized `FQ12.one()` is the model's `1` (for a modulus with `FQ12.degree = 12` coefficients). -/
theorem FQ12_one_eq (h : mc.length = 12) : FQ12.one p mc = .ok (obj (Fqp.one : Fqp .opt p mc)) := by
  unfold FQ12.one
  rw [init_ints_eq, if_neg (by simp [h])]
  simp [Fqp.one, h]

/-- optimized `FQ12.zero()` is the model's `0`. -/
theorem FQ12_zero_eq (h : mc.length = 12) : FQ12.zero p mc = .ok (obj (Fqp.zero : Fqp .opt p mc)) := by
  unfold FQ12.zero
  rw [init_ints_eq, if_neg (by simp [h])]
  simp [Fqp.zero, h]

/- non-vacuity of the hypotheses -/
example : FQ2.one 7 [1, 0] = .ok (obj (Fqp.one : Fqp .opt 7 [1, 0])) := FQ2_one_eq rfl
example : FQP.add 7 [1, 0] (obj (⟨[1, 2]⟩ : Fqp .opt 7 [1, 0])) (obj (⟨[3, 6]⟩ : Fqp .opt 7 [1, 0])) =
    .ok (obj (Fqp.add (⟨[1, 2]⟩ : Fqp .opt 7 [1, 0]) ⟨[3, 6]⟩)) :=
  add_eq _ _ rfl rfl
example : FQ2.sgn0 7 [1, 0] (obj (⟨[0, 3]⟩ : Fqp .opt 7 [1, 0])) = .ok ((Fqp.sgn0_fq2 (⟨[0, 3]⟩ : Fqp .opt 7 [1, 0]) : Nat) : Int) :=
  FQ2_sgn0_eq _ rfl

end FqpOpt

end PyEcc.Tie
