/-
  PyEcc.Props.C09_Gen — property C09 restated about the GENERATED code.

  `Gen/ExtraBls.lean` (every method of `BaseG2Ciphersuite`, `G2Basic`, `G2MessageAugmentation`,
  `G2ProofOfPossession` of `py_ecc/bls/ciphersuites.py`, the class attributes `DST` / `POP_TAG`, and one dispatcher per
  overridden method built from the method resolution order) is re-generated from the Python source on every run.
  Every theorem below is a headline theorem of `Props/C09.lean` in which each py_ecc function is the GENERATED
  definition (`PyEcc.Gen.ExtraBls.*`; in section 3 also `PyEcc.Gen.ExtraSwu.hash_to_G2`, `PyEcc.Gen.ExtraCodec.*`,
  `PyEcc.Gen.OptBls.multiply`), obtained by rewriting with the tie theorems (`Props/TieBls.lean`, `TieBlsAgg.lean`,
  `TieCodec.lean`, `TieSwu.lean`) and applying the model theorem.

  The specification side is `PyEcc.Spec.BlsSig`: draft-irtf-cfrg-bls-signature-04 written out step by step.
  The model theorems take the secret key as a dynamically typed Python argument `sk : PyArg` with the hypothesis
  `isValidPrivkey sk = some k`; by `C09.isValidPrivkey_iff` that hypothesis says exactly `sk = int k ∧ 0 < k < r`,
  which is how it is written here (same strength, no model function in the statement).
-/
import PyEcc.Props.C09
import PyEcc.Props.TieBlsAgg
import PyEcc.Props.TieCodec
import PyEcc.Props.TieSwu

set_option maxRecDepth 100000

namespace PyEcc.C09.Gen
open PyEcc PyEcc.Gen.Consts
open PyEcc.Spec.BlsSig (Result signature_to_point AggregateLoop)

/-! ## 1. constants and key validation -/

/-- **The suite tags in the current source are the draft's.**  The class attribute `DST` as each of `G2Basic`,
    `G2MessageAugmentation`, `G2ProofOfPossession` sees it, and `G2ProofOfPossession.POP_TAG`, are the draft's
    `BLS_SIG_BLS12381G2_XMD:SHA-256_SSWU_RO_{NUL,AUG,POP}_` and `BLS_POP_BLS12381G2_XMD:SHA-256_SSWU_RO_POP_`. -/
theorem DST_eq_spec :
    Gen.ExtraBls.DST .basic = Spec.BlsSig.DST_NUL ∧ Gen.ExtraBls.DST .aug = Spec.BlsSig.DST_AUG ∧
    Gen.ExtraBls.DST .pop = Spec.BlsSig.DST_POP ∧ Gen.ExtraBls.POP_TAG = Spec.BlsSig.POP_TAG := by
  simp only [Tie.Bls.DST_eq, Tie.Bls.POP_TAG_eq]; exact C09.dst_eq_spec

/-- **Generated `_is_valid_privkey(privkey)`** is `True` exactly for the Python ints `k` with `0 < k < r`, `r` the
    BLS12-381 group order of the draft. -/
theorem is_valid_privkey_iff (sk : PyArg) :
    Gen.ExtraBls._is_valid_privkey sk = true ↔
      ∃ k : Nat, sk = .int (k : Int) ∧ 0 < k ∧ k < Spec.BlsSig.r := by
  rw [Tie.Bls.is_valid_privkey_isSome, Option.isSome_iff_exists]
  exact exists_congr fun k => C09.isValidPrivkey_iff sk k

/-- for `0 < k < r` the model accepts the Python int `k` as the key `k` -/
private theorem valid_int {k : Nat} (hk : 0 < k) (hr : k < Spec.BlsSig.r) :
    isValidPrivkey (.int (k : Int)) = some k := (C09.isValidPrivkey_iff _ k).mpr ⟨rfl, hk, hr⟩

/-- a rejected argument is one on which the model returns `none` -/
private theorem invalid_none {sk : PyArg} (h : Gen.ExtraBls._is_valid_privkey sk = false) :
    isValidPrivkey sk = none := by
  rw [Tie.Bls.is_valid_privkey_isSome] at h
  cases ho : isValidPrivkey sk with
  | none => rfl
  | some k => rw [ho] at h; cases h

/-! ## 2. `SkToPk`, `Sign`, `PopProve`, `Aggregate` equal the draft's procedures -/

/-- **Generated `SkToPk(k)` is the draft's `SkToPk(SK) = point_to_pubkey(SK * P)`**, for every secret key
    `0 < k < r`: the same bytes (or the same exception of the serialisation primitive). -/
theorem SkToPk_eq_spec (k : Nat) (hk : 0 < k) (hr : k < Spec.BlsSig.r) :
    Gen.ExtraBls.SkToPk (.int (k : Int)) = Spec.BlsSig.SkToPk k := by
  rw [Tie.Bls.SkToPk_eq]; exact C09.skToPk_eq_spec _ k (valid_int hk hr)

example : (0 : Nat) < 1 ∧ 1 < Spec.BlsSig.r := by decide

/-- On every argument the generated `_is_valid_privkey` rejects (not an `int`, `≤ 0`, `≥ r`) the generated `SkToPk`
    raises `ValidationError`. -/
theorem SkToPk_invalid (sk : PyArg) (h : Gen.ExtraBls._is_valid_privkey sk = false) :
    Gen.ExtraBls.SkToPk sk = .error .validation := by
  rw [Tie.Bls.SkToPk_eq]; exact C09.skToPk_invalid sk (invalid_none h)

example : Gen.ExtraBls._is_valid_privkey (.int 0) = false := by decide +kernel

/-- **Generated `_CoreSign(SK, message, DST)`** on a valid key is the draft's
    `CoreSign(SK, message) = point_to_signature(SK * hash_to_point(message))` under that DST. -/
theorem CoreSign_eq_spec (H : HashFn) (k : Nat) (hk : 0 < k) (hr : k < Spec.BlsSig.r) (msg dst : Bytes) :
    Gen.ExtraBls._CoreSign H (.int (k : Int)) msg dst = Spec.BlsSig.CoreSign H dst k msg := by
  rw [Tie.Bls.CoreSign_eq]; exact C09.coreSign_eq_spec H _ k (valid_int hk hr) msg dst

/-- **Generated `G2Basic.Sign(SK, message)`** is §3.1 of the draft: `CoreSign` under the `…_NUL_` tag. -/
theorem Sign_basic_eq_spec (H : HashFn) (k : Nat) (hk : 0 < k) (hr : k < Spec.BlsSig.r) (msg : Bytes) :
    Gen.ExtraBls.Sign H .basic (.int (k : Int)) msg = Spec.BlsSig.Basic.Sign H k msg := by
  rw [Tie.Bls.Sign_eq]; exact C09.sign_basic_eq_spec H _ k (valid_int hk hr) msg

/-- **Generated `G2MessageAugmentation.Sign(SK, message)`** is §3.2.1 of the draft: `CoreSign(SK, PK ‖ message)`
    with `PK = SkToPk(SK)` (public key first, then the message) under the `…_AUG_` tag. -/
theorem Sign_aug_eq_spec (H : HashFn) (k : Nat) (hk : 0 < k) (hr : k < Spec.BlsSig.r) (msg : Bytes) :
    Gen.ExtraBls.Sign H .aug (.int (k : Int)) msg = Spec.BlsSig.Aug.Sign H k msg := by
  rw [Tie.Bls.Sign_eq]; exact C09.sign_aug_eq_spec H _ k (valid_int hk hr) msg

/-- **Generated `G2ProofOfPossession.Sign(SK, message)`** is §3.3 of the draft: `CoreSign` under the `…_POP_` tag. -/
theorem Sign_pop_eq_spec (H : HashFn) (k : Nat) (hk : 0 < k) (hr : k < Spec.BlsSig.r) (msg : Bytes) :
    Gen.ExtraBls.Sign H .pop (.int (k : Int)) msg = Spec.BlsSig.Pop.Sign H k msg := by
  rw [Tie.Bls.Sign_eq]; exact C09.sign_pop_eq_spec H _ k (valid_int hk hr) msg

/-- **Generated `Sign` of every suite**, for every hash function, valid key and message: the bytes returned (or the
    exception of a primitive) are those of the draft's `Sign` of that scheme (`C09.specSign`). -/
theorem Sign_eq_spec (H : HashFn) (s : Suite) (k : Nat) (hk : 0 < k) (hr : k < Spec.BlsSig.r) (msg : Bytes) :
    Gen.ExtraBls.Sign H s (.int (k : Int)) msg = C09.specSign H s k msg := by
  rw [Tie.Bls.Sign_eq]; exact C09.sign_eq_spec H s _ k (valid_int hk hr) msg

/-- On a rejected key every generated `Sign` raises `ValidationError`. -/
theorem Sign_invalid (H : HashFn) (s : Suite) (sk : PyArg)
    (h : Gen.ExtraBls._is_valid_privkey sk = false) (msg : Bytes) :
    Gen.ExtraBls.Sign H s sk msg = .error .validation := by
  rw [Tie.Bls.Sign_eq]; exact C09.sign_invalid H s sk (invalid_none h) msg

/-- **Generated `PopProve(SK)`** is §3.3.2 of the draft:
    `point_to_signature(SK * hash_pubkey_to_point(SkToPk(SK)))`, hashing under the `BLS_POP_…` tag. -/
theorem PopProve_eq_spec (H : HashFn) (k : Nat) (hk : 0 < k) (hr : k < Spec.BlsSig.r) :
    Gen.ExtraBls.PopProve H (.int (k : Int)) = Spec.BlsSig.PopProve H k := by
  rw [Tie.Bls.PopProve_eq]; exact C09.popProve_eq_spec H _ k (valid_int hk hr)

/-- **Generated `Aggregate(signatures)` against §2.8 of the draft**, for every list of byte strings.
    * Whenever the draft's procedure yields a value `r` (it reaches step 7), the generated function yields exactly `r`.
    * Whenever the draft's procedure is INVALID (`n < 1`, or some `signature_to_point` is INVALID) the generated
      function raises: `ValidationError` if the list is empty or any element is not 96 bytes long, otherwise
      `ValueError` (raised by `decompress_G2` on the first undecodable element). -/
theorem Aggregate_eq_spec (sigs : List Bytes) :
    (∀ r, Spec.BlsSig.Aggregate sigs = .ok r → Gen.ExtraBls.Aggregate sigs = r) ∧
    (Spec.BlsSig.Aggregate sigs = .INVALID →
      Gen.ExtraBls.Aggregate sigs =
        .error (if sigs.length < 1 ∨ sigs.all (·.length = 96) = false then .validation else .value)) := by
  rw [Tie.Bls.Aggregate_eq]; exact C09.aggregate_eq_spec sigs

/-- The generated `Aggregate` returns the bytes `b` iff the draft's `Aggregate` outputs `b`. -/
theorem Aggregate_ok_iff (sigs : List Bytes) (b : Bytes) :
    Gen.ExtraBls.Aggregate sigs = .ok b ↔ Spec.BlsSig.Aggregate sigs = .ok (.ok b) := by
  rw [Tie.Bls.Aggregate_eq]; exact C09.aggregate_ok_iff sigs b

/-- The generated `Aggregate` raises iff the draft's `Aggregate` is INVALID or its final `point_to_signature`
    raises (which the draft assumes cannot happen). -/
theorem Aggregate_error_iff (sigs : List Bytes) :
    (∃ e, Gen.ExtraBls.Aggregate sigs = .error e) ↔
      (Spec.BlsSig.Aggregate sigs = .INVALID ∨ ∃ e, Spec.BlsSig.Aggregate sigs = .ok (.error e)) := by
  rw [Tie.Bls.Aggregate_eq]; exact C09.aggregate_error_iff sigs

/-! ## 3. the outputs in terms of generated primitives only -/

/-- **The public key is the ZCash-compressed point `sk·G1`**: for `0 < k < r`, generated `SkToPk(k)` is the
    generated `G1_to_pubkey(multiply(G1, k))` (`G1` the standard generator: `C09.blsG1_eq_spec`). -/
theorem SkToPk_eq_compress (k : Nat) (hk : 0 < k) (hr : k < Spec.BlsSig.r) :
    Gen.ExtraBls.SkToPk (.int (k : Int)) =
      Gen.ExtraCodec.G1_to_pubkey (Gen.OptBls.multiply blsG1 k) := by
  rw [SkToPk_eq_spec k hk hr, Tie.G1_to_pubkey_eq]; rfl

/-- **A signature is the compressed point `sk·hash_to_curve(message, suite tag)`** (`G2Basic`, `G2ProofOfPossession`):
    for `0 < k < r`, generated `Sign(k, message)` hashes the message with the generated `hash_to_G2` under the
    class's `DST`, multiplies by `k` and serialises with the generated `G2_to_signature` (propagating the exception
    of `hash_to_G2`). -/
theorem Sign_eq_compress (H : HashFn) (s : Suite) (hs : s = .basic ∨ s = .pop) (k : Nat) (hk : 0 < k)
    (hr : k < Spec.BlsSig.r) (msg : Bytes) :
    Gen.ExtraBls.Sign H s (.int (k : Int)) msg =
      (Gen.ExtraSwu.hash_to_G2 msg (Gen.ExtraBls.DST s) H).bind fun Q =>
        Gen.ExtraCodec.G2_to_signature (Gen.OptBls.multiply Q k) := by
  simp only [Tie.hash_to_G2_eq, Tie.G2_to_signature_eq]
  rcases hs with rfl | rfl
  · rw [Sign_basic_eq_spec H k hk hr, DST_eq_spec.1]; rfl
  · rw [Sign_pop_eq_spec H k hk hr, DST_eq_spec.2.2.1]; rfl

example : Suite.basic = .basic ∨ Suite.basic = .pop := Or.inl rfl

/-- **Message augmentation signs `PK ‖ message`**: for `0 < k < r`, generated `G2MessageAugmentation.Sign(k, message)`
    computes `PK = SkToPk(k)` and returns the compressed point `k·hash_to_G2(PK ‖ message, DST_AUG)`. -/
theorem Sign_aug_eq_compress (H : HashFn) (k : Nat) (hk : 0 < k) (hr : k < Spec.BlsSig.r) (msg : Bytes) :
    Gen.ExtraBls.Sign H .aug (.int (k : Int)) msg =
      (Gen.ExtraBls.SkToPk (.int (k : Int))).bind fun PK =>
      (Gen.ExtraSwu.hash_to_G2 (PK ++ msg) (Gen.ExtraBls.DST .aug) H).bind fun Q =>
        Gen.ExtraCodec.G2_to_signature (Gen.OptBls.multiply Q k) := by
  simp only [Tie.hash_to_G2_eq, Tie.G2_to_signature_eq]
  rw [Sign_aug_eq_spec H k hk hr, SkToPk_eq_spec k hk hr, DST_eq_spec.2.1]; rfl

/-- **A possession proof signs the public key under the `BLS_POP_` tag**: for `0 < k < r`, generated `PopProve(k)`
    computes `PK = SkToPk(k)` and returns the compressed point `k·hash_to_G2(PK, POP_TAG)`. -/
theorem PopProve_eq_compress (H : HashFn) (k : Nat) (hk : 0 < k) (hr : k < Spec.BlsSig.r) :
    Gen.ExtraBls.PopProve H (.int (k : Int)) =
      (Gen.ExtraBls.SkToPk (.int (k : Int))).bind fun PK =>
      (Gen.ExtraSwu.hash_to_G2 PK Gen.ExtraBls.POP_TAG H).bind fun Q =>
        Gen.ExtraCodec.G2_to_signature (Gen.OptBls.multiply Q k) := by
  simp only [Tie.hash_to_G2_eq, Tie.G2_to_signature_eq]
  rw [PopProve_eq_spec H k hk hr, SkToPk_eq_spec k hk hr, DST_eq_spec.2.2.2]; rfl

/-! ## 4. kernel-evaluated anchors -/

/-- Generated `SkToPk(1)` is the well-known compressed G1 generator `97f1d3a7…c6bb`. -/
theorem SkToPk_one : Gen.ExtraBls.SkToPk (.int 1) = .ok C09.compressedG1 := by
  rw [Tie.Bls.SkToPk_eq]; exact C09.skToPk_one

/-- Generated `Aggregate` of the infinity signature `c0 00 … 00` with itself is the infinity signature (the `.ok`
    branch of `Aggregate_eq_spec` is inhabited), and the three INVALID cases with their exception kinds. -/
example :
    Gen.ExtraBls.Aggregate [C09.compressedInfG2, C09.compressedInfG2] = .ok C09.compressedInfG2 ∧
    Gen.ExtraBls.Aggregate [] = .error .validation ∧
    Gen.ExtraBls.Aggregate [C09.compressedInfG2, [0xc0]] = .error .validation ∧
    Gen.ExtraBls.Aggregate [C09.compressedInfG2, List.replicate 96 0] = .error .value := by
  simp only [Tie.Bls.Aggregate_eq]
  refine ⟨C09.ok_of_toOption (by decide +kernel), rfl, ?_, ?_⟩
  · exact (C09.aggregate_eq_spec _).2
      ((C09.spec_aggregate_invalid_iff _).2 (Or.inr ⟨[0xc0], by simp, by decide +kernel⟩))
  · exact (C09.aggregate_eq_spec _).2
      ((C09.spec_aggregate_invalid_iff _).2 (Or.inr ⟨List.replicate 96 0, by simp, by decide +kernel⟩))

end PyEcc.C09.Gen
