/-
  PyEcc.Props.C11 — property C11 for G1: `compress_G1` / `decompress_G1` (ZCash format) and the byte
  helpers `G1_to_pubkey` / `pubkey_to_G1` of `py_ecc/bls/point_compression.py`, `py_ecc/bls/g2_primitives.py`.

  Model: `PyEcc/Model/Codec.lean` (`compressG1`, `decompressG1`, `getFlags`, `g1ToPubkey`, `pubkeyToG1`).
  A G1 point is a projective triple `(X, Y, Z)` of `FQ` objects, `Z = 0` meaning infinity.
  Helper lemmas: `PyEcc/Sem/CodecSem.lean`, `PyEcc/Lemmas/Bytes.lean`, `PyEcc/Sem/FqZMod.lean`.
-/
import PyEcc.Sem.CodecSem
import PyEcc.Lemmas.Bytes
import Mathlib.Tactic.FieldSimp

set_option exponentiation.threshold 400

namespace PyEcc.C11
open PyEcc PyEcc.CodecSem PyEcc.BytesLem

/-! ### flag and byte-level facts -/

/-- `compress_G1(pt)` is always a 384-bit word, for every triple `pt` (on the curve or not). -/
theorem compress_lt (P : G1Pt) : compressG1 P < 2 ^ 384 := by
  by_cases h : P.2.2 = 0
  · rw [compressG1_inf h]; omega
  · rw [compressG1_fin h]
    exact (word_fields _ _ (lt_trans (Fq.lt _) blsP_lt) (flag_le_one (Fq.lt _))).2.2.2.2

/-- `get_flags(z)` reads bits 383, 382, 381 of `z` (and nothing else: bits ≥ 384 are ignored). -/
theorem getFlags_eq (z : ℕ) : getFlags z =
    (decide (z / 2 ^ 383 % 2 = 1), decide (z / 2 ^ 382 % 2 = 1), decide (z / 2 ^ 381 % 2 = 1)) := by
  unfold getFlags
  simp only [beq_eq_decide]

/-- The flags of `compress_G1(pt)`: `c_flag` is always set; `b_flag` is set exactly for infinity (`Z = 0`);
    `a_flag` is clear for infinity and otherwise says whether the affine `y = Y/Z` satisfies `2y ≥ p`,
    i.e. `y > (p-1)/2`. -/
theorem getFlags_compress (P : G1Pt) : getFlags (compressG1 P) =
    (true, Gen.OptBls.is_inf P,
      !Gen.OptBls.is_inf P && decide (blsP ≤ (Gen.OptBls.normalize P).2.n * 2)) := by
  rw [getFlags_eq]
  by_cases h : P.2.2 = 0
  · have hi : Gen.OptBls.is_inf P = true := by simp [Gen.OptBls.is_inf, h]
    rw [compressG1_inf h, hi]
    have h1 : (2 ^ 383 + 2 ^ 382) / 2 ^ 383 % 2 = 1 := by omega
    have h2 : (2 ^ 383 + 2 ^ 382) / 2 ^ 382 % 2 = 1 := by omega
    have h3 : (2 ^ 383 + 2 ^ 382) / 2 ^ 381 % 2 = 0 := by omega
    rw [h1, h2, h3]; rfl
  · have hi : Gen.OptBls.is_inf P = false := by simp [Gen.OptBls.is_inf, h]
    rw [compressG1_fin h, hi]
    obtain ⟨w1, w2, w3, _, _⟩ := word_fields (P.1 / P.2.2).n ((P.2.1 / P.2.2).n * 2 / blsP)
      (lt_trans (Fq.lt _) blsP_lt) (flag_le_one (Fq.lt _))
    rw [w1, w2, w3]
    have hf := flag_eq_one_iff (Fq.lt (P.2.1 / P.2.2))
    refine Prod.ext rfl (Prod.ext rfl ?_)
    show decide (_ = 1) = (!false && decide (blsP ≤ (P.2.1 / P.2.2).n * 2))
    rw [Bool.not_false, Bool.true_and]
    exact decide_eq_decide.mpr hf

/-- `G1_to_pubkey(pt)` never raises and returns exactly 48 bytes, whose big-endian value is `compress_G1(pt)`. -/
theorem g1ToPubkey_length (P : G1Pt) :
    ∃ bs, g1ToPubkey P = .ok bs ∧ bs.length = 48 ∧ os2ip bs = compressG1 P := by
  have h : compressG1 P < 256 ^ 48 := by
    have := compress_lt P
    have e : (256 : ℕ) ^ 48 = 2 ^ 384 := by decide
    omega
  exact ⟨toBytesBE 48 (compressG1 P), i2osp_ok h, toBytesBE_length _ _, os2ip_toBytesBE _ _ h⟩

/-- `pubkey_to_G1(G1_to_pubkey(pt))` is `decompress_G1(compress_G1(pt))`: the byte layer loses nothing. -/
theorem pubkeyToG1_g1ToPubkey (P : G1Pt) {bs : Bytes} (h : g1ToPubkey P = .ok bs) :
    pubkeyToG1 bs = decompressG1 (compressG1 P) := by
  unfold pubkeyToG1
  rw [os2ip_i2osp h]

/-- `decompress_G1(z)` looks only at the low 384 bits of `z`: adding any multiple of `2^384` changes
    nothing.  (`get_flags` masks single bits and `x = z % 2^381`.)  This is why canonicity
    (`compress_decompress_G1`) carries the guard `z < 2^384`; through `pubkey_to_G1` the guard is the
    48-byte length of the key. -/
theorem decompressG1_ignores_high_bits (z k : ℕ) : decompressG1 (z + k * 2 ^ 384) = decompressG1 z := by
  have h1 : (z + k * 2 ^ 384) / 2 ^ 383 % 2 = z / 2 ^ 383 % 2 := by omega
  have h2 : (z + k * 2 ^ 384) / 2 ^ 382 % 2 = z / 2 ^ 382 % 2 := by omega
  have h3 : (z + k * 2 ^ 384) / 2 ^ 381 % 2 = z / 2 ^ 381 % 2 := by omega
  have h4 : (z + k * 2 ^ 384) % 2 ^ 381 = z % 2 ^ 381 := by omega
  rw [decompressG1_eq, decompressG1_eq, decodedPt_eq, decodedPt_eq, h1, h2, h3, h4]

/-! ### error kind and accept set -/

/-- `decompress_G1` raises nothing but `ValueError`: every input is either decoded or rejected with
    `ValueError` (the function is total on Python ints `z ≥ 0`). -/
theorem decompress_G1_error_kind (z : ℕ) (e : PyErr) (h : decompressG1 z = .error e) : e = .value := by
  rw [decompressG1_eq] at h
  split_ifs at h <;> cases h <;> rfl

/-- **Accept set of `decompress_G1`.**  `decompress_G1(z)` returns a point iff either
    * flags `c = 1, b = 0` (any `a`), `x = z % 2^381` satisfies `0 < x < p`, and `x³ + 4` is a square mod `p`; or
    * flags `c = 1, b = 1, a = 0` and `z % 2^381 = 0` (the encoding of infinity).
    Everything else raises `ValueError` (`decompress_G1_error_kind`). -/
theorem decompress_G1_accepts_iff (z : ℕ) :
    (∃ P, decompressG1 z = .ok P) ↔
      ((∃ a, getFlags z = (true, false, a)) ∧ 0 < z % 2 ^ 381 ∧ z % 2 ^ 381 < blsP ∧
          ∃ y : ℕ, y * y % blsP = ((z % 2 ^ 381) ^ 3 + 4) % blsP)
      ∨ (getFlags z = (true, true, false) ∧ z % 2 ^ 381 = 0) := by
  rw [decompressG1_eq, getFlags_eq]
  simp only [Prod.mk.injEq, decide_eq_true_eq, decide_eq_false_iff_not, exists_and_left,
    ← sqrtCheck_iff_nat]
  have hb := Nat.mod_two_eq_zero_or_one (z / 2 ^ 382)
  have ha := Nat.mod_two_eq_zero_or_one (z / 2 ^ 381)
  split_ifs with h1 h2 h3 h4 h5 h6
  · -- infinity accepted
    exact ⟨fun _ => Or.inr ⟨⟨h1, h3.1, by omega⟩, h2⟩, fun _ => ⟨_, rfl⟩⟩
  · -- x = 0, wrong flags
    constructor
    · rintro ⟨P, hP⟩; cases hP
    · rintro (⟨_, h0, _⟩ | ⟨⟨_, hb1, ha1⟩, _⟩)
      · omega
      · exact absurd ⟨hb1, by omega⟩ h3
  · -- x ≠ 0, b = 1
    constructor
    · rintro ⟨P, hP⟩; cases hP
    · rintro (⟨⟨_, hb0, _⟩, _⟩ | ⟨_, h0⟩)
      · omega
      · exact absurd h0 h2
  · -- x ≥ p
    constructor
    · rintro ⟨P, hP⟩; cases hP
    · rintro (⟨_, _, hlt, _⟩ | ⟨_, h0⟩)
      · omega
      · exact absurd h0 h2
  · -- accepted finite point
    refine ⟨fun _ => Or.inl ⟨⟨h1, h4, ⟨_, rfl⟩⟩, by omega, by omega, h6⟩, fun _ => ⟨_, rfl⟩⟩
  · -- not a square
    constructor
    · rintro ⟨P, hP⟩; cases hP
    · rintro (⟨_, _, _, hs⟩ | ⟨_, h0⟩)
      · exact absurd hs h6
      · exact absurd h0 h2
  · -- c = 0
    constructor
    · rintro ⟨P, hP⟩; cases hP
    · rintro (⟨⟨hc, _⟩, _⟩ | ⟨⟨hc, _⟩, _⟩) <;> exact absurd hc h1

/-! ### canonicity: what decodes re-encodes to exactly the input -/

/-- **Canonicity.**  If a 384-bit word `z` is accepted by `decompress_G1`, the decoded point is on the
    curve `y² = x³ + 4` and `compress_G1` of it is `z` again: no two different 384-bit words decode to
    the same point, and nothing off the curve is ever returned.  The guard `z < 2^384` is needed
    because `decompress_G1` ignores higher bits (`decompressG1_ignores_high_bits`). -/
theorem compress_decompress_G1 (z : ℕ) (hz : z < 2 ^ 384) (P : G1Pt) (h : decompressG1 z = .ok P) :
    Gen.OptBls.is_on_curve P blsB = true ∧ compressG1 P = z := by
  rw [decompressG1_eq] at h
  split_ifs at h with h1 h2 h3 h4 h5 h6
  · -- infinity
    cases h
    refine ⟨(is_on_curve_iff Z1).mpr (Or.inl rfl), ?_⟩
    rw [compressG1_inf (P := Z1) rfl]
    exact (word_inf z hz h1 h3.1 h3.2 h2).symm
  · -- finite
    cases h
    rw [decodedPt_eq]
    have ha : z / 2 ^ 381 % 2 ≤ 1 := by omega
    have hxlt : z % 2 ^ 381 < blsP := by omega
    obtain ⟨hy0, hylt, hyf, hor⟩ := pickY_spec (rootOf (z % 2 ^ 381)) (z / 2 ^ 381 % 2) ha
      (rootOf_pos h6) (rootOf_lt _)
    have hs := (sqrtCheck_iff_sq _).mp h6
    have hysq : ((pickY (rootOf (z % 2 ^ 381)) (z / 2 ^ 381 % 2) : ℕ) : K) ^ 2
        = ((z % 2 ^ 381 : ℕ) : K) ^ 3 + 4 := by
      rw [← hs]
      rcases hor with e | e
      · rw [e]
      · rw [e, natCast_p_sub (le_of_lt (rootOf_lt _))]; ring
    constructor
    · apply (is_on_curve_iff _).mpr
      right
      show (Fq.toZMod (Fq.ofInt _)) ^ 2 * Fq.toZMod (Fq.ofInt 1) - (Fq.toZMod (Fq.ofInt _)) ^ 3
        = 4 * (Fq.toZMod (Fq.ofInt 1)) ^ 3
      rw [toZMod_ofInt_nat, toZMod_ofInt_nat, Fq.toZMod_ofInt, hysq]
      push_cast; ring
    · rw [compressG1_fin (show (Fq.ofInt 1 : F1) ≠ 0 from one_ne_zero_F1)]
      show ((Fq.ofInt _ : F1) / (1 : F1)).n + (((Fq.ofInt _ : F1) / (1 : F1)).n * 2 / blsP) * 2 ^ 381
        + 2 ^ 383 = z
      rw [div_one_F1, div_one_F1, n_ofInt_nat hxlt, n_ofInt_nat hylt, hyf]
      exact word_recompose z hz h1 (by omega)

/-- Byte-level canonicity: a **48-byte** string accepted by `pubkey_to_G1` is reproduced exactly by
    `G1_to_pubkey` of the decoded point (and that point is on the curve). -/
theorem g1ToPubkey_pubkeyToG1 (bs : Bytes) (hlen : bs.length = 48) (P : G1Pt) (h : pubkeyToG1 bs = .ok P) :
    Gen.OptBls.is_on_curve P blsB = true ∧ g1ToPubkey P = .ok bs := by
  unfold pubkeyToG1 at h
  have hlt : os2ip bs < 2 ^ 384 := by
    have := os2ip_lt bs
    rw [hlen] at this
    have e : (256 : ℕ) ^ 48 = 2 ^ 384 := by decide
    omega
  obtain ⟨hon, hc⟩ := compress_decompress_G1 _ hlt P h
  refine ⟨hon, ?_⟩
  unfold g1ToPubkey
  rw [hc, ← hlen]
  exact i2osp_os2ip bs

/-! ### round trip (all points except the two with affine `x = 0`), and K1 -/

/-- **Round trip, all on-curve points except the two with affine `x = 0`** (finding K1).
    For every projective representative `P = (X, Y, Z)` of a point of `y² = x³ + 4` over `F_p` that is
    infinity (`Z = 0`) or has `X ≠ 0` (equivalently affine `x = X/Z ≠ 0`):
    `decompress_G1(compress_G1(P))` succeeds and returns `Z1 = (1, 1, 0)` for infinity, otherwise the
    normalized representative `(X/Z, Y/Z, 1)`; in both cases `eq(result, P)` holds.

    Partial: the full-strength statement (every on-curve point) is FALSE for the library; the hypothesis
    `hx` excludes exactly the points with `Z ≠ 0 ∧ X = 0`, which by `x0_points_iff` are exactly the two
    affine points `(0, 2)` and `(0, p-2)`, and on those the round trip raises `ValueError`
    (`x0_roundtrip_fails`).  Nothing else is missing. -/
theorem decompress_compress_G1_partial (P : G1Pt) (hon : Gen.OptBls.is_on_curve P blsB = true)
    (hx : P.2.2 ≠ 0 → P.1 ≠ 0) :
    decompressG1 (compressG1 P) = .ok (if Gen.OptBls.is_inf P then Z1 else Gen.OptBls.normalize1 P) ∧
    Gen.OptBls.eq (if Gen.OptBls.is_inf P then Z1 else Gen.OptBls.normalize1 P) P = true := by
  by_cases hz : P.2.2 = 0
  · have hi : Gen.OptBls.is_inf P = true := by simp [Gen.OptBls.is_inf, hz]
    rw [hi, if_pos rfl, compressG1_inf hz, decompressG1_eq]
    have h1 : (2 ^ 383 + 2 ^ 382) / 2 ^ 383 % 2 = 1 := by omega
    have h2 : (2 ^ 383 + 2 ^ 382) / 2 ^ 382 % 2 = 1 := by omega
    have h3 : (2 ^ 383 + 2 ^ 382) / 2 ^ 381 % 2 = 0 := by omega
    have h4 : (2 ^ 383 + 2 ^ 382) % 2 ^ 381 = 0 := by omega
    rw [if_pos h1, if_pos h4, if_pos ⟨h2, h3⟩]
    refine ⟨rfl, ?_⟩
    simp [Gen.OptBls.eq, Gen.OptBls.is_inf, hz, Z1]
  · have hi : Gen.OptBls.is_inf P = false := by simp [Gen.OptBls.is_inf, hz]
    have hX := hx hz
    rw [hi]
    simp only [Bool.false_eq_true, if_false]
    -- the affine coordinates, in the model and in `ZMod p`
    obtain ⟨x, hxdef⟩ : ∃ x, x = P.1 / P.2.2 := ⟨_, rfl⟩
    obtain ⟨y, hydef⟩ : ∃ y, y = P.2.1 / P.2.2 := ⟨_, rfl⟩
    have hn1 : Gen.OptBls.normalize1 P = (x, y, 1) := by rw [hxdef, hydef]; rfl
    have hZ : Fq.toZMod P.2.2 ≠ 0 := fun h => hz ((toZMod_eq_zero_iff _).mp h)
    have hXK : Fq.toZMod P.1 ≠ 0 := fun h => hX ((toZMod_eq_zero_iff _).mp h)
    have hxK : Fq.toZMod x = Fq.toZMod P.1 / Fq.toZMod P.2.2 := by rw [hxdef, Fq.toZMod_div]
    have hyK : Fq.toZMod y = Fq.toZMod P.2.1 / Fq.toZMod P.2.2 := by rw [hydef, Fq.toZMod_div]
    have hcurve := ((is_on_curve_iff P).mp hon).resolve_left hz
    have hyy : (Fq.toZMod y) ^ 2 = (Fq.toZMod x) ^ 3 + 4 := by
      rw [hxK, hyK]; field_simp; linear_combination hcurve
    have hx0 : Fq.toZMod x ≠ 0 := by rw [hxK]; exact div_ne_zero hXK hZ
    have hy0K : Fq.toZMod y ≠ 0 := by
      intro h0; apply cube_add_four_ne_zero (Fq.toZMod x); rw [← hyy, h0]; ring
    have hxn : x.n ≠ 0 := fun h => hx0 ((toZMod_eq_zero_iff _).mpr ((n_eq_zero_iff _).mp h))
    have hyn : 0 < y.n := Nat.pos_of_ne_zero
      (fun h => hy0K ((toZMod_eq_zero_iff _).mpr ((n_eq_zero_iff _).mp h)))
    have hchk : sqrtCheck x.n := (sqrtCheck_iff _).mpr ⟨Fq.toZMod y, by
      rw [← pow_two, hyy]; rfl⟩
    -- the decoder finds `y` again
    have hpick : pickY (rootOf x.n) (y.n * 2 / blsP) = y.n := by
      obtain ⟨_, _, hyf, hor⟩ := pickY_spec (rootOf x.n) (y.n * 2 / blsP) (flag_le_one y.lt)
        (rootOf_pos hchk) (rootOf_lt _)
      have hs : ((rootOf x.n : ℕ) : K) ^ 2 = ((y.n : ℕ) : K) ^ 2 := by
        rw [(sqrtCheck_iff_sq _).mp hchk]; exact hyy.symm
      have hsy := nat_sq_eq_sq (rootOf_lt _) hyn y.lt hs
      apply flag_unique hyn y.lt _ hyf
      have := y.lt
      rcases hor with e | e <;> rcases hsy with e' | e' <;> rw [e, e'] <;> first | (left; rfl) | (right; rfl) | (left; omega)
    constructor
    · rw [compressG1_fin hz, ← hxdef, ← hydef, hn1]
      obtain ⟨w1, w2, w3, w4, _⟩ := word_fields x.n (y.n * 2 / blsP)
        (lt_trans x.lt blsP_lt) (flag_le_one y.lt)
      rw [decompressG1_eq, decodedPt_eq, w1, w2, w3, w4, if_pos rfl, if_neg hxn,
        if_neg (by decide), if_neg (not_le.mpr x.lt), if_pos hchk, hpick, ofInt_n, ofInt_n]
      rfl
    · rw [hn1]
      unfold Gen.OptBls.eq Gen.OptBls.is_inf
      simp only [hz, one_ne_zero_F1, decide_false, Bool.false_eq_true, or_self, if_false,
        decide_eq_true_eq]
      constructor <;> apply Fq.toZMod_injective <;>
        simp only [Fq.toZMod_mul, Fq.toZMod_one, hxK, hyK] <;> field_simp

/-- **K1, part 1: which points are excluded.**  For a finite triple (`Z ≠ 0`): it is on the curve and has
    `X = 0` (affine `x = 0`) iff its affine reading `normalize(P) = (X/Z, Y/Z)` is `(0, 2)` or `(0, p-2)`. -/
theorem x0_points_iff (P : G1Pt) (hz : P.2.2 ≠ 0) :
    (Gen.OptBls.is_on_curve P blsB = true ∧ P.1 = 0) ↔
      (Gen.OptBls.normalize P = ((0 : F1), Fq.ofInt 2) ∨
       Gen.OptBls.normalize P = ((0 : F1), Fq.ofInt ((blsP - 2 : ℕ) : ℤ))) := by
  have hZ : Fq.toZMod P.2.2 ≠ 0 := fun h => hz ((toZMod_eq_zero_iff _).mp h)
  have h2 : Fq.toZMod (Fq.ofInt 2 : F1) = 2 := by rw [Fq.toZMod_ofInt]; norm_num
  have hm2 : Fq.toZMod (Fq.ofInt ((blsP - 2 : ℕ) : ℤ) : F1) = -2 := by
    rw [toZMod_ofInt_nat, natCast_p_sub (by decide)]; norm_num
  have hnorm : ∀ v : F1, Gen.OptBls.normalize P = ((0 : F1), v) ↔
      (Fq.toZMod P.1 = 0 ∧ Fq.toZMod P.2.1 = Fq.toZMod v * Fq.toZMod P.2.2) := by
    intro v
    unfold Gen.OptBls.normalize
    rw [Prod.mk.injEq, ← Fq.toZMod_inj, ← Fq.toZMod_inj, Fq.toZMod_div, Fq.toZMod_div, Fq.toZMod_zero,
      div_eq_zero_iff, div_eq_iff hZ]
    simp only [hZ, or_false]
  rw [hnorm, hnorm, h2, hm2, is_on_curve_iff]
  constructor
  · rintro ⟨hc, hX⟩
    have hcurve := hc.resolve_left hz
    rw [hX, Fq.toZMod_zero] at hcurve
    have hYZ : (Fq.toZMod P.2.1) ^ 2 = 4 * (Fq.toZMod P.2.2) ^ 2 := by
      apply mul_left_cancel₀ hZ; linear_combination hcurve
    have hy : (Fq.toZMod P.2.1 / Fq.toZMod P.2.2) ^ 2 = 4 := by
      rw [div_pow, hYZ]; field_simp
    rcases (sq_eq_four_iff _).mp hy with e | e
    · left; exact ⟨by rw [hX, Fq.toZMod_zero], by rw [← e]; field_simp⟩
    · right; exact ⟨by rw [hX, Fq.toZMod_zero], by rw [← e]; field_simp⟩
  · rintro (⟨hX, hY⟩ | ⟨hX, hY⟩)
    · exact ⟨Or.inr (by rw [hX, hY]; ring), (toZMod_eq_zero_iff _).mp hX⟩
    · exact ⟨Or.inr (by rw [hX, hY]; ring), (toZMod_eq_zero_iff _).mp hX⟩

/-- **K1, part 2: the round trip fails there.**  For every finite triple with `X = 0` — in particular for
    every representative of the two curve points `(0, 2)`, `(0, p-2)` — `compress_G1` emits a word with
    `b_flag = 0` and `x = 0`, which `decompress_G1` rejects with `ValueError("b_flag should be 1")`.
    (The ZCash format decodes these two words; py_ecc does not.  Both points have order 3 and lie outside
    the prime-order subgroup.) -/
theorem x0_roundtrip_fails (P : G1Pt) (hz : P.2.2 ≠ 0) (hX : P.1 = 0) :
    decompressG1 (compressG1 P) = .error .value := by
  rw [compressG1_fin hz, hX, zero_div_F1]
  obtain ⟨w1, w2, _, w4, _⟩ := word_fields (0 : F1).n ((P.2.1 / P.2.2).n * 2 / blsP)
    (lt_trans (Fq.lt _) blsP_lt) (flag_le_one (Fq.lt _))
  have h0 : (0 : F1).n = 0 := rfl
  rw [decompressG1_eq, w1, w2, w4, if_pos rfl, if_pos h0, if_neg (by simp)]

/-! ### non-vacuity -/

set_option maxRecDepth 100000 in
/-- the generator satisfies the hypotheses of the round-trip theorem -/
example : Gen.OptBls.is_on_curve blsG1 blsB = true ∧ (blsG1.2.2 ≠ 0 → blsG1.1 ≠ 0) := by decide +kernel

set_option maxRecDepth 100000 in
/-- so does a non-normalized representative (`Z = 2`) of `2·G1`, and infinity -/
example : Gen.OptBls.is_on_curve (Gen.OptBls.double blsG1) blsB = true ∧
    ((Gen.OptBls.double blsG1).2.2 ≠ 1) ∧
    ((Gen.OptBls.double blsG1).2.2 ≠ 0 → (Gen.OptBls.double blsG1).1 ≠ 0) ∧
    Gen.OptBls.is_on_curve Z1 blsB = true ∧ (Z1.2.2 ≠ 0 → Z1.1 ≠ 0) := by decide +kernel

/-- a word satisfying the hypotheses of the canonicity theorem (the encoding of the generator) -/
example : compressG1 blsG1 < 2 ^ 384 ∧ ∃ P, decompressG1 (compressG1 blsG1) = .ok P :=
  ⟨compress_lt _, _, (decompress_compress_G1_partial blsG1 (by decide +kernel) (by decide +kernel)).1⟩

set_option maxRecDepth 100000 in
/-- the two excluded points are on the curve, finite, with `X = 0` (hypotheses of `x0_roundtrip_fails`
    and left side of `x0_points_iff`) -/
example :
    let A : G1Pt := ((0 : F1), Fq.ofInt 2, (1 : F1))
    let B : G1Pt := ((0 : F1), Fq.ofInt ((blsP - 2 : ℕ) : ℤ), (1 : F1))
    (Gen.OptBls.is_on_curve A blsB = true ∧ A.2.2 ≠ 0 ∧ A.1 = 0) ∧
    (Gen.OptBls.is_on_curve B blsB = true ∧ B.2.2 ≠ 0 ∧ B.1 = 0) ∧ A ≠ B := by decide +kernel

end PyEcc.C11
