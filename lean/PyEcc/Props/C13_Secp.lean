/-
  PyEcc.Props.C13_Secp — property C13 (secp256k1 part): the Jacobian formulas of
  `py_ecc/secp256k1/secp256k1.py` (`jacobian_double`, `jacobian_add`, `from_jacobian`), as GENERATED into
  `PyEcc.Gen.Secp` on Python ints with explicit `% P`, compute the affine chord/tangent law on
  `(x/z², y/z³)` in `ZMod P`, on every control path, for arbitrary representatives.

  Statements are at coordinate level (`z' ≠ 0 ∧ x'/z'² = X₃ ∧ y'/z'³ = Y₃`): the Python code uses the raw int
  `y = 0` as identity marker, so marker-level refinement (against Mathlib's group) lives in C18.
  `A` is never unfolded (the theorems hold for the generated `A`, whatever its value); of `P` only
  "`P` is the proved prime `secp256k1_P`" and `2 ≠ 0` are used.
-/
import PyEcc.Sem.SecpSem

namespace PyEcc.C13.Secp
open PyEcc.Gen.Consts PyEcc.SecpSem
open PyEcc.Gen.Secp (jacobian_double jacobian_add from_jacobian to_jacobian A P)

/-! ### `jacobian_double` -/

/-- `jacobian_double` on a triple whose `y` is the int `0` (the identity marker; Python tests `not p[1]`)
returns the degenerate triple `(0, 0, 0)`. -/
theorem jacobian_double_identity (p : ℤ × ℤ × ℤ) (hy : p.2.1 = 0) : jacobian_double p = (0, 0, 0) := by
  simp [jacobian_double, hy]

/-- On the non-identity path (`y` is not the int `0`) `jacobian_double` returns reduced residues and
`z' ≡ 2·y·z (mod P)`. -/
theorem jacobian_double_z (x y z : ℤ) (hy0 : y ≠ 0) :
    ((jacobian_double (x, y, z)).2.2 : Fp) = 2 * (y : Fp) * (z : Fp) ∧ Reduced (jacobian_double (x, y, z)) := by
  simp only [jacobian_double, hy0, if_false]
  refine ⟨by push_cast [cast_mod_P]; ring, ⟨mod_nonneg _, mod_lt _⟩, ⟨mod_nonneg _, mod_lt _⟩, ⟨mod_nonneg _, mod_lt _⟩⟩

/-- **Tangent law.** For a Jacobian triple `(x, y, z)` of Python ints with `y ≢ 0` and `z ≢ 0 (mod P)`,
`jacobian_double` returns `(x', y', z')` with `z' ≢ 0` and `(x'/z'², y'/z'³)` equal to the affine doubling of
`(X, Y) = (x/z², y/z³)` with tangent slope `m = (3X² + A)/(2Y)`: `X₃ = m² − 2X`, `Y₃ = m(X − X₃) − Y`. -/
theorem jacobian_double_coord (x y z : ℤ) (hy : (y : Fp) ≠ 0) (hz : (z : Fp) ≠ 0) :
    let T := jacobian_double (x, y, z)
    let X := affX (x, y, z)
    let Y := affY (x, y, z)
    let m := (3 * X ^ 2 + (A : Fp)) / (2 * Y)
    (T.2.2 : Fp) ≠ 0 ∧ affX T = m ^ 2 - 2 * X ∧ affY T = m * (X - (m ^ 2 - 2 * X)) - Y := by
  have hy0 : y ≠ 0 := by rintro rfl; exact hy (by simp)
  simp only [jacobian_double, hy0, if_false, affX, affY]
  push_cast [cast_mod_P]
  have h2 := fp_two_ne_zero
  have h2yz : (2 : Fp) * (y : Fp) * (z : Fp) ≠ 0 := mul_ne_zero (mul_ne_zero h2 hy) hz
  refine ⟨h2yz, ?_, ?_⟩
  · field_simp
    ring
  · field_simp
    ring

example : ((Gen.Secp.Gy : ℤ) : Fp) ≠ 0 ∧ ((1 : ℤ) : Fp) ≠ 0 := by
  constructor
  · intro h; exact absurd ((cast_eq_zero_iff _).mp h) (by decide)
  · simp

/-- The honest corner: if `y` is a NON-ZERO int multiple of `P` (so `y ≡ 0` but Python's `not p[1]` is false),
`jacobian_double` does not return the marker `(0,0,0)` but `(M², −M³, 0)` (mod `P`) with `M = 3x² + A·z⁴`:
`z' = 0` exactly, while `y'` is in general non-zero. (Unreachable from reduced inputs.) -/
theorem jacobian_double_y_multiple (x y z : ℤ) (hy0 : y ≠ 0) (hy : (y : Fp) = 0) :
    let T := jacobian_double (x, y, z)
    let M : Fp := 3 * (x : Fp) ^ 2 + (A : Fp) * (z : Fp) ^ 4
    T.2.2 = 0 ∧ (T.1 : Fp) = M ^ 2 ∧ (T.2.1 : Fp) = - M ^ 3 := by
  simp only [jacobian_double, hy0, if_false]
  refine ⟨?_, ?_, ?_⟩
  · apply eq_zero_of_cast_eq_zero (mod_nonneg _) (mod_lt _)
    push_cast [cast_mod_P]; rw [hy]; ring
  · push_cast [cast_mod_P]; rw [hy]; ring
  · push_cast [cast_mod_P]; rw [hy]; ring

example : (Gen.Secp.P : ℤ) ≠ 0 ∧ ((Gen.Secp.P : ℤ) : Fp) = 0 := ⟨by decide, cast_P⟩


/-! ### `jacobian_add` -/

/-- `jacobian_add p q` returns `q` unchanged when `p` carries the identity marker (`p.y` is the int `0`). -/
theorem jacobian_add_left_identity (p q : ℤ × ℤ × ℤ) (hp : p.2.1 = 0) : jacobian_add p q = q := by
  simp [jacobian_add, hp]

/-- `jacobian_add p q` returns `p` unchanged when `q` carries the identity marker and `p` does not. -/
theorem jacobian_add_right_identity (p q : ℤ × ℤ × ℤ) (hp : p.2.1 ≠ 0) (hq : q.2.1 = 0) :
    jacobian_add p q = p := by
  simp [jacobian_add, hp, hq]

/-- **Chord law.** For two triples without identity marker whose `U1 = x₁z₂²`, `U2 = x₂z₁²` differ mod `P`,
`jacobian_add` returns reduced `(x', y', z')` with `z' ≡ (U2 − U1)·z₁·z₂`; and when `z₁, z₂ ≢ 0` then `z' ≢ 0`,
`X₁ ≠ X₂` and `(x'/z'², y'/z'³)` is the affine chord addition of `(X₁,Y₁)`, `(X₂,Y₂)` with slope
`m = (Y₂ − Y₁)/(X₂ − X₁)`: `X₃ = m² − X₁ − X₂`, `Y₃ = m(X₁ − X₃) − Y₁`. -/
theorem jacobian_add_chord_coord (x1 y1 z1 x2 y2 z2 : ℤ) (hy1 : y1 ≠ 0) (hy2 : y2 ≠ 0)
    (hU : (x1 : Fp) * (z2 : Fp) ^ 2 ≠ (x2 : Fp) * (z1 : Fp) ^ 2) :
    let T := jacobian_add (x1, y1, z1) (x2, y2, z2)
    let X1 := affX (x1, y1, z1)
    let Y1 := affY (x1, y1, z1)
    let X2 := affX (x2, y2, z2)
    let Y2 := affY (x2, y2, z2)
    let m := (Y2 - Y1) / (X2 - X1)
    Reduced T ∧
    (T.2.2 : Fp) = ((x2 : Fp) * (z1 : Fp) ^ 2 - (x1 : Fp) * (z2 : Fp) ^ 2) * (z1 : Fp) * (z2 : Fp) ∧
    ((z1 : Fp) ≠ 0 → (z2 : Fp) ≠ 0 →
      X1 ≠ X2 ∧ (T.2.2 : Fp) ≠ 0 ∧ affX T = m ^ 2 - X1 - X2 ∧ affY T = m * (X1 - (m ^ 2 - X1 - X2)) - Y1) := by
  have hU' : ¬ (x1 * z2 ^ 2 % P = x2 * z1 ^ 2 % P) := by
    rw [mod_eq_iff]; push_cast; exact hU
  simp only [jacobian_add, hy1, hy2, hU', if_false, affX, affY]
  refine ⟨⟨⟨mod_nonneg _, mod_lt _⟩, ⟨mod_nonneg _, mod_lt _⟩, ⟨mod_nonneg _, mod_lt _⟩⟩, ?_, ?_⟩
  · push_cast [cast_mod_P]; ring
  · intro hz1 hz2
    have hX : (x1 : Fp) / (z1 : Fp) ^ 2 ≠ (x2 : Fp) / (z2 : Fp) ^ 2 := by
      intro h; exact hU ((U_eq_iff x1 y1 z1 x2 y2 z2 hz1 hz2).mpr h)
    have hH : (x2 : Fp) * (z1 : Fp) ^ 2 - (x1 : Fp) * (z2 : Fp) ^ 2 ≠ 0 := sub_ne_zero.mpr (Ne.symm hU)
    have hd : (x2 : Fp) / (z2 : Fp) ^ 2 - (x1 : Fp) / (z1 : Fp) ^ 2 ≠ 0 := sub_ne_zero.mpr (Ne.symm hX)
    have hm : ((y2 : Fp) / (z2 : Fp) ^ 3 - (y1 : Fp) / (z1 : Fp) ^ 3) /
          ((x2 : Fp) / (z2 : Fp) ^ 2 - (x1 : Fp) / (z1 : Fp) ^ 2) =
        ((y2 : Fp) * (z1 : Fp) ^ 3 - (y1 : Fp) * (z2 : Fp) ^ 3) /
          (((x2 : Fp) * (z1 : Fp) ^ 2 - (x1 : Fp) * (z2 : Fp) ^ 2) * (z1 : Fp) * (z2 : Fp)) := by
      rw [div_eq_div_iff hd (mul_ne_zero (mul_ne_zero hH hz1) hz2)]
      field_simp
    refine ⟨hX, ?_, ?_, ?_⟩
    · push_cast [cast_mod_P]
      exact mul_ne_zero (mul_ne_zero (by simpa using hH) hz1) hz2
    · rw [hm]
      push_cast [cast_mod_P]
      generalize hHdef : ((x2 : Fp) * (z1 : Fp) ^ 2 - (x1 : Fp) * (z2 : Fp) ^ 2) = H at hH ⊢
      field_simp
      subst hHdef
      ring
    · rw [hm]
      push_cast [cast_mod_P]
      generalize hHdef : ((x2 : Fp) * (z1 : Fp) ^ 2 - (x1 : Fp) * (z2 : Fp) ^ 2) = H at hH ⊢
      field_simp
      subst hHdef
      ring

example : ((1 : ℤ) : Fp) * ((1 : ℤ) : Fp) ^ 2 ≠ ((2 : ℤ) : Fp) * ((1 : ℤ) : Fp) ^ 2 := by
  intro h; exact absurd ((cast_eq_iff (1 * 1 ^ 2) (2 * 1 ^ 2)).mp (by push_cast; exact h)) (by decide)

/-- **Inverse operands.** Two triples without identity marker with `U1 ≡ U2` and `S1 ≢ S2 (mod P)`
(for `z₁, z₂ ≢ 0`: same affine `x`, different affine `y`) add to the identity triple `(0, 0, 1)`. -/
theorem jacobian_add_inverse (x1 y1 z1 x2 y2 z2 : ℤ) (hy1 : y1 ≠ 0) (hy2 : y2 ≠ 0)
    (hU : (x1 : Fp) * (z2 : Fp) ^ 2 = (x2 : Fp) * (z1 : Fp) ^ 2)
    (hS : (y1 : Fp) * (z2 : Fp) ^ 3 ≠ (y2 : Fp) * (z1 : Fp) ^ 3) :
    jacobian_add (x1, y1, z1) (x2, y2, z2) = (0, 0, 1) := by
  have hU' : x1 * z2 ^ 2 % P = x2 * z1 ^ 2 % P := by
    rw [mod_eq_iff]; push_cast; exact hU
  have hS' : ¬ (y1 * z2 ^ 3 % P = y2 * z1 ^ 3 % P) := by
    rw [mod_eq_iff]; push_cast; exact hS
  simp [jacobian_add, hy1, hy2, hU', hS']

/-- **Equal operands.** Two triples without identity marker with `U1 ≡ U2` and `S1 ≡ S2 (mod P)`
(for `z₁, z₂ ≢ 0`: the same affine point) are added by `jacobian_double` of the first. -/
theorem jacobian_add_double (x1 y1 z1 x2 y2 z2 : ℤ) (hy1 : y1 ≠ 0) (hy2 : y2 ≠ 0)
    (hU : (x1 : Fp) * (z2 : Fp) ^ 2 = (x2 : Fp) * (z1 : Fp) ^ 2)
    (hS : (y1 : Fp) * (z2 : Fp) ^ 3 = (y2 : Fp) * (z1 : Fp) ^ 3) :
    jacobian_add (x1, y1, z1) (x2, y2, z2) = jacobian_double (x1, y1, z1) := by
  have hU' : x1 * z2 ^ 2 % P = x2 * z1 ^ 2 % P := by
    rw [mod_eq_iff]; push_cast; exact hU
  have hS' : y1 * z2 ^ 3 % P = y2 * z1 ^ 3 % P := by
    rw [mod_eq_iff]; push_cast; exact hS
  simp [jacobian_add, hy1, hy2, hU', hS']

/-- **`jacobian_add`, all paths, in affine terms.** For triples `p = (x₁,y₁,z₁)`, `q = (x₂,y₂,z₂)` of Python ints
with `z₁, z₂ ≢ 0 (mod P)` and affine readings `(Xᵢ, Yᵢ) = (xᵢ/zᵢ², yᵢ/zᵢ³)`:
* `y₁ = 0` (int) → result is `q`; `y₁ ≠ 0`, `y₂ = 0` → result is `p`;
* otherwise, `X₁ ≠ X₂` → chord law (with `z' ≢ 0`); `X₁ = X₂ ∧ Y₁ ≠ Y₂` → `(0,0,1)`;
  `X₁ = X₂ ∧ Y₁ = Y₂` → `jacobian_double p` (whose affine reading is given by `jacobian_double_coord`). -/
theorem jacobian_add_coord (x1 y1 z1 x2 y2 z2 : ℤ) (hz1 : (z1 : Fp) ≠ 0) (hz2 : (z2 : Fp) ≠ 0) :
    let p := (x1, y1, z1)
    let q := (x2, y2, z2)
    let T := jacobian_add p q
    let X1 := affX p
    let Y1 := affY p
    let X2 := affX q
    let Y2 := affY q
    let m := (Y2 - Y1) / (X2 - X1)
    (y1 = 0 → T = q) ∧ (y1 ≠ 0 → y2 = 0 → T = p) ∧
    (y1 ≠ 0 → y2 ≠ 0 → X1 ≠ X2 →
      (T.2.2 : Fp) ≠ 0 ∧ affX T = m ^ 2 - X1 - X2 ∧ affY T = m * (X1 - (m ^ 2 - X1 - X2)) - Y1) ∧
    (y1 ≠ 0 → y2 ≠ 0 → X1 = X2 → Y1 ≠ Y2 → T = (0, 0, 1)) ∧
    (y1 ≠ 0 → y2 ≠ 0 → X1 = X2 → Y1 = Y2 → T = jacobian_double p) := by
  refine ⟨fun h => jacobian_add_left_identity _ _ h, fun h h' => jacobian_add_right_identity _ _ h h',
    ?_, ?_, ?_⟩
  · intro hy1 hy2 hX
    have hU : (x1 : Fp) * (z2 : Fp) ^ 2 ≠ (x2 : Fp) * (z1 : Fp) ^ 2 :=
      fun h => hX ((U_eq_iff x1 y1 z1 x2 y2 z2 hz1 hz2).mp h)
    exact ((jacobian_add_chord_coord x1 y1 z1 x2 y2 z2 hy1 hy2 hU).2.2 hz1 hz2).2
  · intro hy1 hy2 hX hY
    exact jacobian_add_inverse x1 y1 z1 x2 y2 z2 hy1 hy2 ((U_eq_iff x1 y1 z1 x2 y2 z2 hz1 hz2).mpr hX)
      (fun h => hY ((S_eq_iff x1 y1 z1 x2 y2 z2 hz1 hz2).mp h))
  · intro hy1 hy2 hX hY
    exact jacobian_add_double x1 y1 z1 x2 y2 z2 hy1 hy2 ((U_eq_iff x1 y1 z1 x2 y2 z2 hz1 hz2).mpr hX)
      ((S_eq_iff x1 y1 z1 x2 y2 z2 hz1 hz2).mpr hY)


/-! ### `from_jacobian` -/

/-- `from_jacobian` of a triple whose `z` is the int `0` is the affine identity marker `(0, 0)`
(because `inv(0, P) = 0`). -/
theorem from_jacobian_z_zero (x y : ℤ) : from_jacobian (x, y, 0) = (0, 0) := by
  simp [from_jacobian, inv_zero]

/-- **`from_jacobian`.** Given the correctness of `inv` (`InvSpec`), for `z ≢ 0 (mod P)` (or `z` the int `0`)
`from_jacobian (x, y, z)` is the pair of canonical residues in `[0, P)` of `x/z²` and `y/z³` computed in `ZMod P`. -/
theorem from_jacobian_coord (hinv : InvSpec) (x y z : ℤ) (hz : z = 0 ∨ (z : Fp) ≠ 0) :
    from_jacobian (x, y, z) = (((affX (x, y, z)).val : ℤ), ((affY (x, y, z)).val : ℤ)) := by
  have hi := hinv.general z hz
  simp only [from_jacobian, affX, affY]
  have e1 : (x : Fp) / (z : Fp) ^ 2 = ((x * (Gen.Secp.inv z P) ^ 2 : ℤ) : Fp) := by
    push_cast; rw [hi]; field_simp
  have e2 : (y : Fp) / (z : Fp) ^ 3 = ((y * (Gen.Secp.inv z P) ^ 3 : ℤ) : Fp) := by
    push_cast; rw [hi]; field_simp
  rw [e1, e2, val_cast, val_cast]

/-- The honest corner: for `z` a NON-ZERO int multiple of `P`, `inv(z, P)` is `1` (not `0`) and `from_jacobian`
returns `(x % P, y % P)` rather than `(0, 0)`. (Unreachable: every `z` produced by the library is reduced.) -/
theorem from_jacobian_z_multiple (x y z : ℤ) (hz0 : z ≠ 0) (hz : (z : Fp) = 0) :
    from_jacobian (x, y, z) = (x % P, y % P) := by
  have h1 : Gen.Secp.inv z P = 1 := by
    unfold Gen.Secp.inv
    rw [if_neg hz0, (cast_eq_zero_iff z).mp hz]
    rfl
  simp [from_jacobian, h1]

/-- the output of `from_jacobian` is always a pair of reduced residues -/
theorem from_jacobian_reduced (T : ℤ × ℤ × ℤ) :
    (0 ≤ (from_jacobian T).1 ∧ (from_jacobian T).1 < P) ∧ (0 ≤ (from_jacobian T).2 ∧ (from_jacobian T).2 < P) :=
  ⟨⟨mod_nonneg _, mod_lt _⟩, ⟨mod_nonneg _, mod_lt _⟩⟩

/-! ### representative independence -/

/-- **`from_jacobian` is independent of the representative**: rescaled triples (scale `l ≢ 0`) have the same
`from_jacobian`. -/
theorem from_jacobian_scale (hinv : InvSpec) {l : Fp} (hl : l ≠ 0) {p p' : ℤ × ℤ × ℤ} (h : Scaled l p p')
    (hz : ZOk p) (hz' : ZOk p') : from_jacobian p' = from_jacobian p := by
  obtain ⟨x, y, z⟩ := p
  obtain ⟨x', y', z'⟩ := p'
  obtain ⟨hx, hy, hzz, _⟩ := h
  simp only at hx hy hzz
  simp only [ZOk] at hz hz'
  by_cases h0 : (z : Fp) = 0
  · have hz0 : z = 0 := hz.resolve_right (not_not.mpr h0)
    have h0' : (z' : Fp) = 0 := by rw [hzz, h0, mul_zero]
    have hz0' : z' = 0 := hz'.resolve_right (not_not.mpr h0')
    subst hz0 hz0'
    rw [from_jacobian_z_zero, from_jacobian_z_zero]
  · have h0' : (z' : Fp) ≠ 0 := by rw [hzz]; exact mul_ne_zero hl h0
    rw [from_jacobian_coord hinv x y z (Or.inr h0), from_jacobian_coord hinv x' y' z' (Or.inr h0')]
    have ex : affX (x', y', z') = affX (x, y, z) := by
      simp only [affX, hx, hzz]; field_simp
    have ey : affY (x', y', z') = affY (x, y, z) := by
      simp only [affY, hy, hzz]; field_simp
    rw [ex, ey]

/-- **`jacobian_double` commutes with rescaling**: if `p'` is `p` rescaled by `l ≢ 0` then
`jacobian_double p'` is `jacobian_double p` rescaled by `l⁴` (all paths, no condition on `z`). -/
theorem jacobian_double_scaled {l : Fp} (hl : l ≠ 0) {p p' : ℤ × ℤ × ℤ} (h : Scaled l p p') :
    Scaled (l ^ 4) (jacobian_double p) (jacobian_double p') := by
  obtain ⟨x, y, z⟩ := p
  obtain ⟨x', y', z'⟩ := p'
  obtain ⟨hx, hy, hz, hm⟩ := h
  simp only at hx hy hz hm
  by_cases hy0 : y = 0
  · have hy0' : y' = 0 := hm.mpr hy0
    rw [jacobian_double_identity _ hy0, jacobian_double_identity _ hy0']
    exact ⟨by simp, by simp, by simp, Iff.rfl⟩
  · have hy0' : y' ≠ 0 := fun e => hy0 (hm.mp e)
    have r := (jacobian_double_z x y z hy0).2
    have r' := (jacobian_double_z x' y' z' hy0').2
    have ey : ((jacobian_double (x', y', z')).2.1 : Fp) = (l ^ 4) ^ 3 * ((jacobian_double (x, y, z)).2.1 : Fp) := by
      simp only [jacobian_double, hy0, hy0', if_false]
      push_cast [cast_mod_P]; rw [hx, hy, hz]; ring
    refine ⟨?_, ey, ?_, marker_of_reduced r r' (pow_ne_zero 3 (pow_ne_zero 4 hl)) ey⟩
    · simp only [jacobian_double, hy0, hy0', if_false]
      push_cast [cast_mod_P]; rw [hx, hy, hz]; ring
    · simp only [jacobian_double, hy0, hy0', if_false]
      push_cast [cast_mod_P]; rw [hy, hz]; ring

/-- **`jacobian_add` commutes with rescaling** of either operand (scales `l, m ≢ 0`): the result is a
rescaling, by some unit `k`, of the original result — on every path (identity operands, chord, inverse,
doubling). -/
theorem jacobian_add_scaled {l m : Fp} (hl : l ≠ 0) (hm : m ≠ 0) {p p' q q' : ℤ × ℤ × ℤ}
    (hp : Scaled l p p') (hq : Scaled m q q') :
    ∃ k : Fp, k ≠ 0 ∧ Scaled k (jacobian_add p q) (jacobian_add p' q') := by
  by_cases hy1 : p.2.1 = 0
  · rw [jacobian_add_left_identity _ _ hy1, jacobian_add_left_identity _ _ (hp.marker.mpr hy1)]
    exact ⟨m, hm, hq⟩
  have hy1' : p'.2.1 ≠ 0 := fun e => hy1 (hp.marker.mp e)
  by_cases hy2 : q.2.1 = 0
  · rw [jacobian_add_right_identity _ _ hy1 hy2, jacobian_add_right_identity _ _ hy1' (hq.marker.mpr hy2)]
    exact ⟨l, hl, hp⟩
  have hy2' : q'.2.1 ≠ 0 := fun e => hy2 (hq.marker.mp e)
  obtain ⟨x1, y1, z1⟩ := p
  obtain ⟨x1', y1', z1'⟩ := p'
  obtain ⟨x2, y2, z2⟩ := q
  obtain ⟨x2', y2', z2'⟩ := q'
  have hpx := hp.x; have hpy := hp.y; have hpz := hp.z
  have hqx := hq.x; have hqy := hq.y; have hqz := hq.z
  simp only at hpx hpy hpz hqx hqy hqz hy1 hy2 hy1' hy2'
  have hlm : l ^ 2 * m ^ 2 ≠ 0 := mul_ne_zero (pow_ne_zero 2 hl) (pow_ne_zero 2 hm)
  have hlm3 : l ^ 3 * m ^ 3 ≠ 0 := mul_ne_zero (pow_ne_zero 3 hl) (pow_ne_zero 3 hm)
  have hUiff : (x1' : Fp) * (z2' : Fp) ^ 2 = (x2' : Fp) * (z1' : Fp) ^ 2 ↔
      (x1 : Fp) * (z2 : Fp) ^ 2 = (x2 : Fp) * (z1 : Fp) ^ 2 := by
    rw [hpx, hpz, hqx, hqz]
    constructor
    · intro e; apply mul_left_cancel₀ hlm; linear_combination e
    · intro e; linear_combination (l ^ 2 * m ^ 2) * e
  have hSiff : (y1' : Fp) * (z2' : Fp) ^ 3 = (y2' : Fp) * (z1' : Fp) ^ 3 ↔
      (y1 : Fp) * (z2 : Fp) ^ 3 = (y2 : Fp) * (z1 : Fp) ^ 3 := by
    rw [hpy, hpz, hqy, hqz]
    constructor
    · intro e; apply mul_left_cancel₀ hlm3; linear_combination e
    · intro e; linear_combination (l ^ 3 * m ^ 3) * e
  by_cases hU : (x1 : Fp) * (z2 : Fp) ^ 2 = (x2 : Fp) * (z1 : Fp) ^ 2
  · by_cases hS : (y1 : Fp) * (z2 : Fp) ^ 3 = (y2 : Fp) * (z1 : Fp) ^ 3
    · rw [jacobian_add_double _ _ _ _ _ _ hy1 hy2 hU hS,
        jacobian_add_double _ _ _ _ _ _ hy1' hy2' (hUiff.mpr hU) (hSiff.mpr hS)]
      exact ⟨l ^ 4, pow_ne_zero 4 hl, jacobian_double_scaled hl hp⟩
    · rw [jacobian_add_inverse _ _ _ _ _ _ hy1 hy2 hU hS,
        jacobian_add_inverse _ _ _ _ _ _ hy1' hy2' (hUiff.mpr hU) (fun e => hS (hSiff.mp e))]
      exact ⟨1, one_ne_zero, Scaled.refl _⟩
  · have hU' : (x1' : Fp) * (z2' : Fp) ^ 2 ≠ (x2' : Fp) * (z1' : Fp) ^ 2 := fun e => hU (hUiff.mp e)
    have r := (jacobian_add_chord_coord x1 y1 z1 x2 y2 z2 hy1 hy2 hU).1
    have r' := (jacobian_add_chord_coord x1' y1' z1' x2' y2' z2' hy1' hy2' hU').1
    have hUi : ¬ (x1 * z2 ^ 2 % P = x2 * z1 ^ 2 % P) := by
      rw [mod_eq_iff]; push_cast; exact hU
    have hUi' : ¬ (x1' * z2' ^ 2 % P = x2' * z1' ^ 2 % P) := by
      rw [mod_eq_iff]; push_cast; exact hU'
    have ey : ((jacobian_add (x1', y1', z1') (x2', y2', z2')).2.1 : Fp) =
        (l ^ 3 * m ^ 3) ^ 3 * ((jacobian_add (x1, y1, z1) (x2, y2, z2)).2.1 : Fp) := by
      simp only [jacobian_add, hy1, hy2, hy1', hy2', hUi, hUi', if_false]
      push_cast [cast_mod_P]; rw [hpx, hpy, hpz, hqx, hqy, hqz]; ring
    refine ⟨l ^ 3 * m ^ 3, hlm3, ?_, ey, ?_, marker_of_reduced r r' (pow_ne_zero 3 hlm3) ey⟩
    · simp only [jacobian_add, hy1, hy2, hy1', hy2', hUi, hUi', if_false]
      push_cast [cast_mod_P]; rw [hpx, hpy, hpz, hqx, hqy, hqz]; ring
    · simp only [jacobian_add, hy1, hy2, hy1', hy2', hUi, hUi', if_false]
      push_cast [cast_mod_P]; rw [hpx, hpz, hqx, hqz]; ring

theorem jacobian_double_zok (p : ℤ × ℤ × ℤ) : ZOk (jacobian_double p) := by
  obtain ⟨x, y, z⟩ := p
  by_cases hy : y = 0
  · rw [jacobian_double_identity _ hy]; exact Or.inl rfl
  · exact (jacobian_double_z x y z hy).2.zok

theorem jacobian_add_zok (p q : ℤ × ℤ × ℤ) (hp : ZOk p) (hq : ZOk q) : ZOk (jacobian_add p q) := by
  by_cases hy1 : p.2.1 = 0
  · rwa [jacobian_add_left_identity _ _ hy1]
  by_cases hy2 : q.2.1 = 0
  · rwa [jacobian_add_right_identity _ _ hy1 hy2]
  obtain ⟨x1, y1, z1⟩ := p
  obtain ⟨x2, y2, z2⟩ := q
  by_cases hU : (x1 : Fp) * (z2 : Fp) ^ 2 = (x2 : Fp) * (z1 : Fp) ^ 2
  · by_cases hS : (y1 : Fp) * (z2 : Fp) ^ 3 = (y2 : Fp) * (z1 : Fp) ^ 3
    · rw [jacobian_add_double _ _ _ _ _ _ hy1 hy2 hU hS]; exact jacobian_double_zok _
    · rw [jacobian_add_inverse _ _ _ _ _ _ hy1 hy2 hU hS]; exact Or.inr (by simp)
  · exact (jacobian_add_chord_coord x1 y1 z1 x2 y2 z2 hy1 hy2 hU).1.zok

/-- **Representative independence of doubling**: `from_jacobian ∘ jacobian_double` gives the same affine pair
on `(x, y, z)` and on any rescaling `(l²x, l³y, l·z)`, `l ≢ 0`. -/
theorem from_jacobian_double_scale (hinv : InvSpec) {l : Fp} (hl : l ≠ 0) {p p' : ℤ × ℤ × ℤ}
    (h : Scaled l p p') : from_jacobian (jacobian_double p') = from_jacobian (jacobian_double p) :=
  from_jacobian_scale hinv (pow_ne_zero 4 hl) (jacobian_double_scaled hl h)
    (jacobian_double_zok _) (jacobian_double_zok _)

/-- **Representative independence of addition**: `from_jacobian ∘ jacobian_add` gives the same affine pair when
either operand is replaced by a rescaling (scales `l, m ≢ 0`; `z`-coordinates `0` or units mod `P`). -/
theorem from_jacobian_add_scale (hinv : InvSpec) {l m : Fp} (hl : l ≠ 0) (hm : m ≠ 0) {p p' q q' : ℤ × ℤ × ℤ}
    (hp : Scaled l p p') (hq : Scaled m q q') (zp : ZOk p) (zp' : ZOk p') (zq : ZOk q) (zq' : ZOk q') :
    from_jacobian (jacobian_add p' q') = from_jacobian (jacobian_add p q) := by
  obtain ⟨k, hk, hs⟩ := jacobian_add_scaled hl hm hp hq
  exact from_jacobian_scale hinv hk hs (jacobian_add_zok _ _ zp zq) (jacobian_add_zok _ _ zp' zq')

/-- non-vacuity of `Scaled`/`ZOk`: `(4·Gx, 8·Gy, 2)` is `to_jacobian G` rescaled by `2` -/
example : Scaled (2 : Fp) (to_jacobian Gen.Secp.G) (4 * Gen.Secp.Gx, 8 * Gen.Secp.Gy, 2) ∧
    ZOk (to_jacobian Gen.Secp.G) ∧ ZOk (4 * Gen.Secp.Gx, 8 * Gen.Secp.Gy, 2) := by
  refine ⟨⟨?_, ?_, ?_, ?_⟩, Or.inr ?_, Or.inr ?_⟩
  · simp [to_jacobian, Gen.Secp.G]; norm_num
  · simp [to_jacobian, Gen.Secp.G]; norm_num
  · simp [to_jacobian]
  · simp [to_jacobian, Gen.Secp.G]
  · simp [to_jacobian]
  · simpa using fp_two_ne_zero

end PyEcc.C13.Secp

section AxiomAudit
open PyEcc.C13.Secp
#print axioms jacobian_double_identity
#print axioms jacobian_double_z
#print axioms jacobian_double_coord
#print axioms jacobian_double_y_multiple
#print axioms jacobian_add_left_identity
#print axioms jacobian_add_right_identity
#print axioms jacobian_add_chord_coord
#print axioms jacobian_add_inverse
#print axioms jacobian_add_double
#print axioms jacobian_add_coord
#print axioms from_jacobian_z_zero
#print axioms from_jacobian_coord
#print axioms from_jacobian_z_multiple
#print axioms from_jacobian_scale
#print axioms jacobian_double_scaled
#print axioms jacobian_add_scaled
#print axioms from_jacobian_double_scale
#print axioms from_jacobian_add_scale
end AxiomAudit
