/-
  PyEcc.Props.TieHashSecp — TIE theorems ("generated = hand-written model") for the byte-level helpers of
  `py_ecc/secp256k1/secp256k1.py`: `bytes_to_int` and the RFC 6979 nonce `deterministic_generate_k`.
  `Gen/ExtraHashSecp.lean` is re-generated from the Python source on every run (tools/translate/gen_hash.py).
-/
import PyEcc.Gen.ExtraHashSecp

namespace PyEcc.Tie
open PyEcc

/-- the loop of `bytes_to_int` on Python ints, started from a natural number, is the natural-number fold of `os2ip`. -/
theorem bytes_to_int_loop (x : Bytes) (o : Nat) :
    List.foldl Gen.ExtraHashSecp.bytes_to_int_loop0 (o : Int) x
      = ((List.foldl (fun acc (b : UInt8) => acc * 256 + b.toNat) o x : Nat) : Int) := by
  induction x generalizing o with
  | nil => rfl
  | cons b x ih =>
    have step : Gen.ExtraHashSecp.bytes_to_int_loop0 (o : Int) b = ((o * 256 + b.toNat : Nat) : Int) := by
      unfold Gen.ExtraHashSecp.bytes_to_int_loop0
      simp only [Int.natCast_add, Int.natCast_mul]
      rfl
    rw [List.foldl_cons, List.foldl_cons, step, ih]

/-- `bytes_to_int(x)` as translated from the source (`o = 0; for b in x: o = (o << 8) + safe_ord(b)` on Python ints, `<< 8` as
    `* 2 ^ 8`, `safe_ord` of a byte as the byte's value) is the model's `Ecdsa.bytesToInt` (= `os2ip`, big-endian). -/
theorem bytes_to_int_eq (x : Bytes) : Gen.ExtraHashSecp.bytes_to_int x = Ecdsa.bytesToInt x := by
  unfold Gen.ExtraHashSecp.bytes_to_int Ecdsa.bytesToInt os2ip
  exact bytes_to_int_loop x 0

/-- `deterministic_generate_k(msghash, priv)` as translated from the source (RFC 6979 with HMAC over `hashlib.sha256` = the
    parameter `H`: `v = b"\x01" * 32`, `k = b"\x00" * 32`, the two rounds `k = HMAC_k(v + b"\x00"/b"\x01" + priv + msghash)`,
    `v = HMAC_k(v)`, result `bytes_to_int(HMAC_k(v))`) is the model's `Ecdsa.deterministicGenerateK`. -/
theorem deterministic_generate_k_eq (H : HashFn) (msghash priv : Bytes) :
    Gen.ExtraHashSecp.deterministic_generate_k msghash priv H = Ecdsa.deterministicGenerateK H msghash priv := by
  unfold Gen.ExtraHashSecp.deterministic_generate_k Ecdsa.deterministicGenerateK
  with_reducible rfl

end PyEcc.Tie
