/-
  PyEcc.Props.TieHashSecp — TIE theorems ("generated = hand-written model") for the byte-level helpers of
  `py_ecc/secp256k1/secp256k1.py`: `bytes_to_int` and the RFC 6979 nonce `deterministic_generate_k`.
  `Gen/ExtraHashSecp.lean` is re-generated from the Python source on every run (tools/translate/gen_hash.py).
-/
import PyEcc.Gen.ExtraHashSecp

namespace PyEcc.Tie
open PyEcc

/-- a fold on Python ints whose step maps natural numbers to natural numbers (`f o b = g o b` on naturals), started from a natural
    number, is the natural-number fold (the step function `f` is taken from the goal: the loop is translated in place). -/
theorem foldl_int_of_nat {α : Type} (f : Int → α → Int) (g : Nat → α → Nat) (hf : ∀ (o : Nat) (b : α), f (o : Int) b = ((g o b : Nat) : Int))
    (x : List α) (o : Nat) : List.foldl f (o : Int) x = ((List.foldl g o x : Nat) : Int) := by
  induction x generalizing o with
  | nil => rfl
  | cons b x ih => rw [List.foldl_cons, List.foldl_cons, hf, ih]

/-- `bytes_to_int(x)` as translated from the source (`o = 0; for b in x: o = (o << 8) + safe_ord(b)` on Python ints, `<< 8` as
    `* 2 ^ 8`, `safe_ord` of a byte as the byte's value) is the model's `Ecdsa.bytesToInt` (= `os2ip`, big-endian). -/
theorem bytes_to_int_eq (x : Bytes) : Gen.ExtraHashSecp.bytes_to_int x = Ecdsa.bytesToInt x := by
  unfold Gen.ExtraHashSecp.bytes_to_int Ecdsa.bytesToInt os2ip
  refine foldl_int_of_nat _ (fun acc (b : UInt8) => acc * 256 + b.toNat) ?_ x 0
  intro o b
  simp only [Int.natCast_add, Int.natCast_mul]
  rfl

/-- `deterministic_generate_k(msghash, priv)` as translated from the source (RFC 6979 with HMAC over `hashlib.sha256` = the
    parameter `H`: `v = b"\x01" * 32`, `k = b"\x00" * 32`, the two rounds `k = HMAC_k(v + b"\x00"/b"\x01" + priv + msghash)`,
    `v = HMAC_k(v)`, result `bytes_to_int(HMAC_k(v))`) is the model's `Ecdsa.deterministicGenerateK`. -/
theorem deterministic_generate_k_eq (H : HashFn) (msghash priv : Bytes) :
    Gen.ExtraHashSecp.deterministic_generate_k msghash priv H = Ecdsa.deterministicGenerateK H msghash priv := by
  unfold Gen.ExtraHashSecp.deterministic_generate_k Ecdsa.deterministicGenerateK
  with_reducible rfl

end PyEcc.Tie
