/-
  PyEcc.Props.C02_Proto — property C02, headline clause: **`Verify` accepts EXACTLY the canonical
  signature** (`py_ecc/bls/ciphersuites.py`: `Verify`, `PopVerify`; all three suites).

  All theorems are about the model functions of `PyEcc/Model/Bls.lean` as they are, for ALL secret keys
  `1 ≤ sk < r`, all messages, all candidate byte strings of ANY length, all three suites, any hash
  function `H`.  They are conditional on `PairingFacts e` only (HB1 bilinearity, ND non-degeneracy,
  HB1′ model-pairing compatibility, HT6 hash-to-curve lands in the subgroup) — see `Props/C01_Proto.lean`
  and `Lemmas/BlsProto.lean` for the plain-words reading; it is a hypothesis, not an axiom, and being a
  closed mathematical statement it has no `example`.

  Proof route of `⇒`: `Verify = True` forces a canonical 96-byte candidate that decodes into the
  `r`-torsion (C04 accept set, C11 canonicity, C17 subgroup check); the pairing equation then gives
  `e(S − sk·H(m), G1) = 1`, hence `S = sk·H(m)` by ND; equal points have equal encodings (C11).
  No group-order hypothesis (HB2) is used.
-/
import PyEcc.Lemmas.BlsProtoMiller
import PyEcc.Props.C09

set_option linter.unusedSectionVars false

namespace PyEcc.C02
open PyEcc PyEcc.Gen PyEcc.Gen.Consts PyEcc.Transfer PyEcc.BlsSem PyEcc.BlsProto

variable [DecidableEq K2] {GT : Type} [CommGroup GT] {e : E2 → E1 → GT}

/-- **`Verify` accepts exactly the canonical signature.**  For every suite, hash function, `int` secret
    key `1 ≤ sk < r` with `pk = SkToPk(sk)`, message `m` and candidate byte string `cand` (any length —
    DESIGN's guard `cand.length = 96` is not needed: both sides force it):
    `Verify(pk, m, cand) = True  ↔  Sign(sk, m) = cand`. -/
theorem verify_iff (pf : PairingFacts e) (H : HashFn) (s : Suite) (sk : ℤ)
    (hsk : 1 ≤ sk ∧ sk < (curveOrder : ℤ)) (m pk cand : Bytes) (hpk : skToPk (.int sk) = .ok pk) :
    verify H s pk m cand = .returned true ↔ sign H s (.int sk) m = .ok cand := by
  rw [verify_eq, coreVerify_iff_coreSign pf H s (validPrivkey_int hsk) hpk, ← sign_eq_coreSign H s hpk]

/-- **`PopVerify` accepts exactly the canonical proof**: `PopVerify(pk, cand) = True ↔ PopProve(sk) = cand`. -/
theorem popVerify_iff (pf : PairingFacts e) (H : HashFn) (sk : ℤ)
    (hsk : 1 ≤ sk ∧ sk < (curveOrder : ℤ)) (pk cand : Bytes) (hpk : skToPk (.int sk) = .ok pk) :
    popVerify H pk cand = .returned true ↔ popProve H (.int sk) = .ok cand := by
  unfold popVerify
  rw [coreVerify_iff_coreSign pf H .pop (validPrivkey_int hsk) hpk, ← popProve_eq_coreSign H hpk]

/-! ### corollaries: every class of wrong candidate -/

/-- **Any string other than the canonical signature is rejected** — single-bit flips anywhere (data or
    flag bits), truncations, extensions, re-encodings: if `Sign(sk, m)` returned `sig` and `cand ≠ sig`
    then `Verify(pk, m, cand)` returns `False` (it does not raise). -/
theorem verify_rejects_ne (pf : PairingFacts e) (H : HashFn) (s : Suite) (sk : ℤ)
    (hsk : 1 ≤ sk ∧ sk < (curveOrder : ℤ)) (m pk sig cand : Bytes) (hpk : skToPk (.int sk) = .ok pk)
    (hsig : sign H s (.int sk) m = .ok sig) (hne : cand ≠ sig) :
    verify H s pk m cand = .returned false := by
  rw [verify_eq]
  rw [sign_eq_coreSign H s hpk] at hsig
  exact coreVerify_ne pf H s (validPrivkey_int hsk) hpk hsig hne

/-- same for possession proofs -/
theorem popVerify_rejects_ne (pf : PairingFacts e) (H : HashFn) (sk : ℤ)
    (hsk : 1 ≤ sk ∧ sk < (curveOrder : ℤ)) (pk proof cand : Bytes) (hpk : skToPk (.int sk) = .ok pk)
    (hproof : popProve H (.int sk) = .ok proof) (hne : cand ≠ proof) :
    popVerify H pk cand = .returned false := by
  rw [popProve_eq_coreSign H hpk] at hproof
  exact coreVerify_ne pf H .pop (validPrivkey_int hsk) hpk hproof hne

/-- **`−S` is rejected.**  With `mp = hash_to_G2(m')` (`m'` the suite-augmented message) not the identity,
    the encoding of `neg(multiply(mp, sk))` makes `Verify` return `False`. -/
theorem verify_rejects_neg (pf : PairingFacts e) (H : HashFn) (s : Suite) (sk : ℤ)
    (hsk : 1 ≤ sk ∧ sk < (curveOrder : ℤ)) (m pk cand : Bytes) (hpk : skToPk (.int sk) = .ok pk)
    (mp : G2Pt) (hmp : hashToG2 H (vmsg s pk m) s.dst = .ok mp) (hinf : OptBls.is_inf mp = false)
    (hc : g2ToSignature (OptBls.neg (OptBls.multiply mp sk.toNat)) = .ok cand) :
    verify H s pk m cand = .returned false := by
  rw [verify_eq]; exact coreVerify_neg pf H s (validPrivkey_int hsk) hpk hmp hinf hc

/-- **`2S` is rejected** (hash point not the identity). -/
theorem verify_rejects_double (pf : PairingFacts e) (H : HashFn) (s : Suite) (sk : ℤ)
    (hsk : 1 ≤ sk ∧ sk < (curveOrder : ℤ)) (m pk cand : Bytes) (hpk : skToPk (.int sk) = .ok pk)
    (mp : G2Pt) (hmp : hashToG2 H (vmsg s pk m) s.dst = .ok mp) (hinf : OptBls.is_inf mp = false)
    (hc : g2ToSignature (OptBls.double (OptBls.multiply mp sk.toNat)) = .ok cand) :
    verify H s pk m cand = .returned false := by
  rw [verify_eq]; exact coreVerify_double pf H s (validPrivkey_int hsk) hpk hmp hinf hc

/-- **`S + T` is rejected for every point `T ≠ ∞` of the twist curve** (a well-formed triple `T` passing
    `is_on_curve`): whether `T` lies in the `r`-torsion (then the pairing equation fails) or not (e.g.
    cofactor torsion: then the candidate fails `subgroup_check`). -/
theorem verify_rejects_add (pf : PairingFacts e) (H : HashFn) (s : Suite) (sk : ℤ)
    (hsk : 1 ≤ sk ∧ sk < (curveOrder : ℤ)) (m pk cand : Bytes) (hpk : skToPk (.int sk) = .ok pk)
    (mp : G2Pt) (hmp : hashToG2 H (vmsg s pk m) s.dst = .ok mp) (T : G2Pt) (cT : CanonT T)
    (honT : OptBls.is_on_curve T blsB2 = true) (hT : OptBls.is_inf T = false)
    (hc : g2ToSignature (OptBls.add (OptBls.multiply mp sk.toNat) T) = .ok cand) :
    verify H s pk m cand = .returned false := by
  rw [verify_eq]; exact coreVerify_add pf H s (validPrivkey_int hsk) hpk hmp cT honT hT hc

/-- **The identity encoding** `0xc0 00 … 00` (what `G2_to_signature(Z2)` returns) is accepted iff the hash
    point itself is the identity — so it is rejected for every message whose hash is not `∞`. -/
theorem verify_identity_iff (pf : PairingFacts e) (H : HashFn) (s : Suite) (sk : ℤ)
    (hsk : 1 ≤ sk ∧ sk < (curveOrder : ℤ)) (m pk cand : Bytes) (hpk : skToPk (.int sk) = .ok pk)
    (mp : G2Pt) (hmp : hashToG2 H (vmsg s pk m) s.dst = .ok mp) (hc : g2ToSignature Z2 = .ok cand) :
    verify H s pk m cand = .returned true ↔ OptBls.is_inf mp = true := by
  rw [verify_eq]; exact coreVerify_identity_iff pf H s (validPrivkey_int hsk) hpk hmp hc

/-- **Other key** (suites that hash the bare message: basic and POP).  A signature of `m` under `sk`,
    presented with the public key of `sk'`, is accepted iff `sk = sk'` — provided the hash point of `m` is
    not the identity. -/
theorem verify_other_key_iff (pf : PairingFacts e) (H : HashFn) (s : Suite) (hs : s ≠ .aug) (sk sk' : ℤ)
    (hsk : 1 ≤ sk ∧ sk < (curveOrder : ℤ)) (hsk' : 1 ≤ sk' ∧ sk' < (curveOrder : ℤ))
    (m pk pk' sig : Bytes) (hpk : skToPk (.int sk) = .ok pk) (hpk' : skToPk (.int sk') = .ok pk')
    (mp : G2Pt) (hmp : hashToG2 H m s.dst = .ok mp) (hinf : OptBls.is_inf mp = false)
    (hsig : sign H s (.int sk) m = .ok sig) :
    verify H s pk' m sig = .returned true ↔ sk = sk' := by
  have hm : ∀ k, vmsg s k m = m := fun k => by cases s <;> first | rfl | exact (hs rfl).elim
  rw [sign_eq_coreSign H s hpk, hm] at hsig
  rw [verify_eq, hm, coreVerify_other_key_iff pf H s (validPrivkey_int hsk) (validPrivkey_int hsk') hpk'
    hmp hinf hsig]
  omega

/-- **Cross acceptance, general form** (other key and/or other message, other suite, signature used as
    possession proof, …).  `sig = Sign_s(sk, m)` presented to `Verify_{s'}(pk', m', ·)` is accepted iff
    the two signature POINTS coincide: `multiply(H_s(m), sk) = multiply(H_{s'}(m'), sk')` as projective
    points (`eq`).  Whether two hash points coincide is the random-oracle question and stays a
    hypothesis of the corollaries below. -/
theorem verify_cross_iff (pf : PairingFacts e) (H : HashFn) (s s' : Suite) (sk sk' : ℤ)
    (hsk : 1 ≤ sk ∧ sk < (curveOrder : ℤ)) (hsk' : 1 ≤ sk' ∧ sk' < (curveOrder : ℤ))
    (m m' pk pk' sig : Bytes) (hpk : skToPk (.int sk) = .ok pk) (hpk' : skToPk (.int sk') = .ok pk')
    (mp mp' : G2Pt) (hmp : hashToG2 H (vmsg s pk m) s.dst = .ok mp)
    (hmp' : hashToG2 H (vmsg s' pk' m') s'.dst = .ok mp') (hsig : sign H s (.int sk) m = .ok sig) :
    verify H s' pk' m' sig = .returned true ↔
      OptBls.eq (OptBls.multiply mp sk.toNat) (OptBls.multiply mp' sk'.toNat) = true := by
  rw [sign_eq_coreSign H s hpk] at hsig
  rw [verify_eq]
  exact coreVerify_cross_iff pf H s' (validPrivkey_int hsk) (validPrivkey_int hsk') hpk' hmp hmp' hsig

/-- **Other message / other suite, same key.**  `Sign_s(sk, m)` presented to `Verify_{s'}(pk, m', ·)` is
    accepted iff the two hash points are equal (`eq`); so under the hash-inequality hypothesis
    `eq(H_s(m), H_{s'}(m')) = False` it is rejected. -/
theorem verify_other_msg_iff (pf : PairingFacts e) (H : HashFn) (s s' : Suite) (sk : ℤ)
    (hsk : 1 ≤ sk ∧ sk < (curveOrder : ℤ)) (m m' pk sig : Bytes) (hpk : skToPk (.int sk) = .ok pk)
    (mp mp' : G2Pt) (hmp : hashToG2 H (vmsg s pk m) s.dst = .ok mp)
    (hmp' : hashToG2 H (vmsg s' pk m') s'.dst = .ok mp') (hsig : sign H s (.int sk) m = .ok sig) :
    verify H s' pk m' sig = .returned true ↔ OptBls.eq mp mp' = true := by
  rw [sign_eq_coreSign H s hpk] at hsig
  rw [verify_eq]
  exact coreVerify_other_msg_iff pf H s' (validPrivkey_int hsk) hpk hmp hmp' hsig

/-- rejection form of `verify_other_msg_iff`: different hash points ⇒ `Verify` returns `False` -/
theorem verify_rejects_other_msg (pf : PairingFacts e) (H : HashFn) (s s' : Suite) (sk : ℤ)
    (hsk : 1 ≤ sk ∧ sk < (curveOrder : ℤ)) (m m' pk sig : Bytes) (hpk : skToPk (.int sk) = .ok pk)
    (mp mp' : G2Pt) (hmp : hashToG2 H (vmsg s pk m) s.dst = .ok mp)
    (hmp' : hashToG2 H (vmsg s' pk m') s'.dst = .ok mp') (hsig : sign H s (.int sk) m = .ok sig)
    (hne : OptBls.eq mp mp' = false) : verify H s' pk m' sig = .returned false := by
  rw [verify_eq]
  apply coreVerify_false_of_not_true hmp'
  rw [← verify_eq, Ne, verify_other_msg_iff pf H s s' sk hsk m m' pk sig hpk mp mp' hmp hmp' hsig, hne]
  exact Bool.false_ne_true

/-- **A signature is not a possession proof** (POP suite): `Sign(sk, m)` presented to `PopVerify(pk, ·)` is
    accepted iff `hash_to_G2(m, DST) = hash_to_G2(pk, POP_TAG)` as points. -/
theorem popVerify_of_sig_iff (pf : PairingFacts e) (H : HashFn) (s : Suite) (sk : ℤ)
    (hsk : 1 ≤ sk ∧ sk < (curveOrder : ℤ)) (m pk sig : Bytes) (hpk : skToPk (.int sk) = .ok pk)
    (mp mp' : G2Pt) (hmp : hashToG2 H (vmsg s pk m) s.dst = .ok mp)
    (hmp' : hashToG2 H pk popTag = .ok mp') (hsig : sign H s (.int sk) m = .ok sig) :
    popVerify H pk sig = .returned true ↔ OptBls.eq mp mp' = true := by
  rw [sign_eq_coreSign H s hpk] at hsig
  exact coreVerify_other_msg_iff pf H .pop (validPrivkey_int hsk) hpk hmp hmp' hsig

/-- **A possession proof is not a signature**: `PopProve(sk)` presented to `Verify_s(pk, m, ·)` is
    accepted iff `hash_to_G2(pk, POP_TAG) = hash_to_G2(m', DST_s)` as points. -/
theorem verify_of_proof_iff (pf : PairingFacts e) (H : HashFn) (s : Suite) (sk : ℤ)
    (hsk : 1 ≤ sk ∧ sk < (curveOrder : ℤ)) (m pk proof : Bytes) (hpk : skToPk (.int sk) = .ok pk)
    (mp mp' : G2Pt) (hmp : hashToG2 H pk popTag = .ok mp)
    (hmp' : hashToG2 H (vmsg s pk m) s.dst = .ok mp') (hproof : popProve H (.int sk) = .ok proof) :
    verify H s pk m proof = .returned true ↔ OptBls.eq mp mp' = true := by
  rw [popProve_eq_coreSign H hpk] at hproof
  rw [verify_eq]
  exact coreVerify_other_msg_iff pf H s (validPrivkey_int hsk) hpk hmp hmp' hproof

/-! ### under the smaller hypothesis bundle `PairingValueFacts` (`Lemmas/BlsProtoMiller.lean`) -/

/-- `verify_iff` under `PairingValueFacts` (fields: HB1, ND, HB1′ per pairing call, HT6); every other
    theorem of this file transfers the same way through `PairingValueFacts.toPairingFacts`. -/
theorem verify_iff' {e : E2 → E1 → K12ˣ} (pv : PairingValueFacts e) (H : HashFn) (s : Suite) (sk : ℤ)
    (hsk : 1 ≤ sk ∧ sk < (curveOrder : ℤ)) (m pk cand : Bytes) (hpk : skToPk (.int sk) = .ok pk) :
    verify H s pk m cand = .returned true ↔ sign H s (.int sk) m = .ok cand :=
  verify_iff pv.toPairingFacts H s sk hsk m pk cand hpk

/-- `popVerify_iff` under `PairingValueFacts`. -/
theorem popVerify_iff' {e : E2 → E1 → K12ˣ} (pv : PairingValueFacts e) (H : HashFn) (sk : ℤ)
    (hsk : 1 ≤ sk ∧ sk < (curveOrder : ℤ)) (pk cand : Bytes) (hpk : skToPk (.int sk) = .ok pk) :
    popVerify H pk cand = .returned true ↔ popProve H (.int sk) = .ok cand :=
  popVerify_iff pv.toPairingFacts H sk hsk pk cand hpk

/-! ### non-vacuity of the key hypotheses -/

/-- `sk = 1` is a valid key and `SkToPk(1)` returns the compressed generator (kernel evaluation, C09);
    the identity candidate of `verify_identity_iff` exists: `G2_to_signature(Z2)` returns `0xc0 00 … 00`. -/
example : (1 ≤ (1 : ℤ) ∧ (1 : ℤ) < (curveOrder : ℤ)) ∧ skToPk (.int 1) = .ok C09.compressedG1 ∧
    ∃ cand, g2ToSignature Z2 = .ok cand :=
  ⟨by decide, C09.skToPk_one, by
    obtain ⟨bs, h, _⟩ := C11.signatureToG2_g2ToSignature_roundtrip Z2 (by decide) (by decide)
    exact ⟨bs, h⟩⟩

end PyEcc.C02
