/-
  PyEcc.Props.C10_Struct — property C10, structural part (core Lean only): `hash_to_G1` / `hash_to_G2`
  of `py_ecc/bls/hash_to_curve.py` follow the `hash_to_curve` skeleton of RFC 9380 §3
  (`u = hash_to_field(msg, 2); Q0 = map_to_curve(u[0]); Q1 = map_to_curve(u[1]); R = Q0 + Q1;
  P = clear_cofactor(R)`), `map_to_curve = iso_map ∘ optimized_swu`, `clear_cofactor = h_eff · _`,
  and the complete list of exceptions they can raise.
-/
import PyEcc.Model.Swu
import PyEcc.Props.C15

namespace PyEcc.C10
open Gen.Consts

/-! ### helpers about `Except`, over abstract types (keeps the elaborator away from `Fq blsP`) -/

theorem err_of_ite {α : Type} (c : Prop) [Decidable c] (x : α) (e : PyErr)
    (h : (if c then Except.error PyErr.other else Except.ok x) = Except.error e) : e = .other := by
  split at h
  · injection h with h; exact h.symm
  · cases h

theorem map_error {α β : Type} (m : Except PyErr α) (f : α → β) (e : PyErr)
    (h : m.map f = .error e) : m = .error e := by
  cases m with
  | error e' => injection h with h; rw [h]
  | ok a => cases h

theorem bind2_error {α β : Type} (m0 m1 : Except PyErr α) (g : α → α → β) (e : PyErr)
    (h : (m0.bind fun q0 => m1.bind fun q1 => Except.ok (g q0 q1)) = .error e) :
    m0 = .error e ∨ m1 = .error e := by
  cases m0 with
  | error e0 => left; injection h with h; rw [h]
  | ok q0 =>
    cases m1 with
    | error e1 => right; injection h with h; rw [h]
    | ok q1 => cases h

theorem bind_pure_cases {α β : Type} (m : Except PyErr α) (f : α → β) :
    (∃ e, m = .error e ∧ (m.bind fun a => Except.ok (f a)) = .error e) ∨
    (∃ a, m = .ok a ∧ (m.bind fun a => Except.ok (f a)) = .ok (f a)) := by
  cases m with
  | error e => exact Or.inl ⟨e, rfl, rfl⟩
  | ok a => exact Or.inr ⟨a, rfl, rfl⟩

theorem ok_bind {α β : Type} (a : α) (k : α → Except PyErr β) :
    ((Except.ok a : Except PyErr α) >>= k) = k a := rfl

theorem do2_eq {α β : Type} (m0 m1 : Except PyErr α) (g : α → α → β) :
    (do let q0 ← m0; let q1 ← m1; pure (g q0 q1) : Except PyErr β)
      = m0.bind fun q0 => m1.bind fun q1 => .ok (g q0 q1) := rfl

/-! ### `map_to_curve`, `clear_cofactor` -/

/-- `map_to_curve_G1(u) = iso_map_G1(*optimized_swu_G1(u))` -/
theorem mapToCurveG1_eq (u : F1) :
    mapToCurveG1 u = isoMapG1 (optimizedSwuG1 u).1 (optimizedSwuG1 u).2.1 (optimizedSwuG1 u).2.2 := by
  unfold mapToCurveG1
  generalize optimizedSwuG1 u = r
  obtain ⟨x, y, z⟩ := r
  rfl

/-- `map_to_curve_G2(u) = iso_map_G2(*optimized_swu_G2(u))`, propagating the exception of
    `optimized_swu_G2` -/
theorem mapToCurveG2_eq (u : F2) :
    mapToCurveG2 u = (optimizedSwuG2 u).map fun r => isoMapG2 r.1 r.2.1 r.2.2 := by
  unfold mapToCurveG2
  generalize optimizedSwuG2 u = r
  cases r with
  | error e => rfl
  | ok r => obtain ⟨x, y, z⟩ := r; rfl

/-- `clear_cofactor_G1(P) = multiply(P, H_EFF_G1)`, `clear_cofactor_G2(P) = multiply(P, H_EFF_G2)`
    (the effective cofactors of RFC 9380 §8.8, see `C17.H_EFF_G1_eq`, `C17.H_EFF_G2_eq`) -/
theorem clearCofactor_eq (p1 : F1 × F1 × F1) (p2 : F2 × F2 × F2) :
    clearCofactorG1 p1 = Gen.OptBls.multiply p1 h2c_H_EFF_G1 ∧
    clearCofactorG2 p2 = Gen.OptBls.multiply p2 h2c_H_EFF_G2 := ⟨rfl, rfl⟩

/-- the shape of `optimized_swu_G2(t)`: one final test, raising the bare `Exception` or returning -/
theorem optimizedSwuG2_shape (t : F2) : ∃ (c : Prop) (_ : Decidable c) (x : F2 × F2 × F2),
    optimizedSwuG2 t = if c then .error .other else .ok x := by
  unfold optimizedSwuG2
  dsimp only
  generalize sqrtDivisionFq2 _ _ = r
  obtain ⟨s, c⟩ := r
  dsimp only
  generalize List.foldl _ _ ETAS = r2
  obtain ⟨s2, y⟩ := r2
  dsimp only
  exact ⟨_, _, _, rfl⟩

/-- `optimized_swu_G2` can only raise its own bare `Exception("… Optimized SWU failure")` -/
theorem optimizedSwuG2_error (t : F2) (e : PyErr) (h : optimizedSwuG2 t = .error e) : e = .other := by
  obtain ⟨c, _, x, hx⟩ := optimizedSwuG2_shape t
  rw [hx] at h
  exact err_of_ite c x e h

/-- … and so can `map_to_curve_G2` -/
theorem mapToCurveG2_error (u : F2) (e : PyErr) (h : mapToCurveG2 u = .error e) :
    optimizedSwuG2 u = .error .other ∧ e = .other := by
  rw [mapToCurveG2_eq] at h
  have h1 := map_error _ _ _ h
  have h2 := optimizedSwuG2_error u e h1
  rw [h2] at h1
  exact ⟨h1, h2⟩

/-! ### `hash_to_field` with `count = 2` -/

/-- `hash_to_field_FQ(msg, 2, DST, H)` raises what `expand_message_xmd(msg, DST, 128, H)` raises, and
    otherwise returns exactly two integers -/
theorem h2f_fq_cases (H : HashFn) (msg dst : Bytes) :
    (∃ e, expandMessageXmd H msg dst 128 = .error e ∧ hashToFieldFq H blsP msg 2 dst = .error e) ∨
    (∃ prb u0 u1, expandMessageXmd H msg dst 128 = .ok prb ∧
      hashToFieldFq H blsP msg 2 dst = .ok [u0, u1]) := by
  unfold hashToFieldFq
  dsimp only
  rcases bind_pure_cases (expandMessageXmd H msg dst 128)
    (fun prb => (List.range 2).map fun i => os2ip ((prb.drop (64 * (i * 1))).take 64) % blsP) with
    ⟨e, h1, h2⟩ | ⟨a, h1, h2⟩
  · exact Or.inl ⟨e, h1, h2⟩
  · exact Or.inr ⟨a, _, _, h1, h2⟩

/-- `hash_to_field_FQ2(msg, 2, DST, H)` raises what `expand_message_xmd(msg, DST, 256, H)` raises,
    and otherwise returns exactly two pairs -/
theorem h2f_fq2_cases (H : HashFn) (msg dst : Bytes) :
    (∃ e, expandMessageXmd H msg dst 256 = .error e ∧ hashToFieldFq2 H blsP msg 2 dst = .error e) ∨
    (∃ prb u0 u1, expandMessageXmd H msg dst 256 = .ok prb ∧
      hashToFieldFq2 H blsP msg 2 dst = .ok [u0, u1]) := by
  unfold hashToFieldFq2
  dsimp only
  rcases bind_pure_cases (expandMessageXmd H msg dst 256)
    (fun prb => (List.range 2).map fun i =>
      (os2ip ((prb.drop (64 * (0 + i * 2))).take 64) % blsP,
       os2ip ((prb.drop (64 * (1 + i * 2))).take 64) % blsP)) with
    ⟨e, h1, h2⟩ | ⟨a, h1, h2⟩
  · exact Or.inl ⟨e, h1, h2⟩
  · exact Or.inr ⟨a, _, _, h1, h2⟩

/-! ### `hash_to_G1`, `hash_to_G2` -/

/-- **C10 (structure, G1): `hash_to_G1` is RFC 9380 §3 `hash_to_curve` with `count = 2`.**
    If `hash_to_field_FQ(msg, 2, DST, H)` raises, `hash_to_G1` raises the same exception; otherwise
    it returned two integers `u0, u1` and
    `hash_to_G1 = clear_cofactor_G1(add(map_to_curve_G1(FQ(u0)), map_to_curve_G1(FQ(u1))))`.
    (The `ValueError` of the Python tuple-unpacking `u0, u1 = …` is unreachable.) -/
theorem hashToG1_eq (H : HashFn) (msg dst : Bytes) :
    (∀ e, hashToFieldFq H blsP msg 2 dst = .error e → hashToG1 H msg dst = .error e) ∧
    (∀ us, hashToFieldFq H blsP msg 2 dst = .ok us → ∃ u0 u1, us = [u0, u1] ∧
      hashToG1 H msg dst = .ok (clearCofactorG1
        (Gen.OptBls.add (mapToCurveG1 (f1c u0)) (mapToCurveG1 (f1c u1))))) := by
  constructor
  · intro e h
    unfold hashToG1; rw [h]; rfl
  · intro us h
    rcases h2f_fq_cases H msg dst with ⟨e, _, h2⟩ | ⟨_, u0, u1, _, h2⟩
    · rw [h2] at h; cases h
    · rw [h2] at h
      injection h with h
      refine ⟨u0, u1, h.symm, ?_⟩
      unfold hashToG1; rw [h2]; rfl

/-- **C10 (structure, G2): `hash_to_G2` is RFC 9380 §3 `hash_to_curve` with `count = 2`.**
    If `hash_to_field_FQ2(msg, 2, DST, H)` raises, `hash_to_G2` raises the same exception; otherwise
    it returned two pairs `u0, u1` and `hash_to_G2` is
    `clear_cofactor_G2(add(map_to_curve_G2(FQ2(u0)), map_to_curve_G2(FQ2(u1))))`, raising if one of
    the two `map_to_curve_G2` calls raises (the first one first). -/
theorem hashToG2_eq (H : HashFn) (msg dst : Bytes) :
    (∀ e, hashToFieldFq2 H blsP msg 2 dst = .error e → hashToG2 H msg dst = .error e) ∧
    (∀ us, hashToFieldFq2 H blsP msg 2 dst = .ok us → ∃ u0 u1, us = [u0, u1] ∧
      hashToG2 H msg dst =
        (mapToCurveG2 (f2c [u0.1, u0.2])).bind fun q0 =>
        (mapToCurveG2 (f2c [u1.1, u1.2])).bind fun q1 =>
          .ok (clearCofactorG2 (Gen.OptBls.add q0 q1))) := by
  constructor
  · intro e h
    unfold hashToG2; rw [h]; rfl
  · intro us h
    rcases h2f_fq2_cases H msg dst with ⟨e, _, h2⟩ | ⟨_, u0, u1, _, h2⟩
    · rw [h2] at h; cases h
    · rw [h2] at h
      injection h with h
      refine ⟨u0, u1, h.symm, ?_⟩
      unfold hashToG2
      rw [h2, ok_bind]
      dsimp only
      exact do2_eq _ _ _

/-- **C10 (exceptions of `hash_to_G1`).**  For a hash with positive digest size, `hash_to_G1` raises
    exactly when `expand_message_xmd` aborts for `len_in_bytes = 128`, i.e. iff `len(DST) > 255` or
    `ceil(128 / digest_size) > 255` (digest size 0 is excluded: Python would raise
    `ZeroDivisionError`), and the exception is then a `ValueError`.  Nothing else can be raised. -/
theorem hashToG1_error_iff (H : HashFn) (msg dst : Bytes) (hd : 0 < H.digestSize) (e : PyErr) :
    hashToG1 H msg dst = .error e ↔
      e = .value ∧ (dst.length > 255 ∨ Spec.ceilDiv 128 H.digestSize > 255) := by
  have hiff := C15.xmd_error_iff H msg dst 128 hd
  rcases h2f_fq_cases H msg dst with ⟨e', hx, h2⟩ | ⟨prb, u0, u1, hx, h2⟩
  · have hg := (hashToG1_eq H msg dst).1 _ h2
    have hc : dst.length > 255 ∨ Spec.ceilDiv 128 H.digestSize > 255 := by
      have := hiff.mp ⟨_, hx⟩
      omega
    have hk := C15.xmd_error_kind H msg dst 128 hd _ hx
    unfold C15.xmdErr at hk; rw [if_pos hc] at hk
    rw [hg, hk]
    constructor
    · intro h; injection h with h; exact ⟨h.symm, hc⟩
    · rintro ⟨rfl, _⟩; rfl
  · obtain ⟨_, _, _, hg⟩ := (hashToG1_eq H msg dst).2 _ h2
    rw [hg]
    constructor
    · intro h; cases h
    · rintro ⟨_, hc⟩
      obtain ⟨e'', he⟩ := hiff.mpr (by omega)
      rw [hx] at he; cases he

example : 0 < sha256Fn.digestSize := by decide

/-- **C10 (exceptions of `hash_to_G2`, complete list).**  For a hash with positive digest size,
    if `hash_to_G2` raises then either
    * it is the `ValueError` of `expand_message_xmd` (`len_in_bytes = 256`): `len(DST) > 255` or
      `ceil(256 / digest_size) > 255`; or
    * it is the bare `Exception` of the branch commented "Unreachable" in `optimized_swu_G2`, raised
      for one of the two field elements `u0`, `u1` produced by `hash_to_field_FQ2`.
    (`OverflowError`, `TypeError`, … cannot occur.  That the second case never happens is the G2 half
    of C10's stage 3, which is NOT proved here.) -/
theorem hashToG2_error_kinds (H : HashFn) (msg dst : Bytes) (hd : 0 < H.digestSize) (e : PyErr)
    (h : hashToG2 H msg dst = .error e) :
    (e = .value ∧ (dst.length > 255 ∨ Spec.ceilDiv 256 H.digestSize > 255)) ∨
    (e = .other ∧ ∃ u0 u1, hashToFieldFq2 H blsP msg 2 dst = .ok [u0, u1] ∧
      (optimizedSwuG2 (f2c [u0.1, u0.2]) = .error .other ∨
       optimizedSwuG2 (f2c [u1.1, u1.2]) = .error .other)) := by
  rcases h2f_fq2_cases H msg dst with ⟨e', hx, h2⟩ | ⟨prb, u0, u1, hx, h2⟩
  · left
    rw [(hashToG2_eq H msg dst).1 _ h2] at h
    injection h with h
    subst h
    have hc : dst.length > 255 ∨ Spec.ceilDiv 256 H.digestSize > 255 := by
      have := (C15.xmd_error_iff H msg dst 256 hd).mp ⟨_, hx⟩
      omega
    have hk := C15.xmd_error_kind H msg dst 256 hd _ hx
    unfold C15.xmdErr at hk; rw [if_pos hc] at hk
    exact ⟨hk, hc⟩
  · right
    obtain ⟨u0', u1', hus, hg⟩ := (hashToG2_eq H msg dst).2 _ h2
    injection hus with hu0 hrest
    injection hrest with hu1 _
    subst hu0; subst hu1
    rw [hg] at h
    rcases bind2_error _ _ _ _ h with h3 | h3
    · obtain ⟨h4, h5⟩ := mapToCurveG2_error _ _ h3
      exact ⟨h5, u0, u1, h2, Or.inl h4⟩
    · obtain ⟨h4, h5⟩ := mapToCurveG2_error _ _ h3
      exact ⟨h5, u0, u1, h2, Or.inr h4⟩

/-- **C10 (the `ValueError` case of `hash_to_G2` is real).**  A tag longer than 255 bytes makes
    `hash_to_G2` raise `ValueError` (RFC 9380 §5.3.1: DST must be at most 255 bytes). -/
theorem hashToG2_long_dst (H : HashFn) (msg dst : Bytes) (hd : 0 < H.digestSize)
    (hl : dst.length > 255) : hashToG2 H msg dst = .error .value := by
  obtain ⟨e, hx⟩ := (C15.xmd_error_iff H msg dst 256 hd).mpr (Or.inl hl)
  have hk := C15.xmd_error_kind H msg dst 256 hd _ hx
  unfold C15.xmdErr at hk; rw [if_pos (Or.inl hl)] at hk
  subst hk
  rcases h2f_fq2_cases H msg dst with ⟨e', hx', h2⟩ | ⟨prb, _, _, hx', _⟩
  · rw [hx] at hx'
    injection hx' with hx'
    subst hx'
    exact (hashToG2_eq H msg dst).1 _ h2
  · rw [hx] at hx'; cases hx'

/-- the hypotheses of the two theorems above are satisfiable (SHA-256, a 256-byte DST) -/
example : hashToG2 sha256Fn [] (List.replicate 256 0) = .error .value :=
  hashToG2_long_dst sha256Fn [] _ (by decide) (by rw [List.length_replicate]; decide)

end PyEcc.C10
