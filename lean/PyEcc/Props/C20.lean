/-
  PyEcc.Props.C20 — public functions are pure: no mutation of inputs/constants, history-independent.

  Three legs (DESIGN §6 C20):
   1. the executable model answers every call by a pure function of that call alone
      (`answerAll_append`, `answer_history_free`) — the correspondence harness then compares the REAL
      library, run through random interleavings, with this provably history-free model;
   2. `all_clean`: the write-effect summary of EVERY function of py_ecc, regenerated from the source on
      every run (`Gen/Effects.lean`), contains only clean targets;
   3. `clean_pure`: in any heap semantics that respects the summaries (frame condition) and in which results
      depend only on arguments and protected state, clean programs leave module constants and arguments
      unchanged after ANY history of calls and answer every call as in the initial state.
  Core Lean only.
-/
import PyEcc.Gen.Effects
import Driver

namespace PyEcc.C20
open PyEcc.Effects

/-- Every function and method of py_ecc writes only to objects it created itself, to the object under
    construction in `__init__`, or to a sanctioned memo slot (cached_property / lazy import).  A change that
    introduces `TABLE.reverse()`, `exptable[0] = …`, a module-level cache, a class-attribute write or an
    in-place mutation of an argument makes this theorem fail. -/
theorem all_clean : allClean PyEcc.Gen.Effects.effects = true := by decide +kernel

/-- no function is reported dirty (same fact, in the form the check prints) -/
theorem no_dirty_function : dirty PyEcc.Gen.Effects.effects = [] := by decide +kernel

/-- the summary really covers the library: more than 200 functions, among them the public entry points -/
theorem summary_covers :
    200 ≤ PyEcc.Gen.Effects.effects.length ∧
    (PyEcc.Gen.Effects.effects.map (·.name)).contains "py_ecc/bls/ciphersuites.py::BaseG2Ciphersuite._CoreVerify" = true ∧
    (PyEcc.Gen.Effects.effects.map (·.name)).contains "py_ecc/optimized_bls12_381/optimized_pairing.py::miller_loop" = true ∧
    (PyEcc.Gen.Effects.effects.map (·.name)).contains "py_ecc/fields/optimized_field_elements.py::FQP.__mul__" = true ∧
    (PyEcc.Gen.Effects.effects.map (·.name)).contains "py_ecc/secp256k1/secp256k1.py::ecdsa_raw_recover" = true := by
  decide +kernel

/-! ### heap semantics in which the summaries are interpreted -/

/-- A heap semantics for the library.  `Protected` marks the locations the property talks about: module-level
    constants and everything reachable from the arguments of a public call.  The two fields `frame` and `det`
    are HYPOTHESES about the semantics (they are what the syntactic analysis claims and what the history harness
    cross-examines on the real interpreter) — they are arguments of the theorem, not axioms. -/
structure Sem (Loc Val Arg Res : Type) where
  Protected : Loc → Prop
  run : FnEffect → (Loc → Val) → Arg → (Loc → Val) × Res
  /-- a clean function leaves every protected location as it found it -/
  frame : ∀ f σ a l, f.clean = true → Protected l → (run f σ a).1 l = σ l
  /-- results depend only on the arguments and the protected part of the heap (memo slots are transparent) -/
  det : ∀ f σ σ' a, (∀ l, Protected l → σ l = σ' l) → (run f σ a).2 = (run f σ' a).2

variable {Loc Val Arg Res : Type}

/-- run a history of calls, threading the heap -/
def Sem.exec (S : Sem Loc Val Arg Res) : (Loc → Val) → List (FnEffect × Arg) → (Loc → Val)
  | σ, [] => σ
  | σ, (f, a) :: h => S.exec (S.run f σ a).1 h

/-- after ANY history of calls to clean functions, module constants and arguments are unchanged -/
theorem exec_preserves (S : Sem Loc Val Arg Res) (h : List (FnEffect × Arg)) (σ : Loc → Val)
    (hc : ∀ fa ∈ h, fa.1.clean = true) : ∀ l, S.Protected l → S.exec σ h l = σ l := by
  induction h generalizing σ with
  | nil => intro l _; rfl
  | cons fa h ih =>
    intro l hl
    obtain ⟨f, a⟩ := fa
    have hf : f.clean = true := hc (f, a) (by simp)
    have := ih (S.run f σ a).1 (fun x hx => hc x (by simp [hx])) l hl
    simp only [Sem.exec]
    rw [this]
    exact S.frame f σ a l hf hl

/-- **History independence.** If every function of the program is clean, then after any interleaving of other
    calls a call returns exactly what it returns in the initial state, and no protected location has changed. -/
theorem clean_pure (S : Sem Loc Val Arg Res) (prog : List FnEffect) (hclean : allClean prog = true)
    (σ₀ : Loc → Val) (h : List (FnEffect × Arg)) (hh : ∀ fa ∈ h, fa.1 ∈ prog) (f : FnEffect) (a : Arg) :
    (S.run f (S.exec σ₀ h) a).2 = (S.run f σ₀ a).2 ∧ ∀ l, S.Protected l → S.exec σ₀ h l = σ₀ l := by
  have hc : ∀ fa ∈ h, fa.1.clean = true := by
    intro fa hfa
    have := hh fa hfa
    unfold allClean at hclean
    exact List.all_eq_true.mp hclean _ this
  have hp := exec_preserves S h σ₀ hc
  exact ⟨S.det f _ _ a hp, hp⟩

/-- two different interleavings give the same answer to the same call -/
theorem order_independent (S : Sem Loc Val Arg Res) (prog : List FnEffect) (hclean : allClean prog = true)
    (σ₀ : Loc → Val) (h₁ h₂ : List (FnEffect × Arg)) (hh₁ : ∀ fa ∈ h₁, fa.1 ∈ prog) (hh₂ : ∀ fa ∈ h₂, fa.1 ∈ prog)
    (f : FnEffect) (a : Arg) :
    (S.run f (S.exec σ₀ h₁) a).2 = (S.run f (S.exec σ₀ h₂) a).2 := by
  rw [(clean_pure S prog hclean σ₀ h₁ hh₁ f a).1, (clean_pure S prog hclean σ₀ h₂ hh₂ f a).1]

/-- the instance for py_ecc: any history over the library's own functions -/
theorem py_ecc_history_independent (S : Sem Loc Val Arg Res) (σ₀ : Loc → Val) (h : List (FnEffect × Arg))
    (hh : ∀ fa ∈ h, fa.1 ∈ PyEcc.Gen.Effects.effects) (f : FnEffect) (a : Arg) :
    (S.run f (S.exec σ₀ h) a).2 = (S.run f σ₀ a).2 ∧ ∀ l, S.Protected l → S.exec σ₀ h l = σ₀ l :=
  clean_pure S _ all_clean σ₀ h hh f a

/-- the hypotheses are satisfiable and the conclusion is not vacuous: a two-cell heap (cell `true` is a
    protected constant, cell `false` a private scratch/memo cell); the clean function bumps the scratch cell and
    returns constant + argument. -/
def toySem : Sem Bool Nat Nat Nat where
  Protected := fun l => l = true
  run := fun f σ a => if f.clean then (fun l => if l = false then σ false + 1 else σ l, σ true + a) else (fun _ => 0, 0)
  frame := by
    intro f σ a l hf hl
    simp only [hf, ↓reduceIte]
    subst hl
    simp
  det := by
    intro f σ σ' a h
    by_cases hf : f.clean = true
    · simp only [hf, ↓reduceIte]; rw [h true rfl]
    · simp [hf]

example : (toySem.run ⟨"f", 1, [.fresh], true⟩ (toySem.exec (fun _ => 7) [(⟨"g", 2, [.memo], true⟩, 3)]) 5).2 = 12 := by
  decide

/-- a dirty function is rejected: the check is not vacuous -/
example : allClean [⟨"f", 1, [.fresh], true⟩, ⟨"g", 2, [.global "ETAS"], true⟩] = false := by decide

/-! ### leg 1: the executable model is history-free by construction -/

/-- the transcript of a history extended by one call is the old transcript plus the answer to that call alone -/
theorem answerAll_append (h : List String) (l : String) :
    answerAll (h ++ [l]) = answerAll h ++ (answerLine l).toList := by
  unfold answerAll
  rw [List.filterMap_append]
  cases hl : answerLine l <;> simp [List.filterMap_cons, hl]

/-- the model's answer to a call does not depend on the history before it -/
theorem answer_history_free (h₁ h₂ : List String) (l : String) :
    (answerAll (h₁ ++ [l])).drop (answerAll h₁).length = (answerAll (h₂ ++ [l])).drop (answerAll h₂).length := by
  simp [answerAll_append]

end PyEcc.C20
