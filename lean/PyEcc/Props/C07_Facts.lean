/-
  Property C07 — concrete facts about the real curves (G1 part): the regenerated constants
  (`Gen.Consts.*`: generators, `b`, `curve_order`, `field_modulus`) satisfy the hypotheses under which
  the generic C07 theorems (`Props/C07_Bls.lean`, `Props/C07_Bn.lean`) apply, by kernel evaluation
  (`decide +kernel`, no axioms beyond the standard three) of the GENERATED curve code at `F := ZMod p`.
  A changed constant in the Python tree makes these fail.
-/
import PyEcc.Props.C07_Bls
import PyEcc.Props.C07_Bn
import PyEcc.Lemmas.CurveFactsAux
import PyEcc.Gen.OptBls
import PyEcc.Gen.OptBn
import PyEcc.Model.Curve
import PyEcc.Sem.Primes
import Mathlib.GroupTheory.OrderOfElement

set_option maxRecDepth 100000

namespace PyEcc.C07.Facts
open PyEcc.CurveSem PyEcc.Gen.Consts PyEcc.C07

/-! ### bn128 — G1 over `ZMod bnP` -/

/-- the hypotheses of the generic C07 theorems hold for the bn128 base field and `b` -/
theorem bn_field_ok : (2 : ZMod bnP) ≠ 0 ∧ (3 : ZMod bnP) ≠ 0 ∧ ((bn128_b : ℕ) : ZMod bnP) ≠ 0 := by
  decide +kernel

/-- the module constant `G1` of `bn128` passes the module's own `is_on_curve(G1, b)` -/
theorem bn_G1_on_curve_ref :
    Gen.RefBn.is_on_curve (ptRef (ZMod bnP) bn128_G1) ((bn128_b : ℕ) : ZMod bnP) = true := by
  decide +kernel

/-- the module constant `G1` of `optimized_bn128` (projective, `z = 1`) passes `is_on_curve(G1, b)` -/
theorem bn_G1_on_curve_opt :
    Gen.OptBn.is_on_curve (ptOpt (ZMod bnP) optimized_bn128_G1) ((optimized_bn128_b : ℕ) : ZMod bnP) = true := by
  decide +kernel

/-- `G1` is not the point at infinity (both representations), and the two modules' `G1` agree -/
theorem bn_G1_ne_inf :
    ptRef (ZMod bnP) bn128_G1 ≠ none
      ∧ Gen.OptBn.is_inf (ptOpt (ZMod bnP) optimized_bn128_G1) = false
      ∧ some (Gen.OptBn.normalize (ptOpt (ZMod bnP) optimized_bn128_G1)) = ptRef (ZMod bnP) bn128_G1 := by
  decide +kernel

/-- `multiply(G1, curve_order)` of the reference module returns ∞ (kernel evaluation of the generated
    double-and-add code, 255-bit scalars, field divisions in `ZMod p`) -/
theorem bn_r_G1_ref :
    Gen.RefBn.multiply (ptRef (ZMod bnP) bn128_G1) bn128_curve_order = .ok none := by
  decide +kernel

/-- `multiply(G1, curve_order)` of the optimized module returns a point with `z = 0` -/
theorem bn_r_G1_opt :
    Gen.OptBn.is_inf (Gen.OptBn.multiply (ptOpt (ZMod bnP) optimized_bn128_G1) optimized_bn128_curve_order) = true := by
  decide +kernel

/-- `-b` is not a cube in `ZMod p`: `x³ + b = 0` has no root (cubic-residue criterion
    `(-b)^((p-1)/3) ≠ 1`, evaluated by the kernel) -/
theorem bn_no_cube_root : ∀ x : ZMod bnP, x ^ 3 + ((bn128_b : ℕ) : ZMod bnP) ≠ 0 :=
  no_cube_root (p := bnP) bn128_b (by decide +kernel) (by decide +kernel) bn_field_ok.2.2 (by decide +kernel)

/-- no point of order two on `E(Fp)`, Python level: `is_on_curve((x, 0), b)` is `False` for every `x`,
    so `double` never takes its `y == 0` branch on a valid `FQ` point -/
theorem bn_no_order_two_ref (x : ZMod bnP) :
    Gen.RefBn.is_on_curve (some (x, 0)) ((bn128_b : ℕ) : ZMod bnP) = false := by
  rw [Bool.eq_false_iff, ne_eq, Bn.gen_is_on_curve_iff]
  intro h
  apply bn_no_cube_root x
  simp only [sOn] at h
  linear_combination -h

/-- no point of order two on `E(Fp)`, Mathlib level: `P + P = 0` only for `P = 0` -/
theorem bn_no_order_two (P : (W ((bn128_b : ℕ) : ZMod bnP)).Point) (h : P + P = 0) : P = 0 :=
  no_two_torsion bn_field_ok.1 bn_no_cube_root P h

/-- `G1` is (the representation of) a Mathlib point of `y² = x³ + b` over `ZMod p` of exact order
    `curve_order` -/
theorem bn_G1_point : ∃ G : (W ((bn128_b : ℕ) : ZMod bnP)).Point,
    reprRef G = ptRef (ZMod bnP) bn128_G1 ∧ G ≠ 0 ∧ bn128_curve_order • G = 0
      ∧ addOrderOf G = bn128_curve_order := by
  obtain ⟨h2, h3, hb⟩ := bn_field_ok
  obtain ⟨G, hG⟩ := (Bn.ref_is_on_curve_iff h2 h3 hb _).mp bn_G1_on_curve_ref
  have hG0 : G ≠ 0 := by
    rintro rfl
    exact bn_G1_ne_inf.1 hG.symm
  have hr : bn128_curve_order • G = 0 := by
    have := Bn.ref_multiply_refines h2 G bn128_curve_order
    rw [hG, bn_r_G1_ref] at this
    exact Bn.reprRef_injective (Except.ok.inj this).symm
  exact ⟨G, hG, hG0, hr, addOrderOf_eq_prime hr hG0⟩

/-- scalars act on `G1` modulo `curve_order`: `multiply(G1, n) = multiply(G1, n % curve_order)` -/
theorem bn_G1_multiply_mod (n : ℕ) :
    Gen.RefBn.multiply (ptRef (ZMod bnP) bn128_G1) n
      = Gen.RefBn.multiply (ptRef (ZMod bnP) bn128_G1) (n % bn128_curve_order) :=
  Bn.ref_multiply_mod bn_field_ok.1 bn_field_ok.2.1 bn_field_ok.2.2 bn_G1_on_curve_ref _ bn_r_G1_ref n

/-! ### BLS12-381 — G1 over `ZMod blsP` -/

/-- the hypotheses of the generic C07 theorems hold for the BLS12-381 base field and `b` -/
theorem bls_field_ok : (2 : ZMod blsP) ≠ 0 ∧ (3 : ZMod blsP) ≠ 0 ∧ ((bls12_381_b : ℕ) : ZMod blsP) ≠ 0 := by
  decide +kernel

/-- the module constant `G1` of `bls12_381` passes the module's own `is_on_curve(G1, b)` -/
theorem bls_G1_on_curve_ref :
    Gen.RefBls.is_on_curve (ptRef (ZMod blsP) bls12_381_G1) ((bls12_381_b : ℕ) : ZMod blsP) = true := by
  decide +kernel

/-- the module constant `G1` of `optimized_bls12_381` (projective, `z = 1`) passes `is_on_curve(G1, b)` -/
theorem bls_G1_on_curve_opt :
    Gen.OptBls.is_on_curve (ptOpt (ZMod blsP) optimized_bls12_381_G1) ((optimized_bls12_381_b : ℕ) : ZMod blsP) = true := by
  decide +kernel

/-- `G1` is not the point at infinity (both representations), and the two modules' `G1` agree -/
theorem bls_G1_ne_inf :
    ptRef (ZMod blsP) bls12_381_G1 ≠ none
      ∧ Gen.OptBls.is_inf (ptOpt (ZMod blsP) optimized_bls12_381_G1) = false
      ∧ some (Gen.OptBls.normalize (ptOpt (ZMod blsP) optimized_bls12_381_G1)) = ptRef (ZMod blsP) bls12_381_G1 := by
  decide +kernel

/-- `multiply(G1, curve_order)` of the reference module returns ∞ (kernel evaluation of the generated
    double-and-add code, 255-bit scalars, field divisions in `ZMod p`) -/
theorem bls_r_G1_ref :
    Gen.RefBls.multiply (ptRef (ZMod blsP) bls12_381_G1) bls12_381_curve_order = .ok none := by
  decide +kernel

/-- `multiply(G1, curve_order)` of the optimized module returns a point with `z = 0` -/
theorem bls_r_G1_opt :
    Gen.OptBls.is_inf (Gen.OptBls.multiply (ptOpt (ZMod blsP) optimized_bls12_381_G1) optimized_bls12_381_curve_order) = true := by
  decide +kernel

/-- `-b` is not a cube in `ZMod p`: `x³ + b = 0` has no root (cubic-residue criterion
    `(-b)^((p-1)/3) ≠ 1`, evaluated by the kernel) -/
theorem bls_no_cube_root : ∀ x : ZMod blsP, x ^ 3 + ((bls12_381_b : ℕ) : ZMod blsP) ≠ 0 :=
  no_cube_root (p := blsP) bls12_381_b (by decide +kernel) (by decide +kernel) bls_field_ok.2.2 (by decide +kernel)

/-- no point of order two on `E(Fp)`, Python level: `is_on_curve((x, 0), b)` is `False` for every `x`,
    so `double` never takes its `y == 0` branch on a valid `FQ` point -/
theorem bls_no_order_two_ref (x : ZMod blsP) :
    Gen.RefBls.is_on_curve (some (x, 0)) ((bls12_381_b : ℕ) : ZMod blsP) = false := by
  rw [Bool.eq_false_iff, ne_eq, Bls.gen_is_on_curve_iff]
  intro h
  apply bls_no_cube_root x
  simp only [sOn] at h
  linear_combination -h

/-- no point of order two on `E(Fp)`, Mathlib level: `P + P = 0` only for `P = 0` -/
theorem bls_no_order_two (P : (W ((bls12_381_b : ℕ) : ZMod blsP)).Point) (h : P + P = 0) : P = 0 :=
  no_two_torsion bls_field_ok.1 bls_no_cube_root P h

/-- `G1` is (the representation of) a Mathlib point of `y² = x³ + b` over `ZMod p` of exact order
    `curve_order` -/
theorem bls_G1_point : ∃ G : (W ((bls12_381_b : ℕ) : ZMod blsP)).Point,
    reprRef G = ptRef (ZMod blsP) bls12_381_G1 ∧ G ≠ 0 ∧ bls12_381_curve_order • G = 0
      ∧ addOrderOf G = bls12_381_curve_order := by
  obtain ⟨h2, h3, hb⟩ := bls_field_ok
  obtain ⟨G, hG⟩ := (Bls.ref_is_on_curve_iff h2 h3 hb _).mp bls_G1_on_curve_ref
  have hG0 : G ≠ 0 := by
    rintro rfl
    exact bls_G1_ne_inf.1 hG.symm
  have hr : bls12_381_curve_order • G = 0 := by
    have := Bls.ref_multiply_refines h2 G bls12_381_curve_order
    rw [hG, bls_r_G1_ref] at this
    exact Bls.reprRef_injective (Except.ok.inj this).symm
  exact ⟨G, hG, hG0, hr, addOrderOf_eq_prime hr hG0⟩

/-- scalars act on `G1` modulo `curve_order`: `multiply(G1, n) = multiply(G1, n % curve_order)` -/
theorem bls_G1_multiply_mod (n : ℕ) :
    Gen.RefBls.multiply (ptRef (ZMod blsP) bls12_381_G1) n
      = Gen.RefBls.multiply (ptRef (ZMod blsP) bls12_381_G1) (n % bls12_381_curve_order) :=
  Bls.ref_multiply_mod bls_field_ok.1 bls_field_ok.2.1 bls_field_ok.2.2 bls_G1_on_curve_ref _ bls_r_G1_ref n

/-- the executable model's typed constants: `blsG1` is on the curve `blsB` (evaluated at the model
    type `Fq blsP`, i.e. with the modelled Python `FQ` arithmetic) and has `blsR • blsG1 = ∞` -/
theorem bls_G1_model :
    Gen.OptBls.is_on_curve blsG1 blsB = true ∧ Gen.OptBls.is_inf blsG1 = false
      ∧ Gen.OptBls.is_inf (Gen.OptBls.multiply blsG1 blsR) = true := by
  decide +kernel

end PyEcc.C07.Facts
