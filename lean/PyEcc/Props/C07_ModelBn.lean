/-
  PyEcc.Props.C07_ModelBn — property C07 for the executable model types, `optimized_bn128` curve
  functions (`Gen.OptBn.{add, double, neg, multiply, eq, is_on_curve}`, generated from
  `py_ecc/optimized_bn128/optimized_curve.py`) run on
      G1 : `BnG1Pt = Fq bnP × Fq bnP × Fq bnP`                    (Python `FQ` objects), `b = bnB = FQ(3)`
      G2 : `BnG2Pt = (Fqp .opt bnP bnMc2)³`   (Python optimized `FQ2` objects), `b2 = bnB2`.
  Same structure as `Props/C07_Model.lean` (BLS12-381): corollaries of `Props/C07Opt_Bn.lean` through
  `Sem/TransferFq.lean` (G1, direct) and `Sem/TransferFqp.lean` / `Sem/TransferRefineBn.lean`
  (G2, through `toQ : Fqp .opt bnP bnMc2 → K2bn = F_p[X]/(X²+1)` on canonical elements).
  "Equal" is the library's projective equality `eq`; G2 triples are required to be canonical (`CanonT`).
-/
import PyEcc.Sem.TransferFq
import PyEcc.Sem.TransferFqp
import PyEcc.Props.C07_FactsG2

set_option linter.unusedSectionVars false
set_option maxRecDepth 100000

namespace PyEcc.C07M.Bn
open PyEcc PyEcc.Gen PyEcc.Gen.Consts PyEcc.FqpSem PyEcc.Transfer WeierstrassCurve

/-! ## bn128 G1: laws for on-curve `FQ` triples -/

section G1
variable {X Y Z X' Y' : BnG1Pt}

private theorem f2 : (2 : Fq bnP) ≠ 0 := fbn_field_ok.1
private theorem f3 : (3 : Fq bnP) ≠ 0 := fbn_field_ok.2.1
private theorem fb : bnB ≠ 0 := fbn_field_ok.2.2

/-- bn128 G1 commutativity up to `eq`. -/
theorem g1_add_comm (hX : OptBn.is_on_curve X bnB = true) (hY : OptBn.is_on_curve Y bnB = true) :
    OptBn.eq (OptBn.add X Y) (OptBn.add Y X) = true := C07Opt.Bn.opt_add_comm_eq f2 f3 fb hX hY

/-- bn128 G1 associativity up to `eq` (every degenerate configuration included). -/
theorem g1_add_assoc (hX : OptBn.is_on_curve X bnB = true) (hY : OptBn.is_on_curve Y bnB = true)
    (hZ : OptBn.is_on_curve Z bnB = true) :
    OptBn.eq (OptBn.add (OptBn.add X Y) Z) (OptBn.add X (OptBn.add Y Z)) = true :=
  C07Opt.Bn.opt_add_assoc_eq f2 f3 fb hX hY hZ

/-- bn128 G1 identity: any `z = 0` triple (e.g. `Z1 = (1, 1, 0)`) is neutral on both sides, for ALL `X`. -/
theorem g1_add_zero (X Z : BnG1Pt) (hZ : Z.2.2 = 0) :
    OptBn.eq (OptBn.add X Z) X = true ∧ OptBn.eq (OptBn.add Z X) X = true :=
  C07Opt.Bn.opt_add_zero_eq X Z hZ

/-- bn128 G1 inverse: `add(X, neg(X))` and `add(neg(X), X)` are ∞, for ALL triples `X`. -/
theorem g1_add_neg (X : BnG1Pt) :
    OptBn.is_inf (OptBn.add X (OptBn.neg X)) = true ∧ OptBn.is_inf (OptBn.add (OptBn.neg X) X) = true :=
  C07Opt.Bn.opt_add_neg f2 X

/-- bn128 G1 closure of the on-curve triples under `add`, `double`, `neg`, `multiply(·, n)`. -/
theorem g1_closed (hX : OptBn.is_on_curve X bnB = true) (hY : OptBn.is_on_curve Y bnB = true) (n : ℕ) :
    OptBn.is_on_curve (OptBn.add X Y) bnB = true ∧ OptBn.is_on_curve (OptBn.double X) bnB = true
      ∧ OptBn.is_on_curve (OptBn.neg X) bnB = true ∧ OptBn.is_on_curve (OptBn.multiply X n) bnB = true :=
  ⟨C07Opt.Bn.opt_add_closed f2 f3 fb hX hY, C07Opt.Bn.opt_double_closed f2 f3 fb hX,
   C07Opt.Bn.opt_neg_closed f2 f3 fb hX, C07Opt.Bn.opt_multiply_closed f2 f3 fb hX n⟩

/-- bn128 G1: `multiply` is additive and multiplicative in the scalar, up to `eq`. -/
theorem g1_multiply_add_mul (hX : OptBn.is_on_curve X bnB = true) (m n : ℕ) :
    OptBn.eq (OptBn.multiply X (m + n)) (OptBn.add (OptBn.multiply X m) (OptBn.multiply X n)) = true
      ∧ OptBn.eq (OptBn.multiply (OptBn.multiply X m) n) (OptBn.multiply X (m * n)) = true :=
  ⟨C07Opt.Bn.opt_multiply_add_eq f2 f3 fb hX m n, C07Opt.Bn.opt_multiply_mul_eq f2 f3 fb hX m n⟩

/-- bn128 G1: scalars act modulo any `r` with `multiply(X, r) = ∞`. -/
theorem g1_multiply_mod (hX : OptBn.is_on_curve X bnB = true) (r : ℕ)
    (hr : OptBn.is_inf (OptBn.multiply X r) = true) (n : ℕ) :
    OptBn.eq (OptBn.multiply X n) (OptBn.multiply X (n % r)) = true :=
  C07Opt.Bn.opt_multiply_mod_eq f2 f3 fb hX r hr n

/-- bn128 G1: `add` and `multiply` respect `eq` (ALL triples). -/
theorem g1_congr (eX : OptBn.eq X X' = true) (eY : OptBn.eq Y Y' = true) (n : ℕ) :
    OptBn.eq (OptBn.add X Y) (OptBn.add X' Y') = true
      ∧ OptBn.eq (OptBn.multiply X n) (OptBn.multiply X' n) = true :=
  ⟨C07Opt.Bn.opt_add_congr f2 eX eY, C07Opt.Bn.opt_multiply_congr f2 eX n⟩

end G1

/-! ## bn128 G2: laws for canonical on-curve `FQ2` triples -/

section G2
variable {X Y Z X' Y' : BnG2Pt}

private theorem k2 : (2 : K2bn) ≠ 0 := k2bn_field_ok.1
private theorem k3 : (3 : K2bn) ≠ 0 := k2bn_field_ok.2.1
private theorem cb : Canon bnB2 := k2bn_field_ok.2.2.1
private theorem kb : (toQ bnB2 : K2bn) ≠ 0 := k2bn_field_ok.2.2.2

/-- bn128 G2 commutativity up to `eq`. -/
theorem g2_add_comm (cX : CanonT X) (cY : CanonT Y) (hX : OptBn.is_on_curve X bnB2 = true)
    (hY : OptBn.is_on_curve Y bnB2 = true) : OptBn.eq (OptBn.add X Y) (OptBn.add Y X) = true := by
  classical exact Bn.via_add_comm_eq (K := K2bn) goodHom_F2bn k2 k3 cb kb cX cY hX hY

/-- bn128 G2 associativity up to `eq` (every degenerate configuration included). -/
theorem g2_add_assoc (cX : CanonT X) (cY : CanonT Y) (cZ : CanonT Z)
    (hX : OptBn.is_on_curve X bnB2 = true) (hY : OptBn.is_on_curve Y bnB2 = true)
    (hZ : OptBn.is_on_curve Z bnB2 = true) :
    OptBn.eq (OptBn.add (OptBn.add X Y) Z) (OptBn.add X (OptBn.add Y Z)) = true := by
  classical exact Bn.via_add_assoc_eq (K := K2bn) goodHom_F2bn k2 k3 cb kb cX cY cZ hX hY hZ

/-- bn128 G2 identity: any canonical `z = 0` triple (e.g. `Z2`) is neutral on both sides. -/
theorem g2_add_zero (cX : CanonT X) (cZ : CanonT Z) (hZ : Z.2.2 = 0) :
    OptBn.eq (OptBn.add X Z) X = true ∧ OptBn.eq (OptBn.add Z X) X = true := by
  classical exact Bn.via_add_zero_eq (K := K2bn) goodHom_F2bn cX cZ hZ

/-- bn128 G2 inverse: `add(X, neg(X))` and `add(neg(X), X)` are ∞, for all canonical triples. -/
theorem g2_add_neg (cX : CanonT X) :
    OptBn.is_inf (OptBn.add X (OptBn.neg X)) = true ∧ OptBn.is_inf (OptBn.add (OptBn.neg X) X) = true := by
  classical exact Bn.via_add_neg (K := K2bn) goodHom_F2bn k2 cX

/-- bn128 G2 closure of the canonical on-curve triples under `add`, `double`, `neg`, `multiply(·, n)`. -/
theorem g2_closed (cX : CanonT X) (cY : CanonT Y) (hX : OptBn.is_on_curve X bnB2 = true)
    (hY : OptBn.is_on_curve Y bnB2 = true) (n : ℕ) :
    (CanonT (OptBn.add X Y) ∧ OptBn.is_on_curve (OptBn.add X Y) bnB2 = true)
      ∧ (CanonT (OptBn.double X) ∧ OptBn.is_on_curve (OptBn.double X) bnB2 = true)
      ∧ (CanonT (OptBn.neg X) ∧ OptBn.is_on_curve (OptBn.neg X) bnB2 = true)
      ∧ (CanonT (OptBn.multiply X n) ∧ OptBn.is_on_curve (OptBn.multiply X n) bnB2 = true) := by
  classical
  obtain ⟨ca, cd, cn, cm, _⟩ := canonT_ops_bn cX cY n
  exact ⟨⟨ca, Bn.via_add_closed (K := K2bn) goodHom_F2bn k2 k3 cb kb cX cY hX hY⟩,
    ⟨cd, Bn.via_double_closed (K := K2bn) goodHom_F2bn k2 k3 cb kb cX hX⟩,
    ⟨cn, Bn.via_neg_closed (K := K2bn) goodHom_F2bn k2 k3 cb kb cX hX⟩,
    ⟨cm, Bn.via_multiply_closed (K := K2bn) goodHom_F2bn k2 k3 cb kb cX hX n⟩⟩

/-- bn128 G2: `multiply` is additive and multiplicative in the scalar, up to `eq`. -/
theorem g2_multiply_add_mul (cX : CanonT X) (hX : OptBn.is_on_curve X bnB2 = true) (m n : ℕ) :
    OptBn.eq (OptBn.multiply X (m + n)) (OptBn.add (OptBn.multiply X m) (OptBn.multiply X n)) = true
      ∧ OptBn.eq (OptBn.multiply (OptBn.multiply X m) n) (OptBn.multiply X (m * n)) = true := by
  classical
  exact ⟨Bn.via_multiply_add_eq (K := K2bn) goodHom_F2bn k2 k3 cb kb cX hX m n,
    Bn.via_multiply_mul_eq (K := K2bn) goodHom_F2bn k2 k3 cb kb cX hX m n⟩

/-- bn128 G2: scalars act modulo any `r` with `multiply(X, r) = ∞`. -/
theorem g2_multiply_mod (cX : CanonT X) (hX : OptBn.is_on_curve X bnB2 = true) (r : ℕ)
    (hr : OptBn.is_inf (OptBn.multiply X r) = true) (n : ℕ) :
    OptBn.eq (OptBn.multiply X n) (OptBn.multiply X (n % r)) = true := by
  classical exact Bn.via_multiply_mod_eq (K := K2bn) goodHom_F2bn k2 k3 cb kb cX hX r hr n

/-- bn128 G2: `add` and `multiply` respect `eq` (canonical triples). -/
theorem g2_congr (cX : CanonT X) (cY : CanonT Y) (cX' : CanonT X') (cY' : CanonT Y')
    (eX : OptBn.eq X X' = true) (eY : OptBn.eq Y Y' = true) (n : ℕ) :
    OptBn.eq (OptBn.add X Y) (OptBn.add X' Y') = true
      ∧ OptBn.eq (OptBn.multiply X n) (OptBn.multiply X' n) = true := by
  classical
  exact ⟨Bn.via_add_congr (K := K2bn) goodHom_F2bn k2 cX cX' cY cY' eX eY,
    Bn.via_multiply_congr (K := K2bn) goodHom_F2bn k2 cX cX' eX n⟩

end G2

/-! ## the generators of `optimized_bn128` at the model types -/

/-- kernel evaluation with the modelled `FQ` arithmetic: `G1` is on the curve, is not ∞, and
    `multiply(G1, curve_order)` is ∞ -/
theorem bnG1_facts : OptBn.is_on_curve bnG1 bnB = true ∧ OptBn.is_inf bnG1 = false
    ∧ OptBn.is_inf (OptBn.multiply bnG1 optimized_bn128_curve_order) = true := by decide +kernel

/-- **bn128 G1 generator**: represents a Mathlib point of `y² = x³ + 3` over `Fq bnP` with
    `G ≠ 0`, `curve_order • G = 0`. -/
theorem bnG1_point : ∃ G : CurvePt bnB,
    Represents bnG1 G ∧ G ≠ 0 ∧ optimized_bn128_curve_order • G = 0 := by
  obtain ⟨hon, hinf, hr⟩ := bnG1_facts
  obtain ⟨G, r⟩ := (on_curve_iff_Fbn bnG1).mp hon
  refine ⟨G, r, fun e => ?_, (opt_is_inf_refines_Fbn (opt_multiply_refines_Fbn r _)).mp hr⟩
  have := (opt_is_inf_refines_Fbn r).mpr e
  rw [hinf] at this; exact Bool.noConfusion this

/-- **bn128 G2 generator**: canonical, on the curve, and its value represents a Mathlib point over
    `K2bn` with `G ≠ 0`, `curve_order • G = 0`. -/
theorem bnG2_point [DecidableEq K2bn] : CanonT bnG2 ∧ OptBn.is_on_curve bnG2 bnB2 = true ∧
    ∃ G : CurvePt (toQ bnB2 : K2bn),
      Represents (mapT toQ bnG2) G ∧ G ≠ 0 ∧ optimized_bn128_curve_order • G = 0 := by
  obtain ⟨hon, hinf, hr⟩ := C07.Facts.bn_G2_opt
  have c : CanonT bnG2 := by decide +kernel
  obtain ⟨G, r⟩ := (on_curve_iff_F2bn c).mp hon
  refine ⟨c, hon, G, r, fun e => ?_, ?_⟩
  · have := (opt_is_inf_refines_F2bn c r).mpr e
    rw [show OptBn.is_inf bnG2 = false from hinf] at this; exact Bool.noConfusion this
  · exact (opt_is_inf_refines_F2bn (canonT_ops_bn c c _).2.2.2.1
      (opt_multiply_refines_F2bn c r _)).mp hr

/-! ### non-vacuity: the laws at the generators -/

example : OptBn.eq (OptBn.add bnG1 (OptBn.double bnG1)) (OptBn.add (OptBn.double bnG1) bnG1) = true :=
  g1_add_comm bnG1_facts.1 (g1_closed bnG1_facts.1 bnG1_facts.1 0).2.1

example : OptBn.eq (OptBn.add bnG2 (OptBn.double bnG2)) (OptBn.add (OptBn.double bnG2) bnG2) = true :=
  have c : CanonT bnG2 := by decide +kernel
  have h := C07.Facts.bn_G2_opt.1
  have k := g2_closed c c h h 0
  g2_add_comm c k.2.1.1 h k.2.1.2

end PyEcc.C07M.Bn
