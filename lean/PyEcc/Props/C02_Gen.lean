/-
  PyEcc.Props.C02_Gen — property C02 (**`Verify` accepts EXACTLY the canonical signature**) stated DIRECTLY ABOUT THE
  GENERATED CODE `PyEcc.Gen.ExtraBls.*` (`py_ecc/bls/ciphersuites.py` as translated from the repository on this run), with the
  generated `hash_to_G2` (`Gen.ExtraSwu`), `G2_to_signature` (`Gen.ExtraCodec`) and curve operations (`Gen.OptBls`) wherever a
  theorem names the candidate signature by how it was produced.

  Each theorem is the model theorem of `Props/C02_Proto.lean` / `Props/C01_ProtoModel.lean` rewritten with the tie theorems
  (`Props/TieBls.lean`, `TieCodec.lean`, `TieSwu.lean`).  Hypotheses are unchanged: the ONE named hypothesis
  `NdSem.ModelBilinearCode` (the code's `pairing` is bilinear on subgroup points; `C01.Gen.modelBilinearCode_iff_gen` reads it
  on the generated `pairing`), honest key `1 ≤ sk < curve_order`, and — in the cross-suite/cross-message theorems — the
  visible hash-(in)equality hypothesis (the random-oracle question, not provable).  `[DecidableEq K2]` of the model theorems is
  discharged classically inside the proofs.

  `vmsg s pk m` (`Lemmas/BlsSem.lean`) is plain list notation for the message the suite hashes: `pk ++ m` in the
  message-augmentation suite, `m` otherwise.
-/
import PyEcc.Props.TieBls
import PyEcc.Props.TieCodec
import PyEcc.Props.TieSwu
import PyEcc.Props.C01_ProtoModel

namespace PyEcc.C02.Gen
open PyEcc PyEcc.Gen.Consts PyEcc.Transfer PyEcc.BlsSem PyEcc.NdSem

/-! ## 1. The two headline equivalences -/

/-- **The generated `Verify` accepts exactly the canonical signature.**  Assuming only `ModelBilinearCode`: for every suite,
    hash function, `int` secret key `1 ≤ sk < curve_order` with `pk = SkToPk(sk)` (generated), message `m` and candidate byte
    string `cand` of ANY length: generated `Verify(pk, m, cand) = True  ↔  generated Sign(sk, m) = cand`. -/
theorem verify_iff (mc : ModelBilinearCode) (H : HashFn) (s : Suite) (sk : ℤ)
    (hsk : 1 ≤ sk ∧ sk < (suites_curve_order : ℤ)) (m pk cand : Bytes)
    (hpk : Gen.ExtraBls.SkToPk (.int sk) = .ok pk) :
    Gen.ExtraBls.Verify H s pk m cand = .returned true ↔ Gen.ExtraBls.Sign H s (.int sk) m = .ok cand := by
  classical
  rw [Tie.Bls.SkToPk_eq] at hpk
  rw [Tie.Bls.Verify_eq, Tie.Bls.Sign_eq]
  exact C02.verify_iff_of_modelBilinearCode mc H s sk hsk m pk cand hpk

/-- **The generated `PopVerify` accepts exactly the canonical proof**: `PopVerify(pk, cand) = True ↔ PopProve(sk) = cand`,
    assuming only `ModelBilinearCode`. -/
theorem popVerify_iff (mc : ModelBilinearCode) (H : HashFn) (sk : ℤ)
    (hsk : 1 ≤ sk ∧ sk < (suites_curve_order : ℤ)) (pk cand : Bytes)
    (hpk : Gen.ExtraBls.SkToPk (.int sk) = .ok pk) :
    Gen.ExtraBls.PopVerify H pk cand = .returned true ↔ Gen.ExtraBls.PopProve H (.int sk) = .ok cand := by
  classical
  rw [Tie.Bls.SkToPk_eq] at hpk
  rw [Tie.Bls.PopVerify_eq, Tie.Bls.PopProve_eq]
  exact C02.popVerify_iff_of_modelBilinearCode mc H sk hsk pk cand hpk

/-! ## 2. Corollaries: every class of wrong candidate -/

/-- **Any string other than the canonical signature is rejected by the generated `Verify`** — single-bit flips anywhere (data
    or flag bits), truncations, extensions, re-encodings: if the generated `Sign(sk, m)` returned `sig` and `cand ≠ sig` then
    `Verify(pk, m, cand)` returns `False` (it does not raise).  Assuming only `ModelBilinearCode`. -/
theorem verify_rejects_ne (mc : ModelBilinearCode) (H : HashFn) (s : Suite) (sk : ℤ)
    (hsk : 1 ≤ sk ∧ sk < (suites_curve_order : ℤ)) (m pk sig cand : Bytes)
    (hpk : Gen.ExtraBls.SkToPk (.int sk) = .ok pk) (hsig : Gen.ExtraBls.Sign H s (.int sk) m = .ok sig)
    (hne : cand ≠ sig) : Gen.ExtraBls.Verify H s pk m cand = .returned false := by
  classical
  rw [Tie.Bls.SkToPk_eq] at hpk
  rw [Tie.Bls.Sign_eq] at hsig
  rw [Tie.Bls.Verify_eq]
  exact C02.verify_rejects_ne_of_modelBilinear mc.toModelBilinear H s sk hsk m pk sig cand hpk hsig hne

/-- **Any string other than the generated `PopProve(sk)` makes the generated `PopVerify` return `False`**, assuming only
    `ModelBilinearCode`. -/
theorem popVerify_rejects_ne (mc : ModelBilinearCode) (H : HashFn) (sk : ℤ)
    (hsk : 1 ≤ sk ∧ sk < (suites_curve_order : ℤ)) (pk proof cand : Bytes)
    (hpk : Gen.ExtraBls.SkToPk (.int sk) = .ok pk) (hproof : Gen.ExtraBls.PopProve H (.int sk) = .ok proof)
    (hne : cand ≠ proof) : Gen.ExtraBls.PopVerify H pk cand = .returned false := by
  classical
  rw [Tie.Bls.SkToPk_eq] at hpk
  rw [Tie.Bls.PopProve_eq] at hproof
  rw [Tie.Bls.PopVerify_eq]
  exact C02.popVerify_rejects_ne_of_modelBilinear mc.toModelBilinear H sk hsk pk proof cand hpk hproof hne

/-- **`−S` is rejected.**  With `mp = hash_to_G2(m', DST)` (generated; `m'` the suite-augmented message) not the identity, the
    generated `G2_to_signature(neg(multiply(mp, sk)))` makes the generated `Verify` return `False`.  Assuming only
    `ModelBilinearCode`. -/
theorem verify_rejects_neg (mc : ModelBilinearCode) (H : HashFn) (s : Suite) (sk : ℤ)
    (hsk : 1 ≤ sk ∧ sk < (suites_curve_order : ℤ)) (m pk cand : Bytes)
    (hpk : Gen.ExtraBls.SkToPk (.int sk) = .ok pk) (mp : G2Pt)
    (hmp : Gen.ExtraSwu.hash_to_G2 (vmsg s pk m) (Gen.ExtraBls.DST s) H = .ok mp)
    (hinf : Gen.OptBls.is_inf mp = false)
    (hc : Gen.ExtraCodec.G2_to_signature (Gen.OptBls.neg (Gen.OptBls.multiply mp sk.toNat)) = .ok cand) :
    Gen.ExtraBls.Verify H s pk m cand = .returned false := by
  classical
  rw [Tie.Bls.SkToPk_eq] at hpk
  rw [Tie.hash_to_G2_eq, Tie.Bls.DST_eq] at hmp
  rw [Tie.G2_to_signature_eq] at hc
  rw [Tie.Bls.Verify_eq]
  exact C02.verify_rejects_neg_of_modelBilinear mc.toModelBilinear H s sk hsk m pk cand hpk mp hmp hinf hc

/-- **`2S` is rejected** (hash point not the identity): the generated `G2_to_signature(double(multiply(mp, sk)))` makes the
    generated `Verify` return `False`.  Assuming only `ModelBilinearCode`. -/
theorem verify_rejects_double (mc : ModelBilinearCode) (H : HashFn) (s : Suite) (sk : ℤ)
    (hsk : 1 ≤ sk ∧ sk < (suites_curve_order : ℤ)) (m pk cand : Bytes)
    (hpk : Gen.ExtraBls.SkToPk (.int sk) = .ok pk) (mp : G2Pt)
    (hmp : Gen.ExtraSwu.hash_to_G2 (vmsg s pk m) (Gen.ExtraBls.DST s) H = .ok mp)
    (hinf : Gen.OptBls.is_inf mp = false)
    (hc : Gen.ExtraCodec.G2_to_signature (Gen.OptBls.double (Gen.OptBls.multiply mp sk.toNat)) = .ok cand) :
    Gen.ExtraBls.Verify H s pk m cand = .returned false := by
  classical
  rw [Tie.Bls.SkToPk_eq] at hpk
  rw [Tie.hash_to_G2_eq, Tie.Bls.DST_eq] at hmp
  rw [Tie.G2_to_signature_eq] at hc
  rw [Tie.Bls.Verify_eq]
  exact C02.verify_rejects_double_of_modelBilinear mc.toModelBilinear H s sk hsk m pk cand hpk mp hmp hinf hc

/-- **`S + T` is rejected for every point `T ≠ ∞` of the twist curve** (a triple `T` of `FQ2`s with reduced coefficients passing
    the generated `is_on_curve`): whether `T` lies in the `r`-torsion (then the pairing equation fails) or not (e.g. cofactor
    torsion: then the candidate fails `subgroup_check`), the generated `G2_to_signature(add(multiply(mp, sk), T))` makes the
    generated `Verify` return `False`.  Assuming only `ModelBilinearCode`. -/
theorem verify_rejects_add (mc : ModelBilinearCode) (H : HashFn) (s : Suite) (sk : ℤ)
    (hsk : 1 ≤ sk ∧ sk < (suites_curve_order : ℤ)) (m pk cand : Bytes)
    (hpk : Gen.ExtraBls.SkToPk (.int sk) = .ok pk) (mp : G2Pt)
    (hmp : Gen.ExtraSwu.hash_to_G2 (vmsg s pk m) (Gen.ExtraBls.DST s) H = .ok mp)
    (T : G2Pt) (cT : CanonT T) (honT : Gen.OptBls.is_on_curve T blsB2 = true) (hT : Gen.OptBls.is_inf T = false)
    (hc : Gen.ExtraCodec.G2_to_signature (Gen.OptBls.add (Gen.OptBls.multiply mp sk.toNat) T) = .ok cand) :
    Gen.ExtraBls.Verify H s pk m cand = .returned false := by
  classical
  rw [Tie.Bls.SkToPk_eq] at hpk
  rw [Tie.hash_to_G2_eq, Tie.Bls.DST_eq] at hmp
  rw [Tie.G2_to_signature_eq] at hc
  rw [Tie.Bls.Verify_eq]
  exact C02.verify_rejects_add_of_modelBilinear mc.toModelBilinear H s sk hsk m pk cand hpk mp hmp T cT honT hT hc

/-- **The identity encoding** (what the generated `G2_to_signature(Z2)` returns: `0xc0 00 … 00`) is accepted by the generated
    `Verify` iff the hash point itself is the identity — so it is rejected for every message whose hash is not `∞`.  Assuming
    only `ModelBilinearCode`. -/
theorem verify_identity_iff (mc : ModelBilinearCode) (H : HashFn) (s : Suite) (sk : ℤ)
    (hsk : 1 ≤ sk ∧ sk < (suites_curve_order : ℤ)) (m pk cand : Bytes)
    (hpk : Gen.ExtraBls.SkToPk (.int sk) = .ok pk) (mp : G2Pt)
    (hmp : Gen.ExtraSwu.hash_to_G2 (vmsg s pk m) (Gen.ExtraBls.DST s) H = .ok mp)
    (hc : Gen.ExtraCodec.G2_to_signature Z2 = .ok cand) :
    Gen.ExtraBls.Verify H s pk m cand = .returned true ↔ Gen.OptBls.is_inf mp = true := by
  classical
  rw [Tie.Bls.SkToPk_eq] at hpk
  rw [Tie.hash_to_G2_eq, Tie.Bls.DST_eq] at hmp
  rw [Tie.G2_to_signature_eq] at hc
  rw [Tie.Bls.Verify_eq]
  exact C02.verify_identity_iff_of_modelBilinear mc.toModelBilinear H s sk hsk m pk cand hpk mp hmp hc

/-- **Other key** (suites that hash the bare message: basic and POP).  A generated signature of `m` under `sk`, presented to the
    generated `Verify` with the public key of `sk'`, is accepted iff `sk = sk'` — provided the hash point of `m` is not the
    identity.  Assuming only `ModelBilinearCode`. -/
theorem verify_other_key_iff (mc : ModelBilinearCode) (H : HashFn) (s : Suite) (hs : s ≠ .aug) (sk sk' : ℤ)
    (hsk : 1 ≤ sk ∧ sk < (suites_curve_order : ℤ)) (hsk' : 1 ≤ sk' ∧ sk' < (suites_curve_order : ℤ))
    (m pk pk' sig : Bytes) (hpk : Gen.ExtraBls.SkToPk (.int sk) = .ok pk)
    (hpk' : Gen.ExtraBls.SkToPk (.int sk') = .ok pk') (mp : G2Pt)
    (hmp : Gen.ExtraSwu.hash_to_G2 m (Gen.ExtraBls.DST s) H = .ok mp) (hinf : Gen.OptBls.is_inf mp = false)
    (hsig : Gen.ExtraBls.Sign H s (.int sk) m = .ok sig) :
    Gen.ExtraBls.Verify H s pk' m sig = .returned true ↔ sk = sk' := by
  classical
  rw [Tie.Bls.SkToPk_eq] at hpk hpk'
  rw [Tie.hash_to_G2_eq, Tie.Bls.DST_eq] at hmp
  rw [Tie.Bls.Sign_eq] at hsig
  rw [Tie.Bls.Verify_eq]
  exact C02.verify_other_key_iff_of_modelBilinear mc.toModelBilinear H s hs sk sk' hsk hsk' m pk pk' sig hpk hpk'
    mp hmp hinf hsig

/-! ## 3. Cross-suite / cross-message / cross-tag acceptance (visible hash-equality condition) -/

/-- **Cross acceptance, general form** (other key and/or other message, other suite).  `sig = Sign_s(sk, m)` (generated) presented
    to the generated `Verify_{s'}(pk', m', ·)` is accepted iff the two signature POINTS coincide:
    `multiply(H_s(m), sk) = multiply(H_{s'}(m'), sk')` as projective points (generated `eq`).  Whether two hash points coincide is
    the random-oracle question and stays a hypothesis of the corollaries below.  Assuming only `ModelBilinearCode`. -/
theorem verify_cross_iff (mc : ModelBilinearCode) (H : HashFn) (s s' : Suite) (sk sk' : ℤ)
    (hsk : 1 ≤ sk ∧ sk < (suites_curve_order : ℤ)) (hsk' : 1 ≤ sk' ∧ sk' < (suites_curve_order : ℤ))
    (m m' pk pk' sig : Bytes) (hpk : Gen.ExtraBls.SkToPk (.int sk) = .ok pk)
    (hpk' : Gen.ExtraBls.SkToPk (.int sk') = .ok pk') (mp mp' : G2Pt)
    (hmp : Gen.ExtraSwu.hash_to_G2 (vmsg s pk m) (Gen.ExtraBls.DST s) H = .ok mp)
    (hmp' : Gen.ExtraSwu.hash_to_G2 (vmsg s' pk' m') (Gen.ExtraBls.DST s') H = .ok mp')
    (hsig : Gen.ExtraBls.Sign H s (.int sk) m = .ok sig) :
    Gen.ExtraBls.Verify H s' pk' m' sig = .returned true ↔
      Gen.OptBls.eq (Gen.OptBls.multiply mp sk.toNat) (Gen.OptBls.multiply mp' sk'.toNat) = true := by
  classical
  rw [Tie.Bls.SkToPk_eq] at hpk hpk'
  rw [Tie.hash_to_G2_eq, Tie.Bls.DST_eq] at hmp hmp'
  rw [Tie.Bls.Sign_eq] at hsig
  rw [Tie.Bls.Verify_eq]
  exact C02.verify_cross_iff mc.toModelBilinear.toPairingFacts H s s' sk sk' hsk hsk' m m' pk pk' sig hpk hpk'
    mp mp' hmp hmp' hsig

/-- **Other message / other suite, same key.**  The generated `Sign_s(sk, m)` presented to the generated `Verify_{s'}(pk, m', ·)`
    is accepted iff the two hash points are equal (generated `eq`).  Assuming only `ModelBilinearCode`. -/
theorem verify_other_msg_iff (mc : ModelBilinearCode) (H : HashFn) (s s' : Suite) (sk : ℤ)
    (hsk : 1 ≤ sk ∧ sk < (suites_curve_order : ℤ)) (m m' pk sig : Bytes)
    (hpk : Gen.ExtraBls.SkToPk (.int sk) = .ok pk) (mp mp' : G2Pt)
    (hmp : Gen.ExtraSwu.hash_to_G2 (vmsg s pk m) (Gen.ExtraBls.DST s) H = .ok mp)
    (hmp' : Gen.ExtraSwu.hash_to_G2 (vmsg s' pk m') (Gen.ExtraBls.DST s') H = .ok mp')
    (hsig : Gen.ExtraBls.Sign H s (.int sk) m = .ok sig) :
    Gen.ExtraBls.Verify H s' pk m' sig = .returned true ↔ Gen.OptBls.eq mp mp' = true := by
  classical
  rw [Tie.Bls.SkToPk_eq] at hpk
  rw [Tie.hash_to_G2_eq, Tie.Bls.DST_eq] at hmp hmp'
  rw [Tie.Bls.Sign_eq] at hsig
  rw [Tie.Bls.Verify_eq]
  exact C02.verify_other_msg_iff mc.toModelBilinear.toPairingFacts H s s' sk hsk m m' pk sig hpk mp mp' hmp hmp' hsig

/-- **Another message or another suite is rejected** under the visible hash-inequality hypothesis: if the two hash points differ
    (generated `eq(H_s(m), H_{s'}(m')) = False`) the generated `Verify_{s'}(pk, m', Sign_s(sk, m))` returns `False` (it does not
    raise).  Assuming only `ModelBilinearCode`. -/
theorem verify_rejects_other_msg (mc : ModelBilinearCode) (H : HashFn) (s s' : Suite) (sk : ℤ)
    (hsk : 1 ≤ sk ∧ sk < (suites_curve_order : ℤ)) (m m' pk sig : Bytes)
    (hpk : Gen.ExtraBls.SkToPk (.int sk) = .ok pk) (mp mp' : G2Pt)
    (hmp : Gen.ExtraSwu.hash_to_G2 (vmsg s pk m) (Gen.ExtraBls.DST s) H = .ok mp)
    (hmp' : Gen.ExtraSwu.hash_to_G2 (vmsg s' pk m') (Gen.ExtraBls.DST s') H = .ok mp')
    (hsig : Gen.ExtraBls.Sign H s (.int sk) m = .ok sig) (hne : Gen.OptBls.eq mp mp' = false) :
    Gen.ExtraBls.Verify H s' pk m' sig = .returned false := by
  classical
  rw [Tie.Bls.SkToPk_eq] at hpk
  rw [Tie.hash_to_G2_eq, Tie.Bls.DST_eq] at hmp hmp'
  rw [Tie.Bls.Sign_eq] at hsig
  rw [Tie.Bls.Verify_eq]
  exact C02.verify_rejects_other_msg mc.toModelBilinear.toPairingFacts H s s' sk hsk m m' pk sig hpk mp mp' hmp hmp'
    hsig hne

/-- **A signature is not a possession proof**: the generated `Sign_s(sk, m)` presented to the generated `PopVerify(pk, ·)` is
    accepted iff `hash_to_G2(m', DST_s) = hash_to_G2(pk, POP_TAG)` as points (generated `hash_to_G2`, `eq`, class attributes
    `DST`, `POP_TAG`).  Assuming only `ModelBilinearCode`. -/
theorem popVerify_of_sig_iff (mc : ModelBilinearCode) (H : HashFn) (s : Suite) (sk : ℤ)
    (hsk : 1 ≤ sk ∧ sk < (suites_curve_order : ℤ)) (m pk sig : Bytes)
    (hpk : Gen.ExtraBls.SkToPk (.int sk) = .ok pk) (mp mp' : G2Pt)
    (hmp : Gen.ExtraSwu.hash_to_G2 (vmsg s pk m) (Gen.ExtraBls.DST s) H = .ok mp)
    (hmp' : Gen.ExtraSwu.hash_to_G2 pk Gen.ExtraBls.POP_TAG H = .ok mp')
    (hsig : Gen.ExtraBls.Sign H s (.int sk) m = .ok sig) :
    Gen.ExtraBls.PopVerify H pk sig = .returned true ↔ Gen.OptBls.eq mp mp' = true := by
  classical
  rw [Tie.Bls.SkToPk_eq] at hpk
  rw [Tie.hash_to_G2_eq, Tie.Bls.DST_eq] at hmp
  rw [Tie.hash_to_G2_eq, Tie.Bls.POP_TAG_eq] at hmp'
  rw [Tie.Bls.Sign_eq] at hsig
  rw [Tie.Bls.PopVerify_eq]
  exact C02.popVerify_of_sig_iff mc.toModelBilinear.toPairingFacts H s sk hsk m pk sig hpk mp mp' hmp hmp' hsig

/-- **A possession proof is not a signature**: the generated `PopProve(sk)` presented to the generated `Verify_s(pk, m, ·)` is
    accepted iff `hash_to_G2(pk, POP_TAG) = hash_to_G2(m', DST_s)` as points.  Assuming only `ModelBilinearCode`. -/
theorem verify_of_proof_iff (mc : ModelBilinearCode) (H : HashFn) (s : Suite) (sk : ℤ)
    (hsk : 1 ≤ sk ∧ sk < (suites_curve_order : ℤ)) (m pk proof : Bytes)
    (hpk : Gen.ExtraBls.SkToPk (.int sk) = .ok pk) (mp mp' : G2Pt)
    (hmp : Gen.ExtraSwu.hash_to_G2 pk Gen.ExtraBls.POP_TAG H = .ok mp)
    (hmp' : Gen.ExtraSwu.hash_to_G2 (vmsg s pk m) (Gen.ExtraBls.DST s) H = .ok mp')
    (hproof : Gen.ExtraBls.PopProve H (.int sk) = .ok proof) :
    Gen.ExtraBls.Verify H s pk m proof = .returned true ↔ Gen.OptBls.eq mp mp' = true := by
  classical
  rw [Tie.Bls.SkToPk_eq] at hpk
  rw [Tie.hash_to_G2_eq, Tie.Bls.POP_TAG_eq] at hmp
  rw [Tie.hash_to_G2_eq, Tie.Bls.DST_eq] at hmp'
  rw [Tie.Bls.PopProve_eq] at hproof
  rw [Tie.Bls.Verify_eq]
  exact C02.verify_of_proof_iff mc.toModelBilinear.toPairingFacts H s sk hsk m pk proof hpk mp mp' hmp hmp' hproof

/-! ## non-vacuity -/

/-- non-vacuity of the key hypotheses and of the identity candidate of `verify_identity_iff`: `sk = 1` is a valid key, the generated
    `SkToPk(1)` returns the compressed generator (kernel evaluation, C09), and the generated `G2_to_signature(Z2)` returns.
    (`ModelBilinearCode` is a closed mathematical statement — its instance would be its proof.) -/
example : (1 ≤ (1 : ℤ) ∧ (1 : ℤ) < (suites_curve_order : ℤ)) ∧
    Gen.ExtraBls.SkToPk (.int 1) = .ok C09.compressedG1 ∧ ∃ cand, Gen.ExtraCodec.G2_to_signature Z2 = .ok cand :=
  ⟨by decide, by rw [Tie.Bls.SkToPk_eq]; exact C09.skToPk_one, by
    obtain ⟨bs, h, _⟩ := C11.signatureToG2_g2ToSignature_roundtrip Z2 (by decide) (by decide)
    exact ⟨bs, by rw [Tie.G2_to_signature_eq]; exact h⟩⟩

end PyEcc.C02.Gen
