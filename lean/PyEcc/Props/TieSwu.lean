/-
  PyEcc.Props.TieSwu — TIE theorems ("generated = hand-written model").
  `Gen/Extra*.lean` is re-generated from the Python source on every run (tools/translate/gen_extra.py). Each theorem states that
  the function the translator produced from the CURRENT source is, for all inputs, the hand-written model function that the property
  theorems are about. A change to one of these Python functions changes the generated definition and breaks a theorem here
  statically, without needing a test input. (Split per source area so that a change in one area does not alarm unrelated properties.)
  The proofs close with `tie_close` (Props/TieRobC.lean): reflexivity first, then normalisation of both sides and a case analysis, so
  that a behaviour-preserving reshaping of the Python (renamed / inlined locals, early `return` vs conditional expression, negated
  test with swapped branches, `for _ in range(k)` vs the unrolled calls, …) keeps the theorem, while a real change fails in seconds.
-/
import PyEcc.Props.TieRobC
import PyEcc.Gen.ExtraSwu
import PyEcc.Props.TieCofactor

set_option linter.unusedSimpArgs false

namespace PyEcc.Tie
open PyEcc

/-- `sqrt_division_FQ(u, v)` as translated from the source is the model's `sqrtDivisionFq`. -/
theorem sqrt_division_FQ_eq (u v : F1) : Gen.ExtraSwu.sqrt_division_FQ u v = sqrtDivisionFq u v := by
  unfold Gen.ExtraSwu.sqrt_division_FQ sqrtDivisionFq
  tie_close [ne_eq, ite_not]

/-- `optimized_swu_G1(t)` as translated from the source (straight-line code, the exceptional-case `if`, the
    non-square `if` assigning two variables, the sign fix) is the model's `optimizedSwuG1`. -/
theorem optimized_swu_G1_eq (t : F1) : Gen.ExtraSwu.optimized_swu_G1 t = optimizedSwuG1 t := by
  unfold Gen.ExtraSwu.optimized_swu_G1 optimizedSwuG1
  tie_close [ne_eq, ite_not]

/-- `sqrt_division_FQ2(u, v)` as translated from the source (the `for root in POSITIVE_EIGHTH_ROOTS_OF_UNITY`
    loop as a fold over the loop-carried pair `(is_valid_root, result)`) is the model's `sqrtDivisionFq2`. -/
theorem sqrt_division_FQ2_eq (u v : F2) : Gen.ExtraSwu.sqrt_division_FQ2 u v = sqrtDivisionFq2 u v := by
  unfold Gen.ExtraSwu.sqrt_division_FQ2 sqrtDivisionFq2
  tie_close [ne_eq, ite_not]

/-- `optimized_swu_G2(t)` as translated from the source (including the `for eta in ETAS` loop and the
    "unreachable" `raise Exception`) is the model's `optimizedSwuG2`. -/
theorem optimized_swu_G2_eq (t : F2) : Gen.ExtraSwu.optimized_swu_G2 t = optimizedSwuG2 t := by
  unfold Gen.ExtraSwu.optimized_swu_G2 optimizedSwuG2
  first
  | (simp only [bind, Except.bind, throw, throwThe, MonadExceptOf.throw, pure, Except.pure]; done)
  | tie_close [ne_eq, ite_not, not_or, not_and, Bool.not_eq_true, Bool.not_eq_true']

/-- `map_to_curve_G1(u)` = `iso_map_G1(*optimized_swu_G1(u))`, as in the model. -/
theorem map_to_curve_G1_eq (u : F1) : Gen.ExtraSwu.map_to_curve_G1 u = mapToCurveG1 u := by
  unfold Gen.ExtraSwu.map_to_curve_G1 mapToCurveG1
  tie_close [ne_eq, ite_not]

/-- `map_to_curve_G2(u)` = `iso_map_G2(*optimized_swu_G2(u))` (propagating the exception), as in the model. -/
theorem map_to_curve_G2_eq (u : F2) : Gen.ExtraSwu.map_to_curve_G2 u = mapToCurveG2 u := by
  unfold Gen.ExtraSwu.map_to_curve_G2 mapToCurveG2
  tie_close [ne_eq, ite_not]

/-- `hash_to_G1(message, DST, hash_function)` as translated from the source (unpack the two field elements,
    map both to the curve, add, clear the cofactor) is the model's `hashToG1`.  The generated code wraps the
    integers returned by the hand-modelled `hash_to_field_FQ` into `FQ` first, the model wraps them at the use
    site; the proof is a case split on the returned list. -/
theorem hash_to_G1_eq (message DST : Bytes) (H : HashFn) :
    Gen.ExtraSwu.hash_to_G1 message DST H = hashToG1 H message DST := by
  unfold Gen.ExtraSwu.hash_to_G1 hashToG1
  generalize hashToFieldFq H blsP message 2 DST = x
  -- (no plain `rfl` here: on a changed source it would unfold the curve arithmetic until it times out)
  cases x with
  | error e => simp only [map_error_except, error_bind_except]
  | ok l =>
    rcases l with _ | ⟨a, _ | ⟨b, _ | ⟨c, l⟩⟩⟩ <;>
      simp only [map_ok_except, ok_bind_except, List.map_cons, List.map_nil] <;> tie_close [ne_eq, ite_not]

/-- `hash_to_G2(message, DST, hash_function)` as translated from the source is the model's `hashToG2`
    (same remark as for `hash_to_G1_eq`). -/
theorem hash_to_G2_eq (message DST : Bytes) (H : HashFn) :
    Gen.ExtraSwu.hash_to_G2 message DST H = hashToG2 H message DST := by
  unfold Gen.ExtraSwu.hash_to_G2 hashToG2
  generalize hashToFieldFq2 H blsP message 2 DST = x
  -- (no plain `rfl` here: on a changed source it would unfold the curve arithmetic until it times out)
  cases x with
  | error e => simp only [map_error_except, error_bind_except]
  | ok l =>
    rcases l with _ | ⟨a, _ | ⟨b, _ | ⟨c, l⟩⟩⟩ <;>
      simp only [map_ok_except, ok_bind_except, List.map_cons, List.map_nil] <;> tie_close [ne_eq, ite_not]

end PyEcc.Tie
