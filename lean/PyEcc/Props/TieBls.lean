/-
  PyEcc.Props.TieBls — TIE theorems ("generated = hand-written model") for `py_ecc/bls/ciphersuites.py`, part 1:
  input validation, `SkToPk`, `KeyValidate`, `_CoreSign`, `Sign`, `_CoreVerify`, `Verify`, `PopProve`, `PopVerify`.

  `Gen/ExtraBls.lean` is re-generated from the Python source on every run (tools/translate/gen_bls.py, py2lean_bls.py): every
  method of `BaseG2Ciphersuite`, `G2Basic`, `G2MessageAugmentation`, `G2ProofOfPossession` (including the overrides), the class
  attributes `DST` / `POP_TAG`, and one dispatcher `m (cls : Suite)` per overridden method, built from the method resolution
  order of the classes as they are in the source.  Each theorem here states that a generated function is, for ALL inputs, the
  hand-written model function of `Model/Bls.lean` that the property theorems are about.  A change to one of these Python
  methods changes the generated definition and breaks a theorem here statically.

  Where the model is not literally the Python function the statement says exactly how they are related:
  * `_is_valid_privkey` returns a `bool`; the model's `isValidPrivkey` returns the validated key as an `Option Nat`;
  * `KeyValidate` / the POP `_is_valid_pubkey` are translated with their real exception behaviour (`Except PyErr Bool`: the
    `try` around `pubkey_to_G1` catches three kinds and re-raises everything else); the model is a total `Bool` function.
    The tie PROVES that nothing is re-raised (`decompressG1` raises only `ValueError`).
  * `_CoreVerify`'s model body additionally returns the list of pairing arguments: the tie is to its first component.
-/
import PyEcc.Gen.ExtraBls

namespace PyEcc.Tie
open PyEcc PyEcc.Gen.Consts

/-! ### class attributes -/

/-- The class attribute `DST`, as each of the three ciphersuite classes sees it in the current source, is the model's
    `Suite.dst` (which is read from the dumped module constants). -/
theorem Bls.DST_eq (s : Suite) : Gen.ExtraBls.DST s = s.dst := by cases s <;> rfl

/-- `G2ProofOfPossession.POP_TAG` in the current source is the model's `popTag`. -/
theorem Bls.POP_TAG_eq : Gen.ExtraBls.POP_TAG = popTag := by rfl

/-! ### input validation helpers -/

/-- `_is_valid_privkey(privkey)` (`isinstance(privkey, int) and privkey > 0 and privkey < curve_order`, on a dynamically
    typed argument): the model's `isValidPrivkey` is `some k` exactly when the generated predicate is true, and then `k`
    is the integer value the generated code uses after the guard (`natVal`). -/
theorem Bls.is_valid_privkey_eq (sk : PyArg) :
    isValidPrivkey sk =
      if Gen.ExtraBls._is_valid_privkey sk = true then some (Gen.ExtraBls.natVal sk) else none := by
  unfold Gen.ExtraBls._is_valid_privkey isValidPrivkey Gen.ExtraBls.natVal curveOrder
  cases sk with
  | other => rfl
  | int z => by_cases h : z > 0 ∧ z < (suites_curve_order : Int) <;> simp [h]

/-- `_is_valid_privkey(privkey)` as a `bool`: true exactly when the model accepts the key. -/
theorem Bls.is_valid_privkey_isSome (sk : PyArg) :
    Gen.ExtraBls._is_valid_privkey sk = (isValidPrivkey sk).isSome := by
  rw [Bls.is_valid_privkey_eq]
  cases Gen.ExtraBls._is_valid_privkey sk <;> rfl

/-- `BaseG2Ciphersuite._is_valid_pubkey(pubkey)` = `isinstance(pubkey, bytes) and len(pubkey) == 48` on a byte string. -/
theorem Bls.is_valid_pubkey_base_eq (pk : Bytes) :
    Gen.ExtraBls.BaseG2Ciphersuite._is_valid_pubkey pk = decide (pk.length = 48) := by
  unfold Gen.ExtraBls.BaseG2Ciphersuite._is_valid_pubkey
  simp

/-- `_is_valid_message(message)` = `isinstance(message, bytes)`: true for every byte string (the model omits the check). -/
theorem Bls.is_valid_message_eq (m : Bytes) : Gen.ExtraBls._is_valid_message m = true := by
  unfold Gen.ExtraBls._is_valid_message
  simp

/-- `_is_valid_signature(signature)` = `isinstance(signature, bytes) and len(signature) == 96` on a byte string. -/
theorem Bls.is_valid_signature_eq (sig : Bytes) :
    Gen.ExtraBls._is_valid_signature sig = decide (sig.length = 96) := by
  unfold Gen.ExtraBls._is_valid_signature
  simp

/-! ### SkToPk, KeyValidate -/

/-- `SkToPk(privkey)` as translated from the source (validity guard raising `ValidationError`, then
    `G1_to_pubkey(multiply(G1, privkey))`) is the model's `skToPk`, for every dynamically typed argument. -/
theorem Bls.SkToPk_eq (sk : PyArg) : Gen.ExtraBls.SkToPk sk = skToPk sk := by
  unfold Gen.ExtraBls.SkToPk skToPk
  rw [Bls.is_valid_privkey_eq]
  cases h : Gen.ExtraBls._is_valid_privkey sk <;> simp <;> rfl

/-- the model's `decompressG1` (tied to `decompress_G1` in TieCodec) raises only `ValueError` -/
theorem Bls.decompressG1_error (z : Nat) (e : PyErr) (h : decompressG1 z = .error e) : e = .value := by
  unfold decompressG1 at h
  generalize getFlags z = fl at h
  obtain ⟨c, b, a⟩ := fl
  simp only [bind, Except.bind, pure, Except.pure, throw, throwThe, MonadExceptOf.throw] at h
  repeat' split at h
  all_goals first
    | (injection h with h; exact h.symm)
    | cases h

/-- `KeyValidate(PK)` as translated from the source — the length gate, `try: pubkey_to_G1(PK) except (ValidationError,
    ValueError, AssertionError): return False` with every OTHER exception kind re-raised, the infinity test, the subgroup
    test — never raises and returns the model's `keyValidate pk`, for every byte string. -/
theorem Bls.KeyValidate_eq (pk : Bytes) : Gen.ExtraBls.KeyValidate pk = pure (keyValidate pk) := by
  unfold Gen.ExtraBls.KeyValidate keyValidate
  by_cases hl : pk.length = 48
  · cases h : pubkeyToG1 pk with
    | error e =>
      have he := Bls.decompressG1_error _ e h
      subst he
      simp [hl] <;> rfl
    | ok pt =>
      -- both truth values of the two tests, then normalise: the proof does not depend on whether the source spells the
      -- tail as `if .. return False` steps or as one boolean expression
      cases h1 : Gen.OptBls.is_inf pt <;> cases h2 : subgroupCheck pt <;> simp [hl, h1, h2] <;> rfl
  · simp [hl] <;> rfl

/-- `G2ProofOfPossession._is_valid_pubkey(pubkey)` (the override: `super()._is_valid_pubkey` then `cls.KeyValidate`)
    never raises and returns the model's `isValidPubkey .pop`. -/
theorem Bls.is_valid_pubkey_pop_eq (pk : Bytes) :
    Gen.ExtraBls.G2ProofOfPossession._is_valid_pubkey pk = pure (isValidPubkey .pop pk) := by
  unfold Gen.ExtraBls.G2ProofOfPossession._is_valid_pubkey Gen.ExtraBls.BaseG2Ciphersuite._is_valid_pubkey isValidPubkey
  rw [Bls.KeyValidate_eq]
  by_cases hl : pk.length = 48 <;> simp [hl] <;> rfl

/-- `cls._is_valid_pubkey(pubkey)` for each of the three ciphersuite classes (resolved by the method resolution order of
    the current source: the base-class static method for `G2Basic` / `G2MessageAugmentation`, the override for
    `G2ProofOfPossession`) never raises and returns the model's `isValidPubkey s`. -/
theorem Bls.is_valid_pubkey_eq (s : Suite) (pk : Bytes) :
    Gen.ExtraBls._is_valid_pubkey s pk = pure (isValidPubkey s pk) := by
  cases s
  · unfold Gen.ExtraBls._is_valid_pubkey Gen.ExtraBls.BaseG2Ciphersuite._is_valid_pubkey isValidPubkey
    by_cases hl : pk.length = 48 <;> simp [hl]
  · unfold Gen.ExtraBls._is_valid_pubkey Gen.ExtraBls.BaseG2Ciphersuite._is_valid_pubkey isValidPubkey
    by_cases hl : pk.length = 48 <;> simp [hl]
  · exact Bls.is_valid_pubkey_pop_eq pk

/-! ### signing -/

/-- `_CoreSign(SK, message, DST)` as translated from the source (both validity guards, `hash_to_G2(message, DST,
    cls.xmd_hash_function)`, `multiply(·, SK)`, `G2_to_signature`) is the model's `coreSign`. -/
theorem Bls.CoreSign_eq (H : HashFn) (sk : PyArg) (msg dst : Bytes) :
    Gen.ExtraBls._CoreSign H sk msg dst = coreSign H sk msg dst := by
  unfold Gen.ExtraBls._CoreSign coreSign
  rw [Bls.is_valid_privkey_eq, Bls.is_valid_message_eq]
  cases h : Gen.ExtraBls._is_valid_privkey sk <;> simp <;> rfl

/-- `cls.Sign(SK, message)` for each of the three classes (`BaseG2Ciphersuite.Sign` for `G2Basic` and
    `G2ProofOfPossession`, the override `G2MessageAugmentation.Sign`, each with the class's own `DST`) is the model's `sign`. -/
theorem Bls.Sign_eq (H : HashFn) (s : Suite) (sk : PyArg) (msg : Bytes) :
    Gen.ExtraBls.Sign H s sk msg = sign H s sk msg := by
  cases s <;>
    simp only [Gen.ExtraBls.Sign, Gen.ExtraBls.BaseG2Ciphersuite.Sign, Gen.ExtraBls.G2MessageAugmentation.Sign, sign,
      Bls.CoreSign_eq, Bls.DST_eq, Bls.SkToPk_eq]

/-- `G2ProofOfPossession.PopProve(SK)` is the model's `popProve`. -/
theorem Bls.PopProve_eq (H : HashFn) (sk : PyArg) : Gen.ExtraBls.PopProve H sk = popProve H sk := by
  simp only [Gen.ExtraBls.PopProve, popProve, Bls.CoreSign_eq, Bls.POP_TAG_eq, Bls.SkToPk_eq]

/-! ### verification -/

/-- the exception tuple `(ValidationError, ValueError, AssertionError)` of the source is the model's `caught3` -/
theorem Bls.caught3_eq (e : PyErr) :
    (e = PyErr.validation ∨ e = PyErr.value ∨ e = PyErr.assertion) ↔ caught3 e = true := by
  cases e <;> simp [caught3]

set_option maxRecDepth 2048 in
/-- The body of the `try` statement of `_CoreVerify` as translated from the source (the three input checks in source order,
    `KeyValidate`, `signature_to_G2`, the subgroup check returning `False`, the two pairings in Python's evaluation order,
    `final_exponentiate`, the comparison with `FQ12.one()`) is the model's `coreVerifyBody` without its trace component. -/
theorem Bls.CoreVerify_try_eq (H : HashFn) (s : Suite) (pk msg sig dst : Bytes) :
    Gen.ExtraBls._CoreVerify_try H s pk msg sig dst = (coreVerifyBody H s pk msg sig dst).map (·.1) := by
  unfold Gen.ExtraBls._CoreVerify_try coreVerifyBody
  simp only [Bls.is_valid_pubkey_eq, Bls.KeyValidate_eq, Bls.is_valid_message_eq, Bls.is_valid_signature_eq]
  simp only [bind, Except.bind, pure, Except.pure, throw, throwThe, MonadExceptOf.throw, Except.map]
  by_cases h1 : isValidPubkey s pk = true <;> simp [h1]
  by_cases h2 : sig.length = 96 <;> simp [h2]
  by_cases h3 : keyValidate pk = true <;> simp [h3]
  cases signatureToG2 sig <;> simp
  split
  · rfl
  cases pairingOptBls _ blsG1 false <;> simp
  cases hashToG2 H msg dst <;> simp
  cases pubkeyToG1 pk <;> simp
  cases pairingOptBls _ _ false <;> simp

/-- `_CoreVerify(PK, message, signature, DST)` as translated from the source (`try: <body> except (ValidationError, ValueError,
    AssertionError): return False`, any other exception propagating) is the model's `coreVerify`, for each class. -/
theorem Bls.CoreVerify_eq (H : HashFn) (s : Suite) (pk msg sig dst : Bytes) :
    Gen.ExtraBls._CoreVerify H s pk msg sig dst = coreVerify H s pk msg sig dst := by
  unfold Gen.ExtraBls._CoreVerify coreVerify catching
  rw [Bls.CoreVerify_try_eq]
  cases (coreVerifyBody H s pk msg sig dst).map (·.1) with
  | ok b => rfl
  | error e => simp only [Bls.caught3_eq]

/-- `cls.Verify(PK, message, signature)` for each of the three classes (base-class method, or the
    `G2MessageAugmentation` override which prepends `PK`) is the model's `verify`. -/
theorem Bls.Verify_eq (H : HashFn) (s : Suite) (pk msg sig : Bytes) :
    Gen.ExtraBls.Verify H s pk msg sig = verify H s pk msg sig := by
  cases s <;>
    simp only [Gen.ExtraBls.Verify, Gen.ExtraBls.BaseG2Ciphersuite.Verify, Gen.ExtraBls.G2MessageAugmentation.Verify, verify,
      Bls.CoreVerify_eq, Bls.DST_eq]

/-- `G2ProofOfPossession.PopVerify(PK, proof)` is the model's `popVerify`. -/
theorem Bls.PopVerify_eq (H : HashFn) (pk proof : Bytes) : Gen.ExtraBls.PopVerify H pk proof = popVerify H pk proof := by
  simp only [Gen.ExtraBls.PopVerify, popVerify, Bls.CoreVerify_eq, Bls.POP_TAG_eq]

end PyEcc.Tie
