/-
  PyEcc.Props.C01_Proto — property C01, headline clause: **honest signatures and possession proofs verify**
  (`py_ecc/bls/ciphersuites.py`: `SkToPk`, `Sign`, `Verify`, `PopProve`, `PopVerify`; all three suites).

  The theorems are about the model functions of `PyEcc/Model/Bls.lean` exactly as they are, for ALL secret
  keys `1 ≤ sk < r`, all messages, all three suites and an arbitrary hash function `H`.

  They are CONDITIONAL on the explicit hypothesis `PairingFacts e` (`Lemmas/BlsProto.lean`; a
  `structure … : Prop`, not an axiom), which bundles only
      HB1  bilinearity of the reduced pairing `e` on `r`-torsion points,
      ND   non-degeneracy against the generator,
      HB1′ "the model's Miller value after final exponentiation is that pairing, independent of the
           projective representative",
      HT6  "`hash_to_G2` returns a canonical point of the twist curve that passes `subgroup_check`".
  `PairingFacts e` is a closed mathematical statement (standard, but out of reach of today's Mathlib: no
  divisors); "an instance" would be its proof, so no `example` of it is given.  Everything else — key and
  signature encodings (C11), subgroup checks (C17), the group law (C07/C13), the control flow of the
  suites (C04, C09) — is proved.

  The hypothesis-free part of C01 (`sk_rejected`, `keyGen_range`, …) is in `Props/C01_Logic.lean`.
-/
import PyEcc.Lemmas.BlsProtoMiller
import PyEcc.Props.C09
import PyEcc.Props.C04_Total

set_option linter.unusedSectionVars false

namespace PyEcc.C01
open PyEcc PyEcc.Gen.Consts PyEcc.Transfer PyEcc.BlsSem PyEcc.BlsProto

variable [DecidableEq K2] {GT : Type} [CommGroup GT] {e : E2 → E1 → GT}

/-- **`SkToPk` never fails on a valid key** (no hypothesis): for every `int` `1 ≤ sk < r` it returns a
    48-byte string, the encoding of the point `sk • G1`. -/
theorem skToPk_returns (sk : ℤ) (hsk : 1 ≤ sk ∧ sk < (curveOrder : ℤ)) :
    ∃ pk, skToPk (.int sk) = .ok pk ∧ pk.length = 48 := by
  obtain ⟨pk, h, enc⟩ := skToPk_ok (validPrivkey_int hsk)
  exact ⟨pk, h, enc.1⟩

/-- **Honest signatures verify.**  For every suite, every hash function, every `int` secret key
    `1 ≤ sk < r` and every message: if `SkToPk(sk)` returned `pk` and `Sign(sk, m)` returned `sig`, then
    `Verify(pk, m, sig)` returns `True`.  (`SkToPk` always returns — `skToPk_returns`; `Sign` returns
    unless `hash_to_G2` raises.) -/
theorem sign_verify (pf : PairingFacts e) (H : HashFn) (s : Suite) (sk : ℤ)
    (hsk : 1 ≤ sk ∧ sk < (curveOrder : ℤ)) (m pk sig : Bytes) (hpk : skToPk (.int sk) = .ok pk)
    (hsig : sign H s (.int sk) m = .ok sig) : verify H s pk m sig = .returned true := by
  rw [verify_eq, coreVerify_iff_coreSign pf H s (validPrivkey_int hsk) hpk, ← sign_eq_coreSign H s hpk]
  exact hsig

/-- **Honest possession proofs verify.**  If `SkToPk(sk)` returned `pk` and `PopProve(sk)` returned
    `proof` then `PopVerify(pk, proof)` returns `True`. -/
theorem popProve_popVerify (pf : PairingFacts e) (H : HashFn) (sk : ℤ)
    (hsk : 1 ≤ sk ∧ sk < (curveOrder : ℤ)) (pk proof : Bytes) (hpk : skToPk (.int sk) = .ok pk)
    (hproof : popProve H (.int sk) = .ok proof) : popVerify H pk proof = .returned true := by
  unfold popVerify
  rw [coreVerify_iff_coreSign pf H .pop (validPrivkey_int hsk) hpk, ← popProve_eq_coreSign H hpk]
  exact hproof

/-- **Signing can only fail in `hash_to_G2`.**  On a valid key `Sign(sk, m)` returns a 96-byte signature
    whenever `hash_to_G2` of the (suite-augmented) message returns (HT6 part of `PairingFacts` is used to
    know that the hash point is on the curve, so that `G2_to_signature` does not raise). -/
theorem sign_returns (pf : PairingFacts e) (H : HashFn) (s : Suite) (sk : ℤ)
    (hsk : 1 ≤ sk ∧ sk < (curveOrder : ℤ)) (m pk : Bytes) (hpk : skToPk (.int sk) = .ok pk) (mp : G2Pt)
    (hmp : hashToG2 H (vmsg s pk m) s.dst = .ok mp) :
    ∃ sig, sign H s (.int sk) m = .ok sig ∧ sig.length = 96 := by
  obtain ⟨hq, rh, _⟩ := pf.hash_rep hmp
  have hv := validPrivkey_int hsk
  obtain ⟨bs, hbs, enc⟩ := encG2_of_rep
    (show RepG2 (Gen.OptBls.multiply mp sk.toNat) (sk.toNat • hq) from
      ⟨(canonT_ops rh.1 rh.1 _).2.2.2.1, opt_multiply_refines_F2 rh.1 rh.2 _⟩)
  refine ⟨bs, ?_, enc.1⟩
  rw [sign_eq_coreSign H s hpk]
  exact (coreSign_enc hv hmp rh bs).mpr enc

/-! ### existence form (uses C10: `optimized_swu_G2` never raises) -/

/-- **Honest signatures exist and verify** (DESIGN's form of C01).  For every hash function whose digest
    has at least 2 bytes (SHA-256: 32; needed only so that `expand_message_xmd` does not raise its
    `ell > 255` `ValueError`), every suite, every `int` secret key `1 ≤ sk < r` and every message:
    `SkToPk(sk)` returns some `pk`, `Sign(sk, m)` returns some `sig`, and `Verify(pk, m, sig)` is `True`. -/
theorem sign_verify_exists (pf : PairingFacts e) (H : HashFn) (hd : 2 ≤ H.digestSize) (s : Suite)
    (sk : ℤ) (hsk : 1 ≤ sk ∧ sk < (curveOrder : ℤ)) (m : Bytes) :
    ∃ pk sig, skToPk (.int sk) = .ok pk ∧ sign H s (.int sk) m = .ok sig ∧
      verify H s pk m sig = .returned true := by
  obtain ⟨pk, hpk, _⟩ := skToPk_ok (validPrivkey_int hsk)
  cases hmp : hashToG2 H (vmsg s pk m) s.dst with
  | error err =>
    exact (C10G2.not_swuFails
      (hashToG2_error_of_dst hd (by rw [suite_dst_length]; decide) hmp).2).elim
  | ok mp =>
    obtain ⟨sig, hsig, _⟩ := sign_returns pf H s sk hsk m pk hpk mp hmp
    exact ⟨pk, sig, hpk, hsig, sign_verify pf H s sk hsk m pk sig hpk hsig⟩

/-- **Honest possession proofs exist and verify** (same digest-size proviso). -/
theorem popProve_popVerify_exists (pf : PairingFacts e) (H : HashFn) (hd : 2 ≤ H.digestSize)
    (sk : ℤ) (hsk : 1 ≤ sk ∧ sk < (curveOrder : ℤ)) :
    ∃ pk proof, skToPk (.int sk) = .ok pk ∧ popProve H (.int sk) = .ok proof ∧
      popVerify H pk proof = .returned true := by
  have hv := validPrivkey_int hsk
  obtain ⟨pk, hpk, _⟩ := skToPk_ok hv
  cases hmp : hashToG2 H pk popTag with
  | error err =>
    exact (C10G2.not_swuFails
      (hashToG2_error_of_dst hd (by rw [popTag_length]; decide) hmp).2).elim
  | ok mp =>
    obtain ⟨hq, rh, _⟩ := pf.hash_rep hmp
    obtain ⟨bs, _, enc⟩ := encG2_of_rep
      (show RepG2 (Gen.OptBls.multiply mp sk.toNat) (sk.toNat • hq) from
        ⟨(canonT_ops rh.1 rh.1 _).2.2.2.1, opt_multiply_refines_F2 rh.1 rh.2 _⟩)
    have hproof : popProve H (.int sk) = .ok bs := by
      rw [popProve_eq_coreSign H hpk]
      exact (coreSign_enc hv hmp rh bs).mpr enc
    exact ⟨pk, bs, hpk, hproof, popProve_popVerify pf H sk hsk pk bs hpk hproof⟩

example : 2 ≤ sha256Fn.digestSize := by decide

/-! ### under the smaller hypothesis bundle `PairingValueFacts` (`Lemmas/BlsProtoMiller.lean`)

  There the assumption about the model is one statement per pairing call ("the final-exponentiated Miller
  value is `e q p`"); multiplicativity of the final exponentiation is the theorem C12. -/

/-- `sign_verify` under `PairingValueFacts` (fields: HB1, ND, HB1′ per call, HT6). -/
theorem sign_verify' {e : E2 → E1 → K12ˣ} (pv : PairingValueFacts e) (H : HashFn) (s : Suite) (sk : ℤ)
    (hsk : 1 ≤ sk ∧ sk < (curveOrder : ℤ)) (m pk sig : Bytes) (hpk : skToPk (.int sk) = .ok pk)
    (hsig : sign H s (.int sk) m = .ok sig) : verify H s pk m sig = .returned true :=
  sign_verify pv.toPairingFacts H s sk hsk m pk sig hpk hsig

/-- `popProve_popVerify` under `PairingValueFacts`. -/
theorem popProve_popVerify' {e : E2 → E1 → K12ˣ} (pv : PairingValueFacts e) (H : HashFn) (sk : ℤ)
    (hsk : 1 ≤ sk ∧ sk < (curveOrder : ℤ)) (pk proof : Bytes) (hpk : skToPk (.int sk) = .ok pk)
    (hproof : popProve H (.int sk) = .ok proof) : popVerify H pk proof = .returned true :=
  popProve_popVerify pv.toPairingFacts H sk hsk pk proof hpk hproof

/-! ### non-vacuity of the key hypotheses -/

/-- `sk = 1` is a valid key, and `SkToPk(1)` returns the compressed generator (kernel evaluation, C09) -/
example : (1 ≤ (1 : ℤ) ∧ (1 : ℤ) < (curveOrder : ℤ)) ∧ skToPk (.int 1) = .ok C09.compressedG1 :=
  ⟨by decide, C09.skToPk_one⟩

end PyEcc.C01
