/-
  PyEcc.Props.C16_Gen — property C16 restated about the GENERATED code: `hkdf_extract`, `hkdf_expand` of `py_ecc/bls/hash.py`
  (`PyEcc.Gen.ExtraHash.hkdf_extract`, `.hkdf_expand`) and `KeyGen` of `py_ecc/bls/ciphersuites.py` (`PyEcc.Gen.ExtraBls.KeyGen`), as
  translated from the Python source on this run, are RFC 5869 (over RFC 2104 HMAC) and the KeyGen of
  draft-irtf-cfrg-bls-signature-04 §2.3 (`PyEcc.Spec.hkdfExtract`, `.hkdfExpand`, `.keyGen`, `.IsKeyGen`), and a returned secret key
  lies in `[1, r-1]`.
  Every theorem is the model theorem of `Props/C16.lean` composed with the tie theorems of `Props/TieHash.lean`
  (`hkdf_extract_eq`, `hkdf_expand_eq`) and `Props/TieBlsAgg.lean` (`Bls.KeyGen_fuel_eq`, `Bls.KeyGen_eq`).  No hypothesis is added.

  `KeyGen`'s unbounded `while SK == 0` loop is translated as a recursion on an explicit `fuel` argument (out of fuel =
  `PyErr.other`; the Python loop would continue).  The theorems below hold for EVERY fuel.
  Determinism needs no theorem: every generated function is a pure Lean function of its arguments and of the hash function `H`.
  (Core Lean only.)
-/
import PyEcc.Props.C16
import PyEcc.Props.TieHash
import PyEcc.Props.TieBlsAgg

namespace PyEcc.C16.Gen
open PyEcc PyEcc.C15 PyEcc.Gen.Consts

/-! ### HKDF-Extract -/

/-- **C16, generated code (HKDF-Extract = RFC 5869 §2.2).**  The function translated from `hkdf_extract(salt, ikm)` is
    `HMAC-Hash(salt, IKM)` with HMAC as specified in RFC 2104 (salt is the key) — for every hash function and every salt for which
    the RFC's block-sized key exists (`HmacKeyOk`: the salt, or else its digest, is at most one block long; automatic when
    `digest_size ≤ block_size`, e.g. SHA-256). -/
theorem hkdf_extract_eq_spec (H : HashFn) (salt ikm : Bytes) (h : HmacKeyOk H salt) :
    PyEcc.Gen.ExtraHash.hkdf_extract salt ikm H = Spec.hkdfExtract H salt ikm := by
  rw [Tie.hkdf_extract_eq]
  exact C16.hkdfExtract_eq_spec H salt ikm h

/-- the hypothesis holds for every key when the hash function is well-formed, e.g. for SHA-256 -/
example (key : Bytes) : HmacKeyOk sha256Fn key := hmacKeyOk_of_WF sha256Fn_WF key

/-- **C16, generated code (RFC 5869 §2.2 default salt).**  "salt: if not provided, it is set to a string of HashLen zeros": for
    the translated function, `hkdf_extract(b"", ikm) = hkdf_extract(b"\x00" * HashLen, ikm)`. -/
theorem hkdf_extract_empty_salt (H : HashFn) (hle : H.digestSize ≤ H.blockSize) (ikm : Bytes) :
    PyEcc.Gen.ExtraHash.hkdf_extract [] ikm H = PyEcc.Gen.ExtraHash.hkdf_extract (List.replicate H.digestSize 0) ikm H := by
  rw [Tie.hkdf_extract_eq, Tie.hkdf_extract_eq]
  exact C16.hkdfExtract_empty_salt H hle ikm

example : sha256Fn.digestSize ≤ sha256Fn.blockSize := by decide

/-! ### HKDF-Expand -/

/-- **C16, generated code (HKDF-Expand = RFC 5869 §2.3, for HashLen = 32).**  The source hard-codes `n = ceil(length / 32)`, so the
    statement is for hash functions with `digest_size = 32` (SHA-256 is what the code uses): for every `prk` (with
    RFC-2104-representable key), `info` and `length`, the function translated from `hkdf_expand(prk, info, length)` returns the
    first `length` bytes of `T(1) ‖ … ‖ T(N)` if `length ≤ 255·32 = 8160`, and raises `ValueError` (`bytes([256])`) otherwise —
    exactly the RFC's domain `L ≤ 255·HashLen`. -/
theorem hkdf_expand_eq_spec (H : HashFn) (h32 : H.digestSize = 32) (prk info : Bytes) (hk : HmacKeyOk H prk) (L : Nat) :
    PyEcc.Gen.ExtraHash.hkdf_expand prk info L H =
      match Spec.hkdfExpand H prk info L with
      | some okm => .ok okm
      | none => .error .value := by
  rw [Tie.hkdf_expand_eq]
  exact C16.hkdfExpand_eq_spec H h32 prk info hk L

example : sha256Fn.digestSize = 32 := rfl

/-- **C16, generated code (HKDF-Expand, explicit form).**  The same with the domain condition spelled out: the translated
    `hkdf_expand(prk, info, L)` is `OKM = first L bytes of T(1) ‖ T(2) ‖ …` for `L ≤ 8160` and `ValueError` above. -/
theorem hkdf_expand_eq (H : HashFn) (h32 : H.digestSize = 32) (prk info : Bytes) (hk : HmacKeyOk H prk) (L : Nat) :
    PyEcc.Gen.ExtraHash.hkdf_expand prk info L H =
      if L ≤ 255 * 32 then .ok (Spec.hkdfOkm H prk info L) else .error .value := by
  rw [Tie.hkdf_expand_eq]
  exact C16.hkdfExpand_eq H h32 prk info hk L

/-- **C16, generated code (HKDF-Expand raises iff `length > 8160`)** — for *any* hash function and key, no hypotheses: the only
    failure of the translated `hkdf_expand` is `bytes([256])` in the 256th iteration. -/
theorem hkdf_expand_error_iff (H : HashFn) (prk info : Bytes) (L : Nat) :
    (∃ e, PyEcc.Gen.ExtraHash.hkdf_expand prk info L H = .error e) ↔ L > 255 * 32 := by
  rw [Tie.hkdf_expand_eq]
  exact C16.hkdfExpand_error_iff H prk info L

/-- **C16, generated code (output length).**  For a well-formed hash function with 32-byte digests, a successful call of the
    translated `hkdf_expand(prk, info, length)` returns exactly `length` bytes. -/
theorem hkdf_expand_length (H : HashFn) (hw : H.WF) (h32 : H.digestSize = 32) (prk info : Bytes) (L : Nat) (okm : Bytes)
    (h : PyEcc.Gen.ExtraHash.hkdf_expand prk info L H = .ok okm) : okm.length = L := by
  rw [Tie.hkdf_expand_eq] at h
  exact C16.hkdfExpand_length H hw h32 prk info L okm h

example : sha256Fn.WF ∧ sha256Fn.digestSize = 32 := ⟨sha256Fn_WF, rfl⟩

/-- non-vacuity of `hkdf_expand_length`: the generated `hkdf_expand` returns a value for `length = 42` -/
example : ∃ okm, PyEcc.Gen.ExtraHash.hkdf_expand [] [] 42 sha256Fn = .ok okm := by
  rw [hkdf_expand_eq sha256Fn rfl [] [] (hmacKeyOk_of_WF sha256Fn_WF _) 42, if_pos (by decide)]
  exact ⟨_, rfl⟩

/-! ### KeyGen -/

/-- **C16, generated code (the constants of KeyGen).**  The generated `l = ceil((1.5 * ceil(log2(curve_order))) / 8)` is 48, the
    draft's `L = ceil((3 * ceil(log2(r))) / 16)` for `ceil(log2 r) = 255`; and the generated `curve_order` lies between
    `2^254` and `2^255`. -/
theorem keygen_L : suites_keygen_L = 48 ∧ Spec.keyGenL = 48 ∧
    2 ^ 254 < suites_curve_order ∧ suites_curve_order < 2 ^ 255 := by
  decide

/-- **C16, generated code (KeyGen = draft v4 KeyGen, for every fuel).**  For every well-formed hash function with 32-byte digests
    (SHA-256 is what the code uses), all `IKM`, `key_info` and every bound `fuel` on the number of passes through the
    `while SK == 0` loop, the function translated from `KeyGen(IKM, key_info)` computes the draft's KeyGen limited to the same
    number of passes — salt `"BLS-SIG-KEYGEN-SALT-"` re-hashed before each attempt, `PRK = HKDF-Extract(salt, IKM ‖ 0x00)`,
    `OKM = HKDF-Expand(PRK, key_info ‖ I2OSP(48, 2), 48)`, `SK = OS2IP(OKM) mod r`, `r = curve_order`, first non-zero `SK` wins;
    running out of fuel is `.error .other` (the Python loop would simply continue). -/
theorem KeyGen_eq_spec (H : HashFn) (hw : H.WF) (h32 : H.digestSize = 32) (ikm info : Bytes) (fuel : Nat) :
    PyEcc.Gen.ExtraBls.KeyGen H fuel ikm info =
      match Spec.keyGen H suites_curve_order ikm info fuel with
      | some sk => .ok sk
      | none => .error .other := by
  rw [Tie.Bls.KeyGen_fuel_eq, keyGenSalt_eq]
  exact C16.keyGenLoop_eq_spec H hw h32 ikm info fuel

/-- **C16, generated code (KeyGen soundness, every fuel).**  If the translated `KeyGen(IKM, key_info)`, run with any bound on the
    number of loop passes, returns `sk`, then `sk` is THE result of the draft's KeyGen (`Spec.IsKeyGen`): the first non-zero
    candidate `OS2IP(OKM) mod r` in the sequence of attempts. -/
theorem KeyGen_sound (H : HashFn) (hw : H.WF) (h32 : H.digestSize = 32) (ikm info : Bytes) (fuel sk : Nat)
    (h : PyEcc.Gen.ExtraBls.KeyGen H fuel ikm info = .ok sk) : Spec.IsKeyGen H suites_curve_order ikm info sk := by
  rw [Tie.Bls.KeyGen_fuel_eq, keyGenSalt_eq] at h
  exact C16.keyGenLoop_sound H hw h32 ikm info fuel sk h

/- non-vacuity: a (toy) well-formed 32-byte hash function for which the generated `KeyGen` returns a key; for SHA-256 the
   hypotheses `sha256Fn.WF`, `digestSize = 32` are shown above (evaluating SHA-256 in the kernel is avoided on purpose) -/
set_option maxRecDepth 100000 in
example : ∃ H : HashFn, H.WF ∧ H.digestSize = 32 ∧ ∃ sk, PyEcc.Gen.ExtraBls.KeyGen H 64 [] [] = .ok sk :=
  ⟨{ digestSize := 32, blockSize := 64, run := fun _ => List.replicate 32 1 },
   ⟨fun _ => rfl, by decide, by decide⟩, rfl, _, rfl⟩

/-- **C16, generated code (KeyGen completeness up to the fuel).**  If the draft's KeyGen terminates at attempt `n` with result
    `sk`, the translated `KeyGen` run with any `fuel > n` returns `sk`; and the artificial failure of the translation
    (`.error .other`, out of fuel) is the ONLY way it raises, and occurs only when the first `fuel` candidates are all zero —
    for SHA-256 and `fuel = 64` an event of probability about `2^(-255·64)`, in which the Python code would keep looping. -/
theorem KeyGen_complete (H : HashFn) (hw : H.WF) (h32 : H.digestSize = 32) (ikm info : Bytes) (fuel : Nat) :
    (∀ sk n, n < fuel → Spec.keyGenCandidate H suites_curve_order ikm info n = sk → sk ≠ 0 →
        (∀ m, m < n → Spec.keyGenCandidate H suites_curve_order ikm info m = 0) →
        PyEcc.Gen.ExtraBls.KeyGen H fuel ikm info = .ok sk) ∧
    (∀ e, PyEcc.Gen.ExtraBls.KeyGen H fuel ikm info = .error e →
        e = .other ∧ ∀ n, n < fuel → Spec.keyGenCandidate H suites_curve_order ikm info n = 0) := by
  rw [KeyGen_eq_spec H hw h32]
  constructor
  · intro sk n hn hc hne hz
    rw [(C16.spec_keyGen_some_iff H suites_curve_order ikm info fuel sk).mpr ⟨n, hn, hc, hne, hz⟩]
  · intro e he
    cases hs : Spec.keyGen H suites_curve_order ikm info fuel with
    | some sk => rw [hs] at he; cases he
    | none =>
      rw [hs] at he
      injection he with he
      refine ⟨he.symm, ?_⟩
      intro n
      induction n using Nat.strongRecOn with
      | _ n ih =>
        intro hn
        apply Classical.byContradiction
        intro hne
        have := (C16.spec_keyGen_some_iff H suites_curve_order ikm info fuel _).mpr
          ⟨n, hn, rfl, hne, fun m hm => ih m hm (by omega)⟩
        rw [hs] at this
        cases this

/-- **C16, generated code (range).**  Whatever the hash function and the bound on the number of loop passes, a secret key returned
    by the translated `KeyGen` satisfies `1 ≤ SK < r = curve_order`, i.e. `SK ∈ [1, r-1]`: it is a valid private key. -/
theorem KeyGen_range (H : HashFn) (fuel : Nat) (ikm info : Bytes) (sk : Nat)
    (h : PyEcc.Gen.ExtraBls.KeyGen H fuel ikm info = .ok sk) : 1 ≤ sk ∧ sk < suites_curve_order := by
  rw [Tie.Bls.KeyGen_fuel_eq] at h
  exact keyGenLoop_range H ikm info sk fuel _ h

/-- **C16, generated code (the fuel does not influence the result).**  Two runs of the translated `KeyGen` on the same inputs
    with different bounds on the number of loop passes that both return a key return the SAME key (for a well-formed 32-byte hash
    function): the fuel argument only decides between "returns" and "out of fuel", never the value. -/
theorem KeyGen_fuel_irrelevant (H : HashFn) (hw : H.WF) (h32 : H.digestSize = 32) (ikm info : Bytes) (f₁ f₂ sk₁ sk₂ : Nat)
    (h₁ : PyEcc.Gen.ExtraBls.KeyGen H f₁ ikm info = .ok sk₁) (h₂ : PyEcc.Gen.ExtraBls.KeyGen H f₂ ikm info = .ok sk₂) :
    sk₁ = sk₂ := by
  obtain ⟨n₁, hc₁, hne₁, hz₁⟩ := KeyGen_sound H hw h32 ikm info f₁ sk₁ h₁
  obtain ⟨n₂, hc₂, hne₂, hz₂⟩ := KeyGen_sound H hw h32 ikm info f₂ sk₂ h₂
  rcases Nat.lt_trichotomy n₁ n₂ with hlt | heq | hgt
  · exact absurd (hc₁.symm.trans (hz₂ n₁ hlt)) hne₁
  · rw [← hc₁, ← hc₂, heq]
  · exact absurd (hc₂.symm.trans (hz₁ n₂ hgt)) hne₂

end PyEcc.C16.Gen

section AxiomAudit
open PyEcc.C16.Gen
#print axioms hkdf_extract_eq_spec
#print axioms hkdf_extract_empty_salt
#print axioms hkdf_expand_eq_spec
#print axioms hkdf_expand_eq
#print axioms hkdf_expand_error_iff
#print axioms hkdf_expand_length
#print axioms keygen_L
#print axioms KeyGen_eq_spec
#print axioms KeyGen_sound
#print axioms KeyGen_complete
#print axioms KeyGen_range
#print axioms KeyGen_fuel_irrelevant
end AxiomAudit
