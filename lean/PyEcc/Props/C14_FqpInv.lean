/-
  C14 (extension fields, inverse and division): the optimized `FQP.inv` / `/` return the same
  coefficients as the reference ones, for any prime `p`, any irreducible modulus (side condition
  `Sane p mc`: each modulus coefficient is `0` or not divisible by `p`) and every reduced operand —
  including `0` (both return `0`).  The two loops differ in where they reduce modulo `p`
  (reference: `lm`/`hm` are never reduced, `low`/`high` entries are reduced when touched; optimized:
  everything is reduced at the end of a round) and in `poly_rounded_div` vs `optimized_poly_rounded_div`.
-/
import PyEcc.Sem.FqpFq2
import PyEcc.Sem.Primes
import PyEcc.Model.Curve

namespace PyEcc.C14P
open PyEcc PyEcc.Fqp PyEcc.FqpSem

variable {p : ℕ} {mc : List Int}

/-- **optimized `inv` = reference `inv`** on every reduced coefficient list `a`. -/
theorem inv_opt_eq_ref [Fact p.Prime] (hd : 1 ≤ mc.length) (hirr : Irreducible (modulus p mc))
    (hmc : Sane p mc) {a : List Int} (ha : CanonL p mc.length a) :
    (Fqp.inv (⟨a⟩ : Fqp .opt p mc)).coeffs = (Fqp.inv (⟨a⟩ : Fqp .ref p mc)).coeffs := by
  have hp : 0 < p := (Fact.out : p.Prime).pos
  have hao : Canon (⟨a⟩ : Fqp .opt p mc) := ha
  have har : Canon (⟨a⟩ : Fqp .ref p mc) := ha
  by_cases h0 : toQ (⟨a⟩ : Fqp .opt p mc) = 0
  · have hz : a = (zero : Fqp .opt p mc).coeffs :=
      evQ_inj ha (canon_zero (v := .opt) hp) (h0.trans (toQ_zero (v := .opt)).symm)
    have e1 : (⟨a⟩ : Fqp .opt p mc) = zero := by rw [hz]
    have e2 : (⟨a⟩ : Fqp .ref p mc) = zero := by rw [hz]; rfl
    rw [e1, e2, inv_zero_coeffs, inv_zero_coeffs]; rfl
  · have h0r : toQ (⟨a⟩ : Fqp .ref p mc) ≠ 0 := h0
    obtain ⟨c1, q1⟩ := toQ_inv_mul hd hirr hmc hao.wf (sane_of_canonL ha) h0
    obtain ⟨c2, q2⟩ := toQ_inv_mul hd hirr hmc har.wf (sane_of_canonL ha) h0r
    apply evQ_inj c1 c2
    show toQ (Fqp.inv (⟨a⟩ : Fqp .opt p mc)) = toQ (Fqp.inv (⟨a⟩ : Fqp .ref p mc))
    have hsame : toQ (⟨a⟩ : Fqp .opt p mc) = toQ (⟨a⟩ : Fqp .ref p mc) := rfl
    calc toQ (Fqp.inv (⟨a⟩ : Fqp .opt p mc))
        = toQ (Fqp.inv (⟨a⟩ : Fqp .opt p mc)) *
            (toQ (Fqp.inv (⟨a⟩ : Fqp .ref p mc)) * toQ (⟨a⟩ : Fqp .ref p mc)) := by
          rw [q2, mul_one]
      _ = (toQ (Fqp.inv (⟨a⟩ : Fqp .opt p mc)) * toQ (⟨a⟩ : Fqp .opt p mc)) *
            toQ (Fqp.inv (⟨a⟩ : Fqp .ref p mc)) := by rw [hsame]; ring
      _ = toQ (Fqp.inv (⟨a⟩ : Fqp .ref p mc)) := by rw [q1, one_mul]

/-- **optimized `/` = reference `/`** on reduced coefficient lists. -/
theorem div_opt_eq_ref [Fact p.Prime] (hd : 1 ≤ mc.length) (hirr : Irreducible (modulus p mc))
    (hmc : Sane p mc) {a b : List Int} (ha : CanonL p mc.length a) (hb : CanonL p mc.length b) :
    (Fqp.div (⟨a⟩ : Fqp .opt p mc) ⟨b⟩).coeffs = (Fqp.div (⟨a⟩ : Fqp .ref p mc) ⟨b⟩).coeffs := by
  have hp : 0 < p := (Fact.out : p.Prime).pos
  have hi := inv_opt_eq_ref hd hirr hmc hb
  -- length of the inverse's coefficient list
  have hlen : (Fqp.inv (⟨b⟩ : Fqp .ref p mc)).coeffs.length = mc.length := by
    by_cases h0 : toQ (⟨b⟩ : Fqp .ref p mc) = 0
    · have hz : b = (zero : Fqp .ref p mc).coeffs :=
        evQ_inj hb (canon_zero (v := .ref) hp) (h0.trans (toQ_zero (v := .ref)).symm)
      have e2 : (⟨b⟩ : Fqp .ref p mc) = zero := by rw [hz]
      rw [e2, inv_zero_coeffs]; exact (wf_zero (v := .ref))
    · exact (toQ_inv_mul hd hirr hmc (a := (⟨b⟩ : Fqp .ref p mc)) hb.1 (sane_of_canonL hb) h0).1.1
  unfold Fqp.div
  have hwo : WF (Fqp.inv (⟨b⟩ : Fqp .opt p mc)) := by unfold WF; rw [hi]; exact hlen
  have hwr : WF (Fqp.inv (⟨b⟩ : Fqp .ref p mc)) := hlen
  have hao : WF (⟨a⟩ : Fqp .opt p mc) := ha.1
  have har : WF (⟨a⟩ : Fqp .ref p mc) := ha.1
  apply evQ_inj (canon_mul hp hao hwo) (canon_mul hp har hwr)
  show toQ (mul (⟨a⟩ : Fqp .opt p mc) (Fqp.inv ⟨b⟩)) = toQ (mul (⟨a⟩ : Fqp .ref p mc) (Fqp.inv ⟨b⟩))
  rw [toQ_mul hao hwo, toQ_mul har hwr]
  show evQ p mc a * evQ p mc (Fqp.inv (⟨b⟩ : Fqp .opt p mc)).coeffs =
    evQ p mc a * evQ p mc (Fqp.inv (⟨b⟩ : Fqp .ref p mc)).coeffs
  rw [hi]

/-- FQ2 instance: every prime `p ≡ 3 (mod 4)`, modulus `X² + 1` (BLS12-381 and BN128 FQ2). -/
theorem fq2_inv_opt_eq_ref [Fact p.Prime] (h4 : p % 4 = 3) {a : List Int} (ha : CanonL p 2 a) :
    (Fqp.inv (⟨a⟩ : Fqp .opt p [1, 0])).coeffs = (Fqp.inv (⟨a⟩ : Fqp .ref p [1, 0])).coeffs :=
  inv_opt_eq_ref (by decide) (irreducible_modulus_fq2 h4) sane_fq2 ha

/-! ### non-vacuity -/


example : CanonL 7 2 [3, 5] ∧ 7 % 4 = 3 := by decide
example : CanonL blsP 2 [3, 5] ∧ blsP % 4 = 3 ∧ blsMc2 = [1, 0] := by decide
example : (Fqp.inv (⟨[3, 5]⟩ : Fqp .opt 7 [1, 0])).coeffs = [4, 5] ∧
    (Fqp.inv (⟨[3, 5]⟩ : Fqp .ref 7 [1, 0])).coeffs = [4, 5] := by decide

end PyEcc.C14P
