/-
  PyEcc.Props.C04_Gen — property C04 (**verification is total and rejects malformed input and never feeds unvalidated points to `pairing`**) stated DIRECTLY ABOUT
  THE GENERATED CODE `PyEcc.Gen.ExtraBls.*` (`py_ecc/bls/ciphersuites.py` as translated from the repository on this run:
  `KeyValidate`, `Verify`, `AggregateVerify`, `FastAggregateVerify`, `PopVerify`, with the real `try/except` structure and
  exception kinds), and about the generated primitives underneath (`Gen.ExtraCodec`: `pubkey_to_G1`, `signature_to_G2`,
  `decompress_G1/G2`, `G1_to_pubkey`, `subgroup_check`; `Gen.ExtraSwu.hash_to_G2`; `Gen.ExtraPairing.OptBls.pairing`,
  `final_exponentiate`).

  Each theorem is the model theorem of `Props/C04.lean` / `Props/C04_Total.lean` rewritten with the tie theorems
  (`Props/TieBls.lean`, `TieBlsAgg.lean`, `TieCodec.lean`, `TieCofactor.lean`, `TieSwu.lean`, `TiePairing.lean`).  As there,
  NO theorem has a hypothesis beyond the one it is about: they hold for ALL byte strings of ANY length, all three suites, and
  an arbitrary hash function `H` (any digest size, any output).

  Outcomes.  The translator gives the functions containing a `try/except` the result type `Outcome`
  (`returned b` | `raised e`); `KeyValidate`, whose `try` re-raises every exception kind it does not list, has type
  `Except PyErr Bool`.
-/
import PyEcc.Props.TieBlsAgg
import PyEcc.Props.TieCodec
import PyEcc.Props.TieCofactor
import PyEcc.Props.TieSwu
import PyEcc.Props.TiePairing
import PyEcc.Props.C04_Total

namespace PyEcc.C04.Gen
open PyEcc PyEcc.Gen.Consts PyEcc.BlsSem

/-! ## 0. Canonical inputs, on the generated decoders -/

/-- `pk` is a canonical public key: exactly 48 bytes, the GENERATED `pubkey_to_G1` decodes it to `P`, `P` is not the identity
    (generated `is_inf`) and passes the GENERATED `subgroup_check` -/
def CanonPk (pk : Bytes) (P : G1Pt) : Prop :=
  pk.length = 48 ∧ Gen.ExtraCodec.pubkey_to_G1 pk = .ok P ∧ Gen.OptBls.is_inf P = false ∧
    Gen.ExtraCodec.subgroup_check P = true

/-- `sig` is a canonical signature: exactly 96 bytes, the GENERATED `signature_to_G2` decodes it to `S`, `S` passes the
    GENERATED `subgroup_check` -/
def CanonSig (sig : Bytes) (S : G2Pt) : Prop :=
  sig.length = 96 ∧ Gen.ExtraCodec.signature_to_G2 sig = .ok S ∧ Gen.ExtraCodec.subgroup_check S = true

/-- bridge: `CanonPk` on the generated decoder is the predicate `BlsSem.CanonPk` of the model theorems (ties
    `Tie.pubkey_to_G1_eq`, `Tie.subgroup_check_eq`) -/
theorem canonPk_eq : CanonPk = BlsSem.CanonPk := by
  funext pk P
  unfold CanonPk BlsSem.CanonPk
  rw [Tie.pubkey_to_G1_eq, Tie.subgroup_check_eq]

/-- bridge: `CanonSig` on the generated decoder is the predicate `BlsSem.CanonSig` of the model theorems (ties
    `Tie.signature_to_G2_eq`, `Tie.subgroup_check_eq`) -/
theorem canonSig_eq : CanonSig = BlsSem.CanonSig := by
  funext sig S
  unfold CanonSig BlsSem.CanonSig
  rw [Tie.signature_to_G2_eq, Tie.subgroup_check_eq]

/-- bridge: the generated `KeyValidate` returns `b` iff the model's total `keyValidate` is `b` (tie `Tie.Bls.KeyValidate_eq`:
    it never raises) -/
theorem keyValidate_ok_iff (pk : Bytes) (b : Bool) :
    Gen.ExtraBls.KeyValidate pk = .ok b ↔ keyValidate pk = b := by
  rw [Tie.Bls.KeyValidate_eq]
  exact ⟨fun h => Except.ok.inj h, fun h => congrArg Except.ok h⟩

/-! ## 1. Exception kinds of the generated primitives -/

/-- **Exception kinds of every generated primitive under the verification APIs.**  The generated `decompress_G1` /
    `pubkey_to_G1`, `decompress_G2` / `signature_to_G2`, `pairing` and `hash_to_G2` raise nothing but `ValueError` (for
    `hash_to_G2`: a DST longer than 255 bytes or a digest so short that `ell > 255`; its "unreachable" SWU `raise Exception` is
    never taken); the generated `G1_to_pubkey` never raises and yields 48 bytes. -/
theorem primitive_error_kinds (H : HashFn) :
    (∀ z e, Gen.ExtraCodec.decompress_G1 z = .error e → e = .value) ∧
    (∀ pk e, Gen.ExtraCodec.pubkey_to_G1 pk = .error e → e = .value) ∧
    (∀ z1 z2 e, Gen.ExtraCodec.decompress_G2 (z1, z2) = .error e → e = .value) ∧
    (∀ sig e, Gen.ExtraCodec.signature_to_G2 sig = .error e → e = .value) ∧
    (∀ Q P fe e, Gen.ExtraPairing.OptBls.pairing Q P fe = .error e → e = .value) ∧
    (∀ msg dst e, Gen.ExtraSwu.hash_to_G2 msg dst H = .error e → e = .value) ∧
    (∀ pt, ∃ b, Gen.ExtraCodec.G1_to_pubkey pt = .ok b ∧ b.length = 48) := by
  simp only [Tie.decompress_G1_eq, Tie.pubkey_to_G1_eq, Tie.decompress_G2_eq, Tie.signature_to_G2_eq,
    Tie.pairing_optBls_eq, Tie.hash_to_G2_eq, Tie.G1_to_pubkey_eq]
  obtain ⟨h1, h2, h3, h4, h5, _, h7⟩ := C04.primitive_error_kinds H
  exact ⟨h1, h2, h3, h4, h5, fun msg dst e h => C04.hashToG2_error_kind' H msg dst e h, h7⟩

/-- **The generated `hash_to_G2` never raises at the suites' own tags.**  All four generated domain-separation tags (`DST` of
    the three classes and `POP_TAG`) are 43 bytes long, so the `len(DST) > 255` `ValueError` is impossible; if the hash function's
    digest has at least 2 bytes (SHA-256 has 32) the generated `hash_to_G2(msg, tag, H)` returns for every message. -/
theorem hash_to_G2_suite_total (H : HashFn) (hd : 2 ≤ H.digestSize) (msg : Bytes) :
    (∀ s : Suite, ∃ mp, Gen.ExtraSwu.hash_to_G2 msg (Gen.ExtraBls.DST s) H = .ok mp) ∧
    (∃ mp, Gen.ExtraSwu.hash_to_G2 msg Gen.ExtraBls.POP_TAG H = .ok mp) := by
  simp only [Tie.hash_to_G2_eq, Tie.Bls.DST_eq, Tie.Bls.POP_TAG_eq]
  constructor
  · intro s
    cases h : hashToG2 H msg s.dst with
    | ok mp => exact ⟨mp, rfl⟩
    | error e => exact (C10G2.not_swuFails ((C04.hashToG2_suite_error_kinds H hd msg e).1 s h).2).elim
  · cases h : hashToG2 H msg popTag with
    | ok mp => exact ⟨mp, rfl⟩
    | error e => exact (C10G2.not_swuFails ((C04.hashToG2_suite_error_kinds H hd msg e).2 h).2).elim

example : 2 ≤ sha256Fn.digestSize := by decide

/-- **The signature-side `pairing` calls cannot raise.**  For every byte string that the generated `signature_to_G2` decodes
    to `S`, the generated `pairing(S, G1)` (as called in `_CoreVerify`) and `pairing(S, neg(G1))` (as called in
    `_CoreAggregateVerify`) return. -/
theorem pairing_sig_cannot_raise (sig : Bytes) (S : G2Pt) (h : Gen.ExtraCodec.signature_to_G2 sig = .ok S) :
    (∃ e, Gen.ExtraPairing.OptBls.pairing S blsG1 false = .ok e) ∧
    (∃ e, Gen.ExtraPairing.OptBls.pairing S (Gen.OptBls.neg blsG1) false = .ok e) := by
  rw [Tie.signature_to_G2_eq] at h
  simp only [Tie.pairing_optBls_eq]
  exact C04.pairing_sig_cannot_raise sig S h

/-! ## 2. Totality -/

/-- **The generated `KeyValidate` never raises, and its exact accept set.**  For every byte string `KeyValidate(pk)` returns a
    `bool` (the `try: pubkey_to_G1(PK) except (ValidationError, ValueError, AssertionError): return False` re-raises nothing,
    because `pubkey_to_G1` raises only `ValueError`); it returns `True` iff `pk` has exactly 48 bytes, decodes (generated
    `pubkey_to_G1`), is not the identity and passes the generated `subgroup_check`. -/
theorem KeyValidate_total (pk : Bytes) :
    (∃ b, Gen.ExtraBls.KeyValidate pk = .ok b) ∧
    (Gen.ExtraBls.KeyValidate pk = .ok true ↔ pk.length = 48 ∧ ∃ P, Gen.ExtraCodec.pubkey_to_G1 pk = .ok P ∧
      Gen.OptBls.is_inf P = false ∧ Gen.ExtraCodec.subgroup_check P = true) := by
  refine ⟨⟨keyValidate pk, (keyValidate_ok_iff pk _).mpr rfl⟩, ?_⟩
  rw [keyValidate_ok_iff]
  simp only [Tie.pubkey_to_G1_eq, Tie.subgroup_check_eq]
  exact (C04.keyValidate_total pk).2

/-- **The generated `Verify(PK, message, signature)` always returns a `bool`** — it raises no exception of any kind, for any
    byte strings, in each of the three ciphersuites (basic, AUG, POP). -/
theorem Verify_total (H : HashFn) (s : Suite) (pk msg sig : Bytes) :
    ∃ b, Gen.ExtraBls.Verify H s pk msg sig = .returned b := by
  rw [Tie.Bls.Verify_eq]; exact C04.verify_total' H s pk msg sig

/-- **The generated `PopVerify(PK, proof)` always returns a `bool`**, for any byte strings. -/
theorem PopVerify_total (H : HashFn) (pk proof : Bytes) :
    ∃ b, Gen.ExtraBls.PopVerify H pk proof = .returned b := by
  rw [Tie.Bls.PopVerify_eq]; exact C04.popVerify_total' H pk proof

/-- **The generated `AggregateVerify(PKs, messages, signature)` always returns a `bool`**, for key and message lists of any
    (also different) lengths with entries of any length, all three suites (each with its own override). -/
theorem AggregateVerify_total (H : HashFn) (s : Suite) (pks msgs : List Bytes) (sig : Bytes) :
    ∃ b, Gen.ExtraBls.AggregateVerify H s pks msgs sig = .returned b := by
  rw [Tie.Bls.AggregateVerify_eq]; exact C04.aggregateVerify_total' H s pks msgs sig

/-- **The generated `FastAggregateVerify(PKs, message, signature)` always returns a `bool`**, for any inputs — in particular
    the narrower `except (ValidationError, AssertionError)` of its `try` block lets nothing through. -/
theorem FastAggregateVerify_total (H : HashFn) (pks : List Bytes) (msg sig : Bytes) :
    ∃ b, Gen.ExtraBls.FastAggregateVerify H pks msg sig = .returned b := by
  rw [Tie.Bls.FastAggregateVerify_eq]; exact C04.fastAggregateVerify_total' H pks msg sig

/-- **No generated verification API ever raises** (summary): none of `Verify`, `PopVerify`, `AggregateVerify`,
    `FastAggregateVerify` has an outcome `raised e`, and `KeyValidate` has no result `error e`. -/
theorem never_raises (H : HashFn) (e : PyErr) :
    (∀ s pk msg sig, Gen.ExtraBls.Verify H s pk msg sig ≠ .raised e) ∧
    (∀ pk proof, Gen.ExtraBls.PopVerify H pk proof ≠ .raised e) ∧
    (∀ s pks msgs sig, Gen.ExtraBls.AggregateVerify H s pks msgs sig ≠ .raised e) ∧
    (∀ pks msg sig, Gen.ExtraBls.FastAggregateVerify H pks msg sig ≠ .raised e) ∧
    (∀ pk, Gen.ExtraBls.KeyValidate pk ≠ .error e) := by
  simp only [Tie.Bls.Verify_eq, Tie.Bls.PopVerify_eq, Tie.Bls.AggregateVerify_eq, Tie.Bls.FastAggregateVerify_eq,
    Tie.Bls.KeyValidate_eq]
  obtain ⟨h1, h2, h3, h4⟩ := C04.never_raises H e
  exact ⟨h1, h2, h3, h4, fun pk h => by cases h⟩

/-! ## 3. Non-canonical input is rejected -/

/-- **The generated `Verify` returns `True` only on canonical key and signature.**  If `Verify(pk, msg, sig)` is `True` then
    `pk` has exactly 48 bytes and decodes (generated `pubkey_to_G1`) to a point `P` that is not the identity and passes the
    generated `subgroup_check`, and `sig` has exactly 96 bytes and decodes (generated `signature_to_G2`) to a point `S` that
    passes the generated `subgroup_check`.  (All suites, any hash function, byte strings of any length.) -/
theorem Verify_rejects_noncanonical (H : HashFn) (s : Suite) (pk msg sig : Bytes)
    (h : Gen.ExtraBls.Verify H s pk msg sig = .returned true) :
    pk.length = 48 ∧ sig.length = 96 ∧ ∃ P S, Gen.ExtraCodec.pubkey_to_G1 pk = .ok P ∧
      Gen.OptBls.is_inf P = false ∧ Gen.ExtraCodec.subgroup_check P = true ∧
      Gen.ExtraCodec.signature_to_G2 sig = .ok S ∧ Gen.ExtraCodec.subgroup_check S = true := by
  rw [Tie.Bls.Verify_eq] at h
  simp only [Tie.pubkey_to_G1_eq, Tie.signature_to_G2_eq, Tie.subgroup_check_eq]
  exact C04.verify_rejects_noncanonical H s pk msg sig h

/-- **Malformed input makes the generated `Verify` return `False` — unconditionally.**  Unless `pk` is a canonical key and
    `sig` a canonical signature (`CanonPk`, `CanonSig` above: generated decoders and `subgroup_check`), `Verify` returns `False`
    (it does not raise). -/
theorem Verify_malformed_returns_false (H : HashFn) (s : Suite) (pk msg sig : Bytes)
    (h : ¬ ∃ P S, CanonPk pk P ∧ CanonSig sig S) : Gen.ExtraBls.Verify H s pk msg sig = .returned false := by
  rw [canonPk_eq, canonSig_eq] at h
  rw [Tie.Bls.Verify_eq]
  exact C04.verify_malformed_returns_false H s pk msg sig h

/-- non-vacuity: the empty key is malformed -/
example (H : HashFn) (s : Suite) (msg sig : Bytes) : Gen.ExtraBls.Verify H s [] msg sig = .returned false :=
  Verify_malformed_returns_false H s [] msg sig (by rintro ⟨P, S, ⟨hl, _⟩, _⟩; cases hl)

/-- non-vacuity of `CanonPk` / `CanonSig`: the generator's encoding is a canonical key and the encoding of infinity is a
    canonical signature (kernel evaluation in `Props/C04.lean`) -/
example : (∃ P, CanonPk C04.genPk P) ∧ (∃ S, CanonSig C04.infSig S) := by
  rw [canonPk_eq, canonSig_eq]; exact ⟨C04.genPk_canon, C04.infSig_canon⟩

/-- **Exact accept set of the generated `Verify`.**  `Verify(pk, msg, sig)` is `True` iff key and signature are canonical, the
    generated `hash_to_G2` of the (suite-augmented) message under the class's generated `DST` returns, both generated `pairing`
    calls return, and the generated `final_exponentiate` of the product is `FQ12.one()`. -/
theorem Verify_true_iff (H : HashFn) (s : Suite) (pk msg sig : Bytes) :
    Gen.ExtraBls.Verify H s pk msg sig = .returned true ↔
      ∃ P S mp e1 e2, CanonPk pk P ∧ CanonSig sig S ∧
        Gen.ExtraSwu.hash_to_G2 (vmsg s pk msg) (Gen.ExtraBls.DST s) H = .ok mp ∧
        Gen.ExtraPairing.OptBls.pairing S blsG1 false = .ok e1 ∧
        Gen.ExtraPairing.OptBls.pairing mp (Gen.OptBls.neg P) false = .ok e2 ∧
        Gen.ExtraPairing.OptBls.final_exponentiate (e1 * e2) = (1 : OBls12) := by
  rw [canonPk_eq, canonSig_eq, Tie.Bls.Verify_eq]
  simp only [Tie.hash_to_G2_eq, Tie.Bls.DST_eq, Tie.pairing_optBls_eq, Tie.final_exponentiate_optBls_eq]
  exact C04.verify_true_iff H s pk msg sig

/-- **The generated `PopVerify` returns `True` only on canonical key and proof** (as `Verify_rejects_noncanonical`). -/
theorem PopVerify_rejects_noncanonical (H : HashFn) (pk proof : Bytes)
    (h : Gen.ExtraBls.PopVerify H pk proof = .returned true) :
    pk.length = 48 ∧ proof.length = 96 ∧ ∃ P S, Gen.ExtraCodec.pubkey_to_G1 pk = .ok P ∧
      Gen.OptBls.is_inf P = false ∧ Gen.ExtraCodec.subgroup_check P = true ∧
      Gen.ExtraCodec.signature_to_G2 proof = .ok S ∧ Gen.ExtraCodec.subgroup_check S = true := by
  rw [Tie.Bls.PopVerify_eq] at h
  simp only [Tie.pubkey_to_G1_eq, Tie.signature_to_G2_eq, Tie.subgroup_check_eq]
  exact C04.popVerify_rejects_noncanonical H pk proof h

/-- **Malformed input makes the generated `PopVerify` return `False` — unconditionally.** -/
theorem PopVerify_malformed_returns_false (H : HashFn) (pk proof : Bytes)
    (h : ¬ ∃ P S, CanonPk pk P ∧ CanonSig proof S) : Gen.ExtraBls.PopVerify H pk proof = .returned false := by
  rw [canonPk_eq, canonSig_eq] at h
  rw [Tie.Bls.PopVerify_eq]
  exact C04.popVerify_malformed_returns_false H pk proof h

example (H : HashFn) (proof : Bytes) : Gen.ExtraBls.PopVerify H [] proof = .returned false :=
  PopVerify_malformed_returns_false H [] proof (by rintro ⟨P, S, ⟨hl, _⟩, _⟩; cases hl)

/-- **The generated `AggregateVerify` returns `True` only on canonical keys and signature.**  If
    `AggregateVerify(PKs, messages, sig)` is `True` then there is at least one key, as many messages as keys, EVERY key in the
    list is canonical (48 bytes, decodes, not the identity, in the subgroup — generated decoders and `subgroup_check`), the
    signature is canonical (96 bytes, decodes, in the subgroup), and in the basic suite the messages are pairwise distinct. -/
theorem AggregateVerify_rejects_noncanonical (H : HashFn) (s : Suite) (pks msgs : List Bytes) (sig : Bytes)
    (h : Gen.ExtraBls.AggregateVerify H s pks msgs sig = .returned true) :
    1 ≤ pks.length ∧ pks.length = msgs.length ∧ sig.length = 96 ∧
    (∀ pk ∈ pks, pk.length = 48 ∧ ∃ P, Gen.ExtraCodec.pubkey_to_G1 pk = .ok P ∧ Gen.OptBls.is_inf P = false ∧
      Gen.ExtraCodec.subgroup_check P = true) ∧
    (∃ S, Gen.ExtraCodec.signature_to_G2 sig = .ok S ∧ Gen.ExtraCodec.subgroup_check S = true) ∧
    (s = .basic → msgs.Nodup) := by
  rw [Tie.Bls.AggregateVerify_eq] at h
  simp only [Tie.pubkey_to_G1_eq, Tie.signature_to_G2_eq, Tie.subgroup_check_eq]
  obtain ⟨a, b, c, d, e, f⟩ := C04.aggregateVerify_rejects_noncanonical H s pks msgs sig h
  refine ⟨a, b, c, d, e, fun hs => ?_⟩
  by_contra hn
  have := (C03.hasDup_iff_not_nodup msgs).mpr hn
  rw [f hs] at this
  cases this

/-- **A key failing the generated `KeyValidate` anywhere in the list makes the generated `AggregateVerify` return `False`**
    (all suites), unconditionally. -/
theorem AggregateVerify_badkey_false (H : HashFn) (s : Suite) (pks msgs : List Bytes) (sig : Bytes)
    (h : ∃ pk ∈ pks, Gen.ExtraBls.KeyValidate pk = .ok false) :
    Gen.ExtraBls.AggregateVerify H s pks msgs sig = .returned false := by
  simp only [keyValidate_ok_iff] at h
  rw [Tie.Bls.AggregateVerify_eq]
  exact C04.aggregateVerify_badkey_false' H s pks msgs sig h

/-- non-vacuity: the empty string fails the generated `KeyValidate` -/
example : ∃ pk ∈ [([] : Bytes)], Gen.ExtraBls.KeyValidate pk = .ok false :=
  ⟨[], by simp, (keyValidate_ok_iff [] false).mpr (by decide)⟩

/-- **The generated `FastAggregateVerify` returns `True` only on canonical keys and signature.**  If
    `FastAggregateVerify(PKs, msg, sig)` is `True` then the list is non-empty, EVERY key in it is canonical, the generated
    `_AggregatePKs` returned a key `apk` and the generated `Verify(apk, msg, sig)` (POP suite) is `True` — so the aggregate key
    itself is canonical too, in particular it is NOT the identity — and the signature is canonical. -/
theorem FastAggregateVerify_rejects_noncanonical (H : HashFn) (pks : List Bytes) (msg sig : Bytes)
    (h : Gen.ExtraBls.FastAggregateVerify H pks msg sig = .returned true) :
    1 ≤ pks.length ∧ sig.length = 96 ∧
    (∀ pk ∈ pks, pk.length = 48 ∧ ∃ P, Gen.ExtraCodec.pubkey_to_G1 pk = .ok P ∧ Gen.OptBls.is_inf P = false ∧
      Gen.ExtraCodec.subgroup_check P = true) ∧
    ∃ apk, Gen.ExtraBls._AggregatePKs pks = .ok apk ∧ Gen.ExtraBls.Verify H .pop apk msg sig = .returned true ∧
      ∃ A S, Gen.ExtraCodec.pubkey_to_G1 apk = .ok A ∧ Gen.OptBls.is_inf A = false ∧
        Gen.ExtraCodec.subgroup_check A = true ∧ Gen.ExtraCodec.signature_to_G2 sig = .ok S ∧
        Gen.ExtraCodec.subgroup_check S = true := by
  rw [Tie.Bls.FastAggregateVerify_eq] at h
  simp only [Tie.pubkey_to_G1_eq, Tie.signature_to_G2_eq, Tie.subgroup_check_eq, Tie.Bls.AggregatePKs_eq,
    Tie.Bls.Verify_eq]
  exact C04.fastAggregateVerify_rejects_noncanonical H pks msg sig h

/-- **Malformed input makes the generated `FastAggregateVerify` return `False` — unconditionally**: an empty list, a key
    anywhere in the list that is not 48 bytes long or fails the generated `KeyValidate`, or a signature that is not 96 bytes
    long. -/
theorem FastAggregateVerify_malformed_returns_false (H : HashFn) (pks : List Bytes) (msg sig : Bytes)
    (h : ¬ ((∀ pk ∈ pks, pk.length = 48 ∧ Gen.ExtraBls.KeyValidate pk = .ok true) ∧ sig.length = 96 ∧
      1 ≤ pks.length)) :
    Gen.ExtraBls.FastAggregateVerify H pks msg sig = .returned false := by
  simp only [keyValidate_ok_iff] at h
  rw [Tie.Bls.FastAggregateVerify_eq]
  exact C04.fastAggregateVerify_malformed_returns_false H pks msg sig h

example (H : HashFn) (msg sig : Bytes) : Gen.ExtraBls.FastAggregateVerify H [] msg sig = .returned false :=
  FastAggregateVerify_malformed_returns_false H [] msg sig (by simp)

/-! ## 4. Arguments that reach `pairing`

  The model's `coreVerifyBody` / `coreAggregateVerifyBody` additionally RECORD the list of pairing arguments (the
  correspondence harness compares that list with the arguments recorded from the running Python code); the generated bodies
  `_CoreVerify_try` / `_CoreAggregateVerify_try` are the plain Python bodies, without a trace (the tie is to the first
  component).  The theorems below state the content of `C04.pairing_args_safe_core` / `_agg` for the generated bodies: whenever
  the body returns, the values on which its `pairing` calls were made are validated. -/

/-- **Every argument the generated body of `_CoreVerify` passes to `pairing` is validated.**  Whenever the `try` body of
    `_CoreVerify` returns `b`, either the decoded signature failed the generated `subgroup_check` (then `b = False` and no
    `pairing` call was made), or its two `pairing` calls were exactly `pairing(S, G1)` and `pairing(hash_to_G2(msg, DST), neg(P))`
    where `S` is the decoded signature (canonical: 96 bytes, in the subgroup) and `P` the decoded key (canonical: 48 bytes, not
    the identity, in the subgroup), both returned, and `b` is the comparison of `final_exponentiate` of their product with
    `FQ12.one()`. -/
theorem CoreVerify_try_args_safe (H : HashFn) (s : Suite) (pk msg sig dst : Bytes) (b : Bool)
    (h : Gen.ExtraBls._CoreVerify_try H s pk msg sig dst = .ok b) :
    (b = false ∧ ∃ S, Gen.ExtraCodec.signature_to_G2 sig = .ok S ∧ Gen.ExtraCodec.subgroup_check S = false) ∨
    ∃ S P mp e1 e2, CanonSig sig S ∧ CanonPk pk P ∧ Gen.ExtraSwu.hash_to_G2 msg dst H = .ok mp ∧
      Gen.ExtraPairing.OptBls.pairing S blsG1 false = .ok e1 ∧
      Gen.ExtraPairing.OptBls.pairing mp (Gen.OptBls.neg P) false = .ok e2 ∧
      b = decide (Gen.ExtraPairing.OptBls.final_exponentiate (e1 * e2) = (1 : OBls12)) := by
  rw [Tie.Bls.CoreVerify_try_eq] at h
  rw [canonPk_eq, canonSig_eq]
  simp only [Tie.signature_to_G2_eq, Tie.subgroup_check_eq, Tie.hash_to_G2_eq, Tie.pairing_optBls_eq,
    Tie.final_exponentiate_optBls_eq]
  cases hb : coreVerifyBody H s pk msg sig dst with
  | error e => rw [hb] at h; cases h
  | ok r =>
    obtain ⟨b', tr⟩ := r
    rw [hb] at h
    have hbb : b' = b := Except.ok.inj h
    subst hbb
    obtain ⟨_, hsl, hkv, S, hS, hcase⟩ := coreVerifyBody_ok hb
    rcases hcase with ⟨hsub, hf, _⟩ | ⟨hsub, P, mp, e1, e2, hP, hmp, he1, he2, hfe, _⟩
    · exact .inl ⟨hf, S, hS, hsub⟩
    · right
      obtain ⟨P', hl, hP', hi, hs⟩ := (keyValidate_iff_canon pk).mp hkv
      have : P' = P := by rw [hP] at hP'; exact (Except.ok.inj hP').symm
      subst this
      exact ⟨S, P', mp, e1, e2, ⟨hsl, hS, hsub⟩, ⟨hl, hP, hi, hs⟩, hmp, he1, he2, hfe⟩

/-- **Every argument the generated body of `_CoreAggregateVerify` passes to `pairing` is validated** (invariant over its
    `for pk, message in zip(PKs, messages)` loop).  Whenever the `try` body returns `b`, either the decoded signature failed the
    generated `subgroup_check` (then `b = False`, no `pairing` call), or the signature is canonical, `pairing(S, neg(G1))`
    returned, and for EVERY `(pk, message)` of the zipped lists the key is canonical (decodes to `P`, not the identity, in the
    subgroup) and `hash_to_G2(message, DST)` returned the point `Q` — these `(Q, P)` are the loop's `pairing` arguments. -/
theorem CoreAggregateVerify_try_args_safe (H : HashFn) (s : Suite) (pks msgs : List Bytes) (sig dst : Bytes)
    (b : Bool) (h : Gen.ExtraBls._CoreAggregateVerify_try H s pks msgs sig dst = .ok b) :
    (b = false ∧ ∃ S, Gen.ExtraCodec.signature_to_G2 sig = .ok S ∧ Gen.ExtraCodec.subgroup_check S = false) ∨
    ∃ S, CanonSig sig S ∧ (∃ e, Gen.ExtraPairing.OptBls.pairing S (Gen.OptBls.neg blsG1) false = .ok e) ∧
      ∀ pm ∈ List.zip pks msgs, ∃ P Q, CanonPk pm.1 P ∧ Gen.ExtraSwu.hash_to_G2 pm.2 dst H = .ok Q := by
  rw [Tie.Bls.CoreAggregateVerify_try_eq] at h
  rw [canonPk_eq, canonSig_eq]
  simp only [Tie.signature_to_G2_eq, Tie.subgroup_check_eq, Tie.hash_to_G2_eq, Tie.pairing_optBls_eq]
  cases hb : coreAggregateVerifyBody H s pks msgs sig dst with
  | error e => rw [hb] at h; cases h
  | ok r =>
    obtain ⟨b', tr⟩ := r
    rw [hb] at h
    have hbb : b' = b := Except.ok.inj h
    subst hbb
    obtain ⟨_, _, hsl, _, S, hS, hcase⟩ := coreAggregateVerifyBody_ok hb
    rcases hcase with ⟨hsub, hf, _⟩ | ⟨hsub, ext, _, e, _, hall, he, _, _⟩
    · exact .inl ⟨hf, S, hS, hsub⟩
    · right
      refine ⟨S, ⟨hsl, hS, hsub⟩, ⟨e, he⟩, ?_⟩
      intro pm hpm
      obtain ⟨qp, _, hkv, hP, hmp⟩ := hall.mem_left pm hpm
      obtain ⟨P0, hP0⟩ := (keyValidate_iff_canon pm.1).mp hkv
      exact ⟨P0, qp.1, hP0, hmp⟩

set_option maxRecDepth 100000 in
/-- **The fixed G1 arguments are sound too**: the generator `G1` and `neg(G1)` are on the curve `y² = x³ + 4`, are not the
    identity, and pass the generated `subgroup_check` (kernel evaluation of the generated code). -/
theorem generator_args_safe :
    Gen.OptBls.is_on_curve blsG1 (Fq.ofInt optimized_bls12_381_b : Fq blsP) = true ∧
    Gen.OptBls.is_inf blsG1 = false ∧ Gen.ExtraCodec.subgroup_check blsG1 = true ∧
    Gen.OptBls.is_on_curve (Gen.OptBls.neg blsG1) (Fq.ofInt optimized_bls12_381_b : Fq blsP) = true ∧
    Gen.OptBls.is_inf (Gen.OptBls.neg blsG1) = false ∧
    Gen.ExtraCodec.subgroup_check (Gen.OptBls.neg blsG1) = true := by
  simp only [Tie.subgroup_check_eq]
  exact C04.generator_args_safe

end PyEcc.C04.Gen
