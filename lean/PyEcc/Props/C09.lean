/-
  PyEcc.Props.C09 — property C09: the signing-side outputs of `py_ecc/bls/ciphersuites.py`
  (`SkToPk`, `Sign` of the three suites, `PopProve`, `Aggregate`) are the byte strings mandated by
  draft-irtf-cfrg-bls-signature-04, for ALL inputs and any hash function `H`.

  `PyEcc.Spec.BlsSig` is the draft written out step by step over the primitives the draft takes as
  given; `PyEcc.Model.Bls` is the model of the Python file (tied to the Python by the differential
  harness), `PyEcc.Gen.Consts` holds the tags / group order / generator regenerated from the source
  on every run.  The equalities are short because the code follows the draft; a changed tag, a
  swapped `PK ‖ message`, another generator or another group order makes a theorem here fail.

  Core Lean only.  All closed-term facts are kernel evaluation (`decide +kernel`, no axioms).
-/
import PyEcc.Spec.BlsSig
import PyEcc.Spec.Standards
import PyEcc.Model.Bls

set_option maxRecDepth 100000

namespace PyEcc.C09
open PyEcc PyEcc.Gen.Consts
open PyEcc.Spec.BlsSig (Result signature_to_point AggregateLoop)

/-! ### constants: tags, group order, generator -/

/-- `G2Basic.DST` (hex-encoded in `Gen.Consts.suites_DST_basic`, regenerated from the Python class
    attribute) is the draft's `BLS_SIG_BLS12381G2_XMD:SHA-256_SSWU_RO_NUL_`. -/
theorem dst_basic_eq_spec : Suite.dst .basic = Spec.BlsSig.DST_NUL := by decide +kernel

/-- `G2MessageAugmentation.DST` is the draft's `BLS_SIG_BLS12381G2_XMD:SHA-256_SSWU_RO_AUG_`. -/
theorem dst_aug_eq_spec : Suite.dst .aug = Spec.BlsSig.DST_AUG := by decide +kernel

/-- `G2ProofOfPossession.DST` is the draft's `BLS_SIG_BLS12381G2_XMD:SHA-256_SSWU_RO_POP_`. -/
theorem dst_pop_eq_spec : Suite.dst .pop = Spec.BlsSig.DST_POP := by decide +kernel

/-- `G2ProofOfPossession.POP_TAG` is the draft's `BLS_POP_BLS12381G2_XMD:SHA-256_SSWU_RO_POP_`. -/
theorem popTag_eq_spec : popTag = Spec.BlsSig.POP_TAG := by decide +kernel

/-- All four tags at once (the form quoted in DESIGN §C09). -/
theorem dst_eq_spec :
    Suite.dst .basic = Spec.BlsSig.DST_NUL ∧ Suite.dst .aug = Spec.BlsSig.DST_AUG ∧
    Suite.dst .pop = Spec.BlsSig.DST_POP ∧ popTag = Spec.BlsSig.POP_TAG :=
  ⟨dst_basic_eq_spec, dst_aug_eq_spec, dst_pop_eq_spec, popTag_eq_spec⟩

/-- The tags typed in `Spec/BlsSig.lean` agree with the ones typed (independently, as `String`s) in
    `Spec/Standards.lean`: two transcriptions of the draft, one value. -/
theorem spec_tags_consistent :
    Spec.BlsSig.DST_NUL = Spec.BlsSig.dstBasic.toUTF8.toList ∧
    Spec.BlsSig.DST_AUG = Spec.BlsSig.dstAug.toUTF8.toList ∧
    Spec.BlsSig.DST_POP = Spec.BlsSig.dstPop.toUTF8.toList ∧
    Spec.BlsSig.POP_TAG = Spec.BlsSig.popTag.toUTF8.toList := by decide +kernel

/-- The tags as explicit octets: 43 ASCII characters each; the four differ only in the scheme
    prefix `SIG`/`POP` and the suffix `NUL_`/`AUG_`/`POP_`. -/
theorem dst_bytes :
    let pre : Bytes := [0x42,0x4c,0x53,0x5f]                                   -- "BLS_"
    let mid : Bytes := [0x5f,0x42,0x4c,0x53,0x31,0x32,0x33,0x38,0x31,0x47,0x32,0x5f,  -- "_BLS12381G2_"
                        0x58,0x4d,0x44,0x3a,0x53,0x48,0x41,0x2d,0x32,0x35,0x36,0x5f,  -- "XMD:SHA-256_"
                        0x53,0x53,0x57,0x55,0x5f,0x52,0x4f,0x5f]                      -- "SSWU_RO_"
    let SIG : Bytes := [0x53,0x49,0x47]
    let POP : Bytes := [0x50,0x4f,0x50]
    Suite.dst .basic = pre ++ SIG ++ mid ++ [0x4e,0x55,0x4c,0x5f] ∧
    Suite.dst .aug = pre ++ SIG ++ mid ++ [0x41,0x55,0x47,0x5f] ∧
    Suite.dst .pop = pre ++ SIG ++ mid ++ POP ++ [0x5f] ∧
    popTag = pre ++ POP ++ mid ++ POP ++ [0x5f] := by decide +kernel

/-- `curve_order` used by `_is_valid_privkey` and `KeyGen` is the BLS12-381 group order `r`. -/
theorem curveOrder_eq_spec :
    curveOrder = 0x73eda753299d7d483339d80809a1d80553bda402fffe5bfeffffffff00000001 := by
  decide +kernel

/-- the same against the two spec files (`Spec.BlsSig.r`, `Spec.BLS12381.r`) -/
theorem curveOrder_eq_spec_r : curveOrder = Spec.BlsSig.r ∧ Spec.BlsSig.r = Spec.BLS12381.r := by
  decide +kernel

/-- The point `G1` that `SkToPk` multiplies is the standard BLS12-381 G1 generator, in projective
    coordinates with `z = 1`. -/
theorem blsG1_eq_spec :
    blsG1 =
      (Fq.ofInt 0x17f1d3a73197d7942695638c4fa9ac0fc3688c4f9774b905a14e3a3f171bac586c55e83ff97a1aeffb3af00adb22c6bb,
       Fq.ofInt 0x08b3f481e3aaa0f1a09e30ed741d8ae4fcf5e095d5d00af600db18cb2c04b3edd03cc744a2888ae40caa232946c5e7e1,
       Fq.ofInt 1) := by
  decide +kernel

/-- Same, on the stored residues (no reduction hidden in `Fq.ofInt`), against both spec files. -/
theorem blsG1_coords :
    blsG1.1.n = Spec.BlsSig.P_x ∧ blsG1.2.1.n = Spec.BlsSig.P_y ∧ blsG1.2.2.n = 1 ∧
    Spec.BlsSig.P_x = Spec.BLS12381.g1x ∧ Spec.BlsSig.P_y = Spec.BLS12381.g1y := by
  decide +kernel

/-! ### SkToPk, Sign, PopProve -/

/-- `SkToPk(privkey)`: for every Python argument accepted by `_is_valid_privkey` (an `int` with
    `0 < privkey < r`), the returned bytes — or the exception of the serialisation primitive — are
    those of the draft's `SkToPk(SK) = point_to_pubkey(SK * P)`. -/
theorem skToPk_eq_spec (sk : PyArg) (k : Nat) (h : isValidPrivkey sk = some k) :
    skToPk sk = Spec.BlsSig.SkToPk k := by
  simp only [skToPk, h]; rfl

/-- On every argument `_is_valid_privkey` rejects (not an `int`, `≤ 0`, `≥ r`) `SkToPk` raises
    `ValidationError`; the draft's procedure is not defined there. -/
theorem skToPk_invalid (sk : PyArg) (h : isValidPrivkey sk = none) : skToPk sk = .error .validation := by
  simp only [skToPk, h]

/-- `isValidPrivkey sk = some k` says exactly: `sk` is the Python int `k`, and `0 < k < r`. -/
theorem isValidPrivkey_iff (sk : PyArg) (k : Nat) :
    isValidPrivkey sk = some k ↔ sk = .int (k : Int) ∧ 0 < k ∧ k < Spec.BlsSig.r := by
  have hr : (curveOrder : Int) = ((Spec.BlsSig.r : Nat) : Int) := by rw [curveOrder_eq_spec_r.1]
  cases sk with
  | other => simp [isValidPrivkey]
  | int z =>
    simp only [isValidPrivkey, hr]
    constructor
    · intro h
      split at h
      · next hz =>
        injection h with h
        have : z = (k : Int) := by omega
        subst this
        exact ⟨rfl, by omega, by omega⟩
      · cases h
    · rintro ⟨h1, h2, h3⟩
      injection h1 with h1
      subst h1
      have : (0 : Int) < (k : Int) ∧ (k : Int) < ((Spec.BlsSig.r : Nat) : Int) := by omega
      rw [if_pos this, Int.toNat_natCast]

example : isValidPrivkey (.int 1) = some 1 := by decide +kernel

/-- `_CoreSign(SK, message, DST)` on a valid key is the draft's
    `CoreSign(SK, message) = point_to_signature(SK * hash_to_point(message))` under that DST. -/
theorem coreSign_eq_spec (H : HashFn) (sk : PyArg) (k : Nat) (h : isValidPrivkey sk = some k)
    (msg dst : Bytes) : coreSign H sk msg dst = Spec.BlsSig.CoreSign H dst k msg := by
  simp only [coreSign, h]; rfl

/-- `G2Basic.Sign(SK, message)` is §3.1 `Sign = CoreSign` under the `…_NUL_` tag. -/
theorem sign_basic_eq_spec (H : HashFn) (sk : PyArg) (k : Nat) (h : isValidPrivkey sk = some k)
    (msg : Bytes) : sign H .basic sk msg = Spec.BlsSig.Basic.Sign H k msg := by
  simp only [sign, coreSign_eq_spec H sk k h, dst_basic_eq_spec]; rfl

/-- `G2MessageAugmentation.Sign(SK, message)` is §3.2.1: `CoreSign(SK, PK ‖ message)` with
    `PK = SkToPk(SK)` (public key first, then the message) under the `…_AUG_` tag. -/
theorem sign_aug_eq_spec (H : HashFn) (sk : PyArg) (k : Nat) (h : isValidPrivkey sk = some k)
    (msg : Bytes) : sign H .aug sk msg = Spec.BlsSig.Aug.Sign H k msg := by
  simp only [sign, skToPk_eq_spec sk k h, dst_aug_eq_spec, Spec.BlsSig.Aug.Sign, bind]
  congr 1
  funext pk
  exact coreSign_eq_spec H sk k h _ _

/-- `G2ProofOfPossession.Sign(SK, message)` is §3.3 `Sign = CoreSign` under the `…_POP_` tag. -/
theorem sign_pop_eq_spec (H : HashFn) (sk : PyArg) (k : Nat) (h : isValidPrivkey sk = some k)
    (msg : Bytes) : sign H .pop sk msg = Spec.BlsSig.Pop.Sign H k msg := by
  simp only [sign, coreSign_eq_spec H sk k h, dst_pop_eq_spec]; rfl

/-- the draft's `Sign` of each scheme -/
def specSign (H : HashFn) : Suite → Nat → Bytes → Except PyErr Bytes
  | .basic => Spec.BlsSig.Basic.Sign H
  | .aug => Spec.BlsSig.Aug.Sign H
  | .pop => Spec.BlsSig.Pop.Sign H

/-- `Sign` of every suite, for every hash function, valid key and message: the bytes returned (or
    the exception of a primitive) are those of the draft's `Sign` of that scheme. -/
theorem sign_eq_spec (H : HashFn) (s : Suite) (sk : PyArg) (k : Nat) (h : isValidPrivkey sk = some k)
    (msg : Bytes) : sign H s sk msg = specSign H s k msg := by
  cases s
  · exact sign_basic_eq_spec H sk k h msg
  · exact sign_aug_eq_spec H sk k h msg
  · exact sign_pop_eq_spec H sk k h msg

/-- On a rejected key every `Sign` raises `ValidationError`. -/
theorem sign_invalid (H : HashFn) (s : Suite) (sk : PyArg) (h : isValidPrivkey sk = none) (msg : Bytes) :
    sign H s sk msg = .error .validation := by
  cases s <;> simp only [sign, coreSign, skToPk, h] <;> rfl

/-- `PopProve(SK)` is §3.3.2: `point_to_signature(SK * hash_pubkey_to_point(SkToPk(SK)))`, where
    `hash_pubkey_to_point` hashes under the `BLS_POP_…` tag (not the signature tag). -/
theorem popProve_eq_spec (H : HashFn) (sk : PyArg) (k : Nat) (h : isValidPrivkey sk = some k) :
    popProve H sk = Spec.BlsSig.PopProve H k := by
  simp only [popProve, skToPk_eq_spec sk k h, popTag_eq_spec, Spec.BlsSig.PopProve, bind]
  congr 1
  funext pk
  exact coreSign_eq_spec H sk k h _ _

/-! ### Aggregate -/

/-- the constant `1` of `FQ2` (the `z` of every decompressed finite point) is not `0` -/
theorem fq2_one_ne_zero : (Fqp.ofInts [1, 0] : F2) ≠ 0 := by decide +kernel

/-- `add(Z2, pt) = pt` whenever `pt` is `Z2` itself or has `z ≠ 0` (first branch of the generated
    `add`).  For a `pt ≠ Z2` with `z = 0` it is false: `add` returns its first argument. -/
theorem add_Z2 (pt : G2Pt) (h : pt = Z2 ∨ pt.2.2 ≠ 0) : Gen.OptBls.add Z2 pt = pt := by
  rcases h with rfl | h
  · decide +kernel
  · unfold Gen.OptBls.add
    simp [h, Z2]

/-- `decompress_G2` returns `Z2` or a point with `z = FQ2.one()`. -/
theorem decompressG2_ok (z1 z2 : Nat) (pt : G2Pt) (h : decompressG2 z1 z2 = .ok pt) :
    pt = Z2 ∨ pt.2.2 ≠ 0 := by
  unfold decompressG2 at h
  simp only [bind, Except.bind, pure, Except.pure, throw, throwThe, MonadExceptOf.throw] at h
  repeat' split at h
  all_goals cases h
  all_goals first
    | exact Or.inl rfl
    | exact Or.inr fq2_one_ne_zero

/-- every exception of `decompress_G2` is a `ValueError` -/
theorem decompressG2_error (z1 z2 : Nat) (e : PyErr) (h : decompressG2 z1 z2 = .error e) :
    e = .value := by
  unfold decompressG2 at h
  simp only [bind, Except.bind, pure, Except.pure, throw, throwThe, MonadExceptOf.throw] at h
  repeat' split at h
  all_goals cases h
  all_goals rfl

/-- the body of the model's `for signature in signatures` loop -/
abbrev step : G2Pt → Bytes → Except PyErr G2Pt := fun acc sg => do
  let pt ← signatureToG2 sg
  pure (Gen.OptBls.add acc pt)

theorem aggregate_unfold (sigs : List Bytes) : aggregate sigs =
    if sigs.length < 1 then .error .validation
    else if !(sigs.all (·.length = 96)) then .error .validation
    else (sigs.foldlM step Z2).bind g2ToSignature := by
  unfold aggregate
  simp only [bind, Except.bind, pure, Except.pure, throw, throwThe, MonadExceptOf.throw]
  split
  · rfl
  · split <;> rfl

theorem foldlM_step_cons (acc : G2Pt) (s : Bytes) (rest : List Bytes) :
    (s :: rest).foldlM step acc =
      match signatureToG2 s with
      | .ok pt => rest.foldlM step (Gen.OptBls.add acc pt)
      | .error e => .error e := by
  simp only [List.foldlM_cons, step, bind, Except.bind, pure, Except.pure]
  cases signatureToG2 s <;> rfl

theorem s2p_ok {s : Bytes} (h : s.length = 96) {pt : G2Pt} (h' : signatureToG2 s = .ok pt) :
    signature_to_point s = .ok pt := by
  simp [signature_to_point, h, h']

theorem s2p_err {s : Bytes} {e : PyErr} (h' : signatureToG2 s = .error e) :
    signature_to_point s = .INVALID := by
  simp only [signature_to_point, h']; split <;> rfl

theorem s2p_len {s : Bytes} (h : s.length ≠ 96) : signature_to_point s = .INVALID := by
  simp [signature_to_point, h]

/-- the draft's loop (steps 3–6) against the model's fold, when all lengths are 96 -/
theorem loop_of_lengths (sigs : List Bytes) (acc : G2Pt) (h : sigs.all (·.length = 96) = true) :
    match AggregateLoop acc sigs with
    | .ok a => sigs.foldlM step acc = .ok a
    | .INVALID => sigs.foldlM step acc = .error .value := by
  induction sigs generalizing acc with
  | nil => simp [AggregateLoop, pure, Except.pure]
  | cons s rest ih =>
    simp only [List.all_cons, Bool.and_eq_true, decide_eq_true_eq] at h
    rw [foldlM_step_cons]
    unfold AggregateLoop
    cases hs : signatureToG2 s with
    | error e =>
      have : e = .value := decompressG2_error _ _ _ hs
      simp [s2p_err hs, this]
    | ok pt =>
      simp only [s2p_ok h.1 hs]
      exact ih _ h.2

/-- a signature of the wrong length makes the draft's loop INVALID -/
theorem loop_of_bad_length (sigs : List Bytes) (acc : G2Pt) (h : sigs.all (·.length = 96) = false) :
    AggregateLoop acc sigs = .INVALID := by
  induction sigs generalizing acc with
  | nil => simp at h
  | cons s rest ih =>
    unfold AggregateLoop
    by_cases hl : s.length = 96
    · have h2 : rest.all (·.length = 96) = false := by simpa [hl] using h
      cases signature_to_point s with
      | INVALID => rfl
      | ok next => exact ih _ h2
    · rw [s2p_len hl]

theorem spec_Aggregate_cons (s1 : Bytes) (rest : List Bytes) :
    Spec.BlsSig.Aggregate (s1 :: rest) =
      match signature_to_point s1 with
      | .INVALID => .INVALID
      | .ok aggregate =>
        match AggregateLoop aggregate rest with
        | .INVALID => .INVALID
        | .ok aggregate => .ok (Spec.BlsSig.point_to_signature aggregate) := rfl

/-- `Aggregate(signatures)` against §2.8 of the draft, for every list of byte strings.

    * Whenever the draft's procedure yields a value `r` — i.e. it reaches step 7 and returns
      `point_to_signature(aggregate)` — the Python function yields exactly `r` (the same 96 bytes; or,
      were the serialisation primitive to raise, the same exception).  The Python code seeds its sum
      with the point at infinity `Z2` and adds every decoded signature, the draft starts from the
      first decoded signature: `add(Z2, pt) = pt` for every `pt` that `signature_to_G2` can return.
    * Whenever the draft's procedure is INVALID (`n < 1`, or some `signature_to_point` is INVALID) the
      Python function raises, and the exception kind is: `ValidationError` if the list is empty or
      *any* element is not 96 bytes long (the code checks all lengths before decoding anything);
      otherwise `ValueError` (raised by `decompress_G2` on the first undecodable element). -/
theorem aggregate_eq_spec (sigs : List Bytes) :
    (∀ r, Spec.BlsSig.Aggregate sigs = .ok r → aggregate sigs = r) ∧
    (Spec.BlsSig.Aggregate sigs = .INVALID →
      aggregate sigs =
        .error (if sigs.length < 1 ∨ sigs.all (·.length = 96) = false then .validation else .value)) := by
  rw [aggregate_unfold]
  cases sigs with
  | nil => exact ⟨fun r h => (by cases h), fun _ => rfl⟩
  | cons s1 rest =>
    have hlen : ¬ (s1 :: rest).length < 1 := by simp
    simp only [hlen, if_false, false_or]
    cases hall : (s1 :: rest).all (·.length = 96) with
    | false =>
      have hinv : Spec.BlsSig.Aggregate (s1 :: rest) = .INVALID := by
        rw [spec_Aggregate_cons]
        by_cases hl : s1.length = 96
        · have h2 : rest.all (·.length = 96) = false := by simpa [hl] using hall
          cases signature_to_point s1 with
          | INVALID => rfl
          | ok a => simp only [loop_of_bad_length rest a h2]
        · rw [s2p_len hl]
      refine ⟨fun r h => ?_, fun _ => ?_⟩
      · rw [hinv] at h; cases h
      · simp
    | true =>
      have hall' := hall
      simp only [List.all_cons, Bool.and_eq_true, decide_eq_true_eq] at hall'
      simp only [Bool.not_true, Bool.false_eq_true, if_false]
      rw [foldlM_step_cons, spec_Aggregate_cons]
      cases hs : signatureToG2 s1 with
      | error e =>
        have : e = .value := decompressG2_error _ _ _ hs
        subst this
        rw [s2p_err hs]
        exact ⟨fun r h => (by cases h), fun _ => rfl⟩
      | ok pt =>
        simp only [s2p_ok hall'.1 hs, add_Z2 pt (decompressG2_ok _ _ _ hs)]
        have hloop := loop_of_lengths rest pt hall'.2
        cases hl : AggregateLoop pt rest with
        | INVALID =>
          rw [hl] at hloop
          simp only [hloop]
          exact ⟨fun r h => (by cases h), fun _ => rfl⟩
        | ok a =>
          rw [hl] at hloop
          simp only [hloop]
          refine ⟨fun r h => ?_, fun h => by cases h⟩
          injection h with h

/-- `.ok` results: `Aggregate` returns the bytes `b` iff the draft's `Aggregate` outputs `b`. -/
theorem aggregate_ok_iff (sigs : List Bytes) (b : Bytes) :
    aggregate sigs = .ok b ↔ Spec.BlsSig.Aggregate sigs = .ok (.ok b) := by
  have ⟨h1, h2⟩ := aggregate_eq_spec sigs
  constructor
  · intro h
    cases hs : Spec.BlsSig.Aggregate sigs with
    | INVALID => rw [h2 hs] at h; cases h
    | ok r => rw [h1 r hs] at h; rw [h]
  · intro h; exact h1 _ h

/-- `Aggregate` raises iff the draft's `Aggregate` is INVALID or its final `point_to_signature`
    raises (which the draft assumes cannot happen). -/
theorem aggregate_error_iff (sigs : List Bytes) :
    (∃ e, aggregate sigs = .error e) ↔
      (Spec.BlsSig.Aggregate sigs = .INVALID ∨ ∃ e, Spec.BlsSig.Aggregate sigs = .ok (.error e)) := by
  have ⟨h1, h2⟩ := aggregate_eq_spec sigs
  constructor
  · rintro ⟨e, h⟩
    cases hs : Spec.BlsSig.Aggregate sigs with
    | INVALID => exact Or.inl rfl
    | ok r => rw [h1 r hs] at h; exact Or.inr ⟨e, by rw [h]⟩
  · rintro (h | ⟨e, h⟩)
    · exact ⟨_, h2 h⟩
    · exact ⟨e, h1 _ h⟩

/-- When the draft's `Aggregate` is INVALID: exactly the inputs with `n < 1` or with an element
    that `signature_to_point` rejects. -/
theorem spec_aggregate_invalid_iff (sigs : List Bytes) :
    Spec.BlsSig.Aggregate sigs = .INVALID ↔
      (sigs = [] ∨ ∃ s ∈ sigs, signature_to_point s = .INVALID) := by
  have loop : ∀ (l : List Bytes) (acc : G2Pt),
      AggregateLoop acc l = .INVALID ↔ ∃ s ∈ l, signature_to_point s = .INVALID := by
    intro l
    induction l with
    | nil => intro acc; simp [AggregateLoop]
    | cons s rest ih =>
      intro acc
      unfold AggregateLoop
      cases hs : signature_to_point s with
      | INVALID => simp [hs]
      | ok next => simp [hs, ih]
  cases sigs with
  | nil => simp [Spec.BlsSig.Aggregate]
  | cons s1 rest =>
    rw [spec_Aggregate_cons]
    cases hs : signature_to_point s1 with
    | INVALID => simp [hs]
    | ok a =>
      constructor
      · intro h
        have hl : AggregateLoop a rest = .INVALID := by
          cases hl : AggregateLoop a rest with
          | INVALID => rfl
          | ok a' => simp only [hl] at h; cases h
        obtain ⟨s, hm, hi⟩ := (loop rest a).1 hl
        exact Or.inr ⟨s, List.mem_cons_of_mem _ hm, hi⟩
      · rintro (h | ⟨s, hm, hi⟩)
        · cases h
        · rcases List.mem_cons.1 hm with rfl | hm
          · rw [hs] at hi; cases hi
          · simp only [(loop rest a).2 ⟨s, hm, hi⟩]

/-! ### kernel-evaluated anchors (non-vacuity; the model computes the well-known values) -/

theorem ok_of_toOption {ε α : Type} {x : Except ε α} {a : α} (h : x.toOption = some a) : x = .ok a := by
  cases x <;> simp_all [Except.toOption]

/-- the compressed G1 generator, `97f1d3a7…c6bb` -/
def compressedG1 : Bytes :=
  [0x97,0xf1,0xd3,0xa7, 0x31,0x97,0xd7,0x94, 0x26,0x95,0x63,0x8c, 0x4f,0xa9,0xac,0x0f,
   0xc3,0x68,0x8c,0x4f, 0x97,0x74,0xb9,0x05, 0xa1,0x4e,0x3a,0x3f, 0x17,0x1b,0xac,0x58,
   0x6c,0x55,0xe8,0x3f, 0xf9,0x7a,0x1a,0xef, 0xfb,0x3a,0xf0,0x0a, 0xdb,0x22,0xc6,0xbb]

/-- `SkToPk(1)` is the well-known compressed generator (evaluated by the Lean kernel on the model). -/
theorem skToPk_one : skToPk (.int 1) = .ok compressedG1 := ok_of_toOption (by decide +kernel)

/-- hence so is the draft's `SkToPk(1)` -/
theorem spec_SkToPk_one : Spec.BlsSig.SkToPk 1 = .ok compressedG1 := by
  rw [← skToPk_eq_spec (.int 1) 1 (by decide +kernel)]; exact skToPk_one

/-- the compressed point at infinity of G2: `c0 00 … 00` (96 bytes) -/
def compressedInfG2 : Bytes := 0xc0 :: List.replicate 95 0

/-- `Aggregate` of the infinity signature with itself is the infinity signature, in the model and
    in the draft's procedure (the `.ok` branch of `aggregate_eq_spec` is inhabited). -/
example : Spec.BlsSig.Aggregate [compressedInfG2, compressedInfG2] = .ok (.ok compressedInfG2) ∧
    aggregate [compressedInfG2, compressedInfG2] = .ok compressedInfG2 := by
  have h : aggregate [compressedInfG2, compressedInfG2] = .ok compressedInfG2 :=
    ok_of_toOption (by decide +kernel)
  exact ⟨(aggregate_ok_iff _ _).1 h, h⟩

/-- the three INVALID cases and their exception kinds -/
example : Spec.BlsSig.Aggregate [] = .INVALID ∧ aggregate [] = .error .validation := ⟨rfl, rfl⟩

example : Spec.BlsSig.Aggregate [compressedInfG2, [0xc0]] = .INVALID ∧
    aggregate [compressedInfG2, [0xc0]] = .error .validation := by
  have h : Spec.BlsSig.Aggregate [compressedInfG2, [0xc0]] = .INVALID :=
    (spec_aggregate_invalid_iff _).2 (Or.inr ⟨[0xc0], by simp, by decide +kernel⟩)
  exact ⟨h, (aggregate_eq_spec _).2 h⟩

example : Spec.BlsSig.Aggregate [compressedInfG2, List.replicate 96 0] = .INVALID ∧
    aggregate [compressedInfG2, List.replicate 96 0] = .error .value := by
  have h : Spec.BlsSig.Aggregate [compressedInfG2, List.replicate 96 0] = .INVALID :=
    (spec_aggregate_invalid_iff _).2 (Or.inr ⟨List.replicate 96 0, by simp, by decide +kernel⟩)
  exact ⟨h, (aggregate_eq_spec _).2 h⟩

/-- the length gate in `signature_to_point` matters: a 97-byte string (a zero byte inserted in the
    middle of the infinity encoding) is accepted by the bare `signature_to_G2`. -/
example : (signatureToG2 (0xc0 :: List.replicate 96 0)).toOption = some Z2 := by decide +kernel

end PyEcc.C09
