/-
  PyEcc.Lemmas.MillerBnIdeal — Miller's algorithm is well defined up to vertical lines: a field-generic
  "divisor" argument in the affine coordinate ring `F[E]` of `E : y² = x³ + b` (Mathlib's
  `WeierstrassCurve.Affine.CoordinateRing`), used to compare the SIGNED-digit Miller loop of
  `optimized_bn128` with the BINARY Miller loop of `bn128`.

  For a point `A` let `I(A) = ⟨X − x_A, Y − y_A⟩` (`I(∞) = ⊤`), `v_A = X − x_A` (`v_∞ = 1`) and, for
  finite `A, B` with `A ≠ −B`, `ℓ_{A,B} = slope·(X − x_A) + y_A − Y` (chord or tangent).  Mathlib proves
      `⟨v_{A+B}⟩ · I(A) · I(B) = ⟨ℓ_{A,B}⟩ · I(A+B)`,   `I(−A) · I(A) = ⟨v_A⟩`
  (`XYIdeal_mul_XYIdeal`, `XYIdeal_neg_mul`: the ideal form of `div ℓ = (A) + (B) + (−A−B) − 3(∞)`).
  A pair `(N, D)` is Miller data for `k·T` (`MD T k N D`) when `⟨N⟩ · I(k·T) = ⟨D⟩ · I(T)^k`
  (`div (N/D) = k(T) − (kT) − (k−1)(∞)`).  Doubling, adding `T` and subtracting `T` steps preserve it with
  `N` multiplied by the line elements the loops multiply in and `D` by vertical elements only
  (`MD.double`, `MD.add`, `MD.sub`).  Two Miller data for the same `k` satisfy `N·D' = c·N'·D` with `c` a
  CONSTANT with `c⁴ = 1` (`MD.unique`: cancel `I(kT)`, units of `F[E]` are constants, compare leading
  coefficients of norms).  Evaluated at a point `P` of the curve (`evalAt`), this says: any two
  addition-subtraction chains for the same multiple give Miller values equal up to vertical-line values
  and a 4-th root of unity — `MV.unique`.
-/
import Mathlib.AlgebraicGeometry.EllipticCurve.Affine.Point
import PyEcc.Sem.CurvePt
import PyEcc.Sem.GroupOrder

set_option linter.unusedSectionVars false
set_option linter.unusedVariables false

namespace PyEcc.MillerBnSem
open Polynomial WeierstrassCurve WeierstrassCurve.Affine Ideal
open scoped Polynomial.Bivariate

variable {F : Type} [Field F] [DecidableEq F]

/-! ### ideals, verticals and lines attached to points -/

section defs
variable (b : F)

/-- the coordinate ring `F[X, Y]/(Y² − X³ − b)` -/
abbrev CR : Type := (W b).CoordinateRing

/-- `I(A) = ⟨X − x_A, Y − y_A⟩`, `I(∞) = ⊤` -/
noncomputable def ptIdeal : (W b).Point → Ideal (CR b)
  | .zero => ⊤
  | .some x y _ => CoordinateRing.XYIdeal (W b) x (C y)

/-- `v_A = X − x_A`, `v_∞ = 1` -/
noncomputable def vert : (W b).Point → CR b
  | .zero => 1
  | .some x _ _ => CoordinateRing.XClass (W b) x

/-- `ℓ_{A,B} = slope·(X − x_A) + y_A − Y` for finite `A`, `B` (meaningful when `A ≠ −B`); `1` otherwise -/
noncomputable def lineEl : (W b).Point → (W b).Point → CR b
  | .some x₁ y₁ _, .some x₂ y₂ _ =>
      -CoordinateRing.YClass (W b) (linePolynomial x₁ y₁ ((W b).slope x₁ x₂ y₁ y₂))
  | _, _ => 1

end defs

variable {b : F}

theorem ptIdeal_zero : ptIdeal b (0 : (W b).Point) = ⊤ := rfl
theorem vert_zero : vert b (0 : (W b).Point) = 1 := rfl

theorem vert_ne_zero (A : (W b).Point) : vert b A ≠ 0 := by
  rcases A with _ | ⟨x, y, h⟩
  · exact one_ne_zero
  · exact CoordinateRing.XClass_ne_zero x

/-- `I(−A) · I(A) = ⟨v_A⟩` -/
theorem ptIdeal_neg_mul (A : (W b).Point) :
    ptIdeal b (-A) * ptIdeal b A = span {vert b A} := by
  rcases A with _ | ⟨x, y, h⟩
  · show (⊤ : Ideal (CR b)) * ⊤ = span {1}
    rw [span_singleton_one, Ideal.mul_top]
  · exact CoordinateRing.XYIdeal_neg_mul h

/-- `⟨v_{A+B}⟩ · I(A) · I(B) = ⟨ℓ_{A,B}⟩ · I(A+B)` for finite `A`, `B` with `A + B ≠ ∞` -/
theorem ptIdeal_add {A B : (W b).Point} (hA : A ≠ 0) (hB : B ≠ 0) (hAB : A + B ≠ 0) :
    span {vert b (A + B)} * (ptIdeal b A * ptIdeal b B) = span {lineEl b A B} * ptIdeal b (A + B) := by
  rcases A with _ | ⟨x₁, y₁, h₁⟩
  · exact absurd rfl hA
  rcases B with _ | ⟨x₂, y₂, h₂⟩
  · exact absurd rfl hB
  by_cases hxy : x₁ = x₂ ∧ y₁ = (W b).negY x₂ y₂
  · exact absurd (Point.add_of_Y_eq hxy.1 hxy.2) hAB
  · rw [Point.add_some hxy]
    simp only [lineEl, vert, ptIdeal, span_singleton_neg]
    exact CoordinateRing.XYIdeal_mul_XYIdeal h₁.1 h₂.1 hxy

/-! ### the leading coefficient of the norm -/

/-- `λ(z)` = leading coefficient of the norm of `z` over `F[X]` — multiplicative, `λ(v_A) = 1`,
    `λ(ℓ_{A,B}) = −1`, `λ(c) = c²` for constants -/
noncomputable def lam (z : CR b) : F := (Algebra.norm F[X] z).leadingCoeff

theorem lam_mul (z z' : CR b) : lam (z * z') = lam z * lam z' := by
  unfold lam; rw [map_mul, leadingCoeff_mul]

theorem lam_one : lam (1 : CR b) = 1 := by
  unfold lam; rw [map_one, leadingCoeff_one]

theorem norm_basis (p q : F[X]) :
    Algebra.norm F[X] (p • (1 : CR b) + q • CoordinateRing.mk (W b) Y) = p ^ 2 - q ^ 2 * (X ^ 3 + C b) := by
  rw [CoordinateRing.norm_smul_basis]
  simp [W]

theorem lam_zero : lam (0 : CR b) = 0 := by
  have e : (0 : CR b) = (0 : F[X]) • (1 : CR b) + (0 : F[X]) • CoordinateRing.mk (W b) Y := by simp
  unfold lam
  rw [e, norm_basis]
  simp

theorem ne_zero_of_lam {z : CR b} (h : lam z ≠ 0) : z ≠ 0 := by
  rintro rfl; exact h lam_zero

theorem lam_vert (A : (W b).Point) : lam (vert b A) = 1 := by
  rcases A with _ | ⟨x, y, h⟩
  · exact lam_one
  · have e : vert b (.some x y h) = (X - C x : F[X]) • (1 : CR b) + (0 : F[X]) • CoordinateRing.mk (W b) Y := by
      simp only [vert, CoordinateRing.XClass, CoordinateRing.smul, mul_one, map_zero, zero_mul, add_zero]
    unfold lam
    rw [e, norm_basis]
    simp only [ne_eq, OfNat.ofNat_ne_zero, not_false_eq_true, zero_pow, zero_mul, sub_zero,
      leadingCoeff_pow, leadingCoeff_X_sub_C, one_pow]

theorem lam_line (x y l : F) :
    lam (-CoordinateRing.YClass (W b) (linePolynomial x y l)) = -1 := by
  have e : -CoordinateRing.YClass (W b) (linePolynomial x y l)
      = (linePolynomial x y l) • (1 : CR b) + (-1 : F[X]) • CoordinateRing.mk (W b) Y := by
    simp only [CoordinateRing.YClass, CoordinateRing.smul, mul_one, map_sub, map_neg, map_one]
    ring
  unfold lam
  rw [e, norm_basis]
  have hd : (linePolynomial x y l ^ 2).degree < ((-1 : F[X]) ^ 2 * (X ^ 3 + C b)).degree := by
    have h3 : ((-1 : F[X]) ^ 2 * (X ^ 3 + C b)).degree = 3 := by
      rw [neg_one_sq, one_mul, degree_X_pow_add_C (by norm_num)]; rfl
    rw [h3]
    have h1 : (linePolynomial x y l).degree ≤ 1 := by
      unfold linePolynomial
      compute_degree
    calc (linePolynomial x y l ^ 2).degree ≤ 2 • (linePolynomial x y l).degree := degree_pow_le _ _
      _ ≤ 2 • (1 : WithBot ℕ) := nsmul_le_nsmul_right h1 2
      _ < 3 := by decide
  rw [sub_eq_add_neg, leadingCoeff_add_of_degree_lt (by rwa [degree_neg]), leadingCoeff_neg,
    neg_one_sq, one_mul, leadingCoeff_X_pow_add_C (by norm_num)]

theorem lam_lineEl (A B : (W b).Point) : lam (lineEl b A B) ^ 2 = 1 := by
  rcases A with _ | ⟨x₁, y₁, h₁⟩
  · simp [lineEl, lam_one]
  rcases B with _ | ⟨x₂, y₂, h₂⟩
  · simp [lineEl, lam_one]
  simp only [lineEl, lam_line, neg_one_sq]

theorem lam_const (c : F) : lam (algebraMap F (CR b) c) = c ^ 2 := by
  have e : algebraMap F (CR b) c = (C c : F[X]) • (1 : CR b) + (0 : F[X]) • CoordinateRing.mk (W b) Y := by
    rw [zero_smul, add_zero, CoordinateRing.smul, mul_one]
    rfl
  unfold lam
  rw [e, norm_basis]
  simp only [ne_eq, OfNat.ofNat_ne_zero, not_false_eq_true, zero_pow, zero_mul, sub_zero,
    leadingCoeff_pow, leadingCoeff_C]

/-! ### units of the coordinate ring are constants -/

theorem unit_const {u : CR b} (hu : IsUnit u) : ∃ c : F, u = algebraMap F (CR b) c := by
  obtain ⟨p, q, rfl⟩ := CoordinateRing.exists_smul_basis_eq u
  have hn : IsUnit (Algebra.norm F[X] (p • (1 : CR b) + q • CoordinateRing.mk (W b) Y)) :=
    hu.map (Algebra.norm F[X])
  have hd := degree_eq_zero_of_isUnit hn
  rw [CoordinateRing.degree_norm_smul_basis] at hd
  have hq : q = 0 := by
    by_contra hq
    have : (0 : WithBot ℕ) ≤ q.degree := zero_le_degree_iff.mpr hq
    have h3 : (3 : WithBot ℕ) ≤ 2 • q.degree + 3 := by
      calc (3 : WithBot ℕ) = 0 + 3 := (zero_add _).symm
        _ ≤ 2 • q.degree + 3 := by gcongr; exact nsmul_nonneg this 2
    have : (3 : WithBot ℕ) ≤ 0 := hd ▸ le_max_of_le_right h3
    exact absurd this (by decide)
  subst hq
  have hp : p.degree = 0 := by
    have hp0 : p ≠ 0 := by
      rintro rfl
      simp at hd
    rw [degree_eq_natDegree hp0] at hd ⊢
    have h2 : (2 • ((p.natDegree : ℕ) : WithBot ℕ)) ≤ 0 := hd ▸ le_max_left _ _
    have : ((2 * p.natDegree : ℕ) : WithBot ℕ) ≤ ((0 : ℕ) : WithBot ℕ) := by
      simpa [two_nsmul, two_mul] using h2
    have : 2 * p.natDegree ≤ 0 := WithBot.coe_le_coe.mp this
    have : p.natDegree = 0 := by omega
    rw [this]; rfl
  obtain ⟨c, rfl⟩ : ∃ c, p = C c := ⟨_, eq_C_of_degree_eq_zero hp⟩
  refine ⟨c, ?_⟩
  rw [zero_smul, add_zero, CoordinateRing.smul, mul_one]
  rfl

/-! ### Miller data -/

/-- `(N, D)` is Miller data for `k·T`: `⟨N⟩ · I(k·T) = ⟨D⟩ · I(T)^k`, `λ(N) = ±1`, `λ(D) = 1` -/
structure MD (T : (W b).Point) (k : ℕ) (N D : CR b) : Prop where
  ideal : span {N} * ptIdeal b (k • T) = span {D} * ptIdeal b T ^ k
  lamN : lam N ^ 2 = 1
  lamD : lam D = 1

theorem MD.one (T : (W b).Point) : MD T 1 (1 : CR b) 1 where
  ideal := by rw [one_nsmul, pow_one]
  lamN := by rw [lam_one, one_pow]
  lamD := lam_one

theorem MD.double {T : (W b).Point} {k : ℕ} {N D : CR b} (h : MD T k N D) (h1 : k • T ≠ 0)
    (h2 : (2 * k) • T ≠ 0) :
    MD T (2 * k) (N * N * lineEl b (k • T) (k • T)) (D * D * vert b ((2 * k) • T)) where
  ideal := by
    have e : (2 * k) • T = k • T + k • T := by rw [two_mul, add_nsmul]
    have h2' : k • T + k • T ≠ 0 := e ▸ h2
    have ea := ptIdeal_add h1 h1 h2'
    rw [e]
    calc span {N * N * lineEl b (k • T) (k • T)} * ptIdeal b (k • T + k • T)
        = span {N} * span {N} * (span {lineEl b (k • T) (k • T)} * ptIdeal b (k • T + k • T)) := by
          rw [← span_singleton_mul_span_singleton, ← span_singleton_mul_span_singleton, mul_assoc]
      _ = span {vert b (k • T + k • T)}
            * ((span {N} * ptIdeal b (k • T)) * (span {N} * ptIdeal b (k • T))) := by
          rw [← ea]; ring
      _ = span {D * D * vert b (k • T + k • T)} * ptIdeal b T ^ (2 * k) := by
          rw [h.ideal, ← span_singleton_mul_span_singleton, ← span_singleton_mul_span_singleton]
          ring
  lamN := by
    rw [lam_mul, lam_mul, mul_pow, mul_pow, h.lamN, lam_lineEl, one_mul, one_mul]
  lamD := by rw [lam_mul, lam_mul, h.lamD, lam_vert, one_mul, one_mul]

theorem MD.add {T : (W b).Point} {k : ℕ} {N D : CR b} (h : MD T k N D) (hT : T ≠ 0)
    (h1 : k • T ≠ 0) (h2 : (k + 1) • T ≠ 0) :
    MD T (k + 1) (N * lineEl b (k • T) T) (D * vert b ((k + 1) • T)) where
  ideal := by
    have e : (k + 1) • T = k • T + T := succ_nsmul T k
    have h2' : k • T + T ≠ 0 := e ▸ h2
    have ea := ptIdeal_add h1 hT h2'
    rw [e]
    calc span {N * lineEl b (k • T) T} * ptIdeal b (k • T + T)
        = span {N} * (span {lineEl b (k • T) T} * ptIdeal b (k • T + T)) := by
          rw [← span_singleton_mul_span_singleton, mul_assoc]
      _ = span {vert b (k • T + T)} * ((span {N} * ptIdeal b (k • T)) * ptIdeal b T) := by
          rw [← ea]; ring
      _ = span {D * vert b (k • T + T)} * ptIdeal b T ^ (k + 1) := by
          rw [h.ideal, ← span_singleton_mul_span_singleton]
          ring
  lamN := by rw [lam_mul, mul_pow, h.lamN, lam_lineEl, one_mul]
  lamD := by rw [lam_mul, h.lamD, lam_vert, one_mul]

theorem MD.sub {T : (W b).Point} {k : ℕ} {N D : CR b} (h : MD T (k + 1) N D) (hT : T ≠ 0)
    (h1 : (k + 1) • T ≠ 0) (h2 : k • T ≠ 0) :
    MD T k (N * lineEl b ((k + 1) • T) (-T)) (D * vert b (k • T) * vert b T) where
  ideal := by
    have e : k • T = (k + 1) • T + -T := by rw [succ_nsmul]; abel
    have h2' : (k + 1) • T + -T ≠ 0 := e ▸ h2
    have ea := ptIdeal_add h1 (neg_ne_zero.mpr hT) h2'
    have en := ptIdeal_neg_mul T
    rw [← e] at ea
    calc span {N * lineEl b ((k + 1) • T) (-T)} * ptIdeal b (k • T)
        = span {N} * (span {lineEl b ((k + 1) • T) (-T)} * ptIdeal b (k • T)) := by
          rw [← span_singleton_mul_span_singleton, mul_assoc]
      _ = span {vert b (k • T)} * ((span {N} * ptIdeal b ((k + 1) • T)) * ptIdeal b (-T)) := by
          rw [← ea]; ring
      _ = span {vert b (k • T)} * span {D} * ptIdeal b T ^ k * (ptIdeal b (-T) * ptIdeal b T) := by
          rw [h.ideal]; ring
      _ = span {D * vert b (k • T) * vert b T} * ptIdeal b T ^ k := by
          rw [en, ← span_singleton_mul_span_singleton, ← span_singleton_mul_span_singleton]
          ring
  lamN := by rw [lam_mul, mul_pow, h.lamN, lam_lineEl, one_mul]
  lamD := by rw [lam_mul, lam_mul, h.lamD, lam_vert, lam_vert, one_mul, one_mul]

/-- **Uniqueness**: two Miller data for the same multiple differ by verticals and a constant `c`
    with `c⁴ = 1` -/
theorem MD.unique {T : (W b).Point} {k : ℕ} {N D N' D' : CR b} (h : MD T k N D) (h' : MD T k N' D') :
    ∃ c : F, c ^ 4 = 1 ∧ N * D' * algebraMap F (CR b) c = N' * D := by
  have hv := vert_ne_zero (k • T)
  have e1 : span {N * D'} * ptIdeal b (k • T) = span {N' * D} * ptIdeal b (k • T) := by
    calc span {N * D'} * ptIdeal b (k • T) = span {D'} * (span {N} * ptIdeal b (k • T)) := by
          rw [← span_singleton_mul_span_singleton]; ring
      _ = span {D} * (span {N'} * ptIdeal b (k • T)) := by rw [h.ideal, h'.ideal]; ring
      _ = span {N' * D} * ptIdeal b (k • T) := by
          rw [← span_singleton_mul_span_singleton]; ring
  have e2 : span {N * D'} * span {vert b (k • T)} = span {N' * D} * span {vert b (k • T)} := by
    rw [← ptIdeal_neg_mul, mul_comm (ptIdeal b (-(k • T))), ← mul_assoc, ← mul_assoc, e1]
  have e3 := (span_singleton_mul_left_inj hv).mp e2
  obtain ⟨u, hu⟩ := span_singleton_eq_span_singleton.mp e3
  obtain ⟨c, hc⟩ := unit_const u.isUnit
  refine ⟨c, ?_, by rw [← hc]; exact hu⟩
  have hl := congrArg lam hu
  rw [lam_mul, lam_mul, lam_mul, hc, lam_const, h'.lamD, h.lamD, mul_one, mul_one] at hl
  have : (lam N * c ^ 2) ^ 2 = lam N' ^ 2 := by rw [hl]
  rw [mul_pow, h.lamN, h'.lamN, one_mul] at this
  rw [← this]; ring

/-! ### evaluation at a point `P = (xP, yP)` of the curve -/

section eval
variable {xP yP : F} (hP : (W b).Equation xP yP)

/-- evaluation `F[E] → F` at `P` -/
noncomputable def evalAt : CR b →+* F := AdjoinRoot.evalEval hP

theorem evalAt_mk (g : F[X][Y]) : evalAt hP (CoordinateRing.mk (W b) g) = g.evalEval xP yP :=
  AdjoinRoot.evalEval_mk hP g

theorem evalAt_const (c : F) : evalAt hP (algebraMap F (CR b) c) = c := by
  have : algebraMap F (CR b) c = CoordinateRing.mk (W b) (C (C c)) := rfl
  rw [this, evalAt_mk]; simp [evalEval]

/-- the value `v_A(P) = xP − x_A` (`1` for `A = ∞`) -/
noncomputable def vertVal (A : (W b).Point) : F := evalAt hP (vert b A)

/-- the value `ℓ_{A,B}(P)` -/
noncomputable def lineVal (A B : (W b).Point) : F := evalAt hP (lineEl b A B)

theorem vertVal_some {x y : F} (h : (W b).Nonsingular x y) : vertVal hP (.some x y h) = xP - x := by
  simp only [vertVal, vert, CoordinateRing.XClass, evalAt_mk]
  simp [evalEval]

theorem lineVal_some {x₁ y₁ x₂ y₂ : F} (h₁ : (W b).Nonsingular x₁ y₁) (h₂ : (W b).Nonsingular x₂ y₂) :
    lineVal hP (.some x₁ y₁ h₁) (.some x₂ y₂ h₂)
      = (W b).slope x₁ x₂ y₁ y₂ * (xP - x₁) - (yP - y₁) := by
  simp only [lineVal, lineEl, CoordinateRing.YClass, map_neg, evalAt_mk, linePolynomial]
  simp [evalEval]
  ring

variable (E : ℕ)

/-- `f` is the value at `P` of the numerator `N` of Miller data `(N, D)` for `k·T` whose denominator
    value is killed by the exponent `E` -/
def MV (T : (W b).Point) (k : ℕ) (f : F) : Prop :=
  ∃ N D : CR b, MD T k N D ∧ evalAt hP N = f ∧ evalAt hP D ^ E = 1

theorem MV.one (T : (W b).Point) : MV hP E T 1 1 :=
  ⟨1, 1, MD.one T, map_one _, by rw [map_one, one_pow]⟩

theorem MV.double {T : (W b).Point} {k : ℕ} {f : F} (h : MV hP E T k f) (h1 : k • T ≠ 0)
    (h2 : (2 * k) • T ≠ 0) (hv : vertVal hP ((2 * k) • T) ^ E = 1) :
    MV hP E T (2 * k) (f * f * lineVal hP (k • T) (k • T)) := by
  obtain ⟨N, D, md, rfl, hD⟩ := h
  refine ⟨_, _, md.double h1 h2, ?_, ?_⟩
  · rw [map_mul, map_mul]; rfl
  · rw [map_mul, map_mul, mul_pow, mul_pow, hD, one_mul, one_mul]; exact hv

theorem MV.add {T : (W b).Point} {k : ℕ} {f : F} (h : MV hP E T k f) (hT : T ≠ 0) (h1 : k • T ≠ 0)
    (h2 : (k + 1) • T ≠ 0) (hv : vertVal hP ((k + 1) • T) ^ E = 1) :
    MV hP E T (k + 1) (f * lineVal hP (k • T) T) := by
  obtain ⟨N, D, md, rfl, hD⟩ := h
  refine ⟨_, _, md.add hT h1 h2, ?_, ?_⟩
  · rw [map_mul]; rfl
  · rw [map_mul, mul_pow, hD, one_mul]; exact hv

theorem MV.sub {T : (W b).Point} {k : ℕ} {f : F} (h : MV hP E T (k + 1) f) (hT : T ≠ 0)
    (h1 : (k + 1) • T ≠ 0) (h2 : k • T ≠ 0) (hv : vertVal hP (k • T) ^ E = 1)
    (hvT : vertVal hP T ^ E = 1) :
    MV hP E T k (f * lineVal hP ((k + 1) • T) (-T)) := by
  obtain ⟨N, D, md, rfl, hD⟩ := h
  refine ⟨_, _, md.sub hT h1 h2, ?_, ?_⟩
  · rw [map_mul]; rfl
  · rw [map_mul, map_mul, mul_pow, mul_pow, hD, one_mul]
    show vertVal hP (k • T) ^ E * vertVal hP T ^ E = 1
    rw [hv, hvT, one_mul]

/-- **Miller values of the same multiple agree after the power `E`** (`4 ∣ E`), whatever
    doubling / addition / subtraction chain produced them. -/
theorem MV.unique {T : (W b).Point} {k : ℕ} {f f' : F} (h : MV hP E T k f) (h' : MV hP E T k f')
    (h4 : 4 ∣ E) : f ^ E = f' ^ E := by
  obtain ⟨N, D, md, rfl, hD⟩ := h
  obtain ⟨N', D', md', rfl, hD'⟩ := h'
  obtain ⟨c, hc, e⟩ := md.unique md'
  have ev := congrArg (evalAt hP) e
  rw [map_mul, map_mul, map_mul, evalAt_const] at ev
  have := congrArg (· ^ E) ev
  simp only [mul_pow, hD, hD', mul_one] at this
  obtain ⟨m, rfl⟩ := h4
  rw [pow_mul c, hc, one_pow, mul_one] at this
  exact this

end eval

end PyEcc.MillerBnSem
