/-
  PyEcc.Lemmas.TransferRefLawsBn — the field-generic theorems about the REFERENCE module `Gen.RefBn`
  (refinement of Mathlib's elliptic-curve group, `Props/C07_Bn.lean`) transported to ANY coordinate
  type `A` that maps into a field `K` by a `GoodHom Good φ` (`Lemmas/TransferBase.lean`).
  (The BLS12-381 and bn128 versions of this file are textual copies with the curve name replaced.)

  `A` is NOT assumed to be a field (the intended instance is the executable model
  `A = Fqp .ref p mc` of `FQ2` / `FQ12`, `K = AdjoinRoot (modulus p mc)`, `φ = toQ`, `Good = Canon`); all
  code-side terms below are the generated functions run on `A`.

  * `via_*_refines`: on good points the generated functions never raise and compute Mathlib's group law
    on `(W (φ b)).Point` over `K`, through "`reprRef P = mapO φ p`";
  * `via_add_comm`, …: the commutative-group laws as EQUALITIES of the values computed on `A`.
-/
import PyEcc.Lemmas.TransferRefBn
import PyEcc.Props.C07_Bn

set_option linter.unusedSectionVars false
set_option linter.unusedVariables false

namespace PyEcc.Transfer.BnRef
open PyEcc PyEcc.Transfer WeierstrassCurve

variable {A K : Type}
  [Zero A] [One A] [Add A] [Sub A] [Mul A] [Neg A] [Div A] [NatCast A] [Pow A Nat] [DecidableEq A]
  [Field K] [DecidableEq K] {Good : A → Prop} {φ : A → K} (h : GoodHom Good φ)
include h

/-! ### refinement of Mathlib's group law over `K` by the reference code run on `A` -/

section refine
variable {b : K} {p q : Option (A × A)} {P Q : (W b).Point}

/-- two good points with the same value are equal -/
theorem via_repr_inj (gp : GoodO Good p) (gq : GoodO Good q) (rp : reprRef P = mapO φ p)
    (rq : reprRef P = mapO φ q) : p = q := good_mapO_inj h gp gq (rp.symm.trans rq)

/-- `add` run on good `A`-points does not raise and computes Mathlib's point addition over `K` -/
theorem via_add_refines (h2 : (2 : K) ≠ 0) (gp : GoodO Good p) (gq : GoodO Good q)
    (rp : reprRef P = mapO φ p) (rq : reprRef Q = mapO φ q) :
    ∃ s, Gen.RefBn.add p q = .ok s ∧ GoodO Good s ∧ reprRef (P + Q) = mapO φ s := by
  obtain ⟨g, e⟩ := good_add h gp gq
  rw [← rp, ← rq, C07.Bn.ref_add_refines h2] at e
  rcases hs : Gen.RefBn.add p q with err | s
  · rw [hs] at e; simp at e
  · rw [hs] at e g
    exact ⟨s, rfl, g, (Except.ok.inj e).symm⟩

/-- `double` run on a good `A`-point computes `P + P` -/
theorem via_double_refines (h2 : (2 : K) ≠ 0) (gp : GoodO Good p) (rp : reprRef P = mapO φ p) :
    GoodO Good (Gen.RefBn.double p) ∧ reprRef (P + P) = mapO φ (Gen.RefBn.double p) := by
  obtain ⟨g, e⟩ := good_double h gp
  rw [← rp, C07.Bn.ref_double_refines h2] at e
  exact ⟨g, e.symm⟩

/-- `neg` run on a good `A`-point computes `-P` -/
theorem via_neg_refines (gp : GoodO Good p) (rp : reprRef P = mapO φ p) :
    GoodO Good (Gen.RefBn.neg p) ∧ reprRef (-P) = mapO φ (Gen.RefBn.neg p) := by
  obtain ⟨g, e⟩ := good_neg h gp
  rw [← rp, C07.Bn.ref_neg_refines] at e
  exact ⟨g, e.symm⟩

/-- `multiply(p, n)` run on a good `A`-point does not raise and computes `n • P`, for every `n` -/
theorem via_multiply_refines (h2 : (2 : K) ≠ 0) (gp : GoodO Good p) (rp : reprRef P = mapO φ p)
    (n : ℕ) :
    ∃ s, Gen.RefBn.multiply p n = .ok s ∧ GoodO Good s ∧ reprRef (n • P) = mapO φ s := by
  obtain ⟨g, e⟩ := good_multiply h gp n
  rw [← rp, C07.Bn.ref_multiply_refines h2] at e
  rcases hs : Gen.RefBn.multiply p n with err | s
  · rw [hs] at e; simp at e
  · rw [hs] at e g
    exact ⟨s, rfl, g, (Except.ok.inj e).symm⟩

end refine

/-- a good point whose value is the representation of a Mathlib point passes `is_on_curve` on `A` -/
theorem via_on_curve_of_repr (h2 : (2 : K) ≠ 0) (h3 : (3 : K) ≠ 0) {b : A} (gb : Good b)
    (hb : φ b ≠ 0) {p : Option (A × A)} {P : (W (φ b)).Point} (gp : GoodO Good p)
    (rp : reprRef P = mapO φ p) : Gen.RefBn.is_on_curve p b = true := by
  rw [← good_is_on_curve h gp gb]
  exact (C07.Bn.ref_is_on_curve_iff h2 h3 hb _).mpr ⟨P, rp⟩

/-- `is_on_curve(p, b)` run on a good `A`-point accepts exactly the points whose value is the
    representation of a Mathlib point of `y² = x³ + φ b` over `K` -/
theorem via_on_curve_iff (h2 : (2 : K) ≠ 0) (h3 : (3 : K) ≠ 0) {b : A} (gb : Good b) (hb : φ b ≠ 0)
    {p : Option (A × A)} (gp : GoodO Good p) :
    Gen.RefBn.is_on_curve p b = true ↔ ∃ P : (W (φ b)).Point, reprRef P = mapO φ p := by
  rw [← good_is_on_curve h gp gb]; exact C07.Bn.ref_is_on_curve_iff h2 h3 hb _

/-! ### the group laws for the reference code run on `A` (good on-curve points) -/

section laws
variable (h2 : (2 : K) ≠ 0) (h3 : (3 : K) ≠ 0) {b : A} (gb : Good b) (hb : φ b ≠ 0)
  {p q r : Option (A × A)}
include h2 h3 gb hb

/-- commutativity -/
theorem via_add_comm (gp : GoodO Good p) (gq : GoodO Good q)
    (hp : Gen.RefBn.is_on_curve p b = true) (hq : Gen.RefBn.is_on_curve q b = true) :
    Gen.RefBn.add p q = Gen.RefBn.add q p := by
  obtain ⟨P, rp⟩ := (via_on_curve_iff h h2 h3 gb hb gp).mp hp
  obtain ⟨Q, rq⟩ := (via_on_curve_iff h h2 h3 gb hb gq).mp hq
  obtain ⟨s, e1, g1, r1⟩ := via_add_refines h h2 gp gq rp rq
  obtain ⟨t, e2, g2, r2⟩ := via_add_refines h h2 gq gp rq rp
  rw [e1, e2, via_repr_inj h g1 g2 r1 (by rw [add_comm]; exact r2)]

/-- closure: `add` of good on-curve points does not raise; the result is good and on the curve -/
theorem via_add_closed (gp : GoodO Good p) (gq : GoodO Good q)
    (hp : Gen.RefBn.is_on_curve p b = true) (hq : Gen.RefBn.is_on_curve q b = true) :
    ∃ s, Gen.RefBn.add p q = .ok s ∧ GoodO Good s ∧ Gen.RefBn.is_on_curve s b = true := by
  obtain ⟨P, rp⟩ := (via_on_curve_iff h h2 h3 gb hb gp).mp hp
  obtain ⟨Q, rq⟩ := (via_on_curve_iff h h2 h3 gb hb gq).mp hq
  obtain ⟨s, e1, g1, r1⟩ := via_add_refines h h2 gp gq rp rq
  exact ⟨s, e1, g1, via_on_curve_of_repr h h2 h3 gb hb g1 r1⟩

/-- associativity (both sides in the exception monad; neither raises) -/
theorem via_add_assoc (gp : GoodO Good p) (gq : GoodO Good q) (gr : GoodO Good r)
    (hp : Gen.RefBn.is_on_curve p b = true) (hq : Gen.RefBn.is_on_curve q b = true)
    (hr : Gen.RefBn.is_on_curve r b = true) :
    (Gen.RefBn.add p q >>= fun s => Gen.RefBn.add s r)
      = (Gen.RefBn.add q r >>= fun t => Gen.RefBn.add p t) := by
  obtain ⟨P, rp⟩ := (via_on_curve_iff h h2 h3 gb hb gp).mp hp
  obtain ⟨Q, rq⟩ := (via_on_curve_iff h h2 h3 gb hb gq).mp hq
  obtain ⟨R, rr⟩ := (via_on_curve_iff h h2 h3 gb hb gr).mp hr
  obtain ⟨s, e1, g1, r1⟩ := via_add_refines h h2 gp gq rp rq
  obtain ⟨t, e2, g2, r2⟩ := via_add_refines h h2 gq gr rq rr
  obtain ⟨u, e3, g3, r3⟩ := via_add_refines h h2 g1 gr r1 rr
  obtain ⟨v, e4, g4, r4⟩ := via_add_refines h h2 gp g2 rp r2
  rw [e1, e2]
  show Gen.RefBn.add s r = Gen.RefBn.add p t
  rw [e3, e4, via_repr_inj h g3 g4 r3 (by rw [add_assoc]; exact r4)]

/-- inverse: `add(p, neg(p)) = ∞` and `add(neg(p), p) = ∞` -/
theorem via_add_neg (gp : GoodO Good p) (hp : Gen.RefBn.is_on_curve p b = true) :
    Gen.RefBn.add p (Gen.RefBn.neg p) = .ok none ∧ Gen.RefBn.add (Gen.RefBn.neg p) p = .ok none := by
  obtain ⟨P, rp⟩ := (via_on_curve_iff h h2 h3 gb hb gp).mp hp
  obtain ⟨gn, rn⟩ := via_neg_refines h gp rp
  obtain ⟨s, e1, g1, r1⟩ := via_add_refines h h2 gp gn rp rn
  obtain ⟨t, e2, g2, r2⟩ := via_add_refines h h2 gn gp rn rp
  rw [add_neg_cancel, reprRef_zero] at r1
  rw [neg_add_cancel, reprRef_zero] at r2
  rw [e1, e2, (mapO_eq_none φ s).mp r1.symm, (mapO_eq_none φ t).mp r2.symm]
  exact ⟨rfl, rfl⟩

/-- closure: `double` -/
theorem via_double_closed (gp : GoodO Good p) (hp : Gen.RefBn.is_on_curve p b = true) :
    GoodO Good (Gen.RefBn.double p) ∧ Gen.RefBn.is_on_curve (Gen.RefBn.double p) b = true := by
  obtain ⟨P, rp⟩ := (via_on_curve_iff h h2 h3 gb hb gp).mp hp
  obtain ⟨g, r⟩ := via_double_refines h h2 gp rp
  exact ⟨g, via_on_curve_of_repr h h2 h3 gb hb g r⟩

/-- closure: `neg` -/
theorem via_neg_closed (gp : GoodO Good p) (hp : Gen.RefBn.is_on_curve p b = true) :
    GoodO Good (Gen.RefBn.neg p) ∧ Gen.RefBn.is_on_curve (Gen.RefBn.neg p) b = true := by
  obtain ⟨P, rp⟩ := (via_on_curve_iff h h2 h3 gb hb gp).mp hp
  obtain ⟨g, r⟩ := via_neg_refines h gp rp
  exact ⟨g, via_on_curve_of_repr h h2 h3 gb hb g r⟩

/-- closure/totality: `multiply(p, n)` does not raise, every `n`; the result is good and on the curve -/
theorem via_multiply_closed (gp : GoodO Good p) (hp : Gen.RefBn.is_on_curve p b = true) (n : ℕ) :
    ∃ s, Gen.RefBn.multiply p n = .ok s ∧ GoodO Good s ∧ Gen.RefBn.is_on_curve s b = true := by
  obtain ⟨P, rp⟩ := (via_on_curve_iff h h2 h3 gb hb gp).mp hp
  obtain ⟨s, e1, g1, r1⟩ := via_multiply_refines h h2 gp rp n
  exact ⟨s, e1, g1, via_on_curve_of_repr h h2 h3 gb hb g1 r1⟩

/-- `multiply(p, m + n) = add(multiply(p, m), multiply(p, n))` -/
theorem via_multiply_add (gp : GoodO Good p) (hp : Gen.RefBn.is_on_curve p b = true) (m n : ℕ) :
    Gen.RefBn.multiply p (m + n)
      = (Gen.RefBn.multiply p m >>= fun s => Gen.RefBn.multiply p n >>= fun t => Gen.RefBn.add s t) := by
  obtain ⟨P, rp⟩ := (via_on_curve_iff h h2 h3 gb hb gp).mp hp
  obtain ⟨s, e1, g1, r1⟩ := via_multiply_refines h h2 gp rp m
  obtain ⟨t, e2, g2, r2⟩ := via_multiply_refines h h2 gp rp n
  obtain ⟨u, e3, g3, r3⟩ := via_multiply_refines h h2 gp rp (m + n)
  obtain ⟨v, e4, g4, r4⟩ := via_add_refines h h2 g1 g2 r1 r2
  rw [e1, e2, e3]
  show _ = Gen.RefBn.add s t
  rw [e4, via_repr_inj h g3 g4 r3 (by rw [add_smul]; exact r4)]

/-- `multiply(multiply(p, m), n) = multiply(p, m * n)` -/
theorem via_multiply_mul (gp : GoodO Good p) (hp : Gen.RefBn.is_on_curve p b = true) (m n : ℕ) :
    (Gen.RefBn.multiply p m >>= fun s => Gen.RefBn.multiply s n) = Gen.RefBn.multiply p (m * n) := by
  obtain ⟨P, rp⟩ := (via_on_curve_iff h h2 h3 gb hb gp).mp hp
  obtain ⟨s, e1, g1, r1⟩ := via_multiply_refines h h2 gp rp m
  obtain ⟨t, e2, g2, r2⟩ := via_multiply_refines h h2 g1 r1 n
  obtain ⟨u, e3, g3, r3⟩ := via_multiply_refines h h2 gp rp (m * n)
  rw [e1, e3]
  show Gen.RefBn.multiply s n = _
  rw [e2, via_repr_inj h g2 g3 r2 (by rw [← mul_smul, mul_comm]; exact r3)]

/-- scalars act modulo any `r` with `multiply(p, r) = ∞` -/
theorem via_multiply_mod (gp : GoodO Good p) (hp : Gen.RefBn.is_on_curve p b = true) (k : ℕ)
    (hk : Gen.RefBn.multiply p k = .ok none) (n : ℕ) :
    Gen.RefBn.multiply p n = Gen.RefBn.multiply p (n % k) := by
  obtain ⟨P, rp⟩ := (via_on_curve_iff h h2 h3 gb hb gp).mp hp
  obtain ⟨s, e1, g1, r1⟩ := via_multiply_refines h h2 gp rp k
  obtain ⟨t, e2, g2, r2⟩ := via_multiply_refines h h2 gp rp n
  obtain ⟨u, e3, g3, r3⟩ := via_multiply_refines h h2 gp rp (n % k)
  rw [hk] at e1
  obtain rfl := Except.ok.inj e1
  have hk0 : k • P = 0 := C07.Bn.reprRef_injective (r1.trans rfl)
  rw [e2, e3, via_repr_inj h g2 g3 r2 (by
    conv_lhs => rw [← Nat.mod_add_div n k, add_smul, mul_comm, mul_smul, hk0, smul_zero, add_zero]
    exact r3)]

/-- `multiply(neg(p), n) = neg(multiply(p, n))` -/
theorem via_multiply_neg (gp : GoodO Good p) (hp : Gen.RefBn.is_on_curve p b = true) (n : ℕ) :
    Gen.RefBn.multiply (Gen.RefBn.neg p) n = (Gen.RefBn.multiply p n).map Gen.RefBn.neg := by
  obtain ⟨P, rp⟩ := (via_on_curve_iff h h2 h3 gb hb gp).mp hp
  obtain ⟨gn, rn⟩ := via_neg_refines h gp rp
  obtain ⟨s, e1, g1, r1⟩ := via_multiply_refines h h2 gn rn n
  obtain ⟨t, e2, g2, r2⟩ := via_multiply_refines h h2 gp rp n
  obtain ⟨g3, r3⟩ := via_neg_refines h g2 r2
  rw [e1, e2]
  show _ = Except.ok (Gen.RefBn.neg t)
  rw [via_repr_inj h g1 g3 r1 (by rw [smul_neg]; exact r3)]

end laws

end PyEcc.Transfer.BnRef

/-! laws that hold on every coordinate type -/
namespace PyEcc.Transfer.BnRef
variable {A : Type}
  [Zero A] [One A] [Add A] [Sub A] [Mul A] [Neg A] [Div A] [NatCast A] [Pow A Nat] [DecidableEq A]

/-- identity: `add(p, ∞) = p` and `add(∞, p) = p`, every `p` -/
theorem any_add_zero (p : Option (A × A)) :
    Gen.RefBn.add p none = .ok p ∧ Gen.RefBn.add none p = .ok p := by
  rcases p with _ | ⟨x, y⟩ <;> simp [Gen.RefBn.add]

/-- `add(p, p) = double(p)`, every `p` -/
theorem any_add_self (p : Option (A × A)) : Gen.RefBn.add p p = .ok (Gen.RefBn.double p) := by
  rcases p with _ | ⟨x, y⟩ <;> simp [Gen.RefBn.add, Gen.RefBn.double, Gen.RefBn.is_inf]

/-- `multiply(p, 0) = ∞`, `multiply(p, 1) = p`, `multiply(p, 2) = double(p)`, every `p` -/
theorem any_multiply_small (p : Option (A × A)) :
    Gen.RefBn.multiply p 0 = .ok none ∧ Gen.RefBn.multiply p 1 = .ok p
      ∧ Gen.RefBn.multiply p 2 = .ok (Gen.RefBn.double p) := by
  simp [Gen.RefBn.multiply, Gen.RefBn.multiplyAux]

end PyEcc.Transfer.BnRef
