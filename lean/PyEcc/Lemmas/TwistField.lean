/-
  PyEcc.Lemmas.TwistField — the "field isomorphism" lines of `twist`:

      ψ : Fp[i]/(i² + 1)  →+*  Fp[w]/(w¹² − 2a·w⁶ + a² + 1),     i ↦ w⁶ − a
      (a = 1: BLS12-381, a = 9: bn128),

  a ring homomorphism because `(w⁶ − a)² + 1 = w¹² − 2a·w⁶ + a² + 1 = 0` in the target.  The model's
  `embed12 k pos0 pos1` (`Model/Curve.lean`; the coefficient shuffling `[c0 − k·c1, 0, …, c1, 0, …]` of the
  Python code) computes `ψ(x)·w^pos0` for `k = a`, `pos1 = pos0 + 6`.
-/
import PyEcc.Sem.TransferFq12

set_option linter.unusedSectionVars false
set_option linter.unusedSimpArgs false
set_option maxRecDepth 100000

namespace PyEcc.TwistSem
open Polynomial PyEcc PyEcc.Fqp PyEcc.FqpSem PyEcc.Transfer PyEcc.Irred12

section generic
variable {p : ℕ} {mc12 : List Int}

/-- the class of `X`, i.e. the element `w` of `FQ12` -/
noncomputable abbrev wQ (p : ℕ) (mc12 : List Int) : AdjoinRoot (modulus p mc12) := AdjoinRoot.root _

/-- `(w⁶ − a)² + 1 = 0` in `Fp[w]/((X − a)² + 1 ∘ X⁶)` -/
theorem w6_sq (a : ℕ) (hm : modulus p mc12 = (quad p a).comp (X ^ 6)) :
    (wQ p mc12 ^ 6 - (a : AdjoinRoot (modulus p mc12))) ^ 2 + 1 = 0 := by
  have h := AdjoinRoot.eval₂_root (modulus p mc12)
  conv at h => lhs; arg 3; rw [hm]
  rw [eval₂_comp] at h
  simpa [quad, eval₂_add, eval₂_pow, eval₂_sub] using h

/-- the embedding `ψ : FQ2 → FQ12`, `a₀ + a₁·i ↦ (a₀ − a·a₁) + a₁·w⁶` -/
noncomputable def psi (a : ℕ) (hm : modulus p mc12 = (quad p a).comp (X ^ 6)) :
    AdjoinRoot (modulus p [1, 0]) →+* AdjoinRoot (modulus p mc12) :=
  AdjoinRoot.lift (AdjoinRoot.of _) (wQ p mc12 ^ 6 - (a : AdjoinRoot (modulus p mc12))) (by
    rw [modulus_fq2]
    simpa [eval₂_add, eval₂_pow] using w6_sq a hm)

variable (a : ℕ) (hm : modulus p mc12 = (quad p a).comp (X ^ 6))

theorem psi_root : psi a hm (AdjoinRoot.root _) = wQ p mc12 ^ 6 - (a : AdjoinRoot (modulus p mc12)) :=
  AdjoinRoot.lift_root _

theorem psi_of (x : ZMod p) : psi a hm (AdjoinRoot.of _ x) = AdjoinRoot.of _ x := AdjoinRoot.lift_of _

/-- `ψ(a₀ + a₁·i) = (a₀ − a·a₁) + a₁·w⁶` -/
theorem psi_apply (a₀ a₁ : ZMod p) :
    psi a hm (AdjoinRoot.of _ a₀ + AdjoinRoot.of _ a₁ * AdjoinRoot.root _)
      = AdjoinRoot.of _ (a₀ - a * a₁) + AdjoinRoot.of _ a₁ * wQ p mc12 ^ 6 := by
  rw [map_add, map_mul, psi_of, psi_of, psi_root, map_sub, map_mul, map_natCast]
  ring

/-- `ψ` is injective (a ring homomorphism from a field to a non-trivial ring) -/
theorem psi_injective [Fact p.Prime] [Fact (Irreducible (modulus p [1, 0]))]
    [Fact (Irreducible (modulus p mc12))] : Function.Injective (psi a hm) :=
  RingHom.injective _

/-! ### the model's `embed12` computes `ψ` -/

variable {v : Variant}

/-- a well-formed `FQ2` element is `a₀ + a₁·i` -/
theorem toQ_fq2 {x : Fqp v p [1, 0]} (hx : WF x) :
    toQ x = AdjoinRoot.of _ ((getI x.coeffs 0 : ℤ) : ZMod p)
      + AdjoinRoot.of _ ((getI x.coeffs 1 : ℤ) : ZMod p) * AdjoinRoot.root _ := by
  obtain ⟨l⟩ := x
  match l, hx with
  | [c0, c1], _ =>
    simp only [toQ, evQ, ev_cons, ev_nil, getI_cons_zero, getI_cons_succ, map_add, map_mul,
      AdjoinRoot.mk_C, AdjoinRoot.mk_X, mul_zero, add_zero]
    ring

theorem range12 : List.range 12 = [0, 1, 2, 3, 4, 5, 6, 7, 8, 9, 10, 11] := by decide

/-- value of `embed12 k 0 6 x`: `(c0 − c1·k) + c1·w⁶` -/
theorem toQ_embed_0_6 (k : Int) (x : Fqp v p [1, 0]) :
    toQ (embed12 k 0 6 x : Fqp v p mc12)
      = AdjoinRoot.of _ (((getI x.coeffs 0 - getI x.coeffs 1 * k : ℤ)) : ZMod p)
        + AdjoinRoot.of _ ((getI x.coeffs 1 : ℤ) : ZMod p) * wQ p mc12 ^ 6 := by
  rw [embed12, toQ_ofInts, range12]
  simp only [List.map_cons, List.map_nil, evQ, ev_cons, ev_nil, map_add, map_mul, AdjoinRoot.mk_C,
    AdjoinRoot.mk_X, OfNat.ofNat_ne_zero, OfNat.zero_ne_ofNat, Nat.reduceEqDiff, one_ne_zero,
    if_true, if_false, Int.cast_zero, map_zero, mul_zero, add_zero, zero_add, OfNat.ofNat_ne_one]
  ring

/-- value of `embed12 k 1 7 x`: `((c0 − c1·k) + c1·w⁶)·w` -/
theorem toQ_embed_1_7 (k : Int) (x : Fqp v p [1, 0]) :
    toQ (embed12 k 1 7 x : Fqp v p mc12)
      = (AdjoinRoot.of _ (((getI x.coeffs 0 - getI x.coeffs 1 * k : ℤ)) : ZMod p)
        + AdjoinRoot.of _ ((getI x.coeffs 1 : ℤ) : ZMod p) * wQ p mc12 ^ 6) * wQ p mc12 := by
  rw [embed12, toQ_ofInts, range12]
  simp only [List.map_cons, List.map_nil, evQ, ev_cons, ev_nil, map_add, map_mul, AdjoinRoot.mk_C,
    AdjoinRoot.mk_X, OfNat.ofNat_ne_zero, OfNat.zero_ne_ofNat, Nat.reduceEqDiff, one_ne_zero,
    zero_ne_one, OfNat.one_ne_ofNat,
    if_true, if_false, Int.cast_zero, map_zero, mul_zero, add_zero, zero_add, OfNat.ofNat_ne_one]
  ring

/-- value of `embed12 k 3 9 x`: `((c0 − c1·k) + c1·w⁶)·w³` -/
theorem toQ_embed_3_9 (k : Int) (x : Fqp v p [1, 0]) :
    toQ (embed12 k 3 9 x : Fqp v p mc12)
      = (AdjoinRoot.of _ (((getI x.coeffs 0 - getI x.coeffs 1 * k : ℤ)) : ZMod p)
        + AdjoinRoot.of _ ((getI x.coeffs 1 : ℤ) : ZMod p) * wQ p mc12 ^ 6) * wQ p mc12 ^ 3 := by
  rw [embed12, toQ_ofInts, range12]
  simp only [List.map_cons, List.map_nil, evQ, ev_cons, ev_nil, map_add, map_mul, AdjoinRoot.mk_C,
    AdjoinRoot.mk_X, OfNat.ofNat_ne_zero, OfNat.zero_ne_ofNat, Nat.reduceEqDiff, one_ne_zero,
    zero_ne_one, OfNat.one_ne_ofNat,
    if_true, if_false, Int.cast_zero, map_zero, mul_zero, add_zero, zero_add, OfNat.ofNat_ne_one]
  ring

include hm in
/-- **`embed12 a 0 6` implements `ψ`** on well-formed `FQ2` elements -/
theorem toQ_embed12 {x : Fqp v p [1, 0]} (hx : WF x) :
    toQ (embed12 (a : ℤ) 0 6 x : Fqp v p mc12) = psi a hm (toQ x) := by
  rw [toQ_embed_0_6, toQ_fq2 hx, psi_apply]
  push_cast; ring_nf

include hm in
/-- the shifted placement `embed12 a 1 7` is `ψ(x)·w` -/
theorem toQ_embed12_w {x : Fqp v p [1, 0]} (hx : WF x) :
    toQ (embed12 (a : ℤ) 1 7 x : Fqp v p mc12) = psi a hm (toQ x) * wQ p mc12 := by
  rw [toQ_embed_1_7, ← toQ_embed_0_6, toQ_embed12 a hm hx]

include hm in
/-- the shifted placement `embed12 a 3 9` is `ψ(x)·w³` -/
theorem toQ_embed12_w3 {x : Fqp v p [1, 0]} (hx : WF x) :
    toQ (embed12 (a : ℤ) 3 9 x : Fqp v p mc12) = psi a hm (toQ x) * wQ p mc12 ^ 3 := by
  rw [toQ_embed_3_9, ← toQ_embed_0_6, toQ_embed12 a hm hx]

/-- `embed12` returns canonical elements -/
theorem canon_embed12 (hp : 0 < p) (h12 : mc12.length = 12) {mc2 : List Int} (k : Int) (pos0 pos1 : ℕ)
    (x : Fqp v p mc2) : Canon (embed12 k pos0 pos1 x : Fqp v p mc12) :=
  canon_ofInts hp (by simp [h12])

/-- `w = FQ12([0, 1, 0, …])` is canonical and its value is the class of `X` -/
theorem wElem_spec (hp : 0 < p) (h12 : mc12.length = 12) :
    Canon (wElem : Fqp v p mc12) ∧ toQ (wElem : Fqp v p mc12) = wQ p mc12 := by
  refine ⟨canon_ofInts hp (by simp [h12]), ?_⟩
  rw [wElem, toQ_ofInts]
  simp [evQ, ev_replicate_zero, AdjoinRoot.mk_X]

end generic

/-! ### the two concrete embeddings -/

/-- BLS12-381: `ψ : FQ2 → FQ12`, `a₀ + a₁·i ↦ (a₀ − a₁) + a₁·w⁶` (`i ↦ w⁶ − 1`) -/
noncomputable def psiBls : K2 →+* K12 := psi 1 modulus_bls12

/-- bn128: `ψ : FQ2 → FQ12`, `a₀ + a₁·i ↦ (a₀ − 9a₁) + a₁·w⁶` (`i ↦ w⁶ − 9`) -/
noncomputable def psiBn : K2bn →+* K12bn := psi 9 modulus_bn12

theorem psiBls_injective : Function.Injective psiBls := RingHom.injective _
theorem psiBn_injective : Function.Injective psiBn := RingHom.injective _

/-- BLS12-381: `(w⁶ − 1)² = −1` in `K12` -/
theorem bls_w6_sq : (wQ blsP blsMc12 ^ 6 - 1) ^ 2 = -1 := by
  have := w6_sq 1 modulus_bls12
  rw [Nat.cast_one] at this
  exact eq_neg_of_add_eq_zero_left this

/-- bn128: `(w⁶ − 9)² = −1` in `K12bn` -/
theorem bn_w6_sq : (wQ bnP bnMc12 ^ 6 - 9) ^ 2 = -1 := by
  have := w6_sq 9 modulus_bn12
  rw [Nat.cast_ofNat] at this
  exact eq_neg_of_add_eq_zero_left this

/-- BLS12-381: `ψ(a₀ + a₁·i) = (a₀ − a₁) + a₁·w⁶` -/
theorem psiBls_apply (a₀ a₁ : ZMod blsP) :
    psiBls (AdjoinRoot.of _ a₀ + AdjoinRoot.of _ a₁ * AdjoinRoot.root _)
      = AdjoinRoot.of _ (a₀ - a₁) + AdjoinRoot.of _ a₁ * wQ blsP blsMc12 ^ 6 := by
  have := psi_apply 1 modulus_bls12 a₀ a₁
  rwa [Nat.cast_one, one_mul] at this

/-- bn128: `ψ(a₀ + a₁·i) = (a₀ − 9a₁) + a₁·w⁶` -/
theorem psiBn_apply (a₀ a₁ : ZMod bnP) :
    psiBn (AdjoinRoot.of _ a₀ + AdjoinRoot.of _ a₁ * AdjoinRoot.root _)
      = AdjoinRoot.of _ (a₀ - 9 * a₁) + AdjoinRoot.of _ a₁ * wQ bnP bnMc12 ^ 6 := by
  have := psi_apply 9 modulus_bn12 a₀ a₁
  rwa [Nat.cast_ofNat] at this

section concrete
variable {v : Variant}

/-- BLS12-381: `embed12 1 0 6` (the lines `FQ12([c0 − c1, 0,0,0,0,0, c1, 0,…])` of `twist`) is `ψ` -/
theorem toQ_embed_bls {x : Fqp v blsP blsMc2} (hx : WF x) :
    toQ (embed12 1 0 6 x : F12 v) = psiBls (toQ x) := toQ_embed12 1 modulus_bls12 hx

/-- BLS12-381 optimized `twist`, x-coordinate: `embed12 1 1 7 x` is `ψ(x)·w` -/
theorem toQ_embed_bls_w {x : Fqp v blsP blsMc2} (hx : WF x) :
    toQ (embed12 1 1 7 x : F12 v) = psiBls (toQ x) * wQ blsP blsMc12 := toQ_embed12_w 1 modulus_bls12 hx

/-- BLS12-381 optimized `twist`, z-coordinate: `embed12 1 3 9 z` is `ψ(z)·w³` -/
theorem toQ_embed_bls_w3 {x : Fqp v blsP blsMc2} (hx : WF x) :
    toQ (embed12 1 3 9 x : F12 v) = psiBls (toQ x) * wQ blsP blsMc12 ^ 3 :=
  toQ_embed12_w3 1 modulus_bls12 hx

/-- bn128: `embed12 9 0 6` is `ψ` -/
theorem toQ_embed_bn {x : Fqp v bnP bnMc2} (hx : WF x) :
    toQ (embed12 9 0 6 x : F12bn v) = psiBn (toQ x) := toQ_embed12 9 modulus_bn12 hx

theorem canon_embed_bls {mc2 : List Int} (k : Int) (pos0 pos1 : ℕ) (x : Fqp v blsP mc2) :
    Canon (embed12 k pos0 pos1 x : F12 v) := canon_embed12 (by decide) (by decide) k pos0 pos1 x

theorem canon_embed_bn {mc2 : List Int} (k : Int) (pos0 pos1 : ℕ) (x : Fqp v bnP mc2) :
    Canon (embed12 k pos0 pos1 x : F12bn v) := canon_embed12 (by decide) (by decide) k pos0 pos1 x

theorem wElem_bls : Canon (wElem : F12 v) ∧ toQ (wElem : F12 v) = wQ blsP blsMc12 :=
  wElem_spec (by decide) (by decide)

theorem wElem_bn : Canon (wElem : F12bn v) ∧ toQ (wElem : F12bn v) = wQ bnP bnMc12 :=
  wElem_spec (by decide) (by decide)

/-- `w ≠ 0` in `K12` -/
theorem wQ_bls_ne_zero : wQ blsP blsMc12 ≠ 0 := by
  rw [← (wElem_bls (v := .opt)).2]
  exact toQ_ne_zero_of wElem_bls.1 (by decide)

/-- `w ≠ 0` in `K12bn` -/
theorem wQ_bn_ne_zero : wQ bnP bnMc12 ≠ 0 := by
  rw [← (wElem_bn (v := .opt)).2]
  exact toQ_ne_zero_of wElem_bn.1 (by decide)

end concrete

end PyEcc.TwistSem
