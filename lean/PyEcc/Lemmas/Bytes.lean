/-
  PyEcc.Lemmas.Bytes — byte-string lemmas about the model's `os2ip` (`int.from_bytes(x, "big")`),
  `toBytesBE` and `i2osp` (`x.to_bytes(n, "big")`): lengths, ranges and the two round trips.
  Core Lean only (no Mathlib), so that every layer can import it.
-/
import PyEcc.Model.Basic

namespace PyEcc.BytesLem
open PyEcc

theorem os2ip_nil : os2ip [] = 0 := rfl

/-- appending one byte on the right multiplies by 256 and adds the byte -/
theorem os2ip_concat (l : Bytes) (b : UInt8) : os2ip (l ++ [b]) = os2ip l * 256 + b.toNat := by
  simp [os2ip, List.foldl_append]

theorem foldl_os2ip_acc (l : Bytes) (a : Nat) :
    l.foldl (fun acc b => acc * 256 + b.toNat) a = a * 256 ^ l.length + os2ip l := by
  induction l generalizing a with
  | nil => simp [os2ip]
  | cons x xs ih =>
    simp only [List.foldl_cons, List.length_cons, os2ip]
    rw [ih, ih (0 * 256 + x.toNat)]
    rw [Nat.pow_succ, Nat.add_mul, Nat.zero_mul, Nat.zero_add, Nat.add_assoc]
    congr 1
    rw [Nat.mul_assoc, Nat.mul_comm (256 ^ xs.length) 256]

/-- big-endian value of a concatenation -/
theorem os2ip_append (a b : Bytes) : os2ip (a ++ b) = os2ip a * 256 ^ b.length + os2ip b := by
  unfold os2ip
  rw [List.foldl_append, foldl_os2ip_acc]
  rfl

theorem os2ip_cons (x : UInt8) (xs : Bytes) : os2ip (x :: xs) = x.toNat * 256 ^ xs.length + os2ip xs := by
  have := os2ip_append [x] xs
  simpa [os2ip] using this

@[simp] theorem toBytesBE_length (n x : Nat) : (toBytesBE n x).length = n := by
  induction n generalizing x with
  | zero => rfl
  | succ n ih => simp [toBytesBE, ih]

theorem uint8_ofNat_toNat_of_lt {k : Nat} (h : k < 256) : (UInt8.ofNat k).toNat = k := by
  simp [UInt8.toNat_ofNat']
  omega

/-- an `n`-byte string denotes a number below `256 ^ n` -/
theorem os2ip_lt (bs : Bytes) : os2ip bs < 256 ^ bs.length := by
  induction bs with
  | nil => simp [os2ip]
  | cons x xs ih =>
    rw [os2ip_cons, List.length_cons, Nat.pow_succ]
    have hx : x.toNat < 256 := x.toNat_lt
    have h1 : x.toNat * 256 ^ xs.length ≤ 255 * 256 ^ xs.length := Nat.mul_le_mul_right _ (by omega)
    have h2 : 256 ^ xs.length * 256 = 255 * 256 ^ xs.length + 256 ^ xs.length := by
      rw [Nat.mul_comm]; omega
    omega

/-- `int.from_bytes(x.to_bytes(n, "big"), "big") == x` whenever `x` fits in `n` bytes -/
theorem os2ip_toBytesBE (n x : Nat) (h : x < 256 ^ n) : os2ip (toBytesBE n x) = x := by
  induction n generalizing x with
  | zero =>
    have : x = 0 := by simpa using h
    subst this; rfl
  | succ n ih =>
    unfold toBytesBE
    rw [os2ip_concat, uint8_ofNat_toNat_of_lt (Nat.mod_lt _ (by decide))]
    have h2 : x / 256 < 256 ^ n := by
      rw [Nat.div_lt_iff_lt_mul (by decide)]
      rwa [Nat.pow_succ] at h
    rw [ih _ h2]
    omega

/-- without the range guard the encoder keeps the low `n` bytes -/
theorem os2ip_toBytesBE_mod (n x : Nat) : os2ip (toBytesBE n x) = x % 256 ^ n := by
  induction n generalizing x with
  | zero => simp [toBytesBE, os2ip, Nat.mod_one]
  | succ n ih =>
    unfold toBytesBE
    rw [os2ip_concat, uint8_ofNat_toNat_of_lt (Nat.mod_lt _ (by decide)), ih]
    rw [Nat.pow_succ, Nat.mul_comm (256 ^ n) 256, Nat.mod_mul]
    omega

theorem toBytesBE_concat (n x : Nat) (b : UInt8) :
    toBytesBE (n + 1) (x * 256 + b.toNat) = toBytesBE n x ++ [b] := by
  have hb : b.toNat < 256 := b.toNat_lt
  have h1 : (x * 256 + b.toNat) / 256 = x := by omega
  have h2 : (x * 256 + b.toNat) % 256 = b.toNat := by omega
  rw [toBytesBE, h1, h2]
  simp

/-- `int.from_bytes(bs, "big").to_bytes(len(bs), "big") == bs` -/
theorem toBytesBE_os2ip_length (bs : Bytes) : toBytesBE bs.length (os2ip bs) = bs := by
  generalize hn : bs.length = n
  induction n generalizing bs with
  | zero =>
    have : bs = [] := List.eq_nil_of_length_eq_zero hn
    subst this; rfl
  | succ n ih =>
    have hne : bs ≠ [] := by intro h; subst h; simp at hn
    have hsplit := List.dropLast_concat_getLast hne
    have hlen : bs.dropLast.length = n := by simp [hn]
    rw [← hsplit, os2ip_concat, toBytesBE_concat, ih _ hlen]

/-- `int.from_bytes(bs, "big").to_bytes(n, "big") == bs` for an `n`-byte string -/
theorem toBytesBE_os2ip (n : Nat) (bs : Bytes) (h : bs.length = n) : toBytesBE n (os2ip bs) = bs := by
  subst h; exact toBytesBE_os2ip_length bs

/-- `i2osp` succeeds exactly on numbers that fit -/
theorem i2osp_ok {x n : Nat} (h : x < 256 ^ n) : i2osp x n = .ok (toBytesBE n x) := by
  simp [i2osp, h]

theorem i2osp_overflow {x n : Nat} (h : 256 ^ n ≤ x) : i2osp x n = .error .overflow := by
  simp [i2osp, Nat.not_lt.mpr h]

theorem i2osp_length {x n : Nat} {bs : Bytes} (h : i2osp x n = .ok bs) : bs.length = n := by
  unfold i2osp at h
  split at h
  · cases h; simp
  · cases h

theorem os2ip_i2osp {x n : Nat} {bs : Bytes} (h : i2osp x n = .ok bs) : os2ip bs = x := by
  unfold i2osp at h
  split at h
  · rename_i hx; cases h; exact os2ip_toBytesBE n x hx
  · cases h

theorem i2osp_os2ip (bs : Bytes) : i2osp (os2ip bs) bs.length = .ok bs := by
  rw [i2osp_ok (os2ip_lt bs), toBytesBE_os2ip_length]

/-- big-endian encoding is injective on `n`-byte strings -/
theorem os2ip_injective_of_length {a b : Bytes} (hl : a.length = b.length) (h : os2ip a = os2ip b) : a = b := by
  rw [← toBytesBE_os2ip_length a, ← toBytesBE_os2ip_length b, hl, h]

end PyEcc.BytesLem
