/-
  PyEcc.Lemmas.NegField — the conjugation `σ : x ↦ x^(p⁶)` of the BLS12-381 field
  `K12 = Fp[w]/(w¹² − 2w⁶ + 2)`, the grading `K12 = Fp⁶ ⊕ w·Fp⁶` it defines, and the final exponent.

  `σ` is a ring automorphism with `σ ∘ σ = id` (`K12` has `p¹²` elements), `σ w = −w` (kernel
  computation of `(w⁶)^((p⁶−1)/6) = −1` on pairs, `Lemmas/BlsFrobW.lean`), `σ` fixes the base field and
  the image of the twist embedding `ι : Fp² → K12`.
  `InFp6 x : σ x = x` (the subfield `Fp⁶` with `p⁶` elements), `InWFp6 x : σ x = −x` (`w·Fp⁶`).
  Every non-zero element of `Fp⁶` is killed by the final exponent `(p¹² − 1)/r`
  (`(p⁶ − 1) ∣ (p¹² − 1)/r`), and `x · σ x ∈ Fp⁶` for every `x`.
-/
import PyEcc.Lemmas.MillerField
import Mathlib.FieldTheory.Finite.Basic
import Mathlib.Algebra.CharP.Frobenius

set_option linter.unusedSectionVars false
set_option maxRecDepth 100000

namespace PyEcc.NegSem
open Polynomial PyEcc PyEcc.Gen PyEcc.Gen.Consts PyEcc.Fqp PyEcc.FqpSem PyEcc.Transfer PyEcc.PairingSem
  PyEcc.MillerSem

/-! ### `K12` is a finite field with `p¹²` elements -/

instance charP_K12 : CharP K12 blsP := charP_quot (p := blsP) (mc := blsMc12) (by decide)

theorem modulus12_ne_zero : modulus blsP blsMc12 ≠ 0 := (modulus_monic _).ne_zero

/-- `x ^ (p¹²) = x` in `K12` -/
theorem pow_card_K12 (a : K12) : a ^ (blsP ^ 12) = a := by
  have : Module.Finite (ZMod blsP) K12 := (AdjoinRoot.powerBasis modulus12_ne_zero).finite
  have : Finite K12 := Module.finite_of_finite (ZMod blsP)
  let _ : Fintype K12 := Fintype.ofFinite K12
  have hc : Fintype.card K12 = blsP ^ 12 := by
    rw [Module.card_eq_pow_finrank (K := ZMod blsP) (V := K12), ZMod.card,
      (AdjoinRoot.powerBasis modulus12_ne_zero).finrank, AdjoinRoot.powerBasis_dim, natDegree_modulus]
    rfl
  rw [← hc]; exact FiniteField.pow_card a

/-! ### the conjugation `σ` -/

/-- `σ x = x ^ (p⁶)`: the 6-fold Frobenius, the non-trivial automorphism of `K12` over `Fp⁶` -/
noncomputable def sigma : K12 →+* K12 := iterateFrobenius K12 blsP 6

theorem sigma_apply (x : K12) : sigma x = x ^ (blsP ^ 6) := by
  unfold sigma; rw [iterateFrobenius_def]

theorem sigma_sigma (x : K12) : sigma (sigma x) = x := by
  rw [sigma_apply, sigma_apply, ← pow_mul]
  have e : blsP ^ 6 * blsP ^ 6 = blsP ^ 12 := by ring
  rw [e, pow_card_K12]

theorem sigma_injective : Function.Injective sigma := RingHom.injective sigma

theorem sigma_ofZ (c : ZMod blsP) : sigma (ofZ c) = ofZ c := by
  rw [sigma_apply, ← map_pow, ZMod.pow_card_pow]

theorem sigma_intCast (k : ℤ) : sigma (k : K12) = (k : K12) := map_intCast sigma k
theorem sigma_natCast (k : ℕ) : sigma (k : K12) = (k : K12) := map_natCast sigma k

/-- kernel computation on pairs `a₀ + a₁·w⁶`: `(w⁶)^((p⁶−1)/6) = −1`, and `p⁶ = 6·((p⁶−1)/6) + 1` -/
theorem w6_pow_compute :
    pow2 blsP (0, 1) ((blsP ^ 6 - 1) / 6) = ((blsP : Int) - 1, 0)
      ∧ 6 * ((blsP ^ 6 - 1) / 6) + 1 = blsP ^ 6 := by
  decide +kernel

/-- **`σ w = −w`**: `w` is not in `Fp⁶` -/
theorem sigma_w : sigma w12 = -w12 := by
  obtain ⟨h1, h2⟩ := w6_pow_compute
  have hv := pow2_spec ((blsP ^ 6 - 1) / 6)
  rw [h1] at hv
  have hm : val2 ((blsP : Int) - 1, 0) = (-1 : K12) := by
    unfold val2
    simp only [Int.cast_sub, Int.cast_natCast, Int.cast_one, Int.cast_zero, zero_mul, add_zero]
    rw [CharP.cast_eq_zero K12 blsP, zero_sub]
  rw [hm] at hv
  rw [sigma_apply, ← h2, pow_succ, pow_mul, ← hv]
  ring

theorem sigma_w_pow (n : ℕ) : sigma (w12 ^ n) = (-1) ^ n * w12 ^ n := by
  rw [map_pow, sigma_w, neg_pow]

/-- `σ` fixes the image of the twist embedding `ι : K2 → K12` (`i ↦ w⁶ − 1`) -/
theorem sigma_iota (a : K2) : sigma (iota a) = iota a := by
  have h : sigma.comp iota = iota := by
    apply Ideal.Quotient.ringHom_ext
    apply Polynomial.ringHom_ext
    · intro c
      show sigma (iota (AdjoinRoot.of _ c)) = iota (AdjoinRoot.of _ c)
      have : iota (AdjoinRoot.of _ c) = ofZ c := by
        unfold iota ofZ; rw [AdjoinRoot.lift_of]
      rw [this, sigma_ofZ]
    · show sigma (iota i2) = iota i2
      rw [iota_i2, map_sub, map_one, sigma_w_pow]
      norm_num
  exact congrFun (congrArg DFunLike.coe h) a

/-! ### the grading -/

/-- `x ∈ Fp⁶`: fixed by `σ` -/
def InFp6 (x : K12) : Prop := sigma x = x
/-- `x ∈ w·Fp⁶`: negated by `σ` -/
def InWFp6 (x : K12) : Prop := sigma x = -x

theorem even_zero : InFp6 0 := map_zero sigma
theorem even_one : InFp6 1 := map_one sigma
theorem odd_zero : InWFp6 0 := by unfold InWFp6; rw [map_zero, neg_zero]
theorem even_ofZ (c : ZMod blsP) : InFp6 (ofZ c) := sigma_ofZ c
theorem even_natCast (n : ℕ) : InFp6 (n : K12) := sigma_natCast n
theorem even_iota (a : K2) : InFp6 (iota a) := sigma_iota a
theorem odd_w : InWFp6 w12 := sigma_w
theorem even_w2 : InFp6 (w12 ^ 2) := by unfold InFp6; rw [sigma_w_pow]; norm_num
theorem odd_w3 : InWFp6 (w12 ^ 3) := by unfold InWFp6; rw [sigma_w_pow]; ring

theorem InFp6.add {x y : K12} (hx : InFp6 x) (hy : InFp6 y) : InFp6 (x + y) := by
  unfold InFp6 at *; rw [map_add, hx, hy]
theorem InFp6.sub {x y : K12} (hx : InFp6 x) (hy : InFp6 y) : InFp6 (x - y) := by
  unfold InFp6 at *; rw [map_sub, hx, hy]
theorem InFp6.neg {x : K12} (hx : InFp6 x) : InFp6 (-x) := by
  unfold InFp6 at *; rw [map_neg, hx]
theorem InFp6.mul {x y : K12} (hx : InFp6 x) (hy : InFp6 y) : InFp6 (x * y) := by
  unfold InFp6 at *; rw [map_mul, hx, hy]
theorem InFp6.div {x y : K12} (hx : InFp6 x) (hy : InFp6 y) : InFp6 (x / y) := by
  unfold InFp6 at *; rw [map_div₀, hx, hy]
theorem InFp6.pow {x : K12} (hx : InFp6 x) (n : ℕ) : InFp6 (x ^ n) := by
  unfold InFp6 at *; rw [map_pow, hx]
theorem InWFp6.add {x y : K12} (hx : InWFp6 x) (hy : InWFp6 y) : InWFp6 (x + y) := by
  unfold InWFp6 at *; rw [map_add, hx, hy]; ring
theorem InWFp6.sub {x y : K12} (hx : InWFp6 x) (hy : InWFp6 y) : InWFp6 (x - y) := by
  unfold InWFp6 at *; rw [map_sub, hx, hy]; ring
theorem InWFp6.neg {x : K12} (hx : InWFp6 x) : InWFp6 (-x) := by
  unfold InWFp6 at *; rw [map_neg, hx]
theorem InWFp6.mul {x y : K12} (hx : InWFp6 x) (hy : InWFp6 y) : InFp6 (x * y) := by
  unfold InWFp6 InFp6 at *; rw [map_mul, hx, hy]; ring
theorem InWFp6.sq {x : K12} (hx : InWFp6 x) : InFp6 (x ^ 2) := by rw [pow_two]; exact hx.mul hx
theorem InFp6.mul_odd {x y : K12} (hx : InFp6 x) (hy : InWFp6 y) : InWFp6 (x * y) := by
  unfold InWFp6 InFp6 at *; rw [map_mul, hx, hy]; ring
theorem InWFp6.mul_even {x y : K12} (hx : InWFp6 x) (hy : InFp6 y) : InWFp6 (x * y) := by
  unfold InWFp6 InFp6 at *; rw [map_mul, hx, hy]; ring
theorem InFp6.div_odd {x y : K12} (hx : InFp6 x) (hy : InWFp6 y) : InWFp6 (x / y) := by
  unfold InWFp6 InFp6 at *; rw [map_div₀, hx, hy]; ring
theorem InWFp6.div_even {x y : K12} (hx : InWFp6 x) (hy : InFp6 y) : InWFp6 (x / y) := by
  unfold InWFp6 InFp6 at *; rw [map_div₀, hx, hy]; ring
theorem InWFp6.div {x y : K12} (hx : InWFp6 x) (hy : InWFp6 y) : InFp6 (x / y) := by
  unfold InWFp6 InFp6 at *; rw [map_div₀, hx, hy]; ring

/-- the norm to `Fp⁶`: `x · σ x ∈ Fp⁶` -/
theorem even_mul_sigma (x : K12) : InFp6 (x * sigma x) := by
  unfold InFp6; rw [map_mul, sigma_sigma, mul_comm]

/-- the sum `Fp⁶ + w·Fp⁶` is direct: an even plus an odd element vanishes only if both do -/
theorem even_add_odd_eq_zero {e o : K12} (he : InFp6 e) (ho : InWFp6 o) (h : e + o = 0) : e = 0 ∧ o = 0 := by
  have h2 : e - o = 0 := by
    have := congrArg sigma h
    rw [map_add, he, ho, map_zero] at this
    linear_combination this
  have e2 : (2 : K12) * e = 0 := by linear_combination h + h2
  have e0 : e = 0 := (mul_eq_zero.mp e2).resolve_left k12_two_ne_zero
  refine ⟨e0, ?_⟩
  rw [e0, zero_add] at h; exact h

/-! ### the final exponent -/

/-- `(p⁶ − 1) ∣ (p¹² − 1)/r` — because `r ∤ p⁶ − 1` -/
theorem blsFinalExp_split :
    blsFinalExp = (blsP ^ 6 - 1) * ((blsP ^ 6 + 1) / bls12_381_curve_order) := by
  decide +kernel

theorem two_dvd_blsFinalExp : 2 ∣ blsFinalExp := by decide +kernel

/-- **every non-zero element of `Fp⁶` is killed by the final exponent `(p¹² − 1)/r`** -/
theorem pow_finalExp_of_even {x : K12} (h0 : x ≠ 0) (hx : InFp6 x) : x ^ blsFinalExp = 1 := by
  have h1 : x ^ (blsP ^ 6 - 1) = 1 := by
    have hp : blsP ^ 6 = (blsP ^ 6 - 1) + 1 := by decide +kernel
    unfold InFp6 at hx
    rw [sigma_apply, hp, pow_succ] at hx
    exact mul_right_cancel₀ h0 (by rw [hx, one_mul])
  rw [blsFinalExp_split, pow_mul, h1, one_pow]

/-- `(−1)^((p¹² − 1)/r) = 1` -/
theorem neg_one_pow_finalExp : (-1 : K12) ^ blsFinalExp = 1 := by
  obtain ⟨k, hk⟩ := two_dvd_blsFinalExp
  rw [hk, pow_mul]; norm_num

/-- **`(x · σ x)^((p¹² − 1)/r) = 1` for `x ≠ 0`** -/
theorem norm_pow_finalExp {x : K12} (h0 : x ≠ 0) : (x * sigma x) ^ blsFinalExp = 1 :=
  pow_finalExp_of_even (mul_ne_zero h0 (fun h => h0 (by
    have := congrArg sigma h; rwa [sigma_sigma, map_zero] at this))) (even_mul_sigma x)

end PyEcc.NegSem
