/-
  PyEcc.Lemmas.NegBnPairing — bn128: the optimized and the reference `miller_loop` read through the
  reference loop over `K12bn` (`bn_core`, from `miller_core_bn`), the `K12bn` readings of `neg(Q)`, `neg(P)`,
  and the resulting statements
     `pairing(Q, P) · pairing(Q, −P) = 1`,   `pairing(Q, P) · pairing(−Q, P) = 1`
  in the executable `FQ12` model, for reduced on-curve `Q` killed by the group order and on-curve `P`.
-/
import PyEcc.Lemmas.NegBnTail
import PyEcc.Props.C12_MillerBn
import PyEcc.Props.C07_Facts

set_option linter.unusedSectionVars false
set_option linter.unusedVariables false
set_option maxRecDepth 100000

namespace PyEcc.NegBnSem
open Polynomial PyEcc PyEcc.Gen PyEcc.Gen.Consts PyEcc.Fqp PyEcc.FqpSem PyEcc.TwistSem PyEcc.PairingSem
  PyEcc.NegSem PyEcc.MillerBnSem PyEcc.C13
open PyEcc.Transfer

variable [DecidableEq K2bn] [DecidableEq K12bn]

/-- `x`-coordinate of `twist(Q)` in `K12bn` -/
noncomputable def qxK (Q : BnG2Pt) : K12bn := psiBn (toQ Q.1 / toQ Q.2.2) * wbn ^ 2
/-- `y`-coordinate of `twist(Q)` in `K12bn` -/
noncomputable def qyK (Q : BnG2Pt) : K12bn := psiBn (toQ Q.2.1 / toQ Q.2.2) * wbn ^ 3

theorem even_qxK (Q : BnG2Pt) : NegBnSem.InFp6 (qxK Q) := (even_psi _).mul even_w2
theorem odd_qyK (Q : BnG2Pt) : InWFp6 (qyK Q) := (even_psi _).mul_odd odd_w3

theorem even_emb (x : Fq bnP) : NegBnSem.InFp6 (emb x) := even_ofZ _

theorem qyK_neg {Q : BnG2Pt} (cQ : CanonT Q) : qyK (OptBn.neg Q) = -qyK Q ∧ qxK (OptBn.neg Q) = qxK Q := by
  obtain ⟨x, y, z⟩ := Q
  obtain ⟨cx, cy, cz⟩ := cQ
  have e : (toQ (-y) : K2bn) = -toQ y := (goodHom_F2bn (v := .opt)).map_neg cy
  refine ⟨?_, rfl⟩
  show psiBn (toQ (-y) / toQ z) * wbn ^ 3 = -(psiBn (toQ y / toQ z) * wbn ^ 3)
  rw [e, neg_div (toQ z : K2bn) (toQ y), map_neg, neg_mul]

theorem bn_noTrail : NoTrail bn128_ate_loop_count (downTo bn128_log_ate_loop_count) := by decide

theorem refMillerStep_bn_eq_stepG (ate : Nat) (Q P : RA12) :
    refMillerStep refBnOps ate Q P = stepG ate Q P := by
  funext st i
  obtain ⟨f, R⟩ := st
  rfl

theorem B12_frob : B12 ^ bnP = B12 := by
  have := frob_B12
  rwa [frobenius_def] at this

/-- `y ≠ 0` for a finite point of the G1 curve `y² = x³ + 3` -/
theorem g1bn_y_ne_zero {P : BnG1Pt}
    (hon : OptBn.is_on_curve P (Fq.ofInt optimized_bn128_b : Fq bnP) = true) (hz : P.2.2 ≠ 0) :
    emb (P.2.1 / P.2.2) ≠ 0 := by
  intro h0
  have he := (GroupOrder.equation_W _ _ _).mp (p_equation hon hz)
  rw [h0, ← emb_b, ← map_pow, ← map_add] at he
  have h1 : (P.1 / P.2.2) ^ 3 + (Fq.ofInt optimized_bn128_b : Fq bnP) = 0 := by
    apply emb_injective
    rw [map_zero, ← he]; ring
  have h2 := congrArg Fq.toZMod h1
  rw [Fq.toZMod_add, Fq.toZMod_pow, Fq.toZMod_ofInt, Fq.toZMod_zero] at h2
  apply C07.Facts.bn_no_cube_root (Fq.toZMod (P.1 / P.2.2))
  rw [← h2]
  have : optimized_bn128_b = bn128_b := by decide
  rw [this]; norm_cast

/-- the optimized Miller value with final exponentiation -/
abbrev optV (Q : BnG2Pt) (P : BnG1Pt) : OBn12 :=
  optBnMillerLoop bnDigits (some bnFinalExp) (twistOptBn Q) (castFq12 P.1, castFq12 P.2.1, castFq12 P.2.2)

/-- **both bn128 Miller values are the value of the reference loop over `K12bn`** -/
theorem bn_core {Q : BnG2Pt} {P : BnG1Pt} (cQ : CanonT Q) (hon : OptBn.is_on_curve Q bnB2 = true)
    (honP : OptBn.is_on_curve P (Fq.ofInt optimized_bn128_b : Fq bnP) = true)
    (hQz : Q.2.2 ≠ 0) (hPz : P.2.2 ≠ 0) (hsub : OptBn.is_inf (OptBn.multiply Q bnR) = true) :
    ∃ v : K12bn, millerG bnP bn128_ate_loop_count (downTo bn128_log_ate_loop_count) bnFinalExp
        (qxK Q) (qyK Q) (some (emb (P.1 / P.2.2), emb (P.2.1 / P.2.2))) = .ok v
      ∧ Canon (optV Q P) ∧ (toQ (optV Q P) : K12bn) = v
      ∧ qyK Q ^ 2 = qxK Q ^ 3 + B12 := by
  obtain ⟨cq, hQ⟩ := C12MB.refOfOptG2_repr cQ
  have hfin := frobFinite_of_subgroup cQ hon hQz hsub
  obtain ⟨fr, e, cfr, co, v⟩ := miller_core_bn cQ cq hQ (rfl : toAff P = toAff P) hon honP hQz hPz hsub hfin
  obtain ⟨Pt, rQ, Pt0, hr⟩ := g2_point cQ hon hQz hsub
  have hR := goodHom_F12bn (v := .ref)
  -- the reference inputs are finite
  have hq : C12MB.refOfOptG2 Q = some (⟨(Gen.OptBn.normalize Q).1.coeffs⟩, ⟨(Gen.OptBn.normalize Q).2.coeffs⟩) := by
    unfold C12MB.refOfOptG2; rw [if_neg hQz]
  generalize C12MB.refOfOptG2 Q = q at *
  subst hq
  generalize (⟨(Gen.OptBn.normalize Q).1.coeffs⟩ : RBn2) = xq at *
  generalize (⟨(Gen.OptBn.normalize Q).2.coeffs⟩ : RBn2) = yq at *
  obtain ⟨cxq, cyq⟩ := cq
  obtain ⟨cPr, aPr⟩ := castRef_aff (rfl : toAff P = toAff P) hPz
  obtain ⟨⟨xp, yp⟩, hp⟩ : ∃ xy, castRefBn (toAff P) = some xy := by
    rw [toAff_of_z_ne_zero hPz]; exact ⟨_, rfl⟩
  obtain ⟨⟨qx, qy⟩, hq12⟩ : ∃ xy : RBn12 × RBn12, (twistRefBn (some (xq, yq)) : RA12) = some xy :=
    ⟨_, rfl⟩
  have cq12 : Canon qx ∧ Canon qy := by
    have := canonO_twistRefBn (p := some (xq, yq))
    rw [hq12] at this; exact this
  have vq := mapO_twistRefBn (p := some (xq, yq)) ⟨cxq, cyq⟩
  rw [hq12, ← hQ] at vq
  have hzq : (mapT (toQ : OBn2 → K2bn) Q).2.2 ≠ 0 := by
    rw [Transfer.mapT_snd_snd]
    exact fun e => hQz (((goodHom_F2bn (v := .opt)).eq_zero_iff cQ.2.2).mp e)
  rw [toAff_of_z_ne_zero hzq] at vq
  have vq' : (toQ qx : K12bn) = qxK Q ∧ (toQ qy : K12bn) = qyK Q := by
    simp only [Transfer.mapO_some, twO_some, Option.some.injEq, Prod.mk.injEq] at vq
    exact vq
  rw [hq12, hp] at e
  rw [hp] at cPr aPr
  rw [refMillerLoop_frob, refMillerStep_bn_eq_stepG] at e
  have e' : millerG bnP bn128_ate_loop_count (downTo bn128_log_ate_loop_count) bnFinalExp qx qy
      (some (xp, yp)) = .ok fr := e
  have gP : MillerSem.GoodO Canon (some (xp, yp)) := MillerSem.goodO_some cPr.1 cPr.2
  have g := millerG_good hR bnP bn128_ate_loop_count (downTo bn128_log_ate_loop_count) bnFinalExp
    cq12.1 cq12.2 gP e'
  have aP : MillerSem.mapO (toQ : RBn12 → K12bn) (some (xp, yp))
      = some (emb (P.1 / P.2.2), emb (P.2.1 / P.2.2)) := aPr
  rw [vq'.1, vq'.2, aP] at g
  refine ⟨toQ fr, g, co, v, ?_⟩
  -- the curve equation of the twisted point
  have rT : reprRef (bnTwistOpt Pt) = some (qxK Q, qyK Q) := by
    rw [reprRef_bnTwistOpt, ← show toAff (mapT toQ Q) = reprRef Pt from rQ, toAff_of_z_ne_zero hzq]
    rfl
  rcases hT : bnTwistOpt Pt with _ | ⟨X, Y, hXY⟩
  · rw [hT] at rT; cases rT
  · rw [hT] at rT
    have := Option.some.inj rT
    have hX : X = qxK Q := congrArg Prod.fst this
    have hY : Y = qyK Q := congrArg Prod.snd this
    rw [← hX, ← hY]
    exact (GroupOrder.equation_W _ _ _).mp hXY.1

/-! ### the two Miller-loop statements in the executable model -/

theorem model_mul_eq_one_bn {a b : OBn12} (ca : Canon a) (cb : Canon b)
    (h : (toQ a : K12bn) * toQ b = 1) : a * b = 1 := by
  have hO := goodHom_F12bn (v := .opt)
  apply hO.inj (hO.good_mul ca cb) hO.good_one
  rw [hO.map_mul ca cb, hO.map_one]
  exact h

theorem emb_neg_P {P : BnG1Pt} :
    emb ((OptBn.neg P).2.1 / (OptBn.neg P).2.2) = -emb (P.2.1 / P.2.2)
      ∧ emb ((OptBn.neg P).1 / (OptBn.neg P).2.2) = emb (P.1 / P.2.2) := by
  refine ⟨?_, rfl⟩
  show emb (-P.2.1 / P.2.2) = _
  rw [map_div₀, map_neg, neg_div (emb P.2.2) (emb P.2.1), ← map_div₀]

/-- `is_on_curve(neg(P), b) = is_on_curve(P, b)` on bn128 G1 triples -/
theorem on_curve_neg_G1bn (P : BnG1Pt) (b : Fq bnP) :
    OptBn.is_on_curve (OptBn.neg P) b = OptBn.is_on_curve P b := by
  obtain ⟨x, y, z⟩ := P
  have e : (-y) ^ 2 * z - x ^ 3 = y ^ 2 * z - x ^ 3 := by
    rw [← Fq.toZMod_inj]
    simp only [Fq.toZMod_sub, Fq.toZMod_mul, Fq.toZMod_pow, neg_sq]
  show (if OptBn.is_inf (x, y, z) = true then true
      else decide ((-y) ^ 2 * z - x ^ 3 = b * z ^ 3))
    = (if OptBn.is_inf (x, y, z) = true then true else decide (y ^ 2 * z - x ^ 3 = b * z ^ 3))
  simp only [e]

/-- `neg(Q)` of a reduced on-curve triple killed by `r` is again one -/
theorem neg_G2bn_facts {Q : BnG2Pt} (cQ : CanonT Q) (hon : OptBn.is_on_curve Q bnB2 = true)
    (hsub : OptBn.is_inf (OptBn.multiply Q bnR) = true) :
    CanonT (OptBn.neg Q) ∧ OptBn.is_on_curve (OptBn.neg Q) bnB2 = true
      ∧ OptBn.is_inf (OptBn.multiply (OptBn.neg Q) bnR) = true := by
  have cN : CanonT (OptBn.neg Q) := (canonT_ops_bn cQ cQ 0).2.2.1
  obtain ⟨Pt, rQ⟩ := (on_curve_iff_F2bn cQ).mp hon
  have rN := opt_neg_refines_F2bn cQ rQ
  refine ⟨cN, (on_curve_iff_F2bn cN).mpr ⟨_, rN⟩, ?_⟩
  have h0 : bnR • Pt = 0 := (opt_is_inf_refines_F2bn (canonT_ops_bn cQ cQ bnR).2.2.2.1
    (opt_multiply_refines_F2bn cQ rQ bnR)).mp hsub
  apply (opt_is_inf_refines_F2bn (canonT_ops_bn cN cN bnR).2.2.2.1
    (opt_multiply_refines_F2bn cN rN bnR)).mpr
  rw [smul_neg, h0, neg_zero]

/-- **`miller_loop(Q, P) · miller_loop(Q, −P) = 1`**, and the value is not zero (bn128, optimized) -/
theorem optV_neg_right {Q : BnG2Pt} {P : BnG1Pt} (cQ : CanonT Q)
    (hon : OptBn.is_on_curve Q bnB2 = true)
    (honP : OptBn.is_on_curve P (Fq.ofInt optimized_bn128_b : Fq bnP) = true)
    (hQz : Q.2.2 ≠ 0) (hPz : P.2.2 ≠ 0) (hsub : OptBn.is_inf (OptBn.multiply Q bnR) = true) :
    Canon (optV Q P) ∧ Canon (optV Q (OptBn.neg P)) ∧ optV Q P ≠ 0
      ∧ optV Q P * optV Q (OptBn.neg P) = 1 := by
  have honP' := honP
  rw [← on_curve_neg_G1bn] at honP'
  have hPz' : (OptBn.neg P).2.2 ≠ 0 := hPz
  obtain ⟨v, e, c, tv, eq⟩ := bn_core (P := P) cQ hon honP hQz hPz hsub
  obtain ⟨v', e', c', tv', _⟩ := bn_core (P := OptBn.neg P) cQ hon honP' hQz hPz' hsub
  rw [emb_neg_P.1, emb_neg_P.2] at e'
  have eT := (GroupOrder.equation_W _ _ _).mp (p_equation honP hPz)
  obtain ⟨g, v'', hg0, ev, e'', hm⟩ := millerK_negT (even_qxK Q) (odd_qyK Q) (even_emb _) (even_emb _)
    (g1bn_y_ne_zero honP hPz) B12_frob eq eT bn_noTrail e
  rw [e'] at e''
  have : v' = v'' := Except.ok.inj e''
  subst this
  refine ⟨c, c', ?_, model_mul_eq_one_bn c c' (by rw [tv, tv']; exact hm)⟩
  intro h0
  have hO := goodHom_F12bn (v := .opt)
  have := congrArg (toQ : OBn12 → K12bn) h0
  rw [tv, hO.map_zero, ev] at this
  exact hg0 (pow_eq_zero_iff (by decide +kernel) |>.mp this)

/-- **`miller_loop(Q, P) · miller_loop(−Q, P) = 1`** (bn128, optimized) -/
theorem optV_neg_left {Q : BnG2Pt} {P : BnG1Pt} (cQ : CanonT Q)
    (hon : OptBn.is_on_curve Q bnB2 = true)
    (honP : OptBn.is_on_curve P (Fq.ofInt optimized_bn128_b : Fq bnP) = true)
    (hQz : Q.2.2 ≠ 0) (hPz : P.2.2 ≠ 0) (hsub : OptBn.is_inf (OptBn.multiply Q bnR) = true) :
    Canon (optV Q P) ∧ Canon (optV (OptBn.neg Q) P) ∧ optV Q P * optV (OptBn.neg Q) P = 1 := by
  obtain ⟨cN, honN, hsubN⟩ := neg_G2bn_facts cQ hon hsub
  have hQz' : (OptBn.neg Q).2.2 ≠ 0 := hQz
  obtain ⟨v, e, c, tv, eq⟩ := bn_core (P := P) cQ hon honP hQz hPz hsub
  obtain ⟨v', e', c', tv', _⟩ := bn_core (P := P) cN honN honP hQz' hPz hsubN
  rw [(qyK_neg cQ).1, (qyK_neg cQ).2] at e'
  have eT := (GroupOrder.equation_W _ _ _).mp (p_equation honP hPz)
  obtain ⟨g, v'', hg0, ev, _, _⟩ := millerK_negT (even_qxK Q) (odd_qyK Q) (even_emb _) (even_emb _)
    (g1bn_y_ne_zero honP hPz) B12_frob eq eT bn_noTrail e
  have es := millerK_negQ (even_qxK Q) (odd_qyK Q) (even_emb _) (even_emb _) e
  rw [e'] at es
  have : v' = sigma v := Except.ok.inj es
  refine ⟨c, c', model_mul_eq_one_bn c c' ?_⟩
  rw [tv, tv', this, ev, map_pow, ← mul_pow]
  exact norm_pow_finalExp hg0

/-! ### the `pairing` functions -/

theorem one_mul_one_model_bn : (1 : OBn12) * 1 = 1 := by
  have hO := goodHom_F12bn (v := .opt)
  exact model_mul_eq_one_bn hO.good_one hO.good_one (by rw [hO.map_one, one_mul])

theorem optV_eq (Q : BnG2Pt) (P : BnG1Pt) :
    optBnMillerLoop (digitsFrom optimized_bn128_pseudo_binary_encoding 63)
      (some ((bnP ^ 12 - 1) / optimized_bn128_curve_order)) (twistOptBn Q)
      (castFq12 P.1, castFq12 P.2.1, castFq12 P.2.2) = optV Q P := by
  rw [bn_final_exp_eq']

/-- **`pairing(Q, P) · pairing(Q, neg(P)) = 1`** (optimized bn128; with reducedness of the two values) -/
theorem pairingBn_neg_right_core (Q : BnG2Pt) (P : BnG1Pt) (cQ : CanonT Q)
    (honQ : OptBn.is_on_curve Q bnB2 = true)
    (honP : OptBn.is_on_curve P (Fq.ofInt optimized_bn128_b : Fq bnP) = true)
    (hsub : OptBn.is_inf (OptBn.multiply Q optimized_bn128_curve_order) = true) :
    ∃ v v' : OBn12, pairingOptBn Q P true = .ok v ∧ pairingOptBn Q (OptBn.neg P) true = .ok v'
      ∧ Canon v ∧ Canon v' ∧ v ≠ 0 ∧ v * v' = 1 := by
  have honQ' : OptBn.is_on_curve Q (⟨optimized_bn128_b2⟩ : OBn2) = true := honQ
  have honP' := honP
  rw [← on_curve_neg_G1bn] at honP'
  have hO := goodHom_F12bn (v := .opt)
  have h10 : (1 : OBn12) ≠ 0 := by decide
  rw [pairingOptBn_eq, pairingOptBn_eq, honQ', honP, honP']
  simp only [Bool.true_eq_false, if_false]
  by_cases hz : P.2.2 = 0 ∨ Q.2.2 = 0
  · rw [if_pos hz, if_pos (show (OptBn.neg P).2.2 = 0 ∨ Q.2.2 = 0 from hz)]
    exact ⟨1, 1, rfl, rfl, hO.good_one, hO.good_one, h10, one_mul_one_model_bn⟩
  · rw [if_neg hz, if_neg (show ¬ ((OptBn.neg P).2.2 = 0 ∨ Q.2.2 = 0) from hz), if_pos trivial,
      optV_eq, optV_eq]
    rw [not_or] at hz
    obtain ⟨c, c', h0, h⟩ := optV_neg_right cQ honQ honP hz.2 hz.1 hsub
    exact ⟨_, _, rfl, rfl, c, c', h0, h⟩

/-- **`pairing(Q, P) · pairing(neg(Q), P) = 1`** (optimized bn128; with reducedness of the two values) -/
theorem pairingBn_neg_left_core (Q : BnG2Pt) (P : BnG1Pt) (cQ : CanonT Q)
    (honQ : OptBn.is_on_curve Q bnB2 = true)
    (honP : OptBn.is_on_curve P (Fq.ofInt optimized_bn128_b : Fq bnP) = true)
    (hsub : OptBn.is_inf (OptBn.multiply Q optimized_bn128_curve_order) = true) :
    ∃ v v' : OBn12, pairingOptBn Q P true = .ok v ∧ pairingOptBn (OptBn.neg Q) P true = .ok v'
      ∧ Canon v ∧ Canon v' ∧ v * v' = 1 := by
  obtain ⟨cN, honN, hsubN⟩ := neg_G2bn_facts cQ honQ hsub
  have honQ' : OptBn.is_on_curve Q (⟨optimized_bn128_b2⟩ : OBn2) = true := honQ
  have honN' : OptBn.is_on_curve (OptBn.neg Q) (⟨optimized_bn128_b2⟩ : OBn2) = true := honN
  have hO := goodHom_F12bn (v := .opt)
  rw [pairingOptBn_eq, pairingOptBn_eq, honQ', honN', honP]
  simp only [Bool.true_eq_false, if_false]
  by_cases hz : P.2.2 = 0 ∨ Q.2.2 = 0
  · rw [if_pos hz, if_pos (show P.2.2 = 0 ∨ (OptBn.neg Q).2.2 = 0 from hz)]
    exact ⟨1, 1, rfl, rfl, hO.good_one, hO.good_one, one_mul_one_model_bn⟩
  · rw [if_neg hz, if_neg (show ¬ (P.2.2 = 0 ∨ (OptBn.neg Q).2.2 = 0) from hz), if_pos trivial,
      optV_eq, optV_eq]
    rw [not_or] at hz
    obtain ⟨c, c', h⟩ := optV_neg_left cQ honQ honP hz.2 hz.1 hsub
    exact ⟨_, _, rfl, rfl, c, c', h⟩

/-! ### transfer to the reference pairing -/

/-- `neg` commutes with the affine reading of a G1 triple -/
theorem toAff_neg_G1bn (P : BnG1Pt) : toAff (OptBn.neg P) = RefBn.neg (toAff P) := by
  obtain ⟨x, y, z⟩ := P
  by_cases hz : z = 0
  · subst hz; simp [toAff, OptBn.neg, RefBn.neg]
  · have e : -y / z = -(y / z) := by
      rw [← Fq.toZMod_inj]
      simp only [Fq.toZMod_div, Fq.toZMod_neg, neg_div (Fq.toZMod z) (Fq.toZMod y)]
    simp only [toAff, OptBn.neg, hz, if_false, RefBn.neg, reduceCtorEq, e]

/-- `neg` commutes with the affine reading of a G2 triple -/
theorem toAff_neg_G2bn {Q : BnG2Pt} {q : Option (RBn2 × RBn2)} (cQ : CanonT Q) (cq : GoodO Canon q)
    (hQ : toAff (mapT toQ Q) = mapO (toQ : RBn2 → K2bn) q) :
    GoodO Canon (RefBn.neg q)
      ∧ toAff (mapT toQ (OptBn.neg Q)) = mapO (toQ : RBn2 → K2bn) (RefBn.neg q) := by
  obtain ⟨x, y, z⟩ := Q
  obtain ⟨cx, cy, cz⟩ := cQ
  have hR := goodHom_F2bn (v := .ref)
  have e : mapT (toQ : OBn2 → K2bn) (OptBn.neg (x, y, z)) = (toQ x, -toQ y, toQ z) := by
    show (toQ x, toQ (-y), toQ z) = _
    rw [(goodHom_F2bn (v := .opt)).map_neg cy]
  rw [e]
  rcases q with _ | ⟨a, b⟩
  · refine ⟨trivial, ?_⟩
    have hz : (toQ z : K2bn) = 0 := by
      by_contra hz
      have : toAff (mapT (toQ : OBn2 → K2bn) (x, y, z)) = some (toQ x / toQ z, toQ y / toQ z) := by
        simp [toAff, mapT, hz]
      rw [this] at hQ; cases hQ
    simp [toAff, hz, RefBn.neg]
  · obtain ⟨ca, cb⟩ := cq
    have hn : RefBn.neg (some (a, b)) = some (a, -b) := by simp [RefBn.neg]
    rw [hn]
    refine ⟨⟨ca, hR.good_neg cb⟩, ?_⟩
    have hz : (toQ z : K2bn) ≠ 0 := by
      intro hz
      have : toAff (mapT (toQ : OBn2 → K2bn) (x, y, z)) = none := by simp [toAff, mapT, hz]
      rw [this] at hQ; cases hQ
    have h1 : toAff (mapT (toQ : OBn2 → K2bn) (x, y, z)) = some (toQ x / toQ z, toQ y / toQ z) := by
      simp [toAff, mapT, hz]
    rw [h1, mapO_some] at hQ
    have hQ' := Option.some.inj hQ
    have ha : (toQ x / toQ z : K2bn) = toQ a := congrArg Prod.fst hQ'
    have hb : (toQ y / toQ z : K2bn) = toQ b := congrArg Prod.snd hQ'
    rw [mapO_some, hR.map_neg cb, ← ha, ← hb]
    simp only [toAff, hz, if_false]
    rw [neg_div (toQ z : K2bn) (toQ y)]

/-- equal coefficient lists, product `1` on the optimized side ⇒ product `1` on the reference side -/
theorem ref_mul_eq_one_bn {v v' : OBn12} {u u' : RBn12} (cv : Canon v) (cv' : Canon v')
    (e : v.coeffs = u.coeffs) (e' : v'.coeffs = u'.coeffs) (h : v * v' = 1) : u * u' = 1 := by
  have hO := goodHom_F12bn (v := .opt)
  have hR := goodHom_F12bn (v := .ref)
  have cu : Canon u := by unfold Canon at cv ⊢; rw [← e]; exact cv
  have cu' : Canon u' := by unfold Canon at cv' ⊢; rw [← e']; exact cv'
  have t : (toQ u : K12bn) = toQ v := by unfold toQ; rw [e]
  have t' : (toQ u' : K12bn) = toQ v' := by unfold toQ; rw [e']
  apply hR.inj (hR.good_mul cu cu') hR.good_one
  rw [hR.map_mul cu cu', hR.map_one, t, t', ← hO.map_mul cv cv', h, hO.map_one]

theorem coeffs_of_map_eq_bn {a : OBn12} {X : Except PyErr RBn12}
    (h : (Except.ok a : Except PyErr OBn12).map Fqp.coeffs = X.map Fqp.coeffs) :
    ∃ u, X = .ok u ∧ a.coeffs = u.coeffs := by
  rcases X with e | u
  · cases h
  · exact ⟨u, rfl, Except.ok.inj h⟩

end PyEcc.NegBnSem
