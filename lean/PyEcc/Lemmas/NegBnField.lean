/-
  PyEcc.Lemmas.NegBnField — the conjugation `σ : x ↦ x^(p⁶)` of the bn128 field
  `K12bn = Fp[w]/(w¹² − 18w⁶ + 82)`, the grading `K12bn = Fp⁶ ⊕ w·Fp⁶` it defines, and the final exponent.
  (bn128 counterpart of `Lemmas/NegField.lean`.)

  `σ ∘ σ = id`, `σ w = −w` (kernel computation of `(w⁶)^((p⁶−1)/6) = −1` on pairs `a₀ + a₁·w⁶`,
  `(w⁶)² = 18w⁶ − 82`), `σ` fixes the base field and the image of the twist embedding `ψ : Fp² → K12bn`.
  `InFp6 x : σ x = x`, `InWFp6 x : σ x = −x`.  Every non-zero element of `Fp⁶` is killed by the final
  exponent `(p¹² − 1)/r`, and `x · σ x ∈ Fp⁶` for every `x`.
-/
import PyEcc.Lemmas.MillerBnLoop

set_option linter.unusedSectionVars false
set_option maxRecDepth 100000

namespace PyEcc.NegBnSem
open Polynomial PyEcc PyEcc.Gen PyEcc.Gen.Consts PyEcc.Fqp PyEcc.FqpSem PyEcc.Transfer PyEcc.TwistSem
  PyEcc.PairingSem

/-- the generator `w` of `K12bn` -/
noncomputable abbrev wbn : K12bn := wQ bnP bnMc12

/-- the base field inside `K12bn` -/
noncomputable abbrev ofZbn : ZMod bnP →+* K12bn := AdjoinRoot.of (modulus bnP bnMc12)

/-! ### the conjugation `σ` -/

/-- `σ x = x ^ (p⁶)` -/
noncomputable def sigma : K12bn →+* K12bn := iterateFrobenius K12bn bnP 6

theorem sigma_apply (x : K12bn) : sigma x = x ^ (bnP ^ 6) := by
  unfold sigma; rw [iterateFrobenius_def]

theorem sigma_sigma (x : K12bn) : sigma (sigma x) = x := by
  rw [sigma_apply, sigma_apply, ← pow_mul]
  have e : bnP ^ 6 * bnP ^ 6 = bnP ^ 12 := by ring
  rw [e, MillerBnSem.pow_card_K12bn]

theorem sigma_injective : Function.Injective sigma := RingHom.injective sigma

theorem sigma_ofZ (c : ZMod bnP) : sigma (ofZbn c) = ofZbn c := by
  rw [sigma_apply]; exact MillerBnSem.inFp6_of c

theorem sigma_natCast (k : ℕ) : sigma (k : K12bn) = (k : K12bn) := map_natCast sigma k

/-! ### `σ w = −w` by pair arithmetic in `Fp[y]/(y² − 18y + 82)`, `y = w⁶` -/

/-- multiplication of `a₀ + a₁·y`, `b₀ + b₁·y` with `y² = 18y − 82` -/
def mul2bn (p : Nat) (a b : Int × Int) : Int × Int :=
  ((a.1 * b.1 - 82 * (a.2 * b.2)) % (p : Int), (a.1 * b.2 + a.2 * b.1 + 18 * (a.2 * b.2)) % (p : Int))

def pow2bnAux (p : Nat) : Nat → Int × Int → Int × Int → Nat → Int × Int
  | 0, o, _, _ => o
  | f+1, o, t, e =>
    if e = 0 then o
    else pow2bnAux p f (if e % 2 = 1 then mul2bn p o t else o) (mul2bn p t t) (e / 2)

def pow2bn (p : Nat) (a : Int × Int) (e : Nat) : Int × Int := pow2bnAux p e (1, 0) a e

theorem y_sq_bn : (wbn ^ 6) ^ 2 = 18 * wbn ^ 6 - 82 := by
  have h := bn_w6_sq
  linear_combination h

noncomputable def val2bn (a : Int × Int) : K12bn := (a.1 : K12bn) + (a.2 : K12bn) * wbn ^ 6

theorem val2bn_mul2bn (a b : Int × Int) : val2bn (mul2bn bnP a b) = val2bn a * val2bn b := by
  unfold val2bn mul2bn
  simp only
  rw [← CharP.intCast_eq_intCast_mod K12bn bnP, ← CharP.intCast_eq_intCast_mod K12bn bnP]
  push_cast
  linear_combination (-(a.2 : K12bn) * (b.2 : K12bn)) * y_sq_bn

theorem pow2bnAux_spec : ∀ (f : Nat) (o t : Int × Int) (e : Nat), e < 2 ^ f →
    val2bn (pow2bnAux bnP f o t e) = val2bn o * val2bn t ^ e := by
  intro f
  induction f with
  | zero =>
    intro o t e h
    have : e = 0 := by simpa using h
    subst this
    simp [pow2bnAux]
  | succ n ih =>
    intro o t e h
    unfold pow2bnAux
    by_cases he : e = 0
    · subst he; simp
    · rw [if_neg he]
      have h2 : e / 2 < 2 ^ n := by
        rw [Nat.div_lt_iff_lt_mul (by norm_num)]; rw [pow_succ] at h; omega
      have hsplit : e = 2 * (e / 2) + e % 2 := by omega
      by_cases hodd : e % 2 = 1
      · rw [if_pos hodd, ih _ _ _ h2, val2bn_mul2bn, val2bn_mul2bn]
        conv_rhs => rw [hsplit, hodd, pow_add, pow_mul, pow_one]
        ring
      · rw [if_neg hodd, ih _ _ _ h2, val2bn_mul2bn]
        have hev : e % 2 = 0 := by omega
        conv_rhs => rw [hsplit, hev, add_zero, pow_mul]
        ring

theorem pow2bn_spec (e : Nat) : val2bn (pow2bn bnP (0, 1) e) = (wbn ^ 6) ^ e := by
  unfold pow2bn
  rw [pow2bnAux_spec e _ _ e Nat.lt_two_pow_self]
  simp [val2bn]

/-- kernel computation: `(w⁶)^((p⁶−1)/6) = −1`, and `p⁶ = 6·((p⁶−1)/6) + 1` -/
theorem w6_pow_compute_bn :
    pow2bn bnP (0, 1) ((bnP ^ 6 - 1) / 6) = ((bnP : Int) - 1, 0)
      ∧ 6 * ((bnP ^ 6 - 1) / 6) + 1 = bnP ^ 6 := by
  decide +kernel

/-- **`σ w = −w`** -/
theorem sigma_w : sigma wbn = -wbn := by
  obtain ⟨h1, h2⟩ := w6_pow_compute_bn
  have hv := pow2bn_spec ((bnP ^ 6 - 1) / 6)
  rw [h1] at hv
  have hm : val2bn ((bnP : Int) - 1, 0) = (-1 : K12bn) := by
    unfold val2bn
    simp only [Int.cast_sub, Int.cast_natCast, Int.cast_one, Int.cast_zero, zero_mul, add_zero]
    rw [CharP.cast_eq_zero K12bn bnP, zero_sub]
  rw [hm] at hv
  rw [sigma_apply, ← h2, pow_succ, pow_mul, ← hv]
  ring

theorem sigma_w_pow (n : ℕ) : sigma (wbn ^ n) = (-1) ^ n * wbn ^ n := by
  rw [map_pow, sigma_w, neg_pow]

/-- `σ` fixes the image of the twist embedding `ψ : K2bn → K12bn` -/
theorem sigma_psi (a : K2bn) : sigma (psiBn a) = psiBn a := by
  rw [sigma_apply]; exact MillerBnSem.inFp6_psi a

/-! ### the grading -/

/-- `x ∈ Fp⁶`: fixed by `σ` -/
def InFp6 (x : K12bn) : Prop := sigma x = x
/-- `x ∈ w·Fp⁶`: negated by `σ` -/
def InWFp6 (x : K12bn) : Prop := sigma x = -x

theorem even_zero : InFp6 0 := map_zero sigma
theorem even_one : InFp6 1 := map_one sigma
theorem odd_zero : InWFp6 0 := by unfold InWFp6; rw [map_zero, neg_zero]
theorem even_ofZ (c : ZMod bnP) : InFp6 (ofZbn c) := sigma_ofZ c
theorem even_natCast (n : ℕ) : InFp6 (n : K12bn) := sigma_natCast n
theorem even_psi (a : K2bn) : InFp6 (psiBn a) := sigma_psi a
theorem odd_w : InWFp6 wbn := sigma_w
theorem even_w2 : InFp6 (wbn ^ 2) := by unfold InFp6; rw [sigma_w_pow]; norm_num
theorem odd_w3 : InWFp6 (wbn ^ 3) := by unfold InWFp6; rw [sigma_w_pow]; ring

theorem InFp6.add {x y : K12bn} (hx : InFp6 x) (hy : InFp6 y) : InFp6 (x + y) := by
  unfold InFp6 at *; rw [map_add, hx, hy]
theorem InFp6.sub {x y : K12bn} (hx : InFp6 x) (hy : InFp6 y) : InFp6 (x - y) := by
  unfold InFp6 at *; rw [map_sub, hx, hy]
theorem InFp6.neg {x : K12bn} (hx : InFp6 x) : InFp6 (-x) := by
  unfold InFp6 at *; rw [map_neg, hx]
theorem InFp6.mul {x y : K12bn} (hx : InFp6 x) (hy : InFp6 y) : InFp6 (x * y) := by
  unfold InFp6 at *; rw [map_mul, hx, hy]
theorem InFp6.div {x y : K12bn} (hx : InFp6 x) (hy : InFp6 y) : InFp6 (x / y) := by
  unfold InFp6 at *; rw [map_div₀, hx, hy]
theorem InFp6.pow {x : K12bn} (hx : InFp6 x) (n : ℕ) : InFp6 (x ^ n) := by
  unfold InFp6 at *; rw [map_pow, hx]
theorem InWFp6.add {x y : K12bn} (hx : InWFp6 x) (hy : InWFp6 y) : InWFp6 (x + y) := by
  unfold InWFp6 at *; rw [map_add, hx, hy]; ring
theorem InWFp6.sub {x y : K12bn} (hx : InWFp6 x) (hy : InWFp6 y) : InWFp6 (x - y) := by
  unfold InWFp6 at *; rw [map_sub, hx, hy]; ring
theorem InWFp6.neg {x : K12bn} (hx : InWFp6 x) : InWFp6 (-x) := by
  unfold InWFp6 at *; rw [map_neg, hx]
theorem InWFp6.mul {x y : K12bn} (hx : InWFp6 x) (hy : InWFp6 y) : InFp6 (x * y) := by
  unfold InWFp6 InFp6 at *; rw [map_mul, hx, hy]; ring
theorem InWFp6.sq {x : K12bn} (hx : InWFp6 x) : InFp6 (x ^ 2) := by rw [pow_two]; exact hx.mul hx
theorem InFp6.mul_odd {x y : K12bn} (hx : InFp6 x) (hy : InWFp6 y) : InWFp6 (x * y) := by
  unfold InWFp6 InFp6 at *; rw [map_mul, hx, hy]; ring
theorem InWFp6.mul_even {x y : K12bn} (hx : InWFp6 x) (hy : InFp6 y) : InWFp6 (x * y) := by
  unfold InWFp6 InFp6 at *; rw [map_mul, hx, hy]; ring
theorem InFp6.div_odd {x y : K12bn} (hx : InFp6 x) (hy : InWFp6 y) : InWFp6 (x / y) := by
  unfold InWFp6 InFp6 at *; rw [map_div₀, hx, hy]; ring
theorem InWFp6.div_even {x y : K12bn} (hx : InWFp6 x) (hy : InFp6 y) : InWFp6 (x / y) := by
  unfold InWFp6 InFp6 at *; rw [map_div₀, hx, hy]; ring
theorem InWFp6.div {x y : K12bn} (hx : InWFp6 x) (hy : InWFp6 y) : InFp6 (x / y) := by
  unfold InWFp6 InFp6 at *; rw [map_div₀, hx, hy]; ring
/-- odd powers of an element of `w·Fp⁶` stay there (used for the Frobenius `y ↦ y^p`) -/
theorem InWFp6.pow_odd {x : K12bn} (hx : InWFp6 x) {n : ℕ} (hn : n % 2 = 1) : InWFp6 (x ^ n) := by
  unfold InWFp6 at *
  rw [map_pow, hx, neg_pow]
  have : (-1 : K12bn) ^ n = -1 := by
    have e : n = 2 * (n / 2) + 1 := by omega
    rw [e, pow_succ, pow_mul]; norm_num
  rw [this]; ring

/-- the norm to `Fp⁶` -/
theorem even_mul_sigma (x : K12bn) : InFp6 (x * sigma x) := by
  unfold InFp6; rw [map_mul, sigma_sigma, mul_comm]

/-- the sum `Fp⁶ + w·Fp⁶` is direct -/
theorem even_add_odd_eq_zero {e o : K12bn} (he : InFp6 e) (ho : InWFp6 o) (h : e + o = 0) :
    e = 0 ∧ o = 0 := by
  have h2 : e - o = 0 := by
    have := congrArg sigma h
    rw [map_add, he, ho, map_zero] at this
    linear_combination this
  have e2 : (2 : K12bn) * e = 0 := by linear_combination h + h2
  have e0 : e = 0 := (mul_eq_zero.mp e2).resolve_left MillerBnSem.k12bn_two
  refine ⟨e0, ?_⟩
  rw [e0, zero_add] at h; exact h

/-- an element of `Fp⁶ ∩ w·Fp⁶` is zero -/
theorem eq_zero_of_even_of_odd {x : K12bn} (he : InFp6 x) (ho : InWFp6 x) : x = 0 := by
  have : (2 : K12bn) * x = 0 := by
    unfold InFp6 at he; unfold InWFp6 at ho
    have := he.symm.trans ho
    linear_combination this
  exact (mul_eq_zero.mp this).resolve_left MillerBnSem.k12bn_two

/-! ### the final exponent -/

theorem pow_finalExp_of_even {x : K12bn} (h0 : x ≠ 0) (hx : InFp6 x) : x ^ bnFinalExp = 1 :=
  MillerBnSem.pow_finalExp_of_inFp6 h0 (by rw [MillerBnSem.InFp6, ← sigma_apply]; exact hx)

theorem neg_one_pow_finalExp : (-1 : K12bn) ^ bnFinalExp = 1 := by
  obtain ⟨k, hk⟩ := MillerBnSem.four_dvd_bnFinalExp
  have : bnFinalExp = 2 * (2 * k) := by rw [hk]; ring
  rw [this, pow_mul]; norm_num

theorem norm_pow_finalExp {x : K12bn} (h0 : x ≠ 0) : (x * sigma x) ^ bnFinalExp = 1 :=
  pow_finalExp_of_even (mul_ne_zero h0 (fun h => h0 (by
    have := congrArg sigma h; rwa [sigma_sigma, map_zero] at this))) (even_mul_sigma x)

end PyEcc.NegBnSem
