/-
  PyEcc.Lemmas.Swu2 — the proof that `optimized_swu_G2` (model: `optimizedSwuG2`) never takes its
  "unreachable" `raise`, and computes RFC 9380's simplified SWU map for the 3-isogenous curve of
  BLS12-381 G2.  The model values are read in the field `K2 = Fp[X]/(X²+1)` through `q`
  (`Lemmas/Swu2Field.lean`); the intermediate values are named in `Lemmas/Swu2Shape.lean`.

  Mathematics (`e = (p²−9)/16`, `p² ≡ 9 mod 16`): `γ = (u v¹⁵)^e · u v⁷` satisfies
  `γ² v = u·χ` with `χ = (u v¹⁵)^((p²−1)/8)`, an 8th root of unity when `u v ≠ 0`.
  * `χ⁴ = 1`: `χ ∈ {1, −1, i, −i}` and one of the four table roots `ρ` has `ρ²χ = 1`: success.
  * `χ⁴ = −1`: `χ ∈ {±r₂, ±r₃}` and one of the four `η ∈ ETAS` has `η²χ = Z³`: success_2.
-/
import PyEcc.Lemmas.Swu2Field
import PyEcc.Lemmas.SwuAux

set_option maxRecDepth 100000

namespace PyEcc.Swu2
open PyEcc PyEcc.Fqp PyEcc.FqpSem PyEcc.Spec PyEcc.SwuSem Gen.Consts

/-! ### generic field algebra -/
section generic
variable {F : Type*} [Field F]

/-- `γ² v = u · (u v⁷ v⁸)^(2e+1)` for `γ = (u v⁷ v⁸)^e · u v⁷` -/
theorem gamma_sq (u v : F) (e : ℕ) :
    ((u * v ^ 7 * v ^ 8) ^ e * (u * v ^ 7)) ^ 2 * v = u * (u * v ^ 7 * v ^ 8) ^ (2 * e + 1) := by
  ring

theorem chi_cases (χ : F) (h8 : χ ^ 8 = 1) : χ ^ 4 = 1 ∨ χ ^ 4 = -1 := by
  have : (χ ^ 4 - 1) * (χ ^ 4 + 1) = 0 := by linear_combination h8
  rcases mul_eq_zero.mp this with h | h
  · left; linear_combination h
  · right; linear_combination h

theorem fourth_root (I χ : F) (hI : I ^ 2 = -1) (h : χ ^ 4 = 1) :
    χ = 1 ∨ χ = -1 ∨ χ = I ∨ χ = -I := by
  have : (χ - 1) * ((χ + 1) * ((χ - I) * (χ + I))) = 0 := by
    linear_combination h - (χ ^ 2 - 1) * hI
  rcases mul_eq_zero.mp this with h | h
  · left; linear_combination h
  rcases mul_eq_zero.mp h with h | h
  · right; left; linear_combination h
  rcases mul_eq_zero.mp h with h | h
  · right; right; left; linear_combination h
  · right; right; right; linear_combination h

theorem prim_eighth (I r2 r3 χ : F) (hI : I ^ 2 = -1) (h2 : r2 ^ 2 = -I) (h3 : r3 ^ 2 = I)
    (h : χ ^ 4 = -1) : χ = r2 ∨ χ = -r2 ∨ χ = r3 ∨ χ = -r3 := by
  have : (χ - r2) * ((χ + r2) * ((χ - r3) * (χ + r3))) = 0 := by
    linear_combination h - hI - (χ ^ 2 - r3 ^ 2) * h2 - (χ ^ 2 + I) * h3
  rcases mul_eq_zero.mp this with h | h
  · left; linear_combination h
  rcases mul_eq_zero.mp h with h | h
  · right; left; linear_combination h
  rcases mul_eq_zero.mp h with h | h
  · right; right; left; linear_combination h
  · right; right; right; linear_combination h

end generic

/-! ### the constants in `K2` -/

/-- `e = (p² − 9)/16` -/
local notation "ee" => h2c_P_MINUS_9_DIV_16

theorem q_rt0 : q (rt 0) = 1 := by rw [roots_facts.1, q_one]
theorem qI_sq : q (rt 1) ^ 2 = -1 := by
  rw [← q_pow cn_rt.2.1, roots_facts.2.1, q_neg, q_one]
theorem qR2_sq : q (rt 2) ^ 2 = -q (rt 1) := by
  rw [← q_pow cn_rt.2.2.1, roots_facts.2.2.1, q_neg]
theorem qR3_sq : q (rt 3) ^ 2 = q (rt 1) := by
  rw [← q_pow cn_rt.2.2.2, roots_facts.2.2.2]

theorem qE0 : q (et 0) ^ 2 * -q (rt 3) = q ISO_3_Z ^ 3 := by
  have h := (sub_eq_zero_iff (cn_mul (cn_pow cn_et.1 2) (cn_neg cn_rt.2.2.2)) (cn_pow cn_Z 3)).mp
    etas_facts.1
  rwa [q_mul (cn_pow cn_et.1 2) (cn_neg cn_rt.2.2.2), q_pow cn_et.1, q_neg, q_pow cn_Z] at h
theorem qE1 : q (et 1) ^ 2 * q (rt 3) = q ISO_3_Z ^ 3 := by
  have h := (sub_eq_zero_iff (cn_mul (cn_pow cn_et.2.1 2) cn_rt.2.2.2) (cn_pow cn_Z 3)).mp
    etas_facts.2.1
  rwa [q_mul (cn_pow cn_et.2.1 2) cn_rt.2.2.2, q_pow cn_et.2.1, q_pow cn_Z] at h
theorem qE2 : q (et 2) ^ 2 * q (rt 2) = q ISO_3_Z ^ 3 := by
  have h := (sub_eq_zero_iff (cn_mul (cn_pow cn_et.2.2.1 2) cn_rt.2.2.1) (cn_pow cn_Z 3)).mp
    etas_facts.2.2.1
  rwa [q_mul (cn_pow cn_et.2.2.1 2) cn_rt.2.2.1, q_pow cn_et.2.2.1, q_pow cn_Z] at h
theorem qE3 : q (et 3) ^ 2 * -q (rt 2) = q ISO_3_Z ^ 3 := by
  have h := (sub_eq_zero_iff (cn_mul (cn_pow cn_et.2.2.2 2) (cn_neg cn_rt.2.2.1)) (cn_pow cn_Z 3)).mp
    etas_facts.2.2.2
  rwa [q_mul (cn_pow cn_et.2.2.2 2) (cn_neg cn_rt.2.2.1), q_pow cn_et.2.2.2, q_neg, q_pow cn_Z] at h

theorem qA_ne : q ISO_3_A ≠ 0 := mt (q_eq_zero cn_A).mp consts_ne.1
theorem qB_ne : q ISO_3_B ≠ 0 := mt (q_eq_zero cn_B).mp consts_ne.2.1
theorem qZ_ne : q ISO_3_Z ≠ 0 := mt (q_eq_zero cn_Z).mp consts_ne.2.2.1
theorem neg_one_ne_one_K2 : (-1 : K2) ≠ 1 := by
  intro h
  apply consts_ne.2.2.2.2
  apply q_inj (cn_neg cn_one) cn_one
  rw [q_neg, q_one, h]

theorem mem_roots {x : F2} : x ∈ POSITIVE_EIGHTH_ROOTS_OF_UNITY ↔ x = rt 0 ∨ x = rt 1 ∨ x = rt 2 ∨ x = rt 3 := by
  rw [roots_eq]; simp
theorem mem_etas {x : F2} : x ∈ ETAS ↔ x = et 0 ∨ x = et 1 ∨ x = et 2 ∨ x = et 3 := by
  rw [etas_eq]; simp

/-! ### `sqrt_division_FQ2` -/

theorem cn_gamma {u v : F2} (hu : Canon u) (hv : Canon v) : Canon (gammaOf u v) :=
  cn_mul (cn_pow (cn_mul (cn_mul hu (cn_pow hv 7)) (cn_pow hv 8)) _) (cn_mul hu (cn_pow hv 7))

theorem q_gamma {u v : F2} (hu : Canon u) (hv : Canon v) :
    q (gammaOf u v) = (q u * q v ^ 7 * q v ^ 8) ^ ee * (q u * q v ^ 7) := by
  unfold gammaOf
  rw [q_mul (cn_pow (cn_mul (cn_mul hu (cn_pow hv 7)) (cn_pow hv 8)) _) (cn_mul hu (cn_pow hv 7)),
    q_pow (cn_mul (cn_mul hu (cn_pow hv 7)) (cn_pow hv 8)),
    q_mul (cn_mul hu (cn_pow hv 7)) (cn_pow hv 8), q_mul hu (cn_pow hv 7), q_pow hv, q_pow hv]

/-- the 8th-root-of-unity class `χ = (u v¹⁵)^((p²−1)/8)` of `u/v` -/
noncomputable def chi (u v : F2) : K2 := (q u * q v ^ 7 * q v ^ 8) ^ (2 * ee + 1)

/-- `γ² v = u · χ` -/
theorem q_gamma_sq {u v : F2} (hu : Canon u) (hv : Canon v) :
    q (gammaOf u v) ^ 2 * q v = q u * chi u v := by
  rw [q_gamma hu hv]; exact gamma_sq _ _ _

theorem chi_pow8 {u v : F2} (hu : q u ≠ 0) (hv : q v ≠ 0) : chi u v ^ 8 = 1 := by
  unfold chi
  rw [← pow_mul, ← exp_eq]
  exact fermat_K2 _ (mul_ne_zero (mul_ne_zero hu (pow_ne_zero 7 hv)) (pow_ne_zero 8 hv))

/-- the loop test in `sqrt_division_FQ2`, read in `K2` -/
theorem rootTest_iff {u v root : F2} (hu : Canon u) (hv : Canon v) (hr : Canon root) :
    rootTest u v root = true ↔ q root ^ 2 * (q u * chi u v) = q u := by
  unfold rootTest
  rw [decide_eq_true_eq, sub_eq_zero_iff (cn_mul (cn_pow (cn_mul hr (cn_gamma hu hv)) 2) hv) hu,
    q_mul (cn_pow (cn_mul hr (cn_gamma hu hv)) 2) hv, q_pow (cn_mul hr (cn_gamma hu hv)),
    q_mul hr (cn_gamma hu hv), ← q_gamma_sq hu hv]
  constructor <;> intro h <;> rw [← h] <;> ring

/-- **`sqrt_division_FQ2(u, v)`** for reduced `u`, `v`, `v ≠ 0`: either it reports success and the
    result `r` satisfies `r² v = u`; or it reports failure, returns `γ`, and `u ≠ 0`, `χ⁴ = −1`. -/
theorem sqrt_spec {u v : F2} (hu : Canon u) (hv : Canon v) (hv0 : q v ≠ 0) :
    Canon (sqrtDivisionFq2 u v).2 ∧
    (((sqrtDivisionFq2 u v).1 = true ∧ q (sqrtDivisionFq2 u v).2 ^ 2 * q v = q u) ∨
     ((sqrtDivisionFq2 u v).1 = false ∧ (sqrtDivisionFq2 u v).2 = gammaOf u v ∧ q u ≠ 0 ∧
        chi u v ^ 4 = -1)) := by
  rw [sqrtDivisionFq2_eq]
  cases h : (firstMatch (rootTest u v) (fun root => root * gammaOf u v)
      POSITIVE_EIGHTH_ROOTS_OF_UNITY (gammaOf u v)).1
  · obtain ⟨hall, hres⟩ := firstMatch_false h
    rw [hres]
    refine ⟨cn_gamma hu hv, Or.inr ⟨rfl, rfl, ?_, ?_⟩⟩
    · intro hu0
      have := hall (rt 0) (mem_roots.mpr (Or.inl rfl))
      rw [(rootTest_iff hu hv cn_rt.1).mpr (by rw [hu0]; ring)] at this
      cases this
    · have hu0 : q u ≠ 0 := by
        intro hu0
        have := hall (rt 0) (mem_roots.mpr (Or.inl rfl))
        rw [(rootTest_iff hu hv cn_rt.1).mpr (by rw [hu0]; ring)] at this
        cases this
      rcases chi_cases _ (chi_pow8 hu0 hv0) with h4 | h4
      · exfalso
        have key : ∀ k, (k = 0 ∨ k = 1 ∨ k = 2 ∨ k = 3) → Canon (rt k) →
            q (rt k) ^ 2 * chi u v = 1 → False := by
          intro k hk hc he
          have hm : rt k ∈ POSITIVE_EIGHTH_ROOTS_OF_UNITY := by
            rw [mem_roots]; rcases hk with rfl | rfl | rfl | rfl <;> simp
          have := hall (rt k) hm
          rw [(rootTest_iff hu hv hc).mpr (by linear_combination (q u) * he)] at this
          cases this
        rcases fourth_root (q (rt 1)) (chi u v) qI_sq h4 with hc | hc | hc | hc
        · exact key 0 (by simp) cn_rt.1 (by rw [q_rt0, hc]; ring)
        · exact key 1 (by simp) cn_rt.2.1 (by rw [qI_sq, hc]; ring)
        · exact key 2 (by simp) cn_rt.2.2.1 (by rw [qR2_sq, hc]; linear_combination (-1 : K2) * qI_sq)
        · exact key 3 (by simp) cn_rt.2.2.2 (by rw [qR3_sq, hc]; linear_combination (-1 : K2) * qI_sq)
      · exact h4
  · obtain ⟨x, hx, hc, hres⟩ := firstMatch_true h
    rw [hres]
    have hcx := cn_roots x hx
    refine ⟨cn_mul hcx (cn_gamma hu hv), Or.inl ⟨rfl, ?_⟩⟩
    rw [q_mul hcx (cn_gamma hu hv), mul_pow, mul_assoc, q_gamma_sq hu hv]
    exact (rootTest_iff hu hv hcx).mp hc

/-! ### the intermediate values of `optimized_swu_G2(t)` -/

local notation "A'" => q ISO_3_A
local notation "B'" => q ISO_3_B
local notation "Z'" => q ISO_3_Z

section values
variable {t : F2} (ht : Canon t)
include ht

theorem cn_Zt2 : Canon (ISO_3_Z * t ^ 2) := cn_mul cn_Z (cn_pow ht 2)
theorem cn_T : Canon (sT t) := cn_add (cn_Zt2 ht) (cn_pow (cn_Zt2 ht) 2)
theorem cn_D : Canon (sD t) := by
  unfold sD; split
  · exact cn_mul cn_Z cn_A
  · exact cn_neg (cn_mul cn_A (cn_T ht))
theorem cn_N : Canon (sN t) := cn_mul cn_B (cn_add (cn_T ht) cn_one)
theorem cn_V : Canon (sV t) := cn_pow (cn_D ht) 3
theorem cn_U : Canon (sU t) :=
  cn_add (cn_add (cn_pow (cn_N ht) 3) (cn_mul (cn_mul cn_A (cn_N ht)) (cn_pow (cn_D ht) 2)))
    (cn_mul cn_B (cn_V ht))

theorem q_Zt2 : q (ISO_3_Z * t ^ 2) = Z' * q t ^ 2 := by rw [q_mul cn_Z (cn_pow ht 2), q_pow ht]

theorem q_T : q (sT t) = Z' * q t ^ 2 + (Z' * q t ^ 2) ^ 2 := by
  unfold sT
  rw [q_add (cn_Zt2 ht) (cn_pow (cn_Zt2 ht) 2), q_pow (cn_Zt2 ht), q_Zt2 ht]

theorem q_N : q (sN t) = B' * (Z' * q t ^ 2 + (Z' * q t ^ 2) ^ 2 + 1) := by
  unfold sN
  rw [q_mul cn_B (cn_add (cn_T ht) cn_one), q_add (cn_T ht) cn_one, q_T ht, q_one]

theorem negAT_eq_zero_iff : -(ISO_3_A * sT t) = (0 : F2) ↔ q (sT t) = 0 := by
  rw [← q_eq_zero (cn_neg (cn_mul cn_A (cn_T ht))), q_neg, q_mul cn_A (cn_T ht), neg_eq_zero,
    mul_eq_zero]
  exact ⟨fun h => h.resolve_left qA_ne, Or.inr⟩

theorem sT_eq_zero_iff : sT t = 0 ↔ q (sT t) = 0 := (q_eq_zero (cn_T ht)).symm

theorem sD_of_T_ne (h : q (sT t) ≠ 0) : sD t = -(ISO_3_A * sT t) := by
  unfold sD; rw [if_neg (mt (negAT_eq_zero_iff ht).mp h)]

theorem sD_of_T_eq (h : q (sT t) = 0) : sD t = ISO_3_Z * ISO_3_A := by
  unfold sD; rw [if_pos ((negAT_eq_zero_iff ht).mpr h)]

theorem q_D_of_T_ne (h : q (sT t) ≠ 0) :
    q (sD t) = -(A' * (Z' * q t ^ 2 + (Z' * q t ^ 2) ^ 2)) := by
  rw [sD_of_T_ne ht h, q_neg, q_mul cn_A (cn_T ht), q_T ht]

theorem q_D_of_T_eq (h : q (sT t) = 0) : q (sD t) = Z' * A' := by
  rw [sD_of_T_eq ht h, q_mul cn_Z cn_A]

omit ht in
/-- the returned denominator is never zero -/
theorem sD_ne : sD t ≠ 0 := by
  unfold sD; split
  · exact consts_ne.2.2.2.1
  · assumption

theorem q_D_ne : q (sD t) ≠ 0 := mt (q_eq_zero (cn_D ht)).mp sD_ne

theorem q_V : q (sV t) = q (sD t) ^ 3 := q_pow (cn_D ht) 3
theorem q_V_ne : q (sV t) ≠ 0 := by rw [q_V ht]; exact pow_ne_zero 3 (q_D_ne ht)

theorem q_U : q (sU t) = q (sN t) ^ 3 + A' * q (sN t) * q (sD t) ^ 2 + B' * q (sD t) ^ 3 := by
  unfold sU
  rw [q_add (cn_add (cn_pow (cn_N ht) 3) (cn_mul (cn_mul cn_A (cn_N ht)) (cn_pow (cn_D ht) 2)))
      (cn_mul cn_B (cn_V ht)),
    q_add (cn_pow (cn_N ht) 3) (cn_mul (cn_mul cn_A (cn_N ht)) (cn_pow (cn_D ht) 2)),
    q_pow (cn_N ht), q_mul (cn_mul cn_A (cn_N ht)) (cn_pow (cn_D ht) 2), q_mul cn_A (cn_N ht),
    q_pow (cn_D ht), q_mul cn_B (cn_V ht), q_V ht]

/-- `N / D` is the RFC's `x1`, exceptional case included -/
theorem N_div_D : q (sN t) / q (sD t) = sswuX1 A' B' Z' (q t) := by
  by_cases h : q (sT t) = 0
  · rw [q_D_of_T_eq ht h, q_N ht]
    rw [q_T ht] at h
    exact proj_x1_exceptional A' B' Z' (q t) h
  · rw [q_D_of_T_ne ht h, q_N ht]
    rw [q_T ht] at h
    exact proj_x1_generic A' B' Z' (q t) qA_ne h

/-- `u / v = g(x1)` -/
theorem U_div_V : q (sU t) / q (sV t) = sswuG A' B' (sswuX1 A' B' Z' (q t)) := by
  rw [← N_div_D ht, q_U ht, q_V ht]
  exact proj_g A' B' _ _ (q_D_ne ht)

theorem cn_R : Canon (sR t) := (sqrt_spec (cn_U ht) (cn_V ht) (q_V_ne ht)).1

/-- first branch: the accepted candidate is a square root of `u/v` -/
theorem sR_sq_of_ok (h : sOk t = true) : q (sR t) ^ 2 * q (sV t) = q (sU t) := by
  rcases (sqrt_spec (cn_U ht) (cn_V ht) (q_V_ne ht)).2 with ⟨_, h2⟩ | ⟨h1, _⟩
  · exact h2
  · unfold sOk at h; rw [h] at h1; cases h1

/-- second branch: the candidate is `γ`, `u ≠ 0` and the class `χ` is a primitive 8th root of unity -/
theorem sR_of_not_ok (h : sOk t = false) :
    sR t = gammaOf (sU t) (sV t) ∧ q (sU t) ≠ 0 ∧ chi (sU t) (sV t) ^ 4 = -1 := by
  rcases (sqrt_spec (cn_U ht) (cn_V ht) (q_V_ne ht)).2 with ⟨h1, _⟩ | ⟨_, h2⟩
  · unfold sOk at h; rw [h] at h1; cases h1
  · exact h2

/-- in the exceptional case the check succeeds -/
theorem sOk_of_T_eq (h : q (sT t) = 0) : sOk t = true := by
  unfold sOk sU sV sN
  rw [sD_of_T_eq ht h, (sT_eq_zero_iff ht).mpr h]
  exact exc_ok

/-- the code's first check succeeds exactly when `g(x1)` is a square in `K2` -/
theorem sOk_iff : sOk t = true ↔ IsSquare (sswuG A' B' (sswuX1 A' B' Z' (q t))) := by
  rw [← U_div_V ht]
  constructor
  · intro h
    refine ⟨q (sR t), ?_⟩
    rw [div_eq_iff (q_V_ne ht), ← sR_sq_of_ok ht h]; ring
  · rintro ⟨s, hs⟩
    cases h : sOk t
    · exfalso
      obtain ⟨_, hu0, h4⟩ := sR_of_not_ok ht h
      have hV := q_V_ne ht
      have hU : q (sU t) = s * s * q (sV t) := by rw [← hs]; field_simp
      have hs0 : s * q (sV t) ^ 8 ≠ 0 := by
        refine mul_ne_zero ?_ (pow_ne_zero 8 hV)
        rintro rfl
        apply hu0; rw [hU]; ring
      have h1 : chi (sU t) (sV t) ^ 4 = 1 := by
        unfold chi
        have : q (sU t) * q (sV t) ^ 7 * q (sV t) ^ 8 = (s * q (sV t) ^ 8) ^ 2 := by rw [hU]; ring
        rw [this, ← pow_mul, ← pow_mul, show 2 * ((2 * ee + 1) * 4) = (2 * ee + 1) * 8 by ring,
          ← exp_eq]
        exact fermat_K2 _ hs0
      rw [h1] at h4
      exact neg_one_ne_one_K2 h4.symm
    · rfl

theorem cn_C : Canon (sC t) := cn_mul (cn_R ht) (cn_pow ht 3)
theorem cn_U' : Canon (sU' t) := cn_mul (cn_pow (cn_Zt2 ht) 3) (cn_U ht)
theorem q_U' : q (sU' t) = (Z' * q t ^ 2) ^ 3 * q (sU t) := by
  unfold sU'
  rw [q_mul (cn_pow (cn_Zt2 ht) 3) (cn_U ht), q_pow (cn_Zt2 ht), q_Zt2 ht]

/-- the loop test of the `ETAS` loop, read in `K2` -/
theorem etaTest_iff {eta : F2} (he : Canon eta) :
    etaTest t eta = true ↔
      (q eta * (q (sR t) * q t ^ 3)) ^ 2 * q (sV t) = (Z' * q t ^ 2) ^ 3 * q (sU t) := by
  unfold etaTest
  rw [decide_eq_true_eq,
    sub_eq_zero_iff (cn_mul (cn_pow (cn_mul he (cn_C ht)) 2) (cn_V ht)) (cn_U' ht),
    q_mul (cn_pow (cn_mul he (cn_C ht)) 2) (cn_V ht), q_pow (cn_mul he (cn_C ht)),
    q_mul he (cn_C ht), q_U' ht]
  unfold sC
  rw [q_mul (cn_R ht) (cn_pow ht 3), q_pow ht]

/-- **the `ETAS` loop succeeds whenever `sqrt_division_FQ2` fails** -/
theorem eta_spec (h : sOk t = false) :
    (sEta t).1 = true ∧ Canon (sEta t).2 ∧
      q (sEta t).2 ^ 2 * q (sV t) = (Z' * q t ^ 2) ^ 3 * q (sU t) := by
  obtain ⟨hR, _, h4⟩ := sR_of_not_ok ht h
  have hG := q_gamma_sq (cn_U ht) (cn_V ht)
  rw [← hR] at hG
  have key : ∀ k, (k = 0 ∨ k = 1 ∨ k = 2 ∨ k = 3) → Canon (et k) →
      q (et k) ^ 2 * chi (sU t) (sV t) = Z' ^ 3 → (sEta t).1 = true := by
    intro k hk hc he
    have hm : et k ∈ ETAS := by
      rw [mem_etas]; rcases hk with rfl | rfl | rfl | rfl <;> simp
    refine firstMatch_of_mem hm ((etaTest_iff ht hc).mpr ?_)
    linear_combination (q (et k) ^ 2 * q t ^ 6) * hG + (q t ^ 6 * q (sU t)) * he
  have h1 : (sEta t).1 = true := by
    rcases prim_eighth (q (rt 1)) (q (rt 2)) (q (rt 3)) _ qI_sq qR2_sq qR3_sq h4 with hc | hc | hc | hc
    · exact key 2 (by simp) cn_et.2.2.1 (by rw [hc]; exact qE2)
    · exact key 3 (by simp) cn_et.2.2.2 (by rw [hc]; exact qE3)
    · exact key 1 (by simp) cn_et.2.1 (by rw [hc]; exact qE1)
    · exact key 0 (by simp) cn_et.1 (by rw [hc]; exact qE0)
  refine ⟨h1, ?_⟩
  obtain ⟨x, hx, hc, hres⟩ := firstMatch_true h1
  have hcx := cn_etas x hx
  have hres' : (sEta t).2 = x * sC t := hres
  rw [hres']
  refine ⟨cn_mul hcx (cn_C ht), ?_⟩
  have := (etaTest_iff ht hcx).mp hc
  rw [q_mul hcx (cn_C ht)]
  unfold sC
  rw [q_mul (cn_R ht) (cn_pow ht 3), q_pow ht]
  exact this

/-- **totality**: `success ∨ success_2` -/
theorem ok_or_ok2 : sOk t = true ∨ sOk2 t = true := by
  cases h : sOk t
  · right
    unfold sOk2
    rw [h]
    exact (eta_spec ht h).1
  · left; rfl

theorem cn_Y0 : Canon (sY0 t) := by
  unfold sY0
  cases h : sOk t
  · exact (eta_spec ht h).2.1
  · exact cn_R ht

theorem cn_Y : Canon (sY t) := by
  unfold sY; split
  · exact cn_neg (cn_Y0 ht)
  · exact cn_Y0 ht

omit ht in
theorem q_Y_sq : q (sY t) ^ 2 = q (sY0 t) ^ 2 := by
  unfold sY; split
  · rw [q_neg]; ring
  · rfl

/-- `y² · v = u` in the first branch, `= (Z t²)³ · u` in the second -/
theorem q_Y0_sq :
    q (sY0 t) ^ 2 * q (sV t) = if sOk t then q (sU t) else (Z' * q t ^ 2) ^ 3 * q (sU t) := by
  unfold sY0
  cases h : sOk t
  · simp only [Bool.false_eq_true, if_false]; exact (eta_spec ht h).2.2
  · simp only [if_true]; exact sR_sq_of_ok ht h

/-- `y² = g(x1)` resp. `g(x2)` -/
theorem q_Y0_sq' :
    q (sY0 t) ^ 2 = sswuG A' B' (if sOk t then sswuX1 A' B' Z' (q t) else sswuX2 A' B' Z' (q t)) := by
  have h := q_Y0_sq ht
  have hV := q_V_ne ht
  cases hok : sOk t
  · rw [hok] at h
    simp only [Bool.false_eq_true, if_false] at h ⊢
    have hT : q (sT t) ≠ 0 := fun h0 => by
      rw [sOk_of_T_eq ht h0] at hok; cases hok
    rw [q_T ht] at hT
    have hT' : Z' ^ 2 * q t ^ 4 + Z' * q t ^ 2 ≠ 0 := by
      intro h0; apply hT; rw [← h0]; ring
    rw [sswuG_X2 A' B' Z' (q t) qA_ne hT', ← U_div_V ht]
    field_simp
    linear_combination h
  · rw [hok] at h
    simp only [if_true] at h ⊢
    rw [← U_div_V ht, eq_div_iff hV, h]

theorem cn_N' : Canon (sN' t) := by
  unfold sN'; split
  · exact cn_N ht
  · exact cn_mul (cn_N ht) (cn_Zt2 ht)

theorem N'_div_D :
    q (sN' t) / q (sD t) = if sOk t then sswuX1 A' B' Z' (q t) else sswuX2 A' B' Z' (q t) := by
  unfold sN'
  cases sOk t
  · simp only [Bool.false_eq_true, if_false]
    rw [q_mul (cn_N ht) (cn_Zt2 ht), q_Zt2 ht, mul_div_right_comm, N_div_D ht, sswuX2]; ring
  · simp only [if_true]; exact N_div_D ht

end values

end PyEcc.Swu2
