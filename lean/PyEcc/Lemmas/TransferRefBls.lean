/-
  PyEcc.Lemmas.TransferRefBls — every generated function of the REFERENCE module `Gen.RefBls`
  (affine points `Option (F × F)`, `none` = ∞; `add`/`multiply` in the exception monad) commutes with
  operation-preserving injective coordinate maps.  (The BLS12-381 and bn128 versions of this file are textual
  copies with the curve name replaced; the two generated modules differ only in their namespace.)

  Part 1 (`OpHom`, unconditional): `mapO ψ (f x) = f (mapO ψ x)`, `mapE ψ (add p q) = add (mapO ψ p) (mapO ψ q)`;
  Boolean-valued functions return the same Boolean.
  Part 2 (`GoodHom`, conditional on a predicate `Good` closed under the operations): the same for
  `Good` inputs, and the outputs are `Good` — obtained from part 1 through the subtype of good elements.
-/
import PyEcc.Lemmas.TransferRefBase
import PyEcc.Gen.RefBls
import Mathlib.Tactic.SplitIfs

set_option linter.unusedSectionVars false
set_option linter.unusedVariables false

namespace PyEcc.Transfer.BlsRef
open PyEcc PyEcc.Transfer

variable {A B : Type}
  [Zero A] [One A] [Add A] [Sub A] [Mul A] [Neg A] [Div A] [NatCast A] [Pow A Nat] [DecidableEq A]
  [Zero B] [One B] [Add B] [Sub B] [Mul B] [Neg B] [Div B] [NatCast B] [Pow B Nat] [DecidableEq B]

/-! ### Part 1: unconditional homomorphisms -/

section ophom
variable {ψ : A → B} (h : OpHom ψ)
include h

theorem is_inf_map (p : Option (A × A)) : Gen.RefBls.is_inf (mapO ψ p) = Gen.RefBls.is_inf p := by
  simp only [Gen.RefBls.is_inf, mapO_eq_none]

theorem is_on_curve_map (p : Option (A × A)) (b : A) :
    Gen.RefBls.is_on_curve (mapO ψ p) (ψ b) = Gen.RefBls.is_on_curve p b := by
  rcases p with _ | ⟨x, y⟩
  · rfl
  · simp only [Gen.RefBls.is_on_curve, Gen.RefBls.is_inf, mapO_some, ← h.map_pow, ← h.map_sub, h.eq_iff,
      reduceCtorEq, decide_false, Bool.false_eq_true, or_self, if_false]

theorem double_map (p : Option (A × A)) :
    mapO ψ (Gen.RefBls.double p) = Gen.RefBls.double (mapO ψ p) := by
  rcases p with _ | ⟨x, y⟩
  · rfl
  · simp only [Gen.RefBls.double, Gen.RefBls.is_inf, mapO_some, reduceCtorEq, decide_false,
      Bool.false_eq_true, or_self, if_false, h.eq_zero_iff]
    split_ifs
    · rfl
    · simp only [mapO_some, h.map_sub, h.map_add, h.map_mul, h.map_neg, h.map_pow, h.map_div,
        h.map_natCast]

theorem neg_map (p : Option (A × A)) : mapO ψ (Gen.RefBls.neg p) = Gen.RefBls.neg (mapO ψ p) := by
  rcases p with _ | ⟨x, y⟩
  · rfl
  · simp only [Gen.RefBls.neg, mapO_some, reduceCtorEq, if_false, h.map_neg]

theorem add_map (p q : Option (A × A)) :
    mapE ψ (Gen.RefBls.add p q) = Gen.RefBls.add (mapO ψ p) (mapO ψ q) := by
  rcases p with _ | ⟨x1, y1⟩ <;> rcases q with _ | ⟨x2, y2⟩
  · rfl
  · simp [Gen.RefBls.add]
  · simp [Gen.RefBls.add]
  · have hd := double_map h (some (x1, y1))
    simp only [mapO_some] at hd
    simp only [Gen.RefBls.add, mapO_some, reduceCtorEq, or_self, if_false, h.eq_iff, ← hd]
    simp only [← h.map_sub, ← h.map_div, ← h.map_pow, ← h.map_neg, ← h.map_mul, ← h.map_add, h.eq_iff]
    split_ifs <;> rfl

theorem multiplyAux_map (fuel : Nat) (p : Option (A × A)) (n : Nat) :
    mapE ψ (Gen.RefBls.multiplyAux fuel p n) = Gen.RefBls.multiplyAux fuel (mapO ψ p) n := by
  induction fuel generalizing p n with
  | zero => rfl
  | succ f ih =>
    simp only [Gen.RefBls.multiplyAux]
    split_ifs
    · rfl
    · rfl
    · rw [← double_map h, ← ih]
      rcases Gen.RefBls.multiplyAux f (Gen.RefBls.double p) (n / 2) with e | r <;> rfl
    · rw [← double_map h, ← ih]
      rcases Gen.RefBls.multiplyAux f (Gen.RefBls.double p) (n / 2) with e | r
      · rfl
      · simp only [mapE_ok]
        rw [← add_map h]
        rcases Gen.RefBls.add r p with e | s <;> rfl

theorem multiply_map (p : Option (A × A)) (n : Nat) :
    mapE ψ (Gen.RefBls.multiply p n) = Gen.RefBls.multiply (mapO ψ p) n := multiplyAux_map h _ p n

end ophom

/-! ### Part 2: homomorphisms on a closed predicate -/

section goodhom
variable {Good : A → Prop} {φ : A → B} (h : GoodHom Good φ)

open GoodSub

/-- a good point, as a point over the subtype of good elements -/
def liftO (p : Option (A × A)) (g : GoodO Good p) : Option (GoodSub h × GoodSub h) :=
  match p, g with
  | none, _ => none
  | some (x, y), g => some (mk h x g.1, mk h y g.2)

theorem val_liftO (p : Option (A × A)) (g : GoodO Good p) : mapO (val h) (liftO h p g) = p := by
  rcases p with _ | ⟨x, y⟩ <;> rfl

theorem img_liftO (p : Option (A × A)) (g : GoodO Good p) :
    mapO (img h) (liftO h p g) = mapO φ p := by
  rcases p with _ | ⟨x, y⟩ <;> rfl

theorem imgO_eq (X : Option (GoodSub h × GoodSub h)) : mapO (img h) X = mapO φ (mapO (val h) X) := by
  rcases X with _ | ⟨x, y⟩ <;> rfl

theorem imgE_eq (X : Except PyErr (Option (GoodSub h × GoodSub h))) :
    mapE (img h) X = mapE φ (mapE (val h) X) := by
  rcases X with e | X
  · rfl
  · simp only [mapE_ok, imgO_eq]

theorem goodO_val (X : Option (GoodSub h × GoodSub h)) : GoodO Good (mapO (val h) X) := by
  rcases X with _ | ⟨x, y⟩
  · trivial
  · exact ⟨x.2, y.2⟩

theorem goodE_val (X : Except PyErr (Option (GoodSub h × GoodSub h))) :
    GoodE Good (mapE (val h) X) := by
  rcases X with e | X
  · trivial
  · exact goodO_val h X

include h

/-- `φ` is injective on good points -/
theorem good_mapO_inj {p q : Option (A × A)} (gp : GoodO Good p) (gq : GoodO Good q)
    (e : mapO φ p = mapO φ q) : p = q := by
  rw [← img_liftO h p gp, ← img_liftO h q gq] at e
  have := mapO_inj (opHom_img h).inj e
  rw [← val_liftO h p gp, ← val_liftO h q gq, this]

/-- `φ` is injective on good results -/
theorem good_mapE_inj {r s : Except PyErr (Option (A × A))} (gr : GoodE Good r) (gs : GoodE Good s)
    (e : mapE φ r = mapE φ s) : r = s := by
  rcases r with e₁ | p <;> rcases s with e₂ | q
  · simpa using e
  · simp at e
  · simp at e
  · simp only [mapE_ok, Except.ok.injEq] at e
    rw [good_mapO_inj h gr gs e]

/-- `is_on_curve(p, b)` gives the same answer on a good point, good `b`, and on their images -/
theorem good_is_on_curve {p : Option (A × A)} {b : A} (g : GoodO Good p) (gb : Good b) :
    Gen.RefBls.is_on_curve (mapO φ p) (φ b) = Gen.RefBls.is_on_curve p b := by
  have e1 := is_on_curve_map (opHom_img h) (liftO h p g) (mk h b gb)
  have e2 := is_on_curve_map (opHom_val h) (liftO h p g) (mk h b gb)
  rw [img_liftO] at e1
  rw [val_liftO] at e2
  exact e1.trans e2.symm

/-- `double` of a good point is good, and commutes with `φ` -/
theorem good_double {p : Option (A × A)} (g : GoodO Good p) :
    GoodO Good (Gen.RefBls.double p)
      ∧ mapO φ (Gen.RefBls.double p) = Gen.RefBls.double (mapO φ p) := by
  have e1 := double_map (opHom_img h) (liftO h p g)
  have e2 := double_map (opHom_val h) (liftO h p g)
  rw [img_liftO, imgO_eq] at e1
  rw [val_liftO] at e2
  rw [← e2]
  exact ⟨goodO_val h _, e1⟩

/-- `neg` of a good point is good, and commutes with `φ` -/
theorem good_neg {p : Option (A × A)} (g : GoodO Good p) :
    GoodO Good (Gen.RefBls.neg p) ∧ mapO φ (Gen.RefBls.neg p) = Gen.RefBls.neg (mapO φ p) := by
  have e1 := neg_map (opHom_img h) (liftO h p g)
  have e2 := neg_map (opHom_val h) (liftO h p g)
  rw [img_liftO, imgO_eq] at e1
  rw [val_liftO] at e2
  rw [← e2]
  exact ⟨goodO_val h _, e1⟩

/-- `add` of good points returns a good point (or raises), and commutes with `φ` -/
theorem good_add {p q : Option (A × A)} (gp : GoodO Good p) (gq : GoodO Good q) :
    GoodE Good (Gen.RefBls.add p q)
      ∧ mapE φ (Gen.RefBls.add p q) = Gen.RefBls.add (mapO φ p) (mapO φ q) := by
  have e1 := add_map (opHom_img h) (liftO h p gp) (liftO h q gq)
  have e2 := add_map (opHom_val h) (liftO h p gp) (liftO h q gq)
  rw [img_liftO, img_liftO, imgE_eq] at e1
  rw [val_liftO, val_liftO] at e2
  rw [← e2]
  exact ⟨goodE_val h _, e1⟩

/-- `multiply(p, n)` of a good point returns a good point (or raises), and commutes with `φ` -/
theorem good_multiply {p : Option (A × A)} (g : GoodO Good p) (n : Nat) :
    GoodE Good (Gen.RefBls.multiply p n)
      ∧ mapE φ (Gen.RefBls.multiply p n) = Gen.RefBls.multiply (mapO φ p) n := by
  have e1 := multiply_map (opHom_img h) (liftO h p g) n
  have e2 := multiply_map (opHom_val h) (liftO h p g) n
  rw [img_liftO, imgE_eq] at e1
  rw [val_liftO] at e2
  rw [← e2]
  exact ⟨goodE_val h _, e1⟩

end goodhom


end PyEcc.Transfer.BlsRef
