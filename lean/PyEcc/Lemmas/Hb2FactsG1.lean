/-
  PyEcc.Lemmas.Hb2FactsG1 — GENERATED kernel-evaluated facts about concrete points of `E(Fp)`, BLS12-381
  (`y² = x³ + 4` over `Fq blsP`), used to determine `#E(Fp)` (HB2): for each prime `q ∣ (x−1)/3` a point `T` of
  order `q` whose image under `φ(x, y) = (ω·x, y)` is none of `T`, `l₁·T`, `l₂·T` (`1, l₁, l₂` the cube roots of
  unity mod `q`), and the point `(0, 2)` of order 3.  Every fact is one run of the generated
  `optimized_bls12_381` curve code (`decide +kernel`).  Points found by tools (Python), checked here.
-/
import PyEcc.Sem.TransferFq

set_option maxRecDepth 100000

namespace PyEcc.Hb2
open PyEcc PyEcc.Gen PyEcc.Gen.Consts

/-- a primitive cube root of unity `ω` of `Fp` -/
def w1 : F1 := Fq.ofInt 793479390729215512621379701633421447060886740281060493010456487427281649075476305620758731620350
/-- `c = ω²`, so `c² = ω`, `c³ = 1` -/
def c1 : F1 := Fq.ofInt 4002409555221667392624310435006688643935503118305586438271171395842971157480381377015405980053539358417135540939436

theorem c1_facts : c1 ^ 3 = 1 ∧ w1 = c1 ^ 2 ∧ w1 ≠ 1 := by decide +kernel

/-- `φ` on projective triples: `(X, Y, Z) ↦ (ω·X, Y, Z)` -/
def phiT1 (T : G1Pt) : G1Pt := (T.1 * w1, T.2.1, T.2.2)

/-- what is checked for a point `T` and a prime `q` -/
def SqFacts1 (T : G1Pt) (q l₁ l₂ : ℕ) : Prop :=
  OptBls.is_on_curve T blsB = true ∧ OptBls.is_inf T = false ∧ OptBls.is_inf (OptBls.multiply T q) = true
    ∧ OptBls.eq (phiT1 T) T = false ∧ OptBls.eq (phiT1 T) (OptBls.multiply T l₁) = false
    ∧ OptBls.eq (phiT1 T) (OptBls.multiply T l₂) = false

instance (T : G1Pt) (q l₁ l₂ : ℕ) : Decidable (SqFacts1 T q l₁ l₂) := by unfold SqFacts1; infer_instance

/-- a point of order 11 of `E(Fp)` -/
def pt1_11 : G1Pt := (Fq.ofInt 1880092613078254901554314637071807298501192510548101685248408026758621339445389592447672036000887926226179839848765, Fq.ofInt 3199385561845243906588830362398429408332191203077241614977140793933236640941599752120082602515734886574695101003123, Fq.ofInt 1)
theorem pt1_11_facts : SqFacts1 pt1_11 11 1 1 := by decide +kernel

/-- a point of order 10177 of `E(Fp)` -/
def pt1_10177 : G1Pt := (Fq.ofInt 1770745533214886165640744438057185521936160528278553111528799680695897592153511759187432629868083531207425005977343, Fq.ofInt 2508813107709975910808262854054760173958187120185002561500718477061230941986598541909876815888759449135506022623347, Fq.ofInt 1)
theorem pt1_10177_facts : SqFacts1 pt1_10177 10177 4773 5403 := by decide +kernel

/-- a point of order 859267 of `E(Fp)` -/
def pt1_859267 : G1Pt := (Fq.ofInt 1470991693666260937710049718535252104088060286115220365075090045816977257671154965529300717210485936434946839533997, Fq.ofInt 2367169187199292647820359714733537291792712667455597017927114056938109931027033707975630787218438055672319279809041, Fq.ofInt 1)
theorem pt1_859267_facts : SqFacts1 pt1_859267 859267 119571 739695 := by decide +kernel

/-- a point of order 52437899 of `E(Fp)` -/
def pt1_52437899 : G1Pt := (Fq.ofInt 3947042490920602143471520462354080206970258278759706934844037497905960548566167558019334335880988589802668294292295, Fq.ofInt 3167879832527281042508603053085619668352119816637397761169382748679537552329232690643814598590367296081911840179199, Fq.ofInt 1)
theorem pt1_52437899_facts : SqFacts1 pt1_52437899 52437899 1 1 := by decide +kernel

/-- the point `(0, 2)` of order 3 -/
def pt1_3 : G1Pt := (Fq.ofInt 0, Fq.ofInt 2, Fq.ofInt 1)
theorem pt1_3_facts : OptBls.is_on_curve pt1_3 blsB = true ∧ OptBls.is_inf pt1_3 = false
    ∧ OptBls.is_inf (OptBls.multiply pt1_3 3) = true := by decide +kernel

end PyEcc.Hb2
