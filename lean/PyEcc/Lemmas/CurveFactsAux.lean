/-
  PyEcc.Lemmas.CurveFactsAux — helpers for `Props/C07_Facts*.lean`: reading the regenerated point
  constants (`Gen.Consts.*_G1 : List (List Int)`) as typed points, the cubic-residue criterion
  "`x³ + b = 0` has no root in `ZMod p`", and "no root ⇒ no point of order two".
-/
import PyEcc.Lemmas.CurveAux
import PyEcc.Sem.Pratt
import PyEcc.Model.Fqp
import Mathlib.FieldTheory.Finite.Basic

namespace PyEcc.CurveSem
open WeierstrassCurve

/-- a regenerated `FQ` point constant `[[x], [y]]` as a reference-representation point over `F` -/
def ptRef (F : Type) [IntCast F] (g : List (List Int)) : Option (F × F) :=
  some (((getI (g.getD 0 []) 0 : Int) : F), ((getI (g.getD 1 []) 0 : Int) : F))

/-- a regenerated `FQ` point constant `[[x], [y], [z]]` as an optimized-representation triple over `F` -/
def ptOpt (F : Type) [IntCast F] (g : List (List Int)) : F × F × F :=
  (((getI (g.getD 0 []) 0 : Int) : F), ((getI (g.getD 1 []) 0 : Int) : F), ((getI (g.getD 2 []) 0 : Int) : F))

/-- a regenerated `FQ2` point constant `[x, y]` (coefficient lists) as a reference-representation point
    over the executable model type `Fqp v p mc` -/
def ptRef2 (v : Variant) (p : Nat) (mc : List Int) (g : List (List Int)) : Option (Fqp v p mc × Fqp v p mc) :=
  some (⟨g.getD 0 []⟩, ⟨g.getD 1 []⟩)

/-- a regenerated `FQ2` point constant `[x, y, z]` as an optimized-representation triple over `Fqp v p mc` -/
def ptOpt2 (v : Variant) (p : Nat) (mc : List Int) (g : List (List Int)) : Fqp v p mc × Fqp v p mc × Fqp v p mc :=
  (⟨g.getD 0 []⟩, ⟨g.getD 1 []⟩, ⟨g.getD 2 []⟩)

/-- cubic-residue criterion: if `3 ∣ p - 1` and `(-b)^((p-1)/3) ≠ 1` (computed by `Pratt.powMod`)
    then `x³ + b = 0` has no solution in `ZMod p`. -/
theorem no_cube_root {p : ℕ} [hp : Fact p.Prime] (b : ℕ) (h3 : 3 ∣ p - 1) (hbp : b ≤ p)
    (hb : (b : ZMod p) ≠ 0)
    (hpow : Pratt.powMod (p - b) ((p - 1) / 3) p % p ≠ 1) : ∀ x : ZMod p, x ^ 3 + (b : ZMod p) ≠ 0 := by
  intro x hx
  have hx3 : x ^ 3 = -(b : ZMod p) := by linear_combination hx
  have hx0 : x ≠ 0 := by
    rintro rfl
    apply hb
    have : (b : ZMod p) = -((0 : ZMod p) ^ 3) := by rw [hx3]; ring
    rw [this]; simp
  have hcast : (((p - b : ℕ)) : ZMod p) = -(b : ZMod p) := by
    rw [Nat.cast_sub hbp, ZMod.natCast_self, zero_sub]
  have h1 : (-(b : ZMod p)) ^ ((p - 1) / 3) = 1 := by
    rw [← hx3, ← pow_mul, Nat.mul_div_cancel' h3]
    exact ZMod.pow_card_sub_one_eq_one hx0
  apply hpow
  have h1p : 1 % p = 1 := Nat.mod_eq_of_lt hp.out.one_lt
  have := (ZMod.natCast_eq_natCast_iff' (Pratt.powMod (p - b) ((p - 1) / 3) p) 1 p).mp (by
    rw [Pratt.powMod_cast, hcast, h1, Nat.cast_one])
  rw [h1p] at this
  exact this

variable {F : Type} [Field F] [DecidableEq F]

/-- if `x³ + b` has no root then no curve point has `y = 0`, hence the only `P` with `P + P = 0` is `0` -/
theorem no_two_torsion {b : F} (h2 : (2 : F) ≠ 0) (hno : ∀ x : F, x ^ 3 + b ≠ 0)
    (P : (W b).Point) (h2P : P + P = 0) : P = 0 := by
  rcases P with _ | ⟨x, y, hxy⟩
  · rfl
  · exfalso
    have hneg : Affine.Point.some x y hxy = -Affine.Point.some x y hxy :=
      eq_neg_of_add_eq_zero_left h2P
    rw [Affine.Point.neg_some] at hneg
    have hy : y = (W b).negY x y := ((Affine.Point.some.injEq ..).mp hneg).2
    rw [negY_W] at hy
    have hy0 : y = 0 := by
      have : 2 * y = 0 := by linear_combination hy
      rcases mul_eq_zero.mp this with h | h
      · exact absurd h h2
      · exact h
    have e := (equation_W_iff b x y).mp hxy.1
    apply hno x
    rw [hy0] at e
    linear_combination -e

end PyEcc.CurveSem
