/-
  PyEcc.Lemmas.NdFromOrder — non-degeneracy (ND) of a bilinear map FOLLOWS from one non-trivial value
  (pure algebra, no elliptic curves).

  Setting: additive commutative groups `G1`, `G2`, a commutative group `GT`, a prime `r`, a map
  `e : G2 → G1 → GT` that is additive in each argument on `r`-torsion points (`IsBilinear r e`), a point
  `g2` generating the `r`-torsion of `G2` (every `Q` with `r • Q = 0` is `k • g2`), an `r`-torsion point
  `g1`.  If `e g2 g1 ≠ 1` then `e · g1` is injective on the `r`-torsion of `G2`:

      `r • Q = 0 → e Q g1 = 1 → Q = 0`                                     (`nondeg_of_generator`)

  Proof: `Q = k • g2`, so `1 = e Q g1 = (e g2 g1)^k`; also `(e g2 g1)^r = e (r • g2) g1 = e 0 g1 = 1`, so
  the order of `e g2 g1` divides the prime `r` and is not `1`: it is `r`, hence `r ∣ k` and `Q = k • g2 = 0`.
-/
import PyEcc.Lemmas.BlsAbstract
import Mathlib.Data.ZMod.Basic

namespace PyEcc.NdSem

variable {G1 G2 GT : Type*} [AddCommGroup G1] [AddCommGroup G2] [CommGroup GT]

/-- **Bilinearity on the `r`-torsion** (HB1, abstract form): `e` is additive in each argument as soon as
    all points involved are killed by `r`.  This is `BlsAbs.IsPairing` WITHOUT its field `nondeg`. -/
structure IsBilinear (r : ℕ) (e : G2 → G1 → GT) : Prop where
  add_left : ∀ {Q Q' : G2} {P : G1}, r • Q = 0 → r • Q' = 0 → r • P = 0 →
    e (Q + Q') P = e Q P * e Q' P
  add_right : ∀ {Q : G2} {P P' : G1}, r • Q = 0 → r • P = 0 → r • P' = 0 →
    e Q (P + P') = e Q P * e Q P'

section
variable {r : ℕ} {e : G2 → G1 → GT} (he : IsBilinear r e)
include he

theorem IsBilinear.zero_left {P : G1} (hP : r • P = 0) : e 0 P = 1 := by
  have h := he.add_left (Q := 0) (Q' := 0) (P := P) (smul_zero r) (smul_zero r) hP
  rw [add_zero] at h
  exact (mul_eq_left (a := e 0 P)).mp h.symm

theorem IsBilinear.nsmul_left {Q : G2} {P : G1} (hQ : r • Q = 0) (hP : r • P = 0) (n : ℕ) :
    e (n • Q) P = e Q P ^ n := by
  induction n with
  | zero => rw [zero_smul, pow_zero]; exact he.zero_left hP
  | succ n ih =>
    rw [succ_nsmul, he.add_left (by rw [smul_comm, hQ, smul_zero]) hQ hP, ih, pow_succ]

/-- the value at two `r`-torsion points is an `r`-th root of unity -/
theorem IsBilinear.pow_r {Q : G2} {P : G1} (hQ : r • Q = 0) (hP : r • P = 0) : e Q P ^ r = 1 := by
  rw [← he.nsmul_left hQ hP, hQ, he.zero_left hP]

/-- a value `≠ 1` at two `r`-torsion points has order exactly `r` (`r` prime) -/
theorem IsBilinear.orderOf_eq (hr : r.Prime) {Q : G2} {P : G1} (hQ : r • Q = 0) (hP : r • P = 0)
    (hne : e Q P ≠ 1) : orderOf (e Q P) = r := by
  have hd : orderOf (e Q P) ∣ r := orderOf_dvd_of_pow_eq_one (he.pow_r hQ hP)
  rcases (Nat.dvd_prime hr).mp hd with h1 | h
  · exact (hne (orderOf_eq_one_iff.mp h1)).elim
  · exact h

/-- **ND from one non-trivial value.**  Let `r` be prime, `e` bilinear on the `r`-torsion, `g2` a generator
    of the `r`-torsion of `G2`, `g1` an `r`-torsion point of `G1` with `e g2 g1 ≠ 1`.  Then an `r`-torsion
    point `Q` with `e Q g1 = 1` is `0`. -/
theorem nondeg_of_generator (hr : r.Prime) {g2 : G2} {g1 : G1} (hg2 : r • g2 = 0) (hg1 : r • g1 = 0)
    (hgen : ∀ Q : G2, r • Q = 0 → ∃ k : ℕ, Q = k • g2) (hne : e g2 g1 ≠ 1)
    {Q : G2} (hQ : r • Q = 0) (h1 : e Q g1 = 1) : Q = 0 := by
  obtain ⟨k, rfl⟩ := hgen Q hQ
  rw [he.nsmul_left hg2 hg1] at h1
  have hd : r ∣ k := by
    rw [← he.orderOf_eq hr hg2 hg1 hne]
    exact orderOf_dvd_of_pow_eq_one h1
  obtain ⟨c, rfl⟩ := hd
  rw [mul_comm, mul_smul, hg2, smul_zero]

/-- the abstract pairing bundle (HB1 + ND) from bilinearity and one non-trivial value at generators -/
theorem isPairing_of_generator (hr : r.Prime) {g2 : G2} {g1 : G1} (hg2 : r • g2 = 0) (hg1 : r • g1 = 0)
    (hgen : ∀ Q : G2, r • Q = 0 → ∃ k : ℕ, Q = k • g2) (hne : e g2 g1 ≠ 1) :
    BlsAbs.IsPairing r e g1 where
  add_left := he.add_left
  add_right := he.add_right
  nondeg := fun hQ h1 => nondeg_of_generator he hr hg2 hg1 hgen hne hQ h1

end

/-- non-vacuity: on `ZMod 5` (additive) with values in `Multiplicative (ZMod 5)`, `e a b = a * b` is
    bilinear, `1` generates, and `e 1 1 ≠ 1` -/
example : IsBilinear 5 (fun a b : ZMod 5 => Multiplicative.ofAdd (a * b)) ∧
    (5 : ℕ) • (1 : ZMod 5) = 0 ∧ (∀ Q : ZMod 5, 5 • Q = 0 → ∃ k : ℕ, Q = k • (1 : ZMod 5)) ∧
    Multiplicative.ofAdd ((1 : ZMod 5) * 1) ≠ 1 := by
  refine ⟨⟨?_, ?_⟩, by decide, ?_, by decide⟩
  · intro Q Q' P _ _ _; rw [add_mul]; rfl
  · intro Q P P' _ _ _; rw [mul_add]; rfl
  · intro Q _; exact ⟨Q.val, by rw [nsmul_eq_mul, mul_one, ZMod.natCast_zmod_val]⟩

end PyEcc.NdSem
