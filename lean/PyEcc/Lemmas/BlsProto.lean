/-
  PyEcc.Lemmas.BlsProto — the bridge between the executable BLS model (`Model/Bls.lean`) and the
  abstract protocol (`Lemmas/BlsAbstract.lean`), for single signatures:

    * the hypothesis bundle `PairingFacts` (HB1 bilinearity, ND non-degeneracy, HB1′ "the model's
      Miller-loop value after final exponentiation IS that pairing, whatever the representative",
      HT6 "`hash_to_G2` lands in the `r`-torsion of the twist curve");
    * the generator point `g1`, honest keys (`skToPk`) and honest signatures (`coreSign`) read
      semantically;
    * `coreVerify_iff`: `_CoreVerify` accepts `cand` iff `cand` is THE encoding of `sk • H(m)`.

  Everything except `PairingFacts` is proved from C04, C09, C11, C17 and the transfer layer.
-/
import PyEcc.Lemmas.BlsProtoCodec
import PyEcc.Lemmas.BlsAbstract
import PyEcc.Props.C01_Logic
import PyEcc.Sem.Primes

set_option linter.unusedSectionVars false
set_option maxRecDepth 100000

namespace PyEcc.BlsProto
open PyEcc PyEcc.Gen PyEcc.Gen.Consts PyEcc.FqpSem PyEcc.Transfer PyEcc.BlsSem

/-! ## the generator -/

theorem exists_g1 : ∃ g : E1, Represents blsG1 g := (on_curve_iff_F1 blsG1).mp C17M.blsG1_passes.1

/-- the Mathlib point represented by the model's generator constant `G1` -/
noncomputable def g1 : E1 := Classical.choose exists_g1

theorem g1_rep : Represents blsG1 g1 := Classical.choose_spec exists_g1

/-- any point represented by `G1` is `g1` -/
theorem eq_g1 {g : E1} (h : Represents blsG1 g) : g = g1 := C07Opt.Bls.represents_unique h g1_rep

theorem g1_torsion : blsR • g1 = 0 := (C17M.subgroupCheck_G1_iff g1_rep).mp C17M.blsG1_passes.2

theorem g1_ne_zero : g1 ≠ 0 := by
  intro h0
  have := (opt_is_inf_refines_F1 g1_rep).mpr h0
  rw [C07.Facts.bls_G1_model.2.1] at this
  cases this

theorem prime_r : blsR.Prime := by
  have h := prime_blsR
  rwa [show bls12_381_curve_order = blsR from by decide] at h

theorem r_ne_two : blsR ≠ 2 := by decide

/-- a secret key `0 < k < r` gives a non-identity public key -/
theorem nsmul_g1_ne_zero {k : ℕ} (h0 : 0 < k) (hk : k < blsR) : k • g1 ≠ 0 := by
  intro h
  have h' : k • g1 = 0 • g1 := by rw [h, zero_smul]
  have := (BlsAbs.nsmul_eq_nsmul_iff prime_r g1_torsion g1_ne_zero k 0).mp h'
  have hd : blsR ∣ k := (Nat.modEq_zero_iff_dvd).mp this
  exact absurd (Nat.le_of_dvd h0 hd) (by omega)

theorem nsmul_torsion {G : Type*} [AddCommGroup G] {x : G} (h : blsR • x = 0) (k : ℕ) :
    blsR • (k • x) = 0 := by rw [smul_comm, h, smul_zero]

/-! ## the hypothesis bundle -/

/-- one `pairing(Q, P)` call with its (un-exponentiated) Miller value `m`, together with the Mathlib
    points `q`, `p` the arguments stand for -/
structure Arg where
  Q : G2Pt
  P : G1Pt
  q : E2
  p : E1
  m : OBls12

/-- the call is one the verification code can make: `Q` is a canonical triple representing `q`, `P`
    represents `p`, both points lie in the `r`-torsion, and `pairing(Q, P, final_exponentiate=False)`
    returned `m` -/
def Arg.Good [DecidableEq K2] (a : Arg) : Prop :=
  RepG2 a.Q a.q ∧ Represents a.P a.p ∧ blsR • a.q = 0 ∧ blsR • a.p = 0 ∧
    pairingOptBls a.Q a.P false = .ok a.m

/-- the product of Miller values in the order the code forms it: `((m₁ * m₂) * m₃) * …` -/
def mprod : List OBls12 → OBls12
  | [] => 1
  | m :: ms => ms.foldl (· * ·) m

/-- **`PairingFacts e`: what is ASSUMED about the pairing** (a hypothesis of the C01–C03 headline
    theorems, never an axiom).  `e : E2 → E1 → GT` is "the reduced pairing" on Mathlib's point groups,
    with values in any commutative group `GT` (think: the `r`-th roots of unity of `F_{p¹²}`).  In plain
    words:

    * `add_left`, `add_right` — **HB1, bilinearity**: on points of the `r`-torsion, `e` is additive in
      each argument (needs divisors / Weil reciprocity; not available in Mathlib).
    * `nondeg` — **ND, non-degeneracy against the generator**: an `r`-torsion point `q` of the twist
      curve with `e q g1 = 1` is `0` (`g1` = the point represented by the constant `G1`).
    * `miller` — **HB1′, the model computes this pairing**: for every non-empty list of pairing calls on
      canonical, on-curve, `r`-torsion arguments, the final exponentiation of the product of the
      model's Miller-loop values is `1` exactly when the product of the `e`-values of the REPRESENTED
      points is `1`.  This says at once that the final-exponentiated Miller value depends only on the
      points (not on the projective representatives) and is multiplicative.
    * `hash_good` — **HT6**: whatever `hash_to_G2` returns is a canonical triple on the twist curve that
      passes `subgroup_check` (planned theorem of C10 stage 3 + cofactor clearing; with C17 it says the
      hash point lies in the `r`-torsion).

    Nothing else is assumed: group orders (HB2) are NOT needed because ND is stated on the whole
    `r`-torsion and public keys are multiples of `g1` by construction. -/
structure PairingFacts [DecidableEq K2] {GT : Type} [CommGroup GT] (e : E2 → E1 → GT) : Prop where
  add_left : ∀ {q q' : E2} {p : E1}, blsR • q = 0 → blsR • q' = 0 → blsR • p = 0 →
    e (q + q') p = e q p * e q' p
  add_right : ∀ {q : E2} {p p' : E1}, blsR • q = 0 → blsR • p = 0 → blsR • p' = 0 →
    e q (p + p') = e q p * e q p'
  nondeg : ∀ {g : E1}, Represents blsG1 g → ∀ {q : E2}, blsR • q = 0 → e q g = 1 → q = 0
  miller : ∀ l : List Arg, l ≠ [] → (∀ a ∈ l, a.Good) →
    (finalExponentiateOptBls (mprod (l.map Arg.m)) = (1 : OBls12) ↔
      (l.map fun a => e a.q a.p).prod = 1)
  hash_good : ∀ (H : HashFn) (msg dst : Bytes) (mp : G2Pt), hashToG2 H msg dst = .ok mp →
    CanonT mp ∧ OptBls.is_on_curve mp blsB2 = true ∧ subgroupCheck mp = true

section
variable [DecidableEq K2] {GT : Type} [CommGroup GT] {e : E2 → E1 → GT}

/-- the abstract pairing hypotheses, at the generator `g1` -/
theorem PairingFacts.isPairing (pf : PairingFacts e) : BlsAbs.IsPairing blsR e g1 where
  add_left := pf.add_left
  add_right := pf.add_right
  nondeg := pf.nondeg g1_rep

/-- HT6 read semantically: the hash point represents an `r`-torsion point of the twist curve -/
theorem PairingFacts.hash_rep (pf : PairingFacts e) {H : HashFn} {msg dst : Bytes} {mp : G2Pt}
    (h : hashToG2 H msg dst = .ok mp) : ∃ hq : E2, RepG2 mp hq ∧ blsR • hq = 0 := by
  obtain ⟨c, hon, hs⟩ := pf.hash_good H msg dst mp h
  obtain ⟨hq, r⟩ := repG2_of_on_curve c hon
  exact ⟨hq, r, (C17M.subgroupCheck_G2_iff r.1 r.2).mp hs⟩

/-! ## what HT6 reduces to -/

/-- **HT6 decomposed.**  The `hash_good` field of `PairingFacts` follows from two smaller statements:
    (i) `map_to_curve_G2` (SWU + 3-isogeny), on every field element `a + b·i` with `0 ≤ a, b < p`, returns —
        when it returns — a well-formed triple on the twist curve (C10 stage 3, planned theorem);
    (ii) `h₂ · r` kills every point of `E'(F_{p²})` (HB2, the group order; needs point counting).
    Proof: `hash_to_field` only produces reduced coordinates (C04), `add` and `clear_cofactor_G2 = h_eff •`
    refine Mathlib's group law on canonical triples (C07/C13/C17 transfer), and `h₂ ∣ h_eff` (C17). -/
theorem hash_good_of_map_and_order
    (hmap : ∀ a b : ℕ, a < blsP → b < blsP → ∀ q : G2Pt,
      mapToCurveG2 (f2c [(a : ℤ), (b : ℤ)]) = .ok q → CanonT q ∧ OptBls.is_on_curve q blsB2 = true)
    (hord : ∀ P : E2, (blsconst_G2_COFACTOR * blsR) • P = 0)
    (H : HashFn) (msg dst : Bytes) (mp : G2Pt) (h : hashToG2 H msg dst = .ok mp) :
    CanonT mp ∧ OptBls.is_on_curve mp blsB2 = true ∧ subgroupCheck mp = true := by
  unfold hashToG2 at h
  obtain ⟨us, hus, h2⟩ := bind_ok h
  have hr := hashToFieldFq2_ok_range hus
  split at h2
  · next u0 u1 =>
    obtain ⟨q0, hq0, h3⟩ := bind_ok h2
    obtain ⟨q1, hq1, h4⟩ := bind_ok h3
    have e : mp = clearCofactorG2 (OptBls.add q0 q1) := (Except.ok.inj h4).symm
    have r0 := hr u0 (by simp)
    have r1 := hr u1 (by simp)
    obtain ⟨c0, on0⟩ := hmap u0.1 u0.2 r0.1 r0.2 q0 hq0
    obtain ⟨c1, on1⟩ := hmap u1.1 u1.2 r1.1 r1.2 q1 hq1
    obtain ⟨p0, rp0⟩ := repG2_of_on_curve c0 on0
    obtain ⟨p1, rp1⟩ := repG2_of_on_curve c1 on1
    have ca := (canonT_ops c0 c1 0).1
    have ra := opt_add_refines_F2 c0 c1 rp0.2 rp1.2
    obtain ⟨cc, rc⟩ := C17M.clearCofactorG2_refines ca ra
    rw [e]
    exact ⟨cc, (on_curve_iff_F2 cc).mpr ⟨_, rc⟩, C17M.subgroupCheck_G2_cleared ca ra (hord _)⟩
  · cases h2

/-! ## pairing calls return on represented arguments -/

theorem pairing_ok {Q : G2Pt} {P : G1Pt} {q : E2} {p : E1} (rq : RepG2 Q q) (rp : Represents P p) :
    ∃ m, pairingOptBls Q P false = .ok m :=
  pairingOptBls_ok_of_on_curve rq.on_curve (C07Opt.Bls.opt_on_curve_of_represents rp)

/-! ## honest keys and signatures, semantically -/

/-- `SkToPk` on a valid key returns THE encoding of `k • g1` -/
theorem skToPk_enc {sk : PyArg} {k : ℕ} (h : isValidPrivkey sk = some k) (pk : Bytes) :
    skToPk sk = .ok pk ↔ EncG1 pk (k • g1) := by
  have hr := opt_multiply_refines_F1 g1_rep k
  obtain ⟨bs, hbs, henc⟩ := encG1_of_rep hr (nsmul_torsion g1_torsion k)
  have e : skToPk sk = g1ToPubkey (OptBls.multiply blsG1 k) := by simp only [skToPk, h]
  rw [e, hbs]
  constructor
  · intro hh; cases hh; exact henc
  · intro hh; rw [henc.bytes_unique hh]

theorem validPrivkey_range {sk : PyArg} {k : ℕ} (h : isValidPrivkey sk = some k) :
    0 < k ∧ k < blsR := by
  cases sk with
  | other => cases h
  | int z =>
    obtain ⟨h1, h2, h3⟩ := (C01.isValidPrivkey_int_iff z k).mp h
    rw [C01.curveOrder_eq.2.2] at h2
    omega

/-- `SkToPk` never fails on a valid key -/
theorem skToPk_ok {sk : PyArg} {k : ℕ} (h : isValidPrivkey sk = some k) :
    ∃ pk, skToPk sk = .ok pk ∧ EncG1 pk (k • g1) := by
  obtain ⟨bs, hbs, henc⟩ := encG1_of_rep (opt_multiply_refines_F1 g1_rep k) (nsmul_torsion g1_torsion k)
  exact ⟨bs, (skToPk_enc h bs).mpr henc, henc⟩

/-- `_CoreSign` on a valid key, once `hash_to_G2` has returned a representative of `hq`, returns THE
    encoding of `k • hq` -/
theorem coreSign_enc {H : HashFn} {sk : PyArg} {k : ℕ} (h : isValidPrivkey sk = some k)
    {msg dst : Bytes} {mp : G2Pt} {hq : E2} (hmp : hashToG2 H msg dst = .ok mp) (rh : RepG2 mp hq)
    (sig : Bytes) : coreSign H sk msg dst = .ok sig ↔ EncG2 sig (k • hq) := by
  have e : coreSign H sk msg dst = g2ToSignature (OptBls.multiply mp k) := by
    simp only [coreSign, h, hmp, bind, Except.bind]
  rw [e]
  exact g2ToSignature_eq_iff ⟨(canonT_ops rh.1 rh.1 k).2.2.2.1, opt_multiply_refines_F2 rh.1 rh.2 k⟩ sig

/-- if `hash_to_G2` raises, so does `_CoreSign` -/
theorem coreSign_hash_error {H : HashFn} {sk : PyArg} {k : ℕ} (h : isValidPrivkey sk = some k)
    {msg dst : Bytes} {err : PyErr} (hmp : hashToG2 H msg dst = .error err) :
    coreSign H sk msg dst = .error err := by
  simp only [coreSign, h, hmp, bind, Except.bind]

/-! ## `_CoreVerify` -/

/-- **`_CoreVerify` accepts exactly the encoding of `k • H(m)`**, semantic form.  For the public key of a
    valid secret key `k`, once `hash_to_G2(msg, dst)` returned a representative of `hq`:
    `_CoreVerify(pk, msg, cand, dst)` is `True` iff `cand` is the encoding of the point `k • hq`. -/
theorem coreVerify_iff_enc (pf : PairingFacts e) {H : HashFn} {s : Suite} {k : ℕ} (h0 : 0 < k)
    (hk : k < blsR) {pk : Bytes} (hpk : EncG1 pk (k • g1)) {msg dst : Bytes} {mp : G2Pt} {hq : E2}
    (hmp : hashToG2 H msg dst = .ok mp) (rh : RepG2 mp hq) (hh : blsR • hq = 0) (cand : Bytes) :
    coreVerify H s pk msg cand dst = .returned true ↔ EncG2 cand (k • hq) := by
  have hpair := pf.isPairing
  have hkg : blsR • (k • g1) = 0 := nsmul_torsion g1_torsion k
  rw [coreVerify_true_iff]
  constructor
  · rintro ⟨P, S, mp', e1, e2, hP, hS, hmp', he1, he2, hfe⟩
    rw [hmp] at hmp'
    cases hmp'
    obtain ⟨p, rp, encp, _, _⟩ := canonPk_enc hP
    have : p = k • g1 := encp.point_unique hpk
    subst this
    obtain ⟨q, rq, encq, hq0⟩ := canonSig_enc hS
    have hm := pf.miller [⟨S, blsG1, q, g1, e1⟩, ⟨mp, OptBls.neg P, hq, -(k • g1), e2⟩] (by simp)
      (by
        intro a ha
        simp only [List.mem_cons, List.not_mem_nil, or_false] at ha
        rcases ha with rfl | rfl
        · exact ⟨rq, g1_rep, hq0, g1_torsion, he1⟩
        · exact ⟨rh, opt_neg_refines_F1 rp, hh, by rw [smul_neg, hkg, neg_zero], he2⟩)
    simp only [List.map_cons, List.map_nil, mprod, List.foldl_cons, List.foldl_nil, List.prod_cons,
      List.prod_nil, mul_one] at hm
    have := (BlsAbs.core_verify_iff hpair g1_torsion hq0 hh k).mp (hm.mp hfe)
    rw [← this]
    exact encq
  · intro henc
    obtain ⟨S, hS, rq⟩ := canonSig_of_enc henc (nsmul_torsion hh k)
    obtain ⟨P, hP, rp⟩ := canonPk_of_enc hpk (nsmul_g1_ne_zero h0 hk) hkg
    obtain ⟨e1, he1⟩ := pairing_ok rq g1_rep
    obtain ⟨e2, he2⟩ := pairing_ok rh (opt_neg_refines_F1 rp)
    refine ⟨P, S, mp, e1, e2, hP, hS, hmp, he1, he2, ?_⟩
    have hm := pf.miller [⟨S, blsG1, k • hq, g1, e1⟩, ⟨mp, OptBls.neg P, hq, -(k • g1), e2⟩] (by simp)
      (by
        intro a ha
        simp only [List.mem_cons, List.not_mem_nil, or_false] at ha
        rcases ha with rfl | rfl
        · exact ⟨rq, g1_rep, nsmul_torsion hh k, g1_torsion, he1⟩
        · exact ⟨rh, opt_neg_refines_F1 rp, hh, by rw [smul_neg, hkg, neg_zero], he2⟩)
    simp only [List.map_cons, List.map_nil, mprod, List.foldl_cons, List.foldl_nil, List.prod_cons,
      List.prod_nil, mul_one] at hm
    exact hm.mpr ((BlsAbs.core_verify_iff hpair g1_torsion (nsmul_torsion hh k) hh k).mpr rfl)

/-- **`_CoreVerify` accepts exactly what `_CoreSign` produces.**  For every valid secret key, with `pk`
    its `SkToPk`, every message and domain-separation tag, every suite and hash function, and every
    byte string `cand` (of any length):
    `_CoreVerify(pk, msg, cand, dst) = True  ↔  _CoreSign(sk, msg, dst) = cand`. -/
theorem coreVerify_iff_coreSign (pf : PairingFacts e) (H : HashFn) (s : Suite) {sk : PyArg} {k : ℕ}
    (hv : isValidPrivkey sk = some k) {pk : Bytes} (hpk : skToPk sk = .ok pk) (msg dst cand : Bytes) :
    coreVerify H s pk msg cand dst = .returned true ↔ coreSign H sk msg dst = .ok cand := by
  obtain ⟨h0, hk⟩ := validPrivkey_range hv
  have hpk' := (skToPk_enc hv pk).mp hpk
  cases hmp : hashToG2 H msg dst with
  | ok mp =>
    obtain ⟨hq, rh, hh⟩ := pf.hash_rep hmp
    rw [coreVerify_iff_enc pf h0 hk hpk' hmp rh hh, coreSign_enc hv hmp rh]
  | error err =>
    rw [coreSign_hash_error hv hmp]
    constructor
    · intro h
      obtain ⟨_, _, _, _, _, _, _, hmp', _⟩ := coreVerify_true_iff.mp h
      rw [hmp] at hmp'; cases hmp'
    · intro h; cases h

/-! ## cross checks: a signature made for `(sk, msg, dst)` presented for `(sk', msg', dst')` -/

/-- **Cross acceptance.**  A signature `sig = _CoreSign(sk, msg, dst)` is accepted by
    `_CoreVerify(pk', msg', sig, dst')` (`pk' = SkToPk(sk')`) iff the two signature POINTS coincide:
    `multiply(H(msg,dst), sk)` and `multiply(H(msg',dst'), sk')` are equal as projective points. -/
theorem coreVerify_cross_iff (pf : PairingFacts e) (H : HashFn) (s : Suite) {sk sk' : PyArg} {k k' : ℕ}
    (hv : isValidPrivkey sk = some k) (hv' : isValidPrivkey sk' = some k') {pk' : Bytes}
    (hpk' : skToPk sk' = .ok pk') {msg dst msg' dst' sig : Bytes} {mp mp' : G2Pt}
    (hmp : hashToG2 H msg dst = .ok mp) (hmp' : hashToG2 H msg' dst' = .ok mp')
    (hsig : coreSign H sk msg dst = .ok sig) :
    coreVerify H s pk' msg' sig dst' = .returned true ↔
      OptBls.eq (OptBls.multiply mp k) (OptBls.multiply mp' k') = true := by
  obtain ⟨hq, rh, _⟩ := pf.hash_rep hmp
  obtain ⟨hq', rh', _⟩ := pf.hash_rep hmp'
  have enc := (coreSign_enc hv hmp rh sig).mp hsig
  rw [coreVerify_iff_coreSign pf H s hv' hpk', coreSign_enc hv' hmp' rh',
    opt_eq_refines_F2 (canonT_ops rh.1 rh.1 k).2.2.2.1 (canonT_ops rh'.1 rh'.1 k').2.2.2.1
      (opt_multiply_refines_F2 rh.1 rh.2 k) (opt_multiply_refines_F2 rh'.1 rh'.2 k')]
  exact ⟨fun h => enc.point_unique h, fun h => h ▸ enc⟩

/-- same message, other key: accepted iff the hash point is the identity or the keys are equal -/
theorem coreVerify_other_key_iff (pf : PairingFacts e) (H : HashFn) (s : Suite) {sk sk' : PyArg}
    {k k' : ℕ} (hv : isValidPrivkey sk = some k) (hv' : isValidPrivkey sk' = some k') {pk' : Bytes}
    (hpk' : skToPk sk' = .ok pk') {msg dst sig : Bytes} {mp : G2Pt}
    (hmp : hashToG2 H msg dst = .ok mp) (hinf : OptBls.is_inf mp = false)
    (hsig : coreSign H sk msg dst = .ok sig) :
    coreVerify H s pk' msg sig dst = .returned true ↔ k = k' := by
  obtain ⟨hq, rh, hh⟩ := pf.hash_rep hmp
  have enc := (coreSign_enc hv hmp rh sig).mp hsig
  have hne : hq ≠ 0 := by
    intro h0
    rw [(opt_is_inf_refines_F2 rh.1 rh.2).mpr h0] at hinf
    cases hinf
  rw [coreVerify_iff_coreSign pf H s hv' hpk', coreSign_enc hv' hmp rh]
  obtain ⟨_, hk⟩ := validPrivkey_range hv
  obtain ⟨_, hk'⟩ := validPrivkey_range hv'
  constructor
  · intro h
    have := (BlsAbs.nsmul_eq_nsmul_iff prime_r hh hne k k').mp (enc.point_unique h)
    unfold Nat.ModEq at this
    rwa [Nat.mod_eq_of_lt hk, Nat.mod_eq_of_lt hk'] at this
  · intro h; subst h; exact enc

/-- same key, other `(message, tag)`: accepted iff the two hash points are equal -/
theorem coreVerify_other_msg_iff (pf : PairingFacts e) (H : HashFn) (s : Suite) {sk : PyArg} {k : ℕ}
    (hv : isValidPrivkey sk = some k) {pk : Bytes} (hpk : skToPk sk = .ok pk)
    {msg dst msg' dst' sig : Bytes} {mp mp' : G2Pt}
    (hmp : hashToG2 H msg dst = .ok mp) (hmp' : hashToG2 H msg' dst' = .ok mp')
    (hsig : coreSign H sk msg dst = .ok sig) :
    coreVerify H s pk msg' sig dst' = .returned true ↔ OptBls.eq mp mp' = true := by
  obtain ⟨hq, rh, hh⟩ := pf.hash_rep hmp
  obtain ⟨hq', rh', hh'⟩ := pf.hash_rep hmp'
  have enc := (coreSign_enc hv hmp rh sig).mp hsig
  obtain ⟨h0, hk⟩ := validPrivkey_range hv
  have hnd : ¬ blsR ∣ k := fun hd => absurd (Nat.le_of_dvd h0 hd) (by omega)
  rw [coreVerify_iff_coreSign pf H s hv hpk, coreSign_enc hv hmp' rh',
    opt_eq_refines_F2 rh.1 rh'.1 rh.2 rh'.2]
  constructor
  · intro h; exact BlsAbs.nsmul_cancel prime_r hnd hh hh' (enc.point_unique h)
  · intro h; subst h; exact enc

/-! ## when `_CoreVerify` does not say `True` it says `False` (given that hashing returned) -/

/-- the only way the body of `_CoreVerify` raises the un-caught bare `Exception` is `hash_to_G2` raising it -/
theorem coreVerifyBody_error_other {H : HashFn} {s : Suite} {pk msg sig dst : Bytes}
    (h : coreVerifyBody H s pk msg sig dst = .error .other) : hashToG2 H msg dst = .error .other := by
  unfold coreVerifyBody at h
  simp only [bind, Except.bind, pure, Except.pure, throw, throwThe, MonadExceptOf.throw] at h
  split at h; · cases h
  split at h; · cases h
  split at h; · cases h
  split at h
  · next e' he => cases h; cases signatureToG2_error he
  split at h; · cases h
  split at h
  · next e' he => cases h; cases pairingOptBls_error he
  split at h
  · next e' he => cases h; exact he
  split at h
  · next e' he => cases h; cases pubkeyToG1_error he
  split at h
  · next e' he => cases h; cases pairingOptBls_error he
  · cases h

theorem coreVerify_false_of_not_true {H : HashFn} {s : Suite} {pk msg sig dst : Bytes} {mp : G2Pt}
    (hmp : hashToG2 H msg dst = .ok mp) (h : coreVerify H s pk msg sig dst ≠ .returned true) :
    coreVerify H s pk msg sig dst = .returned false := by
  rcases coreVerify_cases H s pk msg sig dst with ⟨b, _, _, hr⟩ | ⟨_, _, _, hr⟩ | ⟨hb, _, _⟩
  · cases b
    · exact hr
    · exact (h hr).elim
  · exact hr
  · rw [coreVerifyBody_error_other hb] at hmp; cases hmp

/-! ## candidates given as points: `−S`, `2S`, `S + T`, the identity -/

/-- a candidate that is the encoding of the point `c` (given by a canonical representative `C`) is accepted
    iff `c = k • H(m)` -/
theorem coreVerify_point_iff (pf : PairingFacts e) (H : HashFn) (s : Suite) {sk : PyArg} {k : ℕ}
    (hv : isValidPrivkey sk = some k) {pk : Bytes} (hpk : skToPk sk = .ok pk) {msg dst : Bytes}
    {mp : G2Pt} {hq : E2} (hmp : hashToG2 H msg dst = .ok mp) (rh : RepG2 mp hq) {C : G2Pt} {c : E2}
    (rc : RepG2 C c) {cand : Bytes} (hc : g2ToSignature C = .ok cand) :
    coreVerify H s pk msg cand dst = .returned true ↔ c = k • hq := by
  obtain ⟨h0, hk⟩ := validPrivkey_range hv
  obtain ⟨hq', rh', hh⟩ := pf.hash_rep hmp
  have : hq' = hq := rh'.unique rh
  subst this
  have enc := (g2ToSignature_eq_iff rc cand).mp hc
  rw [coreVerify_iff_enc pf h0 hk ((skToPk_enc hv pk).mp hpk) hmp rh hh]
  exact ⟨fun h => enc.point_unique h, fun h => h ▸ enc⟩

/-- the hash point is not the identity, semantically -/
theorem hash_ne_zero {mp : G2Pt} {hq : E2} (rh : RepG2 mp hq) (hinf : OptBls.is_inf mp = false) :
    hq ≠ 0 := by
  intro h0
  rw [(opt_is_inf_refines_F2 rh.1 rh.2).mpr h0] at hinf
  cases hinf

/-- for a valid key and a non-identity `r`-torsion hash point the honest signature point is not `0` -/
theorem sig_ne_zero {k : ℕ} (h0 : 0 < k) (hk : k < blsR) {hq : E2} (hh : blsR • hq = 0) (hne : hq ≠ 0) :
    k • hq ≠ 0 := by
  intro h
  have hnd : ¬ blsR ∣ k := fun hd => absurd (Nat.le_of_dvd h0 hd) (by omega)
  exact hne (BlsAbs.nsmul_cancel prime_r hnd hh (smul_zero blsR) (by rw [h, smul_zero]))

/-- **`−S` is rejected** (`S` the honest signature point, `H(m) ≠ ∞`) -/
theorem coreVerify_neg (pf : PairingFacts e) (H : HashFn) (s : Suite) {sk : PyArg} {k : ℕ}
    (hv : isValidPrivkey sk = some k) {pk : Bytes} (hpk : skToPk sk = .ok pk) {msg dst : Bytes}
    {mp : G2Pt} (hmp : hashToG2 H msg dst = .ok mp) (hinf : OptBls.is_inf mp = false) {cand : Bytes}
    (hc : g2ToSignature (OptBls.neg (OptBls.multiply mp k)) = .ok cand) :
    coreVerify H s pk msg cand dst = .returned false := by
  obtain ⟨h0, hk⟩ := validPrivkey_range hv
  obtain ⟨hq, rh, hh⟩ := pf.hash_rep hmp
  have cm := (canonT_ops rh.1 rh.1 k).2.2.2.1
  have rm := opt_multiply_refines_F2 rh.1 rh.2 k
  apply coreVerify_false_of_not_true hmp
  rw [Ne, coreVerify_point_iff pf H s hv hpk hmp rh
    ⟨(canonT_ops cm cm 0).2.2.1, opt_neg_refines_F2 cm rm⟩ hc]
  intro h
  apply sig_ne_zero h0 hk hh (hash_ne_zero rh hinf)
  apply BlsAbs.eq_zero_of_two_nsmul prime_r r_ne_two (nsmul_torsion hh k)
  rw [two_nsmul]; nth_rewrite 1 [← h]; exact neg_add_cancel _

/-- **`2S` is rejected** (`H(m) ≠ ∞`) -/
theorem coreVerify_double (pf : PairingFacts e) (H : HashFn) (s : Suite) {sk : PyArg} {k : ℕ}
    (hv : isValidPrivkey sk = some k) {pk : Bytes} (hpk : skToPk sk = .ok pk) {msg dst : Bytes}
    {mp : G2Pt} (hmp : hashToG2 H msg dst = .ok mp) (hinf : OptBls.is_inf mp = false) {cand : Bytes}
    (hc : g2ToSignature (OptBls.double (OptBls.multiply mp k)) = .ok cand) :
    coreVerify H s pk msg cand dst = .returned false := by
  obtain ⟨h0, hk⟩ := validPrivkey_range hv
  obtain ⟨hq, rh, hh⟩ := pf.hash_rep hmp
  have cm := (canonT_ops rh.1 rh.1 k).2.2.2.1
  have rm := opt_multiply_refines_F2 rh.1 rh.2 k
  apply coreVerify_false_of_not_true hmp
  rw [Ne, coreVerify_point_iff pf H s hv hpk hmp rh
    ⟨(canonT_ops cm cm 0).2.1, opt_double_refines_F2 cm rm⟩ hc]
  intro h
  exact sig_ne_zero h0 hk hh (hash_ne_zero rh hinf) (add_eq_left.mp h)

/-- **`S + T` is rejected** for EVERY canonical on-curve `T ≠ ∞` (in the `r`-torsion or not: a `T` of
    cofactor torsion makes the candidate fail `subgroup_check`) -/
theorem coreVerify_add (pf : PairingFacts e) (H : HashFn) (s : Suite) {sk : PyArg} {k : ℕ}
    (hv : isValidPrivkey sk = some k) {pk : Bytes} (hpk : skToPk sk = .ok pk) {msg dst : Bytes}
    {mp : G2Pt} (hmp : hashToG2 H msg dst = .ok mp) {T : G2Pt} (cT : CanonT T)
    (honT : OptBls.is_on_curve T blsB2 = true) (hT : OptBls.is_inf T = false) {cand : Bytes}
    (hc : g2ToSignature (OptBls.add (OptBls.multiply mp k) T) = .ok cand) :
    coreVerify H s pk msg cand dst = .returned false := by
  obtain ⟨hq, rh, hh⟩ := pf.hash_rep hmp
  obtain ⟨t, rt⟩ := repG2_of_on_curve cT honT
  have cm := (canonT_ops rh.1 rh.1 k).2.2.2.1
  have rm := opt_multiply_refines_F2 rh.1 rh.2 k
  apply coreVerify_false_of_not_true hmp
  rw [Ne, coreVerify_point_iff pf H s hv hpk hmp rh
    ⟨(canonT_ops cm cT 0).1, opt_add_refines_F2 cm cT rm rt.2⟩ hc]
  intro h
  exact hash_ne_zero rt hT (add_eq_left.mp h)

/-- **The identity encoding** (`0xc0 00 … 00`) is accepted iff the hash point is the identity -/
theorem coreVerify_identity_iff (pf : PairingFacts e) (H : HashFn) (s : Suite) {sk : PyArg} {k : ℕ}
    (hv : isValidPrivkey sk = some k) {pk : Bytes} (hpk : skToPk sk = .ok pk) {msg dst : Bytes}
    {mp : G2Pt} (hmp : hashToG2 H msg dst = .ok mp) {cand : Bytes} (hc : g2ToSignature Z2 = .ok cand) :
    coreVerify H s pk msg cand dst = .returned true ↔ OptBls.is_inf mp = true := by
  obtain ⟨h0, hk⟩ := validPrivkey_range hv
  obtain ⟨hq, rh, hh⟩ := pf.hash_rep hmp
  have cz : CanonT Z2 := (canonT_ops rh.1 rh.1 0).2.2.2.2
  rw [coreVerify_point_iff pf H s hv hpk hmp rh ⟨cz, represents_zero_F2 (T := Z2) rfl⟩ hc,
    opt_is_inf_refines_F2 rh.1 rh.2]
  constructor
  · intro h
    by_contra hne
    exact sig_ne_zero h0 hk hh hne h.symm
  · intro h; rw [h, smul_zero]

/-- **Anything but the canonical signature is rejected**: if `_CoreSign` returned `sig` then every other
    byte string (bit flips, truncations, other encodings, …) makes `_CoreVerify` return `False` -/
theorem coreVerify_ne (pf : PairingFacts e) (H : HashFn) (s : Suite) {sk : PyArg} {k : ℕ}
    (hv : isValidPrivkey sk = some k) {pk : Bytes} (hpk : skToPk sk = .ok pk) {msg dst sig cand : Bytes}
    (hsig : coreSign H sk msg dst = .ok sig) (hne : cand ≠ sig) :
    coreVerify H s pk msg cand dst = .returned false := by
  cases hmp : hashToG2 H msg dst with
  | error err => rw [coreSign_hash_error hv hmp] at hsig; cases hsig
  | ok mp =>
    apply coreVerify_false_of_not_true hmp
    rw [Ne, coreVerify_iff_coreSign pf H s hv hpk, hsig]
    intro h; cases h; exact hne rfl

/-! ## the suite wrappers -/

/-- `Sign` is `_CoreSign` on the (suite-augmented) message -/
theorem sign_eq_coreSign (H : HashFn) (s : Suite) {sk : PyArg} {pk : Bytes} (hpk : skToPk sk = .ok pk)
    (msg : Bytes) : sign H s sk msg = coreSign H sk (vmsg s pk msg) s.dst := by
  cases s <;> simp [sign, vmsg, hpk, bind, Except.bind]

/-- `PopProve` is `_CoreSign` of the public key under `POP_TAG` -/
theorem popProve_eq_coreSign (H : HashFn) {sk : PyArg} {pk : Bytes} (hpk : skToPk sk = .ok pk) :
    popProve H sk = coreSign H sk pk popTag := by
  simp [popProve, hpk, bind, Except.bind]

/-- a valid `int` secret key -/
theorem validPrivkey_int {sk : ℤ} (h : 1 ≤ sk ∧ sk < (curveOrder : ℤ)) :
    isValidPrivkey (.int sk) = some sk.toNat :=
  (C01.isValidPrivkey_int_iff sk sk.toNat).mpr ⟨h.1, h.2, rfl⟩

end

end PyEcc.BlsProto
