/-
  PyEcc.Lemmas.NondegFastBn — a FAST executable arithmetic of bn128 `FQ12 = Fp[w]/(w¹² − 18w⁶ + 82)`
  designed for kernel evaluation (`decide +kernel`), and the proof that it agrees with the model's
  list arithmetic (`PyEcc.Fqp` at `.opt bnP bnMc12`, i.e. the `FQ12` class of `py_ecc.optimized_bn128`).
  Same construction as `Lemmas/NondegFast.lean` (BLS12-381); only the reduction formulas differ.

  * `Y12`                 : an element = a structure of 12 naturals (coefficients of `1, w, …, w¹¹`);
  * `Y12.mulF`            : schoolbook product by explicit formulas, `w¹² = 18w⁶ − 82` folded in by index
                            arithmetic, one `% p` per output coefficient (the text of the
                            formulas was produced by a script; it is checked by `toK_mulF`);
  * `toL : Y12 → OBn12`  : the coefficient list;  `ofL` its inverse on reduced lists;
  * `goodHom_toL`         : `toL` is a `Transfer.GoodHom` from `Y12` to the MODEL type `OBn12`: it
                            preserves `0 1 + − * neg / natCast ^` (on reduced elements) and is injective.
                            Hence every generated generic function (`Gen.OptBn.linefunc`, …) run on `Y12`
                            computes the coefficient lists the model computes.
  `/` on `Y12` is defined through the model's own `FQ12.__div__` (used once per pairing).

  The product is proved correct through the quotient ring `K12`: both sides denote the product there,
  and reduced coefficient lists with the same value are equal (`toQ_inj`).
-/
import Mathlib.Tactic.LinearCombination
import Mathlib.Tactic.Ring
import PyEcc.Lemmas.PairingSem
import PyEcc.Sem.Primes
import PyEcc.Lemmas.TransferBase
import PyEcc.Model.Pairing

set_option maxRecDepth 100000
set_option linter.unusedVariables false

namespace PyEcc.NondegBnSem
open Polynomial PyEcc PyEcc.Fqp PyEcc.FqpSem PyEcc.PairingSem PyEcc.Gen.Consts PyEcc.Transfer

/-- an element of bn128 `FQ12`: the 12 coefficients (naturals) of `1, w, …, w¹¹` -/
structure Y12 where
  (c0 c1 c2 c3 c4 c5 c6 c7 c8 c9 c10 c11 : Nat)
  deriving DecidableEq, Repr

namespace Y12

/-- the field modulus `p` (the generated constant) -/
abbrev P : Nat := bnP

/-- schoolbook product with `w¹² = 18w⁶ − 82` folded in; every output coefficient is `< p` -/
def mulF (a b : Y12) : Y12 :=
  let h0 := a.c1 * b.c11 + a.c2 * b.c10 + a.c3 * b.c9 + a.c4 * b.c8 + a.c5 * b.c7 + a.c6 * b.c6 + a.c7 * b.c5 + a.c8 * b.c4 + a.c9 * b.c3 + a.c10 * b.c2 + a.c11 * b.c1
  let h1 := a.c2 * b.c11 + a.c3 * b.c10 + a.c4 * b.c9 + a.c5 * b.c8 + a.c6 * b.c7 + a.c7 * b.c6 + a.c8 * b.c5 + a.c9 * b.c4 + a.c10 * b.c3 + a.c11 * b.c2
  let h2 := a.c3 * b.c11 + a.c4 * b.c10 + a.c5 * b.c9 + a.c6 * b.c8 + a.c7 * b.c7 + a.c8 * b.c6 + a.c9 * b.c5 + a.c10 * b.c4 + a.c11 * b.c3
  let h3 := a.c4 * b.c11 + a.c5 * b.c10 + a.c6 * b.c9 + a.c7 * b.c8 + a.c8 * b.c7 + a.c9 * b.c6 + a.c10 * b.c5 + a.c11 * b.c4
  let h4 := a.c5 * b.c11 + a.c6 * b.c10 + a.c7 * b.c9 + a.c8 * b.c8 + a.c9 * b.c7 + a.c10 * b.c6 + a.c11 * b.c5
  let h5 := a.c6 * b.c11 + a.c7 * b.c10 + a.c8 * b.c9 + a.c9 * b.c8 + a.c10 * b.c7 + a.c11 * b.c6
  let h6 := a.c7 * b.c11 + a.c8 * b.c10 + a.c9 * b.c9 + a.c10 * b.c8 + a.c11 * b.c7
  let h7 := a.c8 * b.c11 + a.c9 * b.c10 + a.c10 * b.c9 + a.c11 * b.c8
  let h8 := a.c9 * b.c11 + a.c10 * b.c10 + a.c11 * b.c9
  let h9 := a.c10 * b.c11 + a.c11 * b.c10
  let h10 := a.c11 * b.c11
  let g0 := 18 * h6
  let g1 := 18 * h7
  let g2 := 18 * h8
  let g3 := 18 * h9
  let g4 := 18 * h10
  ⟨(((a.c0 * b.c0)) + (P - (82 * h0 + 82 * g0) % P)) % P,
   (((a.c0 * b.c1 + a.c1 * b.c0)) + (P - (82 * h1 + 82 * g1) % P)) % P,
   (((a.c0 * b.c2 + a.c1 * b.c1 + a.c2 * b.c0)) + (P - (82 * h2 + 82 * g2) % P)) % P,
   (((a.c0 * b.c3 + a.c1 * b.c2 + a.c2 * b.c1 + a.c3 * b.c0)) + (P - (82 * h3 + 82 * g3) % P)) % P,
   (((a.c0 * b.c4 + a.c1 * b.c3 + a.c2 * b.c2 + a.c3 * b.c1 + a.c4 * b.c0)) + (P - (82 * h4 + 82 * g4) % P)) % P,
   (((a.c0 * b.c5 + a.c1 * b.c4 + a.c2 * b.c3 + a.c3 * b.c2 + a.c4 * b.c1 + a.c5 * b.c0)) + (P - (82 * h5) % P)) % P,
   (((a.c0 * b.c6 + a.c1 * b.c5 + a.c2 * b.c4 + a.c3 * b.c3 + a.c4 * b.c2 + a.c5 * b.c1 + a.c6 * b.c0) + 18 * h0 + 18 * g0) + (P - (82 * h6) % P)) % P,
   (((a.c0 * b.c7 + a.c1 * b.c6 + a.c2 * b.c5 + a.c3 * b.c4 + a.c4 * b.c3 + a.c5 * b.c2 + a.c6 * b.c1 + a.c7 * b.c0) + 18 * h1 + 18 * g1) + (P - (82 * h7) % P)) % P,
   (((a.c0 * b.c8 + a.c1 * b.c7 + a.c2 * b.c6 + a.c3 * b.c5 + a.c4 * b.c4 + a.c5 * b.c3 + a.c6 * b.c2 + a.c7 * b.c1 + a.c8 * b.c0) + 18 * h2 + 18 * g2) + (P - (82 * h8) % P)) % P,
   (((a.c0 * b.c9 + a.c1 * b.c8 + a.c2 * b.c7 + a.c3 * b.c6 + a.c4 * b.c5 + a.c5 * b.c4 + a.c6 * b.c3 + a.c7 * b.c2 + a.c8 * b.c1 + a.c9 * b.c0) + 18 * h3 + 18 * g3) + (P - (82 * h9) % P)) % P,
   (((a.c0 * b.c10 + a.c1 * b.c9 + a.c2 * b.c8 + a.c3 * b.c7 + a.c4 * b.c6 + a.c5 * b.c5 + a.c6 * b.c4 + a.c7 * b.c3 + a.c8 * b.c2 + a.c9 * b.c1 + a.c10 * b.c0) + 18 * h4 + 18 * g4) + (P - (82 * h10) % P)) % P,
   (((a.c0 * b.c11 + a.c1 * b.c10 + a.c2 * b.c9 + a.c3 * b.c8 + a.c4 * b.c7 + a.c5 * b.c6 + a.c6 * b.c5 + a.c7 * b.c4 + a.c8 * b.c3 + a.c9 * b.c2 + a.c10 * b.c1 + a.c11 * b.c0) + 18 * h5) + (P - 0 % P)) % P⟩

def zeroF : Y12 := ⟨0, 0, 0, 0, 0, 0, 0, 0, 0, 0, 0, 0⟩
def oneF : Y12 := ⟨1, 0, 0, 0, 0, 0, 0, 0, 0, 0, 0, 0⟩
def addF (a b : Y12) : Y12 := ⟨(a.c0 + b.c0) % P, (a.c1 + b.c1) % P, (a.c2 + b.c2) % P, (a.c3 + b.c3) % P, (a.c4 + b.c4) % P, (a.c5 + b.c5) % P, (a.c6 + b.c6) % P, (a.c7 + b.c7) % P, (a.c8 + b.c8) % P, (a.c9 + b.c9) % P, (a.c10 + b.c10) % P, (a.c11 + b.c11) % P⟩
def subF (a b : Y12) : Y12 := ⟨(a.c0 + (P - b.c0)) % P, (a.c1 + (P - b.c1)) % P, (a.c2 + (P - b.c2)) % P, (a.c3 + (P - b.c3)) % P, (a.c4 + (P - b.c4)) % P, (a.c5 + (P - b.c5)) % P, (a.c6 + (P - b.c6)) % P, (a.c7 + (P - b.c7)) % P, (a.c8 + (P - b.c8)) % P, (a.c9 + (P - b.c9)) % P, (a.c10 + (P - b.c10)) % P, (a.c11 + (P - b.c11)) % P⟩
def negF (a : Y12) : Y12 := ⟨(P - a.c0) % P, (P - a.c1) % P, (P - a.c2) % P, (P - a.c3) % P, (P - a.c4) % P, (P - a.c5) % P, (P - a.c6) % P, (P - a.c7) % P, (P - a.c8) % P, (P - a.c9) % P, (P - a.c10) % P, (P - a.c11) % P⟩
def natF (n : Nat) : Y12 := ⟨n % P, 0, 0, 0, 0, 0, 0, 0, 0, 0, 0, 0⟩

/-- square-and-multiply, the loop of `FQP.__pow__` (same shape as `Fqp.powAux`) -/
def powAuxF : Nat → Y12 → Y12 → Nat → Y12
  | 0, o, _, _ => o
  | f+1, o, t, e =>
    if e = 0 then o
    else powAuxF f (if e % 2 = 1 then mulF o t else o) (mulF t t) (e / 2)

def powF (a : Y12) (e : Nat) : Y12 := powAuxF e oneF a e

/-- the coefficient list, as an element of the model's optimized `FQ12` -/
def toL (x : Y12) : OBn12 := ⟨[(x.c0 : Int), (x.c1 : Int), (x.c2 : Int), (x.c3 : Int), (x.c4 : Int), (x.c5 : Int), (x.c6 : Int), (x.c7 : Int), (x.c8 : Int), (x.c9 : Int), (x.c10 : Int), (x.c11 : Int)]⟩
/-- read a coefficient list back (inverse of `toL` on reduced lists) -/
def ofL (l : OBn12) : Y12 := ⟨(getI l.coeffs 0).toNat, (getI l.coeffs 1).toNat, (getI l.coeffs 2).toNat, (getI l.coeffs 3).toNat, (getI l.coeffs 4).toNat, (getI l.coeffs 5).toNat, (getI l.coeffs 6).toNat, (getI l.coeffs 7).toNat, (getI l.coeffs 8).toNat, (getI l.coeffs 9).toNat, (getI l.coeffs 10).toNat, (getI l.coeffs 11).toNat⟩

/-- division: the model's own `FQ12.__div__` (extended Euclid on coefficient lists) -/
def divF (a b : Y12) : Y12 := ofL (toL a / toL b)

instance : Zero Y12 := ⟨zeroF⟩
instance : One Y12 := ⟨oneF⟩
instance : Add Y12 := ⟨addF⟩
instance : Sub Y12 := ⟨subF⟩
instance : Mul Y12 := ⟨mulF⟩
instance : Neg Y12 := ⟨negF⟩
instance : Div Y12 := ⟨divF⟩
instance : NatCast Y12 := ⟨natF⟩
instance : Pow Y12 Nat := ⟨powF⟩

/-- reduced: every coefficient `< p` -/
def Good (x : Y12) : Prop := x.c0 < P ∧ x.c1 < P ∧ x.c2 < P ∧ x.c3 < P ∧ x.c4 < P ∧ x.c5 < P ∧ x.c6 < P ∧ x.c7 < P ∧ x.c8 < P ∧ x.c9 < P ∧ x.c10 < P ∧ x.c11 < P
instance (x : Y12) : Decidable (Good x) := by unfold Good; infer_instance

end Y12
open Y12

local notation "K12" => AdjoinRoot (modulus bnP bnMc12)
local notation "w" => AdjoinRoot.root (modulus bnP bnMc12)

theorem P_pos : 0 < Y12.P := by decide

/-! ### `toL` / `ofL` -/

theorem wf_toL (x : Y12) : WF (toL x) := by unfold WF; rfl

theorem canon_toL {x : Y12} (h : Good x) : Canon (toL x) := by
  obtain ⟨h0, h1, h2, h3, h4, h5, h6, h7, h8, h9, h10, h11⟩ := h
  refine ⟨rfl, ?_⟩
  intro c hc
  simp only [toL, List.mem_cons, List.not_mem_nil, or_false] at hc
  rcases hc with rfl | rfl | rfl | rfl | rfl | rfl | rfl | rfl | rfl | rfl | rfl | rfl <;>
    exact ⟨Int.natCast_nonneg _, by exact_mod_cast ‹_›⟩

theorem toL_ofL {l : OBn12} (h : Canon l) : toL (ofL l) = l := by
  obtain ⟨cs⟩ := l
  obtain ⟨hl, hb⟩ := h
  have hlen : cs.length = 12 := hl
  match cs, hlen with
  | [a0, a1, a2, a3, a4, a5, a6, a7, a8, a9, a10, a11], _ =>
    have hb' : ∀ c ∈ [a0, a1, a2, a3, a4, a5, a6, a7, a8, a9, a10, a11], (0 : Int) ≤ c := fun c hc => (hb c hc).1
    simp only [List.mem_cons, List.not_mem_nil, or_false, forall_eq_or_imp, forall_eq] at hb'
    obtain ⟨p0, p1, p2, p3, p4, p5, p6, p7, p8, p9, p10, p11⟩ := hb'
    simp only [toL, ofL, getI, List.getD_cons_zero, List.getD_cons_succ, Int.toNat_of_nonneg, *]

theorem good_ofL {l : OBn12} (h : Canon l) : Good (ofL l) := by
  obtain ⟨cs⟩ := l
  obtain ⟨hl, hb⟩ := h
  have hlen : cs.length = 12 := hl
  match cs, hlen with
  | [a0, a1, a2, a3, a4, a5, a6, a7, a8, a9, a10, a11], _ =>
    have hb' : ∀ c ∈ [a0, a1, a2, a3, a4, a5, a6, a7, a8, a9, a10, a11], (0 : Int) ≤ c ∧ c < (bnP : Int) := hb
    simp only [List.mem_cons, List.not_mem_nil, or_false, forall_eq_or_imp, forall_eq] at hb'
    obtain ⟨p0, p1, p2, p3, p4, p5, p6, p7, p8, p9, p10, p11⟩ := hb'
    simp only [Good, ofL, getI, List.getD_cons_zero, List.getD_cons_succ]
    refine ⟨?_, ?_, ?_, ?_, ?_, ?_, ?_, ?_, ?_, ?_, ?_, ?_⟩ <;>
      (rw [Int.toNat_lt (by tauto)]; tauto)

theorem toL_injective : Function.Injective toL := by
  intro a b h
  obtain ⟨a0, a1, a2, a3, a4, a5, a6, a7, a8, a9, a10, a11⟩ := a
  obtain ⟨b0, b1, b2, b3, b4, b5, b6, b7, b8, b9, b10, b11⟩ := b
  simp only [toL, Fqp.mk.injEq, List.cons.injEq, Int.natCast_inj, and_true] at h
  simp only [Y12.mk.injEq]
  exact h

/-- the value in `K12`: `Σ cᵢ wⁱ` (Horner form) -/
noncomputable def toK (x : Y12) : K12 := (x.c0 : K12) + w * ((x.c1 : K12) + w * ((x.c2 : K12) + w * ((x.c3 : K12) + w * ((x.c4 : K12) + w * ((x.c5 : K12) + w * ((x.c6 : K12) + w * ((x.c7 : K12) + w * ((x.c8 : K12) + w * ((x.c9 : K12) + w * ((x.c10 : K12) + w * ((x.c11 : K12))))))))))))

theorem toQ_toL (x : Y12) : toQ (toL x) = toK x := by
  simp only [toQ, toL, evQ, ev_cons, ev_nil, mul_zero, add_zero, map_add, map_mul, AdjoinRoot.mk_X,
    Int.cast_natCast, map_natCast, toK]

theorem bnMc12_len : 1 ≤ bnMc12.length := by decide

theorem hw12 : (w : K12) ^ 12 = 18 * (w : K12) ^ 6 - 82 := by
  have e : modulus bnP bnMc12 = X ^ 12 + (C 82 + X * (X * (X * (X * (X * (X * (C (-18)))))))) := by
    simp [modulus, bnMc12, fields_bn128_fq12_modulus_coeffs, ev]
  have h : AdjoinRoot.mk (modulus bnP bnMc12)
      (X ^ 12 + (C 82 + X * (X * (X * (X * (X * (X * (C (-18))))))))) = 0 := by
    rw [← e]; exact AdjoinRoot.mk_self
  simp only [map_add, map_mul, map_pow, AdjoinRoot.mk_X, map_neg, map_ofNat] at h
  linear_combination h

theorem cast_red (x y : ℕ) : (((x + (Y12.P - y % Y12.P)) % Y12.P : ℕ) : K12) = (x : K12) - (y : K12) := by
  have := charP_quot (p := bnP) (mc := bnMc12) bnMc12_len
  have hle : y % Y12.P ≤ Y12.P := (Nat.mod_lt _ P_pos).le
  have h1 : ∀ n : ℕ, ((n % Y12.P : ℕ) : K12) = (n : K12) := by
    intro n
    conv_rhs => rw [← Nat.mod_add_div n Y12.P]
    rw [Nat.cast_add, Nat.cast_mul, CharP.cast_eq_zero K12 bnP, zero_mul, add_zero]
  rw [h1, Nat.cast_add, Nat.cast_sub hle, h1, CharP.cast_eq_zero K12 bnP]
  ring

theorem toK_mulF (a b : Y12) : toK (mulF a b) = toK a * toK b := by
  simp only [toK, mulF, cast_red]
  push_cast
  linear_combination (-(((a.c1 : K12) * (b.c11 : K12) + (a.c2 : K12) * (b.c10 : K12) + (a.c3 : K12) * (b.c9 : K12) + (a.c4 : K12) * (b.c8 : K12) + (a.c5 : K12) * (b.c7 : K12) + (a.c6 : K12) * (b.c6 : K12) + (a.c7 : K12) * (b.c5 : K12) + (a.c8 : K12) * (b.c4 : K12) + (a.c9 : K12) * (b.c3 : K12) + (a.c10 : K12) * (b.c2 : K12) + (a.c11 : K12) * (b.c1 : K12)) * w ^ 0
    + ((a.c2 : K12) * (b.c11 : K12) + (a.c3 : K12) * (b.c10 : K12) + (a.c4 : K12) * (b.c9 : K12) + (a.c5 : K12) * (b.c8 : K12) + (a.c6 : K12) * (b.c7 : K12) + (a.c7 : K12) * (b.c6 : K12) + (a.c8 : K12) * (b.c5 : K12) + (a.c9 : K12) * (b.c4 : K12) + (a.c10 : K12) * (b.c3 : K12) + (a.c11 : K12) * (b.c2 : K12)) * w ^ 1
    + ((a.c3 : K12) * (b.c11 : K12) + (a.c4 : K12) * (b.c10 : K12) + (a.c5 : K12) * (b.c9 : K12) + (a.c6 : K12) * (b.c8 : K12) + (a.c7 : K12) * (b.c7 : K12) + (a.c8 : K12) * (b.c6 : K12) + (a.c9 : K12) * (b.c5 : K12) + (a.c10 : K12) * (b.c4 : K12) + (a.c11 : K12) * (b.c3 : K12)) * w ^ 2
    + ((a.c4 : K12) * (b.c11 : K12) + (a.c5 : K12) * (b.c10 : K12) + (a.c6 : K12) * (b.c9 : K12) + (a.c7 : K12) * (b.c8 : K12) + (a.c8 : K12) * (b.c7 : K12) + (a.c9 : K12) * (b.c6 : K12) + (a.c10 : K12) * (b.c5 : K12) + (a.c11 : K12) * (b.c4 : K12)) * w ^ 3
    + ((a.c5 : K12) * (b.c11 : K12) + (a.c6 : K12) * (b.c10 : K12) + (a.c7 : K12) * (b.c9 : K12) + (a.c8 : K12) * (b.c8 : K12) + (a.c9 : K12) * (b.c7 : K12) + (a.c10 : K12) * (b.c6 : K12) + (a.c11 : K12) * (b.c5 : K12)) * w ^ 4
    + ((a.c6 : K12) * (b.c11 : K12) + (a.c7 : K12) * (b.c10 : K12) + (a.c8 : K12) * (b.c9 : K12) + (a.c9 : K12) * (b.c8 : K12) + (a.c10 : K12) * (b.c7 : K12) + (a.c11 : K12) * (b.c6 : K12)) * w ^ 5
    + ((a.c7 : K12) * (b.c11 : K12) + (a.c8 : K12) * (b.c10 : K12) + (a.c9 : K12) * (b.c9 : K12) + (a.c10 : K12) * (b.c8 : K12) + (a.c11 : K12) * (b.c7 : K12)) * w ^ 6
    + ((a.c8 : K12) * (b.c11 : K12) + (a.c9 : K12) * (b.c10 : K12) + (a.c10 : K12) * (b.c9 : K12) + (a.c11 : K12) * (b.c8 : K12)) * w ^ 7
    + ((a.c9 : K12) * (b.c11 : K12) + (a.c10 : K12) * (b.c10 : K12) + (a.c11 : K12) * (b.c9 : K12)) * w ^ 8
    + ((a.c10 : K12) * (b.c11 : K12) + (a.c11 : K12) * (b.c10 : K12)) * w ^ 9
    + ((a.c11 : K12) * (b.c11 : K12)) * w ^ 10
    + 18 * ((a.c7 : K12) * (b.c11 : K12) + (a.c8 : K12) * (b.c10 : K12) + (a.c9 : K12) * (b.c9 : K12) + (a.c10 : K12) * (b.c8 : K12) + (a.c11 : K12) * (b.c7 : K12)) * w ^ 0
    + 18 * ((a.c8 : K12) * (b.c11 : K12) + (a.c9 : K12) * (b.c10 : K12) + (a.c10 : K12) * (b.c9 : K12) + (a.c11 : K12) * (b.c8 : K12)) * w ^ 1
    + 18 * ((a.c9 : K12) * (b.c11 : K12) + (a.c10 : K12) * (b.c10 : K12) + (a.c11 : K12) * (b.c9 : K12)) * w ^ 2
    + 18 * ((a.c10 : K12) * (b.c11 : K12) + (a.c11 : K12) * (b.c10 : K12)) * w ^ 3
    + 18 * ((a.c11 : K12) * (b.c11 : K12)) * w ^ 4)) * hw12

/-! ### the operations agree with the model's -/

theorem good_mulF (a b : Y12) : Good (mulF a b) := by
  simp only [Good, mulF]
  refine ⟨?_, ?_, ?_, ?_, ?_, ?_, ?_, ?_, ?_, ?_, ?_, ?_⟩ <;> exact Nat.mod_lt _ P_pos

theorem toL_mul (a b : Y12) : toL (a * b) = toL a * toL b := by
  apply toQ_inj (canon_toL (good_mulF a b)) (canon_mul' (by decide) (by decide) _ _)
  rw [toQ_mul (wf_toL a) (wf_toL b), toQ_toL, toQ_toL, toQ_toL]
  exact toK_mulF a b

theorem int_sub_mod (a b : ℕ) (h : b ≤ Y12.P) :
    (((a + (Y12.P - b)) % Y12.P : ℕ) : ℤ) = ((a : ℤ) - (b : ℤ)) % (bnP : ℤ) := by
  rw [Int.natCast_mod, Nat.cast_add, Nat.cast_sub h]
  rw [show (a : ℤ) + ((Y12.P : ℤ) - (b : ℤ)) = ((a : ℤ) - (b : ℤ)) + (bnP : ℤ) by
    show _ = _ + (Y12.P : ℤ); ring]
  rw [Int.add_emod_right]

theorem int_neg_mod (b : ℕ) (h : b ≤ Y12.P) :
    (((Y12.P - b) % Y12.P : ℕ) : ℤ) = (-(b : ℤ)) % (bnP : ℤ) := by
  have := int_sub_mod 0 b h
  simpa using this

theorem toL_add (a b : Y12) : toL (a + b) = toL a + toL b := by
  show toL (addF a b) = Fqp.add (toL a) (toL b)
  simp only [toL, addF, Fqp.add, Fqp.ofInts, List.zipWith_cons_cons, List.zipWith_nil_right,
    List.map_cons, List.map_nil, Int.natCast_mod, Nat.cast_add]

theorem toL_sub {a b : Y12} (hb : Good b) : toL (a - b) = toL a - toL b := by
  obtain ⟨h0, h1, h2, h3, h4, h5, h6, h7, h8, h9, h10, h11⟩ := hb
  show toL (subF a b) = Fqp.sub (toL a) (toL b)
  simp only [toL, subF, Fqp.sub, Fqp.ofInts, List.zipWith_cons_cons, List.zipWith_nil_right,
    List.map_cons, List.map_nil]
  rw [int_sub_mod _ _ h0.le, int_sub_mod _ _ h1.le, int_sub_mod _ _ h2.le, int_sub_mod _ _ h3.le, int_sub_mod _ _ h4.le, int_sub_mod _ _ h5.le, int_sub_mod _ _ h6.le, int_sub_mod _ _ h7.le, int_sub_mod _ _ h8.le, int_sub_mod _ _ h9.le, int_sub_mod _ _ h10.le, int_sub_mod _ _ h11.le]

theorem toL_neg {a : Y12} (ha : Good a) : toL (-a) = -toL a := by
  obtain ⟨h0, h1, h2, h3, h4, h5, h6, h7, h8, h9, h10, h11⟩ := ha
  show toL (negF a) = Fqp.neg (toL a)
  simp only [toL, negF, Fqp.neg, Fqp.ofInts, List.map_cons, List.map_nil]
  rw [int_neg_mod _ h0.le, int_neg_mod _ h1.le, int_neg_mod _ h2.le, int_neg_mod _ h3.le, int_neg_mod _ h4.le, int_neg_mod _ h5.le, int_neg_mod _ h6.le, int_neg_mod _ h7.le, int_neg_mod _ h8.le, int_neg_mod _ h9.le, int_neg_mod _ h10.le, int_neg_mod _ h11.le]

theorem toL_zero : toL 0 = 0 := by decide +kernel
theorem toL_one : toL 1 = 1 := by decide +kernel

theorem toL_natCast (n : ℕ) : toL (n : Y12) = (n : OBn12) := by
  show toL (natF n) = Fqp.ofIntScalar (n : ℤ)
  have h12 : bnMc12.length - 1 = 11 := by decide
  simp only [toL, natF, Fqp.ofIntScalar, Fqp.ofInts, h12, List.replicate, List.map_cons, List.map_nil,
    Int.natCast_mod, Int.zero_emod, Nat.cast_zero]

theorem good_addF (a b : Y12) : Good (addF a b) := by
  simp only [Good, addF]
  refine ⟨?_, ?_, ?_, ?_, ?_, ?_, ?_, ?_, ?_, ?_, ?_, ?_⟩ <;> exact Nat.mod_lt _ P_pos
theorem good_subF (a b : Y12) : Good (subF a b) := by
  simp only [Good, subF]
  refine ⟨?_, ?_, ?_, ?_, ?_, ?_, ?_, ?_, ?_, ?_, ?_, ?_⟩ <;> exact Nat.mod_lt _ P_pos
theorem good_negF (a : Y12) : Good (negF a) := by
  simp only [Good, negF]
  refine ⟨?_, ?_, ?_, ?_, ?_, ?_, ?_, ?_, ?_, ?_, ?_, ?_⟩ <;> exact Nat.mod_lt _ P_pos
theorem good_natF (n : ℕ) : Good (natF n) := by
  simp only [Good, natF]
  refine ⟨?_, ?_, ?_, ?_, ?_, ?_, ?_, ?_, ?_, ?_, ?_, ?_⟩ <;> first | exact Nat.mod_lt _ P_pos | exact P_pos
theorem good_zeroF : Good zeroF := by decide
theorem good_oneF : Good oneF := by decide

theorem good_divF (a b : Y12) : Good (divF a b) :=
  good_ofL (canon_mul' (by decide) (by decide) _ _)

theorem toL_div (a b : Y12) : toL (a / b) = toL a / toL b :=
  toL_ofL (canon_mul' (by decide) (by decide) _ _)

theorem powAuxF_spec : ∀ (f : ℕ) (o t : Y12) (e : ℕ), Good o →
    Good (powAuxF f o t e) ∧ toL (powAuxF f o t e) = Fqp.powAux f (toL o) (toL t) e := by
  intro f
  induction f with
  | zero => intro o t e ho; exact ⟨ho, rfl⟩
  | succ n ih =>
    intro o t e ho
    unfold powAuxF Fqp.powAux
    by_cases he : e = 0
    · rw [if_pos he, if_pos he]; exact ⟨ho, rfl⟩
    · rw [if_neg he, if_neg he]
      by_cases hodd : e % 2 = 1
      · rw [if_pos hodd, if_pos hodd]
        have := ih (mulF o t) (mulF t t) (e / 2) (good_mulF o t)
        rw [show toL (mulF o t) = Fqp.mul (toL o) (toL t) from toL_mul o t,
          show toL (mulF t t) = Fqp.mul (toL t) (toL t) from toL_mul t t] at this
        exact this
      · rw [if_neg hodd, if_neg hodd]
        have := ih o (mulF t t) (e / 2) ho
        rw [show toL (mulF t t) = Fqp.mul (toL t) (toL t) from toL_mul t t] at this
        exact this

theorem toL_pow (a : Y12) (n : ℕ) : toL (a ^ n) = toL a ^ n := by
  have := (powAuxF_spec n oneF a n good_oneF).2
  rw [show toL oneF = (Fqp.one : OBn12) from toL_one] at this
  exact this

theorem good_powF (a : Y12) (n : ℕ) : Good (a ^ n) := (powAuxF_spec n oneF a n good_oneF).1

/-- **`toL` is a homomorphism from the fast arithmetic to the model's `FQ12`** for all ten operations
    of the generated generic code (on reduced elements), and is injective. -/
theorem goodHom_toL : GoodHom Good toL where
  good_zero := good_zeroF
  good_one := good_oneF
  good_add := fun _ _ => good_addF _ _
  good_sub := fun _ _ => good_subF _ _
  good_mul := fun _ _ => good_mulF _ _
  good_neg := fun _ => good_negF _
  good_div := fun _ _ => good_divF _ _
  good_natCast := good_natF
  good_pow := fun n _ => good_powF _ n
  map_zero := toL_zero
  map_one := toL_one
  map_add := fun _ _ => toL_add _ _
  map_sub := fun _ hb => toL_sub hb
  map_mul := fun _ _ => toL_mul _ _
  map_neg := fun ha => toL_neg ha
  map_div := fun _ _ => toL_div _ _
  map_natCast := toL_natCast
  map_pow := fun n _ => toL_pow _ n
  inj := fun _ _ e => toL_injective e

end PyEcc.NondegBnSem
