/-
  PyEcc.Lemmas.C13Aux — curve-independent helper lemmas for property C13 (projective formulas = affine law):
  facts about the affine reading `toAff` of a projective triple, the scaling action on triples, and the
  normal form of the chord slope.
-/
import Mathlib.Tactic.FieldSimp
import Mathlib.Tactic.Ring
import PyEcc.Sem.Affine

namespace PyEcc.C13
variable {F : Type} [Field F] [DecidableEq F]

/-- the scaling action `λ • (x, y, z) = (λx, λy, λz)` on projective triples -/
def scale (l : F) (T : F × F × F) : F × F × F := (l * T.1, l * T.2.1, l * T.2.2)

omit [DecidableEq F] in
@[simp] theorem scale_mk (l x y z : F) : scale l (x, y, z) = (l * x, l * y, l * z) := rfl

theorem toAff_of_z_eq_zero {T : F × F × F} (h : T.2.2 = 0) : toAff T = none := by
  simp [toAff, h]

theorem toAff_of_z_ne_zero {T : F × F × F} (h : T.2.2 ≠ 0) :
    toAff T = some (T.1 / T.2.2, T.2.1 / T.2.2) := by
  simp [toAff, h]

theorem toAff_eq_none_iff {T : F × F × F} : toAff T = none ↔ T.2.2 = 0 := by
  by_cases h : T.2.2 = 0 <;> simp [toAff, h]

@[simp] theorem toAff_mk_zero (x y : F) : toAff (x, y, (0 : F)) = none := by
  simp [toAff]

/-- `toAff` does not depend on the representative: scaling by `λ ≠ 0` does not change the affine reading. -/
theorem toAff_scale {l : F} (hl : l ≠ 0) (T : F × F × F) : toAff (scale l T) = toAff T := by
  obtain ⟨x, y, z⟩ := T
  by_cases hz : z = 0
  · subst hz; simp [toAff]
  · have hlz : l * z ≠ 0 := mul_ne_zero hl hz
    simp only [toAff, scale_mk, hlz, hz, ↓reduceIte, mul_div_mul_left _ _ hl]

/-- two finite triples have the same affine reading iff their cross products agree -/
theorem toAff_eq_iff_of_ne_zero {T₁ T₂ : F × F × F} (h₁ : T₁.2.2 ≠ 0) (h₂ : T₂.2.2 ≠ 0) :
    toAff T₁ = toAff T₂ ↔
      T₁.1 * T₂.2.2 = T₂.1 * T₁.2.2 ∧ T₁.2.1 * T₂.2.2 = T₂.2.1 * T₁.2.2 := by
  rw [toAff_of_z_ne_zero h₁, toAff_of_z_ne_zero h₂, Option.some.injEq, Prod.mk.injEq,
    div_eq_div_iff h₁ h₂, div_eq_div_iff h₁ h₂]

omit [DecidableEq F] in
/-- the affine chord slope through `(x₁/z₁, y₁/z₁)`, `(x₂/z₂, y₂/z₂)` in cross-multiplied form -/
theorem slope_norm {x1 y1 z1 x2 y2 z2 : F} (hz1 : z1 ≠ 0) (hz2 : z2 ≠ 0) :
    (y2 / z2 - y1 / z1) / (x2 / z2 - x1 / z1) = (y2 * z1 - y1 * z2) / (x2 * z1 - x1 * z2) := by
  rw [div_sub_div _ _ hz2 hz1, div_sub_div _ _ hz2 hz1,
    div_div_div_cancel_right₀ (mul_ne_zero hz2 hz1)]
  ring_nf

end PyEcc.C13
