/-
  PyEcc.Lemmas.IsoG1 — the 11-isogeny `iso_map_G1` of `optimized_swu.py` maps the curve
  `E1' : y² = x³ + A'x + B'` into `E1 : y² = x³ + 4` (projectively, every input with `z ≠ 0`).

  Proof by reflection: the polynomial identity
      `(x³ + A'x + B')·yn(x)²·xd(x)³ = (xn(x)³ + b·xd(x)³)·yd(x)²   (mod p)`
  between the four coefficient lists of `ISO_11_MAP_COEFFICIENTS` (regenerated from the Python
  source into `Gen.Consts`) is checked by the kernel on integer coefficient lists
  (`check11_true`), transported to `Fp` by `IsoSem.ev`, and combined with the Horner lemma
  `IsoSem.isoHorner_eq`.
-/
import PyEcc.Lemmas.PolyList
import PyEcc.Sem.FqZMod
import PyEcc.Sem.Primes
import Mathlib.Tactic.LinearCombination
import Mathlib.Tactic.FieldSimp

set_option maxRecDepth 100000

namespace PyEcc.IsoSem
open PyEcc Gen.Consts


/-! ### generic algebra: from the polynomial identity to the projective curve equation -/

/-- With `m0 = s·xn`, `m1 = s·xd`, `m2 = t·yn·y`, `m3 = t·yd·z` (the four values computed by
    `iso_map_G*`), `y² = z²·g` (the input is on `E'`) and the isogeny identity
    `g·yn²·xd³ = (xn³ + b·xd³)·yd²`, the output `(m0·m3, m1·m2, m1·m3)` satisfies the projective
    equation `Y²Z − X³ = b·Z³` of the target curve. -/
theorem iso_alg {K : Type} [CommRing K] (Xn Xd Yn Yd g b s t y z : K)
    (hid : g * Yn ^ 2 * Xd ^ 3 = (Xn ^ 3 + b * Xd ^ 3) * Yd ^ 2) (hy : y ^ 2 = z ^ 2 * g) :
    ((s * Xd) * (t * Yn * y)) ^ 2 * ((s * Xd) * (t * Yd * z)) - ((s * Xn) * (t * Yd * z)) ^ 3
      = b * ((s * Xd) * (t * Yd * z)) ^ 3 := by
  linear_combination (t ^ 3 * s ^ 3 * Yd * z * Xd ^ 3 * Yn ^ 2) * hy
    + (t ^ 3 * s ^ 3 * Yd * z * z ^ 2) * hid

/-! ### the coefficient lists -/

/-- the `i`-th coefficient list of `ISO_11_MAP_COEFFICIENTS` (`0`: x-numerator, `1`: x-denominator,
    `2`: y-numerator, `3`: y-denominator), constant term first, as integers -/
def iso11 (i : ℕ) : List ℤ := (h2c_ISO_11_MAP_COEFFICIENTS.getD i []).map fun c => getI c 0

theorem coeffs11_eq : h2c_ISO_11_MAP_COEFFICIENTS =
    [h2c_ISO_11_MAP_COEFFICIENTS.getD 0 [], h2c_ISO_11_MAP_COEFFICIENTS.getD 1 [],
     h2c_ISO_11_MAP_COEFFICIENTS.getD 2 [], h2c_ISO_11_MAP_COEFFICIENTS.getD 3 []] := by
  decide +kernel

/-- x-numerator of degree 11, x-denominator of degree 10, y-numerator and y-denominator of degree 15 -/
theorem iso11_length : (iso11 0).length = 12 ∧ (iso11 1).length = 11 ∧ (iso11 2).length = 16 ∧
    (iso11 3).length = 16 := by decide +kernel

/-- the coefficients of the curve polynomial `x³ + A'x + B'` of `E1'` -/
def g11 : List ℤ := [(h2c_ISO_11_B : ℤ), (h2c_ISO_11_A : ℤ), 0, 1]

/-- the kernel-checked polynomial identity: every coefficient of
    `g·yn²·xd³ − (xn³ + b·xd³)·yd²` (computed over `ℤ`, degree 63) is divisible by `p` -/
def check11 : Bool :=
  (pSub (pMul g11 (pMul (pPow (iso11 2) 2) (pPow (iso11 1) 3)))
        (pMul (pAdd (pPow (iso11 0) 3) (pSmul (optimized_bls12_381_b : ℤ) (pPow (iso11 1) 3)))
          (pPow (iso11 3) 2))).all fun c => c % (blsP : ℤ) == 0

theorem check11_true : check11 = true := by decide +kernel

/-! ### transport to `Fp` -/

/-- `ℤ → Fp`; on the model type this is `FQ(n)` (`f1c`) -/
def fZ : ℤ →+* F1 := Int.castRingHom F1

theorem fZ_apply (c : ℤ) : fZ c = f1c c := rfl

theorem fZ_eq_zero {c : ℤ} (h : c % (blsP : ℤ) = 0) : fZ c = 0 := by
  apply Fq.toZMod_injective
  show Fq.toZMod ((c : ℤ) : F1) = _
  rw [Fq.toZMod_intCast, Fq.toZMod_zero, ZMod.intCast_zmod_eq_zero_iff_dvd]
  exact Int.dvd_of_emod_eq_zero h

theorem ev_g11 (w : F1) : ev fZ g11 w = w ^ 3 + ISO_11_A * w + ISO_11_B := by
  have hA : fZ (h2c_ISO_11_A : ℤ) = ISO_11_A := rfl
  have hB : fZ (h2c_ISO_11_B : ℤ) = ISO_11_B := rfl
  simp only [g11, ev_cons, ev_nil, hA, hB, map_zero, map_one]
  ring

/-- **the isogeny identity in `Fp`**, for every `w` -/
theorem iso11_identity (w : F1) :
    (w ^ 3 + ISO_11_A * w + ISO_11_B) * ev fZ (iso11 2) w ^ 2 * ev fZ (iso11 1) w ^ 3 =
      (ev fZ (iso11 0) w ^ 3 + blsB * ev fZ (iso11 1) w ^ 3) * ev fZ (iso11 3) w ^ 2 := by
  have h := check11_true
  unfold check11 at h
  rw [List.all_eq_true] at h
  have h' := ev_eq_of_sub fZ _ _ (fun c hc => fZ_eq_zero (by simpa using h c hc)) w
  have hb : fZ (optimized_bls12_381_b : ℤ) = blsB := rfl
  simp only [ev_pMul, ev_pAdd, ev_pPow, ev_pSmul, ev_g11, hb] at h'
  linear_combination h'

/-! ### `iso_map_G1` unfolded -/

/-- the four Horner values of `iso_map_G1(x, y, z)` -/
def h11 (i : ℕ) (x z : F1) : F1 := isoHorner ((iso11 i).map f1c) x (zPowersOf z 15)

theorem isoMapG1_eq (x y z : F1) :
    isoMapG1 x y z =
      (h11 0 x z * (h11 3 x z * z), (h11 1 x z * z) * (h11 2 x z * y),
        (h11 1 x z * z) * (h11 3 x z * z)) := by
  unfold isoMapG1 h11 iso11
  rw [coeffs11_eq]
  simp only [List.map_cons, List.map_nil, List.getD_cons_zero, List.getD_cons_succ, List.map_map]
  rfl

theorem h11_eq (i : ℕ) (hi : (iso11 i) ≠ []) (hl : (iso11 i).length ≤ 16) (w z : F1) :
    h11 i (w * z) z = z ^ ((iso11 i).length - 1) * ev fZ (iso11 i) w := by
  unfold h11
  have e : (iso11 i).map f1c = (iso11 i).map fZ := rfl
  rw [e, ← ev_map]
  have := isoHorner_eq ((iso11 i).map fZ) (by simpa using hi) w z 15 (by simpa using hl)
  rw [List.length_map] at this
  exact this

theorem h11_vals (w z : F1) :
    h11 0 (w * z) z = z ^ 11 * ev fZ (iso11 0) w ∧ h11 1 (w * z) z = z ^ 10 * ev fZ (iso11 1) w ∧
    h11 2 (w * z) z = z ^ 15 * ev fZ (iso11 2) w ∧ h11 3 (w * z) z = z ^ 15 * ev fZ (iso11 3) w := by
  obtain ⟨l0, l1, l2, l3⟩ := iso11_length
  have ne : ∀ i n, (iso11 i).length = n + 1 → iso11 i ≠ [] := by
    intro i n h e; rw [e] at h; cases h
  refine ⟨?_, ?_, ?_, ?_⟩
  · rw [h11_eq 0 (ne _ _ l0) (by omega), l0]
  · rw [h11_eq 1 (ne _ _ l1) (by omega), l1]
  · rw [h11_eq 2 (ne _ _ l2) (by omega), l2]
  · rw [h11_eq 3 (ne _ _ l3) (by omega), l3]

/-- `iso_map_G1(x, y, z)` for `z ≠ 0`, in closed form with `w = x/z`:
    `X₃ = z^27·xn(w)·yd(w)`, `Y₃ = z^26·xd(w)·yn(w)·y`, `Z₃ = z^27·xd(w)·yd(w)`. -/
theorem isoMapG1_closed (x y z : F1) (hz : z ≠ 0) :
    isoMapG1 x y z =
      ((z ^ 11 * ev fZ (iso11 0) (x / z)) * (z ^ 15 * ev fZ (iso11 3) (x / z) * z),
       (z ^ 10 * ev fZ (iso11 1) (x / z) * z) * (z ^ 15 * ev fZ (iso11 2) (x / z) * y),
       (z ^ 10 * ev fZ (iso11 1) (x / z) * z) * (z ^ 15 * ev fZ (iso11 3) (x / z) * z)) := by
  have hx : x = (x / z) * z := (div_mul_cancel₀ x hz).symm
  obtain ⟨e0, e1, e2, e3⟩ := h11_vals (x / z) z
  rw [← hx] at e0 e1 e2 e3
  rw [isoMapG1_eq, e0, e1, e2, e3]

/-- **projective curve equation of the image**: for `z ≠ 0` and `(x : y : z)` on `E1'`, the output
    `(X₃, Y₃, Z₃)` of `iso_map_G1` satisfies `Y₃²·Z₃ − X₃³ = 4·Z₃³` -/
theorem isoMapG1_proj (x y z : F1) (hz : z ≠ 0)
    (h : (y / z) ^ 2 = (x / z) ^ 3 + ISO_11_A * (x / z) + ISO_11_B) :
    (isoMapG1 x y z).2.1 ^ 2 * (isoMapG1 x y z).2.2 - (isoMapG1 x y z).1 ^ 3
      = blsB * (isoMapG1 x y z).2.2 ^ 3 := by
  rw [isoMapG1_closed x y z hz]
  have hy : y ^ 2 = z ^ 2 * ((x / z) ^ 3 + ISO_11_A * (x / z) + ISO_11_B) := by
    rw [← h]; field_simp
  have := iso_alg (ev fZ (iso11 0) (x / z)) (ev fZ (iso11 1) (x / z)) (ev fZ (iso11 2) (x / z))
    (ev fZ (iso11 3) (x / z)) _ blsB (z ^ 11) (z ^ 15) y z (iso11_identity (x / z)) hy
  show _ = _
  linear_combination this

end PyEcc.IsoSem
