/-
  PyEcc.Lemmas.SwuShape — names for the intermediate values of `optimized_swu_G1(t)` and the shape of
  its result.  Core Lean only (no Mathlib), so that every `+ * ^ - 0 1` below is, syntactically, the
  operation of the executable model `PyEcc/Model/Fq.lean` that `optimizedSwuG1` itself uses.
-/
import PyEcc.Model.Swu

namespace PyEcc.SwuSem

/-- `temp = Z t² + (Z t²)²` -/
def swuT (t : F1) : F1 := ISO_11_Z * t ^ 2 + (ISO_11_Z * t ^ 2) ^ 2
/-- `denominator` after the exceptional-case fix -/
def swuD (t : F1) : F1 :=
  if -(ISO_11_A * swuT t) = (0 : F1) then ISO_11_Z * ISO_11_A else -(ISO_11_A * swuT t)
/-- `numerator` (before the second-branch update) -/
def swuN (t : F1) : F1 := ISO_11_B * (swuT t + (1 : F1))
/-- `v = D³` -/
def swuV (t : F1) : F1 := swuD t ^ 3
/-- `u = N³ + A·N·D² + B·D³` -/
def swuU (t : F1) : F1 := swuN t ^ 3 + ISO_11_A * swuN t * swuD t ^ 2 + ISO_11_B * swuV t
/-- `is_root` -/
def swuOk (t : F1) : Bool := (sqrtDivisionFq (swuU t) (swuV t)).1
/-- the candidate returned by `sqrt_division_FQ` -/
def swuR (t : F1) : F1 := (sqrtDivisionFq (swuU t) (swuV t)).2
/-- `y` before the sign fix -/
def swuY0 (t : F1) : F1 := if swuOk t then swuR t else swuR t * t ^ 3 * SQRT_MINUS_11_CUBED
/-- `y` after the sign fix, before the multiplication by `denominator` -/
def swuY (t : F1) : F1 := if t.sgn0 ≠ (swuY0 t).sgn0 then -(swuY0 t) else swuY0 t
/-- final `numerator` -/
def swuN' (t : F1) : F1 := if swuOk t then swuN t else swuN t * (ISO_11_Z * t ^ 2)

/-- the shape of the result of `optimized_swu_G1(t)` -/
theorem optimizedSwuG1_eq (t : F1) : optimizedSwuG1 t = (swuN' t, swuY t * swuD t, swuD t) := by
  unfold swuN' swuY swuY0 swuOk swuR swuU swuV swuN swuD swuT
  simp only [optimizedSwuG1]
  generalize sqrtDivisionFq _ _ = r
  obtain ⟨b, y⟩ := r
  cases b
  · simp only [Bool.not_false, if_true, Bool.false_eq_true, if_false]
  · simp only [Bool.not_true, if_true, Bool.false_eq_true, if_false]

/-! ### executable arithmetic in the cubic algebra `F1[x]/(x³ + A'x + B')`
  (used to show, by kernel evaluation of `x^p`, that `x³ + A'x + B'` has no root in `F1`) -/

/-- product of `a0 + a1·x + a2·x²` and `b0 + b1·x + b2·x²`, reduced by `x³ = −A'x − B'` -/
def mulK (a b : F1 × F1 × F1) : F1 × F1 × F1 :=
  let c0 := a.1 * b.1
  let c1 := a.1 * b.2.1 + a.2.1 * b.1
  let c2 := a.1 * b.2.2 + a.2.1 * b.2.1 + a.2.2 * b.1
  let c3 := a.2.1 * b.2.2 + a.2.2 * b.2.1
  let c4 := a.2.2 * b.2.2
  (c0 - ISO_11_B * c3, c1 - ISO_11_A * c3 - ISO_11_B * c4, c2 - ISO_11_A * c4)

/-- square-and-multiply in the cubic algebra (same loop as `FQ.__pow__`), with fuel -/
def powAuxK : Nat → F1 × F1 × F1 → F1 × F1 × F1 → Nat → F1 × F1 × F1
  | 0, o, _, _ => o
  | f+1, o, t, e =>
    if e = 0 then o
    else powAuxK f (if e % 2 = 1 then mulK o t else o) (mulK t t) (e / 2)

/-- `x^p mod (x³ + A'x + B')` -/
def xPowP : F1 × F1 × F1 := powAuxK blsP ((1 : F1), (0 : F1), (0 : F1)) ((0 : F1), (1 : F1), (0 : F1)) blsP

end PyEcc.SwuSem
