/-
  PyEcc.Lemmas.Hb2FactsBn — GENERATED kernel-evaluated facts about concrete points of the bn128 twist
  `E'(Fp²)` (`y² = x³ + 3/(9+i)`, coordinates in the executable model type of `optimized_bn128` `FQ2` objects), used
  to determine `#E'(Fp²) = (2p − r)·r`: a point of order `q` for each prime factor `q` of
  `2p − r = 10069 · 5864401 · 1875725156269 · C` (`C` a 178-bit prime), and `(−b2)^((p²−1)/3) ≠ 1` (no point of
  order two).  Every fact is one run of the generated `optimized_bn128` curve code / the modelled `FQ2`
  arithmetic (`decide +kernel`).  Points found by tools (Python), checked here.
-/
import PyEcc.Sem.TransferFqp

set_option maxRecDepth 100000

namespace PyEcc.Hb2
open PyEcc PyEcc.Gen PyEcc.Gen.Consts PyEcc.FqpSem PyEcc.Transfer

/-- what is checked for a point `T` of prime order `q` -/
def CycFactsBn (T : BnG2Pt) (q : ℕ) : Prop :=
  CanonT T ∧ OptBn.is_on_curve T bnB2 = true ∧ OptBn.is_inf T = false
    ∧ OptBn.is_inf (OptBn.multiply T q) = true

instance (T : BnG2Pt) (q : ℕ) : Decidable (CycFactsBn T q) := by unfold CycFactsBn; infer_instance

/-- the 178-bit prime factor of `2p − r` -/
def bnC : ℕ := 197620364512881247228717050342013327560683201906968909

/-- the generator `G2` of `optimized_bn128`: canonical, on the twist curve, not ∞, killed by `curve_order` -/
theorem bnG2_facts : CycFactsBn bnG2 optimized_bn128_curve_order := by decide +kernel

/-- `(−b2)^((p²−1)/3) ≠ 1` in the modelled `FQ2`: `−b2` is not a cube -/
theorem bn_neg_b2_pow : Canon bnB2 ∧ bnB2 ≠ 0 ∧ (-bnB2) ^ ((bnP ^ 2 - 1) / 3) ≠ 1 := by decide +kernel

/-- a point of order 10069 of the bn128 twist -/
def ptbn_10069 : BnG2Pt := (⟨[9623466969819186210096099112386315455791237079390456581453738055980425269292, 17692382642665795858331459766236260286187917687754477715501738521284345041308]⟩, ⟨[12865421648231312951340958604967729539437910403193079944083607760704855770454, 14259550034904450902393517181334394889178378255868966757665071873786609510755]⟩, ⟨[1, 0]⟩)
theorem ptbn_10069_facts : CycFactsBn ptbn_10069 10069 := by decide +kernel

/-- a point of order 5864401 of the bn128 twist -/
def ptbn_5864401 : BnG2Pt := (⟨[6802774311692061239147914588924630883413075268849005015308810083529713906404, 2007449563763677219949445264447460429512417289314188260361517727208049572911]⟩, ⟨[2700652042107284435299279984891723478951608875333647380207543353466509472078, 17997379348567724064770286098920279168964581121340791520190788106854174478668]⟩, ⟨[1, 0]⟩)
theorem ptbn_5864401_facts : CycFactsBn ptbn_5864401 5864401 := by decide +kernel

/-- a point of order 1875725156269 of the bn128 twist -/
def ptbn_1875725156269 : BnG2Pt := (⟨[9299345632973749624958914052096019679118660634734387053005749413756015057140, 12832369548772185279177404432682282472020366604252211252632292338880691753111]⟩, ⟨[6899405629974735862643051094613982585316431174900338183523626950366625637392, 13574025087019572892773054184368487053167116519138101118520768513514386056929]⟩, ⟨[1, 0]⟩)
theorem ptbn_1875725156269_facts : CycFactsBn ptbn_1875725156269 1875725156269 := by decide +kernel

/-- a point of order bnC of the bn128 twist -/
def ptbn_C : BnG2Pt := (⟨[5490625945880956701322516856606090112533827442273378112602046815279215459810, 5256559682079401526478338507835237520546066524746659229454838606561515070957]⟩, ⟨[18336626198097072709156157380110605728840577171804651926704525737008246269551, 15227366733205547649501293969420982421844579393002720848734642488450204116916]⟩, ⟨[1, 0]⟩)
theorem ptbn_C_facts : CycFactsBn ptbn_C bnC := by decide +kernel

end PyEcc.Hb2
