/-
  PyEcc.Lemmas.BlsAbstract — the BLS signature protocol over ABSTRACT groups (pure algebra).

  Setting: additive commutative groups `G1`, `G2`, a commutative group `GT`, a number `r`, a map
  `e : G2 → G1 → GT`, a "generator" `g1 : G1` with `r • g1 = 0`, and a "hash" `H : Msg → G2` into the
  `r`-torsion.  The only facts about `e` that are used are bundled in `IsPairing r e g1`:

    * (HB1) `e` is additive in each argument on `r`-torsion points,
    * (ND)  non-degeneracy against the generator: `r • Q = 0 → e Q g1 = 1 → Q = 0`.

  From these: honest signatures verify; `verify` accepts EXACTLY the canonical signature (with the
  corollaries for each class of wrong candidate, each with its exact side condition); the aggregate
  check accepts exactly the group sum; order / grouping independence; the fast aggregate check; and the
  single-element perturbation lemmas.

  The shape of the checks is the one the py_ecc code uses (`_CoreVerify`:
  `pairing(sig, G1) * pairing(H(m), −PK)`, `_CoreAggregateVerify`: `∏ pairing(H(mᵢ), PKᵢ) *
  pairing(sig, −G1)`, each followed by the final exponentiation and `== 1`).
  `PyEcc/Props/C0{1,2,3}_Proto.lean` instantiate this file at Mathlib's elliptic-curve groups.
-/
import Mathlib.Algebra.BigOperators.Group.List.Basic
import Mathlib.GroupTheory.OrderOfElement
import Mathlib.Data.Nat.Prime.Basic
import Mathlib.Data.Int.GCD
import Mathlib.Data.List.Perm.Basic
import Mathlib.Algebra.BigOperators.Group.List.Lemmas
import Mathlib.Tactic.Abel

namespace PyEcc.BlsAbs

variable {G1 G2 GT Msg : Type*} [AddCommGroup G1] [AddCommGroup G2] [CommGroup GT]

/-- **The hypothesis bundle on the pairing** (abstract form).  Plain words:
    * `add_left`  (HB1): for `r`-torsion `Q`, `Q'`, `P`: `e (Q + Q') P = e Q P * e Q' P`;
    * `add_right` (HB1): for `r`-torsion `Q`, `P`, `P'`: `e Q (P + P') = e Q P * e Q P'`;
    * `nondeg`    (ND):  an `r`-torsion `Q` that pairs trivially with the generator `g1` is `0`. -/
structure IsPairing (r : ℕ) (e : G2 → G1 → GT) (g1 : G1) : Prop where
  add_left : ∀ {Q Q' : G2} {P : G1}, r • Q = 0 → r • Q' = 0 → r • P = 0 →
    e (Q + Q') P = e Q P * e Q' P
  add_right : ∀ {Q : G2} {P P' : G1}, r • Q = 0 → r • P = 0 → r • P' = 0 →
    e Q (P + P') = e Q P * e Q P'
  nondeg : ∀ {Q : G2}, r • Q = 0 → e Q g1 = 1 → Q = 0

/-! ### the protocol -/

/-- public key of secret key `sk` -/
def pk (g1 : G1) (sk : ℕ) : G1 := sk • g1
/-- signature of `m` under `sk` -/
def sign (H : Msg → G2) (sk : ℕ) (m : Msg) : G2 := sk • H m
/-- the check of `_CoreVerify`: `e(S, g1) · e(H(m), −PK) = 1` -/
def verify (e : G2 → G1 → GT) (g1 : G1) (H : Msg → G2) (PK : G1) (m : Msg) (S : G2) : Prop :=
  e S g1 * e (H m) (-PK) = 1
/-- the check of `_CoreAggregateVerify`: `∏ e(H(mᵢ), PKᵢ) · e(S, −g1) = 1` -/
def aggVerify (e : G2 → G1 → GT) (g1 : G1) (H : Msg → G2) (l : List (G1 × Msg)) (S : G2) : Prop :=
  (l.map fun x => e (H x.2) x.1).prod * e S (-g1) = 1
/-- the check of `FastAggregateVerify`: the aggregate key `Σ PKᵢ` must not be the identity
    (IETF: `KeyValidate` of the aggregate key) and `S` must verify under it -/
def fastAggVerify (e : G2 → G1 → GT) (g1 : G1) (H : Msg → G2) (PKs : List G1) (m : Msg) (S : G2) :
    Prop :=
  PKs.sum ≠ 0 ∧ verify e g1 H PKs.sum m S

/-! ### consequences of additivity -/

section
variable {r : ℕ} {e : G2 → G1 → GT} {g1 : G1} (he : IsPairing r e g1)
include he

theorem IsPairing.zero_left {P : G1} (hP : r • P = 0) : e 0 P = 1 := by
  have h := he.add_left (Q := 0) (Q' := 0) (P := P) (smul_zero r) (smul_zero r) hP
  rw [add_zero] at h
  exact (mul_eq_left (a := e 0 P)).mp h.symm

theorem IsPairing.zero_right {Q : G2} (hQ : r • Q = 0) : e Q 0 = 1 := by
  have h := he.add_right (Q := Q) (P := 0) (P' := 0) hQ (smul_zero r) (smul_zero r)
  rw [add_zero] at h
  exact (mul_eq_left (a := e Q 0)).mp h.symm

theorem IsPairing.neg_left {Q : G2} {P : G1} (hQ : r • Q = 0) (hP : r • P = 0) :
    e (-Q) P = (e Q P)⁻¹ := by
  have h := he.add_left (Q := Q) (Q' := -Q) (P := P) hQ (by rw [smul_neg, hQ, neg_zero]) hP
  rw [add_neg_cancel, he.zero_left hP] at h
  exact eq_inv_of_mul_eq_one_right h.symm

theorem IsPairing.neg_right {Q : G2} {P : G1} (hQ : r • Q = 0) (hP : r • P = 0) :
    e Q (-P) = (e Q P)⁻¹ := by
  have h := he.add_right (Q := Q) (P := P) (P' := -P) hQ hP (by rw [smul_neg, hP, neg_zero])
  rw [add_neg_cancel, he.zero_right hQ] at h
  exact eq_inv_of_mul_eq_one_right h.symm

theorem IsPairing.nsmul_left {Q : G2} {P : G1} (hQ : r • Q = 0) (hP : r • P = 0) (n : ℕ) :
    e (n • Q) P = e Q P ^ n := by
  induction n with
  | zero => rw [zero_smul, pow_zero]; exact he.zero_left hP
  | succ n ih =>
    rw [succ_nsmul, he.add_left (by rw [smul_comm, hQ, smul_zero]) hQ hP, ih, pow_succ]

theorem IsPairing.nsmul_right {Q : G2} {P : G1} (hQ : r • Q = 0) (hP : r • P = 0) (n : ℕ) :
    e Q (n • P) = e Q P ^ n := by
  induction n with
  | zero => rw [zero_smul, pow_zero]; exact he.zero_right hQ
  | succ n ih =>
    rw [succ_nsmul, he.add_right hQ (by rw [smul_comm, hP, smul_zero]) hP, ih, pow_succ]

/-- moving a scalar across: `e(Q, n•P) = e(n•Q, P)` -/
theorem IsPairing.nsmul_swap {Q : G2} {P : G1} (hQ : r • Q = 0) (hP : r • P = 0) (n : ℕ) :
    e Q (n • P) = e (n • Q) P := by
  rw [he.nsmul_left hQ hP, he.nsmul_right hQ hP]

/-- `e(Q, g1) = e(Q', g1)` forces `Q = Q'` on the `r`-torsion -/
theorem IsPairing.inj_left (hg : r • g1 = 0) {Q Q' : G2} (hQ : r • Q = 0) (hQ' : r • Q' = 0)
    (h : e Q g1 = e Q' g1) : Q = Q' := by
  have hd : r • (Q + -Q') = 0 := by rw [smul_add, smul_neg, hQ, hQ', neg_zero, add_zero]
  have h1 : e (Q + -Q') g1 = 1 := by
    rw [he.add_left hQ (by rw [smul_neg, hQ', neg_zero]) hg, he.neg_left hQ' hg, h,
      mul_inv_cancel]
  have := he.nondeg hd h1
  rwa [← sub_eq_add_neg, sub_eq_zero] at this

/-! ### C01 / C02: single signatures -/

/-- **Core of `Verify`.**  For an `r`-torsion candidate `S` and an `r`-torsion hash point `h`:
    `e(S, g1) · e(h, −(sk•g1)) = 1` iff `S = sk • h`. -/
theorem core_verify_iff (hg : r • g1 = 0) {S h : G2} (hS : r • S = 0) (hh : r • h = 0) (sk : ℕ) :
    e S g1 * e h (-(sk • g1)) = 1 ↔ S = sk • h := by
  have hk : r • (sk • g1) = 0 := by rw [smul_comm, hg, smul_zero]
  have hkh : r • (sk • h) = 0 := by rw [smul_comm, hh, smul_zero]
  rw [he.neg_right hh hk, he.nsmul_swap hh hg, mul_inv_eq_one]
  exact ⟨he.inj_left hg hS hkh, fun h => by rw [h]⟩

variable {H : Msg → G2}

/-- **Honest signatures verify** (C01): `verify (sk•g1) m (sk • H m)`. -/
theorem abs_sign_verify (hg : r • g1 = 0) (hH : ∀ m, r • H m = 0) (sk : ℕ) (m : Msg) :
    verify e g1 H (pk g1 sk) m (sign H sk m) :=
  (core_verify_iff he hg (by rw [sign, smul_comm, hH, smul_zero]) (hH m) sk).mpr rfl

/-- **`verify` accepts exactly the canonical signature** (C02): for an `r`-torsion candidate `S`,
    `verify (sk•g1) m S ↔ S = sk • H m`. -/
theorem abs_verify_iff (hg : r • g1 = 0) (hH : ∀ m, r • H m = 0) (sk : ℕ) (m : Msg) {S : G2}
    (hS : r • S = 0) : verify e g1 H (pk g1 sk) m S ↔ S = sign H sk m :=
  core_verify_iff he hg hS (hH m) sk

end

/-! ### when are two scalar multiples equal -/

/-- on a non-zero point of prime-`r` torsion, `a • h = b • h` iff `a ≡ b (mod r)` -/
theorem nsmul_eq_nsmul_iff {G : Type*} [AddCommGroup G] {r : ℕ} (hr : r.Prime) {h : G}
    (hh : r • h = 0) (h0 : h ≠ 0) (a b : ℕ) : a • h = b • h ↔ a ≡ b [MOD r] := by
  have ho : addOrderOf h = r := by
    have hd := addOrderOf_dvd_of_nsmul_eq_zero hh
    rcases (Nat.dvd_prime hr).mp hd with h1 | h1
    · exact (h0 (AddMonoid.addOrderOf_eq_one_iff.mp h1)).elim
    · exact h1
  rw [← ho]
  exact nsmul_eq_nsmul_iff_modEq

/-- for `r` prime and a scalar `a ≢ 0 (mod r)`, `a •` is injective on the `r`-torsion -/
theorem nsmul_cancel {G : Type*} [AddCommGroup G] {r : ℕ} (hr : r.Prime) {a : ℕ}
    (ha : ¬ r ∣ a) {x y : G} (hx : r • x = 0) (hy : r • y = 0) (h : a • x = a • y) : x = y := by
  have hd : r • (x - y) = 0 := by rw [smul_sub, hx, hy, sub_zero]
  have ha' : a • (x - y) = 0 := by rw [smul_sub, h, sub_self]
  have h1 := addOrderOf_dvd_of_nsmul_eq_zero hd
  have h2 := addOrderOf_dvd_of_nsmul_eq_zero ha'
  rcases (Nat.dvd_prime hr).mp h1 with h3 | h3
  · exact sub_eq_zero.mp (AddMonoid.addOrderOf_eq_one_iff.mp h3)
  · rw [h3] at h2; exact (ha h2).elim

/-- for odd `r`, an `r`-torsion point with `2 • x = 0` is `0` -/
theorem eq_zero_of_two_nsmul {G : Type*} [AddCommGroup G] {r : ℕ} (hr : r.Prime) (h2 : r ≠ 2)
    {x : G} (hx : r • x = 0) (h : 2 • x = 0) : x = 0 := by
  have : ¬ r ∣ 2 := fun hd => h2 ((Nat.prime_dvd_prime_iff_eq hr Nat.prime_two).mp hd)
  exact nsmul_cancel hr this hx (smul_zero r) (by rw [h, smul_zero])

/-! ### C02 corollaries: each class of wrong candidate, with its exact side condition -/

section
variable {r : ℕ} {e : G2 → G1 → GT} {g1 : G1} (he : IsPairing r e g1) {H : Msg → G2}
include he

/-- the identity `0` verifies only when the honest signature is itself `0` -/
theorem abs_verify_zero_iff (hg : r • g1 = 0) (hH : ∀ m, r • H m = 0) (sk : ℕ) (m : Msg) :
    verify e g1 H (pk g1 sk) m 0 ↔ sign H sk m = 0 := by
  rw [abs_verify_iff he hg hH sk m (smul_zero r)]; exact eq_comm

/-- `−S` (with `S` the honest signature) verifies only when `S = 0`; needs `r` an odd prime -/
theorem abs_verify_neg_iff (hr : r.Prime) (h2 : r ≠ 2) (hg : r • g1 = 0) (hH : ∀ m, r • H m = 0)
    (sk : ℕ) (m : Msg) : verify e g1 H (pk g1 sk) m (-(sign H sk m)) ↔ sign H sk m = 0 := by
  have hS : r • sign H sk m = 0 := by rw [sign, smul_comm, hH, smul_zero]
  rw [abs_verify_iff he hg hH sk m (by rw [smul_neg, hS, neg_zero])]
  constructor
  · intro h
    apply eq_zero_of_two_nsmul hr h2 hS
    rw [two_nsmul]; nth_rewrite 1 [← h]; exact neg_add_cancel _
  · intro h; rw [h, neg_zero]

/-- `2 • S` verifies only when `S = 0` -/
theorem abs_verify_double_iff (hg : r • g1 = 0) (hH : ∀ m, r • H m = 0) (sk : ℕ) (m : Msg) :
    verify e g1 H (pk g1 sk) m (2 • sign H sk m) ↔ sign H sk m = 0 := by
  have hS : r • sign H sk m = 0 := by rw [sign, smul_comm, hH, smul_zero]
  rw [abs_verify_iff he hg hH sk m (by rw [smul_comm, hS, smul_zero]), two_nsmul]
  exact add_eq_left

/-- `S + T` with `T` in the `r`-torsion verifies only when `T = 0` -/
theorem abs_verify_add_iff (hg : r • g1 = 0) (hH : ∀ m, r • H m = 0) (sk : ℕ) (m : Msg) {T : G2}
    (hT : r • T = 0) : verify e g1 H (pk g1 sk) m (sign H sk m + T) ↔ T = 0 := by
  have hS : r • sign H sk m = 0 := by rw [sign, smul_comm, hH, smul_zero]
  rw [abs_verify_iff he hg hH sk m (by rw [smul_add, hS, hT, add_zero])]
  exact add_eq_left

/-- any `r`-torsion candidate different from the honest signature is rejected -/
theorem abs_verify_ne (hg : r • g1 = 0) (hH : ∀ m, r • H m = 0) (sk : ℕ) (m : Msg) {S : G2}
    (hS : r • S = 0) (hne : S ≠ sign H sk m) : ¬ verify e g1 H (pk g1 sk) m S :=
  fun h => hne ((abs_verify_iff he hg hH sk m hS).mp h)

/-- **Other key.**  The signature under `sk` verifies under the key of `sk'` iff
    `sk • H m = sk' • H m`; when `H m ≠ 0` (and `r` prime) this is `sk ≡ sk' (mod r)`. -/
theorem abs_verify_other_key_iff (hr : r.Prime) (hg : r • g1 = 0) (hH : ∀ m, r • H m = 0)
    (sk sk' : ℕ) (m : Msg) (h0 : H m ≠ 0) :
    verify e g1 H (pk g1 sk') m (sign H sk m) ↔ sk ≡ sk' [MOD r] := by
  rw [abs_verify_iff he hg hH sk' m (by rw [sign, smul_comm, hH, smul_zero])]
  exact nsmul_eq_nsmul_iff hr (hH m) h0 sk sk'

/-- other key, rejection form: `sk' ≢ sk (mod r)` and `H m ≠ 0` -/
theorem abs_verify_other_key (hr : r.Prime) (hg : r • g1 = 0) (hH : ∀ m, r • H m = 0)
    (sk sk' : ℕ) (m : Msg) (h0 : H m ≠ 0) (hne : ¬ sk ≡ sk' [MOD r]) :
    ¬ verify e g1 H (pk g1 sk') m (sign H sk m) :=
  fun h => hne ((abs_verify_other_key_iff he hr hg hH sk sk' m h0).mp h)

/-- **Other message.**  The signature of `m` verifies for `m'` iff `sk • H m = sk • H m'`; for
    `sk ≢ 0 (mod r)` (and `r` prime) this is `H m = H m'`. -/
theorem abs_verify_other_msg_iff (hr : r.Prime) (hg : r • g1 = 0) (hH : ∀ m, r • H m = 0)
    (sk : ℕ) (hsk : ¬ r ∣ sk) (m m' : Msg) :
    verify e g1 H (pk g1 sk) m' (sign H sk m) ↔ H m = H m' := by
  rw [abs_verify_iff he hg hH sk m' (by rw [sign, smul_comm, hH, smul_zero])]
  exact ⟨nsmul_cancel hr hsk (hH m) (hH m'), fun h => by rw [sign, sign, h]⟩

/-- other message, rejection form: `H m' ≠ H m` and `sk ≢ 0 (mod r)` -/
theorem abs_verify_other_msg (hr : r.Prime) (hg : r • g1 = 0) (hH : ∀ m, r • H m = 0)
    (sk : ℕ) (hsk : ¬ r ∣ sk) (m m' : Msg) (hne : H m' ≠ H m) :
    ¬ verify e g1 H (pk g1 sk) m' (sign H sk m) :=
  fun h => hne ((abs_verify_other_msg_iff he hr hg hH sk hsk m m').mp h).symm

end

/-! ### C03: aggregation -/

section
variable {r : ℕ} {e : G2 → G1 → GT} {g1 : G1} (he : IsPairing r e g1)
include he

/-- **Core of `AggregateVerify`.**  For `r`-torsion hash points `hᵢ`, secret keys `skᵢ` and an
    `r`-torsion candidate `S`: `∏ e(hᵢ, skᵢ•g1) · e(S, −g1) = 1` iff `S = Σ skᵢ • hᵢ`. -/
theorem core_aggregate_iff (hg : r • g1 = 0) (l : List (ℕ × G2)) (hl : ∀ x ∈ l, r • x.2 = 0)
    {S : G2} (hS : r • S = 0) :
    (l.map fun x => e x.2 (x.1 • g1)).prod * e S (-g1) = 1 ↔ S = (l.map fun x => x.1 • x.2).sum := by
  have hsum : ∀ l : List (ℕ × G2), (∀ x ∈ l, r • x.2 = 0) →
      r • (l.map fun x => x.1 • x.2).sum = 0 ∧
      (l.map fun x => e x.2 (x.1 • g1)).prod = e (l.map fun x => x.1 • x.2).sum g1 := by
    intro l
    induction l with
    | nil => intro _; exact ⟨smul_zero r, (he.zero_left hg).symm⟩
    | cons x xs ih =>
      intro hx
      obtain ⟨h1, h2⟩ := ih (fun y hy => hx y (List.mem_cons_of_mem _ hy))
      have hx2 := hx x (List.mem_cons_self ..)
      have hkx : r • (x.1 • x.2) = 0 := by rw [smul_comm, hx2, smul_zero]
      simp only [List.map_cons, List.sum_cons, List.prod_cons]
      refine ⟨by rw [smul_add, hkx, h1, add_zero], ?_⟩
      rw [he.add_left hkx h1 hg, h2, he.nsmul_swap hx2 hg]
  obtain ⟨h1, h2⟩ := hsum l hl
  rw [h2, he.neg_right hS hg, mul_inv_eq_one]
  exact ⟨fun h => (he.inj_left hg h1 hS h).symm, fun h => by rw [h]⟩

variable {H : Msg → G2}

/-- **`aggVerify` accepts exactly the group sum** (C03): with keys `skᵢ • g1` and messages `mᵢ`,
    an `r`-torsion `S` is accepted iff `S = Σ skᵢ • H mᵢ`. -/
theorem abs_aggregate_verify_iff (hg : r • g1 = 0) (hH : ∀ m, r • H m = 0) (l : List (ℕ × Msg))
    {S : G2} (hS : r • S = 0) :
    aggVerify e g1 H (l.map fun x => (pk g1 x.1, x.2)) S ↔ S = (l.map fun x => sign H x.1 x.2).sum := by
  have := core_aggregate_iff he hg (l.map fun x => (x.1, H x.2))
    (by intro x hx; obtain ⟨y, _, rfl⟩ := List.mem_map.mp hx; exact hH _) hS
  simpa [aggVerify, pk, sign, List.map_map, Function.comp_def] using this

/-- **`fastAggVerify`** (one shared message, aggregate key `Σ skᵢ • g1`): an `r`-torsion `S` is accepted
    iff the aggregate key is not the identity AND `S = (Σ skᵢ) • H m = Σ skᵢ • H m`.
    The first conjunct is the IETF-mandated rejection of an identity aggregate key. -/
theorem abs_fast_aggregate_verify_iff (hg : r • g1 = 0) (hH : ∀ m, r • H m = 0) (sks : List ℕ)
    (m : Msg) {S : G2} (hS : r • S = 0) :
    fastAggVerify e g1 H (sks.map (pk g1)) m S ↔
      (sks.map (pk g1)).sum ≠ 0 ∧ S = (sks.map fun sk => sign H sk m).sum := by
  have hk : (sks.map (pk g1)).sum = pk g1 sks.sum := by
    induction sks with
    | nil => simp [pk]
    | cons a l ih => simp only [List.map_cons, List.sum_cons, ih, pk, add_smul]
  have hs : (sks.map fun sk => sign H sk m).sum = sign H sks.sum m := by
    clear hk
    induction sks with
    | nil => simp [sign]
    | cons a l ih => rw [List.map_cons, List.sum_cons, ih, List.sum_cons]; simp only [sign, add_smul]
  unfold fastAggVerify
  rw [hk, hs, abs_verify_iff he hg hH _ m hS]

/-- **Single-element perturbations** (dropping / duplicating / substituting a signer, reordering …):
    if `S` is accepted for the list `l` and `S'` for `l'`, then `S = S'` iff the two required sums are
    equal. -/
theorem abs_aggregate_accept_eq_iff (hg : r • g1 = 0) (hH : ∀ m, r • H m = 0)
    (l l' : List (ℕ × Msg)) {S S' : G2} (hS : r • S = 0) (hS' : r • S' = 0)
    (h : aggVerify e g1 H (l.map fun x => (pk g1 x.1, x.2)) S)
    (h' : aggVerify e g1 H (l'.map fun x => (pk g1 x.1, x.2)) S') :
    S = S' ↔ (l.map fun x => sign H x.1 x.2).sum = (l'.map fun x => sign H x.1 x.2).sum := by
  rw [(abs_aggregate_verify_iff he hg hH l hS).mp h, (abs_aggregate_verify_iff he hg hH l' hS').mp h']

/-- perturbation, acceptance form: a signature accepted for `l` is accepted for `l'` iff the two
    required sums coincide -/
theorem abs_aggregate_transfer_iff (hg : r • g1 = 0) (hH : ∀ m, r • H m = 0)
    (l l' : List (ℕ × Msg)) {S : G2} (hS : r • S = 0)
    (h : aggVerify e g1 H (l.map fun x => (pk g1 x.1, x.2)) S) :
    aggVerify e g1 H (l'.map fun x => (pk g1 x.1, x.2)) S ↔
      (l.map fun x => sign H x.1 x.2).sum = (l'.map fun x => sign H x.1 x.2).sum := by
  rw [abs_aggregate_verify_iff he hg hH l' hS, ← (abs_aggregate_verify_iff he hg hH l hS).mp h]

/-- dropping a signer `(sk, m)` from an accepted aggregate keeps it accepted iff that signer's own
    signature is `0` -/
theorem abs_aggregate_drop_iff (hg : r • g1 = 0) (hH : ∀ m, r • H m = 0) (x : ℕ × Msg)
    (l : List (ℕ × Msg)) {S : G2} (hS : r • S = 0)
    (h : aggVerify e g1 H ((x :: l).map fun x => (pk g1 x.1, x.2)) S) :
    aggVerify e g1 H (l.map fun x => (pk g1 x.1, x.2)) S ↔ sign H x.1 x.2 = 0 := by
  rw [abs_aggregate_transfer_iff he hg hH (x :: l) l hS h]
  simp only [List.map_cons, List.sum_cons]
  exact add_eq_right

/-- duplicating a signer `(sk, m)` in an accepted aggregate keeps it accepted iff that signer's own
    signature is `0` -/
theorem abs_aggregate_dup_iff (hg : r • g1 = 0) (hH : ∀ m, r • H m = 0) (x : ℕ × Msg)
    (l : List (ℕ × Msg)) {S : G2} (hS : r • S = 0)
    (h : aggVerify e g1 H ((x :: l).map fun x => (pk g1 x.1, x.2)) S) :
    aggVerify e g1 H ((x :: x :: l).map fun x => (pk g1 x.1, x.2)) S ↔ sign H x.1 x.2 = 0 := by
  rw [abs_aggregate_transfer_iff he hg hH (x :: l) (x :: x :: l) hS h]
  simp only [List.map_cons, List.sum_cons]
  constructor
  · intro h; exact (add_eq_right.mp h.symm)
  · intro h; rw [h, zero_add, zero_add]

/-- substituting signer `x` by `y` in an accepted aggregate keeps it accepted iff their signatures are
    equal -/
theorem abs_aggregate_subst_iff (hg : r • g1 = 0) (hH : ∀ m, r • H m = 0) (x y : ℕ × Msg)
    (l : List (ℕ × Msg)) {S : G2} (hS : r • S = 0)
    (h : aggVerify e g1 H ((x :: l).map fun x => (pk g1 x.1, x.2)) S) :
    aggVerify e g1 H ((y :: l).map fun x => (pk g1 x.1, x.2)) S ↔
      sign H x.1 x.2 = sign H y.1 y.2 := by
  rw [abs_aggregate_transfer_iff he hg hH (x :: l) (y :: l) hS h]
  simp only [List.map_cons, List.sum_cons]
  exact add_left_inj _

end

/-! ### order and grouping independence of the aggregate (no pairing needed) -/

/-- the aggregate of a permuted list of signatures is the same group element -/
theorem abs_aggregate_perm {l l' : List G2} (h : l.Perm l') : l.sum = l'.sum := h.sum_eq

/-- aggregating in groups and then aggregating the partial aggregates gives the same element -/
theorem abs_aggregate_append (l l' : List G2) : (l ++ l').sum = [l.sum, l'.sum].sum := by
  simp [List.sum_append]

/-- nested aggregation over any grouping -/
theorem abs_aggregate_flatten (ls : List (List G2)) : ls.flatten.sum = (ls.map List.sum).sum :=
  List.sum_flatten

/-- the required sum does not depend on the order of the `(key, message)` pairs; hence neither does the
    accepted aggregate -/
theorem abs_aggregate_verify_perm {r : ℕ} {e : G2 → G1 → GT} {g1 : G1} (he : IsPairing r e g1)
    {H : Msg → G2} (hg : r • g1 = 0) (hH : ∀ m, r • H m = 0) {l l' : List (ℕ × Msg)}
    (hp : l.Perm l') {S : G2} (hS : r • S = 0) :
    aggVerify e g1 H (l.map fun x => (pk g1 x.1, x.2)) S ↔
      aggVerify e g1 H (l'.map fun x => (pk g1 x.1, x.2)) S := by
  rw [abs_aggregate_verify_iff he hg hH l hS, abs_aggregate_verify_iff he hg hH l' hS,
    (hp.map _).sum_eq]

/-! ### non-vacuity: a concrete pairing on `ZMod r` -/

/-- `IsPairing` is satisfiable: on `G1 = G2 = ZMod r` with `GT = Multiplicative (ZMod r)`, the map
    `e a b = a * b` is bilinear and non-degenerate against the generator `1`. -/
example (r : ℕ) : IsPairing (G1 := ZMod r) (G2 := ZMod r) (GT := Multiplicative (ZMod r)) r
    (fun a b => Multiplicative.ofAdd (a * b)) 1 where
  add_left := fun _ _ _ => by simp [add_mul, ofAdd_add]
  add_right := fun _ _ _ => by simp [mul_add, ofAdd_add]
  nondeg := fun _ h => by simpa using h

end PyEcc.BlsAbs
