/-
  PyEcc.Lemmas.Swu2Sgn — `sgn0` on `Fp²`:
   * the optimized `FQ2.sgn0` of the model separates `y` from `−y` for reduced `y ≠ 0`;
   * every element of `K2 = Fp[X]/(X²+1)` is the value of exactly one reduced model element (`rep`),
     so RFC 9380's `sgn0` (`m = 2`) can be stated on `K2` (`sgn0K2`).
-/
import PyEcc.Lemmas.Swu2Field
import PyEcc.Props.C14_Fq

set_option maxRecDepth 100000

namespace PyEcc.Swu2
open PyEcc PyEcc.Fqp PyEcc.FqpSem Gen.Consts Polynomial

/-! ### the model's `FQ2.sgn0` -/

theorem canon_pair {y : F2} (hy : Canon y) :
    ∃ a b : ℤ, y = ⟨[a, b]⟩ ∧ 0 ≤ a ∧ a < blsP ∧ 0 ≤ b ∧ b < blsP := by
  obtain ⟨l⟩ := y
  obtain ⟨hl, hc⟩ := hy
  match l, hl with
  | [a, b], _ =>
    exact ⟨a, b, rfl, (hc a (by simp)).1, (hc a (by simp)).2, (hc b (by simp)).1, (hc b (by simp)).2⟩

theorem sgn0_pair (a b : ℤ) :
    Fqp.sgn0_fq2 (⟨[a, b]⟩ : F2) =
      if (a % 2).toNat ≠ 0 then (a % 2).toNat else if a = 0 then (b % 2).toNat else 0 := by
  unfold Fqp.sgn0_fq2
  simp only [getI, List.getD_cons_zero, List.getD_cons_succ, beq_iff_eq]

theorem neg_pair (a b : ℤ) : (-(⟨[a, b]⟩ : F2)) = ⟨[(-a) % (blsP : ℤ), (-b) % (blsP : ℤ)]⟩ := rfl

theorem zero_pair : (0 : F2) = ⟨[0, 0]⟩ := by decide

theorem neg_emod {p a : ℤ} (h0 : 0 < a) (h1 : a < p) : (-a) % p = p - a := by
  rw [← Int.add_emod_right, Int.emod_eq_of_lt (by omega) (by omega)]; ring

theorem sgn0_lt_two (y : F2) (hy : Canon y) : Fqp.sgn0_fq2 y < 2 := by
  obtain ⟨a, b, rfl, _, _, _, _⟩ := canon_pair hy
  rw [sgn0_pair]
  split
  · omega
  · split <;> omega

/-- `sgn0(−y) ≠ sgn0(y)` for reduced `y ≠ 0`, because `p` is odd -/
theorem sgn0_neg_ne {y : F2} (hy : Canon y) (h0 : y ≠ 0) : Fqp.sgn0_fq2 (-y) ≠ Fqp.sgn0_fq2 y := by
  obtain ⟨a, b, rfl, ha0, ha1, hb0, hb1⟩ := canon_pair hy
  rw [neg_pair, sgn0_pair, sgn0_pair]
  have hp2 : (blsP : ℤ) % 2 = 1 := by decide +kernel
  generalize (blsP : ℤ) = p at *
  by_cases ha : a = 0
  · subst ha
    have hb : b ≠ 0 := by
      rintro rfl; exact h0 zero_pair.symm
    have e1 : (-(0 : ℤ)) % p = 0 := by simp
    rw [e1, neg_emod (by omega) hb1]
    simp only [Int.zero_emod, Int.toNat_zero, ne_eq, not_true_eq_false, if_false, if_true]
    omega
  · rw [neg_emod (by omega) ha1]
    have hne : p - a ≠ 0 := by omega
    simp only [ha, hne, if_false]
    split <;> split <;> omega

/-! ### reduced representatives -/

/-- every element of `K2` is the value of a reduced model element -/
theorem q_surj (z : K2) : ∃ x : F2, Canon x ∧ q x = z := by
  obtain ⟨f, rfl⟩ := AdjoinRoot.mk_surjective z
  set m := modulus blsP blsMc2 with hm
  have hmon : m.Monic := modulus_monic _
  set r := f %ₘ m with hr
  have hdeg : r.degree < 2 := by
    have := degree_modByMonic_lt f hmon
    have hd2 : m.degree = 2 := by
      rw [degree_eq_natDegree hmon.ne_zero, natDegree_modulus]; rfl
    rwa [hd2] at this
  have hle : r.degree ≤ 1 :=
    (degree_le_iff_coeff_zero r 1).mpr fun m hm =>
      (degree_lt_iff_coeff_zero r 2).mp hdeg m (by
        have : 1 < m := by exact_mod_cast hm
        omega)
  have hreq := eq_X_add_C_of_degree_le_one hle
  have hmk : AdjoinRoot.mk m f = AdjoinRoot.mk m r := by
    rw [AdjoinRoot.mk_eq_mk]
    have := modByMonic_add_div f m
    exact ⟨f /ₘ m, by rw [hr]; linear_combination this.symm⟩
  refine ⟨⟨[((r.coeff 0).val : ℤ), ((r.coeff 1).val : ℤ)]⟩, ⟨rfl, ?_⟩, ?_⟩
  · intro c hc
    simp only [List.mem_cons, List.not_mem_nil, or_false] at hc
    rcases hc with rfl | rfl
    · exact ⟨Int.natCast_nonneg _, by exact_mod_cast ZMod.val_lt _⟩
    · exact ⟨Int.natCast_nonneg _, by exact_mod_cast ZMod.val_lt _⟩
  · rw [hmk]
    unfold q toQ evQ
    congr 1
    simp only [ev_cons, ev_nil, mul_zero, add_zero, Int.cast_natCast, ZMod.natCast_zmod_val]
    conv_rhs => rw [hreq]
    ring

/-- the reduced representative of an element of `K2` -/
noncomputable def rep (z : K2) : F2 := Classical.choose (q_surj z)

theorem cn_rep (z : K2) : Canon (rep z) := (Classical.choose_spec (q_surj z)).1
theorem q_rep (z : K2) : q (rep z) = z := (Classical.choose_spec (q_surj z)).2
theorem rep_q {x : F2} (hx : Canon x) : rep (q x) = x := q_inj (cn_rep _) hx (q_rep _)

/-- RFC 9380 §4.1 `sgn0` for `Fp²` (`m = 2`): `sgn0_m_eq_2` of the canonical representatives
    `0 ≤ x_0, x_1 < p` of the two coordinates -/
noncomputable def sgn0K2 (z : K2) : ℕ :=
  Spec.Sgn0.sgn0_m_eq_2 (getI (rep z).coeffs 0).toNat (getI (rep z).coeffs 1).toNat

/-- the model's optimized `FQ2.sgn0` is RFC 9380's `sgn0` of the value -/
theorem sgn0_eq_spec {x : F2} (hx : Canon x) : Fqp.sgn0_fq2 x = sgn0K2 (q x) := by
  unfold sgn0K2
  rw [rep_q hx]
  obtain ⟨a, b, rfl, ha0, _, hb0, _⟩ := canon_pair hx
  exact (C14Fq.fq2_sgn0_eq_spec _ a b rfl ha0 hb0).1

/-- RFC 9380's `sgn0` on `Fp²` takes the values `0`, `1` -/
theorem sgn0K2_lt_two (z : K2) : sgn0K2 z < 2 := by
  rw [← q_rep z, ← sgn0_eq_spec (cn_rep z)]; exact sgn0_lt_two _ (cn_rep z)

/-- RFC 9380's `sgn0` on `Fp²` separates `z` from `−z` for `z ≠ 0` -/
theorem sgn0K2_neg_ne (z : K2) (hz : z ≠ 0) : sgn0K2 (-z) ≠ sgn0K2 z := by
  have h0 : rep z ≠ 0 := by
    intro h; apply hz; rw [← q_rep z, h, q_zero]
  have h := sgn0_neg_ne (cn_rep z) h0
  rwa [sgn0_eq_spec (cn_neg (cn_rep z)), sgn0_eq_spec (cn_rep z), q_neg, q_rep] at h

end PyEcc.Swu2
