/-
  PyEcc.Lemmas.MillerBnFrob — the first Frobenius line step of the bn128 `miller_loop`s never meets ∞:
  for a point `T ≠ ∞` of prime order `r` on `E(K12bn)`,  `n·T + π(T) ≠ ∞`  (`n = ate_loop_count`,
  `π(x, y) = (x^p, y^p)`).

  `π` is an endomorphism of the group `E(K12bn)` (`sigmaPt`: any field endomorphism fixing `b` acts on
  Mathlib's point group of `y² = x³ + b`), and `π¹² = id` because `K12bn` has `p¹²` elements.  If
  `π(T) = −n·T` then `T = π¹²(T) = n¹²·T`, so `r ∣ n¹² − 1` — false for the module constants.
-/
import PyEcc.Lemmas.MillerBnPairing
import PyEcc.Lemmas.CurveAux

set_option linter.unusedSectionVars false
set_option linter.unusedVariables false
set_option maxRecDepth 100000

namespace PyEcc.MillerBnSem
open Polynomial PyEcc PyEcc.Gen PyEcc.Gen.Consts PyEcc.Fqp PyEcc.FqpSem PyEcc.Transfer PyEcc.TwistSem
  PyEcc.C13 PyEcc.C13.Bn WeierstrassCurve WeierstrassCurve.Affine

/-! ### a field endomorphism fixing `b` acts on the point group -/

section sigma
variable {F : Type} [Field F] [DecidableEq F] {b : F} (σ : F →+* F) (hb : σ b = b)
include hb

theorem W_map : WeierstrassCurve.map (W b) σ = W b := by
  ext <;> simp [WeierstrassCurve.map, W, hb]

theorem ns_map {x y : F} (h : (W b).Nonsingular x y) : (W b).Nonsingular (σ x) (σ y) := by
  have := (WeierstrassCurve.Affine.map_nonsingular (W b) σ.injective x y).mpr h
  exact (W_map σ hb) ▸ this

theorem negY_map (x y : F) : (W b).negY (σ x) (σ y) = σ ((W b).negY x y) := by
  rw [GroupOrder.negY_W, GroupOrder.negY_W, map_neg]

theorem slope_map (x₁ x₂ y₁ y₂ : F) :
    (W b).slope (σ x₁) (σ x₂) (σ y₁) (σ y₂) = σ ((W b).slope x₁ x₂ y₁ y₂) := by
  have := WeierstrassCurve.Affine.map_slope (W := W b) σ x₁ x₂ y₁ y₂
  rw [show (W b).map σ = W b from W_map σ hb] at this
  exact this

theorem addX_map (x₁ x₂ l : F) : (W b).addX (σ x₁) (σ x₂) (σ l) = σ ((W b).addX x₁ x₂ l) := by
  have := WeierstrassCurve.Affine.map_addX (W' := W b) σ x₁ x₂ l
  rw [show (W b).map σ = W b from W_map σ hb] at this
  exact this

theorem addY_map (x₁ x₂ y₁ l : F) :
    (W b).addY (σ x₁) (σ x₂) (σ y₁) (σ l) = σ ((W b).addY x₁ x₂ y₁ l) := by
  have := WeierstrassCurve.Affine.map_addY (W' := W b) σ x₁ y₁ x₂ l
  rw [show (W b).map σ = W b from W_map σ hb] at this
  exact this

/-- the action of `σ` on points, `(x, y) ↦ (σ x, σ y)`, as a group homomorphism -/
noncomputable def sigmaPt : (W b).Point →+ (W b).Point where
  toFun P := match P with
    | .zero => .zero
    | .some x y h => .some (σ x) (σ y) (ns_map σ hb h)
  map_zero' := rfl
  map_add' := by
    rintro (_ | ⟨x₁, y₁, h₁⟩) (_ | ⟨x₂, y₂, h₂⟩)
    any_goals rfl
    by_cases hxy : x₁ = x₂ ∧ y₁ = (W b).negY x₂ y₂
    · rw [Point.add_of_Y_eq hxy.1 hxy.2]
      exact (Point.add_of_Y_eq (congrArg σ hxy.1) (by rw [hxy.2, negY_map σ hb])).symm
    · have hxy' : ¬(σ x₁ = σ x₂ ∧ σ y₁ = (W b).negY (σ x₂) (σ y₂)) := fun h =>
        hxy ⟨σ.injective h.1, σ.injective (by rw [← negY_map σ hb]; exact h.2)⟩
      rw [Point.add_some hxy]
      refine Eq.trans ?_ (Point.add_some hxy').symm
      simp only [← slope_map σ hb, ← addX_map σ hb, ← addY_map σ hb]

theorem sigmaPt_some {x y : F} (h : (W b).Nonsingular x y) :
    sigmaPt σ hb (.some x y h) = .some (σ x) (σ y) (ns_map σ hb h) := rfl

theorem reprRef_sigmaPt (P : (W b).Point) :
    reprRef (sigmaPt σ hb P) = (reprRef P).map fun xy => (σ xy.1, σ xy.2) := by
  rcases P with _ | ⟨x, y, h⟩ <;> rfl

end sigma

/-! ### the Frobenius endomorphism of `E(K12bn)` -/

section frob
variable [DecidableEq K12bn]

theorem frob_B12 : frobenius K12bn bnP B12 = B12 := by
  show frobenius K12bn bnP (toQ (bnB12 .opt)) = toQ (bnB12 .opt)
  rw [toQ_bnB12]
  exact map_ofNat (frobenius K12bn bnP) 3

/-- `π : E(K12bn) → E(K12bn)`, `(x, y) ↦ (x^p, y^p)` -/
noncomputable def piE : E12 →+ E12 := sigmaPt (frobenius K12bn bnP) frob_B12

theorem reprRef_piE (A : E12) :
    reprRef (piE A) = (reprRef A).map fun xy => (xy.1 ^ bnP, xy.2 ^ bnP) := by
  rw [piE, reprRef_sigmaPt]
  rfl

theorem reprRef_piE_iter (j : ℕ) (A : E12) :
    reprRef (piE^[j] A) = (reprRef A).map fun xy => (xy.1 ^ bnP ^ j, xy.2 ^ bnP ^ j) := by
  induction j with
  | zero =>
    rw [Function.iterate_zero, id]
    rcases reprRef A with _ | ⟨x, y⟩
    · rw [Option.map_none]
    · rw [Option.map_some, pow_zero, pow_one, pow_one]
  | succ j ih =>
    rw [Function.iterate_succ_apply', reprRef_piE, ih]
    rcases reprRef A with _ | ⟨x, y⟩
    · rw [Option.map_none, Option.map_none, Option.map_none]
    · rw [Option.map_some, Option.map_some, Option.map_some, pow_succ bnP j, pow_mul, pow_mul]

/-- `π¹² = id` -/
theorem piE_iter_twelve (A : E12) : piE^[12] A = A := by
  apply CurveSem.reprRef_injective
  rw [reprRef_piE_iter]
  rcases reprRef A with _ | ⟨x, y⟩
  · rw [Option.map_none]
  · rw [Option.map_some, pow_card_K12bn, pow_card_K12bn]

theorem piE_iter_zsmul (c : ℤ) {A : E12} (h : piE A = c • A) (j : ℕ) : piE^[j] A = (c ^ j) • A := by
  induction j with
  | zero => simp
  | succ j ih =>
    rw [Function.iterate_succ_apply', ih, map_zsmul, h, smul_smul, pow_succ]

theorem bn_n12 : ¬ ((bnR : ℤ) ∣ (-(bn128_ate_loop_count : ℤ)) ^ 12 - 1) := by decide +kernel

/-- **`n·T + π(T) ≠ ∞`** for a point `T ≠ ∞` killed by the prime `r` -/
theorem nsmul_add_piE_ne_zero {A : E12} (h0 : A ≠ 0) (hr : bnR • A = 0) :
    bn128_ate_loop_count • A + piE A ≠ 0 := by
  intro h
  have hpi : piE A = (-(bn128_ate_loop_count : ℤ)) • A := by
    rw [neg_smul, natCast_zsmul]
    exact (neg_eq_of_add_eq_zero_right h).symm
  have h12 := piE_iter_zsmul _ hpi 12
  rw [piE_iter_twelve] at h12
  have hz : ((-(bn128_ate_loop_count : ℤ)) ^ 12 - 1) • A = 0 := by
    rw [sub_smul, one_smul, ← h12, sub_self]
  have : Fact (Nat.Prime bnR) := ⟨prime_bnR'⟩
  have ho : addOrderOf A = bnR := addOrderOf_eq_prime hr h0
  have := (addOrderOf_dvd_iff_zsmul_eq_zero (x := A)).mpr hz
  rw [ho] at this
  exact bn_n12 this

/-- the coordinate-wise `p`-th power of a representative of `A` represents `π(A)` -/
theorem represents_frobT {X : OT12} {A : E12} (cX : CanonT X) (r : Represents (mapT toQ X) A)
    (hA : A ≠ 0) : CanonT (frobT X) ∧ Represents (mapT toQ (frobT X)) (piE A) := by
  have hO := goodHom_F12bn (v := .opt)
  obtain ⟨x, y, z⟩ := X
  obtain ⟨cx, cy, cz⟩ := cX
  simp only at cx cy cz
  refine ⟨⟨hO.good_pow bnP cx, hO.good_pow bnP cy, hO.good_pow bnP cz⟩, ?_⟩
  have e : toAff (mapT (toQ : OBn12 → K12bn) (x, y, z)) = reprRef A := r
  have hz : (mapT (toQ : OBn12 → K12bn) (x, y, z)).2.2 ≠ 0 := by
    intro h0
    rw [toAff_of_z_eq_zero h0] at e
    rcases A with _ | ⟨a, b, h⟩
    · exact hA rfl
    · cases e
  rw [toAff_of_z_ne_zero hz] at e
  show toAff _ = reprRef (piE A)
  rw [reprRef_piE, ← e, Option.map_some]
  have hzp : (mapT (toQ : OBn12 → K12bn) (frobT (x, y, z))).2.2 ≠ 0 := by
    show (toQ (z ^ bnP) : K12bn) ≠ 0
    rw [hO.map_pow bnP cz]; exact pow_ne_zero _ hz
  rw [toAff_of_z_ne_zero hzp]
  show some ((toQ (x ^ bnP) : K12bn) / toQ (z ^ bnP), (toQ (y ^ bnP) : K12bn) / toQ (z ^ bnP)) = _
  rw [hO.map_pow bnP cx, hO.map_pow bnP cy, hO.map_pow bnP cz, ← div_pow, ← div_pow]
  rfl

variable [DecidableEq K2bn]

/-- **`FrobFinite` holds on the subgroup**: for a reduced FQ2 triple `Q` on the twist curve, finite and
    killed by `curve_order`, `n·twist(Q) + π(twist(Q))` is not ∞ -/
theorem frobFinite_of_subgroup {Q : BnG2Pt} (cQ : CanonT Q) (hon : OptBn.is_on_curve Q bnB2 = true)
    (hz : Q.2.2 ≠ 0) (hsub : OptBn.is_inf (OptBn.multiply Q bnR) = true) : FrobFinite Q := by
  have hO := goodHom_F12bn (v := .opt)
  obtain ⟨Pt, rQ, Pt0, hr⟩ := g2_point cQ hon hz hsub
  have T0 : bnTwistOpt Pt ≠ 0 := fun h => Pt0 (bnTwistOpt_injective (by rw [h, map_zero]))
  have ord : bnR • bnTwistOpt Pt = 0 := by rw [← map_nsmul, hr, map_zero]
  have cQo : CanonT (twistOptBn Q : OT12) := canonT_twistOptBn Q
  have rQo : Represents (mapT toQ (twistOptBn Q : OT12)) (bnTwistOpt Pt) := represents_twistOptBn cQ rQ
  obtain ⟨cF, rF⟩ := represents_frobT cQo rQo T0
  have cM := (Transfer.Bn.good_multiply (B := K12bn) hO cQo optimized_bn128_ate_loop_count).1
  have rM := Transfer.Bn.via_multiply_refines hO k12bn_two cQo rQo optimized_bn128_ate_loop_count
  have cA := (Transfer.Bn.good_add (B := K12bn) hO cM cF).1
  have rA := Transfer.Bn.via_add_refines hO k12bn_two cM cF rM rF
  have hne := nsmul_add_piE_ne_zero T0 ord
  rw [← bn_scalar_eq.2.2.1] at hne
  unfold FrobFinite
  cases hb : OptBn.is_inf (OptBn.add (OptBn.multiply (twistOptBn Q : OT12) optimized_bn128_ate_loop_count)
      (frobT (twistOptBn Q)))
  · rfl
  · exact absurd ((Transfer.Bn.via_is_inf_refines hO cA rA).mp hb) hne

end frob

end PyEcc.MillerBnSem
