/-
  PyEcc.Lemmas.Hb2Bn — the order of the bn128 twist `E'(Fp²)`, helper level: `K2bn = F_p[X]/(X²+1)` has `p²`
  elements; `−b2` is not a cube (no point of order two); from the kernel facts of `Lemmas/Hb2FactsBn.lean`
  points of order `r` and of each prime factor of `2p − r`; hence `(2p − r)·r ∣ #E'(Fp²)`.
-/
import PyEcc.Sem.GroupOrderK
import PyEcc.Lemmas.Hb2FactsBn
import PyEcc.Lemmas.CurveFactsAux
import PyEcc.Sem.PrattCerts2
import Mathlib.FieldTheory.Finite.Basic
import Mathlib.FieldTheory.Finiteness
import Mathlib.Tactic.LinearCombination

set_option linter.unusedSectionVars false
set_option maxRecDepth 100000

namespace PyEcc.Hb2
open PyEcc PyEcc.Gen PyEcc.Gen.Consts PyEcc.Fqp PyEcc.FqpSem PyEcc.Transfer WeierstrassCurve

/-- the group of the bn128 twist: Mathlib points of `y² = x³ + b2` over `K2bn` -/
abbrev E2bn : Type := CurvePt (toQ bnB2 : K2bn)

/-! ### the field `K2bn` -/

instance : Module.Finite (ZMod bnP) K2bn := (modulus_monic (p := bnP) bnMc2).finite_adjoinRoot
instance : Finite K2bn := Module.finite_of_finite (ZMod bnP)
noncomputable instance : Fintype K2bn := Fintype.ofFinite K2bn

theorem card_K2bn : Fintype.card K2bn = bnP ^ 2 := by
  rw [Module.card_eq_pow_finrank (K := ZMod bnP) (V := K2bn), ZMod.card]
  congr 1
  rw [(AdjoinRoot.powerBasis' (modulus_monic (p := bnP) bnMc2)).finrank]
  simp [natDegree_modulus]; rfl

/-- Fermat in `F_{p²}` -/
theorem fermat_K2bn {t : K2bn} (ht : t ≠ 0) : t ^ (bnP ^ 2 - 1) = 1 := by
  have := FiniteField.pow_card_sub_one_eq_one t ht
  rwa [card_K2bn] at this

/-- **no point with `y = 0` on the bn128 twist**: `x³ + b2` has no root in `F_{p²}` (`−b2` is not a cube) -/
theorem bn_cube_add_b2_ne_zero (x : K2bn) : x ^ 3 + toQ bnB2 ≠ 0 := by
  obtain ⟨cb, hb0, hk⟩ := bn_neg_b2_pow
  have g := goodHom_F2bn (v := .opt)
  intro h
  have hB : (toQ bnB2 : K2bn) ≠ 0 := toQ_ne_zero_of cb hb0
  have hx : x ≠ 0 := by
    rintro rfl
    apply hB
    simpa using h
  have h3 : x ^ 3 = -toQ bnB2 := by linear_combination h
  have hk' : (-(toQ bnB2 : K2bn)) ^ ((bnP ^ 2 - 1) / 3) = 1 := by
    rw [← h3, ← pow_mul]
    have : 3 * ((bnP ^ 2 - 1) / 3) = bnP ^ 2 - 1 := by decide +kernel
    rw [this]; exact fermat_K2bn hx
  apply hk
  apply g.inj (g.good_pow _ (g.good_neg cb)) g.good_one
  rw [g.map_pow _ (g.good_neg cb), g.map_neg cb, g.map_one]
  exact hk'

instance : Finite E2bn := by classical exact finite_point (toQ bnB2 : K2bn)

/-- `#E'(Fp²) ≤ 2p² + 1` -/
theorem card_E2bn_le : Nat.card E2bn ≤ 2 * bnP ^ 2 + 1 := by
  classical
  have key : ∀ n, Fintype.card K2bn = n → Nat.card E2bn ≤ 2 * n + 1 := by
    rintro n rfl
    have := @card_point_le K2bn _ _ _ (toQ bnB2)
    exact this
  exact key _ card_K2bn

/-- no point of order two on the bn128 twist -/
theorem bn_twist_no_order_two (P : E2bn) (h : P + P = 0) : P = 0 := by
  classical
  exact CurveSem.no_two_torsion k2bn_field_ok.1 bn_cube_add_b2_ne_zero P h

/-- from the checked facts about a triple `T`: `q ∣ #E'(Fp²)` -/
theorem dvd_card_E2bn {T : BnG2Pt} {q : ℕ} [Fact q.Prime] (h : CycFactsBn T q) :
    q ∣ Nat.card E2bn := by
  classical
  obtain ⟨c, hon, hinf, hq⟩ := h
  obtain ⟨P, r⟩ := (on_curve_iff_F2bn c).mp hon
  have hP0 : P ≠ 0 := fun e => by
    have := (opt_is_inf_refines_F2bn c r).mpr e
    rw [hinf] at this; exact Bool.noConfusion this
  have hPq : q • P = 0 :=
    (opt_is_inf_refines_F2bn (canonT_ops_bn c c q).2.2.2.1 (opt_multiply_refines_F2bn c r q)).mp hq
  exact dvd_card_of_order P (addOrderOf_eq_prime hPq hP0)

instance fact_10069 : Fact (Nat.Prime 10069) := ⟨Pratt.prime_10069⟩
instance fact_5864401 : Fact (Nat.Prime 5864401) := ⟨Pratt.prime_5864401⟩
instance fact_1875725156269 : Fact (Nat.Prime 1875725156269) := ⟨Pratt.prime_1875725156269⟩
instance fact_bnC : Fact (Nat.Prime bnC) :=
  ⟨Pratt.prime_197620364512881247228717050342013327560683201906968909⟩
instance fact_bnR : Fact (Nat.Prime optimized_bn128_curve_order) := ⟨prime_bnR⟩

/-- the factorisation of the bn128 twist cofactor `2p − r` -/
theorem bn_cofactor_factor :
    2 * optimized_bn128_field_modulus - optimized_bn128_curve_order
      = 10069 * 5864401 * 1875725156269 * bnC := by decide +kernel

/-- **`(2p − r)·r` divides `#E'(Fp²)`** (bn128) -/
theorem bn_twist_dvd_card :
    (2 * optimized_bn128_field_modulus - optimized_bn128_curve_order) * optimized_bn128_curve_order
      ∣ Nat.card E2bn := by
  have d0 : optimized_bn128_curve_order ∣ Nat.card E2bn := dvd_card_E2bn bnG2_facts
  have d1 : 10069 ∣ Nat.card E2bn := dvd_card_E2bn ptbn_10069_facts
  have d2 : 5864401 ∣ Nat.card E2bn := dvd_card_E2bn ptbn_5864401_facts
  have d3 : 1875725156269 ∣ Nat.card E2bn := dvd_card_E2bn ptbn_1875725156269_facts
  have d4 : bnC ∣ Nat.card E2bn := dvd_card_E2bn ptbn_C_facts
  rw [bn_cofactor_factor]
  have e2 : 10069 * 5864401 ∣ Nat.card E2bn :=
    Nat.Coprime.mul_dvd_of_dvd_of_dvd (by decide +kernel) d1 d2
  have e3 : 10069 * 5864401 * 1875725156269 ∣ Nat.card E2bn :=
    Nat.Coprime.mul_dvd_of_dvd_of_dvd (by decide +kernel) e2 d3
  have e4 : 10069 * 5864401 * 1875725156269 * bnC ∣ Nat.card E2bn :=
    Nat.Coprime.mul_dvd_of_dvd_of_dvd (by decide +kernel) e3 d4
  exact Nat.Coprime.mul_dvd_of_dvd_of_dvd (by decide +kernel) e4 d0

end PyEcc.Hb2
