/-
  PyEcc.Lemmas.MillerBnPairing — assembling the bn128 comparison: module constants (digit tables,
  scalar bounds, exponents), the context for actual inputs, initial states, the two loops, the tails,
  and the guards of the two `pairing` functions.
-/
import PyEcc.Lemmas.MillerBnCtx
import PyEcc.Lemmas.PairingSem

set_option linter.unusedSectionVars false
set_option linter.unusedVariables false
set_option maxRecDepth 100000

namespace PyEcc.MillerBnSem
open Polynomial PyEcc PyEcc.Gen PyEcc.Gen.Consts PyEcc.Fqp PyEcc.FqpSem PyEcc.Transfer PyEcc.TwistSem
  PyEcc.C13 PyEcc.C13.Bn PyEcc.PairingSem WeierstrassCurve WeierstrassCurve.Affine

/-! ### constants -/

/-- the signed digits scanned by the optimized loop -/
abbrev bnDigits : List Int := digitsFrom optimized_bn128_pseudo_binary_encoding 63

/-- running scalars of the reference loop stay in `(0, (r−1)/2)` -/
theorem bn_ref_bound :
    RefBound bn128_ate_loop_count bnR 1 (downTo bn128_log_ate_loop_count) := by decide +kernel

/-- running scalars of the optimized loop stay in `(0, (r−1)/2)` -/
theorem bn_opt_bound : OptBound bnR 1 bnDigits := by decide +kernel

/-- both digit tables evaluate to `ate_loop_count` -/
theorem bn_scalar_eq :
    optScalar 1 bnDigits = bn128_ate_loop_count ∧
    refScalar bn128_ate_loop_count 1 (downTo bn128_log_ate_loop_count) = bn128_ate_loop_count ∧
    optimized_bn128_ate_loop_count = bn128_ate_loop_count ∧
    0 < bn128_ate_loop_count ∧ bn128_ate_loop_count < bnR := by decide +kernel

/-- both modules use the same final exponent `(p¹² − 1) / r` -/
theorem bn_final_exp_eq' : (bnP ^ 12 - 1) / optimized_bn128_curve_order = bnFinalExp := by
  decide +kernel

theorem bn_b2_eq : optimized_bn128_b2 = bn128_b2 := by decide
theorem bn_b_eq : optimized_bn128_b = bn128_b := by decide

/-- reference `cast_point_to_fq12` (the `P.map …` of `pairingRefBn`) -/
def castRefBn (p : Option (Fq bnP × Fq bnP)) : RA12 := p.map fun (x, y) => (castFq12 x, castFq12 y)

theorem castRefBn_none : castRefBn none = none := rfl
theorem castRefBn_some (x y : Fq bnP) : castRefBn (some (x, y)) = some (castFq12 x, castFq12 y) := rfl

/-- the reference bn128 `pairing` as a guarded expression -/
theorem pairingRefBn_eq (Q : Option (RBn2 × RBn2)) (P : Option (Fq bnP × Fq bnP)) :
    pairingRefBn Q P =
      if Gen.RefBn.is_on_curve Q (⟨bn128_b2⟩ : RBn2) = false then .error .value
      else if Gen.RefBn.is_on_curve P (Fq.ofInt bn128_b : Fq bnP) = false then .error .value
      else refMillerLoop refBnOps bn128_ate_loop_count bn128_log_ate_loop_count true
        bnFinalExp (twistRefBn Q) (castRefBn P) := by
  unfold pairingRefBn
  cases hQ : Gen.RefBn.is_on_curve Q (⟨bn128_b2⟩ : RBn2)
  · rfl
  cases hP : Gen.RefBn.is_on_curve P (Fq.ofInt bn128_b : Fq bnP)
  · rfl
  rfl

theorem canon_one12bn {v : Variant} : Canon (1 : Fqp v bnP bnMc12) := canon_one (by decide) (by decide)
theorem toQ_one12bn {v : Variant} : (toQ (1 : Fqp v bnP bnMc12) : K12bn) = 1 := toQ_one

/-! ### the inputs -/

section inputs
variable [DecidableEq K2bn] [DecidableEq K12bn]

/-- a finite on-curve `Q` killed by `r` represents a point of order `r` of the twist curve -/
theorem g2_point {Q : BnG2Pt} (cQ : CanonT Q) (hon : OptBn.is_on_curve Q bnB2 = true)
    (hz : Q.2.2 ≠ 0) (hsub : OptBn.is_inf (OptBn.multiply Q bnR) = true) :
    ∃ Pt : CurvePt (toQ bnB2 : K2bn), Represents (mapT toQ Q) Pt ∧ Pt ≠ 0 ∧ bnR • Pt = 0 := by
  obtain ⟨Pt, rQ⟩ := (on_curve_iff_F2bn cQ).mp hon
  refine ⟨Pt, rQ, ?_, ?_⟩
  · intro e
    have := (opt_is_inf_refines_F2bn cQ rQ).mpr e
    simp [OptBn.is_inf, hz] at this
  · exact (opt_is_inf_refines_F2bn (canonT_ops_bn cQ cQ bnR).2.2.2.1
      (opt_multiply_refines_F2bn cQ rQ bnR)).mp hsub

theorem emb_b : emb (Fq.ofInt optimized_bn128_b : Fq bnP) = B12 := by
  rw [emb_apply, Fq.toZMod_ofInt]
  show _ = (toQ (bnB12 .opt) : K12bn)
  rw [toQ_bnB12]
  simp only [optimized_bn128_b, Nat.cast_ofNat, Int.cast_ofNat]
  exact map_ofNat _ 3

/-- the cast of an on-curve finite `P` is a point of `E : y² = x³ + 3` over `K12bn` -/
theorem p_equation {P : BnG1Pt} (hon : OptBn.is_on_curve P (Fq.ofInt optimized_bn128_b : Fq bnP) = true)
    (hz : P.2.2 ≠ 0) : (W B12).Equation (emb (P.1 / P.2.2)) (emb (P.2.1 / P.2.2)) := by
  rw [GroupOrder.equation_W]
  have h := (opt_is_on_curve_iff P _).mp hon
  rw [toAff_of_z_ne_zero hz] at h
  simp only [RefBn.is_on_curve, RefBn.is_inf, reduceCtorEq, decide_false, Bool.false_eq_true, or_self,
    if_false, decide_eq_true_eq] at h
  have e := congrArg emb h
  rw [map_sub, map_pow, map_pow, emb_b] at e
  linear_combination e

/-- the optimized cast of `P` represents `(x/z, y/z)` -/
theorem castP_aff {P : BnG1Pt} (hz : P.2.2 ≠ 0) :
    toAff (mapT (toQ : OBn12 → K12bn) (castFq12 P.1, castFq12 P.2.1, castFq12 P.2.2))
      = some (emb (P.1 / P.2.2), emb (P.2.1 / P.2.2)) := by
  have hz' : emb P.2.2 ≠ 0 := (map_ne_zero emb).mpr hz
  have : (mapT (toQ : OBn12 → K12bn) (castFq12 P.1, castFq12 P.2.1, castFq12 P.2.2)).2.2 ≠ 0 := by
    rw [mapT_snd_snd, toQ_castFq12_bn]; exact hz'
  rw [toAff_of_z_ne_zero this]
  simp only [mapT_mk, toQ_castFq12_bn, map_div₀]

/-- the reference cast of `p = (x/z, y/z)` -/
theorem castRef_aff {P : BnG1Pt} {p : Option (Fq bnP × Fq bnP)} (hP : toAff P = p) (hz : P.2.2 ≠ 0) :
    GoodO Canon (castRefBn p) ∧
      mapO (toQ : RBn12 → K12bn) (castRefBn p) = some (emb (P.1 / P.2.2), emb (P.2.1 / P.2.2)) := by
  rw [toAff_of_z_ne_zero hz] at hP
  subst hP
  refine ⟨⟨canon_castFq12_bn _, canon_castFq12_bn _⟩, ?_⟩
  simp only [castRefBn_some, mapO_some, toQ_castFq12_bn]

/-- `n·Q + π(Q) ≠ ∞` on the twisted point (`n = ate_loop_count`): the running point stays finite in
    the first Frobenius step -/
def FrobFinite (Q : BnG2Pt) : Prop :=
  OptBn.is_inf (OptBn.add (OptBn.multiply (twistOptBn Q : OT12) optimized_bn128_ate_loop_count)
    (frobT (twistOptBn Q))) = false

instance (Q : BnG2Pt) : Decidable (FrobFinite Q) := by unfold FrobFinite; infer_instance

/-- `z`-finiteness of `add` only depends on the affine readings of the operands -/
theorem add_fin_congr {A A' B : K12bn × K12bn × K12bn} (h : toAff A = toAff A')
    (hz : (OptBn.add A B).2.2 ≠ 0) : (OptBn.add A' B).2.2 ≠ 0 := by
  have e1 := opt_add_toAff k12bn_two A B
  have e2 := opt_add_toAff k12bn_two A' B
  rw [h, e2] at e1
  have e3 : toAff (OptBn.add A' B) = toAff (OptBn.add A B) := Except.ok.inj e1
  intro h0
  have := toAff_eq_none_iff.mpr h0
  rw [e3, toAff_eq_none_iff] at this
  exact hz this

/-- **Miller values agree after the final exponentiation** (bn128): for finite on-curve `Q` killed by
    `r` with `n·Q + π(Q)` finite and finite on-curve `P`, representing the reference points `q`, `p`,
    the reference `miller_loop(twist(q), cast(p))` returns normally and its result has the same value in
    `K12bn` as the optimized `miller_loop(twist(Q), cast(P))`. -/
theorem miller_core_bn {Q : BnG2Pt} {q : Option (RBn2 × RBn2)} {P : BnG1Pt}
    {p : Option (Fq bnP × Fq bnP)} (cQ : CanonT Q) (cq : GoodO Canon q)
    (hQ : toAff (mapT toQ Q) = mapO (toQ : RBn2 → K2bn) q) (hP : toAff P = p)
    (hon : OptBn.is_on_curve Q bnB2 = true)
    (honP : OptBn.is_on_curve P (Fq.ofInt optimized_bn128_b : Fq bnP) = true)
    (hQz : Q.2.2 ≠ 0) (hPz : P.2.2 ≠ 0) (hsub : OptBn.is_inf (OptBn.multiply Q bnR) = true)
    (hfin : FrobFinite Q) :
    ∃ fr, refMillerLoop refBnOps bn128_ate_loop_count bn128_log_ate_loop_count true bnFinalExp
        (twistRefBn q) (castRefBn p) = .ok fr ∧ Canon fr
      ∧ Canon (optBnMillerLoop bnDigits (some bnFinalExp) (twistOptBn Q)
          (castFq12 P.1, castFq12 P.2.1, castFq12 P.2.2) : OBn12)
      ∧ (toQ (optBnMillerLoop bnDigits (some bnFinalExp) (twistOptBn Q)
          (castFq12 P.1, castFq12 P.2.1, castFq12 P.2.2) : OBn12) : K12bn) = toQ fr := by
  have hO := goodHom_F12bn (v := .opt)
  have hR := goodHom_F12bn (v := .ref)
  obtain ⟨Pt, rQ, Pt0, hr⟩ := g2_point cQ hon hQz hsub
  have hPeq := p_equation honP hPz
  -- the context
  have ctx : Ctx (bnTwistOpt Pt) (emb (P.1 / P.2.2)) (emb (P.2.1 / P.2.2)) :=
    { hP := hPeq
      T0 := fun h => Pt0 (bnTwistOpt_injective (by rw [h, map_zero]))
      ord := by rw [← map_nsmul, hr, map_zero]
      vert := vert_killed hr hPeq }
  -- optimized data
  have od : OptData (bnTwistOpt Pt) (emb (P.1 / P.2.2)) (emb (P.2.1 / P.2.2)) (twistOptBn Q)
      (castFq12 P.1, castFq12 P.2.1, castFq12 P.2.2) :=
    { cQ := canonT_twistOptBn Q
      rQ := represents_twistOptBn cQ rQ
      cP := ⟨canon_castFq12_bn _, canon_castFq12_bn _, canon_castFq12_bn _⟩
      zP := by rw [toQ_castFq12_bn]; exact (map_ne_zero emb).mpr hPz
      rP := castP_aff hPz }
  -- reference data
  obtain ⟨cPr, aPr⟩ := castRef_aff hP hPz
  have rQr : reprRef (bnTwistOpt Pt) = mapO (toQ : RBn12 → K12bn) (twistRefBn q) := by
    rw [mapO_twistRefBn cq, ← hQ, reprRef_bnTwistOpt, ← show toAff (mapT toQ Q) = reprRef Pt from rQ]
  have rd : RefData (bnTwistOpt Pt) (emb (P.1 / P.2.2)) (emb (P.2.1 / P.2.2)) (twistRefBn q)
      (castRefBn p) := { cQ := canonO_twistRefBn, rQ := rQr, cP := cPr, rP := aPr }
  -- the two loops
  have oinit : OInv ctx 1 (((1 : OBn12), (1 : OBn12)), (twistOptBn Q : OT12)) :=
    { cN := canon_one12bn, cD := canon_one12bn, cR := od.cQ
      den := by rw [toQ_one12bn]; exact one_ne_zero
      rR := by rw [one_nsmul]; exact od.rQ
      mv := by
        show MV _ _ _ 1 ((toQ (1 : OBn12) : K12bn) / toQ (1 : OBn12))
        rw [toQ_one12bn, div_one]; exact MV.one _ _ _ }
  have rinit : RInv ctx 1 ((1 : RBn12), (twistRefBn q : RA12)) :=
    { cf := canon_one12bn, cR := rd.cQ
      rR := by rw [one_nsmul]; exact rQr
      mv := by
        show MV _ _ _ 1 (toQ (1 : RBn12) : K12bn)
        rw [toQ_one12bn]; exact MV.one _ _ _ }
  have oinv := opt_loop ctx od bnDigits 1 _ oinit bn_opt_bound
  obtain ⟨⟨f, Rr⟩, eloop, rinv⟩ :=
    ref_loop ctx rd bn128_ate_loop_count (downTo bn128_log_ate_loop_count) 1 _ rinit bn_ref_bound
  obtain ⟨so, sr, sate, n0, nlt⟩ := bn_scalar_eq
  rw [so] at oinv
  rw [sr] at rinv
  set st := bnDigits.foldl (optBnStep (twistOptBn Q : OT12) (castFq12 P.1, castFq12 P.2.1, castFq12 P.2.2))
    (((1 : OBn12), (1 : OBn12)), (twistOptBn Q : OT12)) with hst
  obtain ⟨⟨fN, fD⟩, R⟩ := st
  obtain ⟨cN, cD, cR, den, rR, mvo⟩ := oinv
  obtain ⟨cf, cRr, rRr, mvr⟩ := rinv
  simp only at cN cD cR den rR mvo cf cRr rRr mvr
  have hE := mvo.unique ctx.hP bnFinalExp mvr four_dvd_bnFinalExp
  have hn : bn128_ate_loop_count • bnTwistOpt Pt ≠ 0 := ctx.ne_zero n0 nlt
  -- `q` is finite
  have hzq : (mapT (toQ : OBn2 → K2bn) Q).2.2 ≠ 0 := by
    rw [mapT_snd_snd]
    exact fun e => hQz (((goodHom_F2bn (v := .opt)).eq_zero_iff cQ.2.2).mp e)
  rw [toAff_of_z_ne_zero hzq] at hQ
  rcases q with _ | ⟨xq, yq⟩
  · cases hQ
  have hT0 : bnTwistOpt Pt ≠ 0 := ctx.T0
  have hTT : bnTwistOpt Pt + bnTwistOpt Pt ≠ 0 := by
    have := ctx.no2 (j := 1) (by rw [one_nsmul]; exact hT0)
    rwa [one_nsmul] at this
  -- the affine readings
  have aQ : toAff (mapT (toQ : OBn12 → K12bn) (twistOptBn Q)) = mapO (toQ : RBn12 → K12bn)
      (twistRefBn (some (xq, yq))) := (show toAff _ = reprRef _ from od.rQ).trans rQr
  have zQ := z_ne_of_represents ctx od od.rQ hT0
  have yQo := y_ne_of_represents ctx od od.rQ hT0 hTT
  have zR := z_ne_of_represents ctx od rR hn
  have yR := y_ne_of_represents ctx od rR hn (ctx.no2 hn)
  have aR : toAff (mapT toQ R) = mapO (toQ : RBn12 → K12bn) Rr :=
    (show toAff _ = reprRef _ from rR).trans rRr
  -- `y(q) ≠ 0`
  obtain ⟨⟨qx, qy⟩, hq12⟩ : ∃ xy : RBn12 × RBn12, (twistRefBn (some (xq, yq)) : RA12) = some xy :=
    ⟨_, rfl⟩
  rw [hq12] at aQ rd eloop ⊢
  have cq12 : Canon qx ∧ Canon qy := rd.cQ
  have yQ : (toQ qy : K12bn) ≠ 0 := by
    have h := aQ
    rw [toAff_of_z_ne_zero zQ] at h
    simp only [mapO_some, Option.some.injEq, Prod.mk.injEq] at h
    rw [← h.2]
    exact div_ne_zero yQo zQ
  -- finiteness of `R + π(Q)`
  have fin : (toQ (OptBn.add R (frobT (twistOptBn Q))).2.2 : K12bn) ≠ 0 := by
    have cF : CanonT (frobT (twistOptBn Q : OT12)) :=
      ⟨hO.good_pow bnP od.cQ.1, hO.good_pow bnP od.cQ.2.1, hO.good_pow bnP od.cQ.2.2⟩
    have cM := (Transfer.Bn.good_multiply (B := K12bn) hO od.cQ optimized_bn128_ate_loop_count).1
    have rM := Transfer.Bn.via_multiply_refines hO k12bn_two od.cQ od.rQ optimized_bn128_ate_loop_count
    rw [sate] at rM
    have e : toAff (mapT (toQ : OBn12 → K12bn)
        (OptBn.multiply (twistOptBn Q : OT12) optimized_bn128_ate_loop_count)) = toAff (mapT toQ R) :=
      (show toAff _ = reprRef _ from rM).trans (show toAff _ = reprRef _ from rR).symm
    have hm : (toQ (OptBn.add (OptBn.multiply (twistOptBn Q : OT12) optimized_bn128_ate_loop_count)
        (frobT (twistOptBn Q))).2.2 : K12bn) ≠ 0 := by
      intro h0
      have := (hO.eq_zero_iff (Transfer.Bn.good_add (B := K12bn) hO cM cF).1.2.2).mp h0
      unfold FrobFinite at hfin
      simp [OptBn.is_inf, this] at hfin
    have e1 := (Transfer.Bn.good_add (B := K12bn) hO cM cF).2
    have e2 := (Transfer.Bn.good_add (B := K12bn) hO cR cF).2
    have hm' : (OptBn.add (mapT (toQ : OBn12 → K12bn)
        (OptBn.multiply (twistOptBn Q : OT12) optimized_bn128_ate_loop_count))
        (mapT toQ (frobT (twistOptBn Q)))).2.2 ≠ 0 := by rw [← e1]; exact hm
    have := add_fin_congr e hm'
    rw [← e2] at this
    exact this
  obtain ⟨fr, etail, cfr, cot, vt⟩ := tail_agree cN cD cR od.cQ od.cP cf cRr cq12.1 cq12.2 rd.cP den aR
    (by rw [aQ]; rfl) (od.rP.trans rd.rP.symm) zR zQ od.zP yR yQ fin bnFinalExp hE
  refine ⟨fr, ?_, cfr, ?_, ?_⟩
  · obtain ⟨⟨xp, yp⟩, hp⟩ : ∃ xy, castRefBn p = some xy := by
      rw [← hP, toAff_of_z_ne_zero hPz]; exact ⟨_, rfl⟩
    rw [hp] at eloop etail ⊢
    rw [refMillerLoop_frob, eloop, ok_bind']
    exact etail
  · rw [optBnMillerLoop_eq, ← hst]; exact cot
  · rw [optBnMillerLoop_eq, ← hst]; exact vt

end inputs

/-! ### results as coefficient lists -/

theorem map_ok' {ε α β : Type} (f : α → β) (a : α) :
    Except.map f (Except.ok a : Except ε α) = Except.ok (f a) := rfl

/-- `FQ12.one()` has the same coefficients in both classes -/
theorem one_coeffs_bn : (1 : OBn12).coeffs = (1 : RBn12).coeffs := rfl

/-- equal values in `K12bn` of reduced elements of the two classes: equal coefficient lists -/
theorem coeffs_eq_of_toQ {fo : OBn12} {fr : RBn12} (co : Canon fo) (cf : Canon fr)
    (v : (toQ fo : K12bn) = toQ fr) : fo.coeffs = fr.coeffs := evQ_inj co cf v

/-! ### the guards of the two `pairing` functions agree -/

section guards
variable [DecidableEq K2bn]

theorem toQ_variant_bn (l : List Int) :
    (toQ (⟨l⟩ : Fqp .opt bnP bnMc2) : K2bn) = toQ (⟨l⟩ : Fqp .ref bnP bnMc2) := rfl

/-- `is_on_curve(Q, b2)` of the optimized module on a triple = `is_on_curve(q, b2)` of the reference
    module on the affine point it represents -/
theorem on_curve_Q_agree_bn {Q : BnG2Pt} {q : Option (RBn2 × RBn2)} (cQ : CanonT Q)
    (cq : GoodO Canon q) (hQ : toAff (mapT toQ Q) = mapO (toQ : RBn2 → K2bn) q) :
    Gen.OptBn.is_on_curve Q (⟨optimized_bn128_b2⟩ : OBn2)
      = Gen.RefBn.is_on_curve q (⟨bn128_b2⟩ : RBn2) := by
  have cbo : Canon (⟨optimized_bn128_b2⟩ : OBn2) := by decide
  have cbr : Canon (⟨bn128_b2⟩ : RBn2) := by decide
  rw [← Transfer.Bn.good_is_on_curve (B := K2bn) (goodHom_F2bn (v := .opt)) cQ cbo,
    ← BnRef.good_is_on_curve (B := K2bn) (goodHom_F2bn (v := .ref)) cq cbr, Bool.eq_iff_iff,
    opt_is_on_curve_iff, hQ, toQ_variant_bn, bn_b2_eq]

/-- `is_on_curve(P, b)` of the optimized module on a triple = `is_on_curve(p, b)` of the reference
    module on the affine point it represents -/
theorem on_curve_P_agree_bn {P : BnG1Pt} {p : Option (Fq bnP × Fq bnP)} (hP : toAff P = p) :
    Gen.OptBn.is_on_curve P (Fq.ofInt optimized_bn128_b : Fq bnP)
      = Gen.RefBn.is_on_curve p (Fq.ofInt bn128_b : Fq bnP) := by
  rw [Bool.eq_iff_iff, opt_is_on_curve_iff, hP, bn_b_eq]

/-- a triple with `z = 0` represents only `None` -/
theorem q_none_of_z_bn {Q : BnG2Pt} {q : Option (RBn2 × RBn2)}
    (hQ : toAff (mapT toQ Q) = mapO (toQ : RBn2 → K2bn) q) (hz : Q.2.2 = 0) : q = none := by
  have : (mapT (toQ : OBn2 → K2bn) Q).2.2 = 0 := by
    rw [mapT_snd_snd, hz]; exact (goodHom_F2bn (v := .opt)).map_zero
  rw [toAff_of_z_eq_zero this] at hQ
  exact (mapO_eq_none _ _).mp hQ.symm

end guards

end PyEcc.MillerBnSem
