/-
  PyEcc.Lemmas.MillerPairing — assembling the Miller-loop induction of `Lemmas/MillerLoop.lean` at the
  module constants of BLS12-381: the digit table is the bit table, the initial states satisfy the
  invariant, the cast of `P` in both modules is the same point, the guards of the two `pairing`
  functions agree, and hence the Miller values (before and after the final power) agree in `K12`.
-/
import PyEcc.Lemmas.MillerLoop

set_option linter.unusedSectionVars false
set_option linter.unusedVariables false
set_option maxRecDepth 100000

namespace PyEcc.MillerSem
open Polynomial PyEcc PyEcc.Gen PyEcc.Gen.Consts PyEcc.Fqp PyEcc.FqpSem PyEcc.Transfer PyEcc.C13
  PyEcc.C13.Bls PyEcc.PairingSem

/-! ### constants -/

/-- the digits scanned by the optimized loop (`pseudo_binary_encoding[62::-1]`) are the bits of
    `ate_loop_count` scanned by the reference loop (`range(log_ate_loop_count, -1, -1)`) -/
theorem bls_digits_eq :
    (downTo bls12_381_log_ate_loop_count).map (digitAt bls12_381_ate_loop_count)
      = digitsFrom optimized_bls12_381_pseudo_binary_encoding 62 := by decide +kernel

/-- both modules use the same final exponent `(p¹² − 1) / r` -/
theorem bls_final_exp_eq :
    (blsP ^ 12 - 1) / optimized_bls12_381_curve_order = blsFinalExp := by decide +kernel

theorem bls_b2_eq : optimized_bls12_381_b2 = bls12_381_b2 := by decide
theorem bls_b_eq : optimized_bls12_381_b = bls12_381_b := by decide

/-! ### the reference `miller_loop` by cases -/

theorem refMillerLoop_some {p : Nat} {mc12 : List Int} (ops : RefOps p mc12) (ate logAte E : Nat)
    (q pp : Fqp .ref p mc12 × Fqp .ref p mc12) :
    refMillerLoop ops ate logAte false E (some q) (some pp) =
      ((downTo logAte).foldlM (refMillerStep ops ate (some q) (some pp)) ((1 : Fqp .ref p mc12), some q)
        >>= fun s => pure (s.1 ^ E)) := rfl

theorem refMillerLoop_none_left {p : Nat} {mc12 : List Int} (ops : RefOps p mc12) (ate logAte E : Nat)
    (P : Option (Fqp .ref p mc12 × Fqp .ref p mc12)) :
    refMillerLoop ops ate logAte false E none P = .ok 1 := rfl

theorem refMillerLoop_none_right {p : Nat} {mc12 : List Int} (ops : RefOps p mc12) (ate logAte E : Nat)
    (Q : Option (Fqp .ref p mc12 × Fqp .ref p mc12)) :
    refMillerLoop ops ate logAte false E Q none = .ok 1 := by
  cases Q <;> rfl

/-- reference `cast_point_to_fq12` (the `P.map …` of `pairingRefBls`) -/
def castRef (p : Option (Fq blsP × Fq blsP)) : A12 := p.map fun (x, y) => (castFq12 x, castFq12 y)

theorem castRef_none : castRef none = none := rfl
theorem castRef_some (x y : Fq blsP) : castRef (some (x, y)) = some (castFq12 x, castFq12 y) := rfl

theorem twistRefBls_some {p : Nat} {mc2 mc12 : List Int} (x y : Fqp .ref p mc2) :
    ∃ q12 : Fqp .ref p mc12 × Fqp .ref p mc12, twistRefBls (some (x, y)) = some q12 := ⟨_, rfl⟩

/-- the reference bls12_381 `pairing` as a guarded expression -/
theorem pairingRefBls_eq (Q : Option (RBls2 × RBls2)) (P : Option (Fq blsP × Fq blsP)) :
    pairingRefBls Q P =
      if Gen.RefBls.is_on_curve Q (⟨bls12_381_b2⟩ : RBls2) = false then .error .value
      else if Gen.RefBls.is_on_curve P (Fq.ofInt bls12_381_b : Fq blsP) = false then .error .value
      else refMillerLoop refBlsOps bls12_381_ate_loop_count bls12_381_log_ate_loop_count false
        blsFinalExp (twistRefBls Q) (castRef P) := by
  unfold pairingRefBls
  cases hQ : Gen.RefBls.is_on_curve Q (⟨bls12_381_b2⟩ : RBls2)
  · rfl
  cases hP : Gen.RefBls.is_on_curve P (Fq.ofInt bls12_381_b : Fq blsP)
  · rfl
  rfl

/-! ### the cast of `P` -/

theorem ofZ_toZMod_ne_zero {a : Fq blsP} (h : a ≠ 0) : ofZ (Fq.toZMod a) ≠ 0 := by
  intro e
  apply h
  have := (map_eq_zero ofZ).mp e
  rw [← Fq.toZMod_zero] at this
  exact Fq.toZMod_inj.mp this

/-- `cast_point_to_fq12` of both modules gives the same point of `K12`, any representative -/
theorem castP_repr [DecidableEq K12] {P : Fq blsP × Fq blsP × Fq blsP} {p : Option (Fq blsP × Fq blsP)}
    (hP : toAff P = p) (hPz : P.2.2 ≠ 0) :
    toAff (mapT toQ ((castFq12 P.1, castFq12 P.2.1, castFq12 P.2.2) : T12))
      = mapO toQ (castRef p) := by
  obtain ⟨x, y, z⟩ := P
  simp only at hPz
  rw [toAff_of_z_ne_zero hPz] at hP
  subst hP
  have hz : ofZ (Fq.toZMod z) ≠ 0 := ofZ_toZMod_ne_zero hPz
  have hz' : (mapT toQ ((castFq12 x, castFq12 y, castFq12 z) : T12)).2.2 ≠ (0 : K12) := by
    rw [mapT_snd_snd, toQ_castFq12']; exact hz
  rw [toAff_of_z_ne_zero hz']
  simp only [mapT_mk, toQ_castFq12', castRef_some, mapO_some, Fq.toZMod_div, map_div₀]

theorem goodO_castP (p : Option (Fq blsP × Fq blsP)) :
    GoodO Canon (castRef p) := by
  rcases p with _ | ⟨x, y⟩
  · exact goodO_none _
  · exact goodO_some (canon_castFq12 x) (canon_castFq12 y)

/-! ### initial states -/

section init
variable [DecidableEq K2] [DecidableEq K12]
attribute [local irreducible] optBlsStep

theorem toQ_one12 {v : Variant} : (toQ (1 : Fqp v blsP blsMc12) : K12) = 1 := toQ_one
theorem canon_one12 {v : Variant} : Canon (1 : Fqp v blsP blsMc12) := canon_one (by decide) (by decide)

/-- the twisted reference point is represented by the twisted optimized point -/
theorem twist_repr {Q : T2} {q : Option (RBls2 × RBls2)} (cq : GoodO Canon q)
    (hQ : toAff (mapT toQ Q) = mapO toQ q) :
    toAff (twK (mapT toQ Q)) = mapO toQ (twistRefBls q : A12) := by
  rw [toAff_twK, hQ, (toQ_twistRefBls cq).1]

theorem init_inv {Q : T2} {q : Option (RBls2 × RBls2)} (cQ : CanonT Q) (cq : GoodO Canon q)
    (hQ : toAff (mapT toQ Q) = mapO toQ q) :
    Inv (((1 : OBls12), (1 : OBls12)), Q, twistOptBls Q) ((1 : RBls12), twistRefBls q) where
  cNum := canon_one12
  cDen := canon_one12
  cR := cQ
  tw := rfl
  cf := canon_one12
  cRr := (toQ_twistRefBls cq).2
  den := by rw [toQ_one12]; exact one_ne_zero
  val := by rw [toQ_one12, toQ_one12, div_one]
  pt := twist_repr cq hQ

theorem mk_ctx {Q : T2} {q : Option (RBls2 × RBls2)} {P : Fq blsP × Fq blsP × Fq blsP}
    {p : Option (Fq blsP × Fq blsP)} (cQ : CanonT Q) (cq : GoodO Canon q)
    (hQ : toAff (mapT toQ Q) = mapO toQ q) (hP : toAff P = p) (hQz : Q.2.2 ≠ 0) (hPz : P.2.2 ≠ 0) :
    Ctx Q (twistRefBls q) (castFq12 P.1, castFq12 P.2.1, castFq12 P.2.2) (castRef p) where
  cQ := cQ
  Qz := hQz
  cQr := (toQ_twistRefBls cq).2
  hQ := twist_repr cq hQ
  cP := ⟨canon_castFq12 _, canon_castFq12 _, canon_castFq12 _⟩
  Pz := by rw [toQ_castFq12']; exact ofZ_toZMod_ne_zero hPz
  cPr := goodO_castP p
  hP := castP_repr hP hPz

/-- regularity of the optimized BLS12-381 Miller loop started at `Q` -/
abbrev MillerRegular (Q : T2) : Prop :=
  RegularFrom Q (digitsFrom optimized_bls12_381_pseudo_binary_encoding 62) Q

/-- **Miller values agree.**  For finite `Q`, `P` represented by the reference points `q`, `p`, and
    regular `Q`: the reference loop (at the module constants) returns normally, and its accumulator
    `f` has the same value in `K12` as `f_num / f_den` of the optimized loop. -/
theorem miller_core {Q : T2} {q : Option (RBls2 × RBls2)} {P : Fq blsP × Fq blsP × Fq blsP}
    {p : Option (Fq blsP × Fq blsP)} (cQ : CanonT Q) (cq : GoodO Canon q)
    (hQ : toAff (mapT toQ Q) = mapO toQ q) (hP : toAff P = p) (hQz : Q.2.2 ≠ 0) (hPz : P.2.2 ≠ 0)
    (hreg : MillerRegular Q) :
    ∃ sr, (downTo bls12_381_log_ate_loop_count).foldlM
        (refMillerStep refBlsOps bls12_381_ate_loop_count (twistRefBls q) (castRef p))
        ((1 : RBls12), twistRefBls q) = .ok sr
      ∧ Canon sr.1
      ∧ Canon (optBlsMillerLoop (digitsFrom optimized_bls12_381_pseudo_binary_encoding 62) none Q P
          : OBls12)
      ∧ (toQ (optBlsMillerLoop (digitsFrom optimized_bls12_381_pseudo_binary_encoding 62) none Q P
          : OBls12) : K12) = toQ sr.1 := by
  have ctx := mk_ctx cQ cq hQ hP hQz hPz
  have reg : RegularFrom Q
      ((downTo bls12_381_log_ate_loop_count).map (digitAt bls12_381_ate_loop_count)) Q := by
    rw [bls_digits_eq]; exact hreg
  obtain ⟨sr, e, inv⟩ := loop_inv ctx bls12_381_ate_loop_count _ _ _ (init_inv cQ cq hQ) reg
  rw [bls_digits_eq] at inv
  have hO := goodHom_F12 (v := .opt)
  refine ⟨sr, e, inv.cf, ?_, ?_⟩
  · rw [optBlsMillerLoop_none_eq]
    exact hO.good_div inv.cNum inv.cDen
  · rw [optBlsMillerLoop_none_eq, hO.map_div inv.cNum inv.cDen]
    exact inv.val

end init

/-! ### results as coefficient lists -/

theorem map_ok {ε α β : Type} (f : α → β) (a : α) :
    Except.map f (Except.ok a : Except ε α) = Except.ok (f a) := rfl

theorem pure_eq_ok {ε α : Type} (a : α) : (pure a : Except ε α) = Except.ok a := rfl

/-- `FQ12.one()` has the same coefficients in both classes -/
theorem one_coeffs : (1 : OBls12).coeffs = (1 : RBls12).coeffs := rfl

/-- equal values in `K12` give equal coefficient lists after the same power -/
theorem pow_coeffs {fo : OBls12} {fr : RBls12} (co : Canon fo) (cf : Canon fr)
    (v : (toQ fo : K12) = toQ fr) (E : ℕ) : (fo ^ E).coeffs = (fr ^ E).coeffs := by
  have hO := goodHom_F12 (v := .opt)
  have hR := goodHom_F12 (v := .ref)
  apply evQ_inj (hO.good_pow E co) (hR.good_pow E cf)
  have e1 : (toQ (fo ^ E) : K12) = toQ fo ^ E := hO.map_pow E co
  have e2 : (toQ (fr ^ E) : K12) = toQ fr ^ E := hR.map_pow E cf
  exact e1.trans ((congrArg (· ^ E) v).trans e2.symm)

/-! ### the guards of the two `pairing` functions agree -/

section guards
variable [DecidableEq K2]

theorem toQ_variant (l : List Int) :
    (toQ (⟨l⟩ : Fqp .opt blsP blsMc2) : K2) = toQ (⟨l⟩ : Fqp .ref blsP blsMc2) := rfl

/-- `is_on_curve(Q, b2)` of the optimized module on a triple = `is_on_curve(q, b2)` of the reference
    module on the affine point it represents -/
theorem on_curve_Q_agree {Q : T2} {q : Option (RBls2 × RBls2)} (cQ : CanonT Q) (cq : GoodO Canon q)
    (hQ : toAff (mapT toQ Q) = mapO toQ q) :
    Gen.OptBls.is_on_curve Q (⟨optimized_bls12_381_b2⟩ : OBls2)
      = Gen.RefBls.is_on_curve q (⟨bls12_381_b2⟩ : RBls2) := by
  have cbo : Canon (⟨optimized_bls12_381_b2⟩ : OBls2) := by decide
  have cbr : Canon (⟨bls12_381_b2⟩ : RBls2) := by decide
  rw [← Transfer.Bls.good_is_on_curve (B := K2) (goodHom_F2 (v := .opt)) cQ cbo,
    ← ref_good_is_on_curve (B := K2) (goodHom_F2 (v := .ref)) cq cbr, Bool.eq_iff_iff,
    opt_is_on_curve_iff, hQ, toQ_variant, bls_b2_eq]

/-- `is_on_curve(P, b)` of the optimized module on a triple = `is_on_curve(p, b)` of the reference
    module on the affine point it represents -/
theorem on_curve_P_agree {P : Fq blsP × Fq blsP × Fq blsP} {p : Option (Fq blsP × Fq blsP)}
    (hP : toAff P = p) :
    Gen.OptBls.is_on_curve P (Fq.ofInt optimized_bls12_381_b : Fq blsP)
      = Gen.RefBls.is_on_curve p (Fq.ofInt bls12_381_b : Fq blsP) := by
  rw [Bool.eq_iff_iff, opt_is_on_curve_iff, hP, bls_b_eq]

/-- a canonical triple with `z = 0` represents only `None` -/
theorem q_none_of_z {Q : T2} {q : Option (RBls2 × RBls2)}
    (hQ : toAff (mapT toQ Q) = mapO toQ q) (hz : Q.2.2 = 0) : q = none := by
  have : (mapT (toQ : OBls2 → K2) Q).2.2 = 0 := by
    rw [mapT_snd_snd, hz]; exact (goodHom_F2 (v := .opt)).map_zero
  rw [toAff_of_z_eq_zero this] at hQ
  exact (mapO_eq_none _ _).mp hQ.symm

theorem q_some_of_z {Q : T2} {q : Option (RBls2 × RBls2)} (cQ : CanonT Q)
    (hQ : toAff (mapT toQ Q) = mapO toQ q) (hz : Q.2.2 ≠ 0) : ∃ xy, q = some xy := by
  have : (mapT (toQ : OBls2 → K2) Q).2.2 ≠ 0 := by
    rw [mapT_snd_snd]; exact toQ2_ne_zero cQ.2.2 hz
  rw [toAff_of_z_ne_zero this] at hQ
  rcases q with _ | xy
  · cases hQ
  · exact ⟨xy, rfl⟩

end guards

end PyEcc.MillerSem
