/-
  PyEcc.Lemmas.BlsProtoCodec — the byte encodings of G1 / G2 points read SEMANTICALLY:
  `EncG1 bs p` ("the 48-byte string `bs` decodes to a representative of the Mathlib point `p`") and
  `EncG2 bs q` (same for 96-byte strings and the twist curve over `K2`).

  Assembled from C11 (round trip / canonicity of the codec), C07/C13 transfer (`Represents`) and C17
  (`subgroup_check`): every point of the `r`-torsion has exactly one encoding, and every accepted string
  encodes exactly one point.  Used by `Props/C0{1,2,3}_Proto.lean`.
-/
import PyEcc.Props.C04
import PyEcc.Props.C11
import PyEcc.Props.C11_G2Full
import PyEcc.Props.C17_Model

set_option linter.unusedSectionVars false
set_option maxRecDepth 100000
set_option exponentiation.threshold 400

namespace PyEcc.BlsProto
open PyEcc PyEcc.Gen PyEcc.Gen.Consts PyEcc.FqpSem PyEcc.Transfer PyEcc.BlsSem

/-- Mathlib's group of points of `y² = x³ + 4` over `Fq blsP` -/
abbrev E1 : Type := CurvePt (blsB : F1)
/-- Mathlib's group of points of the twist `y² = x³ + 4(1+i)` over `K2 = F_p[X]/(X²+1)` -/
abbrev E2 : Type := CurvePt (toQ blsB2 : K2)

/-! ## G1 -/

section G1
variable {T T' : G1Pt} {p p' : E1}

theorem toAff_fin {T : G1Pt} (hz : T.2.2 ≠ 0) : toAff T = some (T.1 / T.2.2, T.2.1 / T.2.2) :=
  C13.toAff_of_z_ne_zero hz

/-- `compress_G1` depends only on the affine reading of the triple -/
theorem compressG1_congr (h : toAff T = toAff T') : compressG1 T = compressG1 T' := by
  by_cases hz : T.2.2 = 0
  · have hz' : T'.2.2 = 0 := by
      by_contra hne
      rw [C13.toAff_of_z_eq_zero hz, toAff_fin hne] at h
      cases h
    rw [CodecSem.compressG1_inf hz, CodecSem.compressG1_inf hz']
  · have hz' : T'.2.2 ≠ 0 := by
      intro h0
      rw [C13.toAff_of_z_eq_zero h0, toAff_fin hz] at h
      cases h
    rw [toAff_fin hz, toAff_fin hz'] at h
    have h1 := (Prod.mk.inj (Option.some.inj h)).1
    have h2 := (Prod.mk.inj (Option.some.inj h)).2
    rw [CodecSem.compressG1_fin hz, CodecSem.compressG1_fin hz']
    have e1 : (T.1 / T.2.2 : F1) = T'.1 / T'.2.2 := h1
    have e2 : (T.2.1 / T.2.2 : F1) = T'.2.1 / T'.2.2 := h2
    rw [e1, e2]

set_option maxRecDepth 100000 in
/-- the two points with affine `x = 0` (order 3) fail `subgroup_check` (kernel evaluation) -/
theorem x0_points_fail :
    subgroupCheck (((0 : F1), (Fq.ofInt 2 : F1), (1 : F1)) : G1Pt) = false ∧
    subgroupCheck (((0 : F1), (Fq.ofInt ((blsP - 2 : ℕ) : ℤ) : F1), (1 : F1)) : G1Pt) = false := by
  decide +kernel

/-- **K1 does not touch the subgroup.**  A finite triple representing a point of the `r`-torsion has
    `X ≠ 0` (the two curve points with `x = 0` have order 3), so C11's G1 round trip applies to it. -/
theorem x_ne_zero_of_torsion (r : Represents T p) (hp : blsR • p = 0) (hz : T.2.2 ≠ 0) : T.1 ≠ 0 := by
  intro hX
  have hon : OptBls.is_on_curve T blsB = true := C07Opt.Bls.opt_on_curve_of_represents r
  have hn := (C11.x0_points_iff T hz).mp ⟨hon, hX⟩
  have key : ∀ y : F1, OptBls.normalize T = ((0 : F1), y) →
      subgroupCheck (((0 : F1), y, (1 : F1)) : G1Pt) = true := by
    intro y hy
    have hr : Represents (((0 : F1), y, (1 : F1)) : G1Pt) p := by
      show toAff _ = reprRef p
      rw [← show toAff T = reprRef p from r, toAff_fin hz,
        toAff_fin (T := ((0 : F1), y, (1 : F1))) (show (1 : F1) ≠ 0 from one_ne_zero)]
      have h1 : (T.1 / T.2.2 : F1) = 0 := (Prod.mk.inj hy).1
      have h2 : (T.2.1 / T.2.2 : F1) = y := (Prod.mk.inj hy).2
      show some ((0 : F1) / (1 : F1), y / (1 : F1)) = some (T.1 / T.2.2, T.2.1 / T.2.2)
      rw [h1, h2, div_one, div_one]
    exact (C17M.subgroupCheck_G1_iff hr).mpr hp
  rcases hn with h | h
  · have := key _ h; rw [x0_points_fail.1] at this; cases this
  · have := key _ h; rw [x0_points_fail.2] at this; cases this

/-- the 48-byte string `bs` decodes (`pubkey_to_G1`) to a representative of `p` -/
def EncG1 (bs : Bytes) (p : E1) : Prop :=
  bs.length = 48 ∧ ∃ P, pubkeyToG1 bs = .ok P ∧ Represents P p

/-- what `pubkey_to_G1` returns on 48 bytes is on the curve, hence represents a point -/
theorem pubkeyToG1_rep {bs : Bytes} (hl : bs.length = 48) {P : G1Pt} (h : pubkeyToG1 bs = .ok P) :
    ∃ p : E1, Represents P p :=
  (on_curve_iff_F1 P).mp (C11.g1ToPubkey_pubkeyToG1 bs hl P h).1

/-- **Every `r`-torsion point has an encoding**: `G1_to_pubkey` of any representative returns it. -/
theorem encG1_of_rep (r : Represents T p) (hp : blsR • p = 0) :
    ∃ bs, g1ToPubkey T = .ok bs ∧ EncG1 bs p := by
  obtain ⟨bs, hbs, hl, _⟩ := C11.g1ToPubkey_length T
  have hon : OptBls.is_on_curve T blsB = true := C07Opt.Bls.opt_on_curve_of_represents r
  obtain ⟨hdec, heq⟩ := C11.decompress_compress_G1_partial T hon (x_ne_zero_of_torsion r hp)
  have hpk := (C11.pubkeyToG1_g1ToPubkey T hbs).trans hdec
  obtain ⟨p', r'⟩ := pubkeyToG1_rep hl hpk
  have : p' = p := (opt_eq_refines_F1 r' r).mp heq
  subst this
  exact ⟨bs, hbs, hl, _, hpk, r'⟩

/-- an accepted string encodes one point only -/
theorem EncG1.point_unique {bs : Bytes} (h : EncG1 bs p) (h' : EncG1 bs p') : p = p' := by
  obtain ⟨_, P, hP, r⟩ := h
  obtain ⟨_, P', hP', r'⟩ := h'
  rw [hP] at hP'
  cases hP'
  exact C07Opt.Bls.represents_unique r r'

/-- **Canonicity**: a point has one encoding only -/
theorem EncG1.bytes_unique {bs bs' : Bytes} (h : EncG1 bs p) (h' : EncG1 bs' p) : bs = bs' := by
  obtain ⟨hl, P, hP, r⟩ := h
  obtain ⟨hl', P', hP', r'⟩ := h'
  have e := (C11.g1ToPubkey_pubkeyToG1 bs hl P hP).2
  have e' := (C11.g1ToPubkey_pubkeyToG1 bs' hl' P' hP').2
  unfold g1ToPubkey at e e'
  rw [compressG1_congr (show toAff P = toAff P' from r.trans r'.symm)] at e
  rw [e] at e'
  exact Except.ok.inj e'

/-- a canonical public key (C04's `CanonPk`) is the encoding of a non-zero `r`-torsion point -/
theorem canonPk_enc {pk : Bytes} {P : G1Pt} (h : CanonPk pk P) :
    ∃ p : E1, Represents P p ∧ EncG1 pk p ∧ p ≠ 0 ∧ blsR • p = 0 := by
  obtain ⟨hl, hP, hi, hs⟩ := h
  obtain ⟨p, r⟩ := pubkeyToG1_rep hl hP
  refine ⟨p, r, ⟨hl, P, hP, r⟩, ?_, (C17M.subgroupCheck_G1_iff r).mp hs⟩
  intro h0
  rw [(opt_is_inf_refines_F1 r).mpr h0] at hi
  cases hi

/-- conversely the encoding of a non-zero `r`-torsion point is a canonical public key -/
theorem canonPk_of_enc {pk : Bytes} (h : EncG1 pk p) (h0 : p ≠ 0) (hp : blsR • p = 0) :
    ∃ P, CanonPk pk P ∧ Represents P p := by
  obtain ⟨hl, P, hP, r⟩ := h
  refine ⟨P, ⟨hl, hP, ?_, (C17M.subgroupCheck_G1_iff r).mpr hp⟩, r⟩
  cases hi : OptBls.is_inf P with
  | false => rfl
  | true => exact (h0 ((opt_is_inf_refines_F1 r).mp hi)).elim

end G1

/-! ## G2 -/

section G2
variable [DecidableEq K2] {T T' : G2Pt} {q q' : E2}

/-- the canonical model triple `T` (three `FQ2` objects with reduced coefficients) represents the
    Mathlib point `q` of the twist curve over `K2` -/
def RepG2 (T : G2Pt) (q : E2) : Prop := CanonT T ∧ Represents (mapT toQ T) q

theorem RepG2.on_curve (h : RepG2 T q) : OptBls.is_on_curve T blsB2 = true :=
  (on_curve_iff_F2 h.1).mpr ⟨q, h.2⟩

theorem RepG2.unique (h : RepG2 T q) (h' : RepG2 T q') : q = q' :=
  C07Opt.Bls.represents_unique h.2 h'.2

theorem repG2_of_on_curve (c : CanonT T) (hon : OptBls.is_on_curve T blsB2 = true) :
    ∃ q : E2, RepG2 T q := by
  obtain ⟨q, r⟩ := (on_curve_iff_F2 c).mp hon
  exact ⟨q, c, r⟩

theorem toQ_z_eq_zero_iff (c : CanonT T) : (toQ T.2.2 : K2) = 0 ↔ T.2.2 = 0 :=
  (Fq2Sqrt.eq_zero_iff c.2.2).symm

/-- `compress_G2` depends only on the represented point (for canonical on-curve triples) -/
theorem compressG2_congr (h : RepG2 T q) (h' : RepG2 T' q) : compressG2 T = compressG2 T' := by
  have hon := h.on_curve
  have hon' := h'.on_curve
  obtain ⟨c, r⟩ := h
  obtain ⟨c', r'⟩ := h'
  have ha : toAff (mapT (toQ : F2 → K2) T) = toAff (mapT (toQ : F2 → K2) T') := r.trans r'.symm
  by_cases hz : T.2.2 = 0
  · have hz' : T'.2.2 = 0 := by
      by_contra hne
      rw [C13.toAff_of_z_eq_zero (show (mapT (toQ : F2 → K2) T).2.2 = 0 from (toQ_z_eq_zero_iff c).mpr hz),
        C13.toAff_of_z_ne_zero (show (mapT (toQ : F2 → K2) T').2.2 ≠ 0 from
          fun h0 => hne ((toQ_z_eq_zero_iff c').mp h0))] at ha
      cases ha
    have hi : OptBls.is_inf T = true := by simp [OptBls.is_inf, hz]
    have hi' : OptBls.is_inf T' = true := by simp [OptBls.is_inf, hz']
    rw [(C11.decompress_compress_G2_inf T hi).1, (C11.decompress_compress_G2_inf T' hi').1]
  · have hz' : T'.2.2 ≠ 0 := by
      intro h0
      rw [C13.toAff_of_z_eq_zero (show (mapT (toQ : F2 → K2) T').2.2 = 0 from (toQ_z_eq_zero_iff c').mpr h0),
        C13.toAff_of_z_ne_zero (show (mapT (toQ : F2 → K2) T).2.2 ≠ 0 from
          fun h1 => hz ((toQ_z_eq_zero_iff c).mp h1))] at ha
      cases ha
    rw [C13.toAff_of_z_ne_zero (show (mapT (toQ : F2 → K2) T).2.2 ≠ 0 from
          fun h1 => hz ((toQ_z_eq_zero_iff c).mp h1)),
      C13.toAff_of_z_ne_zero (show (mapT (toQ : F2 → K2) T').2.2 ≠ 0 from
          fun h1 => hz' ((toQ_z_eq_zero_iff c').mp h1))] at ha
    have h1 := (Prod.mk.inj (Option.some.inj ha)).1
    have h2 := (Prod.mk.inj (Option.some.inj ha)).2
    simp only [mapT_fst, mapT_snd_fst, mapT_snd_snd] at h1 h2
    have e1 : T.1 / T.2.2 = T'.1 / T'.2.2 := by
      apply toQ_inj (Fq2Sqrt.canon_div2 c.1 c.2.2) (Fq2Sqrt.canon_div2 c'.1 c'.2.2)
      rw [Fq2Sqrt.toQ_div2 c.1 c.2.2, Fq2Sqrt.toQ_div2 c'.1 c'.2.2]; exact h1
    have e2 : T.2.1 / T.2.2 = T'.2.1 / T'.2.2 := by
      apply toQ_inj (Fq2Sqrt.canon_div2 c.2.1 c.2.2) (Fq2Sqrt.canon_div2 c'.2.1 c'.2.2)
      rw [Fq2Sqrt.toQ_div2 c.2.1 c.2.2, Fq2Sqrt.toQ_div2 c'.2.1 c'.2.2]; exact h2
    rw [Fq2Sqrt.compressG2_fin hon hz, Fq2Sqrt.compressG2_fin hon' hz', e1, e2]

/-- what `signature_to_G2` returns on 96 bytes is a canonical triple on the twist curve -/
theorem signatureToG2_canon {bs : Bytes} (hl : bs.length = 96) {S : G2Pt}
    (h : signatureToG2 bs = .ok S) : CanonT S ∧ OptBls.is_on_curve S blsB2 = true := by
  unfold signatureToG2 at h
  have e : (256 : ℕ) ^ 48 = 2 ^ 384 := by decide
  have l1 : (bs.take 48).length = 48 := by rw [List.length_take]; omega
  have hlt : os2ip (bs.take 48) < 2 ^ 384 := by
    have := BytesLem.os2ip_lt (bs.take 48)
    rw [l1] at this; omega
  obtain ⟨hc, hon, _⟩ := C11.compress_decompress_G2 _ _ hlt S h
  exact ⟨hc, hon⟩

/-- the 96-byte string `bs` decodes (`signature_to_G2`) to a representative of `q` -/
def EncG2 (bs : Bytes) (q : E2) : Prop :=
  bs.length = 96 ∧ ∃ S, signatureToG2 bs = .ok S ∧ RepG2 S q

/-- what `signature_to_G2` returns on 96 bytes represents a point -/
theorem signatureToG2_rep {bs : Bytes} (hl : bs.length = 96) {S : G2Pt}
    (h : signatureToG2 bs = .ok S) : ∃ q : E2, RepG2 S q :=
  repG2_of_on_curve (signatureToG2_canon hl h).1 (signatureToG2_canon hl h).2

/-- **Every point of the twist curve has an encoding**: `G2_to_signature` of any canonical
    representative returns it (no exception: C11 for G2 has no excluded point). -/
theorem encG2_of_rep (h : RepG2 T q) : ∃ bs, g2ToSignature T = .ok bs ∧ EncG2 bs q := by
  have hon := h.on_curve
  obtain ⟨bs, hbs, hl, hdec⟩ := C11.signatureToG2_g2ToSignature_roundtrip T h.1 hon
  obtain ⟨_, _, _, _, heq⟩ := C11.decompress_compress_G2 T h.1 hon
  obtain ⟨q', r'⟩ := signatureToG2_rep hl hdec
  have : q' = q := (opt_eq_refines_F2 r'.1 h.1 r'.2 h.2).mp heq
  subst this
  exact ⟨bs, hbs, hl, _, hdec, r'⟩

theorem EncG2.point_unique {bs : Bytes} (h : EncG2 bs q) (h' : EncG2 bs q') : q = q' := by
  obtain ⟨_, S, hS, r⟩ := h
  obtain ⟨_, S', hS', r'⟩ := h'
  rw [hS] at hS'
  cases hS'
  exact r.unique r'

/-- **Canonicity**: a point has one encoding only -/
theorem EncG2.bytes_unique {bs bs' : Bytes} (h : EncG2 bs q) (h' : EncG2 bs' q) : bs = bs' := by
  obtain ⟨hl, S, hS, r⟩ := h
  obtain ⟨hl', S', hS', r'⟩ := h'
  have e := (C11.g2ToSignature_signatureToG2 bs hl S hS).2
  have e' := (C11.g2ToSignature_signatureToG2 bs' hl' S' hS').2
  unfold g2ToSignature at e e'
  rw [compressG2_congr r r'] at e
  rw [e] at e'
  exact Except.ok.inj e'

/-- `G2_to_signature` of a canonical representative of `q` returns exactly the encoding of `q` -/
theorem g2ToSignature_eq_iff (h : RepG2 T q) (bs : Bytes) : g2ToSignature T = .ok bs ↔ EncG2 bs q := by
  obtain ⟨bs0, h0, e0⟩ := encG2_of_rep h
  constructor
  · intro hb; rw [h0] at hb; cases hb; exact e0
  · intro hb; rw [h0, e0.bytes_unique hb]

/-- a canonical signature (C04's `CanonSig`) is the encoding of an `r`-torsion point -/
theorem canonSig_enc {sig : Bytes} {S : G2Pt} (h : CanonSig sig S) :
    ∃ q : E2, RepG2 S q ∧ EncG2 sig q ∧ blsR • q = 0 := by
  obtain ⟨hl, hS, hs⟩ := h
  obtain ⟨q, r⟩ := signatureToG2_rep hl hS
  exact ⟨q, r, ⟨hl, S, hS, r⟩, (C17M.subgroupCheck_G2_iff r.1 r.2).mp hs⟩

theorem canonSig_of_enc {sig : Bytes} (h : EncG2 sig q) (hq : blsR • q = 0) :
    ∃ S, CanonSig sig S ∧ RepG2 S q := by
  obtain ⟨hl, S, hS, r⟩ := h
  exact ⟨S, ⟨hl, hS, (C17M.subgroupCheck_G2_iff r.1 r.2).mpr hq⟩, r⟩

end G2

end PyEcc.BlsProto
