/-
  PyEcc.Lemmas.MillerBnOpt — the optimized bn128 Miller loop (signed digits, projective `R` over FQ12,
  numerator/denominator pairs) against the abstract Miller values: invariant `OInv k`
  (`Lemmas/MillerBnLoop.lean` has the context `Ctx` and the reference loop).
-/
import PyEcc.Lemmas.MillerBnLoop

set_option linter.unusedSectionVars false
set_option linter.unusedVariables false
set_option maxRecDepth 100000

namespace PyEcc.MillerBnSem
open Polynomial PyEcc PyEcc.Gen PyEcc.Gen.Consts PyEcc.Fqp PyEcc.FqpSem PyEcc.Transfer PyEcc.TwistSem
  PyEcc.C13 PyEcc.C13.Bn WeierstrassCurve WeierstrassCurve.Affine

/-! ### the optimized loop body and tail as top-level functions -/

section optstep
variable {p : Nat} {mc12 : List Int}
local notation "F12" => Fqp Variant.opt p mc12

/-- body of `for v in pseudo_binary_encoding[63::-1]` (the local `step` of `optBnMillerLoop`, verbatim) -/
def optBnStep (Q P : F12 × F12 × F12) (st : (F12 × F12) × (F12 × F12 × F12)) (v : Int) :
    (F12 × F12) × (F12 × F12 × F12) :=
  let ((fNum, fDen), R) := st
  let (n, d) := Gen.OptBn.linefunc R R P
  let fNum := fNum * fNum * n
  let fDen := fDen * fDen * d
  let R := Gen.OptBn.double R
  if v = 1 then
    let (n, d) := Gen.OptBn.linefunc R Q P
    ((fNum * n, fDen * d), Gen.OptBn.add R Q)
  else if v = -1 then
    let nQ := Gen.OptBn.neg Q
    let (n, d) := Gen.OptBn.linefunc R nQ P
    ((fNum * n, fDen * d), Gen.OptBn.add R nQ)
  else ((fNum, fDen), R)

/-- the two Frobenius line steps, the division and the optional power -/
def optBnTail (fe : Option Nat) (Q P : F12 × F12 × F12) (st : (F12 × F12) × (F12 × F12 × F12)) : F12 :=
  let ((fNum, fDen), R) := st
  let (qx, qy, qz) := Q
  let Q1 : F12 × F12 × F12 := (qx ^ p, qy ^ p, qz ^ p)
  let nQ2 : F12 × F12 × F12 := (Q1.1 ^ p, -(Q1.2.1 ^ p), Q1.2.2 ^ p)
  let (n1, d1) := Gen.OptBn.linefunc R Q1 P
  let R := Gen.OptBn.add R Q1
  let (n2, d2) := Gen.OptBn.linefunc R nQ2 P
  let f := fNum * n1 * n2 / (fDen * d1 * d2)
  match fe with
  | some e => f ^ e
  | none => f

theorem optBnStep_eq (Q P : F12 × F12 × F12) (fN fD : F12) (R : F12 × F12 × F12) (v : Int) :
    optBnStep Q P ((fN, fD), R) v =
      if v = 1 then
        ((fN * fN * (Gen.OptBn.linefunc R R P).1 * (Gen.OptBn.linefunc (Gen.OptBn.double R) Q P).1,
          fD * fD * (Gen.OptBn.linefunc R R P).2 * (Gen.OptBn.linefunc (Gen.OptBn.double R) Q P).2),
          Gen.OptBn.add (Gen.OptBn.double R) Q)
      else if v = -1 then
        ((fN * fN * (Gen.OptBn.linefunc R R P).1
            * (Gen.OptBn.linefunc (Gen.OptBn.double R) (Gen.OptBn.neg Q) P).1,
          fD * fD * (Gen.OptBn.linefunc R R P).2
            * (Gen.OptBn.linefunc (Gen.OptBn.double R) (Gen.OptBn.neg Q) P).2),
          Gen.OptBn.add (Gen.OptBn.double R) (Gen.OptBn.neg Q))
      else ((fN * fN * (Gen.OptBn.linefunc R R P).1, fD * fD * (Gen.OptBn.linefunc R R P).2),
          Gen.OptBn.double R) := by
  unfold optBnStep
  split_ifs <;> rfl

theorem optBnMillerLoop_eq (digits : List Int) (fe : Option Nat) (Q P : F12 × F12 × F12) :
    optBnMillerLoop digits fe Q P
      = optBnTail fe Q P (digits.foldl (optBnStep Q P) (((1 : F12), (1 : F12)), Q)) := rfl

end optstep

theorem mapP_fst'' {A B : Type} (ψ : A → B) (X : A × A) : (mapP ψ X).1 = ψ X.1 := rfl
theorem mapP_snd'' {A B : Type} (ψ : A → B) (X : A × A) : (mapP ψ X).2 = ψ X.2 := rfl

/-- multiplying a numerator/denominator pair by a reduced pair `(n, d)` with `n/d = lv` -/
theorem acc_mul {fN fD n d : OBn12} {lv : K12bn} (cN : Canon fN) (cD : Canon fD) (cn : Canon n)
    (cd : Canon d) (den : (toQ fD : K12bn) ≠ 0) (dne : (toQ d : K12bn) ≠ 0)
    (hv : (toQ n : K12bn) / toQ d = lv) :
    Canon (fN * n) ∧ Canon (fD * d) ∧ (toQ (fD * d) : K12bn) ≠ 0
      ∧ (toQ (fN * n) : K12bn) / toQ (fD * d) = toQ fN / toQ fD * lv := by
  have hO := goodHom_F12bn (v := .opt)
  refine ⟨hO.good_mul cN cn, hO.good_mul cD cd, ?_, ?_⟩
  · rw [hO.map_mul cD cd]; exact mul_ne_zero den dne
  · rw [hO.map_mul cN cn, hO.map_mul cD cd, ← hv]; field_simp

variable [DecidableEq K12bn]

/-- optimized-side data: `Qo` represents `T`, `castP` represents `P`, stored reduced -/
structure OptData (T : E12) (xP yP : K12bn) (Qo castP : OT12) : Prop where
  cQ : CanonT Qo
  rQ : Represents (mapT toQ Qo) T
  cP : CanonT castP
  zP : (toQ castP.2.2 : K12bn) ≠ 0
  rP : toAff (mapT (toQ : OBn12 → K12bn) castP) = some (xP, yP)

/-- invariant of the optimized loop -/
structure OInv {T : E12} {xP yP : K12bn} (c : Ctx T xP yP) (k : ℕ) (st : (OBn12 × OBn12) × OT12) :
    Prop where
  cN : Canon st.1.1
  cD : Canon st.1.2
  cR : CanonT st.2
  den : (toQ st.1.2 : K12bn) ≠ 0
  rR : Represents (mapT toQ st.2) (k • T)
  mv : MV c.hP bnFinalExp T k (toQ st.1.1 / toQ st.1.2)

section opt
variable {T : E12} {xP yP : K12bn} (c : Ctx T xP yP) {Qo castP : OT12} (d : OptData T xP yP Qo castP)
include c d

theorem z_ne_of_represents {X : K12bn × K12bn × K12bn} {A : E12} (r : Represents X A) (hA : A ≠ 0) :
    X.2.2 ≠ 0 := by
  intro hz
  apply hA
  have : toAff X = reprRef A := r
  rw [toAff_of_z_eq_zero hz] at this
  rcases A with _ | ⟨x, y, h⟩
  · rfl
  · cases this

theorem y_ne_of_represents {X : K12bn × K12bn × K12bn} {A : E12} (r : Represents X A) (hA : A ≠ 0)
    (h2 : A + A ≠ 0) : X.2.1 ≠ 0 := by
  intro hy
  have hz := z_ne_of_represents c d r hA
  have e : toAff X = reprRef A := r
  rw [toAff_of_z_ne_zero hz] at e
  rcases A with _ | ⟨x, y, h⟩
  · exact hA rfl
  · simp only [reprRef_some, Option.some.injEq, Prod.mk.injEq] at e
    apply h2
    apply Point.add_self_of_Y_eq
    rw [GroupOrder.negY_W, ← e.2, hy, zero_div, neg_zero]

/-- the optimized `linefunc` on stored triples representing two finite points with finite sum (the
    first not 2-torsion) returns a reduced pair with non-zero denominator and `num/den` = line value -/
theorem opt_line {T1 T2 : OT12} {A B : E12} (c1 : CanonT T1) (c2 : CanonT T2)
    (r1 : Represents (mapT toQ T1) A) (r2 : Represents (mapT toQ T2) B) (hA : A ≠ 0) (hB : B ≠ 0)
    (hAB : A + B ≠ 0) (hAA : A + A ≠ 0) :
    Canon (OptBn.linefunc T1 T2 castP).1 ∧ Canon (OptBn.linefunc T1 T2 castP).2
      ∧ (toQ (OptBn.linefunc T1 T2 castP).2 : K12bn) ≠ 0
      ∧ (toQ (OptBn.linefunc T1 T2 castP).1 : K12bn) / toQ (OptBn.linefunc T1 T2 castP).2
          = lineVal c.hP A B := by
  obtain ⟨⟨cn, cd⟩, e⟩ := Transfer.Bn.good_linefunc (B := K12bn) (goodHom_F12bn (v := .opt)) c1 c2 d.cP
  have e1 : (OptBn.linefunc (mapT toQ T1) (mapT toQ T2) (mapT toQ castP)).1
      = (toQ (OptBn.linefunc T1 T2 castP).1 : K12bn) := by rw [← e, mapP_fst'']
  have e2 : (OptBn.linefunc (mapT toQ T1) (mapT toQ T2) (mapT toQ castP)).2
      = (toQ (OptBn.linefunc T1 T2 castP).2 : K12bn) := by rw [← e, mapP_snd'']
  have hz1 := z_ne_of_represents c d r1 hA
  have hz2 := z_ne_of_represents c d r2 hB
  have hzt : (mapT (toQ : OBn12 → K12bn) castP).2.2 ≠ 0 := d.zP
  have hy1 := y_ne_of_represents c d r1 hA hAA
  have hden : (OptBn.linefunc (mapT toQ T1) (mapT toQ T2) (mapT toQ castP)).2 ≠ 0 := by
    rw [ne_eq, opt_linefunc_den_eq_zero_iff k12bn_two _ _ _ hz1 hz2 hzt]
    exact fun h => hy1 h.2
  have hl := opt_linefunc_toAff (mapT toQ T1) (mapT toQ T2) (mapT toQ castP) hz1 hz2 hzt hden
  rw [show toAff (mapT toQ T1) = reprRef A from r1, show toAff (mapT toQ T2) = reprRef B from r2, d.rP,
    ref_linefunc_lineVal c.hP hA hB hAB, e1, e2] at hl
  refine ⟨cn, cd, ?_, (Except.ok.inj hl).symm⟩
  rw [← e2]; exact hden

/-- scalar after one optimized iteration with digit `v` -/
def optNext (k : ℕ) (v : Int) : ℕ := if v = 1 then 2 * k + 1 else if v = -1 then 2 * k - 1 else 2 * k

/-- **one optimized iteration** -/
theorem opt_step (v : Int) {k : ℕ} {st : (OBn12 × OBn12) × OT12} (inv : OInv c k st) (k0 : 0 < k)
    (kb : 2 * k + 1 < bnR) : OInv c (optNext k v) (optBnStep Qo castP st v) := by
  obtain ⟨⟨fN, fD⟩, R⟩ := st
  obtain ⟨cN, cD, cR, den, rR, mv⟩ := inv
  simp only at cN cD cR den rR mv
  have hO := goodHom_F12bn (v := .opt)
  have hk : k • T ≠ 0 := c.ne_zero k0 (by omega)
  have h2k : (2 * k) • T ≠ 0 := c.ne_zero (by omega) (by omega)
  have e2k : (2 * k) • T = k • T + k • T := by rw [two_mul, add_nsmul]
  obtain ⟨cn, cd, dne, lv⟩ := opt_line c d cR cR rR rR hk hk (e2k ▸ h2k) (c.no2 hk)
  have cR' : CanonT (OptBn.double R) := (Transfer.Bn.good_double (B := K12bn) hO cR).1
  have rR' : Represents (mapT toQ (OptBn.double R)) ((2 * k) • T) := by
    rw [e2k]; exact Transfer.Bn.via_double_refines hO k12bn_two cR rR
  have mv2 := mv.double c.hP bnFinalExp hk h2k (c.vert _ h2k)
  obtain ⟨cN1, cD1, den1, val1⟩ := acc_mul cN cD cN cD den den rfl
  obtain ⟨cN', cD', den', val'⟩ := acc_mul cN1 cD1 cn cd den1 dne lv
  rw [val1] at val'
  rw [← val'] at mv2
  rw [optBnStep_eq]
  by_cases hv1 : v = 1
  · have h2k1 : (2 * k + 1) • T ≠ 0 := c.ne_zero (by omega) kb
    have e2k1 : (2 * k + 1) • T = (2 * k) • T + T := succ_nsmul T (2 * k)
    obtain ⟨cn2, cd2, dne2, lv2⟩ :=
      opt_line c d cR' d.cQ rR' d.rQ h2k c.T0 (e2k1 ▸ h2k1) (c.no2 h2k)
    have mv3 := mv2.add c.hP bnFinalExp c.T0 h2k h2k1 (c.vert _ h2k1)
    obtain ⟨cN'', cD'', den'', val''⟩ := acc_mul cN' cD' cn2 cd2 den' dne2 lv2
    rw [← val''] at mv3
    have : optNext k v = 2 * k + 1 := by simp [optNext, hv1]
    rw [this, if_pos hv1]
    refine ⟨?_, ?_, ?_, ?_, ?_, ?_⟩ <;> dsimp only
    · exact cN''
    · exact cD''
    · exact (Transfer.Bn.good_add (B := K12bn) hO cR' d.cQ).1
    · exact den''
    · rw [e2k1]; exact Transfer.Bn.via_add_refines hO k12bn_two cR' d.cQ rR' d.rQ
    · exact mv3
  by_cases hv2 : v = -1
  · have hkm : 2 * k - 1 + 1 = 2 * k := by omega
    have h2km : (2 * k - 1) • T ≠ 0 := c.ne_zero (by omega) (by omega)
    have cnQ : CanonT (OptBn.neg Qo) := (Transfer.Bn.good_neg (B := K12bn) hO d.cQ).1
    have rnQ : Represents (mapT toQ (OptBn.neg Qo)) (-T) := Transfer.Bn.via_neg_refines hO d.cQ d.rQ
    have esub : (2 * k - 1) • T = (2 * k) • T + -T := by
      conv_rhs => rw [← hkm, succ_nsmul]
      abel
    obtain ⟨cn2, cd2, dne2, lv2⟩ :=
      opt_line c d cR' cnQ rR' rnQ h2k (neg_ne_zero.mpr c.T0) (esub ▸ h2km) (c.no2 h2k)
    rw [← hkm] at mv2
    have mv3 := mv2.sub c.hP bnFinalExp c.T0 (by rw [hkm]; exact h2k) h2km (c.vert _ h2km) c.vertT
    rw [hkm] at mv3
    obtain ⟨cN'', cD'', den'', val''⟩ := acc_mul cN' cD' cn2 cd2 den' dne2 lv2
    rw [← val''] at mv3
    have : optNext k v = 2 * k - 1 := by simp [optNext, hv2]
    rw [this, if_neg hv1, if_pos hv2]
    refine ⟨?_, ?_, ?_, ?_, ?_, ?_⟩ <;> dsimp only
    · exact cN''
    · exact cD''
    · exact (Transfer.Bn.good_add (B := K12bn) hO cR' cnQ).1
    · exact den''
    · rw [esub]; exact Transfer.Bn.via_add_refines hO k12bn_two cR' cnQ rR' rnQ
    · exact mv3
  · have : optNext k v = 2 * k := by simp [optNext, hv1, hv2]
    rw [this, if_neg hv1, if_neg hv2]
    refine ⟨?_, ?_, ?_, ?_, ?_, ?_⟩ <;> dsimp only
    · exact cN'
    · exact cD'
    · exact cR'
    · exact den'
    · exact rR'
    · exact mv2

/-- scalar reached by the optimized loop from `k` along a digit list -/
def optScalar : ℕ → List Int → ℕ
  | k, [] => k
  | k, v :: ds => optScalar (optNext k v) ds

/-- the running scalar of the optimized loop stays in `(0, (r−1)/2)` before every iteration -/
def OptBound (r : ℕ) : ℕ → List Int → Prop
  | _, [] => True
  | k, v :: ds => 0 < k ∧ 2 * k + 1 < r ∧ OptBound r (optNext k v) ds

instance (r : ℕ) : ∀ (k : ℕ) (ds : List Int), Decidable (OptBound r k ds)
  | _, [] => by unfold OptBound; infer_instance
  | k, v :: ds => by
    unfold OptBound
    have := instDecidableOptBound r (optNext k v) ds
    infer_instance

/-- **the optimized loop** -/
theorem opt_loop : ∀ (ds : List Int) (k : ℕ) (st : (OBn12 × OBn12) × OT12), OInv c k st →
    OptBound bnR k ds → OInv c (optScalar k ds) (ds.foldl (optBnStep Qo castP) st)
  | [], k, st, inv, _ => inv
  | v :: ds, k, st, inv, hb => by
    obtain ⟨k0, kb, hb'⟩ := hb
    exact opt_loop ds _ _ (opt_step c d v inv k0 kb) hb'

end opt

end PyEcc.MillerBnSem
