/-
  PyEcc.Lemmas.NegBnTail — the two Frobenius line steps and the final power of the reference bn128
  `miller_loop` as a generic function `tailG` of the coordinate type (the same expression as `refTail` of
  `Lemmas/MillerBnTail.lean`; the generated `Gen.RefBn.linefunc / add / double` are the same code as the
  `Gen.RefBls` ones), the whole loop `millerG`, their transport along operation-preserving maps, and over
  `K12bn`: negating the evaluation point, non-vanishing.
-/
import PyEcc.Lemmas.NegBnMiller

set_option linter.unusedSectionVars false
set_option linter.unusedVariables false
set_option maxRecDepth 100000

namespace PyEcc.NegBnSem
open Polynomial PyEcc PyEcc.Gen PyEcc.Gen.Consts PyEcc.Fqp PyEcc.FqpSem PyEcc.TwistSem PyEcc.PairingSem
  PyEcc.MillerSem PyEcc.NegSem
open PyEcc.Transfer (OpHom GoodHom GoodSub)

section generic
variable {A B : Type}
  [Zero A] [One A] [Add A] [Sub A] [Mul A] [Neg A] [Div A] [NatCast A] [Pow A Nat] [DecidableEq A]
  [Zero B] [One B] [Add B] [Sub B] [Mul B] [Neg B] [Div B] [NatCast B] [Pow B Nat] [DecidableEq B]

/-- the Frobenius steps and the final power of the reference bn128 `miller_loop` -/
def tailG (p E : Nat) (qx qy : A) (P : Option (A × A)) (s : A × Option (A × A)) : Except PyErr A :=
  RefBls.linefunc s.2 (some (qx ^ p, qy ^ p)) P >>= fun l1 =>
  RefBls.add s.2 (some (qx ^ p, qy ^ p)) >>= fun R =>
  RefBls.linefunc R (some ((qx ^ p) ^ p, -((qy ^ p) ^ p))) P >>= fun l2 =>
  pure ((s.1 * l1 * l2) ^ E)

/-- the reference bn128 `miller_loop` on finite points -/
def millerG (p ate : Nat) (is : List Nat) (E : Nat) (qx qy : A) (P : Option (A × A)) : Except PyErr A :=
  loopG ate is (some (qx, qy)) P (1, some (qx, qy)) >>= tailG p E qx qy P

theorem tailG_map {ψ : A → B} (h : OpHom ψ) (p E : Nat) (qx qy : A) (P : Option (A × A))
    (s : A × Option (A × A)) :
    (tailG p E qx qy P s).map ψ = tailG p E (ψ qx) (ψ qy) (mapO ψ P) (mapSt ψ s) := by
  obtain ⟨f, R⟩ := s
  unfold tailG
  simp only [mapSt]
  have q1 : mapO ψ (some (qx ^ p, qy ^ p)) = some (ψ qx ^ p, ψ qy ^ p) := by
    rw [mapO_some, h.map_pow, h.map_pow]
  have q2 : mapO ψ (some ((qx ^ p) ^ p, -((qy ^ p) ^ p))) = some ((ψ qx ^ p) ^ p, -((ψ qy ^ p) ^ p)) := by
    rw [mapO_some, h.map_pow, h.map_pow, h.map_neg, h.map_pow, h.map_pow]
  rw [← q1, ← q2, ← ref_linefunc_map h, ← ref_add_map h]
  rcases RefBls.linefunc R (some (qx ^ p, qy ^ p)) P with e | l1
  · rfl
  simp only [map_okk, okk_bind]
  rcases RefBls.add R (some (qx ^ p, qy ^ p)) with e | R'
  · rfl
  simp only [map_okk, okk_bind]
  rw [← ref_linefunc_map h]
  rcases RefBls.linefunc R' (some ((qx ^ p) ^ p, -((qy ^ p) ^ p))) P with e | l2
  · rfl
  simp only [map_okk, okk_bind]
  show Except.ok (ψ _) = Except.ok _
  rw [h.map_pow, h.map_mul, h.map_mul]

theorem millerG_map {ψ : A → B} (h : OpHom ψ) (p ate : Nat) (is : List Nat) (E : Nat) (qx qy : A)
    (P : Option (A × A)) :
    (millerG p ate is E qx qy P).map ψ = millerG p ate is E (ψ qx) (ψ qy) (mapO ψ P) := by
  unfold millerG
  have e := loopG_map h ate (some (qx, qy)) P is (1, some (qx, qy))
  have e1 : mapSt ψ ((1 : A), some (qx, qy)) = ((1 : B), some (ψ qx, ψ qy)) := by
    show (ψ 1, _) = _
    rw [h.map_one]; rfl
  rw [e1, mapO_some] at e
  rw [← e]
  rcases loopG ate is (some (qx, qy)) P (1, some (qx, qy)) with e | s
  · rfl
  · simp only [map_okk, okk_bind]
    exact tailG_map h p E qx qy P s

end generic

section goodhom
variable {A B : Type}
  [Zero A] [One A] [Add A] [Sub A] [Mul A] [Neg A] [Div A] [NatCast A] [Pow A Nat] [DecidableEq A]
  [Zero B] [One B] [Add B] [Sub B] [Mul B] [Neg B] [Div B] [NatCast B] [Pow B Nat] [DecidableEq B]
variable {Good : A → Prop} {φ : A → B} (h : GoodHom Good φ)
include h

/-- **transport along a `GoodHom`**: a normal return of the reference loop on good inputs is mapped to a
    normal return of the loop on the images -/
theorem millerG_good (p ate : Nat) (is : List Nat) (E : Nat) {qx qy : A} {P : Option (A × A)}
    (gx : Good qx) (gy : Good qy) (gP : GoodO Good P) {r : A}
    (hr : millerG p ate is E qx qy P = .ok r) :
    millerG p ate is E (φ qx) (φ qy) (mapO φ P) = .ok (φ r) := by
  have e1 := millerG_map (GoodSub.opHom_img h) p ate is E (GoodSub.mk h qx gx) (GoodSub.mk h qy gy)
    (liftO h P gP)
  have e2 := millerG_map (GoodSub.opHom_val h) p ate is E (GoodSub.mk h qx gx) (GoodSub.mk h qy gy)
    (liftO h P gP)
  rw [img_liftO] at e1
  rw [val_liftO] at e2
  have v1 : GoodSub.val h (GoodSub.mk h qx gx) = qx := rfl
  have v2 : GoodSub.val h (GoodSub.mk h qy gy) = qy := rfl
  have i1 : GoodSub.img h (GoodSub.mk h qx gx) = φ qx := rfl
  have i2 : GoodSub.img h (GoodSub.mk h qy gy) = φ qy := rfl
  rw [v1, v2, hr] at e2
  rw [i1, i2] at e1
  rw [← e1]
  rcases hX : millerG p ate is E (GoodSub.mk h qx gx) (GoodSub.mk h qy gy) (liftO h P gP) with e | X
  · rw [hX] at e2; cases e2
  · rw [hX] at e2
    rw [map_okk] at e2 ⊢
    have := Except.ok.inj e2
    rw [← this]; rfl

end goodhom

/-! ### over `K12bn` -/

variable [DecidableEq K12bn]

theorem bnP_odd : bnP % 2 = 1 := by decide

/-- the Frobenius images of a twisted-type point are of twisted type -/
theorem twT_frob {qx qy : K12bn} (hx : InFp6 qx) (hy : InWFp6 qy) :
    TwT (some (qx ^ bnP, qy ^ bnP)) ∧ TwT (some ((qx ^ bnP) ^ bnP, -((qy ^ bnP) ^ bnP))) :=
  ⟨twT_some (hx.pow _) (hy.pow_odd bnP_odd),
    twT_some ((hx.pow _).pow _) ((hy.pow_odd bnP_odd).pow_odd bnP_odd).neg⟩

/-- **a vertical line through a twisted-type curve point does not vanish at a G1 point** -/
theorem vertical_ne_zero {x2 y2 xt yt b : K12bn} (hy2 : InWFp6 y2) (hyt : InFp6 yt) (hy0 : yt ≠ 0)
    (e2 : y2 ^ 2 = x2 ^ 3 + b) (et : yt ^ 2 = xt ^ 3 + b) : xt - x2 ≠ 0 := by
  intro h
  have hx : xt = x2 := sub_eq_zero.mp h
  have : (y2 - yt) * (y2 + yt) = 0 := by rw [hx] at et; linear_combination e2 - et
  apply hy0
  rcases mul_eq_zero.mp this with h1 | h1
  · have : yt = y2 := (sub_eq_zero.mp h1).symm
    exact eq_zero_of_even_of_odd hyt (this ▸ hy2)
  · have : yt = -y2 := by linear_combination h1
    exact eq_zero_of_even_of_odd hyt (this ▸ hy2.neg)

/-- **the tail at `−T`**, and non-vanishing.  For a twisted-type `(q_x, q_y)` and running point `R`,
    `T = (x_T, y_T)` with coordinates in `Fp⁶`: if the tail at `T` returns `v`, then `v = g^E` and the tail at
    `(x_T, −y_T)` started from `f' = ±σ(f)` returns `g'^E` with `g' = ±σ(g)`; moreover `g ≠ 0` when `f ≠ 0`,
    `y_T ≠ 0`, and `T`, `−π²(q)` lie on a common curve `y² = x³ + b`. -/
theorem tail_negT {qx qy xt yt : K12bn} (hqx : InFp6 qx) (hqy : InWFp6 qy) (hxt : InFp6 xt)
    (hyt : InFp6 yt) (E : Nat) {f f' : K12bn} {R : Option (K12bn × K12bn)} {v : K12bn}
    (hR : TwT R) (hf : SgnRel f f')
    (h : tailG bnP E qx qy (some (xt, yt)) (f, R) = .ok v) :
    ∃ g g', v = g ^ E ∧ tailG bnP E qx qy (some (xt, -yt)) (f', R) = .ok (g' ^ E) ∧ SgnRel g g'
      ∧ (∀ b : K12bn, f ≠ 0 → yt ≠ 0 → ((qx ^ bnP) ^ bnP) ^ 3 + b = ((qy ^ bnP) ^ bnP) ^ 2 →
          yt ^ 2 = xt ^ 3 + b → g ≠ 0) := by
  obtain ⟨t1, t2⟩ := twT_frob hqx hqy
  unfold tailG at h ⊢
  simp only at h ⊢
  rcases h1 : RefBls.linefunc R (some (qx ^ bnP, qy ^ bnP)) (some (xt, yt)) with e | l1
  · rw [h1] at h; cases h
  rw [h1, okk_bind] at h
  obtain ⟨l1', e1, s1⟩ := line_negT hR t1 hxt hyt h1
  rw [e1, okk_bind]
  rcases h2 : RefBls.add R (some (qx ^ bnP, qy ^ bnP)) with e | R'
  · rw [h2] at h; cases h
  rw [h2, okk_bind] at h
  rw [okk_bind]
  have hR' := twT_add hR t1 h2
  rcases h3 : RefBls.linefunc R' (some ((qx ^ bnP) ^ bnP, -((qy ^ bnP) ^ bnP))) (some (xt, yt))
    with e | l2
  · rw [h3] at h; cases h
  rw [h3, okk_bind] at h
  obtain ⟨l2', e2, s2⟩ := line_negT hR' t2 hxt hyt h3
  rw [e2, okk_bind]
  cases h
  refine ⟨f * l1 * l2, f' * l1' * l2', rfl, rfl, (hf.mul s1).mul s2, ?_⟩
  intro b hf0 hy0 ecurve eT
  -- `R`, `R'` are finite
  rcases R with _ | ⟨x, y⟩
  · rw [linefunc_none_left] at h1; cases h1
  rcases R' with _ | ⟨x', y'⟩
  · rw [linefunc_none_left] at h3; cases h3
  obtain ⟨hx, hy⟩ := hR x y rfl
  obtain ⟨hx', hy'⟩ := hR' x' y' rfl
  obtain ⟨a1, b1⟩ := t1 _ _ rfl
  obtain ⟨a2, b2⟩ := t2 _ _ rfl
  have hl1 : l1 ≠ 0 := by
    by_cases hv : x ≠ qx ^ bnP ∨ y = qy ^ bnP
    · exact line_ne_zero hx hy a1 b1 hxt hyt hy0 h1 hv
    · exfalso
      rw [not_or, not_not] at hv
      obtain ⟨c1, c2⟩ := hv
      have c3 : ¬ (qx ^ bnP = x ∧ qy ^ bnP = y) := fun c => c2 c.2.symm
      have c4 : qx ^ bnP = x := c1.symm
      simp only [RefBls.add, reduceCtorEq, or_self, if_false] at h2
      rw [if_neg c3, if_pos c4] at h2
      cases h2
  have hl2 : l2 ≠ 0 := by
    by_cases hv : x' ≠ (qx ^ bnP) ^ bnP ∨ y' = -((qy ^ bnP) ^ bnP)
    · exact line_ne_zero hx' hy' a2 b2 hxt hyt hy0 h3 hv
    · rw [not_or, not_not] at hv
      obtain ⟨c1, c2⟩ := hv
      rw [linefunc_some, if_neg (not_not.mpr c1), if_neg c2] at h3
      cases h3
      rw [c1]
      exact vertical_ne_zero b2 hyt hy0 (by rw [neg_sq]; exact ecurve.symm) eT
  exact mul_ne_zero (mul_ne_zero hf0 hl1) hl2

/-! ### the whole reference loop over `K12bn` -/

theorem loop_twT {A : Option (K12bn × K12bn)} {xt yt : K12bn} (hA : TwT A) (hxt : InFp6 xt)
    (hyt : InFp6 yt) (ate : Nat) : ∀ (is : List Nat) (f : K12bn) (R : Option (K12bn × K12bn))
      (r : K12bn × Option (K12bn × K12bn)), TwT R →
      loopG ate is A (some (xt, yt)) (f, R) = .ok r → TwT r.2
  | [], f, R, r, hR, h => by
    rw [loopG_nil] at h; cases h; exact hR
  | i :: is, f, R, r, hR, h => by
    rw [loopG_cons] at h
    rcases hs : stepG ate A (some (xt, yt)) (f, R) i with e | s
    · rw [hs] at h; cases h
    rw [hs, okk_bind] at h
    obtain ⟨g1, e1, s1, t1⟩ := step_negT hA hxt hyt ate i hR (Or.inl rfl) hs
    obtain ⟨f1, R1⟩ := s
    exact loop_twT hA hxt hyt ate is f1 R1 r t1 h

/-- the curve equation is preserved by the `p²`-Frobenius when `b` is fixed by the `p`-Frobenius -/
theorem curve_frob2 {x y b : K12bn} (hb : b ^ bnP = b) (e : y ^ 2 = x ^ 3 + b) :
    ((x ^ bnP) ^ bnP) ^ 3 + b = ((y ^ bnP) ^ bnP) ^ 2 := by
  have h1 : (y ^ bnP) ^ 2 = (x ^ bnP) ^ 3 + b := by
    have := congrArg (frobenius K12bn bnP) e
    simp only [map_add, map_pow, frobenius_def] at this
    rw [hb] at this
    exact this
  have h2 : ((y ^ bnP) ^ bnP) ^ 2 = ((x ^ bnP) ^ bnP) ^ 3 + b := by
    have := congrArg (frobenius K12bn bnP) h1
    simp only [map_add, map_pow, frobenius_def] at this
    rw [hb] at this
    exact this
  exact h2.symm

/-- **negating the G1 argument** (reference bn128 loop over `K12bn`): for a twisted-type curve point
    `(q_x, q_y)`, a curve point `T = (x_T, y_T)` with coordinates in `Fp⁶`, `y_T ≠ 0`: if the loop at `T`
    returns `v`, then `v ≠ 0`, `v = g^E`, the loop at `(x_T, −y_T)` returns some `v'`, and `v · v' = 1`. -/
theorem millerK_negT {qx qy xt yt b : K12bn} (hqx : InFp6 qx) (hqy : InWFp6 qy) (hxt : InFp6 xt)
    (hyt : InFp6 yt) (hy0 : yt ≠ 0) (hb : b ^ bnP = b) (eq : qy ^ 2 = qx ^ 3 + b)
    (eT : yt ^ 2 = xt ^ 3 + b) {ate : Nat} {is : List Nat} (hn : NoTrail ate is) {v : K12bn}
    (h : millerG bnP ate is bnFinalExp qx qy (some (xt, yt)) = .ok v) :
    ∃ g v', g ≠ 0 ∧ v = g ^ bnFinalExp
      ∧ millerG bnP ate is bnFinalExp qx qy (some (xt, -yt)) = .ok v' ∧ v * v' = 1 := by
  have hA : TwT (some (qx, qy)) := twT_some hqx hqy
  unfold millerG at h ⊢
  rcases hl : loopG ate is (some (qx, qy)) (some (xt, yt)) (1, some (qx, qy)) with e | r
  · rw [hl] at h; cases h
  rw [hl, okk_bind] at h
  obtain ⟨f, R⟩ := r
  have hf0 : f ≠ 0 := loop_ne_zero hA hxt hyt hy0 ate is 1 _ _ hA one_ne_zero hn hl
  have hR : TwT R := loop_twT hA hxt hyt ate is 1 _ _ hA hl
  obtain ⟨f', el, sf⟩ := loop_negT hA hxt hyt ate is 1 1 _ _ hA sgnRel_one hl
  rw [el, okk_bind]
  obtain ⟨g, g', ev, et, sg, hg⟩ := tail_negT hqx hqy hxt hyt bnFinalExp hR sf h
  have hg0 : g ≠ 0 := hg b hf0 hy0 (curve_frob2 hb eq) eT
  refine ⟨g, g' ^ bnFinalExp, hg0, ev, et, ?_⟩
  rw [ev, ← mul_pow]
  exact sgnRel_pow_finalExp hg0 sg

/-- **negating the G2 argument** (reference bn128 loop over `K12bn`): the loop at `(q_x, −q_y) = σ(q)`
    returns `σ(v)` -/
theorem millerK_negQ {qx qy xt yt : K12bn} (hqx : InFp6 qx) (hqy : InWFp6 qy) (hxt : InFp6 xt)
    (hyt : InFp6 yt) {ate : Nat} {is : List Nat} {E : Nat} {v : K12bn}
    (h : millerG bnP ate is E qx qy (some (xt, yt)) = .ok v) :
    millerG bnP ate is E qx (-qy) (some (xt, yt)) = .ok (sigma v) := by
  have := millerG_map opHom_sigma bnP ate is E qx qy (some (xt, yt))
  rw [h, mapO_sigma_base hxt hyt, hqx, hqy] at this
  exact this.symm

end PyEcc.NegBnSem
