/-
  PyEcc.Lemmas.TwistBn — the bn128 `twist` functions of the model (`twistOptBn`, `twistRefBn`,
  `Model/Curve.lean`) read in the fields `K2bn`, `K12bn`:

      value of `twist(pt)`  =  `twO ψ w` (value of `pt`),      `(x, y) ↦ (ψ(x)·w², ψ(y)·w³)`

  (`ψ = psiBn`, `i ↦ w⁶ − 9`, `Lemmas/TwistField.lean`; `twO`, `twistHom`: `Lemmas/TwistPoint.lean`), for the
  optimized module through the affine reading `toAff` of the projective triple
  `(ψ(x)·w² : ψ(y)·w³ : ψ(z))`, and for the reference module literally.
  `ψ(b2)·w⁶ = b12` (`b2 = 3/(9+i)`, `ψ(9+i) = w⁶`), so the target curve is `y² = x³ + 3`.
-/
import PyEcc.Lemmas.TwistField
import PyEcc.Lemmas.TwistPoint
import PyEcc.Props.C07_Consts

set_option linter.unusedSectionVars false
set_option maxRecDepth 100000

namespace PyEcc.TwistSem
open PyEcc PyEcc.Gen PyEcc.Gen.Consts PyEcc.Fqp PyEcc.FqpSem PyEcc.Transfer PyEcc.CurveSem
  WeierstrassCurve

/-- `bn128.b2` / `optimized_bn128.b2` (`FQ2([3, 0]) / FQ2([9, 1])`) as an element of the model type -/
def bnB2v (v : Variant) : Fqp v bnP bnMc2 :=
  match v with
  | .ref => ⟨bn128_b2⟩
  | .opt => ⟨optimized_bn128_b2⟩

theorem bnB2v_opt : bnB2v .opt = bnB2 := rfl

/-- side conditions in `K2bn` for either class: `b2` canonical with non-zero value -/
theorem k2bn_b_ok (v : Variant) : Canon (bnB2v v) ∧ (toQ (bnB2v v) : K2bn) ≠ 0 :=
  ⟨by cases v <;> decide, toQ_ne_zero_of (by cases v <;> decide) (by cases v <;> decide)⟩

/-- a well-formed bn128 `FQ2` element is `a₀ + a₁·i` -/
theorem toQ_fq2_bn {v : Variant} {x : Fqp v bnP bnMc2} (hx : WF x) :
    (toQ x : K2bn) = AdjoinRoot.of _ ((getI x.coeffs 0 : ℤ) : ZMod bnP)
      + AdjoinRoot.of _ ((getI x.coeffs 1 : ℤ) : ZMod bnP) * AdjoinRoot.root _ := toQ_fq2 hx

/-- the scaling constant of the bn128 twist: `c = w` -/
noncomputable abbrev cBn : K12bn := wQ bnP bnMc12

theorem cBn_ne_zero : cBn ≠ 0 := wQ_bn_ne_zero

/-- `b2·(9 + i) = 3` in the model of `FQ2`, either class (`C07.Consts.bn_b2`) -/
theorem bnB2v_mul_xi (v : Variant) :
    bnB2v v * (Fqp.ofInts [9, 1] : Fqp v bnP bnMc2) = Fqp.ofInts [3, 0] := by
  cases v
  · exact C07.Consts.bn_b2.1
  · exact C07.Consts.bn_b2.2.1

/-- `ψ(b2)·c⁶ = b12`: `b2 = 3/(9+i)`, `ψ(9+i) = w⁶` -/
theorem bn_b_twist (v : Variant) : psiBn (toQ (bnB2v v)) * cBn ^ 6 = toQ (bnB12 v) := by
  have g := goodHom_F2bn (v := v)
  have cx : Canon (Fqp.ofInts [9, 1] : Fqp v bnP bnMc2) := canon_ofInts (by decide) rfl
  have h : psiBn (toQ (bnB2v v * (Fqp.ofInts [9, 1] : Fqp v bnP bnMc2)) : K2bn)
      = psiBn (toQ (Fqp.ofInts [3, 0] : Fqp v bnP bnMc2)) := by rw [bnB2v_mul_xi v]
  have e1 : evQ bnP bnMc2 [9, 1] = AdjoinRoot.of _ 9 + AdjoinRoot.of _ 1 * AdjoinRoot.root _ := by
    simp only [evQ, ev_cons, ev_nil, map_add, map_mul, AdjoinRoot.mk_C, AdjoinRoot.mk_X, mul_zero,
      add_zero, Int.cast_ofNat, Int.cast_one]
    ring
  have e2 : evQ bnP bnMc2 [3, 0] = AdjoinRoot.of _ 3 + AdjoinRoot.of _ 0 * AdjoinRoot.root _ := by
    simp only [evQ, ev_cons, ev_nil, map_add, map_mul, AdjoinRoot.mk_C, AdjoinRoot.mk_X, mul_zero,
      add_zero, Int.cast_ofNat, Int.cast_zero]
    ring
  rw [g.map_mul (k2bn_b_ok v).1 cx, map_mul, toQ_ofInts, toQ_ofInts, e1, e2, psiBn_apply,
    psiBn_apply] at h
  simp only [mul_one, sub_self, map_zero, zero_add, map_one, one_mul, mul_zero, sub_zero, zero_mul,
    add_zero, map_ofNat] at h
  rw [toQ_bnB12]
  exact h

section pts
variable [DecidableEq K2bn] [DecidableEq K12bn]

/-- **the bn128 twist as a homomorphism of Mathlib point groups**
    `E'(Fp²) : y² = x³ + 3/(9+i)  →  E(Fp¹²) : y² = x³ + 3`, `(x, y) ↦ (ψ(x)·w², ψ(y)·w³)` -/
noncomputable def bnTwist (v : Variant) :
    CurvePt (toQ (bnB2v v) : K2bn) →+ CurvePt (toQ (bnB12 v) : K12bn) :=
  twistHom psiBn cBn_ne_zero (k12bn_field_ok v).1 (k12bn_field_ok v).2.1 (k12bn_field_ok v).2.2.2
    (bn_b_twist v)

theorem bnTwist_injective (v : Variant) : Function.Injective (bnTwist v) :=
  twistHom_injective _ _ _ _ _ _

theorem reprRef_bnTwist (v : Variant) (P : CurvePt (toQ (bnB2v v) : K2bn)) :
    reprRef (bnTwist v P) = twO psiBn cBn (reprRef P) := reprRef_twistHom _ _ _ _ _ _ P

/-- `bnTwist` for the optimized module (`b2 = bnB2`, the constant of `Sem/TransferFqp.lean`) -/
noncomputable def bnTwistOpt : CurvePt (toQ bnB2 : K2bn) →+ CurvePt (toQ (bnB12 .opt) : K12bn) :=
  bnTwist .opt

theorem bnTwistOpt_injective : Function.Injective bnTwistOpt := bnTwist_injective .opt

theorem reprRef_bnTwistOpt (P : CurvePt (toQ bnB2 : K2bn)) :
    reprRef (bnTwistOpt P) = twO psiBn cBn (reprRef P) := reprRef_bnTwist .opt P

/-! ### optimized `twist` -/

theorem canonT_twistOptBn (T : BnG2Pt) : CanonT (twistOptBn (mc12 := bnMc12) T) := by
  have g := goodHom_F12bn (v := .opt)
  exact ⟨g.good_mul (canon_embed_bn _ _ _ _) (g.good_pow 2 wElem_bn.1),
    g.good_mul (canon_embed_bn _ _ _ _) (g.good_pow 3 wElem_bn.1), canon_embed_bn _ _ _ _⟩

/-- the value of the optimized `twist` is `(ψ(x)·w², ψ(y)·w³, ψ(z))` -/
theorem mapT_twistOptBn {T : BnG2Pt} (c : CanonT T) :
    mapT (toQ : F12bn .opt → K12bn) (twistOptBn T)
      = (psiBn (toQ T.1) * wQ bnP bnMc12 ^ 2, psiBn (toQ T.2.1) * wQ bnP bnMc12 ^ 3,
          psiBn (toQ T.2.2)) := by
  obtain ⟨x, y, z⟩ := T
  obtain ⟨cx, cy, cz⟩ := c
  have g := goodHom_F12bn (v := .opt)
  simp only [twistOptBn, mapT_mk]
  rw [g.map_mul (canon_embed_bn _ _ _ _) (g.good_pow 2 wElem_bn.1),
    g.map_mul (canon_embed_bn _ _ _ _) (g.good_pow 3 wElem_bn.1), g.map_pow 2 wElem_bn.1,
    g.map_pow 3 wElem_bn.1, wElem_bn.2, toQ_embed_bn cx.wf, toQ_embed_bn cy.wf, toQ_embed_bn cz.wf]

/-- **affine reading of the optimized `twist`**: `(x/z, y/z) ↦ (ψ(x/z)·w², ψ(y/z)·w³)`, `∞ ↦ ∞` -/
theorem toAff_twistOptBn {T : BnG2Pt} (c : CanonT T) :
    toAff (mapT (toQ : F12bn .opt → K12bn) (twistOptBn T))
      = twO psiBn cBn (toAff (mapT (toQ : _ → K2bn) T)) := by
  rw [mapT_twistOptBn c]
  by_cases hz : (toQ T.2.2 : K2bn) = 0
  · rw [C13.toAff_of_z_eq_zero (T := mapT toQ T) hz, C13.toAff_of_z_eq_zero (by simp [hz])]
    rfl
  · have hz' : psiBn (toQ T.2.2) ≠ 0 := (map_ne_zero psiBn).mpr hz
    rw [C13.toAff_of_z_ne_zero (T := mapT toQ T) hz, C13.toAff_of_z_ne_zero hz']
    simp only [twO_some, map_div₀, mapT_fst, mapT_snd_fst, mapT_snd_snd]
    congr 1
    ext
    · simp only; field_simp
    · simp only; field_simp

/-- if the value of `T` represents `P` then the value of `twist(T)` represents `bnTwistOpt P` -/
theorem represents_twistOptBn {T : BnG2Pt} {P : CurvePt (toQ bnB2 : K2bn)} (c : CanonT T)
    (r : Represents (mapT toQ T) P) :
    Represents (mapT (toQ : F12bn .opt → K12bn) (twistOptBn T)) (bnTwistOpt P) := by
  show toAff _ = reprRef _
  rw [toAff_twistOptBn c, reprRef_bnTwistOpt, show toAff (mapT toQ T) = reprRef P from r]

/-! ### reference `twist` -/

theorem canonO_twistRefBn {p : Option (Fqp .ref bnP bnMc2 × Fqp .ref bnP bnMc2)} :
    CanonO (twistRefBn (mc12 := bnMc12) p) := by
  rcases p with _ | ⟨x, y⟩
  · trivial
  · have gh := goodHom_F12bn (v := .ref)
    exact ⟨gh.good_mul (canon_embed_bn _ _ _ _) (gh.good_pow 2 wElem_bn.1),
      gh.good_mul (canon_embed_bn _ _ _ _) (gh.good_pow 3 wElem_bn.1)⟩

/-- **value of the reference `twist`**: `(x, y) ↦ (ψ(x)·w², ψ(y)·w³)`, `None ↦ None` -/
theorem mapO_twistRefBn {p : Option (Fqp .ref bnP bnMc2 × Fqp .ref bnP bnMc2)} (c : CanonO p) :
    mapO (toQ : F12bn .ref → K12bn) (twistRefBn p) = twO psiBn cBn (mapO (toQ : _ → K2bn) p) := by
  rcases p with _ | ⟨x, y⟩
  · rfl
  · have gh := goodHom_F12bn (v := .ref)
    obtain ⟨cx, cy⟩ := c
    simp only [twistRefBn, mapO_some, twO_some]
    rw [gh.map_mul (canon_embed_bn _ _ _ _) (gh.good_pow 2 wElem_bn.1),
      gh.map_mul (canon_embed_bn _ _ _ _) (gh.good_pow 3 wElem_bn.1),
      gh.map_pow 2 wElem_bn.1, gh.map_pow 3 wElem_bn.1, wElem_bn.2, toQ_embed_bn cx.wf,
      toQ_embed_bn cy.wf]

/-- if the value of `p` is the representation of `P` then the value of `twist(p)` is that of `bnTwist P` -/
theorem repr_twistRefBn {p : Option (Fqp .ref bnP bnMc2 × Fqp .ref bnP bnMc2)}
    {P : CurvePt (toQ (bnB2v .ref) : K2bn)} (c : CanonO p) (r : reprRef P = mapO toQ p) :
    reprRef (bnTwist .ref P) = mapO (toQ : F12bn .ref → K12bn) (twistRefBn p) := by
  rw [mapO_twistRefBn c, reprRef_bnTwist, r]

end pts

end PyEcc.TwistSem
