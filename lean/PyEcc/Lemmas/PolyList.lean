/-
  PyEcc.Lemmas.PolyList — polynomials as coefficient lists (constant term first), for proofs by
  reflection of polynomial identities with huge coefficients (the isogeny maps of hash-to-curve, C10):

  * `pAdd`, `pNeg`, `pSub`, `pSmul`, `pMul`, `pPow` — executable arithmetic on coefficient lists over
    a commutative ring `S` with kernel-computable operations (`ℤ`, `ℤ[i]`);
  * `ev f l x` — the value at `x : R` of the polynomial `l`, coefficients read through a ring
    homomorphism `f : S →+* R`; `ev f` turns the list operations into the ring operations of `R`;
  * `ev_eq_zero` — a list all of whose coefficients are killed by `f` evaluates to `0`;
  * `isoHorner_eq` — the Horner loop shared by `iso_map_G1` / `iso_map_G2`
    (`Model/Swu.lean: isoHorner`, run on `x = w·z` with the table `[z, z², …]`) computes the
    homogenisation `z^deg · k(w)`;
  * `isoHorner_good` — the same loop commutes with a `GoodHom` (used for `toQ : F2 → K2`).
-/
import PyEcc.Model.Swu
import PyEcc.Lemmas.TransferBase
import Mathlib.Algebra.Ring.Hom.Defs
import Mathlib.Algebra.Ring.Basic
import Mathlib.Algebra.BigOperators.Group.List.Basic
import Mathlib.Tactic.Ring

namespace PyEcc.IsoSem

/-! ### list arithmetic -/

section ops
variable {S : Type} [CommRing S]

/-- coefficient-wise sum (the longer list is kept) -/
def pAdd : List S → List S → List S
  | [], b => b
  | a, [] => a
  | a :: as, b :: bs => (a + b) :: pAdd as bs

def pNeg (a : List S) : List S := a.map fun c => -c

def pSub (a b : List S) : List S := pAdd a (pNeg b)

def pSmul (c : S) (a : List S) : List S := a.map fun d => c * d

/-- schoolbook product -/
def pMul : List S → List S → List S
  | [], _ => []
  | a :: as, b => pAdd (pSmul a b) (0 :: pMul as b)

def pPow (a : List S) : ℕ → List S
  | 0 => [1]
  | n + 1 => pMul a (pPow a n)

end ops

/-! ### evaluation -/

section eval
variable {S R : Type} [CommRing S] [CommRing R] (f : S →+* R)

/-- value at `x` of the polynomial with coefficient list `l` (constant term first), coefficients
    mapped into `R` by `f` -/
def ev (l : List S) (x : R) : R := l.foldr (fun c acc => f c + x * acc) 0

@[simp] theorem ev_nil (x : R) : ev f [] x = 0 := rfl
@[simp] theorem ev_cons (c : S) (l : List S) (x : R) : ev f (c :: l) x = f c + x * ev f l x := rfl

theorem ev_pAdd (a b : List S) (x : R) : ev f (pAdd a b) x = ev f a x + ev f b x := by
  induction a generalizing b with
  | nil => simp [pAdd]
  | cons c a ih =>
    cases b with
    | nil => simp [pAdd]
    | cons d b => simp only [pAdd, ev_cons, ih, map_add]; ring

theorem ev_pNeg (a : List S) (x : R) : ev f (pNeg a) x = -ev f a x := by
  induction a with
  | nil => simp [pNeg]
  | cons c a ih =>
    have : pNeg (c :: a) = (-c) :: pNeg a := rfl
    rw [this, ev_cons, ev_cons, ih, map_neg]; ring

theorem ev_pSub (a b : List S) (x : R) : ev f (pSub a b) x = ev f a x - ev f b x := by
  rw [pSub, ev_pAdd, ev_pNeg]; ring

theorem ev_pSmul (c : S) (a : List S) (x : R) : ev f (pSmul c a) x = f c * ev f a x := by
  induction a with
  | nil => simp [pSmul]
  | cons d a ih =>
    have : pSmul c (d :: a) = (c * d) :: pSmul c a := rfl
    rw [this, ev_cons, ev_cons, ih, map_mul]; ring

theorem ev_pMul (a b : List S) (x : R) : ev f (pMul a b) x = ev f a x * ev f b x := by
  induction a with
  | nil => simp [pMul]
  | cons c a ih => simp only [pMul, ev_pAdd, ev_pSmul, ev_cons, ih, map_zero]; ring

theorem ev_pPow (a : List S) (n : ℕ) (x : R) : ev f (pPow a n) x = ev f a x ^ n := by
  induction n with
  | zero => simp [pPow]
  | succ n ih => rw [pPow, ev_pMul, ih, pow_succ']

/-- a polynomial all of whose coefficients vanish in `R` evaluates to `0` -/
theorem ev_eq_zero (l : List S) (h : ∀ c ∈ l, f c = 0) (x : R) : ev f l x = 0 := by
  induction l with
  | nil => rfl
  | cons c l ih =>
    rw [ev_cons, h c (List.mem_cons_self), ih fun d hd => h d (List.mem_cons_of_mem _ hd)]
    ring

/-- two coefficient lists whose difference vanishes coefficient-wise in `R` have the same value -/
theorem ev_eq_of_sub (a b : List S) (h : ∀ c ∈ pSub a b, f c = 0) (x : R) : ev f a x = ev f b x := by
  have := ev_eq_zero f _ h x
  rw [ev_pSub] at this
  exact sub_eq_zero.mp this

/-- evaluation of a list of coefficients already in `R` -/
theorem ev_map (l : List S) (x : R) : ev (RingHom.id R) (l.map f) x = ev f l x := by
  induction l with
  | nil => rfl
  | cons c l ih => rw [List.map_cons, ev_cons, ev_cons, ih]; rfl

theorem ev_append_singleton (l : List S) (c : S) (x : R) :
    ev f (l ++ [c]) x = ev f l x + x ^ l.length * f c := by
  induction l with
  | nil => simp
  | cons d l ih => rw [List.cons_append, ev_cons, ev_cons, ih, List.length_cons]; ring

end eval

/-! ### the Horner loop of `iso_map_G1` / `iso_map_G2` -/

section horner
variable {R : Type} [CommRing R]

theorem zPowersOf_succ_aux (z : R) (s n : ℕ) :
    (List.range (n + 1)).map (fun i => z ^ (i + s + 1)) =
      z ^ (s + 1) :: (List.range n).map (fun i => z ^ (i + (s + 1) + 1)) := by
  rw [List.range_succ_eq_map, List.map_cons, List.map_map]
  congr 1
  · rw [Nat.zero_add]
  · apply List.map_congr_left
    intro i _
    show z ^ (i + 1 + s + 1) = z ^ (i + (s + 1) + 1)
    congr 1; omega

/-- loop invariant: started from `z^s · h` with the table `[z^(s+1), z^(s+2), …]` (at least as long as
    the remaining coefficients `r`), the loop on `x = w·z` returns `z^(s+|r|)` times the plain Horner
    evaluation at `w` -/
theorem horner_loop (w z : R) (r : List R) : ∀ (s n : ℕ) (h : R), r.length ≤ n →
    (List.zip r ((List.range n).map fun i => z ^ (i + s + 1))).foldl
        (fun acc kz => acc * (w * z) + kz.2 * kz.1) (z ^ s * h)
      = z ^ (s + r.length) * r.foldl (fun acc k => acc * w + k) h := by
  induction r with
  | nil => intro s n h _; simp
  | cons k r ih =>
    intro s n h hn
    obtain ⟨m, rfl⟩ : ∃ m, n = m + 1 := ⟨n - 1, by simp only [List.length_cons] at hn; omega⟩
    rw [zPowersOf_succ_aux, List.zip_cons_cons, List.foldl_cons, List.foldl_cons]
    have e : z ^ s * h * (w * z) + z ^ (s + 1) * k = z ^ (s + 1) * (h * w + k) := by ring
    show List.foldl _ (z ^ s * h * (w * z) + z ^ (s + 1) * k) _ = _
    rw [e, ih (s + 1) m (h * w + k) (by simp only [List.length_cons] at hn; omega), List.length_cons]
    congr 2; omega

/-- plain Horner evaluation, highest coefficient first = `ev` of the reversed list -/
theorem horner_foldl (w : R) (l : List R) (c : R) :
    l.reverse.foldl (fun acc k => acc * w + k) c = ev (RingHom.id R) (l ++ [c]) w := by
  induction l with
  | nil => simp
  | cons d l ih =>
    rw [List.reverse_cons, List.foldl_append, ih, List.cons_append, ev_cons]
    simp only [List.foldl_cons, List.foldl_nil, RingHom.id_apply]
    ring

/-- **Horner / homogenisation.**  For a non-empty coefficient list `k` (constant term first) with at
    most `n + 1` entries, `isoHorner k (w·z) [z, z², …, zⁿ] = z^(deg) · k(w)`, `deg = |k| − 1`. -/
theorem isoHorner_eq [Inhabited R] (k : List R) (hk : k ≠ []) (w z : R) (n : ℕ)
    (hn : k.length ≤ n + 1) :
    isoHorner k (w * z) (zPowersOf z n) = z ^ (k.length - 1) * ev (RingHom.id R) k w := by
  unfold isoHorner zPowersOf
  have hl : k.getLast?.getD default = k.getLast hk := by
    rw [List.getLast?_eq_some_getLast hk]; rfl
  have h := horner_loop w z k.dropLast.reverse 0 n (k.getLast hk)
    (by rw [List.length_reverse, List.length_dropLast]; omega)
  simp only [pow_zero, one_mul, Nat.add_zero, Nat.zero_add] at h
  show List.foldl _ (k.getLast?.getD default) _ = _
  rw [hl, h, List.length_reverse, List.length_dropLast, horner_foldl, List.dropLast_append_getLast hk]

end horner

/-! ### the Horner loop commutes with a `GoodHom` -/

section good
open PyEcc.Transfer
variable {A B : Type}
  [Zero A] [One A] [Add A] [Sub A] [Mul A] [Neg A] [Div A] [NatCast A] [Pow A Nat]
  [Zero B] [One B] [Add B] [Sub B] [Mul B] [Neg B] [Div B] [NatCast B] [Pow B Nat]
  {Good : A → Prop} {φ : A → B}

theorem horner_loop_good (h : GoodHom Good φ) (x : A) (hx : Good x) :
    ∀ (l : List (A × A)) (acc : A), Good acc → (∀ kz ∈ l, Good kz.1 ∧ Good kz.2) →
      Good (l.foldl (fun acc kz => acc * x + kz.2 * kz.1) acc) ∧
      φ (l.foldl (fun acc kz => acc * x + kz.2 * kz.1) acc) =
        (l.map fun kz => (φ kz.1, φ kz.2)).foldl (fun acc kz => acc * φ x + kz.2 * kz.1) (φ acc) := by
  intro l
  induction l with
  | nil => intro acc ha _; exact ⟨ha, rfl⟩
  | cons kz l ih =>
    intro acc ha hl
    have hkz := hl kz List.mem_cons_self
    have g1 := h.good_mul ha hx
    have g2 := h.good_mul hkz.2 hkz.1
    have := ih (acc * x + kz.2 * kz.1) (h.good_add g1 g2) fun d hd => hl d (List.mem_cons_of_mem _ hd)
    rw [List.foldl_cons, List.map_cons, List.foldl_cons]
    refine ⟨this.1, ?_⟩
    rw [this.2, h.map_add g1 g2, h.map_mul ha hx, h.map_mul hkz.2 hkz.1]

/-- `isoHorner` on `Good` data: the result is `Good` and `φ` of it is `isoHorner` of the images
    (non-empty coefficient list) -/
theorem isoHorner_good [Inhabited A] [Inhabited B] (h : GoodHom Good φ) (k : List A) (hk : k ≠ []) (hkg : ∀ c ∈ k, Good c)
    (x : A) (hx : Good x) (zs : List A) (hz : ∀ c ∈ zs, Good c) :
    Good (isoHorner k x zs) ∧ φ (isoHorner k x zs) = isoHorner (k.map φ) (φ x) (zs.map φ) := by
  unfold isoHorner
  have hlast : k.getLast?.getD default = k.getLast hk := by
    rw [List.getLast?_eq_some_getLast hk]; rfl
  have hlast' : (k.map φ).getLast?.getD default = φ (k.getLast hk) := by
    rw [List.getLast?_map, List.getLast?_eq_some_getLast hk]; rfl
  have hg : ∀ kz ∈ List.zip k.dropLast.reverse zs, Good kz.1 ∧ Good kz.2 := by
    intro kz hkz
    obtain ⟨a, b⟩ := kz
    have := List.of_mem_zip hkz
    exact ⟨hkg a (List.dropLast_subset k (List.mem_reverse.mp this.1)), hz b this.2⟩
  have := horner_loop_good h x hx (List.zip k.dropLast.reverse zs) (k.getLast hk)
    (hkg _ (List.getLast_mem hk)) hg
  show Good (List.foldl _ (k.getLast?.getD default) _) ∧
    φ (List.foldl _ (k.getLast?.getD default) _) =
      List.foldl _ ((k.map φ).getLast?.getD default) _
  rw [hlast, hlast']
  refine ⟨this.1, ?_⟩
  rw [this.2]
  congr 1
  rw [← List.map_dropLast, ← List.map_reverse, List.zip_map]
  apply List.map_congr_left
  intro a _
  rfl

theorem zPowersOf_good (h : GoodHom Good φ) (z : A) (hz : Good z) (n : ℕ) :
    (∀ c ∈ zPowersOf z n, Good c) ∧ (zPowersOf z n).map φ = zPowersOf (φ z) n := by
  unfold zPowersOf
  constructor
  · intro c hc
    obtain ⟨i, _, rfl⟩ := List.mem_map.mp hc
    exact h.good_pow _ hz
  · rw [List.map_map]
    apply List.map_congr_left
    intro i _
    exact h.map_pow _ hz

end good

end PyEcc.IsoSem
