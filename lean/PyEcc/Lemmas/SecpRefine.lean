/-
  PyEcc.Lemmas.SecpRefine — helper layer for C18: secp256k1 as a Mathlib Weierstrass curve `E` over
  `ZMod P`, the representation map `reprSecp`, the Jacobian representation invariant `JRep`, and the
  refinement lemmas of `to_jacobian` / `jacobian_double` / `jacobian_add` / `from_jacobian` /
  `jacobian_multiplyAux` (built on the coordinate theorems of `Props/C13_Secp.lean`).
-/
import PyEcc.Props.C13_Secp
import PyEcc.Sem.SecpInv
import PyEcc.Sem.GroupOrder

namespace PyEcc.SecpSem
open WeierstrassCurve PyEcc.Gen.Consts PyEcc.C13.Secp PyEcc.GroupOrder
open PyEcc.Gen.Secp (jacobian_double jacobian_add from_jacobian to_jacobian jacobian_multiplyAux
  jacobian_multiply A B P N Gx Gy)

/-- secp256k1 as a Mathlib curve over `ZMod P`: `y² = x³ + B`, `B` being the GENERATED constant.
(`a₄ = 0`: the generated `A` is proved to be `0` in `A_cast`.) -/
abbrev E : WeierstrassCurve.Affine Fp := W ((B : ℤ) : Fp)

theorem A_cast : ((A : ℤ) : Fp) = 0 := by simp [Gen.Secp.A]
theorem B_cast : ((B : ℤ) : Fp) = 7 := by simp [Gen.Secp.B]

theorem fp_seven_ne_zero : (7 : Fp) ≠ 0 := by
  have h : ((7 : ℕ) : Fp) ≠ 0 := by
    rw [Ne, ZMod.natCast_eq_zero_iff]; decide
  exact_mod_cast h

/-! ### `−7` is not a cube mod `P`: no point with `y = 0`, no 2-torsion -/

set_option maxRecDepth 100000 in
/-- kernel-evaluated: `(−7)^((P−1)/3) ≠ 1 (mod P)` -/
theorem neg7_pow_ne_one :
    Pratt.powMod (secp256k1_P - 7) ((secp256k1_P - 1) / 3) secp256k1_P % secp256k1_P ≠ 1 := by
  decide +kernel

/-- `x³ + B` has no root in `ZMod P` (`−7` is not a cube): no curve point has `y = 0`. -/
theorem no_root (x : Fp) : x ^ 3 + ((B : ℤ) : Fp) ≠ 0 := by
  intro h
  rw [B_cast] at h
  have hx3 : x ^ 3 = -7 := by linear_combination h
  have hx0 : x ≠ 0 := by
    rintro rfl
    apply fp_seven_ne_zero
    linear_combination h
  have hfer : x ^ (secp256k1_P - 1) = 1 := ZMod.pow_card_sub_one_eq_one hx0
  have hsplit : secp256k1_P - 1 = 3 * ((secp256k1_P - 1) / 3) := by decide
  rw [hsplit, pow_mul, hx3] at hfer
  have hc : ((secp256k1_P - 7 : ℕ) : Fp) = -7 := by
    rw [Nat.cast_sub (by decide)]; simp
  rw [← hc, ← Pratt.powMod_cast] at hfer
  have h1 : ((1 : ℕ) : Fp) = 1 := by simp
  rw [← h1, ZMod.natCast_eq_natCast_iff'] at hfer
  exact neg7_pow_ne_one (by rw [hfer]; decide)

theorem equation_E (x y : Fp) : E.Equation x y ↔ y ^ 2 = x ^ 3 + ((B : ℤ) : Fp) := equation_W _ x y

/-- every affine point of the curve has `y ≠ 0` -/
theorem y_ne_zero {x y : Fp} (h : E.Nonsingular x y) : y ≠ 0 := by
  rintro rfl
  have e := (equation_E x 0).mp h.1
  exact no_root x (by linear_combination -e)

/-- on this curve every solution of the equation is a nonsingular point -/
theorem nonsingular_of_eq {x y : Fp} (h : y ^ 2 = x ^ 3 + ((B : ℤ) : Fp)) : E.Nonsingular x y := by
  rw [Affine.nonsingular_iff']
  refine ⟨(equation_E x y).mpr h, Or.inr ?_⟩
  have hy : y ≠ 0 := by
    rintro rfl
    exact no_root x (by linear_combination -h)
  simp only [W, zero_mul, add_zero]
  exact mul_ne_zero fp_two_ne_zero hy

/-- build a Mathlib point from a solution of `y² = x³ + B` -/
def mkPt (x y : Fp) (h : y ^ 2 = x ^ 3 + ((B : ℤ) : Fp)) : E.Point := .some x y (nonsingular_of_eq h)

theorem negY_E (x y : Fp) : E.negY x y = -y := negY_W _ x y

theorem some_congr {x y x' y' : Fp} {h : E.Nonsingular x y} {h' : E.Nonsingular x' y'}
    (hx : x = x') (hy : y = y') : Affine.Point.some x y h = Affine.Point.some x' y' h' := by
  subst hx hy; rfl

/-! ### representation of points -/

/-- the secp256k1 module's representation of a curve point: `(0, 0)` for the identity, else the canonical
residues `(x, y)` as Python ints in `[0, P)` -/
def reprSecp : E.Point → ℤ × ℤ
  | .zero => (0, 0)
  | .some x y _ => ((x.val : ℤ), (y.val : ℤ))

@[simp] theorem reprSecp_zero : reprSecp 0 = (0, 0) := rfl
@[simp] theorem reprSecp_some {x y : Fp} (h : E.Nonsingular x y) :
    reprSecp (.some x y h) = ((x.val : ℤ), (y.val : ℤ)) := rfl

theorem val_cast_cast (x : Fp) : (((x.val : ℕ) : ℤ) : Fp) = x := by
  rw [Int.cast_natCast, ZMod.natCast_zmod_val]

theorem val_int_eq_zero {x : Fp} (h : ((x.val : ℕ) : ℤ) = 0) : x = 0 := by
  have : x.val = 0 := by exact_mod_cast h
  exact (ZMod.val_eq_zero x).mp this

/-- `(0, 0)` is not on the curve, so the identity marker is unambiguous and `reprSecp` is injective -/
theorem reprSecp_injective : Function.Injective reprSecp := by
  intro Q1 Q2 h
  rcases Q1 with _ | ⟨x1, y1, h1⟩ <;> rcases Q2 with _ | ⟨x2, y2, h2⟩
  · rfl
  · exfalso
    simp only [reprSecp, Prod.mk.injEq] at h
    exact y_ne_zero h2 (val_int_eq_zero h.2.symm)
  · exfalso
    simp only [reprSecp, Prod.mk.injEq] at h
    exact y_ne_zero h1 (val_int_eq_zero h.2)
  · simp only [reprSecp, Prod.mk.injEq, Nat.cast_inj] at h
    exact some_congr (ZMod.val_injective _ h.1) (ZMod.val_injective _ h.2)

/-- `T` (a Jacobian triple of Python ints) represents the Mathlib point `Q`: the identity is represented by
any triple with int `y = 0` and `x ≡ 0`; `(X, Y)` by any `(x, y, z)` with `z ≢ 0`, `x/z² = X`, `y/z³ = Y`. -/
def JRep (T : ℤ × ℤ × ℤ) : E.Point → Prop
  | .zero => T.2.1 = 0 ∧ (T.1 : Fp) = 0
  | .some X Y _ => (T.2.2 : Fp) ≠ 0 ∧ affX T = X ∧ affY T = Y

theorem JRep.y_ne_zero {T : ℤ × ℤ × ℤ} {X Y : Fp} {h : E.Nonsingular X Y} (r : JRep T (.some X Y h)) :
    (T.2.1 : Fp) ≠ 0 := by
  obtain ⟨hz, _, hY⟩ := r
  intro h0
  apply SecpSem.y_ne_zero h
  rw [← hY, affY, h0, zero_div]

theorem JRep.y_int_ne_zero {T : ℤ × ℤ × ℤ} {X Y : Fp} {h : E.Nonsingular X Y} (r : JRep T (.some X Y h)) :
    T.2.1 ≠ 0 := by
  intro h0
  exact r.y_ne_zero (by rw [h0]; simp)

theorem jrep_identity : JRep (0, 0, 1) 0 := ⟨rfl, by simp⟩

theorem jrep_to_jacobian (Q : E.Point) : JRep (to_jacobian (reprSecp Q)) Q := by
  rcases Q with _ | ⟨x, y, h⟩
  · exact jrep_identity
  · refine ⟨by simp [to_jacobian], ?_, ?_⟩
    · simp only [affX, to_jacobian, reprSecp_some]
      rw [val_cast_cast]; simp
    · simp only [affY, to_jacobian, reprSecp_some]
      rw [val_cast_cast]; simp

theorem jrep_from_jacobian {T : ℤ × ℤ × ℤ} {Q : E.Point} (r : JRep T Q) : from_jacobian T = reprSecp Q := by
  obtain ⟨x, y, z⟩ := T
  rcases Q with _ | ⟨X, Y, h⟩
  · obtain ⟨hy, hx⟩ := r
    simp only at hy hx
    subst hy
    simp only [from_jacobian, zero_mul, Int.zero_emod]
    have : (x * Gen.Secp.inv z P ^ 2) % P = 0 := by
      rw [← cast_eq_zero_iff]; push_cast; rw [hx, zero_mul]
    rw [this]; rfl
  · obtain ⟨hz, hX, hY⟩ := r
    rw [from_jacobian_coord invSpec x y z (Or.inr hz), hX, hY]; rfl

/-- doubling refines `Q + Q` (uses: no point with `y = 0`, `A = 0`) -/
theorem jrep_double {T : ℤ × ℤ × ℤ} {Q : E.Point} (r : JRep T Q) : JRep (jacobian_double T) (Q + Q) := by
  obtain ⟨x, y, z⟩ := T
  rcases Q with _ | ⟨X, Y, h⟩
  · obtain ⟨hy, _⟩ := r
    rw [jacobian_double_identity _ hy]
    exact ⟨rfl, by simp⟩
  · have hy := r.y_ne_zero
    obtain ⟨hz, hX, hY⟩ := r
    have hYne : Y ≠ E.negY X Y := by
      rw [negY_E]; intro e
      have : (2 : Fp) * Y = 0 := by linear_combination e
      rcases mul_eq_zero.mp this with h' | h'
      · exact fp_two_ne_zero h'
      · exact SecpSem.y_ne_zero h h'
    obtain ⟨hz', hX', hY'⟩ := jacobian_double_coord x y z hy hz
    rw [Affine.Point.add_self_of_Y_ne hYne]
    refine ⟨hz', ?_, ?_⟩
    · rw [hX', hX, hY, A_cast, Affine.slope_of_Y_ne rfl hYne]
      simp only [Affine.addX, Affine.negY, W]
      have : Y - (-Y - 0 * X - 0) = 2 * Y := by ring
      rw [this]; ring
    · rw [hY', hX, hY, A_cast, Affine.slope_of_Y_ne rfl hYne]
      simp only [Affine.addY, Affine.negAddY, Affine.addX, Affine.negY, W]
      have : Y - (-Y - 0 * X - 0) = 2 * Y := by ring
      rw [this]; ring

/-- addition refines `Q₁ + Q₂` on every path -/
theorem jrep_add {T1 T2 : ℤ × ℤ × ℤ} {Q1 Q2 : E.Point} (r1 : JRep T1 Q1) (r2 : JRep T2 Q2) :
    JRep (jacobian_add T1 T2) (Q1 + Q2) := by
  rcases Q1 with _ | ⟨X1, Y1, h1⟩
  · rw [jacobian_add_left_identity _ _ r1.1]
    change JRep T2 (0 + Q2)
    rwa [zero_add]
  rcases Q2 with _ | ⟨X2, Y2, h2⟩
  · rw [jacobian_add_right_identity _ _ r1.y_int_ne_zero r2.1]
    change JRep T1 (_ + 0)
    rwa [add_zero]
  have hy1 := r1.y_int_ne_zero
  have hy2 := r2.y_int_ne_zero
  obtain ⟨x1, y1, z1⟩ := T1
  obtain ⟨x2, y2, z2⟩ := T2
  have r1' := r1
  obtain ⟨hz1, hX1, hY1⟩ := r1
  obtain ⟨hz2, hX2, hY2⟩ := r2
  obtain ⟨-, -, hchord, hinv, hdbl⟩ := jacobian_add_coord x1 y1 z1 x2 y2 z2 hz1 hz2
  rw [hX1, hX2, hY1, hY2] at hchord hinv hdbl
  by_cases hx : X1 = X2
  · subst hx
    have e1 := (equation_E X1 Y1).mp h1.1
    have e2 := (equation_E X1 Y2).mp h2.1
    by_cases hy : Y1 = Y2
    · subst hy
      rw [hdbl hy1 hy2 rfl rfl]
      exact jrep_double r1'
    · have hneg : Y1 = E.negY X1 Y2 := by
        rw [negY_E]
        have : (Y1 - Y2) * (Y1 + Y2) = 0 := by linear_combination e1 - e2
        rcases mul_eq_zero.mp this with h' | h'
        · exact absurd (by linear_combination h') hy
        · linear_combination h'
      rw [hinv hy1 hy2 rfl hy, Affine.Point.add_of_Y_eq rfl hneg]
      exact jrep_identity
  · obtain ⟨hz', hX', hY'⟩ := hchord hy1 hy2 hx
    rw [Affine.Point.add_of_X_ne hx]
    have hd : X1 - X2 ≠ 0 := sub_ne_zero.mpr hx
    have hd' : X2 - X1 ≠ 0 := sub_ne_zero.mpr (Ne.symm hx)
    have hs : (Y1 - Y2) / (X1 - X2) = (Y2 - Y1) / (X2 - X1) := by
      rw [div_eq_div_iff hd hd']; ring
    refine ⟨hz', ?_, ?_⟩
    · rw [hX', Affine.slope_of_X_ne hx, hs]
      simp only [Affine.addX, W]
      ring
    · rw [hY', Affine.slope_of_X_ne hx, hs]
      simp only [Affine.addY, Affine.negAddY, Affine.addX, Affine.negY, W]
      ring

/-! ### the double-and-add recursion -/

theorem N_pos : 0 < N := by decide

/-- `jacobian_multiplyAux` never runs out of fuel when `2^fuel` exceeds the (reduced) scalar, and its result
represents `(n mod N) • Q` (as an `ℕ`-multiple). No group-order fact is used here. -/
theorem jrep_multiplyAux_reduced : ∀ (fuel : ℕ) (T : ℤ × ℤ × ℤ) (Q : E.Point) (n : ℤ), JRep T Q →
    0 ≤ n → n < N → n.toNat < 2 ^ fuel → 0 < fuel →
    ∃ T', jacobian_multiplyAux fuel T n = .ok T' ∧ JRep T' (n.toNat • Q) := by
  intro fuel
  induction fuel with
  | zero =>
    intro T Q n r h0 hN hf hpos
    exact absurd hpos (lt_irrefl 0)
  | succ k ih =>
    intro T Q n r h0 hN hf _
    unfold jacobian_multiplyAux
    by_cases hc1 : T.2.1 = 0 ∨ n = 0
    · rw [if_pos hc1]
      refine ⟨_, rfl, ?_⟩
      rcases hc1 with hy | hn
      · have hQ : Q = 0 := by
          rcases Q with _ | ⟨X, Y, h⟩
          · rfl
          · exact absurd hy r.y_int_ne_zero
        rw [hQ, nsmul_zero]; exact jrep_identity
      · rw [hn]; simpa using jrep_identity
    rw [if_neg hc1]
    by_cases hc2 : n = 1
    · rw [if_pos hc2]
      refine ⟨_, rfl, ?_⟩
      rw [hc2]; simpa using r
    rw [if_neg hc2]
    have hc3 : ¬ (n < 0 ∨ n ≥ N) := by omega
    rw [if_neg hc3]
    have hn0 : n ≠ 0 := fun h => hc1 (Or.inr h)
    have h20 : 0 ≤ n / 2 := Int.ediv_nonneg h0 (by norm_num)
    have h2N : n / 2 < N := by omega
    have h2f : (n / 2).toNat < 2 ^ k := by
      have : (n / 2).toNat = n.toNat / 2 := by omega
      rw [this, Nat.div_lt_iff_lt_mul (by norm_num)]
      rw [pow_succ] at hf; exact hf
    have hk : 0 < k := by
      rcases Nat.eq_zero_or_pos k with hk | hk
      · exfalso; rw [hk] at h2f; omega
      · exact hk
    obtain ⟨T', hT', rT'⟩ := ih T Q (n / 2) r h20 h2N h2f hk
    have hsplit : n.toNat = 2 * (n / 2).toNat + (n % 2).toNat := by omega
    by_cases hev : n % 2 = 0
    · rw [if_pos hev, hT']
      refine ⟨_, rfl, ?_⟩
      have := jrep_double rT'
      rw [hsplit, hev]
      simpa [two_mul, add_smul] using this
    · rw [if_neg hev]
      have hodd : n % 2 = 1 := by omega
      rw [if_pos hodd, hT']
      refine ⟨_, rfl, ?_⟩
      have := jrep_add (jrep_double rT') r
      rw [hsplit, hodd]
      simpa [two_mul, add_smul] using this

/-- `jacobian_multiply` on ANY int scalar (negative and `≥ N` included) succeeds and represents
`(n mod N) • Q`. No group-order fact is used here. -/
theorem jrep_multiply (T : ℤ × ℤ × ℤ) (Q : E.Point) (n : ℤ) (r : JRep T Q) :
    ∃ T', jacobian_multiply T n = .ok T' ∧ JRep T' ((n % N).toNat • Q) := by
  have hNpos := N_pos
  have hmod0 : 0 ≤ n % N := Int.emod_nonneg _ (by omega)
  have hmodN : n % N < N := Int.emod_lt_of_pos _ hNpos
  unfold jacobian_multiply
  by_cases hred : 0 ≤ n ∧ n < N
  · have hmod : n % N = n := Int.emod_eq_of_lt hred.1 hred.2
    rw [hmod]
    refine jrep_multiplyAux_reduced _ T Q n r hred.1 hred.2 ?_ (by omega)
    calc n.toNat < 2 ^ n.toNat := Nat.lt_two_pow_self
      _ ≤ 2 ^ (n.natAbs + N.natAbs + 2) := Nat.pow_le_pow_right (by norm_num) (by omega)
  · -- one reduction step `n ↦ n % N`, unless an earlier branch fires
    generalize hF : n.natAbs + N.natAbs + 2 = F
    obtain ⟨F, rfl⟩ : ∃ F', F = F' + 1 := ⟨F - 1, by omega⟩
    unfold jacobian_multiplyAux
    have hn1 : n ≠ 1 := by
      intro h; apply hred; rw [h]; exact ⟨by norm_num, by decide⟩
    by_cases hc1 : T.2.1 = 0 ∨ n = 0
    · rw [if_pos hc1]
      refine ⟨_, rfl, ?_⟩
      rcases hc1 with hy | hn
      · have hQ : Q = 0 := by
          rcases Q with _ | ⟨X, Y, h⟩
          · rfl
          · exact absurd hy r.y_int_ne_zero
        rw [hQ, nsmul_zero]; exact jrep_identity
      · rw [hn]; simpa using jrep_identity
    rw [if_neg hc1, if_neg hn1]
    have hc3 : n < 0 ∨ n ≥ N := by omega
    rw [if_pos hc3]
    have hf : (n % N).toNat < 2 ^ F := by
      calc (n % N).toNat < 2 ^ (n % N).toNat := Nat.lt_two_pow_self
        _ ≤ 2 ^ F := Nat.pow_le_pow_right (by norm_num) (by omega)
    obtain ⟨T', hT', rT'⟩ := jrep_multiplyAux_reduced _ T Q (n % N) r hmod0 hmodN hf (by omega)
    rw [hT']
    exact ⟨_, rfl, rT'⟩

/-! ### `multiply` = `from_jacobian ∘ jacobian_multiply ∘ to_jacobian`

Kernel note. The generated fuel of `jacobian_multiply` is `n.natAbs + N.natAbs + 2`. The Lean kernel cannot put
`x + <256-bit literal>` with symbolic `x` into weak head normal form (its `Nat.succ`-literal folding recurses
once per unit), so any definitional unfolding that makes it evaluate `jacobian_multiply T n` for a symbolic `n`
— e.g. the auto-generated unfolding lemma of `multiply`, whose body is a `match` on that call — fails with
"deep recursion". We therefore relate `multiply` to a copy `multiplyG` with the Jacobian multiplication
abstracted, by `rfl` at FUNCTION level (both bodies are then compared syntactically), and reason about
`multiplyG` with an opaque function variable. -/

/-- `multiply` with the Jacobian scalar multiplication abstracted as a parameter -/
def multiplyG (jm : ℤ × ℤ × ℤ → ℤ → Except PyErr (ℤ × ℤ × ℤ)) (a : ℤ × ℤ) (n : ℤ) : Except PyErr (ℤ × ℤ) :=
  match jm (to_jacobian a) n with
  | .error e => .error e
  | .ok r0_1 => .ok (from_jacobian r0_1)

theorem multiply_eq_multiplyG : Gen.Secp.multiply = multiplyG jacobian_multiply := rfl

theorem multiplyG_of_ok {jm : ℤ × ℤ × ℤ → ℤ → Except PyErr (ℤ × ℤ × ℤ)} {a : ℤ × ℤ} {n : ℤ} {T' : ℤ × ℤ × ℤ}
    (h : jm (to_jacobian a) n = .ok T') : multiplyG jm a n = .ok (from_jacobian T') := by
  unfold multiplyG; rw [h]

theorem multiplyG_of_error {jm : ℤ × ℤ × ℤ → ℤ → Except PyErr (ℤ × ℤ × ℤ)} {a : ℤ × ℤ} {n : ℤ} {e : PyErr}
    (h : jm (to_jacobian a) n = .error e) : multiplyG jm a n = .error e := by
  unfold multiplyG; rw [h]

/-- `multiply a n` succeeds with `from_jacobian T'` whenever `jacobian_multiply (to_jacobian a) n` returns `T'` -/
theorem multiply_of_ok {a : ℤ × ℤ} {n : ℤ} {T' : ℤ × ℤ × ℤ}
    (h : jacobian_multiply (to_jacobian a) n = .ok T') : Gen.Secp.multiply a n = .ok (from_jacobian T') := by
  rw [multiply_eq_multiplyG]; exact multiplyG_of_ok h

/-! ### the base point -/

set_option maxRecDepth 100000 in
/-- kernel-evaluated: `Gy² ≡ Gx³ + B (mod P)` -/
theorem G_equation_int : (Gy ^ 2) % P = (Gx ^ 3 + B) % P := by decide +kernel

theorem G_on_curve : ((Gy : ℤ) : Fp) ^ 2 = ((Gx : ℤ) : Fp) ^ 3 + ((B : ℤ) : Fp) := by
  have := (cast_eq_iff (Gy ^ 2) (Gx ^ 3 + B)).mpr G_equation_int
  push_cast at this; exact this

/-- the generator `G` of the Python module as a Mathlib point -/
def Gpt : E.Point := mkPt ((Gx : ℤ) : Fp) ((Gy : ℤ) : Fp) G_on_curve

theorem reprSecp_Gpt : reprSecp Gpt = Gen.Secp.G := by
  simp only [Gpt, mkPt, reprSecp_some, val_cast, Gen.Secp.G]
  decide

/-- Boolean test "`r` is `ok v`" (so that kernel evaluation can decide it) -/
def okEq (r : Except PyErr (ℤ × ℤ)) (v : ℤ × ℤ) : Bool :=
  match r with
  | .ok w => decide (w = v)
  | .error _ => false

theorem okEq_sound {r : Except PyErr (ℤ × ℤ)} {v : ℤ × ℤ} (h : okEq r v = true) : r = .ok v := by
  cases r with
  | error e => simp [okEq] at h
  | ok w => simp only [okEq, decide_eq_true_eq] at h; rw [h]

set_option maxRecDepth 100000 in
/-- kernel evaluation of the GENERATED code: `multiply(G, N − 1) = (Gx, P − Gy)`, i.e. `(N−1)·G = −G` -/
theorem multiply_G_N_pred : Gen.Secp.multiply Gen.Secp.G (N - 1) = .ok (Gx, P - Gy) :=
  okEq_sound (by decide +kernel)

set_option maxRecDepth 100000 in
/-- kernel-evaluated: the reduced coordinates of `−G` -/
theorem neg_G_reduced : (Gx % P, (-Gy) % P) = (Gx, P - Gy) := by decide +kernel

end PyEcc.SecpSem
