/-
  PyEcc.Lemmas.TwistPoint — the twisting map on points, field-generically.

  `ψ : K →+* L` a homomorphism of fields, `c ∈ L` non-zero.  The map

      `twO ψ c : (x, y) ↦ (ψ(x)·c², ψ(y)·c³)`,  `∞ ↦ ∞`

  commutes with the chord–tangent formulas `sAdd`, `sDouble`, `sNeg` of `Lemmas/CurveAux.lean` (on ALL
  pairs, on the curve or not), is injective, and maps solutions of `y² = x³ + b` to solutions of
  `y² = x³ + b'` when `ψ(b)·c⁶ = b'`.  Hence it induces an injective homomorphism of Mathlib's point groups
  `twistHom : (W b).Point →+ (W b').Point`.
-/
import PyEcc.Lemmas.CurveAux

set_option linter.unusedSectionVars false

namespace PyEcc.TwistSem
open PyEcc PyEcc.CurveSem WeierstrassCurve

variable {K L : Type} [Field K] [Field L] [DecidableEq K] [DecidableEq L]

/-- `(x, y) ↦ (ψ x · c², ψ y · c³)`, `∞ ↦ ∞` -/
def twO (ψ : K →+* L) (c : L) (p : Option (K × K)) : Option (L × L) :=
  p.map fun q => (ψ q.1 * c ^ 2, ψ q.2 * c ^ 3)

section
variable (ψ : K →+* L) {c : L} (hc : c ≠ 0)

@[simp] theorem twO_none : twO ψ c none = none := rfl
@[simp] theorem twO_some (x y : K) : twO ψ c (some (x, y)) = some (ψ x * c ^ 2, ψ y * c ^ 3) := rfl

theorem twO_eq_none (p : Option (K × K)) : twO ψ c p = none ↔ p = none := by
  cases p <;> simp [twO]

include hc

theorem twO_injective : Function.Injective (twO ψ c) := by
  intro p q e
  rcases p with _ | ⟨x, y⟩ <;> rcases q with _ | ⟨x', y'⟩
  · rfl
  · simp [twO] at e
  · simp [twO] at e
  · simp only [twO_some, Option.some.injEq, Prod.mk.injEq] at e
    have h2 : c ^ 2 ≠ 0 := pow_ne_zero _ hc
    have h3 : c ^ 3 ≠ 0 := pow_ne_zero _ hc
    rw [ψ.injective (mul_right_cancel₀ h2 e.1), ψ.injective (mul_right_cancel₀ h3 e.2)]

private theorem x_iff (x x' : K) : ψ x' * c ^ 2 = ψ x * c ^ 2 ↔ x' = x :=
  ⟨fun e => ψ.injective (mul_right_cancel₀ (pow_ne_zero _ hc) e), fun e => e ▸ rfl⟩

private theorem y_iff (y y' : K) : ψ y' * c ^ 3 = ψ y * c ^ 3 ↔ y' = y :=
  ⟨fun e => ψ.injective (mul_right_cancel₀ (pow_ne_zero _ hc) e), fun e => e ▸ rfl⟩

private theorem y_zero_iff (y : K) : ψ y * c ^ 3 = 0 ↔ y = 0 := by
  rw [mul_eq_zero, or_iff_left (pow_ne_zero _ hc), map_eq_zero]

/-- the twist commutes with the tangent formula -/
theorem twO_sDouble (p : Option (K × K)) : twO ψ c (sDouble p) = sDouble (twO ψ c p) := by
  rcases p with _ | ⟨x, y⟩
  · rfl
  · simp only [sDouble, twO_some, y_zero_iff ψ hc]
    by_cases hy : y = 0
    · simp [hy]
    · have hy' : ψ y ≠ 0 := (map_ne_zero ψ).mpr hy
      simp only [hy, if_false, twO_some, map_sub, map_add, map_mul, map_neg, map_pow, map_div₀,
        map_ofNat]
      congr 1
      ext
      · simp only; field_simp
      · simp only; field_simp

/-- the twist commutes with negation -/
theorem twO_sNeg (p : Option (K × K)) : twO ψ c (sNeg p) = sNeg (twO ψ c p) := by
  rcases p with _ | ⟨x, y⟩
  · rfl
  · simp [sNeg]

/-- the twist commutes with the chord–tangent addition -/
theorem twO_sAdd (p q : Option (K × K)) : twO ψ c (sAdd p q) = sAdd (twO ψ c p) (twO ψ c q) := by
  rcases p with _ | ⟨x1, y1⟩ <;> rcases q with _ | ⟨x2, y2⟩
  · rfl
  · rfl
  · rfl
  · have hd := twO_sDouble ψ hc (some (x1, y1))
    simp only [twO_some] at hd
    simp only [sAdd, twO_some, x_iff ψ hc, y_iff ψ hc, ← hd]
    by_cases h1 : x2 = x1 ∧ y2 = y1
    · simp only [h1, and_self, if_true]
    · by_cases hx : x2 = x1
      · have hy : ¬ y2 = y1 := fun e => h1 ⟨hx, e⟩
        simp only [hx, hy, and_false, if_false, if_true, twO_none]
      · have hd' : ψ x2 - ψ x1 ≠ 0 := by
          rw [← map_sub]; exact (map_ne_zero ψ).mpr (sub_ne_zero.mpr hx)
        simp only [hx, false_and, if_false, twO_some, map_sub, map_add, map_mul, map_neg, map_pow,
          map_div₀]
        congr 1
        ext
        · simp only; field_simp
        · simp only; field_simp

/-- the twist maps `y² = x³ + b` into (and only into) `y² = x³ + ψ(b)·c⁶` -/
theorem twO_sOn_iff {b : K} {b' : L} (hb : ψ b * c ^ 6 = b') (p : Option (K × K)) :
    sOn (twO ψ c p) b' ↔ sOn p b := by
  rcases p with _ | ⟨x, y⟩
  · exact Iff.rfl
  · simp only [sOn, twO_some, ← hb]
    have e : (ψ y * c ^ 3) ^ 2 - (ψ x * c ^ 2) ^ 3 = ψ (y ^ 2 - x ^ 3) * c ^ 6 := by
      simp only [map_sub, map_pow]; ring
    rw [e]
    exact ⟨fun h => ψ.injective (mul_right_cancel₀ (pow_ne_zero _ hc) h), fun h => by rw [h]⟩

end

/-! ### the induced homomorphism of Mathlib point groups -/

section hom
variable (ψ : K →+* L) {c : L} (hc : c ≠ 0) (h2 : (2 : L) ≠ 0) (h3 : (3 : L) ≠ 0) {b : K} {b' : L}
  (hb' : b' ≠ 0) (hb : ψ b * c ^ 6 = b')

/-- the twist of a Mathlib point -/
noncomputable def twistPt : (W b).Point → (W b').Point
  | .zero => 0
  | .some x y h => .some (ψ x * c ^ 2) (ψ y * c ^ 3)
      (nonsingular_W_of_equation h2 h3 hb'
        ((twO_sOn_iff ψ hc hb (some (x, y))).mpr ((equation_W_iff b x y).mp h.1)))

theorem reprRef_twistPt (P : (W b).Point) :
    reprRef (twistPt ψ hc h2 h3 hb' hb P) = twO ψ c (reprRef P) := by
  rcases P with _ | ⟨x, y, h⟩ <;> rfl

include ψ in
theorem two_ne_zero_src (h2 : (2 : L) ≠ 0) : (2 : K) ≠ 0 := by
  intro e; apply h2; rw [← map_ofNat ψ 2, e, map_zero]

/-- **the twist is a homomorphism of the Mathlib point groups** -/
noncomputable def twistHom : (W b).Point →+ (W b').Point where
  toFun := twistPt ψ hc h2 h3 hb' hb
  map_zero' := rfl
  map_add' P Q := by
    apply CurveSem.reprRef_injective
    rw [reprRef_twistPt, ← sAdd_refines (two_ne_zero_src ψ h2), twO_sAdd ψ hc, ← sAdd_refines h2,
      reprRef_twistPt, reprRef_twistPt]

theorem twistHom_apply (P : (W b).Point) :
    twistHom ψ hc h2 h3 hb' hb P = twistPt ψ hc h2 h3 hb' hb P := rfl

theorem reprRef_twistHom (P : (W b).Point) :
    reprRef (twistHom ψ hc h2 h3 hb' hb P) = twO ψ c (reprRef P) := reprRef_twistPt ψ hc h2 h3 hb' hb P

/-- **the twist is injective** -/
theorem twistHom_injective : Function.Injective (twistHom ψ hc h2 h3 hb' hb) := by
  intro P Q e
  apply CurveSem.reprRef_injective
  apply twO_injective ψ hc
  rw [← reprRef_twistHom ψ hc h2 h3 hb' hb, ← reprRef_twistHom ψ hc h2 h3 hb' hb, e]

end hom

end PyEcc.TwistSem
