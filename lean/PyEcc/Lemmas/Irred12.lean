/-
  PyEcc.Lemmas.Irred12 — generic algebra used to prove that the degree-12 moduli of py_ecc are irreducible.

  * `X_pow_six_sub_C_irreducible` : over any field, `X⁶ − a` is irreducible when `a` is neither a square
    nor a cube (Mathlib only has the criterion for odd exponents / prime exponents).
  * `not_pow_of_pow_ne_one`       : in a finite field with `q` elements, `ξ ≠ 0`, `k ∣ q − 1` and
    `ξ^((q−1)/k) ≠ 1` imply that `ξ` is not a `k`-th power.
  * `mul2`/`pow2`                 : arithmetic of `Fp(i)`, `i² = −1`, on pairs of naturals (kernel-evaluable),
    with the bridge lemma `phi_pow2` into any commutative ring of characteristic `p` with such an `i`.
  * `irreducible_quad`            : `(X − a)² + 1` is irreducible over `ZMod p` for `p ≡ 3 (mod 4)`.
  * `irreducible_comp_X_pow_six`  : the assembly through `Polynomial.irreducible_comp`.
-/
import Mathlib.FieldTheory.KummerExtension
import Mathlib.FieldTheory.Finite.Basic
import Mathlib.NumberTheory.LegendreSymbol.Basic
import Mathlib.Algebra.Polynomial.SpecificDegree

namespace PyEcc.Irred12
open Polynomial IntermediateField

universe u

/-! ### `X⁶ − a` -/

/-- Over any field, `X⁶ − a` is irreducible as soon as `a` is neither a square nor a cube. -/
theorem X_pow_six_sub_C_irreducible {K : Type u} [Field K] {a : K}
    (h2 : ∀ b : K, b ^ 2 ≠ a) (h3 : ∀ b : K, b ^ 3 ≠ a) : Irreducible (X ^ 6 - C a : K[X]) := by
  have h6 : (6 : ℕ) = 2 * 3 := rfl
  rw [h6]
  apply X_pow_mul_sub_C_irreducible (X_pow_sub_C_irreducible_of_prime Nat.prime_three h3)
  intro E _ _ x hx
  have hint : IsIntegral K x := not_not.mp fun h ↦ by
    simpa only [degree_zero, degree_X_pow_sub_C (show 0 < 3 by norm_num),
      WithBot.natCast_ne_bot] using congr_arg degree (hx.symm.trans (dif_neg h))
  apply X_pow_sub_C_irreducible_of_prime Nat.prime_two
  intro b hb
  apply h2 (Algebra.norm _ b)
  rw [← map_pow, hb, ← adjoin.powerBasis_gen hint,
    Algebra.PowerBasis.norm_gen_eq_coeff_zero_minpoly]
  simp [minpoly_gen, hx, Odd.neg_pow (show Odd 3 by decide)]

/-! ### power residues in a finite field -/

theorem not_pow_of_pow_ne_one {K : Type*} [Field K] [Finite K] {q : ℕ} (hq : Nat.card K = q)
    {ξ : K} (hξ : ξ ≠ 0) {k : ℕ} (hk0 : k ≠ 0) (hk : k ∣ q - 1)
    (h : ξ ^ ((q - 1) / k) ≠ 1) : ∀ b : K, b ^ k ≠ ξ := by
  intro b hb
  apply h
  have hb0 : b ≠ 0 := by
    rintro rfl
    rw [zero_pow hk0] at hb
    exact hξ hb.symm
  have := Fintype.ofFinite K
  rw [← hb, ← pow_mul, Nat.mul_div_cancel' hk, ← hq, Nat.card_eq_fintype_card]
  exact FiniteField.pow_card_sub_one_eq_one b hb0

/-! ### `Fp(i)` on pairs of naturals -/

/-- `(x₁ + x₂ i)(y₁ + y₂ i)` with `i² = −1`, coefficients reduced modulo `p`. -/
def mul2 (p : ℕ) (x y : ℕ × ℕ) : ℕ × ℕ :=
  ((x.1 * y.1 + (p - (x.2 * y.2) % p)) % p, (x.1 * y.2 + x.2 * y.1) % p)

/-- square-and-multiply with fuel: `acc · b^e`. -/
def pow2 (p : ℕ) : ℕ → ℕ × ℕ → ℕ × ℕ → ℕ → ℕ × ℕ
  | 0, acc, _, _ => acc
  | f + 1, acc, b, e =>
    if e = 0 then acc
    else pow2 p f (if e % 2 = 1 then mul2 p acc b else acc) (mul2 p b b) (e / 2)

section bridge
variable {R : Type*} [CommRing R] {p : ℕ} [CharP R p] (i : R)

/-- the pair `(a, b)` read as `a + b·i`. -/
def phi (x : ℕ × ℕ) : R := (x.1 : R) + (x.2 : R) * i

theorem natCast_mod_p (n : ℕ) : ((n % p : ℕ) : R) = (n : R) := by
  conv_rhs => rw [← Nat.mod_add_div n p]
  simp

theorem phi_mul2 [NeZero p] (hi : i ^ 2 = -1) (x y : ℕ × ℕ) :
    phi i (mul2 p x y) = phi i x * phi i y := by
  have hle : (x.2 * y.2) % p ≤ p := (Nat.mod_lt _ (NeZero.pos p)).le
  simp only [phi, mul2, natCast_mod_p (R := R) (p := p)]
  rw [Nat.cast_add, Nat.cast_sub hle, natCast_mod_p (R := R) (p := p), CharP.cast_eq_zero R p]
  push_cast
  linear_combination (-(x.2 : R) * (y.2 : R)) * hi

theorem phi_pow2 [NeZero p] (hi : i ^ 2 = -1) : ∀ (f : ℕ) (acc b : ℕ × ℕ) (e : ℕ), e < 2 ^ f →
    phi i (pow2 p f acc b e) = phi i acc * phi i b ^ e := by
  intro f
  induction f with
  | zero =>
    intro acc b e h
    have : e = 0 := by simpa using h
    subst this
    simp [pow2]
  | succ n ih =>
    intro acc b e h
    unfold pow2
    by_cases he : e = 0
    · subst he; simp
    · rw [if_neg he]
      have h2 : e / 2 < 2 ^ n := by
        rw [Nat.div_lt_iff_lt_mul (by norm_num)]; rw [pow_succ] at h; omega
      have hsplit : e = 2 * (e / 2) + e % 2 := by omega
      rw [ih _ _ _ h2, phi_mul2 i hi]
      by_cases hodd : e % 2 = 1
      · rw [if_pos hodd, phi_mul2 i hi]
        conv_rhs => rw [hsplit, hodd, pow_add, pow_mul, pow_one]
        ring
      · rw [if_neg hodd]
        have hev : e % 2 = 0 := by omega
        conv_rhs => rw [hsplit, hev, add_zero, pow_mul]
        ring

/-- `(a + i)^e` computed on pairs. -/
theorem pow_eq_phi_pow2 [NeZero p] (hi : i ^ 2 = -1) (a e f : ℕ) (hf : e < 2 ^ f) :
    ((a : R) + i) ^ e = phi i (pow2 p f (1, 0) (a, 1) e) := by
  rw [phi_pow2 i hi f _ _ e hf]
  simp [phi]

end bridge

/-! ### the quadratic `(X − a)² + 1` -/

variable {p : ℕ}

/-- `(X − a)² + 1 = X² − 2aX + (a² + 1)` -/
noncomputable def quad (p : ℕ) (a : ℕ) : (ZMod p)[X] := (X - C (a : ZMod p)) ^ 2 + 1

theorem quad_monic (a : ℕ) [Fact p.Prime] : (quad p a).Monic := by
  unfold quad
  rw [← C_1]
  exact ((monic_X_sub_C _).pow 2).add_of_left
    (by rw [degree_C one_ne_zero, degree_pow, degree_X_sub_C]; decide)

theorem quad_natDegree (a : ℕ) [Fact p.Prime] : (quad p a).natDegree = 2 := by
  unfold quad
  rw [← C_1, natDegree_add_C, natDegree_pow, natDegree_X_sub_C]

theorem irreducible_quad [Fact p.Prime] (h : p % 4 = 3) (a : ℕ) : Irreducible (quad p a) := by
  apply irreducible_of_degree_le_three_of_not_isRoot
  · rw [quad_natDegree]; decide
  · intro x hx
    simp only [quad, IsRoot, eval_add, eval_pow, eval_sub, eval_X, eval_C, eval_one] at hx
    have : IsSquare (-1 : ZMod p) := ⟨x - a, by linear_combination (-1 : ZMod p) * hx⟩
    exact (ZMod.exists_sq_eq_neg_one_iff.mp this) h

/-- `quad a ∘ X⁶ = X¹² − 2a X⁶ + (a² + 1)` -/
theorem quad_comp (a : ℕ) :
    (quad p a).comp (X ^ 6) = X ^ 12 - C (2 * a : ZMod p) * X ^ 6 + C ((a : ZMod p) ^ 2 + 1) := by
  simp only [quad, add_comp, pow_comp, sub_comp, X_comp, C_comp, one_comp, C_add, C_mul, C_pow, C_1]
  rw [show (C (2 : ZMod p)) = 2 from rfl]
  ring

/-! ### assembly -/

/-- **The criterion.** Let `p ≡ 3 (mod 4)` be prime and `a` a natural number. If, computing in `Fp(i)` on
pairs of naturals, `(a + i)^((p²−1)/2) = −1` and `(a + i)^((p²−1)/3) = u ∈ Fp` with `u ≢ 1`, then
`X¹² − 2aX⁶ + (a² + 1)` is irreducible over `Fp`. -/
theorem irreducible_comp_X_pow_six [Fact p.Prime] (h4 : p % 4 = 3) (a : ℕ) (f : ℕ)
    (hf : p ^ 2 - 1 < 2 ^ f) (h3 : 3 ∣ p ^ 2 - 1)
    (hsq : pow2 p f (1, 0) (a, 1) ((p ^ 2 - 1) / 2) = (p - 1, 0))
    (u : ℕ) (hcu : pow2 p f (1, 0) (a, 1) ((p ^ 2 - 1) / 3) = (u, 0)) (hu : u % p ≠ 1 % p) :
    Irreducible ((quad p a).comp (X ^ 6)) := by
  have hp : p.Prime := Fact.out
  have : NeZero p := ⟨hp.ne_zero⟩
  have hp2 : 2 < p := by
    rcases hp.eq_two_or_odd with h | h <;> omega
  apply irreducible_comp (quad_monic a) (monic_X_pow 6) (irreducible_quad h4 a)
  intro E _ _ x hx
  have hint : IsIntegral (ZMod p) x := not_not.mp fun h ↦ by
    have := congr_arg natDegree (hx.symm.trans (dif_neg h))
    rw [quad_natDegree] at this
    simp at this
  rw [Polynomial.map_pow, map_X]
  -- the field `K = Fp(x)` has `p²` elements
  set K := (ZMod p)⟮x⟯ with hK
  set g : K := AdjoinSimple.gen (ZMod p) x with hg
  have : FiniteDimensional (ZMod p) K := adjoin.finiteDimensional hint
  have : Finite K := Module.finite_of_finite (ZMod p)
  have hcard : Nat.card K = p ^ 2 := by
    have h1 : Module.finrank (ZMod p) K = 2 := by
      rw [hK, adjoin.finrank hint, hx, quad_natDegree]
    have := Module.natCard_eq_pow_finrank (K := ZMod p) (V := K)
    rw [this, h1, Nat.card_zmod]
  have : CharP K p := charP_of_injective_algebraMap (algebraMap (ZMod p) K).injective p
  -- `i = g − a` squares to `−1`
  have hroot : (g - (a : K)) ^ 2 = -1 := by
    have h0 : aeval g (quad p a) = 0 := by
      rw [← hx, hg, ← minpoly_gen (ZMod p) x]
      exact minpoly.aeval _ _
    simp only [quad, map_add, map_pow, map_sub, aeval_X, map_one, map_natCast] at h0
    linear_combination h0
  have hgi : g = (a : K) + (g - a) := by ring
  have hone : (1 : K) ≠ -1 := by
    intro h
    have h20 : ((2 : ℕ) : K) = 0 := by push_cast; linear_combination h
    rw [CharP.cast_eq_zero_iff K p] at h20
    exact absurd (Nat.le_of_dvd (by norm_num) h20) (by omega)
  have hpow2 : g ^ ((p ^ 2 - 1) / 2) = -1 := by
    rw [hgi, pow_eq_phi_pow2 (p := p) _ hroot a _ f (lt_of_le_of_lt (Nat.div_le_self _ _) hf), hsq]
    simp only [phi, Nat.cast_zero, zero_mul, add_zero]
    rw [Nat.cast_sub hp.one_le, CharP.cast_eq_zero K p]
    simp
  have hpow3 : g ^ ((p ^ 2 - 1) / 3) ≠ 1 := by
    rw [hgi, pow_eq_phi_pow2 (p := p) _ hroot a _ f (lt_of_le_of_lt (Nat.div_le_self _ _) hf), hcu]
    simp only [phi, Nat.cast_zero, zero_mul, add_zero]
    intro h1
    apply hu
    have : ((u : ℕ) : K) = ((1 : ℕ) : K) := by simpa using h1
    rwa [CharP.natCast_eq_natCast K p] at this
  have h2d : 2 ∣ p ^ 2 - 1 := by
    rcases hp.eq_two_or_odd with h | h
    · omega
    · have : (p ^ 2) % 2 = 1 := by rw [Nat.pow_mod, h]
      omega
  have hg0 : g ≠ 0 := by
    intro h0
    have hne : (p ^ 2 - 1) / 2 ≠ 0 := by
      have : 9 ≤ p ^ 2 := by nlinarith
      omega
    rw [h0, zero_pow hne] at hpow2
    simp at hpow2
  apply X_pow_six_sub_C_irreducible
  · exact not_pow_of_pow_ne_one hcard hg0 (by norm_num) h2d (by rw [hpow2]; exact fun h => hone h.symm)
  · exact not_pow_of_pow_ne_one hcard hg0 (by norm_num) h3 hpow3

end PyEcc.Irred12
