/-
  PyEcc.Lemmas.NegPairing — the optimized BLS12-381 Miller value read through the reference loop over
  `K12` (`miller_K`), the `K12` readings of `neg(Q)`, `neg(P)`, and the resulting statements about the
  optimized Miller loop with final exponentiation:
     `miller(Q, P)^E · miller(Q, −P)^E = 1`,   `miller(Q, P)^E · miller(−Q, P)^E = 1`
  in the executable `FQ12` model, for reduced regular `Q` and on-curve finite `P`.
-/
import PyEcc.Lemmas.NegMiller
import PyEcc.Props.C12_Miller
import PyEcc.Sem.CodecSem

set_option linter.unusedSectionVars false
set_option linter.unusedVariables false
set_option maxRecDepth 100000

namespace PyEcc.NegSem
open Polynomial PyEcc PyEcc.Gen PyEcc.Gen.Consts PyEcc.Fqp PyEcc.FqpSem PyEcc.Transfer PyEcc.PairingSem
  PyEcc.MillerSem PyEcc.C13

variable [DecidableEq K2] [DecidableEq K12]

/-- a G1 triple of the optimized module -/
abbrev T1 : Type := Fq blsP × Fq blsP × Fq blsP

/-- the digit list of the optimized loop -/
abbrev blsDigits : List Int := digitsFrom optimized_bls12_381_pseudo_binary_encoding 62

/-- `twist` of the point represented by `Q`, in `K12` -/
noncomputable def AK (Q : T2) : Option (K12 × K12) := twA (toAff (mapT toQ Q))

/-- `cast_point_to_fq12` of the point represented by `P`, in `K12` -/
noncomputable def PK (P : T1) : Option (K12 × K12) := mapO toQ (castRef (toAff P))

/-- the reference Miller loop over `K12` at the module constants -/
noncomputable def millerK (A T : Option (K12 × K12)) : Except PyErr (K12 × Option (K12 × K12)) :=
  loopG bls12_381_ate_loop_count (downTo bls12_381_log_ate_loop_count) A T (1, A)

theorem twT_twA (q : Option (K2 × K2)) : TwT (twA q) := by
  rcases q with _ | ⟨x, y⟩
  · exact twT_none
  · exact twT_some ((even_iota x).div even_w2) ((even_iota y).div_odd odd_w3)

theorem twT_AK (Q : T2) : TwT (AK Q) := twT_twA _

theorem PK_some {P : T1} (hz : P.2.2 ≠ 0) :
    PK P = some (ofZ (Fq.toZMod (P.1 / P.2.2)), ofZ (Fq.toZMod (P.2.1 / P.2.2))) := by
  unfold PK
  rw [toAff_of_z_ne_zero hz, castRef_some, mapO_some, toQ_castFq12', toQ_castFq12']

theorem PK_neg {P : T1} (hz : P.2.2 ≠ 0) :
    PK (OptBls.neg P) = some (ofZ (Fq.toZMod (P.1 / P.2.2)), -ofZ (Fq.toZMod (P.2.1 / P.2.2))) := by
  have hz' : (OptBls.neg P).2.2 ≠ 0 := hz
  rw [PK_some hz']
  show some (ofZ (Fq.toZMod (P.1 / P.2.2)), ofZ (Fq.toZMod (-P.2.1 / P.2.2))) = _
  simp only [Fq.toZMod_div, Fq.toZMod_neg, neg_div (Fq.toZMod P.2.2) (Fq.toZMod P.2.1), map_neg]

theorem AK_neg {Q : T2} (cQ : CanonT Q) : AK (OptBls.neg Q) = RefBls.neg (AK Q) := by
  obtain ⟨x, y, z⟩ := Q
  obtain ⟨cx, cy, cz⟩ := cQ
  unfold AK
  have e : mapT (toQ : OBls2 → K2) (OptBls.neg (x, y, z)) = (toQ x, -toQ y, toQ z) := by
    show (toQ x, toQ (-y), toQ z) = _
    rw [(goodHom_F2 (v := .opt)).map_neg cy]
  rw [e]
  show twA (toAff (toQ x, -toQ y, toQ z)) = RefBls.neg (twA (toAff (toQ x, toQ y, toQ z)))
  by_cases hz : (toQ z : K2) = 0
  · simp [toAff, hz, twA, RefBls.neg]
  · simp only [toAff, hz, if_false, twA, Option.map_some, RefBls.neg, reduceCtorEq]
    rw [neg_div (toQ z : K2) (toQ y), map_neg, neg_div (w12 ^ 3)]

/-- `refMillerStep` around the generated reference functions is the generic loop body -/
theorem refMillerStep_eq_stepG (ate : Nat) (Q P : A12) :
    refMillerStep refBlsOps ate Q P = stepG ate Q P := by
  funext st i
  obtain ⟨f, R⟩ := st
  rfl

/-- **the optimized Miller value is the value of the reference loop over `K12`** -/
theorem miller_K {Q : T2} {P : T1} (cQ : CanonT Q) (hQz : Q.2.2 ≠ 0) (hPz : P.2.2 ≠ 0)
    (hreg : MillerRegular Q) :
    ∃ r : K12 × Option (K12 × K12), millerK (AK Q) (PK P) = .ok r
      ∧ Canon (optBlsMillerLoop blsDigits none Q P : OBls12)
      ∧ (toQ (optBlsMillerLoop blsDigits none Q P : OBls12) : K12) = r.1 := by
  obtain ⟨cq, hQ⟩ := C12M.refOfOptG2_repr cQ
  obtain ⟨sr, e, cf, co, v⟩ := miller_core cQ cq hQ (rfl : toAff P = toAff P) hQz hPz hreg
  rw [refMillerStep_eq_stepG] at e
  have e' : loopG bls12_381_ate_loop_count (downTo bls12_381_log_ate_loop_count)
      (twistRefBls (C12M.refOfOptG2 Q) : A12) (castRef (toAff P))
      ((1 : RBls12), (twistRefBls (C12M.refOfOptG2 Q) : A12)) = .ok sr := e
  have tq := toQ_twistRefBls cq
  have g := loopG_good (goodHom_F12 (v := .ref)) bls12_381_ate_loop_count
    (downTo bls12_381_log_ate_loop_count) tq.2 (goodO_castP (toAff P)) canon_one12 tq.2 e'
  refine ⟨mapSt toQ sr, ?_, co, v⟩
  unfold millerK AK PK
  rw [hQ, ← tq.1]
  have : mapSt (toQ : RBls12 → K12) ((1 : RBls12), (twistRefBls (C12M.refOfOptG2 Q) : A12))
      = ((1 : K12), mapO toQ (twistRefBls (C12M.refOfOptG2 Q) : A12)) := by
    show (toQ (1 : RBls12), _) = _
    rw [toQ_one12]
  rw [this] at g
  exact g

/-! ### the final power in the executable model -/

/-- equal to `1` in `K12` after the product ⇒ the product of the two model values is `FQ12.one()` -/
theorem model_mul_eq_one {a b : OBls12} (ca : Canon a) (cb : Canon b) (E : ℕ)
    (h : ((toQ a : K12) * toQ b) ^ E = 1) : a ^ E * b ^ E = 1 := by
  have hO := goodHom_F12 (v := .opt)
  have c1 := hO.good_pow E ca
  have c2 := hO.good_pow E cb
  apply hO.inj (hO.good_mul c1 c2) hO.good_one
  rw [hO.map_mul c1 c2, hO.map_pow E ca, hO.map_pow E cb, hO.map_one, ← mul_pow]
  exact h

/-- `y ≠ 0` for a finite point of the G1 curve `y² = x³ + 4` (no 2-torsion) -/
theorem g1_y_ne_zero {P : T1} (hon : OptBls.is_on_curve P (Fq.ofInt optimized_bls12_381_b : Fq blsP) = true)
    (hz : P.2.2 ≠ 0) : ofZ (Fq.toZMod (P.2.1 / P.2.2)) ≠ 0 := by
  obtain ⟨x, y, z⟩ := P
  simp only at hz ⊢
  have hz' : Fq.toZMod z ≠ 0 := fun h => hz (by rw [← Fq.toZMod_zero] at h; exact Fq.toZMod_inj.mp h)
  intro h0
  have h1 : Fq.toZMod (y / z) = 0 := (map_eq_zero ofZ).mp h0
  rw [Fq.toZMod_div, div_eq_zero_iff] at h1
  have hy : Fq.toZMod y = 0 := h1.resolve_right hz'
  have hinf : OptBls.is_inf (x, y, z) = false := by
    simp [OptBls.is_inf, hz]
  simp only [OptBls.is_on_curve, hinf, Bool.false_eq_true, if_false, decide_eq_true_eq] at hon
  have e := congrArg Fq.toZMod hon
  simp only [Fq.toZMod_sub, Fq.toZMod_mul, Fq.toZMod_pow, Fq.toZMod_ofInt, hy] at e
  have hb : ((optimized_bls12_381_b : ℤ) : ZMod blsP) = 4 := by
    have : optimized_bls12_381_b = 4 := by decide
    rw [this]; norm_num
  rw [hb] at e
  apply CodecSem.cube_add_four_ne_zero (Fq.toZMod x / Fq.toZMod z)
  field_simp
  linear_combination -e

/-! ### the two Miller-loop statements -/

/-- the reference loop never adds in its last iteration (bit 0 of `ate_loop_count` is 0) -/
theorem bls_noTrail : NoTrail bls12_381_ate_loop_count (downTo bls12_381_log_ate_loop_count) := by
  decide

/-- the Miller value of a regular `Q` at an on-curve finite `P` is non-zero -/
theorem miller_K_ne_zero {Q : T2} {P : T1} (hPz : P.2.2 ≠ 0)
    (honP : OptBls.is_on_curve P (Fq.ofInt optimized_bls12_381_b : Fq blsP) = true)
    {r : K12 × Option (K12 × K12)} (e : millerK (AK Q) (PK P) = .ok r) : r.1 ≠ 0 := by
  rw [PK_some hPz] at e
  exact loop_ne_zero (twT_AK Q) (even_ofZ _) (even_ofZ _) (g1_y_ne_zero honP hPz) _ _ 1 (AK Q) r
    (twT_AK Q) one_ne_zero bls_noTrail e

/-- **`miller_loop(Q, P)^E · miller_loop(Q, −P)^E = 1`** in the executable `FQ12` model -/
theorem miller_neg_right {Q : T2} {P : T1} (cQ : CanonT Q) (hQz : Q.2.2 ≠ 0) (hPz : P.2.2 ≠ 0)
    (hreg : MillerRegular Q)
    (honP : OptBls.is_on_curve P (Fq.ofInt optimized_bls12_381_b : Fq blsP) = true) :
    (optBlsMillerLoop blsDigits (some ((blsP ^ 12 - 1) / optimized_bls12_381_curve_order)) Q P : OBls12)
      * optBlsMillerLoop blsDigits (some ((blsP ^ 12 - 1) / optimized_bls12_381_curve_order)) Q
          (OptBls.neg P) = 1 := by
  have hPz' : (OptBls.neg P).2.2 ≠ 0 := hPz
  obtain ⟨r, e, c, v⟩ := miller_K (P := P) cQ hQz hPz hreg
  obtain ⟨r', e', c', v'⟩ := miller_K (P := OptBls.neg P) cQ hQz hPz' hreg
  have hne := miller_K_ne_zero hPz honP e
  rw [PK_some hPz] at e
  rw [PK_neg hPz] at e'
  obtain ⟨g', eg, sg⟩ := loop_negT (twT_AK Q) (even_ofZ _) (even_ofZ _) _ _ 1 1 (AK Q) r (twT_AK Q)
    sgnRel_one e
  have er : r' = (g', r.2) := by
    unfold millerK at e'
    rw [eg] at e'
    exact (Except.ok.inj e').symm
  rw [optBlsMillerLoop_some, optBlsMillerLoop_some, bls_final_exp_eq]
  apply model_mul_eq_one c c'
  rw [v, v', er]
  exact sgnRel_pow_finalExp hne sg

/-- **`miller_loop(Q, P)^E · miller_loop(−Q, P)^E = 1`** in the executable `FQ12` model -/
theorem miller_neg_left {Q : T2} {P : T1} (cQ : CanonT Q) (hQz : Q.2.2 ≠ 0) (hPz : P.2.2 ≠ 0)
    (hreg : MillerRegular Q) (hreg' : MillerRegular (OptBls.neg Q))
    (honP : OptBls.is_on_curve P (Fq.ofInt optimized_bls12_381_b : Fq blsP) = true) :
    (optBlsMillerLoop blsDigits (some ((blsP ^ 12 - 1) / optimized_bls12_381_curve_order)) Q P : OBls12)
      * optBlsMillerLoop blsDigits (some ((blsP ^ 12 - 1) / optimized_bls12_381_curve_order))
          (OptBls.neg Q) P = 1 := by
  have cQ' : CanonT (OptBls.neg Q) := (canonT_ops cQ cQ 0).2.2.1
  have hQz' : (OptBls.neg Q).2.2 ≠ 0 := hQz
  obtain ⟨r, e, c, v⟩ := miller_K (P := P) cQ hQz hPz hreg
  obtain ⟨r', e', c', v'⟩ := miller_K (P := P) cQ' hQz' hPz hreg'
  have hne := miller_K_ne_zero hPz honP e
  have es := loop_sigma _ _ _ _ _ _ e
  have hP : mapO sigma (PK P) = PK P := by
    rw [PK_some hPz]; exact mapO_sigma_base (even_ofZ _) (even_ofZ _)
  have hA : mapO sigma (AK Q) = AK (OptBls.neg Q) := by
    rw [AK_neg cQ]; exact mapO_sigma_of_twT (twT_AK Q)
  have hst : mapSt sigma ((1 : K12), AK Q) = ((1 : K12), AK (OptBls.neg Q)) := by
    show (sigma 1, mapO sigma (AK Q)) = _
    rw [map_one, hA]
  rw [hP, hA, hst] at es
  have er : r' = mapSt sigma r := by
    unfold millerK at e'
    rw [es] at e'
    exact (Except.ok.inj e').symm
  rw [optBlsMillerLoop_some, optBlsMillerLoop_some, bls_final_exp_eq]
  apply model_mul_eq_one c c'
  rw [v, v', er]
  exact norm_pow_finalExp hne

/-- the optimized Miller value with final exponentiation is not `FQ12.zero()` -/
theorem miller_pow_ne_zero {Q : T2} {P : T1} (cQ : CanonT Q) (hQz : Q.2.2 ≠ 0) (hPz : P.2.2 ≠ 0)
    (hreg : MillerRegular Q)
    (honP : OptBls.is_on_curve P (Fq.ofInt optimized_bls12_381_b : Fq blsP) = true) (E : ℕ) :
    (optBlsMillerLoop blsDigits (some E) Q P : OBls12) ≠ 0 := by
  obtain ⟨r, e, c, v⟩ := miller_K (P := P) cQ hQz hPz hreg
  have hne := miller_K_ne_zero hPz honP e
  have hO := goodHom_F12 (v := .opt)
  rw [optBlsMillerLoop_some]
  intro h0
  have := congrArg (toQ : OBls12 → K12) h0
  rw [hO.map_pow E c, hO.map_zero, v] at this
  exact hne (pow_eq_zero_iff (fun hE => by
    rw [hE, pow_zero] at this; exact one_ne_zero this) |>.mp this)

/-! ### the `pairing` function -/

theorem canon_miller_pow {Q : T2} {P : T1} (cQ : CanonT Q) (hQz : Q.2.2 ≠ 0) (hPz : P.2.2 ≠ 0)
    (hreg : MillerRegular Q) (E : ℕ) : Canon (optBlsMillerLoop blsDigits (some E) Q P : OBls12) := by
  obtain ⟨r, e, c, v⟩ := miller_K (P := P) cQ hQz hPz hreg
  rw [optBlsMillerLoop_some]
  exact (goodHom_F12 (v := .opt)).good_pow E c

/-- `is_on_curve(neg(P), b) = is_on_curve(P, b)` on G1 triples -/
theorem on_curve_neg_G1 (P : T1) (b : Fq blsP) :
    OptBls.is_on_curve (OptBls.neg P) b = OptBls.is_on_curve P b := by
  obtain ⟨x, y, z⟩ := P
  have e : (-y) ^ 2 * z - x ^ 3 = y ^ 2 * z - x ^ 3 := by
    rw [← Fq.toZMod_inj]
    simp only [Fq.toZMod_sub, Fq.toZMod_mul, Fq.toZMod_pow, neg_sq]
  show (if OptBls.is_inf (x, y, z) = true then true
      else decide ((-y) ^ 2 * z - x ^ 3 = b * z ^ 3))
    = (if OptBls.is_inf (x, y, z) = true then true else decide (y ^ 2 * z - x ^ 3 = b * z ^ 3))
  simp only [e]

/-- `neg(Q)` of a reduced on-curve subgroup triple is again one -/
theorem neg_G2_facts {Q : T2} (cQ : CanonT Q) (hon : OptBls.is_on_curve Q blsB2 = true)
    (hsub : subgroupCheck Q = true) :
    CanonT (OptBls.neg Q) ∧ OptBls.is_on_curve (OptBls.neg Q) blsB2 = true
      ∧ subgroupCheck (OptBls.neg Q) = true := by
  have cQ' : CanonT (OptBls.neg Q) := (canonT_ops cQ cQ 0).2.2.1
  obtain ⟨Pt, rQ⟩ := (on_curve_iff_F2 cQ).mp hon
  have rN := opt_neg_refines_F2 cQ rQ
  refine ⟨cQ', (on_curve_iff_F2 cQ').mpr ⟨_, rN⟩, ?_⟩
  rw [subgroup_check_iff_F2 cQ' rN, smul_neg, (subgroup_check_iff_F2 cQ rQ).mp hsub, neg_zero]

theorem one_mul_one_model : (1 : OBls12) * 1 = 1 := by
  have hO := goodHom_F12 (v := .opt)
  apply hO.inj (hO.good_mul hO.good_one hO.good_one) hO.good_one
  rw [hO.map_mul hO.good_one hO.good_one, hO.map_one, one_mul]

/-- **`pairing(Q, P) · pairing(Q, neg(P)) = 1`** (with reducedness of the two values) -/
theorem pairing_neg_right_core (Q : T2) (P : T1) (cQ : CanonT Q)
    (honQ : OptBls.is_on_curve Q blsB2 = true)
    (honP : OptBls.is_on_curve P (Fq.ofInt optimized_bls12_381_b : Fq blsP) = true)
    (hsub : subgroupCheck Q = true) :
    ∃ v v' : OBls12, pairingOptBls Q P true = .ok v ∧ pairingOptBls Q (OptBls.neg P) true = .ok v'
      ∧ Canon v ∧ Canon v' ∧ v ≠ 0 ∧ v * v' = 1 := by
  have honQ' : OptBls.is_on_curve Q (⟨optimized_bls12_381_b2⟩ : OBls2) = true := honQ
  have honP' := honP
  rw [← on_curve_neg_G1] at honP'
  have hO := goodHom_F12 (v := .opt)
  have h10 : (1 : OBls12) ≠ 0 := by decide
  rw [pairingOptBls_eq, pairingOptBls_eq, honQ', honP, honP']
  simp only [Bool.true_eq_false, if_false]
  have hzn : (OptBls.neg P).2.2 = P.2.2 := rfl
  rw [hzn]
  by_cases hz : P.2.2 = 0 ∨ Q.2.2 = 0
  · rw [if_pos hz, if_pos hz]
    exact ⟨1, 1, rfl, rfl, hO.good_one, hO.good_one, h10, one_mul_one_model⟩
  · rw [if_neg hz, if_neg hz, if_pos trivial]
    rw [not_or] at hz
    have hreg := millerRegular_of_subgroup cQ honQ hz.2 hsub
    refine ⟨_, _, rfl, rfl, canon_miller_pow cQ hz.2 hz.1 hreg _,
      canon_miller_pow (P := OptBls.neg P) cQ hz.2 hz.1 hreg _,
      miller_pow_ne_zero cQ hz.2 hz.1 hreg honP _, ?_⟩
    exact miller_neg_right cQ hz.2 hz.1 hreg honP

/-- **`pairing(Q, P) · pairing(neg(Q), P) = 1`** (with reducedness of the two values) -/
theorem pairing_neg_left_core (Q : T2) (P : T1) (cQ : CanonT Q)
    (honQ : OptBls.is_on_curve Q blsB2 = true)
    (honP : OptBls.is_on_curve P (Fq.ofInt optimized_bls12_381_b : Fq blsP) = true)
    (hsub : subgroupCheck Q = true) :
    ∃ v v' : OBls12, pairingOptBls Q P true = .ok v ∧ pairingOptBls (OptBls.neg Q) P true = .ok v'
      ∧ Canon v ∧ Canon v' ∧ v * v' = 1 := by
  obtain ⟨cN, honN, hsubN⟩ := neg_G2_facts cQ honQ hsub
  have honQ' : OptBls.is_on_curve Q (⟨optimized_bls12_381_b2⟩ : OBls2) = true := honQ
  have honN' : OptBls.is_on_curve (OptBls.neg Q) (⟨optimized_bls12_381_b2⟩ : OBls2) = true := honN
  have hO := goodHom_F12 (v := .opt)
  rw [pairingOptBls_eq, pairingOptBls_eq, honQ', honN', honP]
  simp only [Bool.true_eq_false, if_false]
  have hzn : (OptBls.neg Q).2.2 = Q.2.2 := rfl
  rw [hzn]
  by_cases hz : P.2.2 = 0 ∨ Q.2.2 = 0
  · rw [if_pos hz, if_pos hz]
    exact ⟨1, 1, rfl, rfl, hO.good_one, hO.good_one, one_mul_one_model⟩
  · rw [if_neg hz, if_neg hz, if_pos trivial]
    rw [not_or] at hz
    have hreg := millerRegular_of_subgroup cQ honQ hz.2 hsub
    have hreg' := millerRegular_of_subgroup cN honN hz.2 hsubN
    refine ⟨_, _, rfl, rfl, canon_miller_pow cQ hz.2 hz.1 hreg _,
      canon_miller_pow cN hz.2 hz.1 hreg' _, ?_⟩
    exact miller_neg_left cQ hz.2 hz.1 hreg hreg' honP

/-! ### transfer to the reference pairing -/

/-- `neg` commutes with the affine reading of a G1 triple -/
theorem toAff_neg_G1 (P : T1) : toAff (OptBls.neg P) = RefBls.neg (toAff P) := by
  obtain ⟨x, y, z⟩ := P
  by_cases hz : z = 0
  · subst hz; simp [toAff, OptBls.neg, RefBls.neg]
  · have e : -y / z = -(y / z) := by
      rw [← Fq.toZMod_inj]
      simp only [Fq.toZMod_div, Fq.toZMod_neg, neg_div (Fq.toZMod z) (Fq.toZMod y)]
    simp only [toAff, OptBls.neg, hz, if_false, RefBls.neg, reduceCtorEq, e]

/-- `neg` commutes with the affine reading of a G2 triple -/
theorem toAff_neg_G2 {Q : T2} {q : Option (RBls2 × RBls2)} (cQ : CanonT Q) (cq : GoodO Canon q)
    (hQ : toAff (mapT toQ Q) = mapO (toQ : RBls2 → K2) q) :
    GoodO Canon (RefBls.neg q)
      ∧ toAff (mapT toQ (OptBls.neg Q)) = mapO (toQ : RBls2 → K2) (RefBls.neg q) := by
  obtain ⟨x, y, z⟩ := Q
  obtain ⟨cx, cy, cz⟩ := cQ
  have hR := goodHom_F2 (v := .ref)
  have e : mapT (toQ : OBls2 → K2) (OptBls.neg (x, y, z)) = (toQ x, -toQ y, toQ z) := by
    show (toQ x, toQ (-y), toQ z) = _
    rw [(goodHom_F2 (v := .opt)).map_neg cy]
  rw [e]
  rcases q with _ | ⟨a, b⟩
  · refine ⟨goodO_none _, ?_⟩
    have hz : (toQ z : K2) = 0 := by
      by_contra hz
      have : toAff (mapT (toQ : OBls2 → K2) (x, y, z)) = some (toQ x / toQ z, toQ y / toQ z) := by
        simp [toAff, mapT, hz]
      rw [this] at hQ; cases hQ
    simp [toAff, hz, RefBls.neg]
  · obtain ⟨ca, cb⟩ := cq _ rfl
    have hn : RefBls.neg (some (a, b)) = some (a, -b) := by simp [RefBls.neg]
    rw [hn]
    refine ⟨goodO_some ca (hR.good_neg cb), ?_⟩
    have hz : (toQ z : K2) ≠ 0 := by
      intro hz
      have : toAff (mapT (toQ : OBls2 → K2) (x, y, z)) = none := by simp [toAff, mapT, hz]
      rw [this] at hQ; cases hQ
    have h1 : toAff (mapT (toQ : OBls2 → K2) (x, y, z)) = some (toQ x / toQ z, toQ y / toQ z) := by
      simp [toAff, mapT, hz]
    rw [h1, mapO_some] at hQ
    have hQ' := Option.some.inj hQ
    have ha : (toQ x / toQ z : K2) = toQ a := congrArg Prod.fst hQ'
    have hb : (toQ y / toQ z : K2) = toQ b := congrArg Prod.snd hQ'
    rw [mapO_some, hR.map_neg cb, ← ha, ← hb]
    simp only [toAff, hz, if_false]
    rw [neg_div (toQ z : K2) (toQ y)]

/-- equal coefficient lists, product `1` on the optimized side ⇒ product `1` on the reference side -/
theorem ref_mul_eq_one {v v' : OBls12} {u u' : RBls12} (cv : Canon v) (cv' : Canon v')
    (e : v.coeffs = u.coeffs) (e' : v'.coeffs = u'.coeffs) (h : v * v' = 1) : u * u' = 1 := by
  have hO := goodHom_F12 (v := .opt)
  have hR := goodHom_F12 (v := .ref)
  have cu : Canon u := by unfold Canon at cv ⊢; rw [← e]; exact cv
  have cu' : Canon u' := by unfold Canon at cv' ⊢; rw [← e']; exact cv'
  have t : (toQ u : K12) = toQ v := by unfold toQ; rw [e]
  have t' : (toQ u' : K12) = toQ v' := by unfold toQ; rw [e']
  apply hR.inj (hR.good_mul cu cu') hR.good_one
  rw [hR.map_mul cu cu', hR.map_one, t, t', ← hO.map_mul cv cv', h, hO.map_one]

theorem coeffs_of_map_eq {a : OBls12} {X : Except PyErr RBls12}
    (h : (Except.ok a : Except PyErr OBls12).map Fqp.coeffs = X.map Fqp.coeffs) :
    ∃ u, X = .ok u ∧ a.coeffs = u.coeffs := by
  rcases X with e | u
  · cases h
  · exact ⟨u, rfl, Except.ok.inj h⟩

end PyEcc.NegSem
