/-
  PyEcc.Lemmas.BlsProtoAgg — aggregation read semantically (helpers for `Props/C03_Proto.lean`):

    * `Aggregate(sigs)` returns THE encoding of the group sum of the decoded points (no hypothesis);
      order / grouping independence follow from commutativity of Mathlib's group + canonical encoding;
    * `_CoreAggregateVerify` accepts `sig` iff `sig` is the encoding of `Σ skᵢ • H(mᵢ)`
      (under `PairingFacts`);
    * `_AggregatePKs` returns the encoding of `Σ pkᵢ`.
-/
import PyEcc.Lemmas.BlsProto
import PyEcc.Props.C03_Logic

set_option linter.unusedSectionVars false
set_option maxRecDepth 100000

namespace PyEcc.BlsProto
open PyEcc PyEcc.Gen PyEcc.Gen.Consts PyEcc.FqpSem PyEcc.Transfer PyEcc.BlsSem

/-! ## `Aggregate` -/

section Aggregate
variable [DecidableEq K2]

/-- the point a 96-byte string decodes to (`0` for strings `signature_to_G2` rejects) -/
noncomputable def decG2 (bs : Bytes) : E2 :=
  open Classical in if h : ∃ q, EncG2 bs q then Classical.choose h else 0

theorem EncG2.decG2_eq {bs : Bytes} {q : E2} (h : EncG2 bs q) : decG2 bs = q := by
  have hex : ∃ q, EncG2 bs q := ⟨q, h⟩
  unfold decG2
  rw [dif_pos hex]
  exact (Classical.choose_spec hex).point_unique h

theorem encG2_decG2 {bs : Bytes} (hl : bs.length = 96) {S : G2Pt} (h : signatureToG2 bs = .ok S) :
    EncG2 bs (decG2 bs) := by
  obtain ⟨q, r⟩ := signatureToG2_rep hl h
  have henc : EncG2 bs q := ⟨hl, S, h, r⟩
  rw [henc.decG2_eq]; exact henc

theorem Z2_rep : RepG2 Z2 (0 : E2) := ⟨by decide, represents_zero_F2 (T := Z2) rfl⟩

/-- the `for signature in signatures` loop: starting from a representative of `a`, it ends in a
    representative of `a + Σ decoded points` -/
theorem aggFold_rep : ∀ (sigs : List Bytes), (∀ sg ∈ sigs, EncG2 sg (decG2 sg)) →
    ∀ (acc : G2Pt) (a : E2), RepG2 acc a →
      ∃ A, C03.aggFold sigs acc = .ok A ∧ RepG2 A (a + (sigs.map decG2).sum) := by
  intro sigs
  induction sigs with
  | nil => intro _ acc a ra; exact ⟨acc, rfl, by simpa using ra⟩
  | cons s rest ih =>
    intro hall acc a ra
    obtain ⟨_, S, hS, rS⟩ := hall s (List.mem_cons_self ..)
    have rnew : RepG2 (OptBls.add acc S) (a + decG2 s) :=
      ⟨(canonT_ops ra.1 rS.1 0).1, opt_add_refines_F2 ra.1 rS.1 ra.2 rS.2⟩
    obtain ⟨A, hA, rA⟩ := ih (fun sg hsg => hall sg (List.mem_cons_of_mem _ hsg)) _ _ rnew
    refine ⟨A, ?_, ?_⟩
    · unfold C03.aggFold at hA ⊢
      simp only [List.foldlM_cons, bind, Except.bind, pure, Except.pure, hS]
      exact hA
    · simpa [add_assoc] using rA

/-- **`Aggregate` returns the encoding of the sum** (no hypothesis beyond decodability): for a non-empty
    list of 96-byte strings that all decode, `Aggregate(sigs)` returns the encoding of `Σ decode(sᵢ)`. -/
theorem aggregate_enc {sigs : List Bytes} (hne : sigs ≠ [])
    (hall : ∀ sg ∈ sigs, sg.length = 96 ∧ ∃ S, signatureToG2 sg = .ok S) :
    ∃ bs, aggregate sigs = .ok bs ∧ EncG2 bs (sigs.map decG2).sum := by
  have henc : ∀ sg ∈ sigs, EncG2 sg (decG2 sg) := fun sg hsg => by
    obtain ⟨hl, S, hS⟩ := hall sg hsg
    exact encG2_decG2 hl hS
  obtain ⟨A, hA, rA⟩ := aggFold_rep sigs henc Z2 0 Z2_rep
  rw [zero_add] at rA
  obtain ⟨bs, hbs, enc⟩ := encG2_of_rep rA
  refine ⟨bs, ?_, enc⟩
  rw [C03.aggregate_eq]
  have h1 : ¬ sigs.length < 1 := by
    cases sigs with
    | nil => exact (hne rfl).elim
    | cons _ _ => simp
  have h2 : sigs.all (·.length = 96) = true := by
    rw [List.all_eq_true]; intro sg hsg; simpa using (hall sg hsg).1
  simp only [h1, h2, ↓reduceIte, Bool.not_true, Bool.false_eq_true, hA, bind, Except.bind]
  exact hbs

/-- what a successful `Aggregate` went through: non-empty list, every entry 96 bytes and decodable -/
theorem aggregate_ok_inv {sigs : List Bytes} {bs : Bytes} (h : aggregate sigs = .ok bs) :
    sigs ≠ [] ∧ ∀ sg ∈ sigs, sg.length = 96 ∧ ∃ S, signatureToG2 sg = .ok S := by
  have hne : sigs ≠ [] := by
    rintro rfl
    rw [C03.aggregate_errors.1] at h; cases h
  have hlen : ∀ sg ∈ sigs, sg.length = 96 := by
    intro sg hsg
    by_contra hl
    rw [C03.aggregate_errors.2.1 sigs ⟨sg, hsg, hl⟩] at h; cases h
  refine ⟨hne, fun sg hsg => ⟨hlen sg hsg, ?_⟩⟩
  cases hS : signatureToG2 sg with
  | ok S => exact ⟨S, rfl⟩
  | error err =>
    rw [C03.aggregate_errors.2.2 sigs hne hlen ⟨sg, hsg, err, hS⟩] at h; cases h

/-- **Exact characterisation of `Aggregate`**: it returns `bs` iff the list is non-empty, every entry is a
    decodable 96-byte string, and `bs` is the encoding of the sum of the decoded points. -/
theorem aggregate_ok_iff_enc (sigs : List Bytes) (bs : Bytes) :
    aggregate sigs = .ok bs ↔
      sigs ≠ [] ∧ (∀ sg ∈ sigs, sg.length = 96 ∧ ∃ S, signatureToG2 sg = .ok S) ∧
        EncG2 bs (sigs.map decG2).sum := by
  constructor
  · intro h
    obtain ⟨hne, hall⟩ := aggregate_ok_inv h
    obtain ⟨bs', hbs', enc⟩ := aggregate_enc hne hall
    rw [h] at hbs'; cases hbs'
    exact ⟨hne, hall, enc⟩
  · rintro ⟨hne, hall, enc⟩
    obtain ⟨bs', hbs', enc'⟩ := aggregate_enc hne hall
    rw [hbs', enc'.bytes_unique enc]

/-- the outcome of `Aggregate` depends only on: emptiness, the length test, decodability, and the sum -/
theorem aggregate_congr {xs ys : List Bytes} (hne : xs = [] ↔ ys = [])
    (hlen : (∃ sg ∈ xs, sg.length ≠ 96) ↔ (∃ sg ∈ ys, sg.length ≠ 96))
    (hdec : (∃ sg ∈ xs, ∃ err, signatureToG2 sg = .error err) ↔
      (∃ sg ∈ ys, ∃ err, signatureToG2 sg = .error err))
    (hsum : (xs.map decG2).sum = (ys.map decG2).sum) : aggregate xs = aggregate ys := by
  by_cases h0 : xs = []
  · rw [h0, hne.mp h0]
  have h0' : ys ≠ [] := fun h => h0 (hne.mpr h)
  by_cases h1 : ∃ sg ∈ xs, sg.length ≠ 96
  · rw [C03.aggregate_errors.2.1 xs h1, C03.aggregate_errors.2.1 ys (hlen.mp h1)]
  have h1' : ¬ ∃ sg ∈ ys, sg.length ≠ 96 := fun h => h1 (hlen.mpr h)
  have l1 : ∀ sg ∈ xs, sg.length = 96 := fun sg hsg => by
    by_contra hl; exact h1 ⟨sg, hsg, hl⟩
  have l2 : ∀ sg ∈ ys, sg.length = 96 := fun sg hsg => by
    by_contra hl; exact h1' ⟨sg, hsg, hl⟩
  by_cases h2 : ∃ sg ∈ xs, ∃ err, signatureToG2 sg = .error err
  · rw [C03.aggregate_errors.2.2 xs h0 l1 h2, C03.aggregate_errors.2.2 ys h0' l2 (hdec.mp h2)]
  have h2' : ¬ ∃ sg ∈ ys, ∃ err, signatureToG2 sg = .error err := fun h => h2 (hdec.mpr h)
  have d1 : ∀ sg ∈ xs, sg.length = 96 ∧ ∃ S, signatureToG2 sg = .ok S := fun sg hsg => by
    refine ⟨l1 sg hsg, ?_⟩
    cases hS : signatureToG2 sg with
    | ok S => exact ⟨S, rfl⟩
    | error err => exact (h2 ⟨sg, hsg, err, hS⟩).elim
  have d2 : ∀ sg ∈ ys, sg.length = 96 ∧ ∃ S, signatureToG2 sg = .ok S := fun sg hsg => by
    refine ⟨l2 sg hsg, ?_⟩
    cases hS : signatureToG2 sg with
    | ok S => exact ⟨S, rfl⟩
    | error err => exact (h2' ⟨sg, hsg, err, hS⟩).elim
  obtain ⟨b1, e1, enc1⟩ := aggregate_enc h0 d1
  obtain ⟨b2, e2, enc2⟩ := aggregate_enc h0' d2
  rw [hsum] at enc1
  rw [e1, e2, enc1.bytes_unique enc2]

/-- **Order independence**: `Aggregate` of a permuted list is the same outcome (same bytes, or the same
    exception), for ALL lists. -/
theorem aggregate_perm' {xs ys : List Bytes} (h : xs.Perm ys) : aggregate xs = aggregate ys := by
  apply aggregate_congr
  · exact ⟨fun e => by subst e; exact h.symm.eq_nil, fun e => by subst e; exact h.eq_nil⟩
  · exact ⟨fun ⟨sg, hsg, hl⟩ => ⟨sg, h.mem_iff.mp hsg, hl⟩, fun ⟨sg, hsg, hl⟩ => ⟨sg, h.mem_iff.mpr hsg, hl⟩⟩
  · exact ⟨fun ⟨sg, hsg, hl⟩ => ⟨sg, h.mem_iff.mp hsg, hl⟩, fun ⟨sg, hsg, hl⟩ => ⟨sg, h.mem_iff.mpr hsg, hl⟩⟩
  · exact (h.map decG2).sum_eq

theorem aggregate_parts {xss : List (List Bytes)} {parts : List Bytes}
    (h : List.Forall₂ (fun xs a => aggregate xs = .ok a) xss parts) :
    (∀ a ∈ parts, a.length = 96 ∧ ∃ S, signatureToG2 a = .ok S) ∧
    (∀ sg ∈ xss.flatten, sg.length = 96 ∧ ∃ S, signatureToG2 sg = .ok S) ∧
    (parts.map decG2).sum = (xss.flatten.map decG2).sum ∧
    (xss ≠ [] → xss.flatten ≠ []) := by
  induction h with
  | nil => exact ⟨by simp, by simp, by simp, fun h => (h rfl).elim⟩
  | @cons xs a xss' parts' hxa _ ih =>
    obtain ⟨i1, i2, i3, _⟩ := ih
    obtain ⟨hne, hall, enc⟩ := (aggregate_ok_iff_enc xs a).mp hxa
    refine ⟨?_, ?_, ?_, ?_⟩
    · intro b hb
      rcases List.mem_cons.mp hb with rfl | hb
      · obtain ⟨hl, S, hS, _⟩ := enc
        exact ⟨hl, S, hS⟩
      · exact i1 b hb
    · intro sg hsg
      rw [List.flatten_cons, List.mem_append] at hsg
      rcases hsg with hsg | hsg
      · exact hall sg hsg
      · exact i2 sg hsg
    · rw [List.map_cons, List.sum_cons, List.flatten_cons, List.map_append, List.sum_append, i3,
        enc.decG2_eq]
    · intro _ hf
      rw [List.flatten_cons] at hf
      exact hne (List.append_eq_nil_iff.mp hf).1

/-- **Grouping independence**: aggregating the partial aggregates of ANY grouping gives the aggregate of
    the concatenation. -/
theorem aggregate_flatten' {xss : List (List Bytes)} {parts : List Bytes}
    (h : List.Forall₂ (fun xs a => aggregate xs = .ok a) xss parts) (hne : xss ≠ []) :
    aggregate xss.flatten = aggregate parts := by
  obtain ⟨i1, i2, i3, i4⟩ := aggregate_parts h
  have hp : parts ≠ [] := by
    intro hp; subst hp
    cases h; exact hne rfl
  obtain ⟨b1, e1, enc1⟩ := aggregate_enc (i4 hne) i2
  obtain ⟨b2, e2, enc2⟩ := aggregate_enc hp i1
  rw [i3] at enc2
  rw [e1, e2, enc1.bytes_unique enc2]

end Aggregate

/-! ## `_CoreAggregateVerify` -/

section AggVerify
variable [DecidableEq K2] {GT : Type} [CommGroup GT] {e : E2 → E1 → GT}

/-- `pk` is the public key (`SkToPk`) of the valid secret key `k` -/
def KeyOf (k : ℕ) (pk : Bytes) : Prop := 0 < k ∧ k < blsR ∧ EncG1 pk (k • g1)

/-- `hash_to_G2(msg, dst)` returned a (canonical) representative of the point `h` -/
def HashPt (H : HashFn) (dst : Bytes) (msg : Bytes) (h : E2) : Prop :=
  ∃ mp, hashToG2 H msg dst = .ok mp ∧ RepG2 mp h

theorem keyOf_of_skToPk {sk : PyArg} {k : ℕ} (hv : isValidPrivkey sk = some k) {pk : Bytes}
    (hpk : skToPk sk = .ok pk) : KeyOf k pk :=
  ⟨(validPrivkey_range hv).1, (validPrivkey_range hv).2, (skToPk_enc hv pk).mp hpk⟩

theorem KeyOf.canon {k : ℕ} {pk : Bytes} (h : KeyOf k pk) :
    ∃ P, CanonPk pk P ∧ Represents P (k • g1) :=
  canonPk_of_enc h.2.2 (nsmul_g1_ne_zero h.1 h.2.1) (nsmul_torsion g1_torsion k)

theorem HashPt.torsion (pf : PairingFacts e) {H : HashFn} {dst msg : Bytes} {h : E2}
    (hh : HashPt H dst msg h) : blsR • h = 0 := by
  obtain ⟨mp, hmp, rh⟩ := hh
  obtain ⟨h', rh', ht⟩ := pf.hash_rep hmp
  rwa [rh'.unique rh] at ht

theorem hashPt_of_ok (pf : PairingFacts e) {H : HashFn} {dst msg : Bytes} {mp : G2Pt}
    (hmp : hashToG2 H msg dst = .ok mp) : ∃ h, HashPt H dst msg h := by
  obtain ⟨h, rh, _⟩ := pf.hash_rep hmp
  exact ⟨h, mp, hmp, rh⟩

/-- the loop of `_CoreAggregateVerify` on honest keys and hashable messages: it returns, the accumulator
    is the left-nested product of the Miller values of good pairing calls on `(hᵢ, kᵢ • g1)` -/
theorem aggLoop_run (pf : PairingFacts e) {H : HashFn} {dst : Bytes} :
    ∀ {ks : List ℕ} {pks : List Bytes}, List.Forall₂ KeyOf ks pks →
    ∀ {msgs : List Bytes} {hs : List E2}, List.Forall₂ (HashPt H dst) msgs hs →
    ∀ (acc : OBls12) (tr : List (G2Pt × G1Pt)), ∃ (as : List Arg) (tr' : List (G2Pt × G1Pt)),
      (∀ a ∈ as, a.Good) ∧
      as.map (fun a => (a.q, a.p)) = (List.zip ks hs).map (fun x => (x.2, x.1 • g1)) ∧
      aggLoop H dst (List.zip pks msgs) acc tr = .ok ((as.map Arg.m).foldl (· * ·) acc, tr') := by
  intro ks pks hk
  induction hk with
  | nil =>
    intro msgs hs _ acc tr
    exact ⟨[], tr, by simp, by simp, by simp [aggLoop]⟩
  | @cons k pk ks' pks' hkp _ ih =>
    intro msgs hs hh acc tr
    cases hh with
    | nil => exact ⟨[], tr, by simp, by simp, by simp [aggLoop]⟩
    | @cons m h ms hs' hm hrest =>
      obtain ⟨P, hP, rp⟩ := hkp.canon
      have hkv : keyValidate pk = true := (keyValidate_iff_canon pk).mpr ⟨P, hP⟩
      have hh0 := hm.torsion pf
      obtain ⟨mp, hmp, rh⟩ := hm
      obtain ⟨mv, hmv⟩ := pairing_ok rh rp
      obtain ⟨as, tr', hgood, hmap, hrun⟩ := ih hrest (acc * mv) (tr ++ [(mp, P)])
      refine ⟨⟨mp, P, h, k • g1, mv⟩ :: as, tr', ?_, ?_, ?_⟩
      · intro a ha
        rcases List.mem_cons.mp ha with rfl | ha
        · exact ⟨rh, rp, hh0, nsmul_torsion g1_torsion k, hmv⟩
        · exact hgood a ha
      · simp only [List.map_cons, List.zip_cons_cons, hmap]
      · simp only [List.zip_cons_cons, aggLoop, hkv, Bool.not_true, Bool.false_eq_true, ↓reduceIte,
          hP.2.1, hmp, hmv, bind, Except.bind, List.map_cons, List.foldl_cons]
        exact hrun

/-- if the loop of `_CoreAggregateVerify` returned, every message was hashed successfully -/
theorem hashPts_of_allArgs (pf : PairingFacts e) {H : HashFn} {dst : Bytes} :
    ∀ (msgs pks : List Bytes) (ext : List (G2Pt × G1Pt)), pks.length = msgs.length →
      AllArgs H dst (List.zip pks msgs) ext → ∃ hs, List.Forall₂ (HashPt H dst) msgs hs := by
  intro msgs
  induction msgs with
  | nil => intro _ _ _ _; exact ⟨[], .nil⟩
  | cons m ms ih =>
    intro pks ext hl hall
    cases pks with
    | nil => simp at hl
    | cons pk pks' =>
      rw [List.zip_cons_cons] at hall
      cases hall with
      | cons h0 hrest =>
        obtain ⟨hs, hhs⟩ := ih pks' _ (by simpa using hl) hrest
        obtain ⟨h, hh⟩ := hashPt_of_ok pf h0.2.2
        exact ⟨h :: hs, .cons hh hhs⟩

theorem pairing_Z2_G1 : pairingOptBls Z2 blsG1 false = .ok (1 : OBls12) := by
  have h1 : OptBls.is_on_curve Z2 (⟨optimized_bls12_381_b2⟩ : OBls2) = true := by decide
  have h2 := blsG1_on_curve.1
  unfold pairingOptBls
  simp only [bind, Except.bind, pure, Except.pure, throw, throwThe, MonadExceptOf.throw, h1, h2]
  simp [Z2]

/-- the distinguished pairing call `pairing(∞, G1) = 1` that starts the accumulator -/
theorem arg0_good : (⟨Z2, blsG1, 0, g1, 1⟩ : Arg).Good :=
  ⟨Z2_rep, g1_rep, smul_zero _, g1_torsion, pairing_Z2_G1⟩

theorem sum_torsion (pf : PairingFacts e) {H : HashFn} {dst : Bytes} {msgs : List Bytes} {hs : List E2}
    (hh : List.Forall₂ (HashPt H dst) msgs hs) (ks : List ℕ) :
    ∀ x ∈ List.zip ks hs, blsR • x.2 = 0 := by
  intro x hx
  have hx2 : x.2 ∈ hs := (List.of_mem_zip hx).2
  obtain ⟨i, hi, hie⟩ := List.getElem_of_mem hx2
  have hi' : i < msgs.length := by rw [hh.length_eq]; exact hi
  have := (List.forall₂_iff_get.mp hh).2 i hi' hi
  simp only [List.get_eq_getElem] at this
  rw [hie] at this
  exact this.torsion pf

/-- the pairing equation of `_CoreAggregateVerify` on good arguments, read semantically -/
theorem agg_equation (pf : PairingFacts e) {as : List Arg} (hgood : ∀ a ∈ as, a.Good)
    {l : List (ℕ × E2)} (hmap : as.map (fun a => (a.q, a.p)) = l.map (fun x => (x.2, x.1 • g1)))
    (hl : ∀ x ∈ l, blsR • x.2 = 0) {S : G2Pt} {q : E2} (rq : RepG2 S q) (hq : blsR • q = 0)
    {eS : OBls12} (heS : pairingOptBls S (OptBls.neg blsG1) false = .ok eS) :
    finalExponentiateOptBls ((as.map Arg.m).foldl (· * ·) (1 : OBls12) * eS) = (1 : OBls12) ↔
      q = (l.map fun x => x.1 • x.2).sum := by
  have hm := pf.miller ((⟨Z2, blsG1, 0, g1, 1⟩ : Arg) :: (as ++ [⟨S, OptBls.neg blsG1, q, -g1, eS⟩]))
    (by simp) (by
      intro a ha
      rcases List.mem_cons.mp ha with rfl | ha
      · exact arg0_good
      · rcases List.mem_append.mp ha with ha | ha
        · exact hgood a ha
        · rw [List.mem_singleton] at ha
          subst ha
          exact ⟨rq, opt_neg_refines_F1 g1_rep, hq, by rw [smul_neg, g1_torsion, neg_zero], heS⟩)
  have e1 : mprod (((⟨Z2, blsG1, 0, g1, 1⟩ : Arg) ::
      (as ++ [⟨S, OptBls.neg blsG1, q, -g1, eS⟩])).map Arg.m)
      = (as.map Arg.m).foldl (· * ·) (1 : OBls12) * eS := by
    simp [mprod, List.foldl_append]
  have e2 : (((⟨Z2, blsG1, 0, g1, 1⟩ : Arg) ::
      (as ++ [⟨S, OptBls.neg blsG1, q, -g1, eS⟩])).map fun a => e a.q a.p).prod
      = (l.map fun x => e x.2 (x.1 • g1)).prod * e q (-g1) := by
    have : as.map (fun a => e a.q a.p) = l.map (fun x => e x.2 (x.1 • g1)) := by
      have := congrArg (List.map fun y : E2 × E1 => e y.1 y.2) hmap
      simpa [List.map_map, Function.comp_def] using this
    simp only [List.map_cons, List.map_append, List.map_nil, List.prod_cons, List.prod_append,
      List.prod_nil, mul_one, this, pf.isPairing.zero_left g1_torsion, one_mul]
  rw [e1, e2] at hm
  rw [hm]
  exact BlsAbs.core_aggregate_iff pf.isPairing g1_torsion l hl hq

/-- **`_CoreAggregateVerify` accepts exactly the encoding of `Σ kᵢ • H(mᵢ)`**, semantic form: for honest
    keys `pkᵢ = SkToPk(kᵢ)`, it returns `True` iff there is at least one key, as many messages as keys,
    every message hashes, and `sig` is the encoding of the point `Σ kᵢ • hᵢ`. -/
theorem coreAggregateVerify_iff_enc (pf : PairingFacts e) (H : HashFn) (s : Suite) {ks : List ℕ}
    {pks : List Bytes} (hk : List.Forall₂ KeyOf ks pks) (msgs : List Bytes) (sig dst : Bytes) :
    coreAggregateVerify H s pks msgs sig dst = .returned true ↔
      1 ≤ pks.length ∧ pks.length = msgs.length ∧
        ∃ hs, List.Forall₂ (HashPt H dst) msgs hs ∧
          EncG2 sig ((List.zip ks hs).map fun x => x.1 • x.2).sum := by
  constructor
  · intro h
    obtain ⟨tr, hb⟩ := coreAggregateVerify_true h
    obtain ⟨_, hlen, hsl, hne, S, hS, hcase⟩ := coreAggregateVerifyBody_ok hb
    rcases hcase with ⟨_, hf, _⟩ | ⟨hsub, ext, agg, eS, hrun, hall, heS, hdec, _⟩
    · cases hf
    obtain ⟨hs, hhs⟩ := hashPts_of_allArgs pf msgs pks ext hlen hall
    refine ⟨hne, hlen, hs, hhs, ?_⟩
    obtain ⟨as, tr', hgood, hmap, hrun'⟩ := aggLoop_run pf hk hhs (1 : OBls12) []
    rw [hrun] at hrun'
    have hagg : agg = (as.map Arg.m).foldl (· * ·) (1 : OBls12) := (Prod.mk.inj (Except.ok.inj hrun')).1
    obtain ⟨q, rq, encq, hq0⟩ := canonSig_enc (sig := sig) ⟨hsl, hS, hsub⟩
    have hfe : finalExponentiateOptBls (agg * eS) = (1 : OBls12) := by simpa using hdec.symm
    rw [hagg] at hfe
    rw [← (agg_equation pf hgood hmap (sum_torsion pf hhs ks) rq hq0 heS).mp hfe]
    exact encq
  · rintro ⟨hne, hlen, hs, hhs, enc⟩
    have htor := sum_torsion pf hhs ks
    have hsum : blsR • ((List.zip ks hs).map fun x => x.1 • x.2).sum = 0 := by
      rw [List.smul_sum]
      apply List.sum_eq_zero
      intro y hy
      obtain ⟨z, hz, rfl⟩ := List.mem_map.mp hy
      obtain ⟨x, hx, rfl⟩ := List.mem_map.mp hz
      rw [smul_comm, htor x hx, smul_zero]
    obtain ⟨S, hS, rq⟩ := canonSig_of_enc enc hsum
    obtain ⟨as, tr', hgood, hmap, hrun⟩ := aggLoop_run pf hk hhs (1 : OBls12) []
    obtain ⟨eS, heS⟩ := pairing_ok rq (opt_neg_refines_F1 g1_rep)
    have hfe := (agg_equation pf hgood hmap htor rq hsum heS).mpr rfl
    have hvalid : pks.all (isValidPubkey s) = true := by
      rw [List.all_eq_true]
      intro pk hpk
      obtain ⟨i, hi, rfl⟩ := List.getElem_of_mem hpk
      have hi' : i < ks.length := by rw [hk.length_eq]; exact hi
      have := (List.forall₂_iff_get.mp hk).2 i hi' hi
      obtain ⟨P, hP, _⟩ := this.canon
      exact isValidPubkey_of_canon hP
    have hm : msgs ≠ [] := by
      intro h0; rw [h0, List.length_nil] at hlen; omega
    unfold coreAggregateVerify coreAggregateVerifyBody
    simp [bind, Except.bind, pure, Except.pure, hvalid, hlen, hS.1, hm, hS.2.1, hS.2.2, hrun, heS, hfe,
      catching, Except.map]

end AggVerify

/-! ## the aggregate of the honest signatures -/

section AggSign
variable [DecidableEq K2] {GT : Type} [CommGroup GT] {e : E2 → E1 → GT}

/-- `_CoreSign` on a valid key returns `sg` iff `hash_to_G2` returned a representative of some `h` and `sg`
    is the encoding of `k • h` -/
theorem coreSign_iff_hashPt (pf : PairingFacts e) {H : HashFn} {sk : PyArg} {k : ℕ}
    (hv : isValidPrivkey sk = some k) (msg dst sg : Bytes) :
    coreSign H sk msg dst = .ok sg ↔ ∃ h, HashPt H dst msg h ∧ EncG2 sg (k • h) := by
  cases hmp : hashToG2 H msg dst with
  | error err =>
    rw [coreSign_hash_error hv hmp]
    constructor
    · intro h; cases h
    · rintro ⟨h, ⟨mp, hmp', _⟩, _⟩; rw [hmp] at hmp'; cases hmp'
  | ok mp =>
    obtain ⟨h, rh, _⟩ := pf.hash_rep hmp
    rw [coreSign_enc hv hmp rh]
    constructor
    · intro henc; exact ⟨h, ⟨mp, hmp, rh⟩, henc⟩
    · rintro ⟨h', ⟨mp', hmp', rh'⟩, henc⟩
      rw [hmp] at hmp'; cases hmp'
      rwa [rh.unique rh']

/-- list form of `coreSign_iff_hashPt` -/
theorem coreSigns_iff (pf : PairingFacts e) {H : HashFn} {dst : Bytes} :
    ∀ {sks : List PyArg} {ks : List ℕ}, List.Forall₂ (fun sk k => isValidPrivkey sk = some k) sks ks →
    ∀ (msgs : List Bytes) (sigs : List Bytes),
      List.Forall₂ (fun (x : PyArg × Bytes) sg => coreSign H x.1 x.2 dst = .ok sg) (sks.zip msgs) sigs ↔
      ∃ hs, List.Forall₂ (HashPt H dst) (msgs.take sks.length) hs ∧
        List.Forall₂ (fun (x : ℕ × E2) sg => EncG2 sg (x.1 • x.2)) (ks.zip hs) sigs := by
  intro sks ks hv
  induction hv with
  | nil =>
    intro msgs sigs
    simp only [List.zip_nil_left, List.length_nil, List.take_zero]
    constructor
    · intro h; cases h; exact ⟨[], .nil, .nil⟩
    · rintro ⟨hs, h1, h2⟩
      cases h1
      cases h2
      exact .nil
  | @cons sk k sks' ks' hsk _ ih =>
    intro msgs sigs
    cases msgs with
    | nil =>
      simp only [List.zip_nil_right, List.take_nil]
      constructor
      · intro h; cases h; exact ⟨[], .nil, by simp⟩
      · rintro ⟨hs, h1, h2⟩
        cases h1
        simp only [List.zip_nil_right] at h2
        cases h2
        exact .nil
    | cons m ms =>
      simp only [List.zip_cons_cons, List.length_cons, List.take_succ_cons]
      constructor
      · intro h
        cases h with
        | @cons _ sg _ sigs' h0 hrest =>
          obtain ⟨hs, h1, h2⟩ := (ih ms sigs').mp hrest
          obtain ⟨h, hh, henc⟩ := (coreSign_iff_hashPt pf hsk m dst sg).mp h0
          exact ⟨h :: hs, .cons hh h1, by rw [List.zip_cons_cons]; exact .cons henc h2⟩
      · rintro ⟨hs, h1, h2⟩
        cases h1 with
        | @cons _ h _ hs' hh h1' =>
          rw [List.zip_cons_cons] at h2
          cases h2 with
          | @cons _ sg _ sigs' henc h2' =>
            exact .cons ((coreSign_iff_hashPt pf hsk m dst sg).mpr ⟨h, hh, henc⟩)
              ((ih ms sigs').mpr ⟨hs', h1', h2'⟩)

/-- byte strings that are the encodings of the points `kᵢ • hᵢ` aggregate to the encoding of the sum -/
theorem aggregate_of_encs {l : List (ℕ × E2)} {sigs : List Bytes}
    (h : List.Forall₂ (fun (x : ℕ × E2) sg => EncG2 sg (x.1 • x.2)) l sigs) (hne : l ≠ []) (sig : Bytes) :
    aggregate sigs = .ok sig ↔ EncG2 sig (l.map fun x => x.1 • x.2).sum := by
  have hmap : sigs.map decG2 = l.map fun x => x.1 • x.2 := by
    clear hne
    induction h with
    | nil => rfl
    | cons h0 _ ih => simp only [List.map_cons, ih, h0.decG2_eq]
  have hdec : ∀ sg ∈ sigs, sg.length = 96 ∧ ∃ S, signatureToG2 sg = .ok S := by
    intro sg hsg
    obtain ⟨i, hi, rfl⟩ := List.getElem_of_mem hsg
    have hi' : i < l.length := by rw [h.length_eq]; exact hi
    obtain ⟨hl, S, hS, _⟩ := (List.forall₂_iff_get.mp h).2 i hi' hi
    exact ⟨hl, S, hS⟩
  have hne' : sigs ≠ [] := by
    intro h0; subst h0; cases h; exact hne rfl
  rw [aggregate_ok_iff_enc, hmap]
  exact ⟨fun h => h.2.2, fun h => ⟨hne', hdec, h⟩⟩

/-- every list of points with canonical representatives has a list of encodings -/
theorem exists_encs : ∀ (l : List (ℕ × E2)), (∀ x ∈ l, ∃ T, RepG2 T x.2) →
    ∃ sigs, List.Forall₂ (fun (x : ℕ × E2) sg => EncG2 sg (x.1 • x.2)) l sigs := by
  intro l
  induction l with
  | nil => intro _; exact ⟨[], .nil⟩
  | cons x xs ih =>
    intro h
    obtain ⟨sigs, hs⟩ := ih (fun y hy => h y (List.mem_cons_of_mem _ hy))
    obtain ⟨T, rT⟩ := h x (List.mem_cons_self ..)
    obtain ⟨bs, _, enc⟩ := encG2_of_rep
      (show RepG2 (OptBls.multiply T x.1) (x.1 • x.2) from
        ⟨(canonT_ops rT.1 rT.1 x.1).2.2.2.1, opt_multiply_refines_F2 rT.1 rT.2 x.1⟩)
    exact ⟨bs :: sigs, .cons enc hs⟩

/-- **"is the encoding of `Σ kᵢ • H(mᵢ)`" = "is `Aggregate` of the honest signatures"** -/
theorem agg_sign_iff_enc (pf : PairingFacts e) {H : HashFn} {dst : Bytes} {sks : List PyArg}
    {ks : List ℕ} (hv : List.Forall₂ (fun sk k => isValidPrivkey sk = some k) sks ks)
    (msgs : List Bytes) (hl : sks.length = msgs.length) (hne : 1 ≤ sks.length) (sig : Bytes) :
    (∃ sigs, List.Forall₂ (fun (x : PyArg × Bytes) sg => coreSign H x.1 x.2 dst = .ok sg)
        (sks.zip msgs) sigs ∧ aggregate sigs = .ok sig) ↔
      ∃ hs, List.Forall₂ (HashPt H dst) msgs hs ∧
        EncG2 sig ((List.zip ks hs).map fun x => x.1 • x.2).sum := by
  have htake : msgs.take sks.length = msgs := by rw [hl, List.take_length]
  have hzne : ∀ hs : List E2, List.Forall₂ (HashPt H dst) msgs hs → List.zip ks hs ≠ [] := by
    intro hs hhs hz
    have e1 : ks.length = sks.length := hv.length_eq.symm
    have e2 : hs.length = msgs.length := hhs.length_eq.symm
    have := congrArg List.length hz
    simp only [List.length_zip, List.length_nil] at this
    omega
  constructor
  · rintro ⟨sigs, hs, hagg⟩
    obtain ⟨hs', h1, h2⟩ := (coreSigns_iff pf hv msgs sigs).mp hs
    rw [htake] at h1
    exact ⟨hs', h1, (aggregate_of_encs h2 (hzne hs' h1) sig).mp hagg⟩
  · rintro ⟨hs, h1, henc⟩
    obtain ⟨sigs, h2⟩ := exists_encs (List.zip ks hs) (by
      intro x hx
      have hx2 : x.2 ∈ hs := (List.of_mem_zip hx).2
      obtain ⟨i, hi, hie⟩ := List.getElem_of_mem hx2
      have hi' : i < msgs.length := by rw [h1.length_eq]; exact hi
      obtain ⟨mp, _, rh⟩ := (List.forall₂_iff_get.mp h1).2 i hi' hi
      simp only [List.get_eq_getElem] at rh
      rw [hie] at rh
      exact ⟨mp, rh⟩)
    refine ⟨sigs, (coreSigns_iff pf hv msgs sigs).mpr ⟨hs, by rw [htake]; exact h1, h2⟩, ?_⟩
    exact (aggregate_of_encs h2 (hzne hs h1) sig).mpr henc

end AggSign

/-! ## `_AggregatePKs` and `FastAggregateVerify` -/

section Fast
variable [DecidableEq K2] {GT : Type} [CommGroup GT] {e : E2 → E1 → GT}

theorem Z1_rep : Represents Z1 (0 : E1) := C07Opt.Bls.represents_zero (T := Z1) rfl

theorem aggregatePKs_fold_rep : ∀ {ks : List ℕ} {pks : List Bytes}, List.Forall₂ KeyOf ks pks →
    ∀ (acc : G1Pt) (a : E1), Represents acc a →
      ∃ A, pks.foldlM (fun acc pk => do
        let pt ← pubkeyToG1 pk
        pure (OptBls.add acc pt)) acc = (.ok A : Except PyErr G1Pt) ∧ Represents A (a + ks.sum • g1) := by
  intro ks pks hk
  induction hk with
  | nil => intro acc a ra; exact ⟨acc, rfl, by simpa using ra⟩
  | @cons k pk ks' pks' hkp _ ih =>
    intro acc a ra
    obtain ⟨P, hP, rp⟩ := hkp.canon
    obtain ⟨A, hA, rA⟩ := ih (OptBls.add acc P) (a + k • g1) (opt_add_refines_F1 ra rp)
    refine ⟨A, ?_, ?_⟩
    · simp only [List.foldlM_cons, hP.2.1, bind, Except.bind, pure, Except.pure]
      simp only [bind, Except.bind, pure, Except.pure] at hA
      exact hA
    · rw [List.sum_cons, add_smul, ← add_assoc]; exact rA

/-- **`_AggregatePKs` returns the encoding of `Σ pkᵢ = (Σ kᵢ) • g1`** -/
theorem aggregatePKs_enc {ks : List ℕ} {pks : List Bytes} (hk : List.Forall₂ KeyOf ks pks)
    (hne : 1 ≤ pks.length) : ∃ apk, aggregatePKs pks = .ok apk ∧ EncG1 apk (ks.sum • g1) := by
  obtain ⟨A, hA, rA⟩ := aggregatePKs_fold_rep hk Z1 0 Z1_rep
  rw [zero_add] at rA
  obtain ⟨bs, hbs, enc⟩ := encG1_of_rep rA (nsmul_torsion g1_torsion _)
  refine ⟨bs, ?_, enc⟩
  unfold aggregatePKs
  have : ¬ pks.length < 1 := by omega
  simp only [this, ↓reduceIte, bind, Except.bind, pure, Except.pure]
  simp only [bind, Except.bind, pure, Except.pure] at hA
  rw [hA]
  exact hbs

theorem mod_nsmul {G : Type*} [AddCommGroup G] {x : G} (hx : blsR • x = 0) (K : ℕ) :
    (K % blsR) • x = K • x := by
  conv_rhs => rw [← Nat.div_add_mod K blsR]
  rw [add_smul, mul_comm, mul_smul, hx, smul_zero, zero_add]

/-- **`FastAggregateVerify`, semantic form.**  For honest keys `pkᵢ = SkToPk(kᵢ)`: it returns `True` iff
    the list is non-empty, the aggregate key `Σ pkᵢ = (Σ kᵢ) • g1` is NOT the identity (the IETF-mandated
    `KeyValidate` of the aggregate key), the message hashes to a representative of some `h`, and `sig` is
    the encoding of `(Σ kᵢ) • h`. -/
theorem fastAggregateVerify_iff_enc (pf : PairingFacts e) (H : HashFn) {ks : List ℕ} {pks : List Bytes}
    (hk : List.Forall₂ KeyOf ks pks) (msg sig : Bytes) :
    fastAggregateVerify H pks msg sig = .returned true ↔
      1 ≤ pks.length ∧ ks.sum • g1 ≠ 0 ∧
        ∃ h, HashPt H (Suite.dst .pop) msg h ∧ EncG2 sig (ks.sum • h) := by
  have hall : ∀ pk ∈ pks, pk.length = 48 ∧ keyValidate pk = true := by
    intro pk hpk
    obtain ⟨i, hi, rfl⟩ := List.getElem_of_mem hpk
    have hi' : i < ks.length := by rw [hk.length_eq]; exact hi
    obtain ⟨P, hP, _⟩ := ((List.forall₂_iff_get.mp hk).2 i hi' hi).canon
    exact ⟨hP.1, (keyValidate_iff_canon _).mpr ⟨P, hP⟩⟩
  rw [C04.fastAggregateVerify_eq]
  rcases C04.fastPre_cases pks sig with ⟨hno, hp⟩ | ⟨_, hsl, hne, apk, hp, hagg, _⟩
  · rw [hp]
    constructor
    · intro h; cases h
    · rintro ⟨hne, _, h, _, henc⟩
      exact (hno ⟨hall, henc.1, hne⟩).elim
  · rw [hp]
    simp only
    obtain ⟨apk', hagg', encA⟩ := aggregatePKs_enc hk hne
    rw [hagg] at hagg'; cases hagg'
    rw [verify_eq]
    show coreVerify H .pop apk msg sig (Suite.dst .pop) = .returned true ↔ _
    by_cases hK : ks.sum • g1 = 0
    · constructor
      · intro h
        obtain ⟨P, _, _, _, _, hP, _⟩ := coreVerify_true_iff.mp h
        obtain ⟨p, _, encp, hp0, _⟩ := canonPk_enc hP
        rw [encp.point_unique encA] at hp0
        exact (hp0 hK).elim
      · rintro ⟨_, h, _⟩; exact (h hK).elim
    · have hk0 : 0 < ks.sum % blsR := by
        rcases Nat.eq_zero_or_pos (ks.sum % blsR) with h0 | h0
        · exfalso; apply hK
          rw [← mod_nsmul g1_torsion, h0, zero_smul]
        · exact h0
      have hklt : ks.sum % blsR < blsR := Nat.mod_lt _ prime_r.pos
      have encA' : EncG1 apk ((ks.sum % blsR) • g1) := by rw [mod_nsmul g1_torsion]; exact encA
      cases hmp : hashToG2 H msg (Suite.dst .pop) with
      | error err =>
        constructor
        · intro h
          obtain ⟨_, _, _, _, _, _, _, hmp', _⟩ := coreVerify_true_iff.mp h
          rw [hmp] at hmp'; cases hmp'
        · rintro ⟨_, _, h, ⟨mp, hmp', _⟩, _⟩; rw [hmp] at hmp'; cases hmp'
      | ok mp =>
        obtain ⟨h, rh, hh⟩ := pf.hash_rep hmp
        rw [coreVerify_iff_enc pf hk0 hklt encA' hmp rh hh, mod_nsmul hh]
        constructor
        · intro henc; exact ⟨hne, hK, h, ⟨mp, hmp, rh⟩, henc⟩
        · rintro ⟨_, _, h', ⟨mp', hmp', rh'⟩, henc⟩
          rw [hmp] at hmp'; cases hmp'
          rwa [rh.unique rh']

end Fast

/-! ## honest key lists, suite-augmented message lists -/

section Wrappers
variable [DecidableEq K2] {GT : Type} [CommGroup GT] {e : E2 → E1 → GT}

theorem HashPt.unique {H : HashFn} {dst msg : Bytes} {h h' : E2} (a : HashPt H dst msg h)
    (b : HashPt H dst msg h') : h = h' := by
  obtain ⟨mp, hmp, rh⟩ := a
  obtain ⟨mp', hmp', rh'⟩ := b
  rw [hmp] at hmp'; cases hmp'
  exact rh.unique rh'

/-- two accepted encodings are equal iff the encoded points are -/
theorem encG2_eq_iff {bs bs' : Bytes} {q q' : E2} (h : EncG2 bs q) (h' : EncG2 bs' q') :
    bs = bs' ↔ q = q' :=
  ⟨fun hb => by subst hb; exact h.point_unique h', fun hq => by subst hq; exact h.bytes_unique h'⟩

/-- the keys of a list of valid `int` secret keys -/
theorem keyOf_list {sks : List ℤ} (hsks : ∀ sk ∈ sks, 1 ≤ sk ∧ sk < (curveOrder : ℤ)) {pks : List Bytes}
    (hpks : List.Forall₂ (fun sk pk => skToPk (.int sk) = .ok pk) sks pks) :
    List.Forall₂ KeyOf (sks.map Int.toNat) pks := by
  induction hpks with
  | nil => exact .nil
  | @cons sk pk sks' pks' h0 _ ih =>
    rw [List.map_cons]
    exact .cons (keyOf_of_skToPk (validPrivkey_int (hsks sk (List.mem_cons_self ..))) h0)
      (ih (fun x hx => hsks x (List.mem_cons_of_mem _ hx)))

theorem valid_list {sks : List ℤ} (hsks : ∀ sk ∈ sks, 1 ≤ sk ∧ sk < (curveOrder : ℤ)) :
    List.Forall₂ (fun sk k => isValidPrivkey sk = some k) (sks.map PyArg.int) (sks.map Int.toNat) := by
  induction sks with
  | nil => exact .nil
  | cons sk sks' ih =>
    exact .cons (validPrivkey_int (hsks sk (List.mem_cons_self ..)))
      (ih (fun x hx => hsks x (List.mem_cons_of_mem _ hx)))

/-- the message list `_CoreAggregateVerify` is called with (the AUG suite prepends each key) -/
def vmsgs (s : Suite) (pks msgs : List Bytes) : List Bytes :=
  match s with
  | .aug => List.zipWith (· ++ ·) pks msgs
  | _ => msgs

theorem vmsgs_cons (s : Suite) (pk : Bytes) (pks : List Bytes) (m : Bytes) (ms : List Bytes) :
    vmsgs s (pk :: pks) (m :: ms) = vmsg s pk m :: vmsgs s pks ms := by
  cases s <;> rfl

theorem vmsgs_length (s : Suite) {pks msgs : List Bytes} (h : pks.length = msgs.length) :
    (vmsgs s pks msgs).length = msgs.length := by
  cases s <;> simp [vmsgs, h]

/-- `Sign` of each `(skᵢ, mᵢ)` is `_CoreSign` of `skᵢ` on the suite-augmented message -/
theorem signs_iff_coreSigns (H : HashFn) (s : Suite) {sks : List ℤ} {pks : List Bytes}
    (hpks : List.Forall₂ (fun sk pk => skToPk (.int sk) = .ok pk) sks pks) :
    ∀ (msgs sigs : List Bytes),
      List.Forall₂ (fun (x : ℤ × Bytes) sg => sign H s (.int x.1) x.2 = .ok sg) (sks.zip msgs) sigs ↔
      List.Forall₂ (fun (x : PyArg × Bytes) sg => coreSign H x.1 x.2 s.dst = .ok sg)
        ((sks.map PyArg.int).zip (vmsgs s pks msgs)) sigs := by
  induction hpks with
  | nil => intro msgs sigs; simp
  | @cons sk pk sks' pks' h0 _ ih =>
    intro msgs sigs
    cases msgs with
    | nil =>
      have : vmsgs s (pk :: pks') [] = [] := by cases s <;> rfl
      simp [this]
    | cons m ms =>
      rw [vmsgs_cons, List.map_cons, List.zip_cons_cons, List.zip_cons_cons]
      constructor
      · intro h
        cases h with
        | cons a b =>
          refine .cons ?_ ((ih ms _).mp b)
          rw [← sign_eq_coreSign H s h0]; exact a
      · intro h
        cases h with
        | cons a b =>
          refine .cons ?_ ((ih ms _).mpr b)
          rw [sign_eq_coreSign H s h0]; exact a

theorem sum_nsmul_const {G : Type*} [AddCommGroup G] (ks : List ℕ) (h : G) :
    (ks.map fun k => k • h).sum = ks.sum • h := by
  induction ks with
  | nil => simp
  | cons k ks ih => rw [List.map_cons, List.sum_cons, List.sum_cons, add_smul, ih]

/-- one shared message: "is the encoding of `(Σ kᵢ) • H(m)`" = "is `Aggregate` of the honest signatures" -/
theorem fast_sign_iff_enc (pf : PairingFacts e) {H : HashFn} {dst : Bytes} {sks : List PyArg}
    {ks : List ℕ} (hv : List.Forall₂ (fun sk k => isValidPrivkey sk = some k) sks ks)
    (hne : sks ≠ []) (msg sig : Bytes) :
    (∃ sigs, List.Forall₂ (fun sk sg => coreSign H sk msg dst = .ok sg) sks sigs ∧
        aggregate sigs = .ok sig) ↔
      ∃ h, HashPt H dst msg h ∧ EncG2 sig (ks.sum • h) := by
  have hkne : ks ≠ [] := by
    intro h0; subst h0; cases hv; exact hne rfl
  have key : ∀ (h : E2) (sigs : List Bytes), HashPt H dst msg h →
      (List.Forall₂ (fun sk sg => coreSign H sk msg dst = .ok sg) sks sigs ↔
        List.Forall₂ (fun (x : ℕ × E2) sg => EncG2 sg (x.1 • x.2)) (ks.map fun k => (k, h)) sigs) := by
    intro h sigs hh
    clear hne hkne
    induction hv generalizing sigs with
    | nil => constructor <;> (intro hx; cases hx; exact .nil)
    | @cons sk k sks' ks' hsk _ ih =>
      rw [List.map_cons]
      constructor
      · intro hx
        cases hx with
        | cons a b =>
          obtain ⟨h', hh', henc⟩ := (coreSign_iff_hashPt pf hsk msg dst _).mp a
          rw [hh'.unique hh] at henc
          exact .cons henc ((ih _).mp b)
      · intro hx
        cases hx with
        | cons a b =>
          exact .cons ((coreSign_iff_hashPt pf hsk msg dst _).mpr ⟨h, hh, a⟩) ((ih _).mpr b)
  have hsum : ∀ h : E2, ((ks.map fun k => (k, h)).map fun x => x.1 • x.2).sum = ks.sum • h := by
    intro h; rw [List.map_map]; exact sum_nsmul_const ks h
  have hlne : ∀ h : E2, (ks.map fun k => (k, h)) ≠ [] := by
    intro h h0; exact hkne (List.map_eq_nil_iff.mp h0)
  constructor
  · rintro ⟨sigs, hs, hagg⟩
    obtain ⟨sk0, sks', rfl⟩ := List.exists_cons_of_ne_nil hne
    cases hs with
    | @cons _ sg0 _ sigs' a b =>
      cases hv with
      | @cons _ k0 _ ks' hsk0 hv' =>
        obtain ⟨h, hh, _⟩ := (coreSign_iff_hashPt pf hsk0 msg dst sg0).mp a
        refine ⟨h, hh, ?_⟩
        have := (key h (sg0 :: sigs') hh).mp (.cons a b)
        rw [← hsum h]
        exact (aggregate_of_encs this (hlne h) sig).mp hagg
  · rintro ⟨h, hh, henc⟩
    obtain ⟨mp, _, rh⟩ := hh
    obtain ⟨sigs, hs⟩ := exists_encs (ks.map fun k => (k, h)) (by
      intro x hx
      obtain ⟨k, _, rfl⟩ := List.mem_map.mp hx
      exact ⟨mp, rh⟩)
    refine ⟨sigs, (key h sigs ⟨mp, ‹_›, rh⟩).mpr hs, ?_⟩
    rw [← hsum h] at henc
    exact (aggregate_of_encs hs (hlne h) sig).mpr henc

theorem zip_fst_snd {α β : Type} (l : List (α × β)) : (l.map (·.1)).zip (l.map (·.2)) = l := by
  induction l with
  | nil => rfl
  | cons x xs ih => simp [ih]

/-- the aggregate public-key point `Σ pkᵢ` is `(Σ skᵢ) • g1` -/
theorem pk_sum (ks : List ℕ) : (ks.map fun k => k • g1).sum = ks.sum • g1 := sum_nsmul_const ks g1

end Wrappers

end PyEcc.BlsProto
