/-
  PyEcc.Lemmas.MillerBnTail — the part of the two bn128 `miller_loop`s after the main loop: the two
  Frobenius line steps (`Q1 = π(Q)`, `nQ2 = −π²(Q)`), the division `f_num·n1·n2 / (f_den·d1·d2)` of the
  optimized module, and the final power.  Both modules perform the same affine computation in `K12bn`
  (optimized: projective representatives, numerator/denominator pairs); so if the accumulated Miller
  values agree after the power `E` and the running points represent the same point, the results are
  equal in `K12bn`.  Needs: the running point `R` finite with `y ≠ 0`, `Q` finite with `y ≠ 0`, and
  `R + π(Q)` finite (`fin`).
-/
import PyEcc.Lemmas.MillerBnOpt

set_option linter.unusedSectionVars false
set_option linter.unusedVariables false
set_option maxRecDepth 100000

namespace PyEcc.MillerBnSem
open Polynomial PyEcc PyEcc.Gen PyEcc.Gen.Consts PyEcc.Fqp PyEcc.FqpSem PyEcc.Transfer PyEcc.TwistSem
  PyEcc.C13 PyEcc.C13.Bn

/-! ### the reference tail as a top-level function -/

section reftail
variable {p : Nat} {mc12 : List Int}
local notation "F12" => Fqp Variant.ref p mc12

/-- the Frobenius steps and the final power of the reference `miller_loop` -/
def refTail (ops : RefOps p mc12) (E : Nat) (qx qy : F12) (P : Option (F12 × F12))
    (s : F12 × Option (F12 × F12)) : Except PyErr F12 :=
  ops.linefunc s.2 (some (qx ^ p, qy ^ p)) P >>= fun l1 =>
  ops.add s.2 (some (qx ^ p, qy ^ p)) >>= fun R =>
  ops.linefunc R (some ((qx ^ p) ^ p, -((qy ^ p) ^ p))) P >>= fun l2 =>
  pure ((s.1 * l1 * l2) ^ E)

theorem refMillerLoop_frob (ops : RefOps p mc12) (ate logAte E : Nat) (qx qy : F12) (pp : F12 × F12) :
    refMillerLoop ops ate logAte true E (some (qx, qy)) (some pp) =
      ((downTo logAte).foldlM (refMillerStep ops ate (some (qx, qy)) (some pp)) ((1 : F12), some (qx, qy))
        >>= refTail ops E qx qy (some pp)) := rfl

theorem refMillerLoop_none_left' (ops : RefOps p mc12) (ate logAte E : Nat) (fr : Bool)
    (P : Option (F12 × F12)) : refMillerLoop ops ate logAte fr E none P = .ok 1 := rfl

theorem refMillerLoop_none_right' (ops : RefOps p mc12) (ate logAte E : Nat) (fr : Bool)
    (Q : Option (F12 × F12)) : refMillerLoop ops ate logAte fr E Q none = .ok 1 := by
  cases Q <;> rfl

end reftail

variable [DecidableEq K12bn]

/-! ### affine-level agreement of `linefunc` and `add` -/

/-- For reduced operands with finite values and non-zero denominator: the reference `linefunc` on
    reference points represented by the operands returns normally a reduced `l` with `l = n/d`. -/
theorem aff_line {T1 T2 cP : OT12} {R1 R2 Pr : RA12} (c1 : CanonT T1) (c2 : CanonT T2)
    (cP' : CanonT cP) (g1 : GoodO Canon R1) (g2 : GoodO Canon R2) (gP : GoodO Canon Pr)
    (a1 : toAff (mapT toQ T1) = mapO (toQ : RBn12 → K12bn) R1)
    (a2 : toAff (mapT toQ T2) = mapO (toQ : RBn12 → K12bn) R2)
    (aP : toAff (mapT toQ cP) = mapO (toQ : RBn12 → K12bn) Pr)
    (hz1 : (toQ T1.2.2 : K12bn) ≠ 0) (hz2 : (toQ T2.2.2 : K12bn) ≠ 0) (hzt : (toQ cP.2.2 : K12bn) ≠ 0)
    (hd : (toQ (OptBn.linefunc T1 T2 cP).2 : K12bn) ≠ 0) :
    ∃ l, RefBn.linefunc R1 R2 Pr = .ok l ∧ Canon l
      ∧ Canon (OptBn.linefunc T1 T2 cP).1 ∧ Canon (OptBn.linefunc T1 T2 cP).2
      ∧ (toQ l : K12bn) = toQ (OptBn.linefunc T1 T2 cP).1 / toQ (OptBn.linefunc T1 T2 cP).2 := by
  obtain ⟨⟨cn, cd⟩, e⟩ := Transfer.Bn.good_linefunc (B := K12bn) (goodHom_F12bn (v := .opt)) c1 c2 cP'
  have e1 : (OptBn.linefunc (mapT toQ T1) (mapT toQ T2) (mapT toQ cP)).1
      = (toQ (OptBn.linefunc T1 T2 cP).1 : K12bn) := by rw [← e, mapP_fst'']
  have e2 : (OptBn.linefunc (mapT toQ T1) (mapT toQ T2) (mapT toQ cP)).2
      = (toQ (OptBn.linefunc T1 T2 cP).2 : K12bn) := by rw [← e, mapP_snd'']
  have hden : (OptBn.linefunc (mapT toQ T1) (mapT toQ T2) (mapT toQ cP)).2 ≠ 0 := by rw [e2]; exact hd
  have hl := opt_linefunc_toAff (mapT toQ T1) (mapT toQ T2) (mapT toQ cP) hz1 hz2 hzt hden
  rw [a1, a2, aP, e1, e2] at hl
  obtain ⟨gl, el⟩ := ref_good_linefunc (goodHom_F12bn (v := .ref)) g1 g2 gP
  rw [hl] at el
  rcases hr : RefBn.linefunc R1 R2 Pr with err | l
  · rw [hr] at el; cases el
  · rw [hr] at el
    exact ⟨l, rfl, gl l hr, cn, cd, Except.ok.inj el⟩

/-- the denominator of the optimized `linefunc` is non-zero when the first operand has `y ≠ 0` -/
theorem den_ne_zero {T1 T2 cP : OT12} (c1 : CanonT T1) (c2 : CanonT T2) (cP' : CanonT cP)
    (hz1 : (toQ T1.2.2 : K12bn) ≠ 0) (hz2 : (toQ T2.2.2 : K12bn) ≠ 0) (hzt : (toQ cP.2.2 : K12bn) ≠ 0)
    (hy : toAff (mapT (toQ : OBn12 → K12bn) T1) = toAff (mapT toQ T2) → (toQ T1.2.1 : K12bn) ≠ 0) :
    (toQ (OptBn.linefunc T1 T2 cP).2 : K12bn) ≠ 0 := by
  obtain ⟨_, e⟩ := Transfer.Bn.good_linefunc (B := K12bn) (goodHom_F12bn (v := .opt)) c1 c2 cP'
  have e2 : (OptBn.linefunc (mapT toQ T1) (mapT toQ T2) (mapT toQ cP)).2
      = (toQ (OptBn.linefunc T1 T2 cP).2 : K12bn) := by rw [← e, mapP_snd'']
  rw [← e2, ne_eq, opt_linefunc_den_eq_zero_iff k12bn_two _ _ _ hz1 hz2 hzt]
  exact fun h => hy h.1 h.2

/-- optimized `add` and reference `add` agree through the affine reading -/
theorem aff_add {T1 T2 : OT12} {R1 R2 : RA12} (c1 : CanonT T1) (c2 : CanonT T2)
    (g1 : GoodO Canon R1) (g2 : GoodO Canon R2)
    (a1 : toAff (mapT toQ T1) = mapO (toQ : RBn12 → K12bn) R1)
    (a2 : toAff (mapT toQ T2) = mapO (toQ : RBn12 → K12bn) R2) :
    ∃ R', RefBn.add R1 R2 = .ok R' ∧ GoodO Canon R' ∧ CanonT (OptBn.add T1 T2)
      ∧ toAff (mapT toQ (OptBn.add T1 T2)) = mapO (toQ : RBn12 → K12bn) R' := by
  obtain ⟨cA, eA⟩ := Transfer.Bn.good_add (B := K12bn) (goodHom_F12bn (v := .opt)) c1 c2
  obtain ⟨gE, eE⟩ := BnRef.good_add (B := K12bn) (goodHom_F12bn (v := .ref)) g1 g2
  rw [← a1, ← a2, opt_add_toAff k12bn_two, ← eA] at eE
  rcases hr : RefBn.add R1 R2 with err | R'
  · rw [hr] at eE; cases eE
  · rw [hr] at eE gE
    exact ⟨R', rfl, gE, cA, (Except.ok.inj eE).symm⟩

/-! ### Frobenius images of representatives -/

/-- the coordinate-wise `p`-th power of a representative represents the coordinate-wise `p`-th power -/
theorem frob_repr {X : OT12} {a b : RBn12} (cX : CanonT X) (ca : Canon a) (cb : Canon b)
    (hz : (toQ X.2.2 : K12bn) ≠ 0)
    (h : toAff (mapT (toQ : OBn12 → K12bn) X) = some ((toQ a : K12bn), (toQ b : K12bn))) :
    CanonT (X.1 ^ bnP, X.2.1 ^ bnP, X.2.2 ^ bnP) ∧ Canon (a ^ bnP) ∧ Canon (b ^ bnP)
      ∧ (toQ (X.2.2 ^ bnP) : K12bn) ≠ 0
      ∧ toAff (mapT (toQ : OBn12 → K12bn) (X.1 ^ bnP, X.2.1 ^ bnP, X.2.2 ^ bnP))
          = some ((toQ (a ^ bnP) : K12bn), (toQ (b ^ bnP) : K12bn)) := by
  have hO := goodHom_F12bn (v := .opt)
  have hR := goodHom_F12bn (v := .ref)
  obtain ⟨x, y, z⟩ := X
  obtain ⟨cx, cy, cz⟩ := cX
  simp only at cx cy cz hz
  have hz' : (mapT (toQ : OBn12 → K12bn) (x, y, z)).2.2 ≠ 0 := hz
  rw [toAff_of_z_ne_zero hz'] at h
  simp only [mapT_mk, Option.some.injEq, Prod.mk.injEq] at h
  have hzp : (toQ (z ^ bnP) : K12bn) ≠ 0 := by rw [hO.map_pow bnP cz]; exact pow_ne_zero _ hz
  refine ⟨⟨hO.good_pow bnP cx, hO.good_pow bnP cy, hO.good_pow bnP cz⟩, hR.good_pow bnP ca,
    hR.good_pow bnP cb, hzp, ?_⟩
  have hzp' : (mapT (toQ : OBn12 → K12bn) (x ^ bnP, y ^ bnP, z ^ bnP)).2.2 ≠ 0 := hzp
  rw [toAff_of_z_ne_zero hzp']
  simp only [mapT_mk]
  rw [hO.map_pow bnP cx, hO.map_pow bnP cy, hO.map_pow bnP cz, hR.map_pow bnP ca, hR.map_pow bnP cb,
    ← div_pow, ← div_pow, h.1, h.2]

/-- negating the `y`-coordinate of a representative -/
theorem negy_repr {X : OT12} {a b : RBn12} (cX : CanonT X) (cb : Canon b)
    (hz : (toQ X.2.2 : K12bn) ≠ 0)
    (h : toAff (mapT (toQ : OBn12 → K12bn) X) = some ((toQ a : K12bn), (toQ b : K12bn))) :
    CanonT (X.1, -X.2.1, X.2.2) ∧ Canon (-b)
      ∧ toAff (mapT (toQ : OBn12 → K12bn) (X.1, -X.2.1, X.2.2))
          = some ((toQ a : K12bn), (toQ (-b) : K12bn)) := by
  have hO := goodHom_F12bn (v := .opt)
  have hR := goodHom_F12bn (v := .ref)
  obtain ⟨x, y, z⟩ := X
  obtain ⟨cx, cy, cz⟩ := cX
  simp only at cx cy cz hz
  have hz' : (mapT (toQ : OBn12 → K12bn) (x, y, z)).2.2 ≠ 0 := hz
  rw [toAff_of_z_ne_zero hz'] at h
  simp only [mapT_mk, Option.some.injEq, Prod.mk.injEq] at h
  refine ⟨⟨cx, hO.good_neg cy, cz⟩, hR.good_neg cb, ?_⟩
  have hz'' : (mapT (toQ : OBn12 → K12bn) (x, -y, z)).2.2 ≠ 0 := hz
  rw [toAff_of_z_ne_zero hz'']
  simp only [mapT_mk]
  rw [hO.map_neg cy, hR.map_neg cb, ← h.1, ← h.2]
  congr 2
  ring

/-! ### the two tails agree -/

section opttail
variable {p : Nat} {mc12 : List Int}
local notation "F12" => Fqp Variant.opt p mc12

theorem optBnTail_some (E : Nat) (Q P : F12 × F12 × F12) (fN fD : F12) (R : F12 × F12 × F12) :
    optBnTail (some E) Q P ((fN, fD), R) =
      (fN * (Gen.OptBn.linefunc R (Q.1 ^ p, Q.2.1 ^ p, Q.2.2 ^ p) P).1
          * (Gen.OptBn.linefunc (Gen.OptBn.add R (Q.1 ^ p, Q.2.1 ^ p, Q.2.2 ^ p))
              ((Q.1 ^ p) ^ p, -((Q.2.1 ^ p) ^ p), (Q.2.2 ^ p) ^ p) P).1
        / (fD * (Gen.OptBn.linefunc R (Q.1 ^ p, Q.2.1 ^ p, Q.2.2 ^ p) P).2
          * (Gen.OptBn.linefunc (Gen.OptBn.add R (Q.1 ^ p, Q.2.1 ^ p, Q.2.2 ^ p))
              ((Q.1 ^ p) ^ p, -((Q.2.1 ^ p) ^ p), (Q.2.2 ^ p) ^ p) P).2)) ^ E := rfl

end opttail

/-- the coordinate-wise Frobenius of an optimized triple: `Q1` of `miller_loop` -/
def frobT (X : OT12) : OT12 := (X.1 ^ bnP, X.2.1 ^ bnP, X.2.2 ^ bnP)

/-- **The tails agree.**  States related by "same running point, Miller values equal after the power
    `E`" give the same final value in `K12bn`, provided `R` and `Q` are finite with `y ≠ 0` and
    `R + π(Q)` is finite. -/
theorem tail_agree {fN fD : OBn12} {R Qo castP : OT12} {f qx qy : RBn12} {Rr Pr : RA12}
    (cN : Canon fN) (cD : Canon fD) (cR : CanonT R) (cQ : CanonT Qo) (cP : CanonT castP)
    (cf : Canon f) (cRr : GoodO Canon Rr) (cqx : Canon qx) (cqy : Canon qy) (cPr : GoodO Canon Pr)
    (den : (toQ fD : K12bn) ≠ 0)
    (aR : toAff (mapT toQ R) = mapO (toQ : RBn12 → K12bn) Rr)
    (aQ : toAff (mapT (toQ : OBn12 → K12bn) Qo) = some ((toQ qx : K12bn), (toQ qy : K12bn)))
    (aP : toAff (mapT toQ castP) = mapO (toQ : RBn12 → K12bn) Pr)
    (zR : (toQ R.2.2 : K12bn) ≠ 0) (zQ : (toQ Qo.2.2 : K12bn) ≠ 0) (zP : (toQ castP.2.2 : K12bn) ≠ 0)
    (yR : (toQ R.2.1 : K12bn) ≠ 0) (yQ : (toQ qy : K12bn) ≠ 0)
    (fin : (toQ (OptBn.add R (frobT Qo)).2.2 : K12bn) ≠ 0)
    (E : ℕ) (hE : ((toQ fN : K12bn) / toQ fD) ^ E = (toQ f : K12bn) ^ E) :
    ∃ fr, refTail refBnOps E qx qy Pr (f, Rr) = .ok fr ∧ Canon fr
      ∧ Canon (optBnTail (some E) Qo castP ((fN, fD), R))
      ∧ (toQ (optBnTail (some E) Qo castP ((fN, fD), R)) : K12bn) = toQ fr := by
  have hO := goodHom_F12bn (v := .opt)
  have hR := goodHom_F12bn (v := .ref)
  unfold frobT at fin
  -- Q1 and nQ2
  obtain ⟨cQ1, cq1x, cq1y, zQ1, aQ1⟩ := frob_repr cQ cqx cqy zQ aQ
  obtain ⟨cQ2, cq2x, cq2y, zQ2, aQ2⟩ := frob_repr cQ1 cq1x cq1y zQ1 aQ1
  obtain ⟨cnQ2, cnq2y, anQ2⟩ := negy_repr cQ2 cq2y zQ2 aQ2
  simp only at cQ2 zQ2 aQ2 cnQ2 anQ2
  have gQ1 : GoodO Canon (some (qx ^ bnP, qy ^ bnP) : RA12) := ⟨cq1x, cq1y⟩
  have gnQ2 : GoodO Canon (some ((qx ^ bnP) ^ bnP, -((qy ^ bnP) ^ bnP)) : RA12) := ⟨cq2x, cnq2y⟩
  -- first line
  have d1 := den_ne_zero cR cQ1 cP zR zQ1 zP (fun _ => yR)
  obtain ⟨l1, hl1, cl1, cn1, cd1, v1⟩ := aff_line cR cQ1 cP cRr gQ1 cPr aR aQ1 aP zR zQ1 zP d1
  -- the addition
  obtain ⟨R', hA, gR', cA, aR'⟩ := aff_add cR cQ1 cRr gQ1 aR aQ1
  -- second line
  have yq2 : (toQ (-((qy ^ bnP) ^ bnP)) : K12bn) ≠ 0 := by
    rw [hR.map_neg cq2y, hR.map_pow bnP cq1y, hR.map_pow bnP cqy]
    exact neg_ne_zero.mpr (pow_ne_zero _ (pow_ne_zero _ yQ))
  have d2 := den_ne_zero cA cnQ2 cP fin zQ2 zP (by
    intro h
    have hz' : (mapT (toQ : OBn12 → K12bn)
        (OptBn.add R (Qo.1 ^ bnP, Qo.2.1 ^ bnP, Qo.2.2 ^ bnP))).2.2 ≠ 0 := fin
    rw [anQ2, toAff_of_z_ne_zero hz'] at h
    simp only [Option.some.injEq, Prod.mk.injEq] at h
    intro hy
    apply yq2
    rw [← h.2]
    show (toQ (OptBn.add R (Qo.1 ^ bnP, Qo.2.1 ^ bnP, Qo.2.2 ^ bnP)).2.1 : K12bn) / _ = 0
    rw [hy, zero_div])
  obtain ⟨l2, hl2, cl2, cn2, cd2, v2⟩ := aff_line cA cnQ2 cP gR' gnQ2 cPr aR' anQ2 aP fin zQ2 zP d2
  -- assemble
  refine ⟨(f * l1 * l2) ^ E, ?_, hR.good_pow E (hR.good_mul (hR.good_mul cf cl1) cl2), ?_, ?_⟩
  · unfold refTail
    show (RefBn.linefunc Rr (some (qx ^ bnP, qy ^ bnP)) Pr >>= _) = _
    rw [hl1, ok_bind']
    show (RefBn.add Rr (some (qx ^ bnP, qy ^ bnP)) >>= _) = _
    rw [hA, ok_bind']
    show (RefBn.linefunc R' (some ((qx ^ bnP) ^ bnP, -((qy ^ bnP) ^ bnP))) Pr >>= _) = _
    rw [hl2, ok_bind']
    rfl
  · rw [optBnTail_some]
    exact hO.good_pow E (hO.good_div (hO.good_mul (hO.good_mul cN cn1) cn2)
      (hO.good_mul (hO.good_mul cD cd1) cd2))
  · rw [optBnTail_some]
    have cNum := hO.good_mul (hO.good_mul cN cn1) cn2
    have cDen := hO.good_mul (hO.good_mul cD cd1) cd2
    rw [hO.map_pow E (hO.good_div cNum cDen), hO.map_div cNum cDen,
      hO.map_mul (hO.good_mul cN cn1) cn2, hO.map_mul cN cn1,
      hO.map_mul (hO.good_mul cD cd1) cd2, hO.map_mul cD cd1,
      hR.map_pow E (hR.good_mul (hR.good_mul cf cl1) cl2), hR.map_mul (hR.good_mul cf cl1) cl2,
      hR.map_mul cf cl1, v1, v2, mul_pow, mul_pow, ← hE, ← mul_pow, ← mul_pow]
    refine congrArg (fun x : K12bn => x ^ E) ?_
    field_simp

end PyEcc.MillerBnSem
