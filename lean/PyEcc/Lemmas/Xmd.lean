/-
  PyEcc.Lemmas.Xmd — helper lemmas for C15 (core Lean only): the loop invariant of
  `expand_message_xmd`, and facts about the specification `Spec.expandMessageXmd`
  (when it aborts; length of its output).
-/
import PyEcc.Lemmas.HashBytes

namespace PyEcc.C15

/-! ### the loop -/

/-- the list `[b_1, …, b_n]` of the specification -/
def specBs (H : HashFn) (b0 dp : Bytes) (n : Nat) : List Bytes :=
  (List.range n).map fun i => Spec.xmdB H b0 dp (i + 1)

theorem specBs_succ (H : HashFn) (b0 dp : Bytes) (n : Nat) :
    specBs H b0 dp (n + 1) = specBs H b0 dp n ++ [Spec.xmdB H b0 dp (n + 1)] := by
  simp [specBs, List.range_succ]

theorem specBs_getElem? (H : HashFn) (b0 dp : Bytes) (m : Nat) :
    (specBs H b0 dp (m + 1))[m]? = some (Spec.xmdB H b0 dp (m + 1)) := by
  simp [specBs]

/-- Loop invariant of `for i in range(2, ell + 1)`: entering iteration `i = m + 2` the list `b`
    is `[b_1, …, b_(m+1)]`; after `k` more iterations (none of which can raise, as `i ≤ 255`) it is
    `[b_1, …, b_(m+1+k)]`. -/
theorem xmdLoop_spec (H : HashFn) (b0 dp : Bytes) : ∀ k m, m + 2 + k ≤ 256 →
    xmdLoop H b0 dp k (m + 2) (specBs H b0 dp (m + 1)) = .ok (specBs H b0 dp (m + 1 + k)) := by
  intro k
  induction k with
  | zero => intro m _; rfl
  | succ k ih =>
    intro m hm
    unfold xmdLoop
    have h1 : i2osp (m + 2) 1 = .ok (Spec.I2OSP (m + 2) 1) := i2osp_eq_ok (by omega)
    simp only [Nat.add_sub_cancel, specBs_getElem?, Option.getD_some, h1]
    show xmdLoop H b0 dp k (m + 1 + 2)
      (specBs H b0 dp (m + 1) ++ [Spec.xmdB H b0 dp (m + 1 + 1)]) = _
    rw [← specBs_succ, ih (m + 1) (by omega)]
    congr 2
    omega

/-- The specification aborts exactly under the RFC's three conditions (by definition). -/
theorem spec_xmd_none_iff (H : HashFn) (msg dst : Bytes) (len : Nat) :
    Spec.expandMessageXmd H msg dst len = none ↔
      dst.length > 255 ∨ Spec.ceilDiv len H.digestSize > 255 ∨ len ≥ 65536 := by
  unfold Spec.expandMessageXmd
  by_cases h : Spec.ceilDiv len H.digestSize > 255 ∨ len > 65535 ∨ dst.length > 255
  · simp only [h, if_true, true_iff]; omega
  · simp only [h, if_false]
    constructor
    · intro h'; cases h'
    · intro h'; exact absurd (by omega) h

theorem xmdB_length (H : HashFn) (hw : ∀ x, (H.run x).length = H.digestSize) (b0 dp : Bytes) (i : Nat) :
    (Spec.xmdB H b0 dp (i + 1)).length = H.digestSize := by
  cases i with
  | zero => exact hw _
  | succ i => exact hw _

theorem specBs_flatten_length (H : HashFn) (hw : ∀ x, (H.run x).length = H.digestSize) (b0 dp : Bytes)
    (n : Nat) : (specBs H b0 dp n).flatten.length = n * H.digestSize := by
  induction n with
  | zero => simp [specBs]
  | succ n ih =>
    rw [specBs_succ, List.flatten_append, List.length_append, ih, Nat.add_mul]
    simp [xmdB_length H hw]

theorem spec_xmd_length (H : HashFn) (hw : H.WF) (msg dst : Bytes) (len : Nat) (out : Bytes)
    (h : Spec.expandMessageXmd H msg dst len = some out) : out.length = len := by
  unfold Spec.expandMessageXmd at h
  dsimp only at h
  split at h
  · cases h
  · injection h with h
    subst h
    unfold Spec.substr
    rw [List.drop_zero, List.length_take]
    have := specBs_flatten_length H hw.run_length
      (Spec.xmdB0 H msg (dst ++ Spec.I2OSP dst.length 1) len) (dst ++ Spec.I2OSP dst.length 1)
      (Spec.ceilDiv len H.digestSize)
    unfold specBs at this
    rw [this]
    have := (spec_ceilDiv_le_iff len (Spec.ceilDiv len H.digestSize) hw.digest_pos).mp (Nat.le_refl _)
    omega

end PyEcc.C15
