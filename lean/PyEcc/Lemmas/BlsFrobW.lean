/-
  PyEcc.Lemmas.BlsFrobW — the one genuinely computational fact behind `exp_by_p` of
  `optimized_bls12_381/optimized_pairing.py`:  `exptable[1]` denotes `w^p` in
  `FQ12 = Fp[w]/(w¹² − 2w⁶ + 2)`.

  Evaluating `FQ12([0,1,0,…]) ** p` in the executable model costs the kernel ≈ 3 minutes (381
  squarings of 12-coefficient lists).  Instead: `p = 6q + 1`, so `w^p = w · (w⁶)^q`, and `y = w⁶`
  satisfies `y² = 2y − 2`, i.e. lives in the quadratic subfield `Fp[y]`.  `y^q` is computed by the
  kernel on pairs of ints (`pow2`, ≈ 570 pair multiplications), and `pow2_spec` proves that this
  pair arithmetic is the arithmetic of the quotient ring.
-/
import Mathlib.Tactic.LinearCombination
import PyEcc.Lemmas.PairingSem
import PyEcc.Sem.Primes

set_option maxRecDepth 100000

namespace PyEcc.PairingSem
open Polynomial PyEcc PyEcc.Fqp PyEcc.FqpSem PyEcc.Gen.Consts

/-- multiplication in `Fp[y]/(y² − 2y + 2)`; `(a₀, a₁)` stands for `a₀ + a₁·y` -/
def mul2 (p : Nat) (a b : Int × Int) : Int × Int :=
  ((a.1 * b.1 - 2 * (a.2 * b.2)) % (p : Int), (a.1 * b.2 + a.2 * b.1 + 2 * (a.2 * b.2)) % (p : Int))

/-- square-and-multiply on pairs (same loop shape as `Fqp.powAux`) -/
def pow2Aux (p : Nat) : Nat → Int × Int → Int × Int → Nat → Int × Int
  | 0, o, _, _ => o
  | f+1, o, t, e =>
    if e = 0 then o
    else pow2Aux p f (if e % 2 = 1 then mul2 p o t else o) (mul2 p t t) (e / 2)

def pow2 (p : Nat) (a : Int × Int) (e : Nat) : Int × Int := pow2Aux p e (1, 0) a e

local notation "R12" => AdjoinRoot (modulus blsP blsMc12)
local notation "w" => AdjoinRoot.root (modulus blsP blsMc12)

theorem blsMc12_len : 1 ≤ blsMc12.length := by decide

/-- `w¹² = 2w⁶ − 2`, i.e. `y = w⁶` satisfies `y² = 2y − 2` -/
theorem y_sq : ((w : R12) ^ 6) ^ 2 = 2 * (w : R12) ^ 6 - 2 := by
  have e : modulus blsP blsMc12 = X ^ 12 + (C 2 + X * (X * (X * (X * (X * (X * (C (-2)))))))) := by
    simp [modulus, blsMc12, fields_bls12_381_fq12_modulus_coeffs, ev]
  have h : AdjoinRoot.mk (modulus blsP blsMc12)
      (X ^ 12 + (C 2 + X * (X * (X * (X * (X * (X * (C (-2))))))))) = 0 := by
    rw [← e]; exact AdjoinRoot.mk_self
  simp only [map_add, map_mul, map_pow, AdjoinRoot.mk_X, map_neg, map_ofNat] at h
  linear_combination h

/-- the value of a pair in the quotient ring: `a₀ + a₁·w⁶` -/
noncomputable def val2 (a : Int × Int) : R12 := (a.1 : R12) + (a.2 : R12) * (w : R12) ^ 6

theorem val2_mul2 (a b : Int × Int) : val2 (mul2 blsP a b) = val2 a * val2 b := by
  have := charP_quot (p := blsP) (mc := blsMc12) blsMc12_len
  unfold val2 mul2
  simp only
  rw [← CharP.intCast_eq_intCast_mod R12 blsP, ← CharP.intCast_eq_intCast_mod R12 blsP]
  push_cast
  linear_combination (-(a.2 : R12) * (b.2 : R12)) * y_sq

theorem pow2Aux_spec : ∀ (f : Nat) (o t : Int × Int) (e : Nat), e < 2 ^ f →
    val2 (pow2Aux blsP f o t e) = val2 o * val2 t ^ e := by
  intro f
  induction f with
  | zero =>
    intro o t e h
    have : e = 0 := by simpa using h
    subst this
    simp [pow2Aux]
  | succ n ih =>
    intro o t e h
    unfold pow2Aux
    by_cases he : e = 0
    · subst he; simp
    · rw [if_neg he]
      have h2 : e / 2 < 2 ^ n := by
        rw [Nat.div_lt_iff_lt_mul (by norm_num)]; rw [pow_succ] at h; omega
      have hsplit : e = 2 * (e / 2) + e % 2 := by omega
      by_cases hodd : e % 2 = 1
      · rw [if_pos hodd, ih _ _ _ h2, val2_mul2, val2_mul2]
        conv_rhs => rw [hsplit, hodd, pow_add, pow_mul, pow_one]
        ring
      · rw [if_neg hodd, ih _ _ _ h2, val2_mul2]
        have hev : e % 2 = 0 := by omega
        conv_rhs => rw [hsplit, hev, add_zero, pow_mul]
        ring

/-- `pow2 (0,1) e` computes `(w⁶)^e` -/
theorem pow2_spec (e : Nat) : val2 (pow2 blsP (0, 1) e) = ((w : R12) ^ 6) ^ e := by
  unfold pow2
  rw [pow2Aux_spec e _ _ e Nat.lt_two_pow_self]
  simp [val2]

/-- the second entry of the module constant `exptable` -/
def blsT1 : OBls12 := blsExptable.getD 1 0

/-- kernel computation: `(w⁶)^((p−1)/6)` on pairs, compared with the two non-zero coefficients of
    `exptable[1]`; `p = 6·((p−1)/6) + 1`; the shape of `exptable[1]`. -/
theorem blsT1_compute :
    pow2 blsP (0, 1) ((blsP - 1) / 6) = (getI blsT1.coeffs 1, getI blsT1.coeffs 7) ∧
    6 * ((blsP - 1) / 6) + 1 = blsP ∧
    blsT1.coeffs = [0, getI blsT1.coeffs 1, 0, 0, 0, 0, 0, getI blsT1.coeffs 7, 0, 0, 0, 0] := by
  decide +kernel

/-- **`exptable[1]` is `w^p`** in `FQ12 = Fp[w]/(w¹² − 2w⁶ + 2)`. -/
theorem toQ_blsT1 : toQ blsT1 = (w : R12) ^ blsP := by
  obtain ⟨h1, h2, h3⟩ := blsT1_compute
  generalize getI blsT1.coeffs 1 = A at h1 h3
  generalize getI blsT1.coeffs 7 = B at h1 h3
  have hv := pow2_spec ((blsP - 1) / 6)
  rw [h1] at hv
  have : toQ blsT1 = (w : R12) * val2 (A, B) := by
    rw [toQ, h3]
    simp only [evQ, ev_cons, ev_nil, val2, map_add, map_mul, AdjoinRoot.mk_X,
      map_intCast, map_zero]
    push_cast
    ring
  rw [this, hv, ← pow_mul, ← pow_succ', h2]

/-! ### the whole table: `exptable[i+1] = exptable[i] * exptable[1]`, `exptable[0] = 1` -/

/-- kernel computation (11 multiplications in the executable FQ12 model): the table is
    `[1, t, t·t, (t·t)·t, …]` with `t = exptable[1]`. -/
theorem blsExptable_iterate : blsExptable = List.iterate (· * blsT1) 1 12 := by decide +kernel

theorem wf_blsT1 : WF blsT1 := by unfold WF; decide +kernel

/-- the `i`-th iterate `((1·t)·t)…·t` has 12 coefficients and denotes `(w^p)ⁱ` -/
theorem blsTab_spec (i : ℕ) :
    WF ((· * blsT1)^[i] (1 : OBls12)) ∧
    toQ ((· * blsT1)^[i] (1 : OBls12)) = ((w : R12) ^ blsP) ^ i := by
  induction i with
  | zero =>
    refine ⟨wf_one blsMc12_len, ?_⟩
    rw [pow_zero]
    exact toQ_one
  | succ i ih =>
    rw [Function.iterate_succ_apply']
    refine ⟨wf_mul ih.1 wf_blsT1, ?_⟩
    show toQ (mul _ blsT1) = _
    rw [toQ_mul ih.1 wf_blsT1, ih.2, toQ_blsT1, pow_succ]

end PyEcc.PairingSem
