/-
  PyEcc.Lemmas.BlsSem — helper lemmas for the BLS ciphersuite properties (C01, C03, C04):
  the exact set of exception kinds every primitive under `Model/Bls.lean` can raise.
  Core Lean only.
-/
import PyEcc.Model.Bls

namespace PyEcc.BlsSem
open PyEcc Gen.Consts

/-! ### `Except` plumbing -/

theorem bind_ok {α β : Type} {x : Except PyErr α} {f : α → Except PyErr β} {b : β}
    (h : (x >>= f) = .ok b) : ∃ a, x = .ok a ∧ f a = .ok b := by
  cases x with
  | error e => simp [bind, Except.bind] at h
  | ok a => exact ⟨a, rfl, h⟩

theorem bind_error {α β : Type} {x : Except PyErr α} {f : α → Except PyErr β} {e : PyErr}
    (h : (x >>= f) = .error e) : x = .error e ∨ ∃ a, x = .ok a ∧ f a = .error e := by
  cases x with
  | error e' => left; simpa [bind, Except.bind] using h
  | ok a => right; exact ⟨a, rfl, h⟩

theorem ok_ne_error {α : Type} {a : α} {e : PyErr} (h : (Except.ok a : Except PyErr α) = .error e) :
    False := by cases h

/-! ### `i2osp` -/

theorem i2osp_ok {x n : Nat} (h : x < 256 ^ n) : i2osp x n = .ok (toBytesBE n x) := by
  simp [i2osp, h]

theorem i2osp_error {x n : Nat} {e : PyErr} (h : i2osp x n = .error e) :
    e = .overflow ∧ ¬ x < 256 ^ n := by
  unfold i2osp at h
  split at h
  · cases h
  · next hx => cases h; exact ⟨rfl, hx⟩

theorem toBytesBE_length (n x : Nat) : (toBytesBE n x).length = n := by
  induction n generalizing x with
  | zero => simp [toBytesBE]
  | succ n ih => simp [toBytesBE, ih]

/-! ### point decompression raises only `ValueError` -/

theorem decompressG1_error {z : Nat} {e : PyErr} (h : decompressG1 z = .error e) : e = .value := by
  unfold decompressG1 at h
  simp only [bind, Except.bind, pure, Except.pure, throw, throwThe, MonadExceptOf.throw] at h
  repeat' split at h
  all_goals first | (cases h; rfl) | cases h

theorem decompressG2_error {z1 z2 : Nat} {e : PyErr} (h : decompressG2 z1 z2 = .error e) :
    e = .value := by
  unfold decompressG2 at h
  simp only [bind, Except.bind, pure, Except.pure, throw, throwThe, MonadExceptOf.throw] at h
  repeat' split at h
  all_goals first | (cases h; rfl) | cases h

theorem pubkeyToG1_error {pk : Bytes} {e : PyErr} (h : pubkeyToG1 pk = .error e) : e = .value :=
  decompressG1_error h

theorem signatureToG2_error {sig : Bytes} {e : PyErr} (h : signatureToG2 sig = .error e) :
    e = .value :=
  decompressG2_error h

/-! ### pairing raises only `ValueError` (off-curve argument) -/

theorem pairingOptBls_error {Q : G2Pt} {P : G1Pt} {fe : Bool} {e : PyErr}
    (h : pairingOptBls Q P fe = .error e) : e = .value := by
  unfold pairingOptBls at h
  simp only [bind, Except.bind, pure, Except.pure, throw, throwThe, MonadExceptOf.throw] at h
  repeat' split at h
  all_goals first | (cases h; rfl) | cases h

/-- `pairing` raises exactly when one of its two arguments is off its curve -/
theorem pairingOptBls_ok_of_on_curve {Q : G2Pt} {P : G1Pt} {fe : Bool}
    (hQ : Gen.OptBls.is_on_curve Q (⟨optimized_bls12_381_b2⟩ : OBls2) = true)
    (hP : Gen.OptBls.is_on_curve P (Fq.ofInt optimized_bls12_381_b : Fq blsP) = true) :
    ∃ v, pairingOptBls Q P fe = .ok v := by
  unfold pairingOptBls
  simp only [bind, Except.bind, pure, Except.pure, throw, throwThe, MonadExceptOf.throw, hQ, hP]
  simp
  split <;> exact ⟨_, rfl⟩

/-! ### `expand_message_xmd`, `hash_to_field`: only `ValueError` -/

/-- the `for i in range(2, ell+1)` loop never raises as long as the counter stays below 256
    (`i2osp(i, 1)`); this is what the guard `ell > 255 → ValueError` ensures. -/
theorem xmdLoop_ok (H : HashFn) (b0 dstPrime : Bytes) :
    ∀ (k i : Nat) (bs : List Bytes), i + k ≤ 256 → ∃ r, xmdLoop H b0 dstPrime k i bs = .ok r := by
  intro k
  induction k with
  | zero => intro i bs _; exact ⟨bs, rfl⟩
  | succ k ih =>
    intro i bs hik
    have hi : i < 256 ^ 1 := by omega
    unfold xmdLoop
    simp only [i2osp_ok hi, bind, Except.bind]
    exact ih (i + 1) _ (by omega)

theorem expandMessageXmd_error {H : HashFn} {msg dst : Bytes} {len : Nat} {e : PyErr}
    (hlen : len < 65536) (h : expandMessageXmd H msg dst len = .error e) : e = .value := by
  unfold expandMessageXmd at h
  simp only [bind, Except.bind, pure, Except.pure, throw, throwThe, MonadExceptOf.throw] at h
  split at h
  · cases h; rfl
  · next hdst =>
    split at h
    · cases h; rfl
    · next hell =>
      have h1 : dst.length < 256 ^ 1 := by omega
      have h2 : len < 256 ^ 2 := by omega
      rw [i2osp_ok h1] at h
      simp only [i2osp_ok h2] at h
      obtain ⟨r, hr⟩ := xmdLoop_ok H
        (H.run (List.replicate H.blockSize 0 ++ msg ++ toBytesBE 2 len ++ [0] ++ (dst ++ toBytesBE 1 dst.length)))
        (dst ++ toBytesBE 1 dst.length) (ceilDiv len H.digestSize + 1 - 2) 2
        [H.run (H.run (List.replicate H.blockSize 0 ++ msg ++ toBytesBE 2 len ++ [0] ++ (dst ++ toBytesBE 1 dst.length)) ++ [1] ++ (dst ++ toBytesBE 1 dst.length))]
        (by omega)
      rw [hr] at h
      cases h

theorem hashToFieldFq2_error {H : HashFn} {msg dst : Bytes} {e : PyErr}
    (h : hashToFieldFq2 H blsP msg 2 dst = .error e) : e = .value := by
  unfold hashToFieldFq2 at h
  simp only [bind, Except.bind, pure, Except.pure] at h
  split at h
  · next e' he => cases h; exact expandMessageXmd_error (by decide) he
  · cases h

theorem hashToFieldFq2_ok_length {H : HashFn} {msg dst : Bytes} {us : List (Nat × Nat)}
    (h : hashToFieldFq2 H blsP msg 2 dst = .ok us) : us.length = 2 := by
  unfold hashToFieldFq2 at h
  simp only [bind, Except.bind, pure, Except.pure] at h
  split at h
  · cases h
  · cases h; simp

theorem hashToFieldFq2_ok_range {H : HashFn} {msg dst : Bytes} {us : List (Nat × Nat)}
    (h : hashToFieldFq2 H blsP msg 2 dst = .ok us) : ∀ u ∈ us, u.1 < blsP ∧ u.2 < blsP := by
  unfold hashToFieldFq2 at h
  simp only [bind, Except.bind, pure, Except.pure] at h
  split at h
  · cases h
  · have := Except.ok.inj h
    subst this
    intro u hu
    obtain ⟨i, _, rfl⟩ := List.mem_map.mp hu
    exact ⟨Nat.mod_lt _ (by decide), Nat.mod_lt _ (by decide)⟩

/-! ### SWU: the only exception is the "unreachable" bare `Exception` -/

/-- `optimized_swu_G2` takes its "unreachable" `raise Exception(...)` on some element `a + b·i` of `Fp²`
    (`0 ≤ a, b < p` — the only kind of input `hash_to_G2` passes to it) -/
def SwuFails : Prop :=
  ∃ a b : Nat, a < blsP ∧ b < blsP ∧ optimizedSwuG2 (f2c [(a : Int), (b : Int)]) = .error .other

theorem optimizedSwuG2_error {t : F2} {e : PyErr} (h : optimizedSwuG2 t = .error e) : e = .other := by
  unfold optimizedSwuG2 at h
  simp only at h
  repeat' split at h
  all_goals first | exact (Except.error.inj h).symm | exact (ok_ne_error h).elim

theorem mapToCurveG2_error {t : F2} {e : PyErr} (h : mapToCurveG2 t = .error e) :
    e = .other ∧ optimizedSwuG2 t = .error .other := by
  unfold mapToCurveG2 at h
  rcases bind_error h with h1 | ⟨a, _, h2⟩
  · have := optimizedSwuG2_error h1; subst this; exact ⟨rfl, h1⟩
  · cases h2

/-- **Exception kinds of `hash_to_G2`.**  It raises `ValueError` (DST longer than 255 bytes, or a digest
    so short that `ell > 255`), or the bare `Exception("Hash to Curve - Optimized SWU failure")` — and the
    latter only if `optimized_swu_G2` itself fails on some field element. -/
theorem hashToG2_error {H : HashFn} {msg dst : Bytes} {e : PyErr}
    (h : hashToG2 H msg dst = .error e) :
    e = .value ∨ (e = .other ∧ SwuFails) := by
  unfold hashToG2 at h
  rcases bind_error h with h1 | ⟨us, hus, h2⟩
  · left; exact hashToFieldFq2_error h1
  · have hr := hashToFieldFq2_ok_range hus
    split at h2
    · next u0 u1 =>
      have hr0 := hr u0 (by simp)
      have hr1 := hr u1 (by simp)
      rcases bind_error h2 with h3 | ⟨q0, _, h4⟩
      · right; exact ⟨(mapToCurveG2_error h3).1, _, _, hr0.1, hr0.2, (mapToCurveG2_error h3).2⟩
      · rcases bind_error h4 with h5 | ⟨q1, _, h6⟩
        · right; exact ⟨(mapToCurveG2_error h5).1, _, _, hr1.1, hr1.2, (mapToCurveG2_error h5).2⟩
        · cases h6
    · cases h2; left; rfl

/-! ### `KeyValidate` -/

theorem keyValidate_true_iff (pk : Bytes) :
    keyValidate pk = true ↔
      pk.length = 48 ∧ ∃ P, pubkeyToG1 pk = .ok P ∧ Gen.OptBls.is_inf P = false ∧
        subgroupCheck P = true := by
  unfold keyValidate
  constructor
  · intro h
    split at h
    · cases h
    · next hl =>
      refine ⟨by simpa using hl, ?_⟩
      split at h
      · cases h
      · next P hP =>
        refine ⟨P, hP, ?_⟩
        split at h
        · cases h
        · next hi =>
          split at h
          · cases h
          · next hs => exact ⟨by simpa using hi, by simpa using hs⟩
  · rintro ⟨hl, P, hP, hi, hs⟩
    simp [hl, hP, hi, hs]

theorem isValidPubkey_length {s : Suite} {pk : Bytes} (h : isValidPubkey s pk = true) :
    pk.length = 48 := by
  unfold isValidPubkey at h
  split at h
  · cases h
  · next hl => simpa using hl

theorem isValidPubkey_pop {pk : Bytes} (h : isValidPubkey .pop pk = true) : keyValidate pk = true := by
  unfold isValidPubkey at h
  split at h
  · cases h
  · exact h

/-! ### `compress_G1` fits 48 bytes, so `G1_to_pubkey` never raises `OverflowError` -/

set_option exponentiation.threshold 400 in
theorem blsP_lt_pow : blsP < 2 ^ 381 := by decide

set_option exponentiation.threshold 400 in
theorem compressG1_lt (pt : G1Pt) : compressG1 pt < 256 ^ 48 := by
  unfold compressG1
  split
  · decide
  · simp only
    have hx := (Gen.OptBls.normalize pt).1.lt
    have hy := (Gen.OptBls.normalize pt).2.lt
    have hp := blsP_lt_pow
    have hflag : (Gen.OptBls.normalize pt).2.n * 2 / blsP ≤ 1 := by
      have : (Gen.OptBls.normalize pt).2.n * 2 < 2 * blsP := by omega
      have := (Nat.div_lt_iff_lt_mul (by decide : 0 < blsP)).mpr this
      omega
    have h381 : POW_2_381 = 2 ^ 381 := by decide
    have h383 : POW_2_383 = 2 ^ 383 := by decide
    have h256 : (256 : Nat) ^ 48 = 2 ^ 384 := by decide
    rw [h381, h383, h256]
    generalize (Gen.OptBls.normalize pt).2.n * 2 / blsP = a at *
    generalize (Gen.OptBls.normalize pt).1.n = x at *
    have ha : a * 2 ^ 381 ≤ 2 ^ 381 := by
      calc a * 2 ^ 381 ≤ 1 * 2 ^ 381 := Nat.mul_le_mul_right _ hflag
        _ = 2 ^ 381 := by omega
    omega

theorem g1ToPubkey_ok (pt : G1Pt) : g1ToPubkey pt = .ok (toBytesBE 48 (compressG1 pt)) :=
  i2osp_ok (compressG1_lt pt)

theorem g1ToPubkey_length {pt : G1Pt} {pk : Bytes} (h : g1ToPubkey pt = .ok pk) : pk.length = 48 := by
  rw [g1ToPubkey_ok] at h
  have := Except.ok.inj h
  subst this
  exact toBytesBE_length _ _

/-! ### `_AggregatePKs` on validated keys never raises -/

theorem aggregatePKs_fold_ok (pks : List Bytes) (h : ∀ pk ∈ pks, keyValidate pk = true) (acc : G1Pt) :
    ∃ agg, pks.foldlM (fun acc pk => do
      let pt ← pubkeyToG1 pk
      pure (Gen.OptBls.add acc pt)) acc = (.ok agg : Except PyErr G1Pt) := by
  induction pks generalizing acc with
  | nil => exact ⟨acc, rfl⟩
  | cons pk rest ih =>
    obtain ⟨_, P, hP, _, _⟩ := (keyValidate_true_iff pk).mp (h pk (by simp))
    simp only [List.foldlM_cons, hP, bind, Except.bind, pure, Except.pure]
    exact ih (fun q hq => h q (by simp [hq])) _

theorem aggregatePKs_ok (pks : List Bytes) (hne : 1 ≤ pks.length)
    (h : ∀ pk ∈ pks, keyValidate pk = true) : ∃ apk, aggregatePKs pks = .ok apk ∧ apk.length = 48 := by
  unfold aggregatePKs
  obtain ⟨agg, hagg⟩ := aggregatePKs_fold_ok pks h Z1
  have : ¬ pks.length < 1 := by omega
  simp only [this, ↓reduceIte, bind, Except.bind, pure, Except.pure]
  simp only [bind, Except.bind, pure, Except.pure] at hagg
  rw [hagg]
  exact ⟨_, g1ToPubkey_ok agg, toBytesBE_length _ _⟩

/-! ### the two verification bodies -/

/-- what the bodies of `_CoreVerify` / `_CoreAggregateVerify` can raise -/
def BodyErr (e : PyErr) : Prop := e = .validation ∨ e = .value ∨ (e = .other ∧ SwuFails)

theorem BodyErr.of_hash {H : HashFn} {msg dst : Bytes} {e : PyErr}
    (h : hashToG2 H msg dst = .error e) : BodyErr e := by
  rcases hashToG2_error h with h | ⟨h, hs⟩
  · exact .inr (.inl h)
  · exact .inr (.inr ⟨h, hs⟩)

theorem coreVerifyBody_error {H : HashFn} {s : Suite} {pk msg sig dst : Bytes} {e : PyErr}
    (h : coreVerifyBody H s pk msg sig dst = .error e) : BodyErr e := by
  unfold coreVerifyBody at h
  simp only [bind, Except.bind, pure, Except.pure, throw, throwThe, MonadExceptOf.throw] at h
  split at h; · exact .inl (Except.error.inj h).symm
  split at h; · exact .inl (Except.error.inj h).symm
  split at h; · exact .inl (Except.error.inj h).symm
  split at h
  · next e' he => cases h; exact .inr (.inl (signatureToG2_error he))
  split at h; · exact (ok_ne_error h).elim
  split at h
  · next e' he => cases h; exact .inr (.inl (pairingOptBls_error he))
  split at h
  · next e' he => cases h; exact .of_hash he
  split at h
  · next e' he => cases h; exact .inr (.inl (pubkeyToG1_error he))
  split at h
  · next e' he => cases h; exact .inr (.inl (pairingOptBls_error he))
  · exact (ok_ne_error h).elim

/-- Everything a successful run of the `try` body of `_CoreVerify` went through. -/
theorem coreVerifyBody_ok {H : HashFn} {s : Suite} {pk msg sig dst : Bytes} {b : Bool}
    {tr : List (G2Pt × G1Pt)} (h : coreVerifyBody H s pk msg sig dst = .ok (b, tr)) :
    isValidPubkey s pk = true ∧ sig.length = 96 ∧ keyValidate pk = true ∧
    ∃ S, signatureToG2 sig = .ok S ∧
      ((subgroupCheck S = false ∧ b = false ∧ tr = []) ∨
       (subgroupCheck S = true ∧ ∃ P mp e1 e2, pubkeyToG1 pk = .ok P ∧ hashToG2 H msg dst = .ok mp ∧
          pairingOptBls S blsG1 false = .ok e1 ∧
          pairingOptBls mp (Gen.OptBls.neg P) false = .ok e2 ∧
          b = decide (finalExponentiateOptBls (e1 * e2) = (1 : OBls12)) ∧
          tr = [(S, blsG1), (mp, Gen.OptBls.neg P)])) := by
  unfold coreVerifyBody at h
  simp only [bind, Except.bind, pure, Except.pure, throw, throwThe, MonadExceptOf.throw] at h
  split at h; · cases h
  next h1 =>
  split at h; · cases h
  next h2 =>
  split at h; · cases h
  next h3 =>
  refine ⟨by simpa using h1, by simpa using h2, by simpa using h3, ?_⟩
  split at h; · cases h
  next S hS =>
  refine ⟨S, hS, ?_⟩
  split at h
  · next hsub =>
    have := Except.ok.inj h
    left; exact ⟨by simpa using hsub, (Prod.mk.inj this).1.symm, (Prod.mk.inj this).2.symm⟩
  next hsub =>
  right
  refine ⟨by simpa using hsub, ?_⟩
  split at h; · cases h
  next e1 he1 =>
  split at h; · cases h
  next mp hmp =>
  split at h; · cases h
  next P hP =>
  split at h; · cases h
  next e2 he2 =>
  have := Except.ok.inj h
  exact ⟨P, mp, e1, e2, hP, hmp, he1, he2, (Prod.mk.inj this).1.symm, (Prod.mk.inj this).2.symm⟩

/-- the pairing argument pair `(Q, P)` that the loop of `_CoreAggregateVerify` derives from the
    list entry `(pk, msg)`: `pk` passed `KeyValidate`, `P = pubkey_to_G1(pk)`, `Q = hash_to_G2(msg, DST)` -/
def ArgOf (H : HashFn) (dst : Bytes) (pm : Bytes × Bytes) (qp : G2Pt × G1Pt) : Prop :=
  keyValidate pm.1 = true ∧ pubkeyToG1 pm.1 = .ok qp.2 ∧ hashToG2 H pm.2 dst = .ok qp.1

/-- position-wise `ArgOf` between the zipped `(pk, msg)` list and the recorded pairing arguments -/
inductive AllArgs (H : HashFn) (dst : Bytes) : List (Bytes × Bytes) → List (G2Pt × G1Pt) → Prop
  | nil : AllArgs H dst [] []
  | cons {pm qp l ext} : ArgOf H dst pm qp → AllArgs H dst l ext → AllArgs H dst (pm :: l) (qp :: ext)

theorem AllArgs.length_eq {H : HashFn} {dst : Bytes} {l ext} (h : AllArgs H dst l ext) :
    ext.length = l.length := by
  induction h with
  | nil => rfl
  | cons _ _ ih => simp [ih]

theorem AllArgs.mem {H : HashFn} {dst : Bytes} {l ext} (h : AllArgs H dst l ext) :
    ∀ qp ∈ ext, ∃ pm ∈ l, ArgOf H dst pm qp := by
  induction h with
  | nil => intro qp hqp; cases hqp
  | cons h0 _ ih =>
    intro qp hqp
    rcases List.mem_cons.mp hqp with rfl | hqp
    · exact ⟨_, by simp, h0⟩
    · obtain ⟨pm, hpm, ha⟩ := ih qp hqp
      exact ⟨pm, by simp [hpm], ha⟩

theorem AllArgs.mem_left {H : HashFn} {dst : Bytes} {l ext} (h : AllArgs H dst l ext) :
    ∀ pm ∈ l, ∃ qp ∈ ext, ArgOf H dst pm qp := by
  induction h with
  | nil => intro pm hpm; cases hpm
  | cons h0 _ ih =>
    intro pm hpm
    rcases List.mem_cons.mp hpm with rfl | hpm
    · exact ⟨_, by simp, h0⟩
    · obtain ⟨qp, hqp, ha⟩ := ih pm hpm
      exact ⟨qp, by simp [hqp], ha⟩

theorem aggLoop_error {H : HashFn} {dst : Bytes} {e : PyErr} :
    ∀ (l : List (Bytes × Bytes)) (acc : OBls12) (tr : List (G2Pt × G1Pt)),
      aggLoop H dst l acc tr = .error e → BodyErr e := by
  intro l
  induction l with
  | nil => intro acc tr h; exact (ok_ne_error h).elim
  | cons pm rest ih =>
    intro acc tr h
    obtain ⟨pk, msg⟩ := pm
    unfold aggLoop at h
    simp only [bind, Except.bind, throw, throwThe, MonadExceptOf.throw] at h
    split at h; · exact .inl (Except.error.inj h).symm
    split at h
    · next e' he => cases h; exact .inr (.inl (pubkeyToG1_error he))
    split at h
    · next e' he => cases h; exact .of_hash he
    split at h
    · next e' he => cases h; exact .inr (.inl (pairingOptBls_error he))
    · exact ih _ _ h

/-- **Loop invariant of `_CoreAggregateVerify`**: the trace grows by exactly one pairing-argument
    pair per list entry, each derived from a `KeyValidate`d key and `hash_to_G2` of its message. -/
theorem aggLoop_ok {H : HashFn} {dst : Bytes} :
    ∀ (l : List (Bytes × Bytes)) (acc : OBls12) (tr : List (G2Pt × G1Pt)) (acc' : OBls12)
      (tr' : List (G2Pt × G1Pt)), aggLoop H dst l acc tr = .ok (acc', tr') →
      ∃ ext, tr' = tr ++ ext ∧ AllArgs H dst l ext := by
  intro l
  induction l with
  | nil =>
    intro acc tr acc' tr' h
    have := Except.ok.inj h
    exact ⟨[], by simp [(Prod.mk.inj this).2.symm], .nil⟩
  | cons pm rest ih =>
    intro acc tr acc' tr' h
    obtain ⟨pk, msg⟩ := pm
    unfold aggLoop at h
    simp only [bind, Except.bind, throw, throwThe, MonadExceptOf.throw] at h
    split at h; · cases h
    next hkv =>
    split at h; · cases h
    next P hP =>
    split at h; · cases h
    next mp hmp =>
    split at h; · cases h
    next e he =>
    obtain ⟨ext, hext, hall⟩ := ih _ _ _ _ h
    refine ⟨(mp, P) :: ext, by simp [hext], .cons ⟨by simpa using hkv, hP, hmp⟩ hall⟩

theorem coreAggregateVerifyBody_error {H : HashFn} {s : Suite} {pks msgs : List Bytes}
    {sig dst : Bytes} {e : PyErr}
    (h : coreAggregateVerifyBody H s pks msgs sig dst = .error e) : BodyErr e := by
  unfold coreAggregateVerifyBody at h
  simp only [bind, Except.bind, pure, Except.pure, throw, throwThe, MonadExceptOf.throw] at h
  split at h; · exact .inl (Except.error.inj h).symm
  split at h; · exact .inl (Except.error.inj h).symm
  split at h; · exact .inl (Except.error.inj h).symm
  split at h; · exact .inl (Except.error.inj h).symm
  split at h
  · next e' he => cases h; exact .inr (.inl (signatureToG2_error he))
  split at h; · exact (ok_ne_error h).elim
  split at h
  · next e' he => cases h; exact aggLoop_error _ _ _ he
  split at h
  · next e' he => cases h; exact .inr (.inl (pairingOptBls_error he))
  · exact (ok_ne_error h).elim

/-- Everything a successful run of the `try` body of `_CoreAggregateVerify` went through. -/
theorem coreAggregateVerifyBody_ok {H : HashFn} {s : Suite} {pks msgs : List Bytes}
    {sig dst : Bytes} {b : Bool} {tr : List (G2Pt × G1Pt)}
    (h : coreAggregateVerifyBody H s pks msgs sig dst = .ok (b, tr)) :
    pks.all (isValidPubkey s) = true ∧ pks.length = msgs.length ∧ sig.length = 96 ∧
    1 ≤ pks.length ∧
    ∃ S, signatureToG2 sig = .ok S ∧
      ((subgroupCheck S = false ∧ b = false ∧ tr = []) ∨
       (subgroupCheck S = true ∧ ∃ ext agg e,
          aggLoop H dst (List.zip pks msgs) (1 : OBls12) [] = .ok (agg, ext) ∧
          AllArgs H dst (List.zip pks msgs) ext ∧
          pairingOptBls S (Gen.OptBls.neg blsG1) false = .ok e ∧
          b = decide (finalExponentiateOptBls (agg * e) = (1 : OBls12)) ∧
          tr = ext ++ [(S, Gen.OptBls.neg blsG1)])) := by
  unfold coreAggregateVerifyBody at h
  simp only [bind, Except.bind, pure, Except.pure, throw, throwThe, MonadExceptOf.throw] at h
  split at h; · cases h
  next h1 =>
  split at h; · cases h
  next h2 =>
  split at h; · cases h
  next h3 =>
  split at h; · cases h
  next h4 =>
  refine ⟨by simpa using h1, by simpa using h2, by simpa using h3, by omega, ?_⟩
  split at h; · cases h
  next S hS =>
  refine ⟨S, hS, ?_⟩
  split at h
  · next hsub =>
    have := Except.ok.inj h
    left; exact ⟨by simpa using hsub, (Prod.mk.inj this).1.symm, (Prod.mk.inj this).2.symm⟩
  next hsub =>
  right
  refine ⟨by simpa using hsub, ?_⟩
  split at h; · cases h
  next r hr =>
  obtain ⟨agg, ext⟩ := r
  simp only at h
  split at h; · cases h
  next e he =>
  have := Except.ok.inj h
  obtain ⟨ext', hext', hall⟩ := aggLoop_ok _ _ _ _ _ hr
  have hee : ext = ext' := by simpa using hext'
  subst hee
  exact ⟨ext, agg, e, hr, hall, he, (Prod.mk.inj this).1.symm, (Prod.mk.inj this).2.symm⟩

/-! ### `try/except` wrappers -/

/-- A `try: body except (ValidationError, ValueError, AssertionError): return False` whose body raises
    only `BodyErr` kinds returns a bool, unless SWU fails (bare `Exception`, not caught). -/
theorem catching3_cases {α : Type} {r : Except PyErr (Bool × α)}
    (hr : ∀ e, r = .error e → BodyErr e) :
    (∃ b tr, r = .ok (b, tr) ∧ catching caught3 (r.map (·.1)) = .returned b) ∨
    (∃ e, r = .error e ∧ caught3 e = true ∧ catching caught3 (r.map (·.1)) = .returned false) ∨
    (r = .error .other ∧ SwuFails ∧ catching caught3 (r.map (·.1)) = .raised .other) := by
  cases r with
  | ok v => left; exact ⟨v.1, v.2, rfl, rfl⟩
  | error e =>
    right
    rcases hr e rfl with h | h | ⟨h, hs⟩
    · left; subst h; exact ⟨_, rfl, rfl, rfl⟩
    · left; subst h; exact ⟨_, rfl, rfl, rfl⟩
    · right; subst h; exact ⟨rfl, hs, rfl⟩

theorem coreVerify_cases (H : HashFn) (s : Suite) (pk msg sig dst : Bytes) :
    (∃ b tr, coreVerifyBody H s pk msg sig dst = .ok (b, tr) ∧
        coreVerify H s pk msg sig dst = .returned b) ∨
    (∃ e, coreVerifyBody H s pk msg sig dst = .error e ∧ caught3 e = true ∧
        coreVerify H s pk msg sig dst = .returned false) ∨
    (coreVerifyBody H s pk msg sig dst = .error .other ∧ SwuFails ∧
        coreVerify H s pk msg sig dst = .raised .other) :=
  catching3_cases (fun _ h => coreVerifyBody_error h)

theorem coreAggregateVerify_cases (H : HashFn) (s : Suite) (pks msgs : List Bytes) (sig dst : Bytes) :
    (∃ b tr, coreAggregateVerifyBody H s pks msgs sig dst = .ok (b, tr) ∧
        coreAggregateVerify H s pks msgs sig dst = .returned b) ∨
    (∃ e, coreAggregateVerifyBody H s pks msgs sig dst = .error e ∧ caught3 e = true ∧
        coreAggregateVerify H s pks msgs sig dst = .returned false) ∨
    (coreAggregateVerifyBody H s pks msgs sig dst = .error .other ∧ SwuFails ∧
        coreAggregateVerify H s pks msgs sig dst = .raised .other) :=
  catching3_cases (fun _ h => coreAggregateVerifyBody_error h)

/-- `returned true` can only come from a successful body run -/
theorem coreVerify_true {H : HashFn} {s : Suite} {pk msg sig dst : Bytes}
    (h : coreVerify H s pk msg sig dst = .returned true) :
    ∃ tr, coreVerifyBody H s pk msg sig dst = .ok (true, tr) := by
  rcases coreVerify_cases H s pk msg sig dst with ⟨b, tr, hb, hr⟩ | ⟨e, _, _, hr⟩ | ⟨_, _, hr⟩
  · rw [hr] at h; cases h; exact ⟨tr, hb⟩
  · rw [hr] at h; cases h
  · rw [hr] at h; cases h

theorem coreAggregateVerify_true {H : HashFn} {s : Suite} {pks msgs : List Bytes} {sig dst : Bytes}
    (h : coreAggregateVerify H s pks msgs sig dst = .returned true) :
    ∃ tr, coreAggregateVerifyBody H s pks msgs sig dst = .ok (true, tr) := by
  rcases coreAggregateVerify_cases H s pks msgs sig dst with
    ⟨b, tr, hb, hr⟩ | ⟨e, _, _, hr⟩ | ⟨_, _, hr⟩
  · rw [hr] at h; cases h; exact ⟨tr, hb⟩
  · rw [hr] at h; cases h
  · rw [hr] at h; cases h

/-- the message actually hashed by `Verify` (the AUG suite prepends the public key) -/
def vmsg (s : Suite) (pk msg : Bytes) : Bytes :=
  match s with
  | .aug => pk ++ msg
  | _ => msg

theorem verify_eq (H : HashFn) (s : Suite) (pk msg sig : Bytes) :
    verify H s pk msg sig = coreVerify H s pk (vmsg s pk msg) sig s.dst := by
  cases s <;> rfl

/-! ### the suites' domain-separation tags; `hash_to_G2` at those tags -/

theorem suite_dst_length (s : Suite) : (Suite.dst s).length = 43 := by
  cases s <;> decide

theorem popTag_length : popTag.length = 43 := by decide

theorem expandMessageXmd_ok {H : HashFn} {msg dst : Bytes} {len : Nat}
    (hdst : dst.length ≤ 255) (hell : ceilDiv len H.digestSize ≤ 255) (hlen : len < 65536) :
    ∃ r, expandMessageXmd H msg dst len = .ok r := by
  cases h : expandMessageXmd H msg dst len with
  | ok r => exact ⟨r, rfl⟩
  | error e =>
    exfalso
    unfold expandMessageXmd at h
    simp only [bind, Except.bind, pure, Except.pure, throw, throwThe, MonadExceptOf.throw] at h
    have h0 : ¬ dst.length > 255 := by omega
    have h0' : ¬ ceilDiv len H.digestSize > 255 := by omega
    have h1 : dst.length < 256 ^ 1 := by omega
    have h2 : len < 256 ^ 2 := by omega
    simp only [h0, h0', ↓reduceIte] at h
    rw [i2osp_ok h1] at h
    simp only [i2osp_ok h2] at h
    obtain ⟨r, hr⟩ := xmdLoop_ok H
      (H.run (List.replicate H.blockSize 0 ++ msg ++ toBytesBE 2 len ++ [0] ++ (dst ++ toBytesBE 1 dst.length)))
      (dst ++ toBytesBE 1 dst.length) (ceilDiv len H.digestSize + 1 - 2) 2
      [H.run (H.run (List.replicate H.blockSize 0 ++ msg ++ toBytesBE 2 len ++ [0] ++ (dst ++ toBytesBE 1 dst.length)) ++ [1] ++ (dst ++ toBytesBE 1 dst.length))]
      (by omega)
    rw [hr] at h
    cases h

/-- `ceil(256 / digest_size) ≤ 255` as soon as the digest has at least two bytes -/
theorem ceilDiv_256_le {d : Nat} (hd : 2 ≤ d) : ceilDiv 256 d ≤ 255 := by
  unfold ceilDiv
  have h1 : (256 + d - 1) / d ≤ (256 + d - 1) / 2 := Nat.div_le_div_left hd (by omega)
  by_cases hbig : d ≤ 254
  · omega
  · have : (256 + d - 1) / d < 3 := (Nat.div_lt_iff_lt_mul (by omega)).mpr (by omega)
    omega

/-- With a DST of at most 255 bytes and a digest of at least 2 bytes, the only way `hash_to_G2` can raise
    is the SWU "unreachable" bare `Exception`. -/
theorem hashToG2_error_of_dst {H : HashFn} {msg dst : Bytes} {e : PyErr}
    (hd : 2 ≤ H.digestSize) (hdst : dst.length ≤ 255) (h : hashToG2 H msg dst = .error e) :
    e = .other ∧ SwuFails := by
  have hxmd := expandMessageXmd_ok (H := H) (msg := msg) (dst := dst) (len := 2 * 2 * 64) hdst
    (ceilDiv_256_le hd) (by decide)
  obtain ⟨prb, hprb⟩ := hxmd
  unfold hashToG2 at h
  rcases bind_error h with h1 | ⟨us, hus, h2⟩
  · unfold hashToFieldFq2 at h1
    simp only [bind, Except.bind, pure, Except.pure, hprb] at h1
    cases h1
  · have hlen := hashToFieldFq2_ok_length hus
    have hr := hashToFieldFq2_ok_range hus
    split at h2
    · next u0 u1 =>
      have hr0 := hr u0 (by simp)
      have hr1 := hr u1 (by simp)
      rcases bind_error h2 with h3 | ⟨q0, _, h4⟩
      · exact ⟨(mapToCurveG2_error h3).1, _, _, hr0.1, hr0.2, (mapToCurveG2_error h3).2⟩
      · rcases bind_error h4 with h5 | ⟨q1, _, h6⟩
        · exact ⟨(mapToCurveG2_error h5).1, _, _, hr1.1, hr1.2, (mapToCurveG2_error h5).2⟩
        · cases h6
    · next hne =>
      exfalso
      match us, hlen with
      | [a, b], _ => exact hne a b rfl

/-- `optimized_swu_G2` never takes its "unreachable" `raise` on an element `a + b·i` of `Fp²`,
    `0 ≤ a, b < p` (DESIGN hypothesis HT6, first half) -/
def SwuTotal : Prop :=
  ∀ a b : Nat, a < blsP → b < blsP → ∃ r, optimizedSwuG2 (f2c [(a : Int), (b : Int)]) = .ok r

theorem not_swuFails_iff : ¬ SwuFails ↔ SwuTotal := by
  constructor
  · intro h a b ha hb
    cases ht : optimizedSwuG2 (f2c [(a : Int), (b : Int)]) with
    | ok r => exact ⟨r, rfl⟩
    | error e =>
      have := optimizedSwuG2_error ht
      subst this
      exact (h ⟨a, b, ha, hb, ht⟩).elim
  · rintro h ⟨a, b, ha, hb, ht⟩
    obtain ⟨r, hr⟩ := h a b ha hb
    rw [hr] at ht
    exact ok_ne_error ht

/-! ### canonical inputs -/

/-- `pk` is a canonical public key: exactly 48 bytes, decodes to `P`, `P` is not the identity and passes
    the subgroup check -/
def CanonPk (pk : Bytes) (P : G1Pt) : Prop :=
  pk.length = 48 ∧ pubkeyToG1 pk = .ok P ∧ Gen.OptBls.is_inf P = false ∧ subgroupCheck P = true

/-- `sig` is a canonical signature: exactly 96 bytes, decodes to `S`, `S` passes the subgroup check -/
def CanonSig (sig : Bytes) (S : G2Pt) : Prop :=
  sig.length = 96 ∧ signatureToG2 sig = .ok S ∧ subgroupCheck S = true

theorem keyValidate_iff_canon (pk : Bytes) : keyValidate pk = true ↔ ∃ P, CanonPk pk P := by
  rw [keyValidate_true_iff]
  constructor
  · rintro ⟨hl, P, hP, hi, hs⟩; exact ⟨P, hl, hP, hi, hs⟩
  · rintro ⟨P, hl, hP, hi, hs⟩; exact ⟨hl, P, hP, hi, hs⟩

theorem isValidPubkey_of_canon {s : Suite} {pk : Bytes} {P : G1Pt} (h : CanonPk pk P) :
    isValidPubkey s pk = true := by
  have hk := (keyValidate_iff_canon pk).mpr ⟨P, h⟩
  cases s <;> simp [isValidPubkey, h.1, hk]

/-- On anything but a canonical key together with a canonical signature, the body of `_CoreVerify` stops
    before hashing or pairing: `ValidationError`, `ValueError` or `return False`. -/
theorem coreVerifyBody_malformed {H : HashFn} {s : Suite} {pk msg sig dst : Bytes}
    (h : ¬ ∃ P S, CanonPk pk P ∧ CanonSig sig S) :
    coreVerifyBody H s pk msg sig dst = .error .validation ∨
    coreVerifyBody H s pk msg sig dst = .error .value ∨
    coreVerifyBody H s pk msg sig dst = .ok (false, []) := by
  unfold coreVerifyBody
  simp only [bind, Except.bind, pure, Except.pure, throw, throwThe, MonadExceptOf.throw]
  split; · exact .inl rfl
  split; · exact .inl rfl
  next hsl =>
  split; · exact .inl rfl
  next hkv =>
  have hkv' : keyValidate pk = true := by simpa using hkv
  obtain ⟨P, hP⟩ := (keyValidate_iff_canon pk).mp hkv'
  split
  · next e he => right; left; rw [signatureToG2_error he]
  next S hS =>
  split; · exact .inr (.inr rfl)
  next hsub =>
  exact (h ⟨P, S, hP, by simpa using hsl, hS, by simpa using hsub⟩).elim

theorem coreVerify_malformed {H : HashFn} {s : Suite} {pk msg sig dst : Bytes}
    (h : ¬ ∃ P S, CanonPk pk P ∧ CanonSig sig S) :
    coreVerify H s pk msg sig dst = .returned false := by
  unfold coreVerify
  rcases coreVerifyBody_malformed (H := H) (s := s) (msg := msg) (dst := dst) h with h | h | h <;>
    rw [h] <;> rfl

/-- exact accept condition of the body of `_CoreVerify` -/
theorem coreVerify_true_iff {H : HashFn} {s : Suite} {pk msg sig dst : Bytes} :
    coreVerify H s pk msg sig dst = .returned true ↔
      ∃ P S mp e1 e2, CanonPk pk P ∧ CanonSig sig S ∧ hashToG2 H msg dst = .ok mp ∧
        pairingOptBls S blsG1 false = .ok e1 ∧
        pairingOptBls mp (Gen.OptBls.neg P) false = .ok e2 ∧
        finalExponentiateOptBls (e1 * e2) = (1 : OBls12) := by
  constructor
  · intro h
    obtain ⟨tr, hb⟩ := coreVerify_true h
    obtain ⟨_, hsl, hkv, S, hS, hcase⟩ := coreVerifyBody_ok hb
    rcases hcase with ⟨_, hf, _⟩ | ⟨hsub, P, mp, e1, e2, hP, hmp, he1, he2, hfe, _⟩
    · cases hf
    · obtain ⟨P', hl, hP', hi, hs⟩ := (keyValidate_iff_canon pk).mp hkv
      have : P' = P := by rw [hP] at hP'; exact (Except.ok.inj hP').symm
      subst this
      exact ⟨P', S, mp, e1, e2, ⟨hl, hP, hi, hs⟩, ⟨hsl, hS, hsub⟩, hmp, he1, he2,
        by simpa using hfe.symm⟩
  · rintro ⟨P, S, mp, e1, e2, hP, hS, hmp, he1, he2, hfe⟩
    have hkv := (keyValidate_iff_canon pk).mpr ⟨P, hP⟩
    have hvp := isValidPubkey_of_canon (s := s) hP
    unfold coreVerify coreVerifyBody
    simp [bind, Except.bind, pure, Except.pure, hvp, hkv, hS.1, hS.2.1, hS.2.2, he1, hmp, hP.2.1, he2,
      hfe, catching, Except.map]

/-! ### list helpers -/

theorem mem_zip_left {α β : Type} : ∀ (l₁ : List α) (l₂ : List β), l₁.length = l₂.length →
    ∀ a ∈ l₁, ∃ b, (a, b) ∈ List.zip l₁ l₂
  | [], _, _, a, h => by cases h
  | x :: xs, [], h, _, _ => by simp at h
  | x :: xs, y :: ys, h, a, ha => by
    rcases List.mem_cons.mp ha with rfl | ha
    · exact ⟨y, by simp⟩
    · obtain ⟨b, hb⟩ := mem_zip_left xs ys (by simpa using h) a ha
      exact ⟨b, by simp [hb]⟩

/-! ### the signature-side pairings cannot raise -/

theorem error_ne_ok {α : Type} {a : α} {e : PyErr} (h : (Except.error e : Except PyErr α) = .ok a) :
    False := by cases h

/-- `decompress_G2` returns only points it has itself checked with `is_on_curve(…, b2)` (or `Z2`) -/
theorem decompressG2_on_curve {z1 z2 : Nat} {S : G2Pt} (h : decompressG2 z1 z2 = .ok S) :
    Gen.OptBls.is_on_curve S blsB2 = true := by
  unfold decompressG2 at h
  simp only [bind, Except.bind, pure, Except.pure, throw, throwThe, MonadExceptOf.throw] at h
  repeat' split at h
  all_goals first
    | exact (error_ne_ok h).elim
    | (have := Except.ok.inj h; subst this; first | rfl | (simp_all))

theorem signatureToG2_on_curve {sig : Bytes} {S : G2Pt} (h : signatureToG2 sig = .ok S) :
    Gen.OptBls.is_on_curve S blsB2 = true :=
  decompressG2_on_curve h

set_option maxRecDepth 100000 in
theorem blsG1_on_curve :
    Gen.OptBls.is_on_curve blsG1 (Fq.ofInt optimized_bls12_381_b : Fq blsP) = true ∧
    Gen.OptBls.is_on_curve (Gen.OptBls.neg blsG1) (Fq.ofInt optimized_bls12_381_b : Fq blsP) = true := by
  decide +kernel

/-- `pairing(S, G1)` and `pairing(S, −G1)` with `S` any decoded signature return (no `ValueError`) -/
theorem pairing_sig_ok {sig : Bytes} {S : G2Pt} (h : signatureToG2 sig = .ok S) :
    (∃ e, pairingOptBls S blsG1 false = .ok e) ∧
    (∃ e, pairingOptBls S (Gen.OptBls.neg blsG1) false = .ok e) :=
  ⟨pairingOptBls_ok_of_on_curve (signatureToG2_on_curve h) blsG1_on_curve.1,
   pairingOptBls_ok_of_on_curve (signatureToG2_on_curve h) blsG1_on_curve.2⟩

end PyEcc.BlsSem
