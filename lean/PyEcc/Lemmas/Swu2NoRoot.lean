/-
  PyEcc.Lemmas.Swu2NoRoot — the cubic `g(x) = x³ + A'x + B'` (`A' = 240i`, `B' = 1012(1+i)`) of the
  3-isogenous curve of BLS12-381 G2 has no root in `K2 = Fp²` (equivalently: the curve has no point of
  order 2, so the `y` of the SSWU map is never `0` and `sgn0(y) = sgn0(t)` holds without exception).

  Proof (as for G1, `Lemmas/SwuNoRoot.lean`): a root `r` satisfies `r^(p²) = r` (Fermat in `K2`).
  `x^(p²) mod g` is computed by the kernel in the cubic algebra `Fp²[x]/(g)`, with elements of `Fp²`
  written as pairs of integers `(a, b) = a + b·i` (`xPowQ = (c0, c1, c2)`); evaluation at `r` is
  multiplicative, so `c0 + c1·r + c2·r² = r`.  Eliminating `r²`, `r³` between this and `g(r) = 0`
  leaves a linear equation `α·r + β = 0` with concrete `α ≠ 0`, and `α³·g(−β/α) ≠ 0` by evaluation.
  (This part is a statement about the field `K2` only; it does not involve the model.)
-/
import PyEcc.Lemmas.Swu2
import PyEcc.Lemmas.Swu2Sgn

set_option maxRecDepth 100000

namespace PyEcc.Swu2
open PyEcc PyEcc.Fqp PyEcc.FqpSem PyEcc.Spec Gen.Consts

/-! ### `Fp²` as pairs of integers -/

/-- `a + b·i` -/
abbrev CI := ℤ × ℤ

def cmul (a b : CI) : CI := (a.1 * b.1 - a.2 * b.2, a.1 * b.2 + a.2 * b.1)
def cadd (a b : CI) : CI := (a.1 + b.1, a.2 + b.2)
def csub (a b : CI) : CI := (a.1 - b.1, a.2 - b.2)
/-- reduction of both coordinates mod `p` -/
def cred (a : CI) : CI := (a.1 % (blsP : ℤ), a.2 % (blsP : ℤ))

/-- `A' = 240·i` -/
def cA : CI := (0, 240)
/-- `B' = 1012·(1 + i)` -/
def cB : CI := (1012, 1012)

/-- the value of a pair in `K2` -/
noncomputable def qi (a : CI) : K2 := (a.1 : K2) + (a.2 : K2) * i2

theorem qi_cmul (a b : CI) : qi (cmul a b) = qi a * qi b := by
  unfold qi cmul; push_cast; linear_combination (-(a.2 : K2) * (b.2 : K2)) * i2_sq
theorem qi_cadd (a b : CI) : qi (cadd a b) = qi a + qi b := by
  unfold qi cadd; push_cast; ring
theorem qi_csub (a b : CI) : qi (csub a b) = qi a - qi b := by
  unfold qi csub; push_cast; ring
theorem qi_cred (a : CI) : qi (cred a) = qi a := by
  unfold qi cred; rw [cast_emod, cast_emod]
theorem qi_cA : qi cA = kA := by unfold qi cA kA; push_cast; ring
theorem qi_cB : qi cB = kB := by unfold qi cB kB; push_cast; ring

/-! ### the cubic algebra `Fp²[x]/(x³ + A'x + B')` -/

/-- product of `a0 + a1·x + a2·x²` and `b0 + b1·x + b2·x²`, reduced by `x³ = −A'x − B'` -/
def mulK (a b : CI × CI × CI) : CI × CI × CI :=
  let c0 := cmul a.1 b.1
  let c1 := cadd (cmul a.1 b.2.1) (cmul a.2.1 b.1)
  let c2 := cadd (cadd (cmul a.1 b.2.2) (cmul a.2.1 b.2.1)) (cmul a.2.2 b.1)
  let c3 := cred (cadd (cmul a.2.1 b.2.2) (cmul a.2.2 b.2.1))
  let c4 := cred (cmul a.2.2 b.2.2)
  (cred (csub c0 (cmul cB c3)), cred (csub (csub c1 (cmul cA c3)) (cmul cB c4)),
    cred (csub c2 (cmul cA c4)))

/-- square-and-multiply in the cubic algebra, with fuel -/
def powAuxK : ℕ → CI × CI × CI → CI × CI × CI → ℕ → CI × CI × CI
  | 0, o, _, _ => o
  | f+1, o, t, e =>
    if e = 0 then o
    else powAuxK f (if e % 2 = 1 then mulK o t else o) (mulK t t) (e / 2)

/-- `x^(p²) mod (x³ + A'x + B')` -/
def xPowQ : CI × CI × CI := powAuxK (blsP ^ 2) ((1, 0), (0, 0), (0, 0)) ((0, 0), (1, 0), (0, 0)) (blsP ^ 2)

/-- the coefficients of the linear relation `α·r + β = 0` satisfied by a root `r` of `g` -/
def nrAlpha : CI :=
  cred (cadd (csub (cmul (csub xPowQ.2.1 (1, 0)) (csub xPowQ.2.1 (1, 0))) (cmul xPowQ.2.2 xPowQ.1))
    (cmul cA (cmul xPowQ.2.2 xPowQ.2.2)))
def nrBeta : CI :=
  cred (cadd (cmul (csub xPowQ.2.1 (1, 0)) xPowQ.1) (cmul cB (cmul xPowQ.2.2 xPowQ.2.2)))
/-- `α³·g(−β/α) = −β³ − A'·β·α² + B'·α³` -/
def nrCheck : CI :=
  cred (cadd (csub (csub (0, 0) (cmul nrBeta (cred (cmul nrBeta nrBeta))))
      (cmul (cred (cmul cA nrBeta)) (cred (cmul nrAlpha nrAlpha))))
    (cmul cB (cred (cmul nrAlpha (cred (cmul nrAlpha nrAlpha))))))

/-- evaluation of a coefficient triple at `r` -/
noncomputable def evK (r : K2) (a : CI × CI × CI) : K2 := qi a.1 + qi a.2.1 * r + qi a.2.2 * r ^ 2

theorem evK_mulK (r : K2) (hr : r ^ 3 + kA * r + kB = 0) (a b : CI × CI × CI) :
    evK r (mulK a b) = evK r a * evK r b := by
  obtain ⟨a0, a1, a2⟩ := a
  obtain ⟨b0, b1, b2⟩ := b
  dsimp only [evK, mulK]
  simp only [qi_cred, qi_csub, qi_cadd, qi_cmul, qi_cA, qi_cB]
  linear_combination (-(qi a1 * qi b2 + qi a2 * qi b1) - (qi a2 * qi b2) * r) * hr

theorem evK_powAuxK (r : K2) (hr : r ^ 3 + kA * r + kB = 0) :
    ∀ (f : ℕ) (o t : CI × CI × CI) (e : ℕ), e ≤ f →
      evK r (powAuxK f o t e) = evK r o * evK r t ^ e := by
  intro f
  induction f with
  | zero =>
    intro o t e h
    have : e = 0 := by omega
    subst this
    simp [powAuxK]
  | succ f ih =>
    intro o t e h
    unfold powAuxK
    by_cases he : e = 0
    · subst he; simp
    · rw [if_neg he, ih _ _ _ (by omega)]
      have hsplit : e = 2 * (e / 2) + e % 2 := by omega
      by_cases hodd : e % 2 = 1
      · rw [if_pos hodd]
        conv_rhs => rw [hsplit, hodd, pow_add, pow_mul, pow_one]
        rw [evK_mulK r hr, evK_mulK r hr]
        ring
      · rw [if_neg hodd]
        have hev : e % 2 = 0 := by omega
        conv_rhs => rw [hsplit, hev, add_zero, pow_mul]
        rw [evK_mulK r hr]
        ring

/-- Fermat in `K2`: `r^(p²) = r` -/
theorem pow_q (r : K2) : r ^ (blsP ^ 2) = r := by
  by_cases h : r = 0
  · subst h; exact zero_pow (by decide)
  · have : blsP ^ 2 = (blsP ^ 2 - 1) + 1 := by decide +kernel
    rw [this, pow_succ, fermat_K2 r h, one_mul]

/-- a root `r` of `g` satisfies `c0 + c1·r + c2·r² = r` where `(c0, c1, c2) = x^(p²) mod g` -/
theorem evK_xPowQ (r : K2) (hr : r ^ 3 + kA * r + kB = 0) : evK r xPowQ = r := by
  unfold xPowQ
  rw [evK_powAuxK r hr _ _ _ _ (le_refl _)]
  simp only [evK, qi]
  push_cast
  simp only [add_zero, zero_add, zero_mul, one_mul]
  exact pow_q r

/-- kernel evaluation of `x^(p²) mod g`: `α ≠ 0` and `α³·g(−β/α) ≠ 0` -/
theorem nr_facts : nrAlpha ≠ (0, 0) ∧ nrCheck ≠ (0, 0) ∧
    (0 ≤ nrCheck.1 ∧ nrCheck.1 < blsP ∧ 0 ≤ nrCheck.2 ∧ nrCheck.2 < blsP) := by decide +kernel

/-- a reduced pair that is not `(0, 0)` is not zero in `K2` -/
theorem qi_ne_zero {a : CI} (h : a ≠ (0, 0)) (h1 : 0 ≤ a.1 ∧ a.1 < blsP ∧ 0 ≤ a.2 ∧ a.2 < blsP) :
    qi a ≠ 0 := by
  obtain ⟨x, y⟩ := a
  intro h0
  apply h
  have hc : Canon (f2c [x, y]) := by
    refine ⟨rfl, ?_⟩
    intro c hc
    simp only [f2c, List.mem_cons, List.not_mem_nil, or_false] at hc
    rcases hc with rfl | rfl
    · exact ⟨h1.1, h1.2.1⟩
    · exact ⟨h1.2.2.1, h1.2.2.2⟩
  have hq : q (f2c [x, y]) = 0 := by rw [q_pair]; exact h0
  have := (q_eq_zero hc).mp hq
  rw [zero_pair] at this
  have h2 : [x, y] = [0, 0] := congrArg Fqp.coeffs this
  simp only [List.cons.injEq, and_true] at h2
  rw [h2.1, h2.2]

/-- **`x³ + A'x + B'` has no root in `K2`** -/
theorem sswuG_ne_zero (x : K2) : sswuG kA kB x ≠ 0 := by
  intro hr
  unfold sswuG at hr
  have hh := evK_xPowQ x hr
  unfold evK at hh
  have hα : qi nrAlpha = (qi xPowQ.2.1 - 1) ^ 2 - qi xPowQ.2.2 * qi xPowQ.1 + kA * qi xPowQ.2.2 ^ 2 := by
    unfold nrAlpha
    simp only [qi_cred, qi_csub, qi_cadd, qi_cmul, qi_cA]
    have : qi (1, 0) = 1 := by unfold qi; push_cast; ring
    rw [this]; ring
  have hβ : qi nrBeta = (qi xPowQ.2.1 - 1) * qi xPowQ.1 + kB * qi xPowQ.2.2 ^ 2 := by
    unfold nrBeta
    simp only [qi_cred, qi_csub, qi_cadd, qi_cmul, qi_cB]
    have : qi (1, 0) = 1 := by unfold qi; push_cast; ring
    rw [this]; ring
  have hchk : qi nrCheck = -(qi nrBeta ^ 3) - kA * qi nrBeta * qi nrAlpha ^ 2 + kB * qi nrAlpha ^ 3 := by
    unfold nrCheck
    simp only [qi_cred, qi_csub, qi_cadd, qi_cmul, qi_cA, qi_cB]
    have : qi (0, 0) = 0 := by unfold qi; push_cast; ring
    rw [this]; ring
  have hlin : qi nrAlpha * x + qi nrBeta = 0 := by
    rw [hα, hβ]
    generalize qi xPowQ.1 = c0 at hh ⊢
    generalize qi xPowQ.2.1 = c1 at hh ⊢
    generalize qi xPowQ.2.2 = c2 at hh ⊢
    linear_combination (c2 ^ 2) * hr - (c2 * x - (c1 - 1)) * hh
  apply qi_ne_zero nr_facts.2.1 nr_facts.2.2
  rw [hchk]
  have hβx : qi nrBeta = -(qi nrAlpha * x) := by linear_combination hlin
  rw [hβx]
  linear_combination (qi nrAlpha ^ 3) * hr

/-! ### consequences for `optimized_swu_G2` -/

/-- the `y` computed by `optimized_swu_G2` is never zero -/
theorem sY_ne {t : F2} (ht : Canon t) : sY t ≠ 0 := by
  intro h
  have h2 := q_Y_sq (t := t)
  rw [q_Y0_sq' ht, h, q_zero, q_consts.1, q_consts.2.1] at h2
  exact sswuG_ne_zero _ (by rw [← h2]; ring)

/-- hence the sign fix always works: `sgn0(y) = sgn0(t)` -/
theorem sY_sgn0 {t : F2} (ht : Canon t) : Fqp.sgn0_fq2 (sY t) = Fqp.sgn0_fq2 t := by
  have hne := sY_ne ht
  unfold sY at hne ⊢
  by_cases h : Fqp.sgn0_fq2 t = Fqp.sgn0_fq2 (sY0 t)
  · rw [if_neg (not_not.mpr h)]; exact h.symm
  · rw [if_pos h] at hne ⊢
    have hy0 : sY0 t ≠ 0 := by
      intro h0; apply hne; rw [h0]; decide
    have h1 := sgn0_neg_ne (cn_Y0 ht) hy0
    have h2 := sgn0_lt_two _ (cn_Y0 ht)
    have h3 := sgn0_lt_two _ (cn_neg (cn_Y0 ht))
    have h4 := sgn0_lt_two _ ht
    omega

/-- `Y / D` computed with the model's `FQ2.__truediv__` is the `y` before the multiplication by `D` -/
theorem sY_mul_div {t : F2} (ht : Canon t) : sY t * sD t / sD t = sY t := by
  obtain ⟨hc, hq⟩ := q_div (cn_mul (cn_Y ht) (cn_D ht)) (cn_D ht) sD_ne
  apply q_inj hc (cn_Y ht)
  rw [hq, q_mul (cn_Y ht) (cn_D ht), mul_div_assoc, div_self (q_D_ne ht), mul_one]

end PyEcc.Swu2
