/-
  PyEcc.Lemmas.CurveAux — curve-independent helper lemmas for property C07.

  `CurveSem.sDouble / sAdd / sNeg / sOn` are the chord–tangent formulas of the py_ecc reference curve
  modules written once, in mathematical notation (numerals `3 : F`, no `Except`).  They are proved to
  compute Mathlib's group law on `(W b).Point` through `reprRef`.  The per-curve property files
  (`Props/C07_Bls.lean`, `Props/C07_Bn.lean`, instantiated from `Props/C07.lean.tpl`) only show that the
  GENERATED functions agree pointwise with these and then restate everything about the generated code.
-/
import Mathlib.AlgebraicGeometry.EllipticCurve.Affine.Point
import Mathlib.Tactic.Ring
import Mathlib.Tactic.FieldSimp
import Mathlib.Tactic.LinearCombination
import Mathlib.Tactic.NormNum
import PyEcc.Sem.Curve

namespace PyEcc.CurveSem
open WeierstrassCurve

set_option linter.unusedSectionVars false
variable {F : Type} [Field F] [DecidableEq F]

/-- tangent formula; a point with `y = 0` (order two) doubles to ∞ -/
def sDouble (pt : Option (F × F)) : Option (F × F) :=
  match pt with
  | none => none
  | some (x, y) =>
    if y = 0 then none else
    let m := 3 * x ^ 2 / (2 * y)
    let newx := m ^ 2 - 2 * x
    let newy := -m * newx + m * x - y
    some (newx, newy)

/-- chord–tangent addition -/
def sAdd (p1 p2 : Option (F × F)) : Option (F × F) :=
  match p1, p2 with
  | none, q => q
  | some p, none => some p
  | some (x1, y1), some (x2, y2) =>
    if x2 = x1 ∧ y2 = y1 then sDouble (some (x1, y1))
    else if x2 = x1 then none
    else
      let m := (y2 - y1) / (x2 - x1)
      let newx := m ^ 2 - x1 - x2
      let newy := -m * newx + m * x1 - y1
      some (newx, newy)

def sNeg (pt : Option (F × F)) : Option (F × F) :=
  match pt with
  | none => none
  | some (x, y) => some (x, -y)

/-- membership in `y² = x³ + b` (∞ included) -/
def sOn (pt : Option (F × F)) (b : F) : Prop :=
  match pt with
  | none => True
  | some (x, y) => y ^ 2 - x ^ 3 = b

theorem negY_W (b x y : F) : (W b).negY x y = -y := by simp [Affine.negY, W]

theorem equation_W_iff (b x y : F) : (W b).Equation x y ↔ y ^ 2 - x ^ 3 = b := by
  rw [Affine.equation_iff]
  simp only [W]
  constructor
  · intro h; linear_combination h
  · intro h; linear_combination h

/-- on `y² = x³ + b` with `b ≠ 0` (and `2, 3 ≠ 0`) every point is nonsingular -/
theorem nonsingular_W_of_equation {b : F} (h2 : (2 : F) ≠ 0) (h3 : (3 : F) ≠ 0) (hb : b ≠ 0)
    {x y : F} (h : y ^ 2 - x ^ 3 = b) : (W b).Nonsingular x y := by
  rw [Affine.nonsingular_iff]
  refine ⟨(equation_W_iff b x y).mpr h, ?_⟩
  simp only [W]
  by_cases hx : x = 0
  · right
    subst hx
    intro hy
    have h2y : 2 * y = 0 := by linear_combination hy
    rcases mul_eq_zero.mp h2y with h' | h'
    · exact h2 h'
    · subst h'
      apply hb
      rw [← h]; ring
  · left
    intro h0
    have : 3 * x ^ 2 = 0 := by linear_combination -h0
    rcases mul_eq_zero.mp this with h' | h'
    · exact h3 h'
    · exact hx (pow_eq_zero_iff (by norm_num) |>.mp h')

theorem reprRef_injective {b : F} : Function.Injective (reprRef (b := b)) := by
  intro P Q h
  rcases P with _ | ⟨x1, y1, h1⟩ <;> rcases Q with _ | ⟨x2, y2, h2⟩
  · rfl
  · simp [reprRef] at h
  · simp [reprRef] at h
  · simp only [reprRef, Option.some.injEq, Prod.mk.injEq] at h
    obtain ⟨rfl, rfl⟩ := h
    rfl

theorem sOn_reprRef {b : F} (P : (W b).Point) : sOn (reprRef P) b := by
  rcases P with _ | ⟨x, y, h⟩
  · trivial
  · exact (equation_W_iff b x y).mp h.1

/-- every solution of the curve equation (and ∞) is the representation of a Mathlib point -/
theorem exists_repr {b : F} (h2 : (2 : F) ≠ 0) (h3 : (3 : F) ≠ 0) (hb : b ≠ 0)
    {pt : Option (F × F)} (h : sOn pt b) : ∃ P : (W b).Point, reprRef P = pt := by
  rcases pt with _ | ⟨x, y⟩
  · exact ⟨0, rfl⟩
  · exact ⟨.some x y (nonsingular_W_of_equation h2 h3 hb h), rfl⟩

theorem sOn_iff_exists {b : F} (h2 : (2 : F) ≠ 0) (h3 : (3 : F) ≠ 0) (hb : b ≠ 0)
    (pt : Option (F × F)) : sOn pt b ↔ ∃ P : (W b).Point, reprRef P = pt :=
  ⟨exists_repr h2 h3 hb, fun ⟨P, hP⟩ => hP ▸ sOn_reprRef P⟩

theorem sNeg_refines {b : F} (P : (W b).Point) : sNeg (reprRef P) = reprRef (-P) := by
  rcases P with _ | ⟨x, y, h⟩
  · rfl
  · show some (x, -y) = reprRef (-(Affine.Point.some x y h))
    rw [Affine.Point.neg_some, reprRef_some, negY_W]

theorem sAdd_refines {b : F} (h2 : (2 : F) ≠ 0) (P Q : (W b).Point) :
    sAdd (reprRef P) (reprRef Q) = reprRef (P + Q) := by
  symm
  rcases P with _ | ⟨x1, y1, h1⟩ <;> rcases Q with _ | ⟨x2, y2, h2'⟩
  · rfl
  · rfl
  · rfl
  · have e1 := (Affine.equation_iff _ _).mp h1.1
    have e2 := (Affine.equation_iff _ _).mp h2'.1
    simp only [W] at e1 e2
    simp only [reprRef_some, sAdd]
    by_cases hx : x1 = x2
    · subst hx
      have hyy : y1 = y2 ∨ y1 = -y2 := by
        have : (y1 - y2) * (y1 + y2) = 0 := by linear_combination e1 - e2
        rcases mul_eq_zero.mp this with h | h
        · left; linear_combination h
        · right; linear_combination h
      by_cases hy : y1 = (W b).negY x1 y2
      · rw [Affine.Point.add_of_Y_eq rfl hy, reprRef_zero]
        rw [negY_W] at hy
        subst hy
        by_cases hy0 : y2 = 0
        · subst hy0; simp [sDouble]
        · have hne : ¬ (y2 = -y2) := by
            intro h
            have : 2 * y2 = 0 := by linear_combination h
            rcases mul_eq_zero.mp this with h | h
            · exact h2 h
            · exact hy0 h
          simp [hne]
      · rw [negY_W] at hy
        have hyeq : y1 = y2 := by
          rcases hyy with h | h
          · exact h
          · exact absurd h hy
        subst hyeq
        have hy0 : y1 ≠ 0 := by
          intro h; apply hy; rw [h]; simp
        rw [Affine.Point.add_of_Y_ne (by rw [negY_W]; exact hy), reprRef_some]
        simp only [and_self, if_true, sDouble, hy0, if_false]
        rw [Affine.slope_of_Y_ne rfl (by rw [negY_W]; exact hy)]
        simp only [Affine.addX, Affine.addY, Affine.negAddY, Affine.negY, W]
        simp only [mul_zero, zero_mul, sub_zero, add_zero]
        congr 1
        ext
        · simp only; ring
        · simp only; ring
    · have hx' : ¬ x2 = x1 := fun h => hx h.symm
      rw [Affine.Point.add_of_X_ne hx, reprRef_some]
      simp only [hx', false_and, if_false]
      rw [Affine.slope_of_X_ne hx]
      simp only [Affine.addX, Affine.addY, Affine.negAddY, Affine.negY, W]
      have hd : x1 - x2 ≠ 0 := sub_ne_zero.mpr hx
      have hd' : x2 - x1 ≠ 0 := sub_ne_zero.mpr hx'
      congr 1
      ext
      · simp only; field_simp; ring
      · simp only; field_simp; ring

theorem sDouble_refines {b : F} (h2 : (2 : F) ≠ 0) (P : (W b).Point) :
    sDouble (reprRef P) = reprRef (P + P) := by
  rw [← sAdd_refines h2]
  rcases P with _ | ⟨x, y, h⟩
  · rfl
  · simp [reprRef, sAdd]

/-- the second chord-ordinate of `add` (the `newy != …` consistency check of the Python code) always
    agrees with the first, in any field -/
theorem chord_check (x1 y1 x2 y2 : F) (hx : x2 ≠ x1) :
    -((y2 - y1) / (x2 - x1)) * (((y2 - y1) / (x2 - x1)) ^ 2 - x1 - x2) + (y2 - y1) / (x2 - x1) * x1 - y1
      = -((y2 - y1) / (x2 - x1)) * (((y2 - y1) / (x2 - x1)) ^ 2 - x1 - x2)
          + (y2 - y1) / (x2 - x1) * x2 - y2 := by
  have hd : x2 - x1 ≠ 0 := sub_ne_zero.mpr hx
  have hm : (y2 - y1) / (x2 - x1) * (x2 - x1) = y2 - y1 := by field_simp
  linear_combination -hm

end PyEcc.CurveSem
