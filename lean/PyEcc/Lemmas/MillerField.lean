/-
  PyEcc.Lemmas.MillerField — the semantic field `K12 = Fp[w]/(w¹² − 2w⁶ + 2)` of BLS12-381 `FQ12`
  coordinates (both class variants), the embedding `ι : K2 → K12`, `i ↦ w⁶ − 1`, and the values of the
  model's `embed12`, `castFq12`, `wElem`, `twistOptBls`, `twistRefBls` in `K12`.
-/
import PyEcc.Sem.TransferFqp
import PyEcc.Sem.TransferFq
import PyEcc.Props.C08_Fq12
import PyEcc.Lemmas.BlsFrobW
import PyEcc.Lemmas.MillerRefTransfer
import PyEcc.Model.Pairing

set_option linter.unusedSectionVars false
set_option maxRecDepth 100000

namespace PyEcc.MillerSem
open Polynomial PyEcc PyEcc.Gen PyEcc.Gen.Consts PyEcc.Fqp PyEcc.FqpSem PyEcc.Transfer PyEcc.PairingSem

/-- BLS12-381: the semantic field of `FQ12` coordinates -/
abbrev K12 : Type := AdjoinRoot (modulus blsP blsMc12)

/-- the generator `w` of `K12` -/
noncomputable abbrev w12 : K12 := AdjoinRoot.root (modulus blsP blsMc12)

/-- the generator `i` of `K2` -/
noncomputable abbrev i2 : K2 := AdjoinRoot.root (modulus blsP blsMc2)

/-- BLS12-381 `FQ12` (both class variants): `toQ` is a `GoodHom` into the field `K12` -/
theorem goodHom_F12 {v : Variant} :
    GoodHom (Canon (v := v) (p := blsP) (mc := blsMc12)) (toQ : Fqp v blsP blsMc12 → K12) :=
  goodHom_toQ (by decide) Irred12.sane_bls12

theorem k12_two_ne_zero : (2 : K12) ≠ 0 := by
  have e2 : (2 : K12) = toQ (((2 : ℕ) : Fqp .opt blsP blsMc12)) := by
    rw [(goodHom_F12 (v := .opt)).map_natCast]; norm_cast
  rw [e2]; exact toQ_ne_zero_of (by decide) (by decide)

/-! ### the embedding `K2 → K12` -/

theorem modulus_bls2 : modulus blsP blsMc2 = X ^ 2 + 1 := by
  simp [modulus, blsMc2, fields_bls12_381_fq2_modulus_coeffs, ev]

/-- `ι : K2 → K12`, `i ↦ w⁶ − 1` (the "field isomorphism" of `twist`) -/
noncomputable def iota : K2 →+* K12 :=
  AdjoinRoot.lift (AdjoinRoot.of (modulus blsP blsMc12)) (w12 ^ 6 - 1) (by
    rw [modulus_bls2]
    simp only [eval₂_add, eval₂_pow, eval₂_X, eval₂_one]
    linear_combination y_sq)

theorem iota_i2 : iota i2 = w12 ^ 6 - 1 := AdjoinRoot.lift_root _

theorem iota_injective : Function.Injective iota := RingHom.injective iota

theorem iota_eq_zero {a : K2} : iota a = 0 ↔ a = 0 := by
  rw [← map_zero iota]; exact iota_injective.eq_iff

theorem iota_intCast (k : ℤ) : iota (k : K2) = (k : K12) := map_intCast iota k

/-- the value of a 2-coefficient list -/
theorem toQ_pair {v : Variant} (a b : Int) :
    toQ (⟨[a, b]⟩ : Fqp v blsP blsMc2) = (a : K2) + (b : K2) * i2 := by
  simp only [toQ, evQ, ev_cons, ev_nil, mul_zero, add_zero, map_add, map_mul, AdjoinRoot.mk_X,
    AdjoinRoot.mk_C]
  rw [← intCast_eq_of, ← intCast_eq_of]
  ring

theorem w12_ne_zero : w12 ≠ 0 := by
  have e : w12 = toQ (wElem : Fqp .opt blsP blsMc12) := by
    simp [wElem, toQ_ofInts, evQ, AdjoinRoot.mk_X]
  rw [e]; exact toQ_ne_zero_of (by decide) (by decide)

theorem toQ_wElem {v : Variant} : toQ (wElem : Fqp v blsP blsMc12) = w12 := by
  simp [wElem, toQ_ofInts, evQ, AdjoinRoot.mk_X]

theorem canon_wElem {v : Variant} : Canon (wElem : Fqp v blsP blsMc12) :=
  canon_ofInts (by decide) (by decide)

/-- `cast_point_to_fq12` coordinate: the value is the base-field element -/
theorem toQ_castFq12 {v : Variant} (x : Fq blsP) :
    toQ (castFq12 x : Fqp v blsP blsMc12) = ((x.n : ℤ) : K12) := by
  simp [castFq12, toQ_ofInts, evQ]

theorem canon_castFq12 {v : Variant} (x : Fq blsP) : Canon (castFq12 x : Fqp v blsP blsMc12) :=
  canon_ofInts (by decide) (by rfl)

/-- the base field inside `K12` -/
noncomputable def ofZ : ZMod blsP →+* K12 := AdjoinRoot.of (modulus blsP blsMc12)

theorem toQ_castFq12' {v : Variant} (x : Fq blsP) :
    toQ (castFq12 x : Fqp v blsP blsMc12) = ofZ (Fq.toZMod x) := by
  rw [toQ_castFq12, Fq.toZMod_def, Int.cast_natCast, map_natCast]

/-! ### `embed12` in `K12` -/

theorem canon_embed12 {v : Variant} (k : Int) (p0 p1 : Nat) (x : Fqp v blsP blsMc2) :
    Canon (embed12 k p0 p1 x : Fqp v blsP blsMc12) :=
  canon_ofInts (by decide) (by simp [blsMc12, fields_bls12_381_fq12_modulus_coeffs])

theorem wf_pair {v : Variant} {x : Fqp v blsP blsMc2} (hx : WF x) :
    x = ⟨[getI x.coeffs 0, getI x.coeffs 1]⟩ := by
  obtain ⟨l⟩ := x
  have hl : l.length = 2 := hx
  match l, hl with
  | [a, b], _ => rfl

theorem iota_toQ {v : Variant} {x : Fqp v blsP blsMc2} (hx : WF x) :
    iota (toQ x) = ((getI x.coeffs 0 - getI x.coeffs 1 * 1 : ℤ) : K12)
      + ((getI x.coeffs 1 : ℤ) : K12) * w12 ^ 6 := by
  conv_lhs => rw [wf_pair hx]
  rw [toQ_pair, map_add, map_mul, iota_intCast, iota_intCast, iota_i2]
  push_cast
  ring

/-- `y`-coordinate of the optimized twist / both coordinates of the reference twist before division -/
theorem toQ_embed12_0 {v : Variant} {x : Fqp v blsP blsMc2} (hx : WF x) :
    toQ (embed12 1 0 6 x : Fqp v blsP blsMc12) = iota (toQ x) := by
  rw [iota_toQ hx, embed12, toQ_ofInts]
  have : ∀ c0 c1 : Int, (List.range 12).map (fun i => if i = 0 then c0 else if i = 6 then c1 else 0)
      = [c0, 0, 0, 0, 0, 0, c1, 0, 0, 0, 0, 0] := fun _ _ => rfl
  rw [this]
  simp only [evQ, ev_cons, ev_nil, map_add, map_mul, AdjoinRoot.mk_X, AdjoinRoot.mk_C, map_zero,
    Int.cast_zero, mul_zero, add_zero, zero_add]
  rw [← intCast_eq_of, ← intCast_eq_of]
  ring

/-- `x`-coordinate of the optimized twist: coefficients at positions 1 and 7, i.e. times `w` -/
theorem toQ_embed12_1 {v : Variant} {x : Fqp v blsP blsMc2} (hx : WF x) :
    toQ (embed12 1 1 7 x : Fqp v blsP blsMc12) = iota (toQ x) * w12 := by
  rw [iota_toQ hx, embed12, toQ_ofInts]
  have : ∀ c0 c1 : Int, (List.range 12).map (fun i => if i = 1 then c0 else if i = 7 then c1 else 0)
      = [0, c0, 0, 0, 0, 0, 0, c1, 0, 0, 0, 0] := fun _ _ => rfl
  rw [this]
  simp only [evQ, ev_cons, ev_nil, map_add, map_mul, AdjoinRoot.mk_X, AdjoinRoot.mk_C, map_zero,
    Int.cast_zero, mul_zero, add_zero, zero_add]
  rw [← intCast_eq_of, ← intCast_eq_of]
  ring

/-- `z`-coordinate of the optimized twist: coefficients at positions 3 and 9, i.e. times `w³` -/
theorem toQ_embed12_3 {v : Variant} {x : Fqp v blsP blsMc2} (hx : WF x) :
    toQ (embed12 1 3 9 x : Fqp v blsP blsMc12) = iota (toQ x) * w12 ^ 3 := by
  rw [iota_toQ hx, embed12, toQ_ofInts]
  have : ∀ c0 c1 : Int, (List.range 12).map (fun i => if i = 3 then c0 else if i = 9 then c1 else 0)
      = [0, 0, 0, c0, 0, 0, 0, 0, 0, c1, 0, 0] := fun _ _ => rfl
  rw [this]
  simp only [evQ, ev_cons, ev_nil, map_add, map_mul, AdjoinRoot.mk_X, AdjoinRoot.mk_C, map_zero,
    Int.cast_zero, mul_zero, add_zero, zero_add]
  rw [← intCast_eq_of, ← intCast_eq_of]
  ring

/-! ### the twists in `K12` -/

/-- the optimized twist on values: `(x, y, z) ↦ (ι x · w, ι y, ι z · w³)` -/
noncomputable def twK (T : K2 × K2 × K2) : K12 × K12 × K12 :=
  (iota T.1 * w12, iota T.2.1, iota T.2.2 * w12 ^ 3)

theorem toQ_twistOptBls {R : OBls2 × OBls2 × OBls2} (c : CanonT R) :
    mapT toQ (twistOptBls R : OBls12 × OBls12 × OBls12) = twK (mapT toQ R) := by
  obtain ⟨x, y, z⟩ := R
  obtain ⟨cx, cy, cz⟩ := c
  simp only [twistOptBls, mapT_mk, twK, toQ_embed12_0 cy.wf, toQ_embed12_1 cx.wf,
    toQ_embed12_3 cz.wf]

theorem canonT_twistOptBls (R : OBls2 × OBls2 × OBls2) :
    CanonT (twistOptBls R : OBls12 × OBls12 × OBls12) := by
  obtain ⟨x, y, z⟩ := R
  exact ⟨canon_embed12 _ _ _ _, canon_embed12 _ _ _ _, canon_embed12 _ _ _ _⟩

/-- the reference twist on values: `(x, y) ↦ (ι x / w², ι y / w³)` -/
noncomputable def twA (q : Option (K2 × K2)) : Option (K12 × K12) :=
  q.map fun xy => (iota xy.1 / w12 ^ 2, iota xy.2 / w12 ^ 3)

theorem toQ_twistRefBls {q : Option (RBls2 × RBls2)} (c : GoodO Canon q) :
    mapO toQ (twistRefBls q : Option (RBls12 × RBls12)) = twA (mapO toQ q)
      ∧ GoodO Canon (twistRefBls q : Option (RBls12 × RBls12)) := by
  rcases q with _ | ⟨x, y⟩
  · exact ⟨rfl, goodO_none _⟩
  · obtain ⟨cx, cy⟩ := c _ rfl
    have h := goodHom_F12 (v := .ref)
    have cw2 : Canon ((wElem : RBls12) ^ 2) := h.good_pow 2 canon_wElem
    have cw3 : Canon ((wElem : RBls12) ^ 3) := h.good_pow 3 canon_wElem
    have cnx : Canon (embed12 1 0 6 x : RBls12) := canon_embed12 _ _ _ _
    have cny : Canon (embed12 1 0 6 y : RBls12) := canon_embed12 _ _ _ _
    constructor
    · simp only [twistRefBls, mapO_some, twA, Option.map_some]
      rw [h.map_div cnx cw2, h.map_div cny cw3, h.map_pow 2 canon_wElem, h.map_pow 3 canon_wElem,
        toQ_wElem, toQ_embed12_0 cx.wf, toQ_embed12_0 cy.wf]
    · exact goodO_some (h.good_div cnx cw2) (h.good_div cny cw3)

end PyEcc.MillerSem
