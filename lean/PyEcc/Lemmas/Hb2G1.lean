/-
  PyEcc.Lemmas.Hb2G1 — HB2 for `E(Fp)` of BLS12-381, helper level: the model field `F1 = Fq blsP` is finite
  with `p` elements; the automorphism `φ(x, y) = (ω·x, y)` on `CurvePt blsB`; from the kernel facts of
  `Lemmas/Hb2FactsG1.lean` a subgroup `≅ (Z/q)²` for each `q ∈ {11, 10177, 859267, 52437899}`; hence
  `h₁·r ∣ #E(Fp)`.
-/
import PyEcc.Lemmas.Hb2Phi
import PyEcc.Lemmas.Hb2FactsG1
import PyEcc.Sem.PrattCerts2
import PyEcc.Props.C07_Model

set_option linter.unusedSectionVars false
set_option maxRecDepth 100000

namespace PyEcc.Hb2
open PyEcc PyEcc.Gen PyEcc.Gen.Consts PyEcc.Transfer WeierstrassCurve

/-- the group `E(Fp)` of BLS12-381: Mathlib points of `y² = x³ + 4` over the model field `Fq blsP` -/
abbrev E1 : Type := CurvePt (blsB : F1)

noncomputable instance : Fintype F1 := Fintype.ofEquiv (ZMod blsP) Fq.ringEquiv.symm.toEquiv

theorem card_F1 : Fintype.card F1 = blsP := by
  rw [Fintype.card_congr Fq.ringEquiv.toEquiv, ZMod.card]

instance : Finite E1 := finite_point (blsB : F1)

/-- `#E(Fp) ≤ 2p + 1` -/
theorem card_E1_le : Nat.card E1 ≤ 2 * blsP + 1 := by
  have key : ∀ n, Fintype.card F1 = n → Nat.card E1 ≤ 2 * n + 1 := by
    rintro n rfl
    have := @card_point_le F1 _ _ _ blsB
    exact this
  exact key blsP card_F1

/-- `φ(x, y) = (ω·x, y)` on `E(Fp)` -/
noncomputable def phi1 : E1 →+ E1 :=
  phi f1_two_ne_zero f1_three_ne_zero f1_b_ne_zero c1_facts.1

theorem represents_phiT1 {T : G1Pt} {P : E1} (r : Represents T P) : Represents (phiT1 T) (phi1 P) :=
  represents_phi f1_two_ne_zero f1_three_ne_zero f1_b_ne_zero c1_facts.1 c1_facts.2.1 r

/-- from the checked facts about a triple `T`: a subgroup of `E(Fp)` of order `q²` and exponent `q` -/
theorem sq_subgroup_E1 {T : G1Pt} {q l₁ l₂ : ℕ} [Fact q.Prime] (h : SqFacts1 T q l₁ l₂)
    (hroots : ∀ k : ZMod q, k ^ 3 = 1 → k = 1 ∨ k = (l₁ : ZMod q) ∨ k = (l₂ : ZMod q)) :
    ∃ H : AddSubgroup E1, Nat.card H = q ^ 2 ∧ ∀ x ∈ H, q • x = 0 := by
  obtain ⟨hon, hinf, hq, e0, e1, e2⟩ := h
  obtain ⟨P, r⟩ := (on_curve_iff_F1 T).mp hon
  have hP0 : P ≠ 0 := fun e => by
    have := (opt_is_inf_refines_F1 r).mpr e
    rw [hinf] at this; exact Bool.noConfusion this
  have hPq : q • P = 0 := (opt_is_inf_refines_F1 (opt_multiply_refines_F1 r q)).mp hq
  have rφ := represents_phiT1 r
  have ne_of : ∀ {T' : G1Pt} {Q : E1}, Represents T' Q → OptBls.eq (phiT1 T) T' = false →
      phi1 P ≠ Q := by
    intro T' Q r' he e
    rw [(opt_eq_refines_F1 rφ r').mpr e] at he
    exact Bool.noConfusion he
  exact exists_sq_subgroup_of_phi phi1 P hP0 hPq
    (phi_cube f1_two_ne_zero f1_three_ne_zero f1_b_ne_zero c1_facts.1 P) l₁ l₂ hroots
    (ne_of r e0) (ne_of (opt_multiply_refines_F1 r l₁) e1) (ne_of (opt_multiply_refines_F1 r l₂) e2)

instance fact_11 : Fact (Nat.Prime 11) := ⟨by norm_num⟩
instance fact_10177 : Fact (Nat.Prime 10177) := ⟨Pratt.prime_10177⟩
instance fact_859267 : Fact (Nat.Prime 859267) := ⟨Pratt.prime_859267⟩
instance fact_52437899 : Fact (Nat.Prime 52437899) := ⟨Pratt.prime_52437899⟩

theorem sq_E1_11 : ∃ H : AddSubgroup E1, Nat.card H = 11 ^ 2 ∧ ∀ x ∈ H, 11 • x = 0 :=
  sq_subgroup_E1 pt1_11_facts (cube_roots_of_mod3 (by decide))

theorem sq_E1_10177 : ∃ H : AddSubgroup E1, Nat.card H = 10177 ^ 2 ∧ ∀ x ∈ H, 10177 • x = 0 :=
  sq_subgroup_E1 pt1_10177_facts
    (cube_roots_of_split _ _ (by decide +kernel) (by decide +kernel))

theorem sq_E1_859267 : ∃ H : AddSubgroup E1, Nat.card H = 859267 ^ 2 ∧ ∀ x ∈ H, 859267 • x = 0 :=
  sq_subgroup_E1 pt1_859267_facts
    (cube_roots_of_split _ _ (by decide +kernel) (by decide +kernel))

theorem sq_E1_52437899 :
    ∃ H : AddSubgroup E1, Nat.card H = 52437899 ^ 2 ∧ ∀ x ∈ H, 52437899 • x = 0 :=
  sq_subgroup_E1 pt1_52437899_facts (cube_roots_of_mod3 (by decide +kernel))

/-- a point of order 3: `(0, 2)` -/
theorem three_dvd_card_E1 : 3 ∣ Nat.card E1 := by
  obtain ⟨hon, hinf, h3⟩ := pt1_3_facts
  obtain ⟨P, r⟩ := (on_curve_iff_F1 pt1_3).mp hon
  have hP0 : P ≠ 0 := fun e => by
    have := (opt_is_inf_refines_F1 r).mpr e
    rw [hinf] at this; exact Bool.noConfusion this
  have hP3 : 3 • P = 0 := (opt_is_inf_refines_F1 (opt_multiply_refines_F1 r 3)).mp h3
  have : Fact (Nat.Prime 3) := ⟨Nat.prime_three⟩
  exact dvd_card_of_order P (addOrderOf_eq_prime hP3 hP0)

theorem r_dvd_card_E1 : blsR ∣ Nat.card E1 := by
  obtain ⟨_, G, _, _, _, hG⟩ := C07M.blsG1_point
  exact dvd_card_of_order G hG

/-- the factorisation of the G1 cofactor: `h₁ = 3·11²·10177²·859267²·52437899²` -/
theorem h1_factor :
    Spec.BLS12381.h1 = 3 * 11 ^ 2 * 10177 ^ 2 * 859267 ^ 2 * 52437899 ^ 2 := by decide +kernel

/-- **`h₁·r` divides `#E(Fp)`** -/
theorem h1r_dvd_card_E1 : Spec.BLS12381.h1 * blsR ∣ Nat.card E1 := by
  obtain ⟨H1, c1, _⟩ := sq_E1_11
  obtain ⟨H2, c2, _⟩ := sq_E1_10177
  obtain ⟨H3, c3, _⟩ := sq_E1_859267
  obtain ⟨H4, c4, _⟩ := sq_E1_52437899
  have d1 := sq_dvd_card H1 c1
  have d2 := sq_dvd_card H2 c2
  have d3 := sq_dvd_card H3 c3
  have d4 := sq_dvd_card H4 c4
  rw [h1_factor]
  have e1 : 3 * 11 ^ 2 ∣ Nat.card E1 :=
    Nat.Coprime.mul_dvd_of_dvd_of_dvd (by decide +kernel) three_dvd_card_E1 d1
  have e2 : 3 * 11 ^ 2 * 10177 ^ 2 ∣ Nat.card E1 :=
    Nat.Coprime.mul_dvd_of_dvd_of_dvd (by decide +kernel) e1 d2
  have e3 : 3 * 11 ^ 2 * 10177 ^ 2 * 859267 ^ 2 ∣ Nat.card E1 :=
    Nat.Coprime.mul_dvd_of_dvd_of_dvd (by decide +kernel) e2 d3
  have e4 : 3 * 11 ^ 2 * 10177 ^ 2 * 859267 ^ 2 * 52437899 ^ 2 ∣ Nat.card E1 :=
    Nat.Coprime.mul_dvd_of_dvd_of_dvd (by decide +kernel) e3 d4
  exact Nat.Coprime.mul_dvd_of_dvd_of_dvd (by decide +kernel) e4 r_dvd_card_E1

end PyEcc.Hb2
