/-
  PyEcc.Lemmas.Hb2G2 — HB2 for the twist `E'(Fp²)` of BLS12-381, helper level: `K2 = F_p[X]/(X²+1)` has `p²`
  elements; the automorphism `φ(x, y) = (ω·x, y)` on `CurvePt (toQ blsB2)`; from the kernel facts of
  `Lemmas/Hb2FactsG2.lean` subgroups `≅ (Z/13)²`, `(Z/23)²` and points of order `2713, 11953, 262069, Q`;
  hence `h₂·r ∣ #E'(Fp²)`.
-/
import PyEcc.Lemmas.Hb2Phi
import PyEcc.Lemmas.Hb2FactsG2
import PyEcc.Sem.PrattCerts2
import PyEcc.Sem.Fq2Sqrt
import PyEcc.Props.C07_Model

set_option linter.unusedSectionVars false
set_option maxRecDepth 100000

namespace PyEcc.Hb2
open PyEcc PyEcc.Gen PyEcc.Gen.Consts PyEcc.FqpSem PyEcc.Transfer WeierstrassCurve

/-- the group `E'(Fp²)` of BLS12-381: Mathlib points of `y² = x³ + 4(1+i)` over `K2` -/
abbrev E2 : Type := CurvePt (toQ blsB2 : K2)

instance : Finite E2 := by classical exact finite_point (toQ blsB2 : K2)

/-- `#E'(Fp²) ≤ 2p² + 1` -/
theorem card_E2_le : Nat.card E2 ≤ 2 * blsP ^ 2 + 1 := by
  classical
  have key : ∀ n, Fintype.card K2 = n → Nat.card E2 ≤ 2 * n + 1 := by
    rintro n rfl
    have := @card_point_le K2 _ _ _ (toQ blsB2)
    exact this
  exact key _ Fq2Sqrt.card_K2

theorem c2_cube : (toQ c2 : K2) ^ 3 = 1 := by
  obtain ⟨cc, _, h3, _⟩ := c2_facts
  have g := goodHom_F2 (v := .opt)
  have : (toQ c2 : K2) ^ 3 = toQ (c2 * c2 * c2) := by
    rw [g.map_mul (g.good_mul cc cc) cc, g.map_mul cc cc]; ring
  rw [this, h3, g.map_one]

theorem w2_eq : (toQ w2 : K2) = toQ c2 ^ 2 := by
  obtain ⟨cc, _, _, hw⟩ := c2_facts
  rw [hw, (goodHom_F2 (v := .opt)).map_mul cc cc]; ring

section
variable [DecidableEq K2]

/-- `φ(x, y) = (ω·x, y)` on `E'(Fp²)` -/
noncomputable def phi2 : E2 →+ E2 :=
  phi k2_field_ok.1 k2_field_ok.2.1 k2_field_ok.2.2.2 c2_cube

theorem represents_phiT2 {T : G2Pt} {P : E2} (c : CanonT T) (r : Represents (mapT toQ T) P) :
    CanonT (phiT2 T) ∧ Represents (mapT toQ (phiT2 T)) (phi2 P) := by
  have g := goodHom_F2 (v := .opt)
  refine ⟨⟨g.good_mul c.1 c2_facts.2.1, c.2.1, c.2.2⟩, ?_⟩
  have := represents_phi k2_field_ok.1 k2_field_ok.2.1 k2_field_ok.2.2.2 c2_cube w2_eq r
  have e : mapT (toQ : F2 → K2) (phiT2 T)
      = ((mapT toQ T).1 * toQ w2, (mapT toQ T).2.1, (mapT toQ T).2.2) := by
    obtain ⟨x, y, z⟩ := T
    simp only [phiT2, mapT_mk, g.map_mul c.1 c2_facts.2.1]
  rw [e]; exact this

/-- from the checked facts about a triple `T`: a subgroup of `E'(Fp²)` of order `q²` and exponent `q` -/
theorem sq_subgroup_E2 {T : G2Pt} {q l₁ l₂ : ℕ} [Fact q.Prime] (h : SqFacts2 T q l₁ l₂)
    (hroots : ∀ k : ZMod q, k ^ 3 = 1 → k = 1 ∨ k = (l₁ : ZMod q) ∨ k = (l₂ : ZMod q)) :
    ∃ H : AddSubgroup E2, Nat.card H = q ^ 2 ∧ ∀ x ∈ H, q • x = 0 := by
  obtain ⟨c, hon, hinf, hq, e0, e1, e2⟩ := h
  obtain ⟨P, r⟩ := (on_curve_iff_F2 c).mp hon
  have hP0 : P ≠ 0 := fun e => by
    have := (opt_is_inf_refines_F2 c r).mpr e
    rw [hinf] at this; exact Bool.noConfusion this
  have cm : ∀ n, CanonT (OptBls.multiply T n) := fun n => (canonT_ops c c n).2.2.2.1
  have hPq : q • P = 0 := (opt_is_inf_refines_F2 (cm q) (opt_multiply_refines_F2 c r q)).mp hq
  obtain ⟨cφ, rφ⟩ := represents_phiT2 c r
  have ne_of : ∀ {T' : G2Pt} {Q : E2}, CanonT T' → Represents (mapT toQ T') Q →
      OptBls.eq (phiT2 T) T' = false → phi2 P ≠ Q := by
    intro T' Q c' r' he e
    rw [(opt_eq_refines_F2 cφ c' rφ r').mpr e] at he
    exact Bool.noConfusion he
  exact exists_sq_subgroup_of_phi phi2 P hP0 hPq
    (phi_cube k2_field_ok.1 k2_field_ok.2.1 k2_field_ok.2.2.2 c2_cube P) l₁ l₂ hroots
    (ne_of c r e0) (ne_of (cm l₁) (opt_multiply_refines_F2 c r l₁) e1)
    (ne_of (cm l₂) (opt_multiply_refines_F2 c r l₂) e2)

/-- from the checked facts about a triple `T`: `q ∣ #E'(Fp²)` -/
theorem dvd_card_E2 {T : G2Pt} {q : ℕ} [Fact q.Prime] (h : CycFacts2 T q) : q ∣ Nat.card E2 := by
  obtain ⟨c, hon, hinf, hq⟩ := h
  obtain ⟨P, r⟩ := (on_curve_iff_F2 c).mp hon
  have hP0 : P ≠ 0 := fun e => by
    have := (opt_is_inf_refines_F2 c r).mpr e
    rw [hinf] at this; exact Bool.noConfusion this
  have hPq : q • P = 0 :=
    (opt_is_inf_refines_F2 (canonT_ops c c q).2.2.2.1 (opt_multiply_refines_F2 c r q)).mp hq
  exact dvd_card_of_order P (addOrderOf_eq_prime hPq hP0)

end

instance fact_13 : Fact (Nat.Prime 13) := ⟨by norm_num⟩
instance fact_23 : Fact (Nat.Prime 23) := ⟨by norm_num⟩
instance fact_2713 : Fact (Nat.Prime 2713) := ⟨Pratt.prime_2713⟩
instance fact_11953 : Fact (Nat.Prime 11953) := ⟨Pratt.prime_11953⟩
instance fact_262069 : Fact (Nat.Prime 262069) := ⟨Pratt.prime_262069⟩
instance fact_bigQ : Fact (Nat.Prime bigQ) :=
  ⟨Pratt.prime_402096035359507321594726366720466575392706800671181159425656785868777272553337714697862511267018014931937703598282857976535744623203249⟩

theorem sq_E2_13 : ∃ H : AddSubgroup E2, Nat.card H = 13 ^ 2 ∧ ∀ x ∈ H, 13 • x = 0 := by
  classical
  exact sq_subgroup_E2 pt2_13_facts (cube_roots_of_split _ _ (by decide) (by decide))

theorem sq_E2_23 : ∃ H : AddSubgroup E2, Nat.card H = 23 ^ 2 ∧ ∀ x ∈ H, 23 • x = 0 := by
  classical
  exact sq_subgroup_E2 pt2_23_facts (cube_roots_of_mod3 (by decide))

theorem r_dvd_card_E2 : blsR ∣ Nat.card E2 := by
  classical
  obtain ⟨_, _, G, _, _, _, hG⟩ := C07M.blsG2_point
  exact dvd_card_of_order G hG

/-- the factorisation of the G2 cofactor: `h₂ = 13²·23²·2713·11953·262069·Q` -/
theorem h2_factor :
    blsconst_G2_COFACTOR = 13 ^ 2 * 23 ^ 2 * 2713 * 11953 * 262069 * bigQ := by decide +kernel

/-- **`h₂·r` divides `#E'(Fp²)`** -/
theorem h2r_dvd_card_E2 : blsconst_G2_COFACTOR * blsR ∣ Nat.card E2 := by
  classical
  obtain ⟨H1, c1, _⟩ := sq_E2_13
  obtain ⟨H2, c2, _⟩ := sq_E2_23
  have d1 := sq_dvd_card H1 c1
  have d2 := sq_dvd_card H2 c2
  have d3 : 2713 ∣ Nat.card E2 := dvd_card_E2 pt2_2713_facts
  have d4 : 11953 ∣ Nat.card E2 := dvd_card_E2 pt2_11953_facts
  have d5 : 262069 ∣ Nat.card E2 := dvd_card_E2 pt2_262069_facts
  have d6 : bigQ ∣ Nat.card E2 := dvd_card_E2 pt2_Q_facts
  rw [h2_factor]
  have e2 : 13 ^ 2 * 23 ^ 2 ∣ Nat.card E2 :=
    Nat.Coprime.mul_dvd_of_dvd_of_dvd (by decide +kernel) d1 d2
  have e3 : 13 ^ 2 * 23 ^ 2 * 2713 ∣ Nat.card E2 :=
    Nat.Coprime.mul_dvd_of_dvd_of_dvd (by decide +kernel) e2 d3
  have e4 : 13 ^ 2 * 23 ^ 2 * 2713 * 11953 ∣ Nat.card E2 :=
    Nat.Coprime.mul_dvd_of_dvd_of_dvd (by decide +kernel) e3 d4
  have e5 : 13 ^ 2 * 23 ^ 2 * 2713 * 11953 * 262069 ∣ Nat.card E2 :=
    Nat.Coprime.mul_dvd_of_dvd_of_dvd (by decide +kernel) e4 d5
  have e6 : 13 ^ 2 * 23 ^ 2 * 2713 * 11953 * 262069 * bigQ ∣ Nat.card E2 :=
    Nat.Coprime.mul_dvd_of_dvd_of_dvd (by decide +kernel) e5 d6
  exact Nat.Coprime.mul_dvd_of_dvd_of_dvd (by decide +kernel) e6 r_dvd_card_E2

end PyEcc.Hb2
