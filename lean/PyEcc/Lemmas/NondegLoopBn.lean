/-
  PyEcc.Lemmas.NondegLoopBn — the optimized bn128 Miller loop (signed digits, the running point `R`
  a projective triple over FQ12), its two Frobenius line steps, the division and the final power,
  re-expressed over the fast `FQ12` arithmetic `Y12` (`Lemmas/NondegFastBn.lean`), and the proof that
  this returns the coefficient list the model's `optBnMillerLoop` returns — for ALL inputs `Q`, `P`,
  digit lists and exponents.

  Everything (line functions, `double`, `add`, `neg` of the running point) is the GENERATED generic
  function of `Gen/OptBn.lean` instantiated at `Y12` (`Transfer.Bn.good_*` + `goodHom_toL`); `twist` and
  `cast_point_to_fq12` are the model's functions read back into `Y12` (`ofL`); the one division
  `f_num·n1·n2 / (f_den·d1·d2)` is the model's.
-/
import PyEcc.Lemmas.NondegFastBn
import PyEcc.Lemmas.MillerBnOpt
import PyEcc.Lemmas.TransferOptBn
import PyEcc.Lemmas.TwistBn

set_option maxRecDepth 100000
set_option linter.unusedVariables false
set_option linter.unusedSectionVars false

namespace PyEcc.NondegBnSem
open PyEcc PyEcc.Gen PyEcc.Gen.Consts PyEcc.Fqp PyEcc.FqpSem PyEcc.Transfer PyEcc.TwistSem
  PyEcc.MillerBnSem Y12

/-! ### the loop body and the tail, generic in the field type (as the generated functions are) -/

section generic
variable {F : Type} [Zero F] [One F] [Add F] [Sub F] [Mul F] [Neg F] [Div F] [NatCast F] [Pow F Nat]
  [DecidableEq F]

/-- body of `for v in pseudo_binary_encoding[63::-1]` of the optimized bn128 `miller_loop`
    (`MillerBnSem.optBnStep`, i.e. the `step` of `optBnMillerLoop`), for any field type -/
def stepG (Q P : F × F × F) (st : (F × F) × (F × F × F)) (v : Int) : (F × F) × (F × F × F) :=
  let ((fNum, fDen), R) := st
  let (n, d) := Gen.OptBn.linefunc R R P
  let fNum := fNum * fNum * n
  let fDen := fDen * fDen * d
  let R := Gen.OptBn.double R
  if v = 1 then
    let (n, d) := Gen.OptBn.linefunc R Q P
    ((fNum * n, fDen * d), Gen.OptBn.add R Q)
  else if v = -1 then
    let nQ := Gen.OptBn.neg Q
    let (n, d) := Gen.OptBn.linefunc R nQ P
    ((fNum * n, fDen * d), Gen.OptBn.add R nQ)
  else ((fNum, fDen), R)

/-- `Q1 = (x ** p, y ** p, z ** p)` and `nQ2 = (x1 ** p, -y1 ** p, z1 ** p)` -/
def frobG (p : ℕ) (Q : F × F × F) : (F × F × F) × (F × F × F) :=
  let Q1 : F × F × F := (Q.1 ^ p, Q.2.1 ^ p, Q.2.2 ^ p)
  (Q1, (Q1.1 ^ p, -(Q1.2.1 ^ p), Q1.2.2 ^ p))

/-- the two Frobenius line steps: the pair `(f_num·n1·n2, f_den·d1·d2)` -/
def tailG (QQ : (F × F × F) × (F × F × F)) (P : F × F × F) (st : (F × F) × (F × F × F)) : F × F :=
  let ((fNum, fDen), R) := st
  let (n1, d1) := Gen.OptBn.linefunc R QQ.1 P
  let R := Gen.OptBn.add R QQ.1
  let (n2, d2) := Gen.OptBn.linefunc R QQ.2 P
  (fNum * n1 * n2, fDen * d1 * d2)

theorem stepG_eq (Q P : F × F × F) (fN fD : F) (R : F × F × F) (v : Int) :
    stepG Q P ((fN, fD), R) v =
      if v = 1 then
        ((fN * fN * (Gen.OptBn.linefunc R R P).1 * (Gen.OptBn.linefunc (Gen.OptBn.double R) Q P).1,
          fD * fD * (Gen.OptBn.linefunc R R P).2 * (Gen.OptBn.linefunc (Gen.OptBn.double R) Q P).2),
          Gen.OptBn.add (Gen.OptBn.double R) Q)
      else if v = -1 then
        ((fN * fN * (Gen.OptBn.linefunc R R P).1
            * (Gen.OptBn.linefunc (Gen.OptBn.double R) (Gen.OptBn.neg Q) P).1,
          fD * fD * (Gen.OptBn.linefunc R R P).2
            * (Gen.OptBn.linefunc (Gen.OptBn.double R) (Gen.OptBn.neg Q) P).2),
          Gen.OptBn.add (Gen.OptBn.double R) (Gen.OptBn.neg Q))
      else ((fN * fN * (Gen.OptBn.linefunc R R P).1, fD * fD * (Gen.OptBn.linefunc R R P).2),
          Gen.OptBn.double R) := by
  unfold stepG
  split_ifs <;> rfl

theorem tailG_eq (QQ : (F × F × F) × (F × F × F)) (P : F × F × F) (fN fD : F) (R : F × F × F) :
    tailG QQ P ((fN, fD), R) =
      (fN * (Gen.OptBn.linefunc R QQ.1 P).1 * (Gen.OptBn.linefunc (Gen.OptBn.add R QQ.1) QQ.2 P).1,
        fD * (Gen.OptBn.linefunc R QQ.1 P).2 * (Gen.OptBn.linefunc (Gen.OptBn.add R QQ.1) QQ.2 P).2) :=
  rfl

end generic

section model
variable {p : ℕ} {mc12 : List Int}
local notation "F12" => Fqp Variant.opt p mc12

/-- the model's loop body is `stepG` at the model's FQ12 -/
theorem optBnStep_eq_stepG (Q P : F12 × F12 × F12) (st : (F12 × F12) × (F12 × F12 × F12)) (v : Int) :
    optBnStep Q P st v = stepG Q P st v := rfl

/-- the model's tail is `tailG ∘ frobG`, the division and the optional power -/
theorem optBnTail_eq_tailG (fe : Option ℕ) (Q P : F12 × F12 × F12)
    (st : (F12 × F12) × (F12 × F12 × F12)) :
    optBnTail fe Q P st =
      match fe with
      | some e => ((tailG (frobG p Q) P st).1 / (tailG (frobG p Q) P st).2) ^ e
      | none => (tailG (frobG p Q) P st).1 / (tailG (frobG p Q) P st).2 := by
  cases fe <;> rfl

theorem optBnMillerLoop_eq_G (digits : List Int) (fe : Option ℕ) (Q P : F12 × F12 × F12) :
    optBnMillerLoop digits fe Q P =
      match fe with
      | some e => ((tailG (frobG p Q) P (digits.foldl (stepG Q P) (((1 : F12), (1 : F12)), Q))).1
          / (tailG (frobG p Q) P (digits.foldl (stepG Q P) (((1 : F12), (1 : F12)), Q))).2) ^ e
      | none => (tailG (frobG p Q) P (digits.foldl (stepG Q P) (((1 : F12), (1 : F12)), Q))).1
          / (tailG (frobG p Q) P (digits.foldl (stepG Q P) (((1 : F12), (1 : F12)), Q))).2 := by
  rw [optBnMillerLoop_eq, optBnTail_eq_tailG]
  have : (optBnStep Q P) = (stepG Q P) := by
    funext st v; exact optBnStep_eq_stepG Q P st v
  rw [this]

end model

/-! ### the fast instance -/

abbrev TY : Type := Y12 × Y12 × Y12
abbrev TL : Type := OBn12 × OBn12 × OBn12

/-- `twist(Q)` read into the fast representation -/
def twistY (Q : OBn2 × OBn2 × OBn2) : TY := mapT ofL (twistOptBn Q : TL)

/-- `cast_point_to_fq12(P)` read into the fast representation -/
def castY (P : Fq bnP × Fq bnP × Fq bnP) : TY :=
  (ofL (castFq12 P.1), ofL (castFq12 P.2.1), ofL (castFq12 P.2.2))

/-- the state `((f_num, f_den), R)` after the loop, over the fast `FQ12` -/
def loopY (digits : List Int) (Q P : TY) : (Y12 × Y12) × TY :=
  digits.foldl (stepG Q P) (((1 : Y12), (1 : Y12)), Q)

/-- numerator and denominator of the Miller value, over the fast `FQ12` -/
def millerY (digits : List Int) (Q P : TY) : Y12 × Y12 :=
  tailG (frobG bnP Q) P (loopY digits Q P)

/-! ### agreement with the model -/

theorem canon_castFq12' (x : Fq bnP) : Canon (castFq12 x : OBn12) :=
  canon_ofInts (by decide) (by rfl)

theorem mapT_toL_twistY (Q : OBn2 × OBn2 × OBn2) : mapT toL (twistY Q) = (twistOptBn Q : TL) := by
  obtain ⟨c1, c2, c3⟩ := canonT_twistOptBn Q
  simp only [twistY, mapT, toL_ofL c1, toL_ofL c2, toL_ofL c3]

theorem good_twistY (Q : OBn2 × OBn2 × OBn2) : GoodT Good (twistY Q) := by
  obtain ⟨c1, c2, c3⟩ := canonT_twistOptBn Q
  exact ⟨good_ofL c1, good_ofL c2, good_ofL c3⟩

theorem mapT_toL_castY (P : Fq bnP × Fq bnP × Fq bnP) :
    mapT toL (castY P) = ((castFq12 P.1, castFq12 P.2.1, castFq12 P.2.2) : TL) := by
  simp only [castY, mapT, toL_ofL (canon_castFq12' _)]

theorem good_castY (P : Fq bnP × Fq bnP × Fq bnP) : GoodT Good (castY P) :=
  ⟨good_ofL (canon_castFq12' _), good_ofL (canon_castFq12' _), good_ofL (canon_castFq12' _)⟩

/-- the model state denoted by a fast state -/
def liftS (s : (Y12 × Y12) × TY) : (OBn12 × OBn12) × TL := (mapP toL s.1, mapT toL s.2)

theorem liftS_mk (fN fD : Y12) (R : TY) : liftS ((fN, fD), R) = ((toL fN, toL fD), mapT toL R) := rfl

/-- all components of a fast state are reduced -/
def GoodS (s : (Y12 × Y12) × TY) : Prop := GoodP Good s.1 ∧ GoodT Good s.2

theorem goodS_mk {fN fD : Y12} {R : TY} (gN : Good fN) (gD : Good fD) (gR : GoodT Good R) :
    GoodS ((fN, fD), R) := ⟨⟨gN, gD⟩, gR⟩

theorem stepY_spec {Q P : TY} (gQ : GoodT Good Q) (gP : GoodT Good P)
    (s : (Y12 × Y12) × TY) (gs : GoodS s) (v : Int) :
    GoodS (stepG Q P s v) ∧
      liftS (stepG Q P s v) = stepG (mapT toL Q) (mapT toL P) (liftS s) v := by
  obtain ⟨⟨fN, fD⟩, R⟩ := s
  obtain ⟨⟨gN, gD⟩, gR⟩ := gs
  have gR : GoodT Good R := gR
  obtain ⟨⟨g1n, g1d⟩, e1⟩ := Bn.good_linefunc goodHom_toL gR gR gP
  obtain ⟨gd, ed⟩ := Bn.good_double goodHom_toL gR
  obtain ⟨gq, eq⟩ := Bn.good_neg goodHom_toL gQ
  obtain ⟨⟨g2n, g2d⟩, e2⟩ := Bn.good_linefunc goodHom_toL gd gQ gP
  obtain ⟨⟨g3n, g3d⟩, e3⟩ := Bn.good_linefunc goodHom_toL gd gq gP
  obtain ⟨ga2, ea2⟩ := Bn.good_add goodHom_toL gd gQ
  obtain ⟨ga3, ea3⟩ := Bn.good_add goodHom_toL gd gq
  rw [liftS_mk fN fD R, stepG_eq, stepG_eq, ← ed, ← eq, ← e1, ← e2, ← e3, ← ea2, ← ea3]
  by_cases h1 : v = 1
  · simp only [if_pos h1]
    exact ⟨goodS_mk (good_mulF _ _) (good_mulF _ _) ga2, by simp only [liftS_mk, mapP, toL_mul]⟩
  · simp only [if_neg h1]
    by_cases h2 : v = -1
    · simp only [if_pos h2]
      exact ⟨goodS_mk (good_mulF _ _) (good_mulF _ _) ga3, by simp only [liftS_mk, mapP, toL_mul]⟩
    · simp only [if_neg h2]
      exact ⟨goodS_mk (good_mulF _ _) (good_mulF _ _) gd, by simp only [liftS_mk, mapP, toL_mul]⟩

theorem foldl_stepY_spec {Q P : TY} (gQ : GoodT Good Q) (gP : GoodT Good P) :
    ∀ (digits : List Int) (s : (Y12 × Y12) × TY), GoodS s →
      GoodS (digits.foldl (stepG Q P) s) ∧
        liftS (digits.foldl (stepG Q P) s)
          = digits.foldl (stepG (mapT toL Q) (mapT toL P)) (liftS s) := by
  intro digits
  induction digits with
  | nil => intro s gs; exact ⟨gs, rfl⟩
  | cons v ds ih =>
    intro s gs
    obtain ⟨g1, e1⟩ := stepY_spec gQ gP s gs v
    obtain ⟨g2, e2⟩ := ih _ g1
    rw [List.foldl_cons, List.foldl_cons, ← e1]
    exact ⟨g2, e2⟩

theorem loopY_spec {Q P : TY} (gQ : GoodT Good Q) (gP : GoodT Good P) (digits : List Int) :
    GoodS (loopY digits Q P) ∧
      liftS (loopY digits Q P)
        = digits.foldl (stepG (mapT toL Q) (mapT toL P)) (((1 : OBn12), (1 : OBn12)), mapT toL Q) := by
  have g0 : GoodS (((1 : Y12), (1 : Y12)), Q) := goodS_mk good_oneF good_oneF gQ
  obtain ⟨g, e⟩ := foldl_stepY_spec gQ gP digits _ g0
  refine ⟨g, ?_⟩
  rw [loopY, e, liftS_mk (1 : Y12) (1 : Y12) Q, toL_one]

theorem frobY_spec (p : ℕ) {Q : TY} (gQ : GoodT Good Q) :
    GoodT Good (frobG p Q).1 ∧ GoodT Good (frobG p Q).2 ∧
      (mapT toL (frobG p Q).1, mapT toL (frobG p Q).2) = frobG p (mapT toL Q) := by
  obtain ⟨x, y, z⟩ := Q
  refine ⟨⟨good_powF _ _, good_powF _ _, good_powF _ _⟩,
    ⟨good_powF _ _, good_negF _, good_powF _ _⟩, ?_⟩
  simp only [frobG, mapT_mk, toL_pow, toL_neg (good_powF _ _)]

theorem tailY_spec {QQ : TY × TY} {P : TY} (g1 : GoodT Good QQ.1) (g2 : GoodT Good QQ.2)
    (gP : GoodT Good P) (s : (Y12 × Y12) × TY) (gs : GoodS s) :
    toL ((tailG QQ P s).1 / (tailG QQ P s).2)
      = (tailG (mapT toL QQ.1, mapT toL QQ.2) (mapT toL P) (liftS s)).1
          / (tailG (mapT toL QQ.1, mapT toL QQ.2) (mapT toL P) (liftS s)).2 := by
  obtain ⟨⟨fN, fD⟩, R⟩ := s
  obtain ⟨_, gR⟩ := gs
  have gR : GoodT Good R := gR
  obtain ⟨_, e1⟩ := Bn.good_linefunc goodHom_toL gR g1 gP
  obtain ⟨ga, ea⟩ := Bn.good_add goodHom_toL gR g1
  obtain ⟨_, e2⟩ := Bn.good_linefunc goodHom_toL ga g2 gP
  rw [liftS_mk fN fD R, tailG_eq, tailG_eq]
  simp only
  rw [← ea, ← e1, ← e2]
  simp only [toL_div, toL_mul, mapP]

/-- the tail (Frobenius steps, division, optional power) on a lifted state -/
theorem tail_lift {Q P : TY} (gQ : GoodT Good Q) (gP : GoodT Good P)
    (s : (Y12 × Y12) × TY) (gs : GoodS s) :
    toL ((tailG (frobG bnP Q) P s).1 / (tailG (frobG bnP Q) P s).2)
      = (tailG (frobG bnP (mapT toL Q)) (mapT toL P) (liftS s)).1
          / (tailG (frobG bnP (mapT toL Q)) (mapT toL P) (liftS s)).2 := by
  obtain ⟨f1, f2, e⟩ := frobY_spec bnP gQ
  rw [tailY_spec f1 f2 gP s gs, e]

/-- **The optimized bn128 `miller_loop(Q, P, final_exponentiate=True)` of the model, computed by the
    fast arithmetic** (generic form): for every digit list, exponent and reduced FQ12 triples `Q`, `P`,
    the model's value is the coefficient list of `(num / den) ** E` computed over `Y12`. -/
theorem optBnMillerLoop_fast' (digits : List Int) (fe : Option ℕ) {Q P : TY} (gQ : GoodT Good Q)
    (gP : GoodT Good P) :
    (optBnMillerLoop digits fe (mapT toL Q) (mapT toL P) : OBn12)
      = match fe with
        | some e => toL (((millerY digits Q P).1 / (millerY digits Q P).2) ^ e)
        | none => toL ((millerY digits Q P).1 / (millerY digits Q P).2) := by
  obtain ⟨g, e⟩ := loopY_spec gQ gP digits
  have ht := tail_lift gQ gP _ g
  rw [e] at ht
  rw [optBnMillerLoop_eq_G]
  cases fe with
  | none => exact ht.symm
  | some E =>
    simp only
    rw [toL_pow, millerY, ht]

/-- **`pairing`'s call `miller_loop(twist(Q), cast_point_to_fq12(P), True)`, computed by the fast
    arithmetic**: for every digit list, exponent, FQ2 triple `Q` and FQ triple `P`. -/
theorem optBnMillerLoop_fast (digits : List Int) (E : ℕ) (Q : OBn2 × OBn2 × OBn2) (P : Fq bnP × Fq bnP × Fq bnP) :
    (optBnMillerLoop digits (some E) (twistOptBn Q)
        (castFq12 P.1, castFq12 P.2.1, castFq12 P.2.2) : OBn12)
      = toL (((millerY digits (twistY Q) (castY P)).1 / (millerY digits (twistY Q) (castY P)).2) ^ E) := by
  have := optBnMillerLoop_fast' digits (some E) (good_twistY Q) (good_castY P)
  rw [mapT_toL_twistY, mapT_toL_castY] at this
  exact this

/-- the Miller value without the final power -/
theorem optBnMillerLoop_none_fast (digits : List Int) (Q : OBn2 × OBn2 × OBn2) (P : Fq bnP × Fq bnP × Fq bnP) :
    (optBnMillerLoop digits none (twistOptBn Q)
        (castFq12 P.1, castFq12 P.2.1, castFq12 P.2.2) : OBn12)
      = toL ((millerY digits (twistY Q) (castY P)).1 / (millerY digits (twistY Q) (castY P)).2) := by
  have := optBnMillerLoop_fast' digits none (good_twistY Q) (good_castY P)
  rw [mapT_toL_twistY, mapT_toL_castY] at this
  exact this

end PyEcc.NondegBnSem
