/-
  PyEcc.Lemmas.Swu2Shape — names for the intermediate values of `optimized_swu_G2(t)` /
  `sqrt_division_FQ2(u, v)` and the shape of their results.  Core Lean only (no Mathlib), so that every
  `+ * ^ - 0 1` below is, syntactically, the operation of the executable model `PyEcc/Model/Fqp.lean`
  that `optimizedSwuG2` itself uses.

  The two `for` loops ("take the first table entry that passes the test") are rewritten with
  `List.find?` (`firstMatch`).
-/
import PyEcc.Model.Swu

namespace PyEcc.Swu2

/-- "first entry `x` of `l` with `c x`, mapped by `g`; `(False, y)` if there is none" -/
def firstMatch {α β : Type} (c : α → Bool) (g : α → β) (l : List α) (y : β) : Bool × β :=
  match l.find? c with
  | some x => (true, g x)
  | none => (false, y)

/-- the loop `for x in l: if c(x) and not found: found, res = True, g(x)` -/
theorem foldl_firstMatch {α β : Type} (c : α → Bool) (g : α → β) (l : List α) (b : Bool) (y : β) :
    l.foldl (fun (st : Bool × β) x => if c x = true ∧ (!st.1) = true then (true, g x) else (st.1, st.2)) (b, y)
      = if b then (true, y) else firstMatch c g l y := by
  induction l generalizing b y with
  | nil => cases b <;> rfl
  | cons x xs ih =>
    rw [List.foldl_cons]
    cases b
    · cases hx : c x
      · simp only [Bool.false_eq_true, false_and, if_false]
        rw [ih]
        simp only [Bool.false_eq_true, if_false, firstMatch, List.find?_cons, hx]
      · simp only [Bool.not_false, and_self, if_true]
        rw [ih]
        simp only [if_true, Bool.false_eq_true, if_false, firstMatch, List.find?_cons, hx]
    · simp only [Bool.not_true, Bool.false_eq_true, and_false, if_false]
      rw [ih]
      simp only [if_true]

theorem firstMatch_true {α β : Type} {c : α → Bool} {g : α → β} {l : List α} {y : β}
    (h : (firstMatch c g l y).1 = true) :
    ∃ x, x ∈ l ∧ c x = true ∧ (firstMatch c g l y).2 = g x := by
  unfold firstMatch at h ⊢
  cases hf : l.find? c with
  | none => rw [hf] at h; cases h
  | some x => exact ⟨x, List.mem_of_find?_eq_some hf, List.find?_some hf, rfl⟩

theorem firstMatch_false {α β : Type} {c : α → Bool} {g : α → β} {l : List α} {y : β}
    (h : (firstMatch c g l y).1 = false) :
    (∀ x, x ∈ l → c x = false) ∧ (firstMatch c g l y).2 = y := by
  unfold firstMatch at h ⊢
  cases hf : l.find? c with
  | none =>
    refine ⟨fun x hx => ?_, rfl⟩
    have := List.find?_eq_none.mp hf x hx
    cases hc : c x
    · rfl
    · exact absurd hc this
  | some x => rw [hf] at h; cases h

theorem firstMatch_of_mem {α β : Type} {c : α → Bool} {g : α → β} {l : List α} {y : β} {x : α}
    (hx : x ∈ l) (hc : c x = true) : (firstMatch c g l y).1 = true := by
  cases h : (firstMatch c g l y).1
  · have := (firstMatch_false h).1 x hx
    rw [hc] at this; cases this
  · rfl

/-! ### `sqrt_division_FQ2` -/

/-- `gamma = (u v⁷ · v⁸)^((p²−9)/16) · u v⁷` -/
def gammaOf (u v : F2) : F2 := (u * v ^ 7 * v ^ 8) ^ Gen.Consts.h2c_P_MINUS_9_DIV_16 * (u * v ^ 7)

/-- the test `(root · gamma)² · v − u == 0` -/
def rootTest (u v : F2) (root : F2) : Bool := decide ((root * gammaOf u v) ^ 2 * v - u = (0 : F2))

theorem sqrtDivisionFq2_eq (u v : F2) :
    sqrtDivisionFq2 u v
      = firstMatch (rootTest u v) (fun root => root * gammaOf u v) POSITIVE_EIGHTH_ROOTS_OF_UNITY
          (gammaOf u v) := by
  have h := foldl_firstMatch (rootTest u v) (fun root => root * gammaOf u v)
    POSITIVE_EIGHTH_ROOTS_OF_UNITY false (gammaOf u v)
  simp only [Bool.false_eq_true, if_false] at h
  rw [← h]
  unfold sqrtDivisionFq2 rootTest gammaOf
  simp only [decide_eq_true_eq]

/-! ### `optimized_swu_G2` -/

/-- `temp = Z t² + (Z t²)²` -/
def sT (t : F2) : F2 := ISO_3_Z * t ^ 2 + (ISO_3_Z * t ^ 2) ^ 2
/-- `denominator` after the exceptional-case fix -/
def sD (t : F2) : F2 :=
  if -(ISO_3_A * sT t) = (0 : F2) then ISO_3_Z * ISO_3_A else -(ISO_3_A * sT t)
/-- `numerator` (before the second-branch update) -/
def sN (t : F2) : F2 := ISO_3_B * (sT t + (1 : F2))
/-- `v = D³` -/
def sV (t : F2) : F2 := sD t ^ 3
/-- `u = N³ + A·N·D² + B·D³` -/
def sU (t : F2) : F2 := sN t ^ 3 + ISO_3_A * sN t * sD t ^ 2 + ISO_3_B * sV t
/-- `success` -/
def sOk (t : F2) : Bool := (sqrtDivisionFq2 (sU t) (sV t)).1
/-- the candidate returned by `sqrt_division_FQ2` -/
def sR (t : F2) : F2 := (sqrtDivisionFq2 (sU t) (sV t)).2
/-- `sqrt_candidate * t**3` -/
def sC (t : F2) : F2 := sR t * t ^ 3
/-- `u(x1) = (Z t²)³ · u` -/
def sU' (t : F2) : F2 := (ISO_3_Z * t ^ 2) ^ 3 * sU t
/-- the test `(eta · sqrt_candidate)² · v − u(x1) == 0` -/
def etaTest (t : F2) (eta : F2) : Bool := decide ((eta * sC t) ^ 2 * sV t - sU' t = (0 : F2))
/-- the `ETAS` loop when `success = False` -/
def sEta (t : F2) : Bool × F2 := firstMatch (etaTest t) (fun eta => eta * sC t) ETAS (sR t)
/-- `success_2` -/
def sOk2 (t : F2) : Bool := if sOk t then false else (sEta t).1
/-- `y` before the sign fix -/
def sY0 (t : F2) : F2 := if sOk t then sR t else (sEta t).2
/-- `y` after the sign fix, before the multiplication by `denominator` -/
def sY (t : F2) : F2 := if Fqp.sgn0_fq2 t ≠ Fqp.sgn0_fq2 (sY0 t) then -(sY0 t) else sY0 t
/-- final `numerator` -/
def sN' (t : F2) : F2 := if sOk t then sN t else sN t * (ISO_3_Z * t ^ 2)

/-- the `ETAS` loop never fires when `success = True` -/
theorem foldl_never {α β : Type} (f : α → β) (c : α → Prop) [DecidablePred c] (l : List α) (y : β) :
    l.foldl (fun (st : Bool × β) x =>
      if c x ∧ (!true) = true ∧ (!st.1) = true then (true, f x) else (st.1, st.2)) (false, y) = (false, y) := by
  induction l with
  | nil => rfl
  | cons x xs ih =>
    rw [List.foldl_cons]
    simp only [Bool.not_true, Bool.false_eq_true, false_and, and_false, if_false]
    simpa using ih

/-- the shape of the result of `optimized_swu_G2(t)` -/
theorem optimizedSwuG2_eq (t : F2) :
    optimizedSwuG2 t =
      if (!sOk t) = true ∧ (!sOk2 t) = true then .error .other
      else .ok (sN' t, sY t * sD t, sD t) := by
  unfold sN' sY sY0 sOk2 sEta etaTest sU' sC
  unfold sOk sR sU sV sN sD sT
  simp only [optimizedSwuG2]
  generalize sqrtDivisionFq2 _ _ = r
  obtain ⟨b, y⟩ := r
  cases b
  · have h := foldl_firstMatch
      (fun eta => decide ((eta * (y * t ^ 3)) ^ 2 *
        (if -(ISO_3_A * (ISO_3_Z * t ^ 2 + (ISO_3_Z * t ^ 2) ^ 2)) = (0 : F2) then ISO_3_Z * ISO_3_A
          else -(ISO_3_A * (ISO_3_Z * t ^ 2 + (ISO_3_Z * t ^ 2) ^ 2))) ^ 3 -
        (ISO_3_Z * t ^ 2) ^ 3 * ((ISO_3_B * (ISO_3_Z * t ^ 2 + (ISO_3_Z * t ^ 2) ^ 2 + (1 : F2))) ^ 3 +
          ISO_3_A * (ISO_3_B * (ISO_3_Z * t ^ 2 + (ISO_3_Z * t ^ 2) ^ 2 + (1 : F2))) *
            (if -(ISO_3_A * (ISO_3_Z * t ^ 2 + (ISO_3_Z * t ^ 2) ^ 2)) = (0 : F2) then ISO_3_Z * ISO_3_A
              else -(ISO_3_A * (ISO_3_Z * t ^ 2 + (ISO_3_Z * t ^ 2) ^ 2))) ^ 2 +
          ISO_3_B * (if -(ISO_3_A * (ISO_3_Z * t ^ 2 + (ISO_3_Z * t ^ 2) ^ 2)) = (0 : F2) then ISO_3_Z * ISO_3_A
              else -(ISO_3_A * (ISO_3_Z * t ^ 2 + (ISO_3_Z * t ^ 2) ^ 2))) ^ 3) = (0 : F2)))
      (fun eta => eta * (y * t ^ 3)) ETAS false y
    simp only [Bool.false_eq_true, if_false, decide_eq_true_eq] at h
    simp only [Bool.not_false, true_and, Bool.false_eq_true, if_false, if_true]
    rw [h]
  · have h := foldl_never (fun eta => eta * (y * t ^ 3))
      (fun eta => (eta * (y * t ^ 3)) ^ 2 *
        (if -(ISO_3_A * (ISO_3_Z * t ^ 2 + (ISO_3_Z * t ^ 2) ^ 2)) = (0 : F2) then ISO_3_Z * ISO_3_A
          else -(ISO_3_A * (ISO_3_Z * t ^ 2 + (ISO_3_Z * t ^ 2) ^ 2))) ^ 3 -
        (ISO_3_Z * t ^ 2) ^ 3 * ((ISO_3_B * (ISO_3_Z * t ^ 2 + (ISO_3_Z * t ^ 2) ^ 2 + (1 : F2))) ^ 3 +
          ISO_3_A * (ISO_3_B * (ISO_3_Z * t ^ 2 + (ISO_3_Z * t ^ 2) ^ 2 + (1 : F2))) *
            (if -(ISO_3_A * (ISO_3_Z * t ^ 2 + (ISO_3_Z * t ^ 2) ^ 2)) = (0 : F2) then ISO_3_Z * ISO_3_A
              else -(ISO_3_A * (ISO_3_Z * t ^ 2 + (ISO_3_Z * t ^ 2) ^ 2))) ^ 2 +
          ISO_3_B * (if -(ISO_3_A * (ISO_3_Z * t ^ 2 + (ISO_3_Z * t ^ 2) ^ 2)) = (0 : F2) then ISO_3_Z * ISO_3_A
              else -(ISO_3_A * (ISO_3_Z * t ^ 2 + (ISO_3_Z * t ^ 2) ^ 2))) ^ 3) = (0 : F2))
      ETAS y
    simp only [Bool.not_true, Bool.false_eq_true, false_and, if_false, if_true]
    simp only [Bool.not_true, Bool.false_eq_true, false_and, and_false, if_false] at h ⊢
    first | rw [h] | skip

end PyEcc.Swu2
