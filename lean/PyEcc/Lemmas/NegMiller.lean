/-
  PyEcc.Lemmas.NegMiller — the reference Miller loop over `K12` (`loopG`, `Lemmas/NegLoop.lean`) for a
  twisted-type first argument `A` (`x ∈ Fp⁶`, `y ∈ w·Fp⁶`) and an evaluation point `T = (x_T, y_T)` with
  coordinates in `Fp⁶`:
   * `loop_negT`    : the loop at `(x_T, −y_T)` returns `± σ` of the value at `(x_T, y_T)`, same running point;
   * `loop_ne_zero` : the value is non-zero when `y_T ≠ 0` (a vertical chord makes the running point `∞`,
                      after which the reference loop cannot return normally — unless it is the last
                      iteration, which never adds: `NoTrail`);
   * `loop_sigma`   : the loop at `(σ A, σ T)` returns `σ` of the value at `(A, T)`; and `σ A = −A`.
  Hence `(f_A(T) · f_A(−T))^E = 1` and `(f_A(T) · f_{−A}(T))^E = 1` for the final exponent `E`.
-/
import PyEcc.Lemmas.NegLine

set_option linter.unusedSectionVars false
set_option linter.unusedVariables false
set_option maxRecDepth 100000

namespace PyEcc.NegSem
open Polynomial PyEcc PyEcc.Gen PyEcc.Gen.Consts PyEcc.Fqp PyEcc.FqpSem PyEcc.Transfer PyEcc.PairingSem
  PyEcc.MillerSem

variable [DecidableEq K12]

/-! ### negating the evaluation point -/

theorem linefunc_none_left (B T : Option (K12 × K12)) :
    RefBls.linefunc (none : Option (K12 × K12)) B T = .error .value := by
  simp [RefBls.linefunc]

theorem step_negT {A : Option (K12 × K12)} {xt yt : K12} (hA : TwT A) (hxt : InFp6 xt) (hyt : InFp6 yt)
    (ate i : Nat) {f f' : K12} {R : Option (K12 × K12)} {s : K12 × Option (K12 × K12)}
    (hR : TwT R) (hf : SgnRel f f') (h : stepG ate A (some (xt, yt)) (f, R) i = .ok s) :
    ∃ g', stepG ate A (some (xt, -yt)) (f', R) i = .ok (g', s.2) ∧ SgnRel s.1 g' ∧ TwT s.2 := by
  unfold stepG at h ⊢
  simp only at h ⊢
  rcases h1 : RefBls.linefunc R R (some (xt, yt)) with e | l
  · rw [h1] at h; cases h
  rw [h1, okk_bind] at h
  obtain ⟨l', e1, s1⟩ := line_negT hR hR hxt hyt h1
  rw [e1, okk_bind]
  cases hb : bitSet ate i
  · rw [hb] at h
    simp only [Bool.false_eq_true, if_false] at h ⊢
    cases h
    exact ⟨_, rfl, (hf.mul hf).mul s1, twT_double hR⟩
  · rw [hb] at h
    simp only [if_true] at h ⊢
    rcases h2 : RefBls.linefunc (RefBls.double R) A (some (xt, yt)) with e | l2
    · rw [h2] at h; cases h
    rw [h2, okk_bind] at h
    obtain ⟨l2', e2, s2⟩ := line_negT (twT_double hR) hA hxt hyt h2
    rw [e2, okk_bind]
    rcases h3 : RefBls.add (RefBls.double R) A with e | R2
    · rw [h3] at h; cases h
    rw [h3, okk_bind] at h
    cases h
    rw [okk_bind]
    exact ⟨_, rfl, ((hf.mul hf).mul s1).mul s2, twT_add (twT_double hR) hA h3⟩

/-- **the loop at `−T`**: same running point, value `± σ` of the value at `T` -/
theorem loop_negT {A : Option (K12 × K12)} {xt yt : K12} (hA : TwT A) (hxt : InFp6 xt) (hyt : InFp6 yt)
    (ate : Nat) : ∀ (is : List Nat) (f f' : K12) (R : Option (K12 × K12))
      (r : K12 × Option (K12 × K12)), TwT R → SgnRel f f' →
      loopG ate is A (some (xt, yt)) (f, R) = .ok r →
      ∃ g', loopG ate is A (some (xt, -yt)) (f', R) = .ok (g', r.2) ∧ SgnRel r.1 g'
  | [], f, f', R, r, hR, hf, h => by
    rw [loopG_nil] at h; cases h
    exact ⟨f', rfl, hf⟩
  | i :: is, f, f', R, r, hR, hf, h => by
    rw [loopG_cons] at h ⊢
    rcases hs : stepG ate A (some (xt, yt)) (f, R) i with e | s
    · rw [hs] at h; cases h
    rw [hs, okk_bind] at h
    obtain ⟨g1, e1, s1, t1⟩ := step_negT hA hxt hyt ate i hR hf hs
    rw [e1, okk_bind]
    obtain ⟨f1, R1⟩ := s
    exact loop_negT hA hxt hyt ate is f1 g1 R1 r t1 s1 h

/-! ### non-vanishing -/

/-- the last iteration does not add (`True` for the empty list) -/
def NoTrail (ate : Nat) : List Nat → Prop
  | [] => True
  | [i] => bitSet ate i = false
  | _ :: j :: is => NoTrail ate (j :: is)

instance (ate : Nat) : ∀ is : List Nat, Decidable (NoTrail ate is)
  | [] => by unfold NoTrail; infer_instance
  | [i] => by unfold NoTrail; infer_instance
  | _ :: j :: is => by
    unfold NoTrail
    exact instDecidableNoTrail ate (j :: is)

theorem step_ne_zero {A : Option (K12 × K12)} {xt yt : K12} (hA : TwT A) (hxt : InFp6 xt) (hyt : InFp6 yt)
    (hy0 : yt ≠ 0) (ate i : Nat) {f : K12} {R : Option (K12 × K12)} {s : K12 × Option (K12 × K12)}
    (hR : TwT R) (hf : f ≠ 0) (h : stepG ate A (some (xt, yt)) (f, R) i = .ok s) :
    TwT s.2 ∧ (s.1 ≠ 0 ∨ (bitSet ate i = true ∧ s.2 = none)) := by
  unfold stepG at h
  simp only at h
  rcases R with _ | ⟨x, y⟩
  · rw [linefunc_none_left] at h; cases h
  obtain ⟨hx, hy⟩ := hR x y rfl
  rcases h1 : RefBls.linefunc (some (x, y)) (some (x, y)) (some (xt, yt)) with e | l
  · rw [h1] at h; cases h
  rw [h1, okk_bind] at h
  have hl : l ≠ 0 := line_ne_zero hx hy hx hy hxt hyt hy0 h1 (Or.inr rfl)
  cases hb : bitSet ate i
  · rw [hb] at h
    simp only [Bool.false_eq_true, if_false] at h
    cases h
    exact ⟨twT_double hR, Or.inl (mul_ne_zero (mul_ne_zero hf hf) hl)⟩
  · rw [hb] at h
    simp only [if_true] at h
    have hD := twT_double hR
    rcases hd : RefBls.double (some (x, y)) with _ | ⟨x1, y1⟩
    · rw [hd, linefunc_none_left] at h; cases h
    rw [hd] at h hD
    obtain ⟨hx1, hy1⟩ := hD x1 y1 rfl
    rcases A with _ | ⟨x2, y2⟩
    · simp [RefBls.linefunc] at h
      cases h
    obtain ⟨hx2, hy2⟩ := hA x2 y2 rfl
    rcases h2 : RefBls.linefunc (some (x1, y1)) (some (x2, y2)) (some (xt, yt)) with e | l2
    · rw [h2] at h; cases h
    rw [h2, okk_bind] at h
    rcases h3 : RefBls.add (some (x1, y1)) (some (x2, y2)) with e | R2
    · rw [h3] at h; cases h
    rw [h3, okk_bind] at h
    cases h
    refine ⟨twT_add hD hA h3, ?_⟩
    by_cases hv : x1 ≠ x2 ∨ y1 = y2
    · left
      have hl2 : l2 ≠ 0 := line_ne_zero hx1 hy1 hx2 hy2 hxt hyt hy0 h2 hv
      exact mul_ne_zero (mul_ne_zero (mul_ne_zero hf hf) hl) hl2
    · right
      refine ⟨rfl, ?_⟩
      rw [not_or, not_not] at hv
      obtain ⟨c1, c2⟩ := hv
      have c3 : ¬ (x2 = x1 ∧ y2 = y1) := fun c => c2 c.2.symm
      have c4 : x2 = x1 := c1.symm
      simp only [RefBls.add, reduceCtorEq, or_self, if_false] at h3
      rw [if_neg c3, if_pos c4] at h3
      cases h3; rfl

theorem noTrail_tail {ate i : Nat} {is : List Nat} (h : NoTrail ate (i :: is)) : NoTrail ate is := by
  cases is with
  | nil => trivial
  | cons j is => exact h

/-- **the Miller value is non-zero** when `y_T ≠ 0` -/
theorem loop_ne_zero {A : Option (K12 × K12)} {xt yt : K12} (hA : TwT A) (hxt : InFp6 xt) (hyt : InFp6 yt)
    (hy0 : yt ≠ 0) (ate : Nat) : ∀ (is : List Nat) (f : K12) (R : Option (K12 × K12))
      (r : K12 × Option (K12 × K12)), TwT R → f ≠ 0 → NoTrail ate is →
      loopG ate is A (some (xt, yt)) (f, R) = .ok r → r.1 ≠ 0
  | [], f, R, r, hR, hf, _, h => by
    rw [loopG_nil] at h; cases h; exact hf
  | i :: is, f, R, r, hR, hf, hn, h => by
    rw [loopG_cons] at h
    rcases hs : stepG ate A (some (xt, yt)) (f, R) i with e | s
    · rw [hs] at h; cases h
    rw [hs, okk_bind] at h
    obtain ⟨t1, d⟩ := step_ne_zero hA hxt hyt hy0 ate i hR hf hs
    obtain ⟨f1, R1⟩ := s
    rcases d with d | ⟨hb, hnone⟩
    · exact loop_ne_zero hA hxt hyt hy0 ate is f1 R1 r t1 d (noTrail_tail hn) h
    · simp only at hnone
      subst hnone
      cases is with
      | nil =>
        have : bitSet ate i = false := hn
        rw [hb] at this; cases this
      | cons j is =>
        rw [loopG_cons] at h
        unfold stepG at h
        simp only at h
        rw [linefunc_none_left] at h
        cases h

/-! ### conjugating both arguments -/

/-- **the loop at `(σ A, σ T)`** returns `σ` of the state at `(A, T)` -/
theorem loop_sigma (ate : Nat) (is : List Nat) (A T : Option (K12 × K12))
    (st r : K12 × Option (K12 × K12)) (h : loopG ate is A T st = .ok r) :
    loopG ate is (mapO sigma A) (mapO sigma T) (mapSt sigma st) = .ok (mapSt sigma r) := by
  rw [← loopG_map opHom_sigma, h]; rfl

theorem mapO_sigma_base {xt yt : K12} (hxt : InFp6 xt) (hyt : InFp6 yt) :
    mapO sigma (some (xt, yt)) = some (xt, yt) := by
  rw [mapO_some, hxt, hyt]

/-! ### the two products are killed by the final exponent -/

theorem sgnRel_pow_finalExp {f f' : K12} (h0 : f ≠ 0) (h : SgnRel f f') :
    (f * f') ^ blsFinalExp = 1 := by
  rcases h with h | h
  · rw [h]; exact norm_pow_finalExp h0
  · rw [h, mul_neg, neg_pow, neg_one_pow_finalExp, one_mul]; exact norm_pow_finalExp h0

end PyEcc.NegSem
