/-
  PyEcc.Lemmas.Hkdf — helper lemmas for C16 (core Lean only): HMAC key padding, the loop
  invariant of `hkdf_expand`, the loop of `KeyGen`.
-/
import PyEcc.Lemmas.HashBytes
import PyEcc.Model.Bls

namespace PyEcc.C16
open PyEcc.C15

/-- The condition under which RFC 2104 is unambiguous for a key: after the optional hashing step the
    key has at most `B` bytes (so that padding gives exactly `B` bytes).  It holds for every key as
    soon as `digest_size ≤ block_size` — true of every real hash function. -/
def HmacKeyOk (H : HashFn) (key : Bytes) : Prop :=
  key.length ≤ H.blockSize ∨ (H.run key).length ≤ H.blockSize

theorem hmacKeyOk_of_WF {H : HashFn} (hw : H.WF) (key : Bytes) : HmacKeyOk H key :=
  .inr (by rw [hw.run_length]; exact hw.digest_le_block)

theorem zipWith_xor_replicate (l : Bytes) (n : Nat) (c : UInt8) (h : l.length ≤ n) :
    List.zipWith (· ^^^ ·) l (List.replicate n c) = l.map (· ^^^ c) := by
  induction l generalizing n with
  | nil => simp
  | cons a l ih =>
    cases n with
    | zero => simp at h
    | succ n =>
      rw [List.replicate_succ, List.zipWith_cons_cons, List.map_cons, ih n (by simpa using h)]

theorem hmacKey_length {H : HashFn} {key : Bytes} (h : HmacKeyOk H key) :
    (Spec.hmacKey H key).length = H.blockSize := by
  unfold Spec.hmacKey
  simp only [List.length_append, List.length_replicate]
  split
  · rcases h with h | h <;> omega
  · omega

theorem hmac_eq_spec_aux (H : HashFn) (key msg : Bytes) (h : HmacKeyOk H key) :
    hmac H key msg = Spec.hmac H key msg := by
  have hl := hmacKey_length h
  unfold hmac Spec.hmac Spec.strxor
  simp only
  rw [zipWith_xor_replicate _ _ _ (Nat.le_of_eq hl), zipWith_xor_replicate _ _ _ (Nat.le_of_eq hl)]
  rfl

/-! ### hkdf_expand -/

/-- `T(1) ‖ … ‖ T(n)` -/
def flatT (H : HashFn) (prk info : Bytes) (n : Nat) : Bytes :=
  ((List.range n).map fun i => Spec.hkdfT H prk info (i + 1)).flatten

theorem flatT_succ (H : HashFn) (prk info : Bytes) (n : Nat) :
    flatT H prk info (n + 1) = flatT H prk info n ++ Spec.hkdfT H prk info (n + 1) := by
  simp [flatT, List.range_succ]

/-- Loop invariant of `for i in range(0, n)`: entering iteration `i`, `previous = T(i)` and
    `okm = T(1) ‖ … ‖ T(i)`; `k` more iterations, none reaching `bytes([256])`, give
    `T(1) ‖ … ‖ T(i+k)`. -/
theorem hkdfExpandLoop_ok (H : HashFn) (prk info : Bytes) (hk : HmacKeyOk H prk) : ∀ k i, i + k ≤ 255 →
    hkdfExpandLoop H prk info k i (Spec.hkdfT H prk info i) (flatT H prk info i)
      = .ok (flatT H prk info (i + k)) := by
  intro k
  induction k with
  | zero => intro i _; rfl
  | succ k ih =>
    intro i hi
    unfold hkdfExpandLoop
    rw [if_neg (by omega)]
    simp only
    have hT : hmac H prk (Spec.hkdfT H prk info i ++ info ++ [UInt8.ofNat (i + 1)])
        = Spec.hkdfT H prk info (i + 1) := by
      rw [hmac_eq_spec_aux H prk _ hk, Spec.hkdfT, I2OSP_one]
    rw [hT, ← flatT_succ, ih (i + 1) (by omega)]
    congr 2
    omega

/-- If the loop is to run past `i = 255` it raises `ValueError` (`bytes([256])`). -/
theorem hkdfExpandLoop_error (H : HashFn) (prk info : Bytes) : ∀ k i, i ≤ 255 → 255 < i + k →
    ∀ prev okm, hkdfExpandLoop H prk info k i prev okm = .error .value := by
  intro k
  induction k with
  | zero => intro i h1 h2; omega
  | succ k ih =>
    intro i h1 h2 prev okm
    unfold hkdfExpandLoop
    by_cases h : i + 1 > 255
    · rw [if_pos h]
    · rw [if_neg h]
      exact ih (i + 1) (by omega) (by omega) _ _

theorem hkdfT_length (H : HashFn) (hw : H.WF) (prk info : Bytes) (i : Nat) :
    (Spec.hkdfT H prk info (i + 1)).length = H.digestSize := by
  unfold Spec.hkdfT Spec.hmac
  exact hw.run_length _

theorem flatT_length (H : HashFn) (hw : H.WF) (prk info : Bytes) (n : Nat) :
    (flatT H prk info n).length = n * H.digestSize := by
  induction n with
  | zero => simp [flatT]
  | succ n ih => rw [flatT_succ, List.length_append, ih, hkdfT_length H hw, Nat.add_mul]; omega

theorem hkdfOkm_length (H : HashFn) (hw : H.WF) (prk info : Bytes) (L : Nat) :
    (Spec.hkdfOkm H prk info L).length = L := by
  unfold Spec.hkdfOkm
  simp only
  have := flatT_length H hw prk info (Spec.ceilDiv L H.digestSize)
  unfold flatT at this
  rw [List.length_take, this]
  have := (spec_ceilDiv_le_iff L (Spec.ceilDiv L H.digestSize) hw.digest_pos).mp (Nat.le_refl _)
  omega

theorem hkdfExpand_eq_aux (H : HashFn) (prk info : Bytes) (hk : HmacKeyOk H prk)
    (h32 : H.digestSize = 32) (L : Nat) :
    hkdfExpand H prk info L =
      if L ≤ 255 * 32 then .ok (Spec.hkdfOkm H prk info L) else .error .value := by
  unfold hkdfExpand
  rw [ceilDiv_eq_spec L (by decide : 0 < 32)]
  have hc := spec_ceilDiv_le_iff L 255 (b := 32) (by decide)
  by_cases h : L ≤ 255 * 32
  · rw [if_pos h]
    have := hkdfExpandLoop_ok H prk info hk (Spec.ceilDiv L 32) 0 (by omega)
    rw [Nat.zero_add] at this
    change hkdfExpandLoop H prk info (Spec.ceilDiv L 32) 0 [] [] = _ at this
    simp only [this, bind, Except.bind, pure, Except.pure]
    unfold Spec.hkdfOkm flatT
    rw [h32]
  · rw [if_neg h]
    dsimp only
    rw [hkdfExpandLoop_error H prk info (Spec.ceilDiv L 32) 0 (by omega) (by omega)]
    rfl

/-! ### KeyGen -/

/-- the value of `salt` on entry to pass `n` of the loop (before `salt = H(salt)`) -/
def saltBefore (H : HashFn) : Nat → Bytes
  | 0 => Spec.keyGenSalt
  | n + 1 => Spec.keyGenSaltAt H n

theorem run_saltBefore (H : HashFn) (n : Nat) : H.run (saltBefore H n) = Spec.keyGenSaltAt H n := by
  cases n <;> rfl

theorem keyGenSalt_eq : "BLS-SIG-KEYGEN-SALT-".toUTF8.toList = Spec.keyGenSalt := by
  decide +kernel

theorem spec_keyGenFrom_some_iff (H : HashFn) (r : Nat) (ikm info : Bytes) (sk : Nat) :
    ∀ fuel n, Spec.keyGenFrom H r ikm info fuel n = some sk ↔
      ∃ k, k < fuel ∧ Spec.keyGenCandidate H r ikm info (n + k) = sk ∧ sk ≠ 0 ∧
        ∀ m, m < k → Spec.keyGenCandidate H r ikm info (n + m) = 0 := by
  intro fuel
  induction fuel with
  | zero => intro n; simp [Spec.keyGenFrom]
  | succ fuel ih =>
    intro n
    unfold Spec.keyGenFrom
    simp only
    by_cases h0 : Spec.keyGenCandidate H r ikm info n = 0
    · rw [if_pos h0, ih (n + 1)]
      constructor
      · rintro ⟨k, hk, hc, hne, hz⟩
        refine ⟨k + 1, by omega, by rw [← hc]; congr 1; omega, hne, ?_⟩
        intro m hm
        cases m with
        | zero => exact h0
        | succ m => rw [← hz m (by omega)]; congr 1; omega
      · rintro ⟨k, hk, hc, hne, hz⟩
        cases k with
        | zero => rw [Nat.add_zero, h0] at hc; exact absurd hc.symm hne
        | succ k =>
          refine ⟨k, by omega, by rw [← hc]; congr 1; omega, hne, ?_⟩
          intro m hm
          rw [← hz (m + 1) (by omega)]; congr 1; omega
    · rw [if_neg h0]
      constructor
      · intro h
        injection h with h
        exact ⟨0, by omega, h, by rw [← h]; exact h0, by intro m hm; omega⟩
      · rintro ⟨k, hk, hc, hne, hz⟩
        cases k with
        | zero => rw [Nat.add_zero] at hc; rw [hc]
        | succ k => exact absurd (hz 0 (by omega)) h0

theorem keygenL_eq : Gen.Consts.suites_keygen_L = Spec.keyGenL := by decide

theorem keyGenLoop_eq_spec_aux (H : HashFn) (hw : H.WF) (h32 : H.digestSize = 32) (ikm info : Bytes) :
    ∀ fuel n, keyGenLoop H ikm info fuel (saltBefore H n) =
      match Spec.keyGenFrom H curveOrder ikm info fuel n with
      | some sk => .ok sk
      | none => .error .other := by
  intro fuel
  induction fuel with
  | zero => intro n; rfl
  | succ fuel ih =>
    intro n
    unfold keyGenLoop Spec.keyGenFrom
    have hl : i2osp Gen.Consts.suites_keygen_L 2 = .ok (Spec.I2OSP Spec.keyGenL 2) :=
      i2osp_eq_ok (by decide)
    have hprk : hkdfExtract H (H.run (saltBefore H n)) (ikm ++ [0])
        = Spec.hkdfExtract H (Spec.keyGenSaltAt H n) (ikm ++ Spec.I2OSP 0 1) := by
      unfold hkdfExtract Spec.hkdfExtract
      rw [hmac_eq_spec_aux H _ _ (hmacKeyOk_of_WF hw _), run_saltBefore]
      rfl
    have hL : Gen.Consts.suites_keygen_L ≤ 255 * 32 := by decide
    simp only [hl, hprk, bind, Except.bind, pure, Except.pure,
      hkdfExpand_eq_aux H _ _ (hmacKeyOk_of_WF hw _) h32, if_pos hL]
    have hc : os2ip (Spec.hkdfOkm H (Spec.hkdfExtract H (Spec.keyGenSaltAt H n) (ikm ++ Spec.I2OSP 0 1))
        (info ++ Spec.I2OSP Spec.keyGenL 2) Gen.Consts.suites_keygen_L) % curveOrder
        = Spec.keyGenCandidate H curveOrder ikm info n := by
      unfold Spec.keyGenCandidate
      dsimp only
      rw [OS2IP_eq_os2ip, keygenL_eq]
    rw [hc]
    by_cases h0 : Spec.keyGenCandidate H curveOrder ikm info n = 0
    · rw [if_pos h0, if_pos h0, run_saltBefore]
      exact ih (n + 1)
    · rw [if_neg h0, if_neg h0]

theorem keyGenLoop_range (H : HashFn) (ikm info : Bytes) (sk : Nat) : ∀ fuel salt,
    keyGenLoop H ikm info fuel salt = .ok sk → 1 ≤ sk ∧ sk < curveOrder := by
  intro fuel
  induction fuel with
  | zero => intro salt h; cases h
  | succ fuel ih =>
    intro salt h
    unfold keyGenLoop at h
    simp only [bind, Except.bind] at h
    split at h
    · cases h
    · split at h
      · cases h
      · split at h
        · exact ih _ h
        · rename_i hne
          injection h with h
          subst h
          exact ⟨Nat.pos_of_ne_zero hne, Nat.mod_lt _ (by decide)⟩

end PyEcc.C16
