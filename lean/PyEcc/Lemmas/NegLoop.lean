/-
  PyEcc.Lemmas.NegLoop — the reference Miller loop body as a generic function `stepG` / `loopG` of the
  coordinate type (the same expression as `refMillerStep` of `Model/Pairing.lean` around the GENERATED
  `Gen.RefBls.linefunc / double / add`), and its transport along operation-preserving maps:
   * `loopG_map`  : an injective operation-preserving map `ψ` commutes with the loop (`OpHom`);
   * `loopG_good` : on a closed predicate (`GoodHom`, e.g. `toQ` on reduced `FQ12` elements) a normal
                    return of the loop is mapped to a normal return of the loop on the images.
-/
import PyEcc.Lemmas.MillerRefTransfer
import PyEcc.Model.Pairing

set_option linter.unusedSectionVars false
set_option linter.unusedVariables false

namespace PyEcc.NegSem
open PyEcc PyEcc.Gen PyEcc.Transfer PyEcc.MillerSem

section generic
variable {A B : Type}
  [Zero A] [One A] [Add A] [Sub A] [Mul A] [Neg A] [Div A] [NatCast A] [Pow A Nat] [DecidableEq A]
  [Zero B] [One B] [Add B] [Sub B] [Mul B] [Neg B] [Div B] [NatCast B] [Pow B Nat] [DecidableEq B]

/-- body of the reference loop `for i in range(log_ate_loop_count, -1, -1)` over any coordinate type -/
def stepG (ate : Nat) (Q P : Option (A × A)) (st : A × Option (A × A)) (i : Nat) :
    Except PyErr (A × Option (A × A)) :=
  RefBls.linefunc st.2 st.2 P >>= fun l =>
    if bitSet ate i then
      RefBls.linefunc (RefBls.double st.2) Q P >>= fun l2 =>
        RefBls.add (RefBls.double st.2) Q >>= fun R2 => pure (st.1 * st.1 * l * l2, R2)
    else pure (st.1 * st.1 * l, RefBls.double st.2)

/-- the loop over an index list -/
def loopG (ate : Nat) (is : List Nat) (Q P : Option (A × A)) (st : A × Option (A × A)) :
    Except PyErr (A × Option (A × A)) :=
  is.foldlM (stepG ate Q P) st

theorem loopG_nil (ate : Nat) (Q P : Option (A × A)) (st : A × Option (A × A)) :
    loopG ate [] Q P st = .ok st := rfl

theorem loopG_cons (ate : Nat) (i : Nat) (is : List Nat) (Q P : Option (A × A))
    (st : A × Option (A × A)) :
    loopG ate (i :: is) Q P st = (stepG ate Q P st i >>= fun s => loopG ate is Q P s) := by
  unfold loopG; rw [List.foldlM_cons]

/-- apply a coordinate map to a loop state -/
def mapSt (ψ : A → B) (st : A × Option (A × A)) : B × Option (B × B) := (ψ st.1, mapO ψ st.2)

theorem err_bind {ε α β : Type} (e : ε) (f : α → Except ε β) : (Except.error e >>= f) = .error e := rfl
theorem okk_bind {ε α β : Type} (a : α) (f : α → Except ε β) : (Except.ok a >>= f) = f a := rfl
theorem map_okk {ε α β : Type} (f : α → β) (a : α) :
    Except.map f (Except.ok a : Except ε α) = .ok (f a) := rfl
theorem map_err {ε α β : Type} (f : α → β) (e : ε) :
    Except.map f (Except.error e : Except ε α) = .error e := rfl

theorem stepG_map {ψ : A → B} (h : OpHom ψ) (ate : Nat) (Q P : Option (A × A))
    (st : A × Option (A × A)) (i : Nat) :
    (stepG ate Q P st i).map (mapSt ψ) = stepG ate (mapO ψ Q) (mapO ψ P) (mapSt ψ st) i := by
  obtain ⟨f, R⟩ := st
  unfold stepG
  simp only [mapSt]
  have e1 := ref_linefunc_map h R R P
  rw [← e1, ← ref_double_map h]
  rcases RefBls.linefunc R R P with e | l
  · rfl
  · simp only [map_okk, okk_bind]
    cases bitSet ate i
    · simp only [Bool.false_eq_true, if_false]
      show Except.ok (ψ _, _) = Except.ok _
      rw [h.map_mul, h.map_mul]
    · simp only [if_true]
      rw [← ref_linefunc_map h, ← ref_add_map h]
      rcases RefBls.linefunc (RefBls.double R) Q P with e | l2
      · rfl
      · simp only [map_okk, okk_bind]
        rcases RefBls.add (RefBls.double R) Q with e | R2
        · rfl
        · simp only [map_okk, okk_bind]
          show Except.ok (ψ _, _) = Except.ok _
          rw [h.map_mul, h.map_mul, h.map_mul]

/-- **an operation-preserving injective map commutes with the loop** -/
theorem loopG_map {ψ : A → B} (h : OpHom ψ) (ate : Nat) (Q P : Option (A × A)) :
    ∀ (is : List Nat) (st : A × Option (A × A)),
      (loopG ate is Q P st).map (mapSt ψ) = loopG ate is (mapO ψ Q) (mapO ψ P) (mapSt ψ st)
  | [], st => rfl
  | i :: is, st => by
    rw [loopG_cons, loopG_cons, ← stepG_map h]
    rcases stepG ate Q P st i with e | s
    · rfl
    · simp only [map_okk, okk_bind]
      exact loopG_map h ate Q P is s

end generic

section goodhom
variable {A B : Type}
  [Zero A] [One A] [Add A] [Sub A] [Mul A] [Neg A] [Div A] [NatCast A] [Pow A Nat] [DecidableEq A]
  [Zero B] [One B] [Add B] [Sub B] [Mul B] [Neg B] [Div B] [NatCast B] [Pow B Nat] [DecidableEq B]
variable {Good : A → Prop} {φ : A → B} (h : GoodHom Good φ)
include h

/-- **transport along a `GoodHom`**: if the loop on good inputs returns normally, so does the loop on the
    images, with the image state -/
theorem loopG_good (ate : Nat) (is : List Nat) {Q P : Option (A × A)} {st : A × Option (A × A)}
    (gQ : GoodO Good Q) (gP : GoodO Good P) (gf : Good st.1) (gR : GoodO Good st.2)
    {r : A × Option (A × A)} (hr : loopG ate is Q P st = .ok r) :
    loopG ate is (mapO φ Q) (mapO φ P) (mapSt φ st) = .ok (mapSt φ r) := by
  obtain ⟨f, R⟩ := st
  let stL : GoodSub h × Option (GoodSub h × GoodSub h) := (GoodSub.mk h f gf, liftO h R gR)
  have e1 := loopG_map (GoodSub.opHom_img h) ate (liftO h Q gQ) (liftO h P gP) is stL
  have e2 := loopG_map (GoodSub.opHom_val h) ate (liftO h Q gQ) (liftO h P gP) is stL
  have s1 : mapSt (GoodSub.img h) stL = mapSt φ (f, R) := by
    show (_, _) = (_, _)
    rw [img_liftO]; rfl
  have s2 : mapSt (GoodSub.val h) stL = (f, R) := by
    show (_, _) = (_, _)
    rw [val_liftO]; rfl
  rw [img_liftO, img_liftO, s1] at e1
  rw [val_liftO, val_liftO, s2, hr] at e2
  rw [← e1]
  rcases hX : loopG ate is (liftO h Q gQ) (liftO h P gP) stL with e | X
  · rw [hX] at e2; cases e2
  · rw [hX] at e2
    rw [map_okk] at e2 ⊢
    have := Except.ok.inj e2
    rw [← this]
    obtain ⟨x, Y⟩ := X
    show Except.ok (_, _) = Except.ok (_, _)
    rw [imgO_eq]; rfl

end goodhom

end PyEcc.NegSem
