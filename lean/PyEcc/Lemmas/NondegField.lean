/-
  PyEcc.Lemmas.NondegField — the quotient `Fp[X]/(modulus)` of an irreducible modulus of degree `d`
  is a finite field with `p^d` elements; Fermat's little theorem in it; consequence for the final
  exponentiation `x ↦ x^((p^d − 1)/r)`: its values are `r`-th roots of unity.
-/
import Mathlib.FieldTheory.Finite.Basic
import Mathlib.RingTheory.AdjoinRoot
import Mathlib.LinearAlgebra.FiniteDimensional.Basic
import Mathlib.GroupTheory.OrderOfElement
import PyEcc.Sem.FqpQuot

namespace PyEcc.NondegSem
open Polynomial PyEcc PyEcc.Fqp PyEcc.FqpSem

section card
variable {p : ℕ} [Fact p.Prime] {mc : List Int} [Fact (Irreducible (modulus p mc))]

omit [Fact (Irreducible (modulus p mc))] in
theorem modulus_ne_zero' : modulus p mc ≠ 0 := (modulus_monic mc).ne_zero

instance finite_quot : Finite (AdjoinRoot (modulus p mc)) := by
  have : Module.Finite (ZMod p) (AdjoinRoot (modulus p mc)) :=
    (AdjoinRoot.powerBasis (modulus_ne_zero' (p := p) (mc := mc))).finite
  exact Module.finite_of_finite (ZMod p)

/-- `Fp[X]/(modulus)` has `p^d` elements, `d = len(modulus_coeffs)` -/
theorem card_quot : Nat.card (AdjoinRoot (modulus p mc)) = p ^ mc.length := by
  have : Module.Finite (ZMod p) (AdjoinRoot (modulus p mc)) :=
    (AdjoinRoot.powerBasis (modulus_ne_zero' (p := p) (mc := mc))).finite
  have : Fintype (AdjoinRoot (modulus p mc)) := Fintype.ofFinite _
  rw [Nat.card_eq_fintype_card,
    Module.card_eq_pow_finrank (K := ZMod p) (V := AdjoinRoot (modulus p mc)), ZMod.card,
    (AdjoinRoot.powerBasis (modulus_ne_zero' (p := p) (mc := mc))).finrank,
    AdjoinRoot.powerBasis_dim, natDegree_modulus]

/-- Fermat in `Fp[X]/(modulus)`: `x^(p^d − 1) = 1` for `x ≠ 0` -/
theorem fermat_quot (x : AdjoinRoot (modulus p mc)) (hx : x ≠ 0) : x ^ (p ^ mc.length - 1) = 1 := by
  have : Fintype (AdjoinRoot (modulus p mc)) := Fintype.ofFinite _
  rw [← card_quot (p := p) (mc := mc), Nat.card_eq_fintype_card]
  exact FiniteField.pow_card_sub_one_eq_one x hx

/-- the values of `x ↦ x^((p^d−1)/r)` are `r`-th roots of unity (for `r ∣ p^d − 1`, `x ≠ 0`) -/
theorem finalExp_pow_r (r : ℕ) (hr : (p ^ mc.length - 1) % r = 0) (x : AdjoinRoot (modulus p mc))
    (hx : x ≠ 0) : (x ^ ((p ^ mc.length - 1) / r)) ^ r = 1 := by
  rw [← pow_mul, Nat.div_mul_cancel (Nat.dvd_of_mod_eq_zero hr)]
  exact fermat_quot x hx

end card

end PyEcc.NondegSem
