/-
  PyEcc.Lemmas.NondegLoop — the optimized BLS12-381 Miller loop and final power re-expressed over the
  fast `FQ12` arithmetic `X12` (`Lemmas/NondegFast.lean`), and the proof that it returns the
  coefficient list the model's `optBlsMillerLoop` returns — for ALL inputs `Q`, `P`, digit lists and
  exponents.

  The running point `R` stays in the model's own `FQ2` (`OBls2`, list arithmetic — 2 coefficients, cheap);
  `twist` and `cast_point_to_fq12` are the model's functions read back into `X12` (`ofL`); `linefunc` is
  the GENERATED generic function instantiated at `X12` (`Transfer.Bls.good_linefunc` +
  `goodHom_toL`); the one division `f_num / f_den` is the model's.
-/
import PyEcc.Lemmas.NondegFast
import PyEcc.Lemmas.MillerStep
import PyEcc.Lemmas.TransferOptBls

set_option maxRecDepth 100000
set_option linter.unusedVariables false

namespace PyEcc.NondegSem
open PyEcc PyEcc.Gen PyEcc.Gen.Consts PyEcc.Fqp PyEcc.FqpSem PyEcc.Transfer PyEcc.MillerSem X12

abbrev TX : Type := X12 × X12 × X12

/-- `twist(R)` read into the fast representation -/
def twistX (R : T2) : TX := mapT ofL (twistOptBls R : T12)

/-- `cast_point_to_fq12(P)` read into the fast representation -/
def castX (P : Fq blsP × Fq blsP × Fq blsP) : TX :=
  (ofL (castFq12 P.1), ofL (castFq12 P.2.1), ofL (castFq12 P.2.2))

/-- body of `for v in pseudo_binary_encoding[62::-1]` of the optimized `miller_loop`
    (`MillerSem.optBlsStep`, i.e. the `step` of `optBlsMillerLoop`), over the fast `FQ12` -/
def stepX (castP twistQ : TX) (Q : T2) (st : (X12 × X12) × T2 × TX) (v : Int) :
    (X12 × X12) × T2 × TX :=
  let ((fNum, fDen), R, twistR) := st
  let (n, d) := Gen.OptBls.linefunc twistR twistR castP
  let fNum := fNum * fNum * n
  let fDen := fDen * fDen * d
  let R := Gen.OptBls.double R
  let twistR : TX := twistX R
  if v = 1 then
    let (n, d) := Gen.OptBls.linefunc twistR twistQ castP
    let R := Gen.OptBls.add R Q
    ((fNum * n, fDen * d), R, twistX R)
  else ((fNum, fDen), R, twistR)

/-- the pair `(f_num, f_den)` after the loop -/
def millerX (digits : List Int) (Q : T2) (P : Fq blsP × Fq blsP × Fq blsP) : X12 × X12 :=
  (digits.foldl (stepX (castX P) (twistX Q) Q) (((1 : X12), (1 : X12)), Q, twistX Q)).1

/-! ### agreement with the model -/

theorem mapT_toL_twistX (R : T2) : mapT toL (twistX R) = (twistOptBls R : T12) := by
  obtain ⟨c1, c2, c3⟩ := canonT_twistOptBls R
  simp only [twistX, mapT, toL_ofL c1, toL_ofL c2, toL_ofL c3]

theorem good_twistX (R : T2) : GoodT Good (twistX R) := by
  obtain ⟨c1, c2, c3⟩ := canonT_twistOptBls R
  exact ⟨good_ofL c1, good_ofL c2, good_ofL c3⟩

theorem mapT_toL_castX (P : Fq blsP × Fq blsP × Fq blsP) :
    mapT toL (castX P) = ((castFq12 P.1, castFq12 P.2.1, castFq12 P.2.2) : T12) := by
  simp only [castX, mapT, toL_ofL (canon_castFq12 _)]

theorem good_castX (P : Fq blsP × Fq blsP × Fq blsP) : GoodT Good (castX P) :=
  ⟨good_ofL (canon_castFq12 _), good_ofL (canon_castFq12 _), good_ofL (canon_castFq12 _)⟩

/-- the model state denoted by a fast state -/
def liftS (s : (X12 × X12) × T2 × TX) : (OBls12 × OBls12) × T2 × T12 :=
  (mapP toL s.1, s.2.1, mapT toL s.2.2)

/-- all `FQ12` components of a fast state are reduced -/
def GoodS (s : (X12 × X12) × T2 × TX) : Prop := GoodP Good s.1 ∧ GoodT Good s.2.2

theorem stepX_spec {castP twistQ : TX} (gc : GoodT Good castP) (gq : GoodT Good twistQ) (Q : T2)
    (s : (X12 × X12) × T2 × TX) (gs : GoodS s) (v : Int) :
    GoodS (stepX castP twistQ Q s v) ∧
      liftS (stepX castP twistQ Q s v)
        = optBlsStep (mapT toL castP) (mapT toL twistQ) Q (liftS s) v := by
  obtain ⟨⟨fN, fD⟩, R, tR⟩ := s
  obtain ⟨⟨gN, gD⟩, gR⟩ := gs
  obtain ⟨g1, e1⟩ := Bls.good_linefunc goodHom_toL gR gR gc
  have g2t := good_twistX (Gen.OptBls.double R)
  obtain ⟨g2, e2⟩ := Bls.good_linefunc goodHom_toL g2t gq gc
  unfold stepX optBlsStep liftS
  simp only [mapP_mk]
  rw [← e1]
  generalize Gen.OptBls.linefunc tR tR castP = nd at g1
  obtain ⟨n, d⟩ := nd
  obtain ⟨gn, gd⟩ := g1
  simp only [mapP_mk]
  rw [← mapT_toL_twistX (Gen.OptBls.double R), ← e2]
  generalize Gen.OptBls.linefunc (twistX (Gen.OptBls.double R)) twistQ castP = nd2 at g2
  obtain ⟨n2, d2⟩ := nd2
  obtain ⟨gn2, gd2⟩ := g2
  simp only [mapP_mk]
  by_cases hv : v = 1
  · simp only [hv, if_true]
    refine ⟨⟨⟨good_mulF _ _, good_mulF _ _⟩, good_twistX _⟩, ?_⟩
    simp only [mapP_mk, toL_mul, mapT_toL_twistX]
  · simp only [hv, if_false]
    refine ⟨⟨⟨good_mulF _ _, good_mulF _ _⟩, good_twistX _⟩, ?_⟩
    simp only [mapP_mk, toL_mul, mapT_toL_twistX]

theorem foldl_stepX_spec {castP twistQ : TX} (gc : GoodT Good castP) (gq : GoodT Good twistQ) (Q : T2) :
    ∀ (digits : List Int) (s : (X12 × X12) × T2 × TX), GoodS s →
      GoodS (digits.foldl (stepX castP twistQ Q) s) ∧
        liftS (digits.foldl (stepX castP twistQ Q) s)
          = digits.foldl (optBlsStep (mapT toL castP) (mapT toL twistQ) Q) (liftS s) := by
  intro digits
  induction digits with
  | nil => intro s gs; exact ⟨gs, rfl⟩
  | cons v ds ih =>
    intro s gs
    obtain ⟨g1, e1⟩ := stepX_spec gc gq Q s gs v
    obtain ⟨g2, e2⟩ := ih _ g1
    rw [List.foldl_cons, List.foldl_cons, ← e1]
    exact ⟨g2, e2⟩

/-- **The optimized `miller_loop(Q, P, final_exponentiate=True)` of the model, computed by the fast
    arithmetic**: for every digit list, exponent and input points, the model's value is the coefficient
    list of `(f_num / f_den) ** E` computed over `X12`. -/
theorem optBlsMillerLoop_fast (digits : List Int) (E : ℕ) (Q : T2) (P : Fq blsP × Fq blsP × Fq blsP) :
    (optBlsMillerLoop digits (some E) Q P : OBls12)
      = toL (((millerX digits Q P).1 / (millerX digits Q P).2) ^ E) := by
  have g0 : GoodS (((1 : X12), (1 : X12)), Q, twistX Q) :=
    ⟨⟨good_oneF, good_oneF⟩, good_twistX Q⟩
  obtain ⟨g, e⟩ := foldl_stepX_spec (good_castX P) (good_twistX Q) Q digits _ g0
  rw [optBlsMillerLoop_eq]
  simp only
  rw [toL_pow, toL_div]
  have e0 : liftS (((1 : X12), (1 : X12)), Q, twistX Q)
      = (((1 : OBls12), (1 : OBls12)), Q, (twistOptBls Q : T12)) := by
    simp only [liftS, mapP_mk, toL_one, mapT_toL_twistX]
  rw [mapT_toL_castX, mapT_toL_twistX, e0] at e
  rw [← e]
  rfl

/-- the Miller value without the final power -/
theorem optBlsMillerLoop_none_fast (digits : List Int) (Q : T2) (P : Fq blsP × Fq blsP × Fq blsP) :
    (optBlsMillerLoop digits none Q P : OBls12)
      = toL ((millerX digits Q P).1 / (millerX digits Q P).2) := by
  have g0 : GoodS (((1 : X12), (1 : X12)), Q, twistX Q) :=
    ⟨⟨good_oneF, good_oneF⟩, good_twistX Q⟩
  obtain ⟨g, e⟩ := foldl_stepX_spec (good_castX P) (good_twistX Q) Q digits _ g0
  rw [optBlsMillerLoop_eq]
  simp only
  rw [toL_div]
  have e0 : liftS (((1 : X12), (1 : X12)), Q, twistX Q)
      = (((1 : OBls12), (1 : OBls12)), Q, (twistOptBls Q : T12)) := by
    simp only [liftS, mapP_mk, toL_one, mapT_toL_twistX]
  rw [mapT_toL_castX, mapT_toL_twistX, e0] at e
  rw [← e]
  rfl

end PyEcc.NondegSem
