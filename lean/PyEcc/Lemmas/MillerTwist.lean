/-
  PyEcc.Lemmas.MillerTwist — the optimized BLS12-381 `twist` commutes with `double` and `add`:
  on values, `double (tw T) = w⁶ • tw (double T)` and `add (tw T) (tw S) = w¹⁵ • tw (add T S)` (generic
  chord), so through the affine reading `twist ∘ double = double ∘ twist`, `twist ∘ add = add ∘ twist`,
  where the right-hand `double`/`add` are the REFERENCE affine ones over `FQ12`.
-/
import PyEcc.Lemmas.MillerField
import PyEcc.Props.C13_Bls

set_option linter.unusedSectionVars false
set_option linter.unusedVariables false
set_option maxRecDepth 100000

namespace PyEcc.MillerSem
open Polynomial PyEcc PyEcc.Gen PyEcc.Gen.Consts PyEcc.Fqp PyEcc.FqpSem PyEcc.Transfer PyEcc.C13
  PyEcc.C13.Bls

variable [DecidableEq K2] [DecidableEq K12]

theorem twK_z_eq_zero (T : K2 × K2 × K2) : (twK T).2.2 = 0 ↔ T.2.2 = 0 := by
  simp [twK, w12_ne_zero]

theorem twK_y_eq_zero (T : K2 × K2 × K2) : (twK T).2.1 = 0 ↔ T.2.1 = 0 := by
  simp [twK]

omit [DecidableEq K2] [DecidableEq K12] in
/-- `double` of a twisted triple is `w⁶` times the twist of the `double` -/
theorem double_twK (T : K2 × K2 × K2) :
    OptBls.double (twK T) = scale (w12 ^ 6) (twK (OptBls.double T)) := by
  obtain ⟨x, y, z⟩ := T
  simp only [OptBls.double, twK, scale, map_mul, map_sub, map_natCast]
  ext <;> simp only <;> ring

/-- **`twist ∘ double = double ∘ twist`** on values, through the affine reading -/
theorem toAff_twK_double (T : K2 × K2 × K2) :
    toAff (twK (OptBls.double T)) = RefBls.double (toAff (twK T)) := by
  rw [← toAff_scale (pow_ne_zero 6 w12_ne_zero), ← double_twK, opt_double_toAff k12_two_ne_zero]

/-- `add` of twisted triples represents the twist of the `add`, on every control path -/
theorem toAff_add_twK (T S : K2 × K2 × K2) :
    toAff (OptBls.add (twK T) (twK S)) = toAff (twK (OptBls.add T S)) := by
  obtain ⟨x1, y1, z1⟩ := T
  obtain ⟨x2, y2, z2⟩ := S
  have hw : w12 ≠ 0 := w12_ne_zero
  have hz : ∀ a : K2, iota a * w12 ^ 3 = 0 ↔ a = 0 := by
    intro a; simp [hw]
  have hV : iota x2 * w12 * (iota z1 * w12 ^ 3) = iota x1 * w12 * (iota z2 * w12 ^ 3)
      ↔ x2 * z1 = x1 * z2 := by
    rw [← iota_injective.eq_iff, map_mul, map_mul]
    constructor
    · intro e
      have : (iota x2 * iota z1 - iota x1 * iota z2) * w12 ^ 4 = 0 := by linear_combination e
      rcases mul_eq_zero.mp this with h | h
      · exact sub_eq_zero.mp h
      · exact absurd h (pow_ne_zero 4 hw)
    · intro e; linear_combination (w12 ^ 4) * e
  have hU : iota y2 * (iota z1 * w12 ^ 3) = iota y1 * (iota z2 * w12 ^ 3)
      ↔ y2 * z1 = y1 * z2 := by
    rw [← iota_injective.eq_iff, map_mul, map_mul]
    constructor
    · intro e
      have : (iota y2 * iota z1 - iota y1 * iota z2) * w12 ^ 3 = 0 := by linear_combination e
      rcases mul_eq_zero.mp this with h | h
      · exact sub_eq_zero.mp h
      · exact absurd h (pow_ne_zero 3 hw)
    · intro e; linear_combination (w12 ^ 3) * e
  by_cases h1 : z1 = 0
  · by_cases h2 : z2 = 0
    · simp only [OptBls.add, twK, hz, h1, h2, or_self, if_true]
    · simp only [OptBls.add, twK, hz, h1, h2, or_false, if_true, if_false]
  by_cases h2 : z2 = 0
  · simp only [OptBls.add, twK, hz, h1, h2, or_true, if_true]
  by_cases hv : x2 * z1 = x1 * z2
  · by_cases hu : y2 * z1 = y1 * z2
    · have e1 : OptBls.add (twK (x1, y1, z1)) (twK (x2, y2, z2)) = OptBls.double (twK (x1, y1, z1)) := by
        simp only [OptBls.add, twK, hz, h1, h2, or_self, if_false, hV, hU, hv, hu, and_self, if_true]
      have e2 : OptBls.add (x1, y1, z1) (x2, y2, z2) = OptBls.double (x1, y1, z1) := by
        simp only [OptBls.add, h1, h2, or_self, if_false, hv, hu, and_self, if_true]
      rw [e1, e2, double_twK, toAff_scale (pow_ne_zero 6 hw)]
    · have e1 : OptBls.add (twK (x1, y1, z1)) (twK (x2, y2, z2)) = (1, 1, 0) := by
        simp only [OptBls.add, twK, hz, h1, h2, or_self, if_false, hV, hU, hv, hu, and_false, if_true]
      have e2 : OptBls.add (x1, y1, z1) (x2, y2, z2) = (1, 1, 0) := by
        simp only [OptBls.add, h1, h2, or_self, if_false, hv, hu, and_false, if_true]
      rw [e1, e2]
      simp [twK, toAff]
  · have e1 : OptBls.add (twK (x1, y1, z1)) (twK (x2, y2, z2))
        = scale (w12 ^ 15) (twK (OptBls.add (x1, y1, z1) (x2, y2, z2))) := by
      simp only [OptBls.add, twK, hz, h1, h2, or_self, if_false, hV, hv, false_and, scale, map_mul,
        map_sub, map_natCast]
      ext <;> simp only <;> ring
    rw [e1, toAff_scale (pow_ne_zero 15 hw)]

/-- **`twist ∘ add = add ∘ twist`** on values: the reference affine `add` of the twisted points
    returns normally and gives the twist of the optimized projective `add` -/
theorem ref_add_toAff_twK (T S : K2 × K2 × K2) :
    RefBls.add (toAff (twK T)) (toAff (twK S)) = .ok (toAff (twK (OptBls.add T S))) := by
  rw [opt_add_toAff k12_two_ne_zero, toAff_add_twK]

/-- the affine reading of the twist is the reference twist of the affine reading -/
theorem toAff_twK (T : K2 × K2 × K2) : toAff (twK T) = twA (toAff T) := by
  obtain ⟨x, y, z⟩ := T
  by_cases hz : z = 0
  · subst hz; simp [twK, toAff, twA]
  · have h1 : iota z ≠ 0 := fun h => hz (iota_eq_zero.mp h)
    have hw : w12 ≠ 0 := w12_ne_zero
    simp only [twK, toAff, twA, hz, mul_eq_zero, h1, pow_eq_zero_iff, ne_eq, OfNat.ofNat_ne_zero,
      not_false_eq_true, hw, or_self, if_false, Option.map_some, map_div₀]
    congr 2
    · field_simp
    · field_simp

end PyEcc.MillerSem
