/-
  PyEcc.Lemmas.TransferOptBls — every generated function of `Gen.OptBls` commutes with operation-
  preserving injective coordinate maps.  (`Lemmas/TransferOptBn.lean` is this file with `Bls ↦ Bn`;
  the two generated modules differ only in their namespace.)

  Part 1 (`OpHom`, unconditional): `mapT ψ (f x) = f (mapT ψ x)`; Boolean-valued functions return the
  same Boolean.
  Part 2 (`GoodHom`, conditional on a predicate `Good` closed under the operations): the same for
  `Good` inputs, and the outputs are `Good` — obtained from part 1 through the subtype of good elements.
-/
import PyEcc.Lemmas.TransferBase
import PyEcc.Gen.OptBls
import Mathlib.Tactic.SplitIfs

set_option linter.unusedSectionVars false
set_option linter.unusedVariables false

namespace PyEcc.Transfer.Bls
open PyEcc PyEcc.Gen PyEcc.Transfer

variable {A B : Type}
  [Zero A] [One A] [Add A] [Sub A] [Mul A] [Neg A] [Div A] [NatCast A] [Pow A Nat] [DecidableEq A]
  [Zero B] [One B] [Add B] [Sub B] [Mul B] [Neg B] [Div B] [NatCast B] [Pow B Nat] [DecidableEq B]

/-! ### Part 1: unconditional homomorphisms -/

section ophom
variable {ψ : A → B} (h : OpHom ψ)
include h

theorem is_inf_map (T : A × A × A) : OptBls.is_inf (mapT ψ T) = OptBls.is_inf T := by
  simp only [OptBls.is_inf, mapT, h.eq_zero_iff]

theorem is_on_curve_map (T : A × A × A) (b : A) :
    OptBls.is_on_curve (mapT ψ T) (ψ b) = OptBls.is_on_curve T b := by
  simp only [OptBls.is_on_curve, is_inf_map h, mapT_fst, mapT_snd_fst, mapT_snd_snd, ← h.map_pow,
    ← h.map_mul, ← h.map_sub, h.eq_iff]

theorem double_map (T : A × A × A) : mapT ψ (OptBls.double T) = OptBls.double (mapT ψ T) := by
  simp only [OptBls.double, mapT, h.map_mul, h.map_sub, h.map_natCast]

theorem neg_map (T : A × A × A) : mapT ψ (OptBls.neg T) = OptBls.neg (mapT ψ T) := by
  simp only [OptBls.neg, mapT, h.map_neg]

theorem normalize_map (T : A × A × A) : mapP ψ (OptBls.normalize T) = OptBls.normalize (mapT ψ T) := by
  simp only [OptBls.normalize, mapT, mapP, h.map_div]

theorem normalize1_map (T : A × A × A) :
    mapT ψ (OptBls.normalize1 T) = OptBls.normalize1 (mapT ψ T) := by
  simp only [OptBls.normalize1, OptBls.normalize, mapT, h.map_div, h.map_one]

theorem add_map (T₁ T₂ : A × A × A) :
    mapT ψ (OptBls.add T₁ T₂) = OptBls.add (mapT ψ T₁) (mapT ψ T₂) := by
  have hd := double_map h T₁
  simp only [OptBls.add, mapT_fst, mapT_snd_fst, mapT_snd_snd, ← h.map_mul, h.eq_iff,
    h.eq_zero_iff] at hd ⊢
  split_ifs <;>
    first
      | rfl
      | exact hd
      | simp only [mapT, h.map_mul, h.map_sub, h.map_natCast, h.map_one, h.map_zero]

theorem multiplyAux_map (fuel : Nat) (T : A × A × A) (n : Nat) :
    mapT ψ (OptBls.multiplyAux fuel T n) = OptBls.multiplyAux fuel (mapT ψ T) n := by
  induction fuel generalizing T n with
  | zero => rfl
  | succ f ih =>
    simp only [OptBls.multiplyAux]
    split_ifs
    · simp only [mapT, h.map_one, h.map_zero]
    · rfl
    · rw [ih, double_map h]
    · rw [add_map h, ih, double_map h]

theorem multiply_map (T : A × A × A) (n : Nat) :
    mapT ψ (OptBls.multiply T n) = OptBls.multiply (mapT ψ T) n := multiplyAux_map h _ T n

theorem eq_map (T₁ T₂ : A × A × A) :
    OptBls.eq (mapT ψ T₁) (mapT ψ T₂) = OptBls.eq T₁ T₂ := by
  simp only [OptBls.eq, is_inf_map h, mapT_fst, mapT_snd_fst, mapT_snd_snd, ← h.map_mul, h.eq_iff]

theorem linefunc_map (P1 P2 T : A × A × A) :
    mapP ψ (OptBls.linefunc P1 P2 T) = OptBls.linefunc (mapT ψ P1) (mapT ψ P2) (mapT ψ T) := by
  simp only [OptBls.linefunc, mapT_fst, mapT_snd_fst, mapT_snd_snd, ← h.map_mul, ← h.map_sub, ne_eq,
    h.eq_zero_iff]
  split_ifs <;> simp only [mapP, h.map_mul, h.map_sub, h.map_natCast]

end ophom

/-! ### Part 2: homomorphisms on a closed predicate -/

section goodhom
variable {Good : A → Prop} {φ : A → B} (h : GoodHom Good φ)
include h

open GoodSub

/-- `is_inf` does not see the difference between a good triple and its image -/
theorem good_is_inf {T : A × A × A} (g : GoodT Good T) :
    OptBls.is_inf (mapT φ T) = OptBls.is_inf T := by
  have e1 := is_inf_map (opHom_img h) (liftT h T g)
  have e2 := is_inf_map (opHom_val h) (liftT h T g)
  rw [img_liftT] at e1
  rw [val_liftT] at e2
  rw [e1, e2]

/-- `is_on_curve(T, b)` gives the same answer on a good triple, good `b`, and on their images -/
theorem good_is_on_curve {T : A × A × A} {b : A} (g : GoodT Good T) (gb : Good b) :
    OptBls.is_on_curve (mapT φ T) (φ b) = OptBls.is_on_curve T b := by
  have e1 := is_on_curve_map (opHom_img h) (liftT h T g) (mk h b gb)
  have e2 := is_on_curve_map (opHom_val h) (liftT h T g) (mk h b gb)
  rw [img_liftT] at e1
  rw [val_liftT] at e2
  exact e1.trans e2.symm

/-- `eq(T₁, T₂)` gives the same answer on good triples and on their images -/
theorem good_eq {T₁ T₂ : A × A × A} (g₁ : GoodT Good T₁) (g₂ : GoodT Good T₂) :
    OptBls.eq (mapT φ T₁) (mapT φ T₂) = OptBls.eq T₁ T₂ := by
  have e1 := eq_map (opHom_img h) (liftT h T₁ g₁) (liftT h T₂ g₂)
  have e2 := eq_map (opHom_val h) (liftT h T₁ g₁) (liftT h T₂ g₂)
  rw [img_liftT, img_liftT] at e1
  rw [val_liftT, val_liftT] at e2
  exact e1.trans e2.symm

/-- `double` of a good triple is good, and commutes with `φ` -/
theorem good_double {T : A × A × A} (g : GoodT Good T) :
    GoodT Good (OptBls.double T) ∧ mapT φ (OptBls.double T) = OptBls.double (mapT φ T) := by
  have e1 := double_map (opHom_img h) (liftT h T g)
  have e2 := double_map (opHom_val h) (liftT h T g)
  rw [img_liftT, img_eq] at e1
  rw [val_liftT] at e2
  rw [← e2]
  exact ⟨goodT_val h _, e1⟩

/-- `neg` of a good triple is good, and commutes with `φ` -/
theorem good_neg {T : A × A × A} (g : GoodT Good T) :
    GoodT Good (OptBls.neg T) ∧ mapT φ (OptBls.neg T) = OptBls.neg (mapT φ T) := by
  have e1 := neg_map (opHom_img h) (liftT h T g)
  have e2 := neg_map (opHom_val h) (liftT h T g)
  rw [img_liftT, img_eq] at e1
  rw [val_liftT] at e2
  rw [← e2]
  exact ⟨goodT_val h _, e1⟩

/-- `add` of good triples is good, and commutes with `φ` -/
theorem good_add {T₁ T₂ : A × A × A} (g₁ : GoodT Good T₁) (g₂ : GoodT Good T₂) :
    GoodT Good (OptBls.add T₁ T₂)
      ∧ mapT φ (OptBls.add T₁ T₂) = OptBls.add (mapT φ T₁) (mapT φ T₂) := by
  have e1 := add_map (opHom_img h) (liftT h T₁ g₁) (liftT h T₂ g₂)
  have e2 := add_map (opHom_val h) (liftT h T₁ g₁) (liftT h T₂ g₂)
  rw [img_liftT, img_liftT, img_eq] at e1
  rw [val_liftT, val_liftT] at e2
  rw [← e2]
  exact ⟨goodT_val h _, e1⟩

/-- `multiplyAux` (the fuelled double-and-add loop) of a good triple is good, and commutes with `φ` -/
theorem good_multiplyAux {T : A × A × A} (g : GoodT Good T) (fuel n : Nat) :
    GoodT Good (OptBls.multiplyAux fuel T n)
      ∧ mapT φ (OptBls.multiplyAux fuel T n) = OptBls.multiplyAux fuel (mapT φ T) n := by
  have e1 := multiplyAux_map (opHom_img h) fuel (liftT h T g) n
  have e2 := multiplyAux_map (opHom_val h) fuel (liftT h T g) n
  rw [img_liftT, img_eq] at e1
  rw [val_liftT] at e2
  rw [← e2]
  exact ⟨goodT_val h _, e1⟩

/-- `multiply(T, n)` of a good triple is good, and commutes with `φ` -/
theorem good_multiply {T : A × A × A} (g : GoodT Good T) (n : Nat) :
    GoodT Good (OptBls.multiply T n)
      ∧ mapT φ (OptBls.multiply T n) = OptBls.multiply (mapT φ T) n :=
  good_multiplyAux h g (n + 1) n

/-- `normalize` of a good triple is a good pair, and commutes with `φ` -/
theorem good_normalize {T : A × A × A} (g : GoodT Good T) :
    GoodP Good (OptBls.normalize T)
      ∧ mapP φ (OptBls.normalize T) = OptBls.normalize (mapT φ T) := by
  have e1 := normalize_map (opHom_img h) (liftT h T g)
  have e2 := normalize_map (opHom_val h) (liftT h T g)
  rw [img_liftT, imgP_eq] at e1
  rw [val_liftT] at e2
  rw [← e2]
  exact ⟨goodP_val h _, e1⟩

/-- `normalize1` (pairing module) of a good triple is good, and commutes with `φ` -/
theorem good_normalize1 {T : A × A × A} (g : GoodT Good T) :
    GoodT Good (OptBls.normalize1 T)
      ∧ mapT φ (OptBls.normalize1 T) = OptBls.normalize1 (mapT φ T) := by
  have e1 := normalize1_map (opHom_img h) (liftT h T g)
  have e2 := normalize1_map (opHom_val h) (liftT h T g)
  rw [img_liftT, img_eq] at e1
  rw [val_liftT] at e2
  rw [← e2]
  exact ⟨goodT_val h _, e1⟩

/-- `linefunc` (pairing module) of good triples is a good pair, and commutes with `φ` -/
theorem good_linefunc {P1 P2 T : A × A × A} (g₁ : GoodT Good P1) (g₂ : GoodT Good P2)
    (g : GoodT Good T) :
    GoodP Good (OptBls.linefunc P1 P2 T)
      ∧ mapP φ (OptBls.linefunc P1 P2 T)
          = OptBls.linefunc (mapT φ P1) (mapT φ P2) (mapT φ T) := by
  have e1 := linefunc_map (opHom_img h) (liftT h P1 g₁) (liftT h P2 g₂) (liftT h T g)
  have e2 := linefunc_map (opHom_val h) (liftT h P1 g₁) (liftT h P2 g₂) (liftT h T g)
  rw [img_liftT, img_liftT, img_liftT, imgP_eq] at e1
  rw [val_liftT, val_liftT, val_liftT] at e2
  rw [← e2]
  exact ⟨goodP_val h _, e1⟩

/-- the library's point at infinity `(1, 1, 0)` is good and is mapped to `(1, 1, 0)` -/
theorem good_Z : GoodT Good ((1 : A), (1 : A), (0 : A))
    ∧ mapT φ ((1 : A), (1 : A), (0 : A)) = ((1 : B), (1 : B), (0 : B)) :=
  ⟨⟨h.good_one, h.good_one, h.good_zero⟩, by simp only [mapT, h.map_one, h.map_zero]⟩

end goodhom

end PyEcc.Transfer.Bls
