/-
  PyEcc.Lemmas.MillerRegular — discharging the regularity hypothesis of the Miller-loop comparison for
  points of the order-`r` subgroup: along the loop `R = k • Q` with `0 < k ≤ ate_loop_count < r`, so `R`
  is never ∞, and a finite point of the twist curve never has `y = 0` (no 2-torsion).
-/
import PyEcc.Lemmas.MillerPairing
import PyEcc.Props.C11_G2Full
import Mathlib.GroupTheory.OrderOfElement

set_option linter.unusedSectionVars false
set_option linter.unusedVariables false
set_option maxRecDepth 100000

namespace PyEcc.MillerSem
open Polynomial PyEcc PyEcc.Gen PyEcc.Gen.Consts PyEcc.Fqp PyEcc.FqpSem PyEcc.Transfer

/-- scalar reached by double-and-add from `k` along a digit list (a digit counts iff it is `1`,
    as in the loop's `if v == 1`) -/
def scalarFrom (k : ℕ) : List Int → ℕ
  | [] => k
  | v :: ds => scalarFrom (2 * k + (if v = 1 then 1 else 0)) ds

theorem le_scalarFrom : ∀ (ds : List Int) (k : ℕ), k ≤ scalarFrom k ds
  | [], k => le_rfl
  | v :: ds, k => by
    unfold scalarFrom
    exact le_trans (by omega) (le_scalarFrom ds _)

/-- the digits of the optimized loop evaluate to `ate_loop_count`, which is below the group order -/
theorem bls_scalar_lt :
    scalarFrom 1 (digitsFrom optimized_bls12_381_pseudo_binary_encoding 62) < blsR := by
  decide +kernel

theorem bls_scalar_eq :
    scalarFrom 1 (digitsFrom optimized_bls12_381_pseudo_binary_encoding 62)
      = optimized_bls12_381_ate_loop_count := by
  decide +kernel

section
variable [DecidableEq K2] {Q : G2Pt} {Pt : CurvePt (toQ blsB2 : K2)}

theorem prime_blsR' : Nat.Prime blsR := by
  have : blsR = bls12_381_curve_order := by decide
  rw [this]; exact prime_blsR

/-- in a group, a non-zero element killed by the prime `r` is not killed by any `0 < k < r` -/
theorem nsmul_ne_zero_of_lt (hPt : Pt ≠ 0) (hr : blsR • Pt = 0) {k : ℕ} (h0 : 0 < k) (hk : k < blsR) :
    k • Pt ≠ 0 := by
  have : Fact (Nat.Prime blsR) := ⟨prime_blsR'⟩
  intro e
  have ho : addOrderOf Pt = blsR := addOrderOf_eq_prime hr hPt
  have hd : blsR ∣ k := ho ▸ addOrderOf_dvd_of_nsmul_eq_zero e
  exact absurd (Nat.le_of_dvd h0 hd) (by omega)

/-- a canonical triple representing a non-zero point of the twist curve is finite with `y ≠ 0` -/
theorem fin2_of_repr {R : G2Pt} {S : CurvePt (toQ blsB2 : K2)} (c : CanonT R)
    (r : Represents (mapT toQ R) S) (hS : S ≠ 0) : Fin2 R := by
  have hz : R.2.2 ≠ 0 := by
    intro hz
    apply hS
    apply (opt_is_inf_refines_F2 c r).mp
    simp [OptBls.is_inf, hz]
  exact ⟨hz, C11.no_y0_point_G2 R c ((on_curve_iff_F2 c).mpr ⟨S, r⟩) hz⟩

/-- along the optimized Miller loop started at `R = k • Q`, every running point is regular as long as
    the scalar stays below the (prime) order of `Q` -/
theorem regularFrom_of_scalar (cQ : CanonT Q) (rQ : Represents (mapT toQ Q) Pt) (hPt : Pt ≠ 0)
    (hr : blsR • Pt = 0) :
    ∀ (ds : List Int) (R : G2Pt) (k : ℕ), CanonT R → Represents (mapT toQ R) (k • Pt) → 0 < k →
      scalarFrom k ds < blsR → RegularFrom Q ds R
  | [], _, _, _, _, _, _ => trivial
  | v :: ds, R, k, cR, rR, h0, hlt => by
    rw [regularFrom_cons]
    have hk' : 2 * k + (if v = 1 then 1 else 0) ≤ scalarFrom k (v :: ds) := by
      rw [scalarFrom]; exact le_scalarFrom ds _
    have cD := (canonT_ops cR cQ 0).2.1
    have rD : Represents (mapT toQ (OptBls.double R)) ((2 * k) • Pt) := by
      have := opt_double_refines_F2 cR rR
      rwa [← add_nsmul, ← two_mul] at this
    refine ⟨fin2_of_repr cR rR (nsmul_ne_zero_of_lt hPt hr h0 (by omega)), ?_, ?_⟩
    · intro _
      exact fin2_of_repr cD rD (nsmul_ne_zero_of_lt hPt hr (by omega) (by omega))
    · by_cases hv : v = 1
      · simp only [hv, if_true] at hlt hk' ⊢
        have cA := (canonT_ops cD cQ 0).1
        have rA : Represents (mapT toQ (OptBls.add (OptBls.double R) Q)) ((2 * k + 1) • Pt) := by
          have := opt_add_refines_F2 cD cQ rD rQ
          rwa [← succ_nsmul] at this
        apply regularFrom_of_scalar cQ rQ hPt hr ds _ (2 * k + 1) cA rA (by omega)
        rw [scalarFrom] at hlt; simpa using hlt
      · simp only [hv, if_false] at hlt hk' ⊢
        apply regularFrom_of_scalar cQ rQ hPt hr ds _ (2 * k) cD rD (by omega)
        rw [scalarFrom] at hlt; simpa [hv] using hlt

/-- **Regularity for subgroup points.**  If `Q` is a reduced triple on the twist curve, finite, and
    passes `subgroup_check` (`multiply(Q, curve_order)` is ∞), then the optimized Miller loop started
    at `Q` only meets finite running points with `y ≠ 0`. -/
theorem millerRegular_of_subgroup (cQ : CanonT Q)
    (hon : Gen.OptBls.is_on_curve Q blsB2 = true) (hz : Q.2.2 ≠ 0) (hsub : subgroupCheck Q = true) :
    MillerRegular Q := by
  obtain ⟨Pt, rQ⟩ := (on_curve_iff_F2 cQ).mp hon
  have hPt : Pt ≠ 0 := by
    intro e
    have := (opt_is_inf_refines_F2 cQ rQ).mpr e
    simp [OptBls.is_inf, hz] at this
  have hr : blsR • Pt = 0 := (subgroup_check_iff_F2 cQ rQ).mp hsub
  exact regularFrom_of_scalar cQ rQ hPt hr _ Q 1 cQ (by rwa [one_nsmul]) Nat.one_pos bls_scalar_lt

end

end PyEcc.MillerSem
