/-
  PyEcc.Lemmas.MillerLoop — the induction over the digit list: the optimized BLS12-381 Miller loop and
  the reference loop stay related by the invariant `Inv` of `Lemmas/MillerStep.lean`.
-/
import PyEcc.Lemmas.MillerStep

set_option linter.unusedSectionVars false
set_option linter.unusedVariables false
set_option maxRecDepth 100000

namespace PyEcc.MillerSem
open Polynomial PyEcc PyEcc.Gen PyEcc.Gen.Consts PyEcc.Fqp PyEcc.FqpSem PyEcc.Transfer PyEcc.C13
  PyEcc.C13.Bls

/-! ### the induction over the digit list -/

section loop
-- keep the unifier from unfolding the loop body when comparing `(optBlsStep …).2.1` terms
attribute [local irreducible] optBlsStep
variable [DecidableEq K2] [DecidableEq K12]

/-- every running point met by the optimized loop from `R` on — at the start of an iteration and,
    when the digit is 1, after the doubling — is finite with `y ≠ 0` -/
def RegularFrom (Q : T2) : List Int → T2 → Prop
  | [], _ => True
  | v :: ds, R => Fin2 R ∧ (v = 1 → Fin2 (Gen.OptBls.double R)) ∧
      RegularFrom Q ds (if v = 1 then Gen.OptBls.add (Gen.OptBls.double R) Q else Gen.OptBls.double R)

instance (Q : T2) : ∀ (ds : List Int) (R : T2), Decidable (RegularFrom Q ds R)
  | [], _ => by unfold RegularFrom; infer_instance
  | v :: ds, R => by
    unfold RegularFrom
    have := instDecidableRegularFrom Q ds
    infer_instance

theorem regularFrom_cons (Q : T2) (v : Int) (ds : List Int) (R : T2) :
    RegularFrom Q (v :: ds) R ↔ (Fin2 R ∧ (v = 1 → Fin2 (Gen.OptBls.double R)) ∧
      RegularFrom Q ds (if v = 1 then Gen.OptBls.add (Gen.OptBls.double R) Q else Gen.OptBls.double R)) := by
  rw [RegularFrom]

/-- **The loop induction**: along any index list, the reference `foldlM` returns normally and the
    invariant is preserved, provided the optimized running points are regular. -/
theorem loop_inv {Q : T2} {Qr : A12} {castP : T12} {Pr : A12} (ctx : Ctx Q Qr castP Pr) (ate : Nat) :
    ∀ (is : List Nat) (so : (OBls12 × OBls12) × T2 × T12) (sr : RBls12 × A12), Inv so sr →
      RegularFrom Q (is.map (digitAt ate)) so.2.1 →
      ∃ sr', is.foldlM (refMillerStep refBlsOps ate Qr Pr) sr = .ok sr' ∧
        Inv ((is.map (digitAt ate)).foldl (optBlsStep castP (twistOptBls Q) Q) so) sr' := by
  intro is
  induction is with
  | nil => intro so sr inv _; exact ⟨sr, rfl, inv⟩
  | cons i is ih =>
    intro so sr inv reg
    rw [List.map_cons, regularFrom_cons] at reg
    obtain ⟨r1, r2, r3⟩ := reg
    have hb : bitSet ate i = true → Fin2 (OptBls.double so.2.1) := by
      intro hb; apply r2; simp [digitAt, hb]
    obtain ⟨sr1, e1, inv1⟩ := step_inv ctx ate i inv r1 hb
    have r3' : RegularFrom Q (is.map (digitAt ate))
        (optBlsStep castP (twistOptBls Q) Q so (digitAt ate i)).2.1 := by
      rw [optBlsStep_R]; exact r3
    obtain ⟨sr', e2, inv2⟩ := ih (optBlsStep castP (twistOptBls Q) Q so (digitAt ate i)) sr1 inv1 r3'
    refine ⟨sr', ?_, ?_⟩
    · rw [List.foldlM_cons, e1]; exact e2
    · rw [List.map_cons, List.foldl_cons]; exact inv2

end loop

end PyEcc.MillerSem
