/-
  PyEcc.Lemmas.SwuG1 — the proof that `optimized_swu_G1` (model: `optimizedSwuG1`) computes RFC 9380's
  simplified SWU map for the 11-isogenous curve of BLS12-381 G1, carried out inside the field
  `F1 = Fq blsP` (the executable model of `FQ`, which is a `Field` by `Sem/FqZMod.lean`).
  `Props/C10.lean` restates the results through `Fq.toZMod`.
-/
import PyEcc.Lemmas.SwuAux
import PyEcc.Lemmas.SwuShape

set_option maxRecDepth 100000

namespace PyEcc.SwuSem
open PyEcc.Spec Gen.Consts

/-! ### concrete facts about the constants (kernel evaluation) -/

theorem ISO_11_A_ne : ISO_11_A ≠ 0 := by decide +kernel
theorem ISO_11_B_ne : ISO_11_B ≠ 0 := by decide +kernel
theorem ISO_11_Z_ne : ISO_11_Z ≠ 0 := by decide +kernel
theorem ISO_11_ZA_ne : ISO_11_Z * ISO_11_A ≠ 0 := by decide +kernel

/-- `SQRT_MINUS_11_CUBED² = −Z³ = (−11)³` in `F1` -/
theorem SQRT_MINUS_11_CUBED_sq : SQRT_MINUS_11_CUBED ^ 2 = -(ISO_11_Z ^ 3) := by decide +kernel

/-- in the exceptional case (`N = B`, `D = Z·A`) `sqrt_division_FQ` succeeds, i.e.
    `g(B/(Z·A))` is a square — RFC 9380 §6.6.2 requires this of `Z` (criterion 4 of Appendix H.2). -/
theorem exc_isRoot :
    (sqrtDivisionFq ((ISO_11_B * (0 + 1)) ^ 3 + ISO_11_A * (ISO_11_B * (0 + 1)) * (ISO_11_Z * ISO_11_A) ^ 2
      + ISO_11_B * (ISO_11_Z * ISO_11_A) ^ 3) ((ISO_11_Z * ISO_11_A) ^ 3)).1 = true := by
  decide +kernel

/-! ### the intermediate values of `optimized_swu_G1(t)` (defined in `Lemmas/SwuShape.lean`) -/

local notation "A'" => ISO_11_A
local notation "B'" => ISO_11_B
local notation "Z'" => ISO_11_Z

theorem swuT_eq (t : F1) : swuT t = Z' ^ 2 * t ^ 4 + Z' * t ^ 2 := by unfold swuT; ring

/-- the returned denominator is never zero -/
theorem swuD_ne (t : F1) : swuD t ≠ 0 := by
  unfold swuD
  split
  · exact ISO_11_ZA_ne
  · assumption

theorem swuD_of_T_ne (t : F1) (h : swuT t ≠ 0) : swuD t = -(A' * swuT t) := by
  unfold swuD
  rw [if_neg]
  exact neg_ne_zero.mpr (mul_ne_zero ISO_11_A_ne h)

theorem swuD_of_T_eq (t : F1) (h : swuT t = 0) : swuD t = Z' * A' := by
  unfold swuD
  rw [if_pos]
  rw [h, mul_zero, neg_zero]

/-- `N / D` is the RFC's `x1`, exceptional case included -/
theorem swuN_div_swuD (t : F1) : swuN t / swuD t = sswuX1 A' B' Z' t := by
  by_cases h : swuT t = 0
  · rw [swuD_of_T_eq t h]
    exact proj_x1_exceptional A' B' Z' t h
  · rw [swuD_of_T_ne t h]
    exact proj_x1_generic A' B' Z' t ISO_11_A_ne h

/-- `u / v = g(x1)` -/
theorem swuU_div_swuV (t : F1) : swuU t / swuV t = sswuG A' B' (sswuX1 A' B' Z' t) := by
  rw [← swuN_div_swuD]
  exact proj_g A' B' (swuN t) (swuD t) (swuD_ne t)

theorem swuV_ne (t : F1) : swuV t ≠ 0 := pow_ne_zero 3 (swuD_ne t)

/-- the code's check succeeds exactly when `g(x1)` is a square -/
theorem swuOk_iff (t : F1) : swuOk t = true ↔ IsSquare (sswuG A' B' (sswuX1 A' B' Z' t)) := by
  unfold swuOk
  rw [sqrtDiv_true_iff _ _ (swuV_ne t), swuU_div_swuV]

/-- in the exceptional case the check succeeds -/
theorem swuOk_of_T_eq (t : F1) (h : swuT t = 0) : swuOk t = true := by
  unfold swuOk swuU swuV swuN
  rw [swuD_of_T_eq t h, h]
  exact exc_isRoot

/-- first branch: the accepted candidate is a square root of `g(x1)` -/
theorem swuR_sq_of_ok (t : F1) (h : swuOk t = true) :
    swuR t ^ 2 = sswuG A' B' (sswuX1 A' B' Z' t) := by
  rcases sqrtDiv_spec (swuU t) (swuV t) (swuV_ne t) with ⟨_, h2, _⟩ | ⟨h1, _, _⟩
  · rw [← swuU_div_swuV, eq_div_iff (swuV_ne t)]; exact h2
  · unfold swuOk at h; rw [h] at h1; exact absurd h1 (by decide)

/-- second branch: the rejected candidate squares to `−g(x1)` -/
theorem swuR_sq_of_not_ok (t : F1) (h : swuOk t = false) :
    swuR t ^ 2 = -sswuG A' B' (sswuX1 A' B' Z' t) := by
  rcases sqrtDiv_spec (swuU t) (swuV t) (swuV_ne t) with ⟨h1, _, _⟩ | ⟨_, h2, _⟩
  · unfold swuOk at h; rw [h] at h1; exact absurd h1 (by decide)
  · rw [← swuU_div_swuV, ← neg_div, eq_div_iff (swuV_ne t)]; exact h2

/-- second branch: `(r·t³·SQRT_MINUS_11_CUBED)² = Z³t⁶·g(x1) = g(x2)` -/
theorem swuY0_sq_of_not_ok (t : F1) (h : swuOk t = false) :
    (swuR t * t ^ 3 * SQRT_MINUS_11_CUBED) ^ 2 = sswuG A' B' (sswuX2 A' B' Z' t) := by
  have hT : swuT t ≠ 0 := fun h0 => by
    rw [swuOk_of_T_eq t h0] at h; exact absurd h (by decide)
  rw [swuT_eq] at hT
  rw [sswuG_X2 A' B' Z' t ISO_11_A_ne hT, mul_pow, mul_pow, swuR_sq_of_not_ok t h,
    SQRT_MINUS_11_CUBED_sq]
  ring

theorem swuY0_sq (t : F1) :
    swuY0 t ^ 2 = sswuG A' B' (if swuOk t then sswuX1 A' B' Z' t else sswuX2 A' B' Z' t) := by
  unfold swuY0
  cases h : swuOk t
  · simp only [Bool.false_eq_true, if_false]; exact swuY0_sq_of_not_ok t h
  · simp only [if_true]; exact swuR_sq_of_ok t h

theorem swuY_sq (t : F1) : swuY t ^ 2 = swuY0 t ^ 2 := by
  unfold swuY; split <;> ring

theorem swuN'_div_swuD (t : F1) :
    swuN' t / swuD t = if swuOk t then sswuX1 A' B' Z' t else sswuX2 A' B' Z' t := by
  unfold swuN'
  cases swuOk t
  · simp only [Bool.false_eq_true, if_false]
    rw [mul_div_right_comm, swuN_div_swuD, sswuX2]; ring
  · simp only [if_true]; exact swuN_div_swuD t

theorem swuY_sgn0 (t : F1) : swuY t = 0 ∨ (swuY t).sgn0 = t.sgn0 := by
  unfold swuY
  by_cases hy : swuY0 t = 0
  · left; rw [hy]; simp
  · right
    by_cases h : t.sgn0 = (swuY0 t).sgn0
    · simp [h]
    · simp only [ne_eq, h, not_false_eq_true, if_true]
      have h1 := sgn0_neg_ne _ hy
      have h2 := sgn0_lt_two (swuY0 t); have h3 := sgn0_lt_two (-swuY0 t); have h4 := sgn0_lt_two t
      omega

/-- **`optimized_swu_G1` is the simplified SWU map** (in `F1`): with `(N, Y, D)` the returned triple,
    `D ≠ 0` and `(N/D, Y/D)` is related to `t` by RFC 9380 §6.6.2. -/
theorem optimizedSwuG1_isSswu (t : F1) :
    (optimizedSwuG1 t).2.2 ≠ 0 ∧
    IsSswu Fq.sgn0 A' B' Z' t ((optimizedSwuG1 t).1 / (optimizedSwuG1 t).2.2)
      ((optimizedSwuG1 t).2.1 / (optimizedSwuG1 t).2.2) := by
  rw [optimizedSwuG1_eq]
  dsimp only
  refine ⟨swuD_ne t, ?_⟩
  rw [mul_div_cancel_right₀ _ (swuD_ne t)]
  refine ⟨?_, swuY_sgn0 t⟩
  rw [swuY_sq, swuY0_sq, swuN'_div_swuD]
  cases h : swuOk t
  · right
    simp only [Bool.false_eq_true, if_false]
    exact ⟨fun hs => by rw [(swuOk_iff t).mpr hs] at h; exact absurd h (by decide), trivial, trivial⟩
  · left
    simp only [if_true]
    exact ⟨(swuOk_iff t).mp h, trivial, trivial⟩

end PyEcc.SwuSem
