/-
  PyEcc.Lemmas.Hb2Phi — the order-3 automorphism `φ(x, y) = (c²·x, y)` of `E : y² = x³ + b` (`c³ = 1`),
  field-generically, obtained from `TwistSem.twistHom` with `ψ = id`; and the resulting
  "`q² ∣ #E` from one point of order `q`" criterion used for the BLS12-381 / bn128 group orders (HB2).
-/
import PyEcc.Lemmas.TwistPoint
import PyEcc.Sem.GroupOrderK

set_option linter.unusedSectionVars false

namespace PyEcc.Hb2
open PyEcc PyEcc.CurveSem PyEcc.TwistSem WeierstrassCurve

section phi
variable {L : Type} [Field L] [DecidableEq L] {b c : L}
  (h2 : (2 : L) ≠ 0) (h3 : (3 : L) ≠ 0) (hb : b ≠ 0) (hc : c ^ 3 = 1)

include hc in
theorem c_ne_zero : c ≠ 0 := by
  rintro rfl
  simp at hc

include hc in
theorem phi_b : (RingHom.id L) b * c ^ 6 = b := by
  have : c ^ 6 = 1 := by
    have : c ^ 6 = (c ^ 3) ^ 2 := by ring
    rw [this, hc, one_pow]
  rw [this, mul_one]; rfl

/-- `φ : (x, y) ↦ (c²·x, y)`, an endomorphism of the Mathlib point group of `y² = x³ + b` -/
noncomputable def phi : (W b).Point →+ (W b).Point :=
  twistHom (RingHom.id L) (c_ne_zero hc) h2 h3 hb (phi_b hc)

theorem reprRef_phi (P : (W b).Point) :
    reprRef (phi h2 h3 hb hc P) = (reprRef P).map fun q => (q.1 * c ^ 2, q.2) := by
  rw [phi, reprRef_twistHom]
  rcases reprRef P with _ | ⟨x, y⟩
  · rfl
  · simp [twO, hc]

/-- `φ³ = id` -/
theorem phi_cube (P : (W b).Point) :
    phi h2 h3 hb hc (phi h2 h3 hb hc (phi h2 h3 hb hc P)) = P := by
  apply CurveSem.reprRef_injective
  rw [reprRef_phi, reprRef_phi, reprRef_phi]
  rcases reprRef P with _ | ⟨x, y⟩
  · rfl
  · simp only [Option.map_some]
    congr 2
    have : x * c ^ 2 * c ^ 2 * c ^ 2 = x * (c ^ 3) ^ 2 := by ring
    rw [this, hc, one_pow, mul_one]

/-- a projective triple `(X·w, Y, Z)` with `w = c²` represents `φ P` when `(X, Y, Z)` represents `P` -/
theorem represents_phi {T : L × L × L} {P : (W b).Point} {w : L} (hw : w = c ^ 2)
    (r : Represents T P) : Represents (T.1 * w, T.2.1, T.2.2) (phi h2 h3 hb hc P) := by
  unfold Represents at r ⊢
  rw [reprRef_phi, ← r, hw]
  unfold toAff
  by_cases hz : T.2.2 = 0
  · simp [hz]
  · simp only [hz, if_false, Option.map_some]
    congr 2
    field_simp

end phi

/-- **`q² ∣ #G` and a `(Z/q)²` subgroup from one point and an order-3 endomorphism** (abstract form):
    `P` of prime order `q`, `φ³ P = P`, and `φ P` different from `P`, `l₁ • P`, `l₂ • P` where
    `1, l₁, l₂` exhaust the cube roots of unity mod `q`. -/
theorem exists_sq_subgroup_of_phi {G : Type*} [AddCommGroup G] {q : ℕ} [hq : Fact q.Prime]
    (φ : G →+ G) (P : G) (hP0 : P ≠ 0) (hPq : q • P = 0) (h3 : φ (φ (φ P)) = P) (l₁ l₂ : ℕ)
    (hroots : ∀ k : ZMod q, k ^ 3 = 1 → k = 1 ∨ k = (l₁ : ZMod q) ∨ k = (l₂ : ZMod q))
    (c0 : φ P ≠ P) (c1 : φ P ≠ l₁ • P) (c2 : φ P ≠ l₂ • P) :
    ∃ H : AddSubgroup G, Nat.card H = q ^ 2 ∧ ∀ x ∈ H, q • x = 0 := by
  have hP : addOrderOf P = q := addOrderOf_eq_prime hPq hP0
  refine exists_sq_subgroup hq.out P (φ P) hP ?_ (not_mem_of_cube φ P hP h3 l₁ l₂ hroots c0 c1 c2)
  rw [← map_nsmul, hPq, map_zero]

end PyEcc.Hb2
