/-
  PyEcc.Lemmas.Swu2Field — the field `K2 = Fp[X]/(X²+1)` of BLS12-381 (`p² ` elements, Fermat), the
  value map `q = toQ : F2 → K2` on the executable model `F2 = Fqp .opt blsP blsMc2` of the optimized
  `FQ2` class (instance-notation forms of the refinement lemmas of `Sem/FqpQuot.lean`), and the
  kernel-evaluated facts about the tables `POSITIVE_EIGHTH_ROOTS_OF_UNITY`, `ETAS` and the constants
  `ISO_3_A`, `ISO_3_B`, `ISO_3_Z` that the proof of `optimized_swu_G2` needs.
-/
import PyEcc.Lemmas.Swu2Shape
import PyEcc.Props.C08_FqpInv
import Mathlib.FieldTheory.Finite.Basic
import Mathlib.FieldTheory.Finiteness
import Mathlib.RingTheory.PowerBasis
import Mathlib.Tactic.Ring
import Mathlib.Tactic.LinearCombination

set_option maxRecDepth 100000

namespace PyEcc.Swu2
open PyEcc PyEcc.Fqp PyEcc.FqpSem Gen.Consts Polynomial

/-! ### the field `K2` -/

instance irr2 : Fact (Irreducible (modulus blsP blsMc2)) := ⟨irreducible_modulus_fq2 (by decide)⟩

/-- `Fp² = Fp[X]/(X² + 1)` for the BLS12-381 base prime -/
abbrev K2 := AdjoinRoot (modulus blsP blsMc2)

theorem modulus_ne_zero : modulus blsP blsMc2 ≠ 0 := (modulus_monic _).ne_zero

instance : Module.Finite (ZMod blsP) K2 := (AdjoinRoot.powerBasis modulus_ne_zero).finite
instance : Finite K2 := Module.finite_of_finite (ZMod blsP)
noncomputable instance : Fintype K2 := Fintype.ofFinite K2

/-- `K2` has `p²` elements -/
theorem card_K2 : Fintype.card K2 = blsP ^ 2 := by
  rw [Module.card_eq_pow_finrank (K := ZMod blsP) (V := K2), ZMod.card,
    (AdjoinRoot.powerBasis modulus_ne_zero).finrank, AdjoinRoot.powerBasis_dim, natDegree_modulus]
  rfl

/-- Fermat in `K2`: `x^(p²−1) = 1` for `x ≠ 0` -/
theorem fermat_K2 (x : K2) (hx : x ≠ 0) : x ^ (blsP ^ 2 - 1) = 1 := by
  rw [← card_K2]; exact FiniteField.pow_card_sub_one_eq_one x hx

/-- `p² − 1 = 8·(2e + 1)` with `e = P_MINUS_9_DIV_16 = (p² − 9)/16` -/
theorem exp_eq : blsP ^ 2 - 1 = (2 * h2c_P_MINUS_9_DIV_16 + 1) * 8 := by decide +kernel

/-! ### the value map on the model, instance-notation forms -/

/-- the value of a model element in `K2` -/
noncomputable def q (x : F2) : K2 := toQ x

theorem hp : 0 < blsP := by decide
theorem hd : 1 ≤ blsMc2.length := by decide

theorem cn_zero : Canon (0 : F2) := canon_zero hp
theorem cn_one : Canon (1 : F2) := canon_one hp hd
theorem cn_mul {a b : F2} (ha : Canon a) (hb : Canon b) : Canon (a * b) := canon_mul hp ha.wf hb.wf
theorem cn_add {a b : F2} (ha : Canon a) (hb : Canon b) : Canon (a + b) := canon_add hp ha.wf hb.wf
theorem cn_sub {a b : F2} (ha : Canon a) (hb : Canon b) : Canon (a - b) := canon_sub hp ha.wf hb.wf
theorem cn_neg {a : F2} (ha : Canon a) : Canon (-a) := canon_neg hp ha.wf
theorem cn_pow {a : F2} (ha : Canon a) (n : ℕ) : Canon (a ^ n) := canon_pow hp hd ha.wf n

theorem q_zero : q (0 : F2) = 0 := toQ_zero
theorem q_one : q (1 : F2) = 1 := toQ_one
theorem q_mul {a b : F2} (ha : Canon a) (hb : Canon b) : q (a * b) = q a * q b := toQ_mul ha.wf hb.wf
theorem q_add {a b : F2} (ha : Canon a) (hb : Canon b) : q (a + b) = q a + q b := toQ_add ha.wf hb.wf
theorem q_sub {a b : F2} (ha : Canon a) (hb : Canon b) : q (a - b) = q a - q b := toQ_sub ha.wf hb.wf
theorem q_neg (a : F2) : q (-a) = -q a := toQ_neg a
theorem q_pow {a : F2} (ha : Canon a) (n : ℕ) : q (a ^ n) = q a ^ n := toQ_pow hd ha.wf n

theorem q_inj {a b : F2} (ha : Canon a) (hb : Canon b) (h : q a = q b) : a = b := toQ_inj ha hb h

theorem q_eq_zero {a : F2} (ha : Canon a) : q a = 0 ↔ a = 0 :=
  ⟨fun h => q_inj ha cn_zero (h.trans q_zero.symm), fun h => by rw [h, q_zero]⟩

/-- the model's test `a − b == 0` is equality of values -/
theorem sub_eq_zero_iff {a b : F2} (ha : Canon a) (hb : Canon b) : a - b = (0 : F2) ↔ q a = q b := by
  rw [← q_eq_zero (cn_sub ha hb), q_sub ha hb, sub_eq_zero]

/-- the input `a + b·i`, `0 ≤ a, b < p`, of `hash_to_G2` is a reduced element -/
theorem cn_f2c {a b : ℕ} (ha : a < blsP) (hb : b < blsP) : Canon (f2c [(a : Int), (b : Int)]) := by
  refine ⟨rfl, ?_⟩
  intro c hc
  simp only [f2c, List.mem_cons, List.not_mem_nil, or_false] at hc
  rcases hc with rfl | rfl
  · exact ⟨Int.natCast_nonneg _, by exact_mod_cast ha⟩
  · exact ⟨Int.natCast_nonneg _, by exact_mod_cast hb⟩

/-- division by a non-zero element -/
theorem q_div {a b : F2} (ha : Canon a) (hb : Canon b) (hne : b ≠ 0) :
    Canon (a / b) ∧ q (a / b) = q a / q b := by
  have h := C08P.inv_div_spec (v := .opt) (p := blsP) (mc := blsMc2) hd sane_fq2 ha hb hne
  have hc := (C08P.inv_refines (v := .opt) (p := blsP) (mc := blsMc2) hd irr2.out sane_fq2 hb hne).1
  exact ⟨cn_mul ha hc, h.2⟩

/-! ### the constants and tables (kernel evaluation in the model) -/

theorem cn_consts : Canon ISO_3_Z ∧ Canon ISO_3_A ∧ Canon ISO_3_B := by decide +kernel
theorem cn_Z : Canon ISO_3_Z := cn_consts.1
theorem cn_A : Canon ISO_3_A := cn_consts.2.1
theorem cn_B : Canon ISO_3_B := cn_consts.2.2

theorem cn_roots : ∀ x ∈ POSITIVE_EIGHTH_ROOTS_OF_UNITY, Canon x := by decide +kernel
theorem cn_etas : ∀ x ∈ ETAS, Canon x := by decide +kernel

/-- the entries of `POSITIVE_EIGHTH_ROOTS_OF_UNITY` -/
def rt (k : ℕ) : F2 := POSITIVE_EIGHTH_ROOTS_OF_UNITY.getD k 0
/-- the entries of `ETAS` -/
def et (k : ℕ) : F2 := ETAS.getD k 0

theorem roots_eq : POSITIVE_EIGHTH_ROOTS_OF_UNITY = [rt 0, rt 1, rt 2, rt 3] := by decide +kernel
theorem etas_eq : ETAS = [et 0, et 1, et 2, et 3] := by decide +kernel

theorem cn_rt : Canon (rt 0) ∧ Canon (rt 1) ∧ Canon (rt 2) ∧ Canon (rt 3) := by decide +kernel
theorem cn_et : Canon (et 0) ∧ Canon (et 1) ∧ Canon (et 2) ∧ Canon (et 3) := by decide +kernel

/-- **table facts, roots**: `POSITIVE_EIGHTH_ROOTS_OF_UNITY = [1, i, r₂, r₃]` with `i² = −1`,
    `r₂² = −i`, `r₃² = i` (so the squares of the four entries are the four 4th roots of unity) -/
theorem roots_facts :
    rt 0 = 1 ∧ rt 1 ^ 2 = -(1 : F2) ∧ rt 2 ^ 2 = -(rt 1) ∧ rt 3 ^ 2 = rt 1 := by decide +kernel

/-- **table facts, etas**: `η₀²·(−r₃) = η₁²·r₃ = η₂²·r₂ = η₃²·(−r₂) = Z³`, i.e. `ηₖ² = Z³/ζ` for the
    four primitive 8th roots of unity `ζ = ±r₂, ±r₃` -/
theorem etas_facts :
    et 0 ^ 2 * -(rt 3) - ISO_3_Z ^ 3 = 0 ∧ et 1 ^ 2 * rt 3 - ISO_3_Z ^ 3 = 0 ∧
    et 2 ^ 2 * rt 2 - ISO_3_Z ^ 3 = 0 ∧ et 3 ^ 2 * -(rt 2) - ISO_3_Z ^ 3 = 0 := by decide +kernel

theorem consts_ne : ISO_3_A ≠ 0 ∧ ISO_3_B ≠ 0 ∧ ISO_3_Z ≠ 0 ∧ ISO_3_Z * ISO_3_A ≠ 0 ∧ -(1 : F2) ≠ 1 := by
  decide +kernel

/-- in the exceptional case (`N = B`, `D = Z·A`) `sqrt_division_FQ2` succeeds, i.e. `g(B/(Z·A))` is a
    square in `Fp²` — RFC 9380 §6.6.2 requires this of `Z` (criterion 4 of Appendix H.2). -/
theorem exc_ok :
    (sqrtDivisionFq2 ((ISO_3_B * ((0 : F2) + (1 : F2))) ^ 3
        + ISO_3_A * (ISO_3_B * ((0 : F2) + (1 : F2))) * (ISO_3_Z * ISO_3_A) ^ 2
        + ISO_3_B * (ISO_3_Z * ISO_3_A) ^ 3) ((ISO_3_Z * ISO_3_A) ^ 3)).1 = true := by
  decide +kernel

/-! ### the imaginary unit and RFC 9380's constants in `K2` -/

/-- the class of `X` in `K2 = Fp[X]/(X²+1)`: the imaginary unit -/
noncomputable def i2 : K2 := AdjoinRoot.root (modulus blsP blsMc2)

/-- RFC 9380 §8.8.2: `A' = 240·I` -/
noncomputable def kA : K2 := 240 * i2
/-- RFC 9380 §8.8.2: `B' = 1012·(1 + I)` -/
noncomputable def kB : K2 := 1012 * (1 + i2)
/-- RFC 9380 §8.8.2: `Z = −(2 + I)` -/
noncomputable def kZ : K2 := -(2 + i2)

theorem i2_sq : i2 ^ 2 = -1 := by
  have hm : modulus blsP blsMc2 = Polynomial.X ^ 2 + 1 := modulus_fq2
  have h2 : AdjoinRoot.mk (modulus blsP blsMc2) (Polynomial.X ^ 2 + 1) = 0 := by
    rw [← hm]; exact AdjoinRoot.mk_self
  simp only [map_add, map_pow, map_one, AdjoinRoot.mk_X] at h2
  unfold i2
  linear_combination h2

theorem q_pair (a b : ℤ) : q (f2c [a, b]) = (a : K2) + (b : K2) * i2 := by
  unfold q toQ evQ f2c i2
  simp only [ev_cons, ev_nil, mul_zero, add_zero, map_add, map_mul, AdjoinRoot.mk_X, AdjoinRoot.mk_C]
  rw [mul_comm]
  simp

theorem q_consts : q ISO_3_A = kA ∧ q ISO_3_B = kB ∧ q ISO_3_Z = kZ := by
  refine ⟨?_, ?_, ?_⟩
  · show q (f2c [0, 240]) = _
    rw [q_pair]; unfold kA; push_cast; ring
  · show q (f2c [1012, 1012]) = _
    rw [q_pair]; unfold kB; push_cast; ring
  · have h : ISO_3_Z = -(f2c [2, 1]) := by decide +kernel
    rw [h, q_neg, q_pair]; unfold kZ; push_cast; ring

/-- reduction mod `p` of an integer does not change its value in `K2` -/
theorem cast_emod (x : ℤ) : ((x % (blsP : ℤ) : ℤ) : K2) = (x : K2) := by
  rw [← map_intCast (algebraMap (ZMod blsP) K2), ZMod.intCast_mod, map_intCast]

end PyEcc.Swu2
